(** C12 laws, part 9: a readable form of the cascade's post-condition, and Examples showing that
    the hypotheses of the main theorems are satisfiable by non-trivial inputs. *)
From Coq Require Import List ZArith Bool Arith Lia.
From VibeSQL Require Import Store.Fk Store.FkLaws Store.FkDeleteLaws Store.FkStepLaws Store.FkUpdateLaws Store.FkTheorems Store.FkTermination Store.FkWitness Store.FkActionLaws Store.FkCascadeLaws Store.FkDepthLaws.
Import ListNotations.

(** what a successful, event-free check_no_child_references establishes *)
Theorem cascade_check_spec : forall fuel ord p prow d ev d' ev' pt pk,
  inv d -> ord_ok ord d -> get_table d p = Some pt -> t_pk pt = Some pk ->
  check fuel ord p prow (d, ev) = OOk (d', ev') -> ev' = ev ->
  good d d' /\ unref d' p (proj pk prow).
Proof.
  intros fuel ord p prow d ev d' ev' pt pk I O G Hpk E Hc.
  destruct (check_ok ord fuel) as [_ [_ C]]. specialize (C p prow (d, ev) I O). rewrite E in C.
  destruct (C Hc) as [G1 U1]. split; [exact G1|]. eapply U1; eassumption.
Qed.

(* ------------------------------------------------------------------------------------ *)
(** * Examples *)

(** parent t0 <- child t1 (CASCADE / CASCADE) <- grandchild t2 (SET NULL / CASCADE) *)
Definition ex_db : db :=
  [parent0 [[v 1; None]; [v 2; None]; [v 3; None]];
   child1 ACascade ACascade None [[v 10; v 1]; [v 11; v 1]; [v 12; v 2]; [v 13; None]];
   mkTable 2 [colK; colN] (Some [0]) [mkFk [1] 1 [0] ASetNull ACascade] [[v 20; v 10]; [v 21; v 12]; [v 22; v 11]]].

Example ex_state_ok : inv ex_db /\ ord_ok [2; 0; 1] ex_db /\ RI ex_db.
Proof.
  split; [apply inv_b_inv; vm_compute; reflexivity|]. split; [apply ord_okb_ok; vm_compute; reflexivity|].
  apply ri_exact_b_RI. vm_compute. reflexivity.
Qed.

(** a two-row DELETE that cascades into t1 and nulls t2: outside every known class *)
Example ex_delete_step :
  known_class [2; 0; 1] (SDelete 0 (Some (PCmp 0 OLt 3))) ex_db = false
  /\ step_res [2; 0; 1] ex_db (SDelete 0 (Some (PCmp 0 OLt 3))) = ROk 2
  /\ map t_rows (step_db [2; 0; 1] ex_db (SDelete 0 (Some (PCmp 0 OLt 3))))
     = [[[v 3; None]]; [[v 13; None]]; [[v 20; None]; [v 21; None]; [v 22; None]]].
Proof. vm_compute. repeat split; reflexivity. Qed.

(** a multi-row key UPDATE that cascades through two levels is NOT outside the classes (the child's
    key is rewritten only if it is its foreign key); a one-level one is *)
Example ex_update_step :
  known_class [2; 0; 1] (SUpdate 0 [(0, EAdd 0 10)] None) ex_db = false
  /\ map t_rows (step_db [2; 0; 1] ex_db (SUpdate 0 [(0, EAdd 0 10)] None))
     = [[[v 11; None]; [v 12; None]; [v 13; None]];
        [[v 10; v 11]; [v 11; v 11]; [v 12; v 12]; [v 13; None]];
        [[v 20; v 10]; [v 21; v 12]; [v 22; v 11]]].
Proof. vm_compute. repeat split; reflexivity. Qed.

Definition ex_history : list (list nat * stmt) :=
  [([0; 1; 2], SInsert 0 [[v 4; None]]);
   ([1; 2; 0], SInsert 1 [[v 14; v 4]; [v 15; None]]);
   ([2; 1; 0], SUpdate 1 [(1, ELit (v 3))] (Some (PCmp 0 OEq 15)));
   ([0; 2; 1], SUpdate 0 [(0, ELit (v 40))] (Some (PCmp 0 OEq 4)));
   ([0; 1; 2], SDelete 0 (Some (POr (PCmp 0 OEq 1) (PCmp 0 OEq 40))));
   ([1; 0; 2], SInsert 1 [[v 16; v 9]]);                 (* rejected: no parent 9 *)
   ([1; 0; 2], SDelete 1 None);
   ([1; 0; 2], STruncate 0 true)].

(** the hypotheses of [ri_history] hold for a history with inserts, key updates, multi-row
    deletes, a rejected statement and a TRUNCATE CASCADE *)
Fixpoint hist_okb (d : db) (h : list (list nat * stmt)) : bool :=
  match h with
  | [] => true
  | (ord, s) :: h' => ord_okb ord d && negb (known_class ord s d) && hist_okb (step_db ord d s) h'
  end.

Lemma hist_okb_ok : forall h d, hist_okb d h = true -> hist_ok d h.
Proof.
  induction h as [|[ord s] h IH]; intros d H; cbn in *; [exact Logic.I|].
  apply andb_true_iff in H. destruct H as [H H3]. apply andb_true_iff in H. destruct H as [H1 H2].
  split; [apply ord_okb_ok; exact H1|]. split; [apply negb_true_iff; exact H2|apply IH; exact H3].
Qed.

Example ex_history_ok : hist_ok ex_db ex_history /\ map (fun t => length (t_rows t)) (run ex_db ex_history) = [0; 0; 0].
Proof. split; [apply hist_okb_ok; vm_compute; reflexivity|vm_compute; reflexivity]. Qed.

(** NO ACTION: hypotheses of [no_action_spec], both directions *)
Definition ex_na_db : db := [parent0 [[v 1; None]; [v 2; None]]; child1 ANoAction ANoAction None [[v 10; v 1]; [v 11; None]]].
Example ex_no_action :
  all_no_action ex_na_db 0 /\ referenced ex_na_db 0 [v 1] /\ ~ referenced ex_na_db 0 [v 2]
  /\ step_res [0; 1] ex_na_db (SDelete 0 (Some (PCmp 0 OEq 1))) = RErr EConstraint
  /\ step_res [0; 1] ex_na_db (SDelete 0 (Some (PCmp 0 OEq 2))) = ROk 1.
Proof.
  split.
  { intros ct fk [<-|[<-|[]]] Hfk; cbn in Hfk; [contradiction|]. destruct Hfk as [<-|[]]. intros _. left. reflexivity. }
  split.
  { exists (child1 ANoAction ANoAction None [[v 10; v 1]; [v 11; None]]), (mkFk [1] 0 [0] ANoAction ANoAction), [v 10; v 1].
    cbn. repeat split; auto. }
  split.
  { intros [ct [fk [r [Hct [Hfk [_ [Hr Href]]]]]]]. destruct Hct as [<-|[<-|[]]]; cbn in Hfk; [contradiction|].
    destruct Hfk as [<-|[]]. destruct Hr as [<-|[<-|[]]]; vm_compute in Href; discriminate. }
  vm_compute. split; reflexivity.
Qed.

(** a rank function for the three-level schema: termination whatever the rows *)
Example ex_rank : rank_ok (fun n => 2 - n) ex_db.
Proof.
  intros ct fk [<-|[<-|[<-|[]]]] Hfk Ha; cbn in Hfk; try contradiction; destruct Hfk as [<-|[]]; cbn in *; try lia; discriminate.
Qed.

(** an INSERT that would create an orphan *)
Example ex_insert_orphan : exists e, exec_insert ex_db 1 [[v 99; v 7]] = ((ex_db, []), RErr e).
Proof. eexists. vm_compute. reflexivity. Qed.

(** SET NULL, exactly *)
Example ex_set_null :
  set_null 2 (mkFk [1] 1 [0] ASetNull ACascade) [v 10] (ex_db, []) =
  OOk (set_rows ex_db 2 [[v 20; None]; [v 21; v 12]; [v 22; v 11]], []).
Proof. vm_compute. reflexivity. Qed.

(** the hypotheses of [delete_terminates_without_cycle]: a parent with two CASCADE children rows *)
Definition ex_acyc : db := [parent0 [[v 1; None]]; child1 ACascade ANoAction None [[v 10; v 1]; [v 11; v 1]]].

Example ex_no_cycle : inv ex_acyc /\ nsd ex_acyc /\ no_cascade_cycle_from ex_acyc (0, [v 1]).
Proof.
  split; [apply inv_b_inv; vm_compute; reflexivity|]. split.
  { intros ct fk [<-|[<-|[]]] Hfk Ha; cbn in Hfk; [contradiction|]. destruct Hfk as [<-|[]]. discriminate. }
  intros l Hl.
  (* a chain has at most one link: the children are not referenced by anybody *)
  assert (LEAF : forall y l', fst y = 1 -> chain ex_acyc y l' -> l' = []).
  { intros y l' Hy Hc. destruct Hc as [|x z l2 [ct [fk [r [pkc [Hct [Hfk [Hp _]]]]]]] _]; [reflexivity|].
    exfalso. destruct Hct as [<-|[<-|[]]]; cbn in Hfk; [contradiction|]. destruct Hfk as [<-|[]]. cbn in Hp. congruence. }
  destruct Hl as [|x y l2 [ct [fk [r [pkc [Hct [Hfk [Hp [_ [Hr [_ [Hpk ->]]]]]]]]]]] Hc]; [constructor|].
  destruct Hct as [<-|[<-|[]]]; cbn in Hfk; [contradiction|].
  assert (L2 : l2 = []) by (eapply LEAF; [|exact Hc]; reflexivity). rewrite L2. repeat constructor. intros [].
Qed.

(** the rows a DELETE may drop: the statement of [delete_drops_only_doomed] on the three-level example *)
Example ex_doomed : doomed ex_db 0 (selected_rows ex_db 0 (Some (PCmp 0 OLt 3))) 1 [v 10; v 1].
Proof.
  eapply (dm_cas ex_db 0 _ 0 (parent0 [[v 1; None]; [v 2; None]; [v 3; None]]) [0] [v 1; None]
            (child1 ACascade ACascade None [[v 10; v 1]; [v 11; v 1]; [v 12; v 2]; [v 13; None]])
            (mkFk [1] 0 [0] ACascade ACascade));
    try reflexivity; try (cbn; auto; fail).
  apply dm_sel. vm_compute. left. reflexivity.
Qed.

(** INSERT .. SELECT on the bulk-transfer path: every row is validated against the table as it is
    BEFORE the statement (like INSERT VALUES), then all rows are inserted; a row that references
    another row of the same statement is refused and nothing is inserted *)
Definition ex_bulk_db : db :=
  [selfref ANoAction ANoAction []; mkTable 1 [colK; colN] (Some [0]) [] [[v 1; None]; [v 2; v 1]; [v 3; v 2]]].
Definition ex_bulk_db2 : db :=
  [selfref ANoAction ANoAction [[v 1; None]]; mkTable 1 [colK; colN] (Some [0]) [] [[v 2; v 1]; [v 3; v 1]]].

Example ex_insert_select :
  inv ex_bulk_db /\ RI ex_bulk_db
  /\ step_res [0; 1] ex_bulk_db (SInsertSelect 0 1 true []) = RErr EConstraint
  /\ step_db [0; 1] ex_bulk_db (SInsertSelect 0 1 true []) = ex_bulk_db
  /\ inv ex_bulk_db2 /\ RI ex_bulk_db2
  /\ known_class [0; 1] (SInsertSelect 0 1 true []) ex_bulk_db2 = false
  /\ step_res [0; 1] ex_bulk_db2 (SInsertSelect 0 1 true []) = ROk 2.
Proof.
  split; [apply inv_b_inv; vm_compute; reflexivity|]. split; [apply ri_exact_b_RI; vm_compute; reflexivity|].
  split; [vm_compute; reflexivity|]. split; [vm_compute; reflexivity|].
  split; [apply inv_b_inv; vm_compute; reflexivity|]. split; [apply ri_exact_b_RI; vm_compute; reflexivity|].
  vm_compute. split; reflexivity.
Qed.
