(** Laws of the [PasswordStore] model (Store/Auth.v): string primitives, [trim], [lines], the password
    file line parser, exact characterisations of [verify_cleartext] / [verify_md5], rejection theorems,
    the refinement between the concrete store and "what every secret was created from", the property over
    histories, and the instantiation with the concrete MD5. *)
From Coq Require Import ZArith List Bool Lia.
From VibeSQL Require Import Generated.Consts Store.Md5 Store.Md5Laws Store.Auth.
Import ListNotations.
Open Scope Z_scope.

(** ** string primitives *)
Lemma str_eqb_eq a b : str_eqb a b = true <-> a = b.
Proof.
  revert b. induction a as [|x a IH]; intros [|y b]; cbn [str_eqb]; try (split; congruence).
  rewrite andb_true_iff, Z.eqb_eq, IH. split; [intros [-> ->]; reflexivity | intros E; inversion E; auto].
Qed.

Lemma str_eqb_refl a : str_eqb a a = true.
Proof. apply str_eqb_eq. reflexivity. Qed.

Lemma str_eqb_neq a b : str_eqb a b = false <-> a <> b.
Proof.
  split.
  - intros H E. apply str_eqb_eq in E. congruence.
  - intros H. destruct (str_eqb a b) eqn:E; [apply str_eqb_eq in E; contradiction | reflexivity].
Qed.

Lemma starts_with_iff p s : starts_with p s = true <-> exists r, s = p ++ r.
Proof.
  revert s. induction p as [|x p IH]; intros s; cbn [starts_with].
  - split; [intros _; exists s; reflexivity | reflexivity].
  - destruct s as [|y s].
    + split; [discriminate | intros [r H]; discriminate].
    + rewrite andb_true_iff, Z.eqb_eq, IH. split.
      * intros [-> [r ->]]. exists r. reflexivity.
      * intros [r H]. inversion H. split; [reflexivity | exists r; reflexivity].
Qed.

Lemma strip_prefix_Some p s r : strip_prefix p s = Some r <-> s = p ++ r.
Proof.
  revert s. induction p as [|x p IH]; intros s; cbn [strip_prefix].
  - split; [intros E; inversion E; reflexivity | intros ->; reflexivity].
  - destruct s as [|y s].
    + split; [discriminate | discriminate].
    + destruct (Z.eqb_spec x y) as [->|N].
      * rewrite IH. split; [intros ->; reflexivity | intros E; inversion E; reflexivity].
      * split; [discriminate | intros E; inversion E; congruence].
Qed.

Lemma strip_prefix_app p r : strip_prefix p (p ++ r) = Some r.
Proof. apply strip_prefix_Some. reflexivity. Qed.

Lemma strip_prefix_starts p s : strip_prefix p s = None <-> starts_with p s = false.
Proof.
  revert s. induction p as [|x p IH]; intros s; cbn [strip_prefix starts_with].
  - split; discriminate.
  - destruct s as [|y s]; [split; reflexivity|].
    destruct (x =? y); cbn [andb]; [apply IH | split; reflexivity].
Qed.

(** ** whitespace and trimming *)
Definition head_ok (s : str) : Prop := match s with [] => True | c :: _ => is_ws c = false end.
(** [clean s]: neither the first nor the last character is whitespace (what [trim] guarantees) *)
Definition clean (s : str) : Prop := head_ok s /\ head_ok (rev s).

Lemma is_ws_colon : is_ws 58 = false. Proof. reflexivity. Qed.
Lemma is_ws_hash : is_ws 35 = false. Proof. reflexivity. Qed.
Lemma is_ws_nl : is_ws 10 = true. Proof. reflexivity. Qed.
Lemma is_ws_cr : is_ws 13 = true. Proof. reflexivity. Qed.

Lemma all_ws_not_in c w : is_ws c = false -> all_ws w -> ~ In c w.
Proof.
  intros Hc Hw Hin. unfold all_ws in Hw. rewrite Forall_forall in Hw. specialize (Hw _ Hin). congruence.
Qed.

Lemma trim_start_all_ws w s : all_ws w -> trim_start (w ++ s) = trim_start s.
Proof.
  induction 1 as [|c w Hc Hw IH]; [reflexivity|]. cbn [app trim_start]. rewrite Hc. exact IH.
Qed.

Lemma trim_start_ws_nil w : all_ws w -> trim_start w = [].
Proof. intros H. rewrite <- (app_nil_r w). rewrite trim_start_all_ws by assumption. reflexivity. Qed.

Lemma trim_start_head_ok s : head_ok s -> trim_start s = s.
Proof. destruct s as [|c r]; [reflexivity|]. cbn [head_ok trim_start]. intros ->. reflexivity. Qed.

Lemma trim_start_head s : head_ok (trim_start s).
Proof.
  induction s as [|c r IH]; [exact I|]. cbn [trim_start]. destruct (is_ws c) eqn:E; [exact IH | exact E].
Qed.

Lemma trim_start_idem s : trim_start (trim_start s) = trim_start s.
Proof. apply trim_start_head_ok, trim_start_head. Qed.

(** a non-whitespace character stops [trim_start] *)
Lemma trim_start_app_stop x c y : is_ws c = false -> trim_start (x ++ c :: y) = trim_start x ++ c :: y.
Proof.
  intros Hc. induction x as [|d x IH]; cbn [app trim_start].
  - rewrite Hc. reflexivity.
  - destruct (is_ws d); [exact IH | reflexivity].
Qed.

Lemma trim_end_app_stop a c b : is_ws c = false -> trim_end (a ++ c :: b) = a ++ c :: trim_end b.
Proof.
  intros Hc. unfold trim_end. rewrite rev_app_distr. cbn [rev]. rewrite <- app_assoc. cbn [app].
  rewrite trim_start_app_stop by assumption. rewrite rev_app_distr. cbn [rev].
  rewrite rev_involutive, <- app_assoc. reflexivity.
Qed.

Lemma all_ws_rev w : all_ws w -> all_ws (rev w).
Proof. unfold all_ws. intros H. apply Forall_rev. exact H. Qed.

Lemma trim_end_all_ws s w : all_ws w -> trim_end (s ++ w) = trim_end s.
Proof.
  intros H. unfold trim_end. rewrite rev_app_distr, trim_start_all_ws by (apply all_ws_rev; exact H). reflexivity.
Qed.

Lemma trim_end_ws_nil w : all_ws w -> trim_end w = [].
Proof. intros H. unfold trim_end. rewrite trim_start_ws_nil by (apply all_ws_rev; exact H). reflexivity. Qed.

Lemma trim_end_last_ok s : head_ok (rev s) -> trim_end s = s.
Proof. intros H. unfold trim_end. rewrite trim_start_head_ok by exact H. apply rev_involutive. Qed.

Lemma trim_end_last s : head_ok (rev (trim_end s)).
Proof. unfold trim_end. rewrite rev_involutive. apply trim_start_head. Qed.

Lemma trim_end_head s : head_ok s -> head_ok (trim_end s).
Proof.
  destruct s as [|c r]; [intros _; exact I|]. cbn [head_ok]. intros Hc.
  change (c :: r) with ([] ++ c :: r). rewrite trim_end_app_stop by exact Hc. exact Hc.
Qed.

Theorem trim_clean s : clean (trim s).
Proof. split; unfold trim; [apply trim_end_head, trim_start_head | apply trim_end_last]. Qed.

Theorem clean_trim s : clean s -> trim s = s.
Proof. intros [H1 H2]. unfold trim. rewrite trim_start_head_ok by exact H1. apply trim_end_last_ok, H2. Qed.

Theorem trim_fix_iff s : trim s = s <-> clean s.
Proof. split; [intros <-; apply trim_clean | apply clean_trim]. Qed.

Theorem trim_idem s : trim (trim s) = trim s.
Proof. apply clean_trim, trim_clean. Qed.

(** the characterisation of [trim]: surrounding whitespace is removed, a clean core is kept *)
Theorem trim_pad w1 s w2 : all_ws w1 -> all_ws w2 -> clean s -> trim (w1 ++ s ++ w2) = s.
Proof.
  intros H1 H2 [Hh Hl]. unfold trim. rewrite trim_start_all_ws by exact H1.
  destruct s as [|c r].
  - cbn [app]. rewrite trim_start_ws_nil by exact H2. reflexivity.
  - cbn [head_ok] in Hh. cbn [app trim_start]. rewrite Hh.
    change (c :: r ++ w2) with ((c :: r) ++ w2). rewrite trim_end_all_ws by exact H2.
    apply trim_end_last_ok, Hl.
Qed.

Lemma trim_ws_nil w : all_ws w -> trim w = [].
Proof. intros H. unfold trim. rewrite trim_start_ws_nil by exact H. reflexivity. Qed.

(** [trim] only removes whitespace: the input is pad ++ trim s ++ pad *)
Lemma trim_start_decomp s : exists w, all_ws w /\ s = w ++ trim_start s.
Proof.
  induction s as [|c r [w [Hw E]]]; [exists []; split; [constructor | reflexivity]|].
  cbn [trim_start]. destruct (is_ws c) eqn:Ec.
  - exists (c :: w). split; [constructor; assumption | cbn [app]; congruence].
  - exists []. split; [constructor | reflexivity].
Qed.

Lemma trim_end_decomp s : exists w, all_ws w /\ s = trim_end s ++ w.
Proof.
  destruct (trim_start_decomp (rev s)) as [w [Hw E]].
  exists (rev w). split; [apply all_ws_rev, Hw|].
  unfold trim_end. rewrite <- rev_app_distr, <- E, rev_involutive. reflexivity.
Qed.

Theorem trim_decomp s : exists w1 w2, all_ws w1 /\ all_ws w2 /\ s = w1 ++ trim s ++ w2.
Proof.
  destruct (trim_start_decomp s) as [w1 [H1 E1]].
  destruct (trim_end_decomp (trim_start s)) as [w2 [H2 E2]].
  exists w1, w2. repeat split; try assumption. unfold trim. rewrite <- E2. exact E1.
Qed.

Lemma trim_not_in c s : ~ In c s -> ~ In c (trim s).
Proof.
  intros H Hin. destruct (trim_decomp s) as [w1 [w2 [_ [_ E]]]]. apply H. rewrite E.
  apply in_or_app. right. apply in_or_app. left. exact Hin.
Qed.

Lemma all_ws_app a b : all_ws a -> all_ws b -> all_ws (a ++ b).
Proof. unfold all_ws. intros. apply Forall_app. split; assumption. Qed.

Theorem trim_ws_app w s : all_ws w -> trim (w ++ s) = trim s.
Proof. intros H. unfold trim. rewrite trim_start_all_ws by exact H. reflexivity. Qed.

Theorem trim_app_ws s w : all_ws w -> trim (s ++ w) = trim s.
Proof.
  intros Hw. destruct (trim_start_decomp s) as [w0 [H0 E]].
  destruct (trim_start s) as [|d t] eqn:Et.
  - rewrite app_nil_r in E. subst s. rewrite (trim_ws_nil w0 H0).
    apply trim_ws_nil, all_ws_app; assumption.
  - pose proof (trim_start_head s) as Hd. rewrite Et in Hd. cbn [head_ok] in Hd.
    unfold trim at 2. rewrite Et.
    rewrite E, <- app_assoc, trim_ws_app by exact H0.
    unfold trim. change ((d :: t) ++ w) with (d :: t ++ w). cbn [trim_start]. rewrite Hd.
    change (d :: t ++ w) with ((d :: t) ++ w). apply trim_end_all_ws, Hw.
Qed.

(** ** [lines] *)
Lemma strip_cr_trim l : trim (strip_cr l) = trim l.
Proof.
  unfold strip_cr. destruct (rev l) as [|c r] eqn:E; [reflexivity|].
  assert (El : l = rev r ++ [c]) by (rewrite <- (rev_involutive l), E; reflexivity).
  destruct (Z.eqb_spec c 13) as [->|N].
  - rewrite El. symmetry. apply trim_app_ws. constructor; [reflexivity | constructor].
  - destruct c as [|p|p]; try reflexivity.
    repeat (destruct p as [p|p|]; try reflexivity); contradiction N; reflexivity.
Qed.


Lemma raw_lines_line l rest : ~ In 10 l -> raw_lines (l ++ 10 :: rest) = (l, true) :: raw_lines rest.
Proof.
  induction l as [|c l IH]; intros H.
  - reflexivity.
  - cbn [app raw_lines]. destruct (Z.eqb_spec c 10) as [->|N]; [exfalso; apply H; left; reflexivity|].
    rewrite IH by (intros Hin; apply H; right; exact Hin). reflexivity.
Qed.

Lemma raw_lines_last l : l <> [] -> ~ In 10 l -> raw_lines l = [(l, false)].
Proof.
  induction l as [|c l IH]; intros Hne H; [contradiction|].
  cbn [raw_lines]. destruct (Z.eqb_spec c 10) as [->|N]; [exfalso; apply H; left; reflexivity|].
  destruct l as [|d l]; [reflexivity|].
  rewrite IH; [reflexivity | discriminate | intros Hin; apply H; right; exact Hin].
Qed.

(** [lines] loses nothing but the terminators and yields no line containing '\n' *)
Theorem raw_lines_concat s :
  concat (map (fun '(l, t) => l ++ if (t : bool) then [10] else []) (raw_lines s)) = s.
Proof.
  induction s as [|c r IH]; [reflexivity|].
  cbn [raw_lines]. destruct (Z.eqb_spec c 10) as [->|N].
  - cbn [map concat app]. rewrite IH. reflexivity.
  - destruct (raw_lines r) as [|[h t] rest].
    + cbn in IH. subst r. reflexivity.
    + cbn [map concat] in *. rewrite <- IH. rewrite <- !app_assoc. reflexivity.
Qed.

Theorem raw_lines_no_nl s : Forall (fun '(l, _) => ~ In 10 l) (raw_lines s).
Proof.
  induction s as [|c r IH]; [constructor|].
  cbn [raw_lines]. destruct (Z.eqb_spec c 10) as [->|N].
  - constructor; [intros [] | exact IH].
  - destruct (raw_lines r) as [|[h t] rest].
    + constructor; [intros [E|[]]; congruence | constructor].
    + inversion IH as [|x y Hh Hrest]; subst. constructor; [|exact Hrest].
      intros [E|Hin]; [congruence | exact (Hh Hin)].
Qed.

Theorem lines_unlines ls : Forall (fun l => ~ In 10 l) ls -> lines (unlines ls) = map strip_cr ls.
Proof.
  unfold lines, unlines. induction 1 as [|l ls Hl Hls IH]; [reflexivity|].
  cbn [map concat]. rewrite <- app_assoc. cbn [app]. rewrite raw_lines_line by exact Hl.
  cbn [map]. rewrite IH. reflexivity.
Qed.

Theorem lines_unlines_last ls l :
  Forall (fun l => ~ In 10 l) ls -> l <> [] -> ~ In 10 l -> lines (unlines ls ++ l) = map strip_cr ls ++ [l].
Proof.
  unfold lines, unlines. intros Hls Hne Hl. induction Hls as [|x ls Hx Hls IH].
  - cbn [map concat app]. rewrite raw_lines_last by assumption. reflexivity.
  - cbn [map concat]. rewrite <- !app_assoc. cbn [app]. rewrite raw_lines_line by exact Hx.
    cbn [map app]. rewrite IH. reflexivity.
Qed.

(** ** [splitn(2, ':')] *)
Lemma split_colon_app a b : ~ In 58 a -> split_colon (a ++ 58 :: b) = Some (a, b).
Proof.
  induction a as [|c a IH]; intros H; [reflexivity|].
  cbn [app split_colon]. destruct (Z.eqb_spec c 58) as [->|N]; [exfalso; apply H; left; reflexivity|].
  rewrite IH by (intros Hin; apply H; right; exact Hin). reflexivity.
Qed.

Lemma split_colon_Some s a b : split_colon s = Some (a, b) -> s = a ++ 58 :: b /\ ~ In 58 a.
Proof.
  revert a. induction s as [|c s IH]; intros a; cbn [split_colon]; [discriminate|].
  destruct (Z.eqb_spec c 58) as [->|N].
  - intros E. inversion E; subst. split; [reflexivity | intros []].
  - destruct (split_colon s) as [[a' b']|]; [|discriminate].
    intros E. inversion E; subst. destruct (IH a' eq_refl) as [-> Hn].
    split; [reflexivity | intros [E'|Hin]; [congruence | exact (Hn Hin)]].
Qed.

Lemma split_colon_None s : split_colon s = None <-> ~ In 58 s.
Proof.
  induction s as [|c s IH]; cbn [split_colon].
  - split; [intros _ [] | reflexivity].
  - destruct (Z.eqb_spec c 58) as [->|N].
    + split; [discriminate | intros H; exfalso; apply H; left; reflexivity].
    + destruct (split_colon s) as [[a b]|].
      * split; [discriminate | intros H; exfalso].
        assert (Hs : ~ In 58 s) by (intros Hin; apply H; right; exact Hin).
        apply IH in Hs. discriminate.
      * split; [intros _ [E|Hin]; [congruence | apply (proj1 IH eq_refl Hin)] | reflexivity].
Qed.

(** ** one line of the password file *)
Lemma is_empty_nil s : is_empty s = true <-> s = [].
Proof. destruct s; cbn; split; congruence. Qed.

Theorem parse_line_skip_iff raw :
  parse_line raw = LSkip <-> trim raw = [] \/ exists r, trim raw = 35 :: r.
Proof.
  unfold parse_line. destruct (trim raw) as [|c r] eqn:E.
  - cbn. split; [intros _; left; reflexivity | reflexivity].
  - unfold HASH_CHAR. cbn [is_empty orb starts_with]. destruct (Z.eqb_spec 35 c) as [<-|N]; cbn [andb].
    + split; [intros _; right; exists r; reflexivity | reflexivity].
    + destruct (split_colon (c :: r)) as [[a b]|].
      * destruct (is_empty (trim a)); split; try discriminate;
          intros [H|[r' H]]; try discriminate; inversion H; congruence.
      * split; [discriminate | intros [H|[r' H]]; [discriminate | inversion H; congruence]].
Qed.

Theorem parse_line_blank w : all_ws w -> parse_line w = LSkip.
Proof. intros H. apply parse_line_skip_iff. left. apply trim_ws_nil, H. Qed.

Theorem parse_line_comment w r : all_ws w -> parse_line (w ++ 35 :: r) = LSkip.
Proof.
  intros H. apply parse_line_skip_iff. right. rewrite trim_ws_app by exact H.
  unfold trim. cbn [trim_start]. rewrite is_ws_hash.
  change (35 :: r) with ([] ++ 35 :: r). rewrite trim_end_app_stop by reflexivity.
  exists (trim_end r). reflexivity.
Qed.

Theorem parse_line_no_colon raw :
  ~ In 58 raw -> parse_line raw <> LSkip -> parse_line raw = LBadFormat.
Proof.
  intros Hc Hs. unfold parse_line in *.
  destruct (is_empty (trim raw) || starts_with [HASH_CHAR] (trim raw)); [contradiction Hs; reflexivity|].
  assert (H : split_colon (trim raw) = None) by (apply split_colon_None, trim_not_in, Hc).
  rewrite H. reflexivity.
Qed.

(** what an accepted line says about the entry that is stored *)
Theorem parse_line_entry_inv raw u v :
  parse_line raw = LEntry u v ->
  u <> [] /\ trim u = u /\ trim v = v /\ ~ In 58 u /\ (forall r, trim raw <> 35 :: r) /\
  exists a b, trim raw = a ++ 58 :: b /\ ~ In 58 a /\ u = trim a /\ v = trim b.
Proof.
  unfold parse_line. intros H.
  destruct (is_empty (trim raw) || starts_with [HASH_CHAR] (trim raw)) eqn:Esk; [discriminate|].
  destruct (split_colon (trim raw)) as [[a b]|] eqn:Esp; [|discriminate].
  destruct (is_empty (trim a)) eqn:Ee; [discriminate|].
  inversion H; subst. apply split_colon_Some in Esp. destruct Esp as [Eraw Hna].
  repeat split.
  - intros E. rewrite E in Ee. discriminate.
  - apply trim_idem.
  - apply trim_idem.
  - apply trim_not_in, Hna.
  - intros r Er. rewrite Er in Esk. cbn in Esk. discriminate.
  - exists a, b. repeat split; assumption.
Qed.

(** the file format works: a clean user name (non-empty, no ':', not starting with '#') and a clean
    value, with arbitrary whitespace padding around both, is read back exactly *)
Theorem parse_line_roundtrip w1 u w2 w3 v w4 :
  all_ws w1 -> all_ws w2 -> all_ws w3 -> all_ws w4 ->
  u <> [] -> trim u = u -> ~ In 58 u -> (forall r, u <> 35 :: r) -> trim v = v ->
  parse_line (w1 ++ u ++ w2 ++ 58 :: w3 ++ v ++ w4) = LEntry u v.
Proof.
  intros H1 H2 H3 H4 Hne Hu Hcol Hhash Hv.
  apply trim_fix_iff in Hu. apply trim_fix_iff in Hv.
  destruct u as [|c ru]; [contradiction|]. destruct Hu as [Hh Hl]. cbn [head_ok] in Hh.
  assert (Eline : trim (w1 ++ (c :: ru) ++ w2 ++ 58 :: w3 ++ v ++ w4) = ((c :: ru) ++ w2) ++ 58 :: trim_end (w3 ++ v)).
  { rewrite trim_ws_app by exact H1. unfold trim. cbn [app trim_start]. rewrite Hh.
    replace (c :: ru ++ w2 ++ 58 :: w3 ++ v ++ w4) with (((c :: ru) ++ w2) ++ 58 :: (w3 ++ v) ++ w4)
      by (rewrite <- !app_assoc; reflexivity).
    rewrite trim_end_app_stop by reflexivity. rewrite trim_end_all_ws by exact H4. reflexivity. }
  unfold parse_line. rewrite Eline.
  assert (Hc35 : c <> 35) by (intros ->; apply (Hhash ru); reflexivity).
  unfold HASH_CHAR. cbn [app is_empty orb starts_with].
  destruct (Z.eqb_spec 35 c) as [E|_]; [congruence|]. cbn [andb].
  change (c :: (ru ++ w2) ++ 58 :: trim_end (w3 ++ v)) with (((c :: ru) ++ w2) ++ 58 :: trim_end (w3 ++ v)).
  rewrite split_colon_app.
  2:{ intros Hin. apply in_app_or in Hin. destruct Hin as [Hin|Hin]; [exact (Hcol Hin)|].
      exact (all_ws_not_in 58 w2 is_ws_colon H2 Hin). }
  assert (Eu : trim ((c :: ru) ++ w2) = c :: ru).
  { rewrite trim_app_ws by exact H2. apply clean_trim. split; [exact Hh | exact Hl]. }
  rewrite Eu. cbn [is_empty].
  assert (Ev : trim (trim_end (w3 ++ v)) = v).
  { destruct v as [|d rv].
    - rewrite app_nil_r, trim_end_ws_nil by exact H3. reflexivity.
    - destruct Hv as [Hvh Hvl]. rewrite trim_end_last_ok.
      + rewrite trim_ws_app by exact H3. apply clean_trim. split; assumption.
      + rewrite rev_app_distr. destruct (rev (d :: rv)) as [|e t] eqn:Er.
        * apply (f_equal (@length Z)) in Er. rewrite rev_length in Er. discriminate.
        * exact Hvl. }
  rewrite Ev. reflexivity.
Qed.

(** ** hex *)
Lemma hexdigit_lower n : 0 <= n < 16 -> is_lower_hex (hexdigit n) = true.
Proof.
  intros H. unfold hexdigit, is_lower_hex.
  destruct (Z.ltb_spec n 10); rewrite orb_true_iff, !andb_true_iff, !Z.leb_le; [left | right]; lia.
Qed.

Lemma hex_byte_lower b : forallb is_lower_hex (hex_byte b) = true.
Proof.
  unfold hex_byte. cbn [forallb].
  rewrite !hexdigit_lower; [reflexivity | apply Z.mod_pos_bound; lia | apply Z.mod_pos_bound; lia].
Qed.

Theorem hex_lower l : forallb is_lower_hex (hex l) = true.
Proof.
  unfold hex. induction l as [|b l IH]; [reflexivity|].
  cbn [flat_map]. rewrite forallb_app, hex_byte_lower, IH. reflexivity.
Qed.

Theorem hex_length l : length (hex l) = (2 * length l)%nat.
Proof. unfold hex. induction l as [|b l IH]; [reflexivity|]. cbn [flat_map app length hex_byte]. lia. Qed.

(** no hex string starts with "md5": 'm' is not a hex digit *)
Lemma hex_not_md5_prefix l : strip_prefix MD5_RESP_PREFIX (hex l) = None.
Proof.
  destruct l as [|b l]; [reflexivity|].
  unfold hex. cbn [flat_map hex_byte app]. unfold MD5_RESP_PREFIX. cbn [strip_prefix].
  pose proof (hexdigit_lower ((b / 16) mod 16) ltac:(apply Z.mod_pos_bound; lia)) as H.
  destruct (Z.eqb_spec 109 (hexdigit ((b / 16) mod 16))) as [E|N]; [|reflexivity].
  rewrite <- E in H. discriminate.
Qed.

Lemma utf8_ascii s : Forall (fun c => 0 <= c < 128) s -> utf8 s = s.
Proof.
  unfold utf8. induction 1 as [|c s Hc Hs IH]; [reflexivity|].
  cbn [flat_map]. rewrite IH. unfold utf8_char. destruct (Z.ltb_spec c 128); [reflexivity | lia].
Qed.

Lemma is_lower_hex_ascii c : is_lower_hex c = true -> 0 <= c < 128.
Proof.
  unfold is_lower_hex. rewrite orb_true_iff, !andb_true_iff, !Z.leb_le. lia.
Qed.

(** [inner_hex.as_bytes()] is the hex text itself *)
Theorem utf8_hex l : utf8 (hex l) = hex l.
Proof.
  apply utf8_ascii. apply Forall_forall. intros c Hc. apply is_lower_hex_ascii.
  pose proof (hex_lower l) as H. rewrite forallb_forall in H. apply H, Hc.
Qed.

(** ** UTF-8: the encoding is injective, so comparing [String]s (bytes) in Rust is comparing lists of
    scalar values in the model *)

Lemma div_4096 c : c / 4096 = c / 64 / 64.
Proof. rewrite Z.div_div by lia. reflexivity. Qed.
Lemma div_262144 c : c / 262144 = c / 64 / 64 / 64.
Proof. rewrite !Z.div_div by lia. reflexivity. Qed.

Local Opaque Z.add Z.mul Z.div Z.modulo.
Lemma utf8_char_inj_app c1 c2 r1 r2 :
  scalar c1 -> scalar c2 -> utf8_char c1 ++ r1 = utf8_char c2 ++ r2 -> c1 = c2 /\ r1 = r2.
Proof.
  unfold scalar, utf8_char. intros H1 H2.
  rewrite !div_4096, !div_262144.
  pose proof (Z.div_mod c1 64 ltac:(lia)) as D1. pose proof (Z.mod_pos_bound c1 64 ltac:(lia)) as B1.
  pose proof (Z.div_mod (c1 / 64) 64 ltac:(lia)) as D1'. pose proof (Z.mod_pos_bound (c1 / 64) 64 ltac:(lia)) as B1'.
  pose proof (Z.div_mod (c1 / 64 / 64) 64 ltac:(lia)) as D1''. pose proof (Z.mod_pos_bound (c1 / 64 / 64) 64 ltac:(lia)) as B1''.
  pose proof (Z.div_mod c2 64 ltac:(lia)) as D2. pose proof (Z.mod_pos_bound c2 64 ltac:(lia)) as B2.
  pose proof (Z.div_mod (c2 / 64) 64 ltac:(lia)) as D2'. pose proof (Z.mod_pos_bound (c2 / 64) 64 ltac:(lia)) as B2'.
  pose proof (Z.div_mod (c2 / 64 / 64) 64 ltac:(lia)) as D2''. pose proof (Z.mod_pos_bound (c2 / 64 / 64) 64 ltac:(lia)) as B2''.
  set (q1 := c1 / 64) in *. set (m1 := c1 mod 64) in *.
  set (q1' := q1 / 64) in *. set (m1' := q1 mod 64) in *.
  set (q1'' := q1' / 64) in *. set (m1'' := q1' mod 64) in *.
  set (q2 := c2 / 64) in *. set (m2 := c2 mod 64) in *.
  set (q2' := q2 / 64) in *. set (m2' := q2 mod 64) in *.
  set (q2'' := q2' / 64) in *. set (m2'' := q2' mod 64) in *.
  destruct (Z.ltb_spec c1 128), (Z.ltb_spec c1 2048), (Z.ltb_spec c1 65536);
  destruct (Z.ltb_spec c2 128), (Z.ltb_spec c2 2048), (Z.ltb_spec c2 65536); try lia;
  cbn [app]; intros E; injection E; clear E; intros; split; try lia; try assumption.
  all: subst; repeat f_equal; lia.
Qed.
Local Transparent Z.add Z.mul Z.div Z.modulo.

Theorem utf8_inj a : forall b, Forall scalar a -> Forall scalar b -> utf8 a = utf8 b -> a = b.
Proof.
  unfold utf8. induction a as [|c a IH]; intros b Ha Hb E.
  - destruct b as [|d b]; [reflexivity|]. cbn [flat_map] in E. exfalso.
    unfold utf8_char in E. destruct (d <? 128), (d <? 2048), (d <? 65536); discriminate.
  - destruct b as [|d b].
    + cbn [flat_map] in E. exfalso.
      unfold utf8_char in E. destruct (c <? 128), (c <? 2048), (c <? 65536); discriminate.
    + cbn [flat_map] in E. inversion Ha; subst. inversion Hb; subst.
      destruct (utf8_char_inj_app c d _ _ ltac:(assumption) ltac:(assumption) E) as [-> E'].
      f_equal. apply IH; assumption.
Qed.

(** every byte of the encoding is a byte *)
Lemma utf8_char_range c : scalar c -> Forall (fun b => 0 <= b < 256) (utf8_char c).
Proof.
  unfold scalar, utf8_char. intros H. rewrite !div_4096, !div_262144.
  pose proof (Z.div_mod c 64 ltac:(lia)) as D1. pose proof (Z.mod_pos_bound c 64 ltac:(lia)) as B1.
  pose proof (Z.div_mod (c / 64) 64 ltac:(lia)) as D1'. pose proof (Z.mod_pos_bound (c / 64) 64 ltac:(lia)) as B1'.
  pose proof (Z.div_mod (c / 64 / 64) 64 ltac:(lia)) as D1''. pose proof (Z.mod_pos_bound (c / 64 / 64) 64 ltac:(lia)) as B1''.
  set (q1 := c / 64) in *. set (m1 := c mod 64) in *.
  set (q1' := q1 / 64) in *. set (m1' := q1 mod 64) in *.
  set (q1'' := q1' / 64) in *. set (m1'' := q1' mod 64) in *.
  destruct (Z.ltb_spec c 128), (Z.ltb_spec c 2048), (Z.ltb_spec c 65536); try lia; repeat constructor; lia.
Qed.

Theorem utf8_range s : Forall scalar s -> Forall (fun b => 0 <= b < 256) (utf8 s).
Proof.
  unfold utf8. induction 1 as [|c s Hc Hs IH]; [constructor|].
  cbn [flat_map]. apply Forall_app. split; [apply utf8_char_range, Hc | exact IH].
Qed.

(** ** the store *)
Lemma lookup_insert_eq {A} u (v : A) st : lookup u (insert u v st) = Some v.
Proof. unfold insert. cbn [lookup]. rewrite str_eqb_refl. reflexivity. Qed.

Lemma lookup_insert_neq {A} u u' (v : A) st : u' <> u -> lookup u (insert u' v st) = lookup u st.
Proof. intros H. unfold insert. cbn [lookup]. apply str_eqb_neq in H. rewrite H. reflexivity. Qed.

Lemma lookup_app {A} u (a b : list (str * A)) :
  lookup u (a ++ b) = match lookup u a with Some v => Some v | None => lookup u b end.
Proof.
  induction a as [|[k v] a IH]; [reflexivity|]. cbn [app lookup]. destruct (str_eqb k u); [reflexivity | exact IH].
Qed.

Lemma argon2_not_md5 s : starts_with ARGON2_PREFIX s = true -> strip_prefix MD5_STORE_PREFIX s = None.
Proof.
  destruct s as [|c s]; [discriminate|]. unfold ARGON2_PREFIX, MD5_STORE_PREFIX. cbn [starts_with strip_prefix].
  destruct (Z.eqb_spec 36 c) as [<-|N]; [reflexivity | discriminate].
Qed.

Lemma md5_not_argon2 pw : starts_with ARGON2_PREFIX (MD5_STORE_PREFIX ++ pw) = false.
Proof. reflexivity. Qed.

Lemma classify_KMd5 v : classify v = KMd5 -> exists pw, v = MD5_STORE_PREFIX ++ pw.
Proof.
  unfold classify. destruct (starts_with ARGON2_PREFIX v); [discriminate|].
  destruct (starts_with MD5_STORE_PREFIX v) eqn:E; [|discriminate]. intros _. apply starts_with_iff, E.
Qed.

Lemma classify_KArgon v : classify v = KArgon <-> starts_with ARGON2_PREFIX v = true.
Proof.
  unfold classify. destruct (starts_with ARGON2_PREFIX v); [split; reflexivity|].
  destruct (starts_with MD5_STORE_PREFIX v); split; discriminate.
Qed.

Lemma classify_KClear v :
  classify v = KClear <-> starts_with ARGON2_PREFIX v = false /\ starts_with MD5_STORE_PREFIX v = false.
Proof.
  unfold classify. destruct (starts_with ARGON2_PREFIX v); [split; [discriminate | intros [H _]; discriminate]|].
  destruct (starts_with MD5_STORE_PREFIX v); split; try discriminate; try (intros [_ H]; discriminate); auto.
Qed.

Section AuthLaws.
  Variable Salt : Type.
  Variable PH : Type.
  Variable md5 : list Z -> list Z.
  Variable md5_lenient : bool.
  Variable argon2_hash : str -> Salt -> option str.
  Variable phc_parse : str -> option PH.
  Variable argon2_verify : PH -> str -> bool.

  Notation verify_cleartext := (verify_cleartext PH phc_parse argon2_verify).
  Notation verify_md5 := (verify_md5 md5 md5_lenient).
  Notation compute_md5_password := (compute_md5_password md5).
  Notation pg_md5_response := (pg_md5_response md5).
  Notation spec_cleartext := (spec_cleartext PH phc_parse argon2_verify).
  Notation spec_md5 := (spec_md5 md5).
  Notation load_lines := (load_lines Salt argon2_hash).
  Notation load_from_file := (load_from_file Salt argon2_hash).
  Notation aload_lines := (aload_lines Salt argon2_hash).
  Notation add_user := (add_user Salt argon2_hash).
  Notation step := (step Salt argon2_hash).
  Notation astep := (astep Salt argon2_hash).
  Notation run := (run Salt argon2_hash).
  Notation arun := (arun Salt argon2_hash).

  (** *** exact characterisations: pure control flow, no assumption on the libraries *)
  Theorem verify_cleartext_char st u p :
    verify_cleartext st u p = true <->
    exists stored ph, lookup u st = Some stored /\ starts_with ARGON2_PREFIX stored = true /\
                      phc_parse stored = Some ph /\ argon2_verify ph p = true.
  Proof.
    unfold Auth.verify_cleartext, get_password. destruct (lookup u st) as [stored|].
    - destruct (starts_with ARGON2_PREFIX stored) eqn:Ea.
      + destruct (phc_parse stored) as [ph|] eqn:Ep.
        * split; [intros H; exists stored, ph; auto | intros [s' [ph' [E1 [_ [E2 E3]]]]]; congruence].
        * split; [discriminate | intros [s' [ph' [E1 [_ [E2 _]]]]]; congruence].
      + split.
        * destruct (starts_with MD5_STORE_PREFIX stored); discriminate.
        * intros [s' [ph' [E1 [E2 _]]]]. congruence.
    - split; [discriminate | intros [s' [ph' [E1 _]]]; discriminate].
  Qed.

  Lemma pg_md5_response_eq pw u salt : pg_md5_response pw u salt = MD5_RESP_PREFIX ++ compute_md5_password pw u salt.
  Proof. unfold Auth.pg_md5_response, Auth.compute_md5_password. reflexivity. Qed.

  (** the accepted set of [verify_md5], exactly: the PostgreSQL response, and - when the comparison is
      lenient - also the same digest without its "md5" prefix *)
  Theorem verify_md5_char st u resp salt :
    verify_md5 st u resp salt = true <->
    exists pw, lookup u st = Some (MD5_STORE_PREFIX ++ pw) /\
               (resp = pg_md5_response pw u salt \/
                (md5_lenient = true /\ resp = compute_md5_password pw u salt)).
  Proof.
    unfold Auth.verify_md5, get_password. destruct (lookup u st) as [stored|].
    - destruct (strip_prefix MD5_STORE_PREFIX stored) as [pw|] eqn:Es.
      + apply strip_prefix_Some in Es. subst stored.
        destruct (strip_prefix MD5_RESP_PREFIX resp) as [r|] eqn:Er.
        * rewrite str_eqb_eq. apply strip_prefix_Some in Er. subst resp. split.
          -- intros <-. exists pw. split; [reflexivity | left; apply pg_md5_response_eq].
          -- intros [pw' [E [H|[_ H]]]]; inversion E as [E']; subst pw'.
             ++ rewrite pg_md5_response_eq in H. apply app_inv_head in H. congruence.
             ++ exfalso. pose proof (hex_not_md5_prefix (md5 (utf8 (hex (md5 (utf8 pw ++ utf8 u))) ++ salt))) as Hn.
                unfold Auth.compute_md5_password in H. rewrite <- H in Hn.
                rewrite strip_prefix_app in Hn. discriminate.
        * destruct md5_lenient.
          -- rewrite str_eqb_eq. split.
             ++ intros <-. exists pw. split; [reflexivity | right; split; reflexivity].
             ++ intros [pw' [E [H|[_ H]]]]; inversion E as [E']; subst pw'.
                ** rewrite pg_md5_response_eq in H. subst resp. rewrite strip_prefix_app in Er. discriminate.
                ** congruence.
          -- split; [discriminate|].
             intros [pw' [E [H|[H _]]]]; [|discriminate]. inversion E as [E']; subst pw'.
             rewrite pg_md5_response_eq in H. subst resp. rewrite strip_prefix_app in Er. discriminate.
      + split; [discriminate|]. intros [pw [E _]].
        assert (Hs : stored = MD5_STORE_PREFIX ++ pw) by congruence.
        rewrite Hs, strip_prefix_app in Es. discriminate.
    - split; [discriminate | intros [pw [E _]]; discriminate].
  Qed.

  (** *** rejection theorems *)
  Theorem unknown_user_rejected_cleartext st u p : lookup u st = None -> verify_cleartext st u p = false.
  Proof. intros H. unfold Auth.verify_cleartext, get_password. rewrite H. reflexivity. Qed.

  Theorem unknown_user_rejected_md5 st u resp salt : lookup u st = None -> verify_md5 st u resp salt = false.
  Proof. intros H. unfold Auth.verify_md5, get_password. rewrite H. reflexivity. Qed.

  (** a user whose secret is not stored as "{MD5}..." (Argon2 hash or anything else) never passes MD5 *)
  Theorem non_md5_stored_rejected_md5 st u stored resp salt :
    lookup u st = Some stored -> starts_with MD5_STORE_PREFIX stored = false -> verify_md5 st u resp salt = false.
  Proof.
    intros H Hs. unfold Auth.verify_md5, get_password. rewrite H.
    apply strip_prefix_starts in Hs. rewrite Hs. reflexivity.
  Qed.

  Theorem argon2_stored_rejected_md5 st u stored resp salt :
    lookup u st = Some stored -> starts_with ARGON2_PREFIX stored = true -> verify_md5 st u resp salt = false.
  Proof.
    intros H Hs. unfold Auth.verify_md5, get_password. rewrite H, (argon2_not_md5 _ Hs). reflexivity.
  Qed.

  (** a user stored in {MD5} format (or in any non-Argon2 format) never passes cleartext verification,
      not even with the stored password itself *)
  Theorem non_argon2_stored_rejected_cleartext st u stored p :
    lookup u st = Some stored -> starts_with ARGON2_PREFIX stored = false -> verify_cleartext st u p = false.
  Proof.
    intros H Hs. unfold Auth.verify_cleartext, get_password. rewrite H, Hs.
    destruct (starts_with MD5_STORE_PREFIX stored); reflexivity.
  Qed.

  Theorem md5_stored_rejected_cleartext st u pw p :
    lookup u st = Some (MD5_STORE_PREFIX ++ pw) -> verify_cleartext st u p = false.
  Proof. intros H. apply (non_argon2_stored_rejected_cleartext st u _ p H). reflexivity. Qed.

  Theorem malformed_phc_rejected st u stored p :
    lookup u st = Some stored -> phc_parse stored = None -> verify_cleartext st u p = false.
  Proof.
    intros H Hp. unfold Auth.verify_cleartext, get_password. rewrite H, Hp.
    destruct (starts_with ARGON2_PREFIX stored); [reflexivity|].
    destruct (starts_with MD5_STORE_PREFIX stored); reflexivity.
  Qed.

  (** *** MD5 path with the length of the digest known (true of the concrete [Md5.md5]) *)
  Section Md5Len.
    Hypothesis md5_len : forall m, length (md5 m) = 16%nat.

    Lemma compute_md5_password_bare pw u salt : bare_hex32 (compute_md5_password pw u salt) = true.
    Proof.
      unfold bare_hex32, Auth.compute_md5_password. rewrite hex_length, md5_len, hex_lower. reflexivity.
    Qed.

    Lemma pg_md5_response_not_bare pw u salt : bare_hex32 (pg_md5_response pw u salt) = false.
    Proof.
      unfold bare_hex32, Auth.pg_md5_response. rewrite app_length, hex_length, md5_len. reflexivity.
    Qed.

    (** the property as stated: for the repaired comparison always, for the lenient one outside the
        known class *)
    Theorem verify_md5_iff st u resp salt :
      md5_lenient = false \/ bare_hex32 resp = false ->
      (verify_md5 st u resp salt = true <->
       exists pw, lookup u st = Some (MD5_STORE_PREFIX ++ pw) /\ resp = pg_md5_response pw u salt).
    Proof.
      intros Hk. rewrite verify_md5_char. split.
      - intros [pw [E [H|[Hl H]]]]; [exists pw; auto|].
        exfalso. destruct Hk as [Hk|Hk]; [congruence|].
        rewrite H, compute_md5_password_bare in Hk. discriminate.
      - intros [pw [E H]]. exists pw. auto.
    Qed.

    (** inside the known class, acceptance means: the bare digest of the stored password *)
    Theorem verify_md5_known_class st u resp salt :
      md5_lenient = true -> bare_hex32 resp = true ->
      (verify_md5 st u resp salt = true <->
       exists pw, lookup u st = Some (MD5_STORE_PREFIX ++ pw) /\ MD5_RESP_PREFIX ++ resp = pg_md5_response pw u salt).
    Proof.
      intros Hl Hk. rewrite verify_md5_char. split.
      - intros [pw [E [H|[_ H]]]].
        + exfalso. rewrite H, pg_md5_response_not_bare in Hk. discriminate.
        + exists pw. split; [exact E|]. rewrite pg_md5_response_eq, H. reflexivity.
      - intros [pw [E H]]. exists pw. split; [exact E|]. right. split; [exact Hl|].
        rewrite pg_md5_response_eq in H. apply app_inv_head in H. exact H.
    Qed.
  End Md5Len.

  (** *** refinement: the store represents what every user's secret was created from *)
  Hypothesis argon2_hash_prefix :
    forall p s h, argon2_hash p s = Some h -> starts_with ARGON2_PREFIX h = true.
  Hypothesis argon2_hash_verify :
    forall p s h, argon2_hash p s = Some h ->
    exists ph, phc_parse h = Some ph /\ forall p', argon2_verify ph p' = true <-> p' = p.

  Definition rep (c : cred) (stored : str) : Prop :=
    match c with
    | CPassword p => exists s, argon2_hash p s = Some stored
    | CMd5 pw => stored = MD5_STORE_PREFIX ++ pw
    | CExternal h => stored = h /\ strip_prefix MD5_STORE_PREFIX h = None
    end.

  Definition refines (st : store) (a : astore) : Prop :=
    Forall2 (fun x y => fst x = fst y /\ rep (snd y) (snd x)) st a.

  Lemma refines_lookup st a u :
    refines st a ->
    match lookup u st, lookup u a with
    | Some stored, Some c => rep c stored
    | None, None => True
    | _, _ => False
    end.
  Proof.
    induction 1 as [|[k v] [k' c] st a [Hk Hr] _ IH]; [exact I|].
    cbn [fst snd] in *. subst k'. cbn [lookup]. destruct (str_eqb k u); [exact Hr | exact IH].
  Qed.

  Lemma refines_insert st a u stored c : refines st a -> rep c stored -> refines (insert u stored st) (insert u c a).
  Proof. intros H Hr. constructor; [split; [reflexivity | exact Hr] | exact H]. Qed.

  Lemma rep_cred_of_hashed h : rep (cred_of_hashed h) h.
  Proof.
    unfold cred_of_hashed. destruct (strip_prefix MD5_STORE_PREFIX h) as [pw|] eqn:E.
    - apply strip_prefix_Some in E. exact E.
    - split; [reflexivity | exact E].
  Qed.

  Lemma refines_step st a o : refines st a -> refines (step st o) (astep a o).
  Proof.
    intros H. destruct o as [u p s|u h]; cbn [Auth.step Auth.astep].
    - unfold Auth.add_user. destruct (argon2_hash p s) as [h|] eqn:E; [|exact H].
      apply refines_insert; [exact H | exists s; exact E].
    - apply refines_insert; [exact H | apply rep_cred_of_hashed].
  Qed.

  Lemma refines_fold ops : forall st a, refines st a -> refines (fold_left step ops st) (fold_left astep ops a).
  Proof. induction ops as [|o ops IH]; intros st a H; [exact H | apply IH, refines_step, H]. Qed.

  Lemma refines_load ls : forall n salts st a,
    refines st a ->
    match load_lines n ls salts st, aload_lines n ls salts a with
    | Ok st', Ok a' => refines st' a'
    | Err e, Err e' => e = e'
    | _, _ => False
    end.
  Proof.
    induction ls as [|l ls IH]; intros n salts st a H; cbn [Auth.load_lines Auth.aload_lines]; [exact H|].
    destruct (parse_line l) as [|u v| |]; try reflexivity; [apply IH, H|].
    destruct (classify v) eqn:Ec.
    - apply IH, refines_insert; [exact H|]. split; [reflexivity|]. apply argon2_not_md5, classify_KArgon, Ec.
    - apply IH, refines_insert; [exact H | apply rep_cred_of_hashed].
    - destruct (argon2_hash v (salts n)) as [h|] eqn:E; [|reflexivity].
      apply IH, refines_insert; [exact H | exists (salts n); exact E].
  Qed.

  Theorem run_refines o ops :
    match run o ops, arun o ops with
    | Ok st, Ok a => refines st a
    | Err e, Err e' => e = e'
    | _, _ => False
    end.
  Proof.
    unfold Auth.run, Auth.arun. destruct o as [|c salts]; cbn [init_store init_astore].
    - apply refines_fold. constructor.
    - unfold Auth.load_from_file.
      pose proof (refines_load (lines c) 0%nat salts empty_store [] ltac:(constructor)) as H.
      destruct (load_lines 0 (lines c) salts empty_store), (aload_lines 0 (lines c) salts []); try exact H.
      apply refines_fold, H.
  Qed.

  (** cleartext verification accepts exactly the right credentials, for every store that represents an
      abstract store *)
  Theorem refines_cleartext_iff st a u p :
    refines st a -> (verify_cleartext st u p = true <-> spec_cleartext a u p).
  Proof.
    intros H. pose proof (refines_lookup st a u H) as L. unfold Auth.spec_cleartext.
    rewrite verify_cleartext_char.
    destruct (lookup u st) as [stored|], (lookup u a) as [c|]; try contradiction.
    - destruct c as [p0|pw|h]; cbn [rep] in L.
      + destruct L as [s E]. pose proof (argon2_hash_prefix _ _ _ E) as Hp.
        destruct (argon2_hash_verify _ _ _ E) as [ph [Eph Hv]]. split.
        * intros [s' [ph' [E1 [_ [E2 E3]]]]]. inversion E1; subst s'. rewrite Eph in E2. inversion E2; subst ph'.
          apply Hv, E3.
        * intros ->. exists stored, ph. repeat split; try assumption. apply Hv. reflexivity.
      + subst stored. split; [|contradiction].
        intros [s' [ph' [E1 [E2 _]]]]. assert (Hs : s' = MD5_STORE_PREFIX ++ pw) by congruence.
        rewrite Hs, md5_not_argon2 in E2. discriminate.
      + destruct L as [-> _]. split.
        * intros [s' [ph' [E1 [E2 [E3 E4]]]]]. inversion E1; subst s'. split; [exact E2 | exists ph'; auto].
        * intros [E2 [ph [E3 E4]]]. exists h, ph. auto.
    - split; [intros [s' [ph' [E1 _]]]; discriminate | contradiction].
  Qed.

  Theorem refines_md5_char st a u resp salt :
    refines st a ->
    (verify_md5 st u resp salt = true <->
     spec_md5 a u resp salt \/ (md5_lenient = true /\ spec_md5 a u (MD5_RESP_PREFIX ++ resp) salt)).
  Proof.
    intros H. pose proof (refines_lookup st a u H) as L. unfold Auth.spec_md5.
    rewrite verify_md5_char.
    destruct (lookup u st) as [stored|], (lookup u a) as [c|]; try contradiction.
    - destruct c as [p0|pw|h]; cbn [rep] in L.
      + destruct L as [s E]. pose proof (argon2_not_md5 _ (argon2_hash_prefix _ _ _ E)) as Hn.
        split; [|intros [[]|[_ []]]]. intros [pw [E1 _]].
        assert (Hs : stored = MD5_STORE_PREFIX ++ pw) by congruence.
        rewrite Hs, strip_prefix_app in Hn. discriminate.
      + subst stored. split.
        * intros [pw' [E1 [Hr|[Hl Hr]]]]; inversion E1 as [E']; subst pw'.
          -- left. exact Hr.
          -- right. split; [exact Hl|]. rewrite pg_md5_response_eq, Hr. reflexivity.
        * intros [Hr|[Hl Hr]]; exists pw; split; try reflexivity; [left; exact Hr | right].
          split; [exact Hl|]. rewrite pg_md5_response_eq in Hr. apply app_inv_head in Hr. exact Hr.
      + destruct L as [-> Hn]. split; [|intros [[]|[_ []]]]. intros [pw [E1 _]].
        assert (Hs : h = MD5_STORE_PREFIX ++ pw) by congruence.
        rewrite Hs, strip_prefix_app in Hn. discriminate.
    - split; [intros [pw [E1 _]]; discriminate | intros [[]|[_ []]]].
  Qed.

  Theorem refines_md5_iff st a u resp salt :
    (forall m, length (md5 m) = 16%nat) ->
    refines st a -> md5_lenient = false \/ bare_hex32 resp = false ->
    (verify_md5 st u resp salt = true <-> spec_md5 a u resp salt).
  Proof.
    intros Hlen H Hk. rewrite (refines_md5_char st a u resp salt H). split; [|auto].
    intros [Hs|[Hl Hs]]; [exact Hs|]. exfalso. destruct Hk as [Hk|Hk]; [congruence|]. unfold Auth.spec_md5 in Hs.
    destruct (lookup u a) as [[p0|pw|h]|]; try contradiction.
    rewrite pg_md5_response_eq in Hs. apply app_inv_head in Hs.
    rewrite Hs, (compute_md5_password_bare Hlen) in Hk. discriminate.
  Qed.

  (** *** the property over histories *)
  Theorem history_cleartext_iff o ops st a u p :
    run o ops = Ok st -> arun o ops = Ok a ->
    (verify_cleartext st u p = true <-> spec_cleartext a u p).
  Proof.
    intros Hr Ha. pose proof (run_refines o ops) as H. rewrite Hr, Ha in H. apply refines_cleartext_iff, H.
  Qed.

  Theorem history_md5_iff o ops st a u resp salt :
    (forall m, length (md5 m) = 16%nat) ->
    run o ops = Ok st -> arun o ops = Ok a -> md5_lenient = false \/ bare_hex32 resp = false ->
    (verify_md5 st u resp salt = true <-> spec_md5 a u resp salt).
  Proof.
    intros Hlen Hr Ha. pose proof (run_refines o ops) as H. rewrite Hr, Ha in H. apply refines_md5_iff; assumption.
  Qed.

  Theorem run_arun_same_outcome o ops :
    (exists st a, run o ops = Ok st /\ arun o ops = Ok a) \/ (exists e, run o ops = Err e /\ arun o ops = Err e).
  Proof.
    pose proof (run_refines o ops) as H.
    destruct (run o ops) as [st|e], (arun o ops) as [a|e']; try contradiction.
    - left. exists st, a. auto.
    - right. exists e. subst. auto.
  Qed.

  (** DESIGN.md's formulation: the stored secret is [argon2_hash p0 s] *)
  Theorem verify_cleartext_iff st u p :
    (forall stored, lookup u st = Some stored -> starts_with ARGON2_PREFIX stored = true ->
                    phc_parse stored <> None -> exists p0 s, argon2_hash p0 s = Some stored) ->
    (verify_cleartext st u p = true <->
     exists p0 s stored, argon2_hash p0 s = Some stored /\ lookup u st = Some stored /\ p = p0).
  Proof.
    intros Hprov. rewrite verify_cleartext_char. split.
    - intros [stored [ph [E1 [E2 [E3 E4]]]]].
      destruct (Hprov stored E1 E2 ltac:(congruence)) as [p0 [s E]].
      destruct (argon2_hash_verify _ _ _ E) as [ph' [Eph Hv]]. rewrite Eph in E3. inversion E3; subst ph'.
      exists p0, s, stored. repeat split; try assumption. apply Hv, E4.
    - intros [p0 [s [stored [E [E1 ->]]]]].
      destruct (argon2_hash_verify _ _ _ E) as [ph [Eph Hv]].
      exists stored, ph. repeat split; try assumption; [apply (argon2_hash_prefix _ _ _ E) | apply Hv; reflexivity].
  Qed.

  (** after [add_user u p], exactly [p] logs [u] in; other users are unaffected *)
  Theorem add_user_then_verify st u p s st' p' :
    add_user st u p s = Some st' -> (verify_cleartext st' u p' = true <-> p' = p).
  Proof.
    unfold Auth.add_user. destruct (argon2_hash p s) as [h|] eqn:E; [|discriminate].
    intros E'; inversion E'; subst st'.
    destruct (argon2_hash_verify _ _ _ E) as [ph [Eph Hv]].
    unfold Auth.verify_cleartext, get_password. rewrite lookup_insert_eq, (argon2_hash_prefix _ _ _ E), Eph. apply Hv.
  Qed.

  Theorem add_user_other st u p s st' u' p' :
    add_user st u p s = Some st' -> u <> u' -> verify_cleartext st' u' p' = verify_cleartext st u' p'.
  Proof.
    unfold Auth.add_user. destruct (argon2_hash p s) as [h|]; [|discriminate].
    intros E'; inversion E'; subst st'. intros Hne.
    unfold Auth.verify_cleartext, get_password. rewrite lookup_insert_neq by exact Hne. reflexivity.
  Qed.

  Theorem add_user_then_md5_rejected st u p s st' resp salt :
    add_user st u p s = Some st' -> verify_md5 st' u resp salt = false.
  Proof.
    unfold Auth.add_user. destruct (argon2_hash p s) as [h|] eqn:E; [|discriminate].
    intros E'; inversion E'; subst st'.
    apply (argon2_stored_rejected_md5 _ u h); [apply lookup_insert_eq | apply (argon2_hash_prefix _ _ _ E)].
  Qed.

  (** *** the password file *)
  Theorem aload_ok_entries ls : forall n salts a0 a,
    aload_lines n ls salts a0 = Ok a ->
    a = rev (map (fun e => (fst e, cred_of_value (snd e))) (file_entries ls)) ++ a0 /\ Forall line_ok ls.
  Proof.
    induction ls as [|l ls IH]; intros n salts a0 a; cbn [Auth.aload_lines file_entries].
    - intros E; inversion E. split; [reflexivity | constructor].
    - unfold line_ok. destruct (parse_line l) as [|u v| |] eqn:El; try discriminate.
      + intros E. destruct (IH _ _ _ _ E) as [-> Hok]. split; [reflexivity|].
        constructor; [rewrite El; split; discriminate | exact Hok].
      + unfold cred_of_value. cbn [map rev fst snd].
        destruct (classify v) eqn:Ec.
        * intros E. destruct (IH _ _ _ _ E) as [-> Hok]. split; [rewrite <- app_assoc; reflexivity|].
          constructor; [rewrite El; split; discriminate | exact Hok].
        * intros E. destruct (IH _ _ _ _ E) as [-> Hok]. split; [rewrite <- app_assoc; reflexivity|].
          constructor; [rewrite El; split; discriminate | exact Hok].
        * destruct (argon2_hash v (salts n)); [|discriminate].
          intros E. destruct (IH _ _ _ _ E) as [-> Hok]. split; [rewrite <- app_assoc; reflexivity|].
          constructor; [rewrite El; split; discriminate | exact Hok].
  Qed.

  (** a load error names a line that really is malformed (or whose hashing failed) *)
  Theorem load_err_line ls : forall n salts st e,
    load_lines n ls salts st = Err e ->
    exists i, match e with
              | EBadFormat k => k = (n + i)%nat /\ parse_line (nth i ls []) = LBadFormat
              | EEmptyUser k => k = (n + i)%nat /\ parse_line (nth i ls []) = LEmptyUser
              | EHash k => k = (n + i)%nat /\ exists u v, parse_line (nth i ls []) = LEntry u v /\
                                                          classify v = KClear /\ argon2_hash v (salts k) = None
              end.
  Proof.
    induction ls as [|l ls IH]; intros n salts st e; cbn [Auth.load_lines]; [discriminate|].
    assert (Hshift : forall st', load_lines (S n) ls salts st' = Err e ->
      exists i, match e with
              | EBadFormat k => k = (n + i)%nat /\ parse_line (nth i (l :: ls) []) = LBadFormat
              | EEmptyUser k => k = (n + i)%nat /\ parse_line (nth i (l :: ls) []) = LEmptyUser
              | EHash k => k = (n + i)%nat /\ exists u v, parse_line (nth i (l :: ls) []) = LEntry u v /\
                                                          classify v = KClear /\ argon2_hash v (salts k) = None
              end).
    { intros st' E. destruct (IH _ _ _ _ E) as [i Hi]. exists (S i). cbn [nth].
      destruct e; (destruct Hi as [-> Hi]; split; [lia | exact Hi]). }
    destruct (parse_line l) as [|u v| |] eqn:El.
    - apply Hshift.
    - destruct (classify v) eqn:Ec; try apply Hshift.
      destruct (argon2_hash v (salts n)) eqn:Eh; [apply Hshift|].
      intros E; inversion E; subst. exists 0%nat. cbn [nth]. split; [lia|]. exists u, v.
      auto.
    - intros E; inversion E; subst. exists 0%nat. cbn [nth]. split; [lia | exact El].
    - intros E; inversion E; subst. exists 0%nat. cbn [nth]. split; [lia | exact El].
  Qed.

  (** a file whose lines are all well-formed loads (when hashing does not fail) *)
  Theorem load_ok_if_lines_ok ls : forall n salts st,
    Forall line_ok ls -> (forall v s, argon2_hash v s <> None) -> exists st', load_lines n ls salts st = Ok st'.
  Proof.
    induction ls as [|l ls IH]; intros n salts st Hok Hh; cbn [Auth.load_lines]; [exists st; reflexivity|].
    inversion Hok as [|x y [H1 H2] Hrest]; subst.
    destruct (parse_line l) as [|u v| |]; try contradiction; try (apply IH; assumption).
    destruct (classify v); try (apply IH; assumption).
    destruct (argon2_hash v (salts n)) eqn:E; [apply IH; assumption | exfalso; exact (Hh _ _ E)].
  Qed.

  (** text files: one entry per '\n'-terminated line *)
  Lemma parse_line_strip_cr l : parse_line (strip_cr l) = parse_line l.
  Proof. unfold parse_line. rewrite strip_cr_trim. reflexivity. Qed.

  Lemma load_lines_strip_cr ls : forall n salts st,
    load_lines n (map strip_cr ls) salts st = load_lines n ls salts st.
  Proof.
    induction ls as [|l ls IH]; intros n salts st; [reflexivity|].
    cbn [map Auth.load_lines]. rewrite parse_line_strip_cr.
    destruct (parse_line l) as [|u v| |]; try reflexivity; [apply IH|].
    destruct (classify v); try apply IH. destruct (argon2_hash v (salts n)); [apply IH | reflexivity].
  Qed.

  Theorem load_unlines ls salts :
    Forall (fun l => ~ In 10 l) ls ->
    load_from_file (unlines ls) salts = load_lines 0 ls salts empty_store.
  Proof. intros H. unfold Auth.load_from_file. rewrite lines_unlines by exact H. apply load_lines_strip_cr. Qed.

  (** end to end: the last line that names [u] decides; a cleartext value logs in with exactly that value,
      a "{MD5}pw" value answers MD5 challenges for pw (strictly, outside the known class) *)
  Theorem file_login_cleartext content salts st u v p :
    load_from_file content salts = Ok st ->
    lookup u (rev (file_entries (lines content))) = Some v -> classify v = KClear ->
    (verify_cleartext st u p = true <-> p = v).
  Proof.
    intros Hl Hu Hc.
    pose proof (run_refines (FromFile Salt content salts) []) as H.
    unfold Auth.run, Auth.arun in H. cbn [init_store init_astore fold_left] in H. rewrite Hl in H.
    destruct (aload_lines 0 (lines content) salts []) as [a|] eqn:Ea; [|contradiction].
    rewrite (refines_cleartext_iff st a u p H). unfold Auth.spec_cleartext.
    destruct (aload_ok_entries _ _ _ _ _ Ea) as [-> _]. rewrite app_nil_r, <- map_rev.
    assert (L : forall es, lookup u (map (fun e : str * str => (fst e, cred_of_value (snd e))) es)
                           = option_map cred_of_value (lookup u es)).
    { induction es as [|[k x] es IH]; [reflexivity|]. cbn [map lookup fst snd].
      destruct (str_eqb k u); [reflexivity | exact IH]. }
    rewrite L, Hu. cbn [option_map]. unfold cred_of_value. rewrite Hc. reflexivity.
  Qed.

  Theorem file_login_md5 content salts st u pw resp salt :
    (forall m, length (md5 m) = 16%nat) ->
    load_from_file content salts = Ok st ->
    lookup u (rev (file_entries (lines content))) = Some (MD5_STORE_PREFIX ++ pw) ->
    md5_lenient = false \/ bare_hex32 resp = false ->
    (verify_md5 st u resp salt = true <-> resp = pg_md5_response pw u salt).
  Proof.
    intros Hlen Hl Hu Hk.
    pose proof (run_refines (FromFile Salt content salts) []) as H.
    unfold Auth.run, Auth.arun in H. cbn [init_store init_astore fold_left] in H. rewrite Hl in H.
    destruct (aload_lines 0 (lines content) salts []) as [a|] eqn:Ea; [|contradiction].
    rewrite (refines_md5_iff st a u resp salt Hlen H Hk). unfold Auth.spec_md5.
    destruct (aload_ok_entries _ _ _ _ _ Ea) as [-> _]. rewrite app_nil_r, <- map_rev.
    assert (L : forall es, lookup u (map (fun e : str * str => (fst e, cred_of_value (snd e))) es)
                           = option_map cred_of_value (lookup u es)).
    { induction es as [|[k x] es IH]; [reflexivity|]. cbn [map lookup fst snd].
      destruct (str_eqb k u); [reflexivity | exact IH]. }
    rewrite L, Hu. cbn [option_map]. unfold cred_of_value.
    assert (Hc : classify (MD5_STORE_PREFIX ++ pw) = KMd5) by reflexivity. rewrite Hc.
    unfold cred_of_hashed. rewrite strip_prefix_app. reflexivity.
  Qed.

  (** every entry read from a file is a non-empty, trimmed, colon-free user name *)
  Theorem file_entries_wf ls u v :
    In (u, v) (file_entries ls) -> u <> [] /\ trim u = u /\ trim v = v /\ ~ In 58 u.
  Proof.
    induction ls as [|l ls IH]; cbn [file_entries]; [intros []|].
    destruct (parse_line l) as [|u' v'| |] eqn:El; try exact IH.
    intros [E|Hin]; [|exact (IH Hin)]. inversion E; subst.
    destruct (parse_line_entry_inv _ _ _ El) as [H1 [H2 [H3 [H4 _]]]]. auto.
  Qed.

  (** *** the last write decides *)
  Notation op_user := (op_user Salt).

  Lemma verify_cleartext_lookup_ext st st' u p :
    lookup u st = lookup u st' -> verify_cleartext st u p = verify_cleartext st' u p.
  Proof. intros H. unfold Auth.verify_cleartext, get_password. rewrite H. reflexivity. Qed.

  Lemma verify_md5_lookup_ext st st' u resp salt :
    lookup u st = lookup u st' -> verify_md5 st u resp salt = verify_md5 st' u resp salt.
  Proof. intros H. unfold Auth.verify_md5, get_password. rewrite H. reflexivity. Qed.

  Lemma step_other st o u : op_user o <> u -> lookup u (step st o) = lookup u st.
  Proof.
    destruct o as [u' p s|u' h]; cbn [Auth.op_user Auth.step]; intros Hne.
    - unfold Auth.add_user. destruct (argon2_hash p s); [apply lookup_insert_neq, Hne | reflexivity].
    - apply lookup_insert_neq, Hne.
  Qed.

  Lemma fold_step_other ops : forall st u,
    Forall (fun o => op_user o <> u) ops -> lookup u (fold_left step ops st) = lookup u st.
  Proof.
    induction ops as [|o ops IH]; intros st u H; [reflexivity|].
    inversion H; subst. cbn [fold_left]. rewrite IH by assumption. apply step_other. assumption.
  Qed.

  (** whatever happened before, and whatever happens afterwards to OTHER users: after a successful
      [add_user u p] exactly [p] logs [u] in, and [u] cannot use the MD5 path *)
  Theorem last_add_user_decides o ops1 u p s ops2 st p' :
    run o (ops1 ++ OpAddUser Salt u p s :: ops2) = Ok st -> argon2_hash p s <> None ->
    Forall (fun o => op_user o <> u) ops2 ->
    (verify_cleartext st u p' = true <-> p' = p).
  Proof.
    unfold Auth.run. destruct (init_store Salt argon2_hash o) as [st0|e]; [|discriminate].
    intros E Hh Hother. inversion E; subst st. rewrite fold_left_app. cbn [fold_left Auth.step].
    destruct (add_user (fold_left step ops1 st0) u p s) as [st1|] eqn:Ea.
    - rewrite (verify_cleartext_lookup_ext _ st1 u p' (fold_step_other ops2 st1 u Hother)).
      apply (add_user_then_verify _ _ _ _ _ _ Ea).
    - exfalso. unfold Auth.add_user in Ea. destruct (argon2_hash p s); [discriminate | apply Hh; reflexivity].
  Qed.

  Theorem last_add_md5_decides o ops1 u pw ops2 st resp salt :
    (forall m, length (md5 m) = 16%nat) ->
    run o (ops1 ++ OpAddHashed Salt u (MD5_STORE_PREFIX ++ pw) :: ops2) = Ok st ->
    Forall (fun o => op_user o <> u) ops2 ->
    md5_lenient = false \/ bare_hex32 resp = false ->
    (verify_md5 st u resp salt = true <-> resp = pg_md5_response pw u salt) /\
    (forall p, verify_cleartext st u p = false).
  Proof.
    intros Hlen. unfold Auth.run. destruct (init_store Salt argon2_hash o) as [st0|e]; [|discriminate].
    intros E Hother Hk.
    assert (Est : st = fold_left step (ops1 ++ OpAddHashed Salt u (MD5_STORE_PREFIX ++ pw) :: ops2) st0) by congruence.
    subst st. clear E. rewrite fold_left_app. cbn [fold_left Auth.step].
    set (st1 := add_user_hashed (fold_left step ops1 st0) u (MD5_STORE_PREFIX ++ pw)).
    assert (L : lookup u (fold_left step ops2 st1) = Some (MD5_STORE_PREFIX ++ pw)).
    { rewrite (fold_step_other ops2 st1 u Hother). apply lookup_insert_eq. }
    split.
    - split.
      + intros Hv. apply (verify_md5_iff Hlen _ u resp salt Hk) in Hv. destruct Hv as [pw' [E1 H]].
        rewrite L in E1. inversion E1 as [E']. subst pw'. exact H.
      + intros H. apply (verify_md5_iff Hlen _ u resp salt Hk). exists pw. split; [exact L | exact H].
    - intros p. apply (md5_stored_rejected_cleartext _ u pw p L).
  Qed.
End AuthLaws.

(** ** the concrete MD5: no assumption about md5 is left *)
Theorem verify_md5_iff_md5 lenient st u resp salt :
  lenient = false \/ bare_hex32 resp = false ->
  (verify_md5 Md5.md5 lenient st u resp salt = true <->
   exists pw, lookup u st = Some (MD5_STORE_PREFIX ++ pw) /\ resp = pg_md5_response Md5.md5 pw u salt).
Proof. apply verify_md5_iff, md5_length. Qed.

(** the repaired comparison satisfies the property as stated, with no side condition *)
Theorem verify_md5_strict_md5 st u resp salt :
  verify_md5 Md5.md5 false st u resp salt = true <->
  exists pw, lookup u st = Some (MD5_STORE_PREFIX ++ pw) /\ resp = pg_md5_response Md5.md5 pw u salt.
Proof. apply verify_md5_iff_md5. left. reflexivity. Qed.

Theorem verify_md5_known_class_md5 st u resp salt :
  bare_hex32 resp = true ->
  (verify_md5 Md5.md5 true st u resp salt = true <->
   exists pw, lookup u st = Some (MD5_STORE_PREFIX ++ pw) /\
              MD5_RESP_PREFIX ++ resp = pg_md5_response Md5.md5 pw u salt).
Proof. apply verify_md5_known_class; [apply md5_length | reflexivity]. Qed.

Theorem last_add_md5_decides_md5 :
  forall (Salt PH : Type) (lenient : bool) (argon2_hash : str -> Salt -> option str)
         (phc_parse : str -> option PH) (argon2_verify : PH -> str -> bool)
         (o : origin Salt) (ops1 : list (op Salt)) (u pw : str) (ops2 : list (op Salt)) (st : store)
         (resp : str) (salt : list Z),
  run Salt argon2_hash o (ops1 ++ OpAddHashed Salt u (MD5_STORE_PREFIX ++ pw) :: ops2) = Ok st ->
  Forall (fun o => op_user Salt o <> u) ops2 ->
  lenient = false \/ bare_hex32 resp = false ->
  (verify_md5 Md5.md5 lenient st u resp salt = true <-> resp = pg_md5_response Md5.md5 pw u salt) /\
  (forall p, verify_cleartext PH phc_parse argon2_verify st u p = false).
Proof.
  intros Salt PH lenient argon2_hash phc_parse argon2_verify o ops1 u pw ops2 st resp salt.
  exact (last_add_md5_decides Salt PH Md5.md5 lenient argon2_hash phc_parse argon2_verify o ops1 u pw ops2 st resp salt md5_length).
Qed.

Theorem pg_md5_response_shape pw u salt :
  exists d, pg_md5_response Md5.md5 pw u salt = MD5_RESP_PREFIX ++ d /\ bare_hex32 d = true.
Proof.
  exists (compute_md5_password Md5.md5 pw u salt). split; [apply pg_md5_response_eq|].
  apply compute_md5_password_bare, md5_length.
Qed.

Theorem history_md5_iff_md5 (Salt : Type) (argon2_hash : str -> Salt -> option str) :
  Argon2_prefix_ok Salt argon2_hash ->
  forall o ops st a u resp salt,
  run Salt argon2_hash o ops = Ok st -> arun Salt argon2_hash o ops = Ok a ->
  forall lenient, lenient = false \/ bare_hex32 resp = false ->
  (verify_md5 Md5.md5 lenient st u resp salt = true <-> spec_md5 Md5.md5 a u resp salt).
Proof.
  intros Hp o ops st a u resp salt Hr Ha lenient Hk.
  apply (history_md5_iff Salt Md5.md5 lenient argon2_hash Hp o ops st a u resp salt md5_length Hr Ha Hk).
Qed.

Theorem file_login_md5_md5 (Salt : Type) (argon2_hash : str -> Salt -> option str) :
  Argon2_prefix_ok Salt argon2_hash ->
  forall content salts st u pw resp salt,
  load_from_file Salt argon2_hash content salts = Ok st ->
  lookup u (rev (file_entries (lines content))) = Some (MD5_STORE_PREFIX ++ pw) ->
  forall lenient, lenient = false \/ bare_hex32 resp = false ->
  (verify_md5 Md5.md5 lenient st u resp salt = true <-> resp = pg_md5_response Md5.md5 pw u salt).
Proof.
  intros Hp content salts st u pw resp salt Hl Hu lenient Hk.
  apply (file_login_md5 Salt Md5.md5 lenient argon2_hash Hp content salts st u pw resp salt md5_length Hl Hu Hk).
Qed.

From Coq Require String.
Import String.StringSyntax.
Local Open Scope string_scope.
Local Notation "'S' x" := (s2z x) (at level 0, x at level 0, only parsing).

Example literals_ok :
  ARGON2_PREFIX = S "$argon2" /\ MD5_STORE_PREFIX = S "{MD5}" /\ MD5_RESP_PREFIX = S "md5" /\ [HASH_CHAR] = S "#".
Proof. repeat split. Qed.

(** the unit test of password.rs: user postgres, "{MD5}secret", salt 01 02 03 04 *)
Definition ex_store : store := [(S "postgres", S "{MD5}secret")].
Definition ex_salt : list Z := [1; 2; 3; 4].

Example compute_md5_password_ex :
  compute_md5_password Md5.md5 (S "secret") (S "postgres") ex_salt = S "bb41a296aab6baccb36ff243a562abff".
Proof. vm_compute. reflexivity. Qed.

(** the property as stated (accept iff the response is the PostgreSQL message) is false of the code:
    the bare digest is accepted *)
Theorem verify_md5_refuted :
  exists st u resp salt,
    verify_md5 Md5.md5 true st u resp salt = true /\ bare_hex32 resp = true /\
    ~ (exists pw, lookup u st = Some (MD5_STORE_PREFIX ++ pw) /\ resp = pg_md5_response Md5.md5 pw u salt).
Proof.
  exists ex_store, (S "postgres"), (S "bb41a296aab6baccb36ff243a562abff"), ex_salt.
  split; [vm_compute; reflexivity|]. split; [vm_compute; reflexivity|].
  intros [pw [_ H]].
  assert (Hb : bare_hex32 (S "bb41a296aab6baccb36ff243a562abff") = true) by (vm_compute; reflexivity).
  rewrite H, (pg_md5_response_not_bare Md5.md5 md5_length) in Hb. discriminate.
Qed.

(** hypotheses of [verify_md5_iff_md5] are satisfiable by accepting and rejecting inputs *)
Example verify_md5_iff_ex :
  bare_hex32 (S "md5bb41a296aab6baccb36ff243a562abff") = false /\
  verify_md5 Md5.md5 true ex_store (S "postgres") (S "md5bb41a296aab6baccb36ff243a562abff") ex_salt = true /\
  verify_md5 Md5.md5 true ex_store (S "postgres") (S "md5md5bb41a296aab6baccb36ff243a562abff") ex_salt = false /\
  verify_md5 Md5.md5 true ex_store (S "postgres") (S "md5BB41A296AAB6BACCB36FF243A562ABFF") ex_salt = false /\
  verify_md5 Md5.md5 true ex_store (S "postgres") (S "md5bb41a296aab6baccb36ff243a562abff") [1; 2; 3; 5] = false /\
  verify_md5 Md5.md5 true ex_store (S "Postgres") (S "md5bb41a296aab6baccb36ff243a562abff") ex_salt = false.
Proof. vm_compute. repeat split. Qed.

(** ** the Argon2 hypotheses are satisfiable: a toy instance (NOT Argon2; it only shows that the two
    hypotheses of the refinement theorems are consistent) *)
Definition toy_hash (p : str) (s : Z) : option str := Some (ARGON2_PREFIX ++ s :: p).
Definition toy_parse (h : str) : option str :=
  match strip_prefix ARGON2_PREFIX h with Some (_ :: p) => Some p | _ => None end.
Definition toy_verify (ph p : str) : bool := str_eqb ph p.

Example toy_hash_prefix : forall p s h, toy_hash p s = Some h -> starts_with ARGON2_PREFIX h = true.
Proof. intros p s h E. inversion E. reflexivity. Qed.

Example toy_hash_verify : forall p s h, toy_hash p s = Some h ->
  exists ph, toy_parse h = Some ph /\ forall p', toy_verify ph p' = true <-> p' = p.
Proof.
  intros p s h E. inversion E. exists p. split; [reflexivity|].
  intros p'. unfold toy_verify. rewrite str_eqb_eq. split; congruence.
Qed.

Example history_ex :
  let ops := [OpAddUser Z (S "alice") (S "pw1") 7; OpAddHashed Z (S "bob") (S "{MD5}s3");
              OpAddUser Z (S "alice") (S "pw2") 9; OpAddHashed Z (S "carol") (S "plain")] in
  match run Z toy_hash (FromNew Z) ops, arun Z toy_hash (FromNew Z) ops with
  | Ok st, Ok a =>
    verify_cleartext str toy_parse toy_verify st (S "alice") (S "pw2") = true /\
    verify_cleartext str toy_parse toy_verify st (S "alice") (S "pw1") = false /\
    verify_cleartext str toy_parse toy_verify st (S "bob") (S "s3") = false /\
    verify_cleartext str toy_parse toy_verify st (S "carol") (S "plain") = false /\
    lookup (S "alice") a = Some (CPassword (S "pw2")) /\ lookup (S "bob") a = Some (CMd5 (S "s3"))
  | _, _ => False
  end.
Proof. vm_compute. repeat split. Qed.

Definition ex_file : str :=
  S "# users" ++ [10] ++ S "  alice : pw one  " ++ [13; 10] ++ [10] ++ S "bob:{MD5}s3:x" ++ [10]
  ++ S "alice:pw two" ++ [10] ++ S "#carol:zzz".

Example file_ex :
  file_entries (lines ex_file) = [(S "alice", S "pw one"); (S "bob", S "{MD5}s3:x"); (S "alice", S "pw two")] /\
  match load_from_file Z toy_hash ex_file (fun n => Z.of_nat n) with
  | Ok st =>
    verify_cleartext str toy_parse toy_verify st (S "alice") (S "pw two") = true /\
    verify_cleartext str toy_parse toy_verify st (S "alice") (S "pw one") = false /\
    verify_md5 Md5.md5 true st (S "bob") (pg_md5_response Md5.md5 (S "s3:x") (S "bob") ex_salt) ex_salt = true /\
    lookup (S "carol") st = None
  | Err _ => False
  end.
Proof. vm_compute. repeat split. Qed.

Example file_err_ex :
  load_from_file Z toy_hash (S "a:b" ++ [10] ++ S "nocolon") (fun _ => 0) = Err (EBadFormat 1) /\
  load_from_file Z toy_hash (S "a:b" ++ [10] ++ S " :pw") (fun _ => 0) = Err (EEmptyUser 1).
Proof. vm_compute. split; reflexivity. Qed.

Example parse_line_roundtrip_ex :
  parse_line (S "  " ++ S "my user" ++ [9] ++ 58 :: [160] ++ S "p:w #x" ++ [13]) = LEntry (S "my user") (S "p:w #x").
Proof. vm_compute. reflexivity. Qed.

Example trim_ex : trim ([12288; 9] ++ S "a b" ++ [8232; 32]) = S "a b" /\ trim (S "  ") = [] /\ clean (S "a b").
Proof. vm_compute. repeat split. Qed.

Example lines_ex :
  lines (S "a" ++ [13; 10] ++ S "b" ++ [13]) = [S "a"; S "b" ++ [13]] /\
  lines (S "a" ++ [10; 10] ++ S "b" ++ [10]) = [S "a"; []; S "b"] /\ lines [] = [] /\ lines [10] = [[]].
Proof. vm_compute. repeat split. Qed.

Example rejections_ex :
  let st := [(S "a", S "$argon2id$x"); (S "m", S "{MD5}pw"); (S "j", S "junk")] in
  verify_md5 Md5.md5 true st (S "a") (S "md5x") ex_salt = false /\
  verify_cleartext str toy_parse toy_verify st (S "m") (S "pw") = false /\
  verify_cleartext str toy_parse toy_verify st (S "j") (S "junk") = false /\
  verify_cleartext str toy_parse toy_verify st (S "zz") (S "") = false.
Proof. vm_compute. repeat split. Qed.

(** the repaired comparison rejects the witness of [verify_md5_refuted] and still accepts the real response *)
Example verify_md5_strict_ex :
  verify_md5 Md5.md5 false ex_store (S "postgres") (S "bb41a296aab6baccb36ff243a562abff") ex_salt = false /\
  verify_md5 Md5.md5 false ex_store (S "postgres") (S "md5bb41a296aab6baccb36ff243a562abff") ex_salt = true.
Proof. vm_compute. split; reflexivity. Qed.

(** ** tie to the source: the literals of the model are the ones re-read from password.rs on every run
    (Generated/Consts.v, bin/consts_c29.py); this lemma stops checking when they drift *)
Lemma consts_tie :
  ARGON2_PREFIX = c29_argon2_prefix /\ MD5_STORE_PREFIX = c29_md5_store_prefix /\
  MD5_RESP_PREFIX = c29_md5_resp_prefix /\ HASH_CHAR = c29_comment_char /\
  c29_separator_char = 58 /\ c29_splitn_limit = 2.
Proof. repeat split. Qed.

(** the witness is about the code as it is now whenever the source still has the lenient comparison *)
Theorem verify_md5_refuted_now :
  c29_md5_lenient = true ->
  exists st u resp salt,
    verify_md5 Md5.md5 c29_md5_lenient st u resp salt = true /\ bare_hex32 resp = true /\
    ~ (exists pw, lookup u st = Some (MD5_STORE_PREFIX ++ pw) /\ resp = pg_md5_response Md5.md5 pw u salt).
Proof. intros ->. exact verify_md5_refuted. Qed.

(** ** further examples: the hypotheses of the theorems above are satisfiable by non-trivial inputs *)
Example toy_assumptions :
  Argon2_prefix_ok Z toy_hash /\ Argon2_verify_ok Z str toy_hash toy_parse toy_verify.
Proof. split; [exact toy_hash_prefix | exact toy_hash_verify]. Qed.

(** ä U+00E4, 密 U+5BC6, 🙂 U+1F642 *)
Example utf8_ex :
  utf8 [97; 228; 23494; 128578] = [97; 195; 164; 229; 175; 134; 240; 159; 153; 130] /\
  Forall scalar [97; 228; 23494; 128578].
Proof. split; [vm_compute; reflexivity | repeat constructor; unfold scalar; lia]. Qed.

Example last_write_ex :
  let ops1 := [OpAddUser Z (S "alice") (S "old") 1; OpAddHashed Z (S "bob") (S "{MD5}x")] in
  let ops2 := [OpAddHashed Z (S "bob") (S "junk"); OpAddUser Z (S "carol") (S "c") 3] in
  Forall (fun o => op_user Z o <> S "alice") ops2 /\ toy_hash (S "new") 2 <> None /\
  match run Z toy_hash (FromNew Z) (ops1 ++ OpAddUser Z (S "alice") (S "new") 2 :: ops2) with
  | Ok st => verify_cleartext str toy_parse toy_verify st (S "alice") (S "new") = true /\
             verify_cleartext str toy_parse toy_verify st (S "alice") (S "old") = false
  | Err _ => False
  end.
Proof.
  split; [repeat constructor; vm_compute; discriminate|].
  split; [discriminate|]. vm_compute. split; reflexivity.
Qed.

Example parse_line_cases_ex :
  parse_line (S "nocolon") = LBadFormat /\ parse_line (S "   # c:d") = LSkip /\
  parse_line (S " : x") = LEmptyUser /\ parse_line [32; 160; 9] = LSkip /\
  parse_line (S "u:") = LEntry (S "u") [] /\
  Forall line_ok [S "a:b"; S "#x"; []; S " c : {MD5}d "].
Proof.
  do 5 (split; [vm_compute; reflexivity|]).
  repeat (apply Forall_cons; [unfold line_ok; vm_compute; split; discriminate|]). apply Forall_nil.
Qed.

Example classify_ex :
  classify (S "$argon2id$v=19$x") = KArgon /\ classify (S "{MD5}pw") = KMd5 /\ classify (S "pw") = KClear /\
  classify (S "{md5}pw") = KClear /\ classify (S " $argon2") = KClear /\
  cred_of_value (S "{MD5}pw") = CMd5 (S "pw") /\ cred_of_value (S "pw") = CPassword (S "pw").
Proof. vm_compute. repeat split. Qed.
