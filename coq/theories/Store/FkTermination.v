(** C12 laws, part 7: termination of the cascade recursion.

    The recursion check_no_child_references -> cascade_delete -> check_no_child_references of
    delete/integrity.rs has no visited set and deletes the child rows only AFTER the nested calls
    returned.  Measure: every nested call is made for a row of a child table that references the
    current table through an ON DELETE CASCADE key, so
      - if the ON DELETE CASCADE edges of the SCHEMA have a rank function (no table reaches itself:
        parent / child / grandchild schemas), the depth is bounded by the rank of the statement's
        table, whatever the data ([check_terminates_by_rank]);
      - a self-referencing (or otherwise cyclic) schema terminates only as long as the ROWS reached
        from the deleted row form no cycle; on a row that references itself no amount of fuel is
        enough ([cascade_cycle_diverges]) -- the real code overflows its stack. *)
From Coq Require Import List ZArith Bool Arith Lia.
From VibeSQL Require Import Store.Fk Store.FkLaws Store.FkDeleteLaws Store.FkStepLaws Store.FkUpdateLaws.
Import ListNotations.

(* ------------------------------------------------------------------------------------ *)
(** * Schemas are never changed by the DELETE-side actions (unconditionally) *)

Definition keeps_schema (w : world) (o : outcome) : Prop :=
  match o with
  | OOk w' | OErr _ w' => sames (fst w) (fst w')
  | OCrash => True
  end.

Lemma keeps_bind : forall w o f,
  keeps_schema w o -> (forall w1, keeps_schema w1 (f w1)) -> keeps_schema w (bind o f).
Proof.
  intros w o f H1 H2. destruct o as [w1|e w1|]; cbn in *; auto.
  specialize (H2 w1). destruct (f w1); cbn in *; auto; eapply sames_trans; eassumption.
Qed.

Lemma rewrite_children_keeps : forall cn fk k vs w, keeps_schema w (rewrite_children cn fk k vs w).
Proof.
  intros cn fk k vs w. unfold rewrite_children. destruct (get_table (fst w) cn); [|apply sames_refl].
  destruct (apply_updates t _ _) as [rs' ok]. destruct ok; cbn; apply set_rows_sames.
Qed.

Lemma set_default_keeps : forall cn fk k w, keeps_schema w (set_default cn fk k w).
Proof.
  intros cn fk k w. unfold set_default. destruct (get_table (fst w) cn); [|apply sames_refl].
  destruct (forallb is_null (fk_defaults t fk)); [apply rewrite_children_keeps|].
  apply (rewrite_children_keeps cn fk k (fk_defaults t fk) (log EvSetDefault w)).
Qed.

Lemma each_row_keeps : forall (f : row -> world -> outcome) rs w,
  (forall r w, keeps_schema w (f r w)) -> keeps_schema w (each_row f rs w).
Proof.
  intros f rs. induction rs as [|r rs IH]; intros w H; cbn; [apply sames_refl|].
  apply keeps_bind; [apply H|]. intros w1. apply IH. exact H.
Qed.

Lemma cascade_delete_keeps : forall rec cn fk k w,
  (forall p r w, keeps_schema w (rec p r w)) -> keeps_schema w (cascade_delete rec cn fk k w).
Proof.
  intros rec cn fk k w H. unfold cascade_delete. destruct (get_table (fst w) cn); [|apply sames_refl].
  apply keeps_bind; [apply each_row_keeps; intros; apply H|].
  intros w1. destruct (get_table (fst w1) cn); [|apply sames_refl].
  destruct (forallb _ _); cbn; apply set_rows_sames.
Qed.

Lemma run_actions_keeps : forall rec acts k w,
  (forall p r w, keeps_schema w (rec p r w)) -> keeps_schema w (run_actions rec acts k w).
Proof.
  intros rec acts k. induction acts as [|[cn fk] acts IH]; intros w H; cbn; [apply sames_refl|].
  destruct (fk_ondel fk); try apply sames_refl; (apply keeps_bind; [|intros w1; apply IH; exact H]).
  - apply cascade_delete_keeps. exact H.
  - apply rewrite_children_keeps.
  - apply set_default_keeps.
Qed.

Lemma check_keeps : forall fuel ord p r w, keeps_schema w (check fuel ord p r w).
Proof.
  induction fuel as [|f IH]; intros ord p r w; cbn; [exact Logic.I|].
  unfold check_body. destruct (get_table (fst w) p); [|apply sames_refl].
  destruct (t_pk t); [|apply sames_refl]. destruct (negb (has_any_fks (fst w))); [apply sames_refl|].
  apply run_actions_keeps. intros. apply IH.
Qed.

(* ------------------------------------------------------------------------------------ *)
(** * Rank functions on the ON DELETE CASCADE edges of the schema *)

Definition rank_ok (rk : nat -> nat) (d : db) : Prop :=
  forall ct fk, In ct d -> In fk (t_fks ct) -> fk_ondel fk = ACascade -> rk (t_name ct) < rk (fk_parent fk).

Lemma rank_ok_sames : forall rk d d', sames d d' -> rank_ok rk d -> rank_ok rk d'.
Proof.
  intros rk d d' S R ct' fk Hct' Hfk Ha. destruct (sames_In _ _ _ S Hct') as [ct [Hct [Hn [_ [_ Hf]]]]].
  rewrite Hn. apply (R ct fk Hct); [rewrite <- Hf; exact Hfk|exact Ha].
Qed.

Definition never_crashes (o : outcome) : Prop := match o with OCrash => False | _ => True end.

Lemma never_bind : forall o f, never_crashes o -> (forall w1, o = OOk w1 -> never_crashes (f w1)) -> never_crashes (bind o f).
Proof. intros o f H1 H2. destruct o as [w1|e w1|]; cbn in *; auto. Qed.

Section Rank.
Variables (rk : nat -> nat) (ord : list nat).

Lemma each_row_never : forall (f : row -> world -> outcome) rs w,
  rank_ok rk (fst w) ->
  (forall r w, keeps_schema w (f r w)) ->
  (forall r w, rank_ok rk (fst w) -> never_crashes (f r w)) ->
  never_crashes (each_row f rs w).
Proof.
  intros f rs. induction rs as [|r rs IH]; intros w R K N; cbn; [exact Logic.I|].
  apply never_bind; [apply N; exact R|]. intros w1 E. apply IH; auto.
  pose proof (K r w) as X. rewrite E in X. cbn in X. eapply rank_ok_sames; eassumption.
Qed.

(** the recursive calls are made for child tables of strictly smaller rank *)
Lemma run_actions_never : forall rec p acts k w,
  rank_ok rk (fst w) ->
  (forall q r w, keeps_schema w (rec q r w)) ->
  (forall q r w, rank_ok rk (fst w) -> rk q < rk p -> never_crashes (rec q r w)) ->
  (forall cn fk, In (cn, fk) acts -> fk_parent fk = p /\ exists ct, In ct (fst w) /\ t_name ct = cn /\ In fk (t_fks ct)) ->
  never_crashes (run_actions rec acts k w).
Proof.
  intros rec p acts k. induction acts as [|[cn fk] acts IH]; intros w R K N HA; cbn; [exact Logic.I|].
  assert (NEXT : forall o1, keeps_schema w o1 -> never_crashes o1 -> never_crashes (bind o1 (run_actions rec acts k))).
  { intros o1 K1 N1. apply never_bind; [exact N1|]. intros w1 E. subst o1. cbn in K1. apply IH; auto.
    - eapply rank_ok_sames; eassumption.
    - intros cn0 fk0 Hin. destruct (HA cn0 fk0 (or_intror Hin)) as [Hp [ct [Hct [Hn Hf]]]]. split; [exact Hp|].
      destruct (sames_In_fwd _ _ _ K1 Hct) as [ct' [Hct' [Hn' [_ [_ Hf']]]]]. exists ct'. rewrite Hn', Hf'. auto. }
  destruct (HA cn fk (or_introl eq_refl)) as [Hp [ct [Hct [Hn Hf]]]].
  destruct (fk_ondel fk) eqn:Ea; try exact Logic.I.
  - apply NEXT; [apply cascade_delete_keeps; exact K|].
    unfold cascade_delete. destruct (get_table (fst w) cn) as [ct0|]; [|exact Logic.I].
    apply never_bind.
    + apply each_row_never; [exact R|intros; apply K|]. intros r w0 R0. apply N; [exact R0|].
      rewrite <- Hn, <- Hp. apply (R ct fk Hct Hf Ea).
    + intros w1 _. destruct (get_table (fst w1) cn); [|exact Logic.I]. destruct (forallb _ _); exact Logic.I.
  - apply NEXT; [apply rewrite_children_keeps|].
    unfold set_null, rewrite_children. destruct (get_table (fst w) cn); [|exact Logic.I].
    destruct (apply_updates _ _ _) as [rs' ok]. destruct ok; exact Logic.I.
  - apply NEXT; [apply set_default_keeps|].
    unfold set_default, rewrite_children. destruct (get_table (fst w) cn) as [ct0|]; [|exact Logic.I].
    destruct (forallb is_null (fk_defaults ct0 fk)); cbn [fst log];
      (destruct (get_table (fst w) cn); [|exact Logic.I]; destruct (apply_updates _ _ _) as [rs' ok]; destruct ok; exact Logic.I).
Qed.

Theorem check_terminates_by_rank : forall fuel p r w,
  rank_ok rk (fst w) -> rk p < fuel -> never_crashes (check fuel ord p r w).
Proof.
  induction fuel as [|f IH]; intros p r w R HF; [lia|]. cbn [check]. unfold check_body.
  destruct (get_table (fst w) p) as [pt|]; [|exact Logic.I]. destruct (t_pk pt) as [pk|]; [|exact Logic.I].
  destruct (negb (has_any_fks (fst w))); [exact Logic.I|].
  apply (run_actions_never (check f ord) p); [exact R|intros; apply check_keeps| |].
  - intros q r0 w0 R0 Hq. apply IH; [exact R0|lia].
  - intros cn fk Hin. apply collect_In in Hin. destruct Hin as [_ [ct [G [Hf [Hp _]]]]].
    split; [exact Hp|]. apply get_table_In in G. destruct G as [Gin Gn]. exists ct. auto.
Qed.

End Rank.

(** the DELETE statement on a schema with a rank function never overflows the stack *)
Theorem delete_terminates_by_rank : forall rk fuel ord d t wh,
  rank_ok rk d -> rk t < fuel -> snd (exec_delete fuel ord d t wh) <> RCrash.
Proof.
  intros rk fuel ord d t wh R HF. unfold exec_delete. destruct (get_table d t) as [tb|]; [|discriminate].
  destruct (_ && _); [discriminate|].
  pose proof (each_row_never rk (check fuel ord t) (map snd (select_from 0 wh (t_rows tb))) (d, [])) as N.
  cbn [fst] in N. specialize (N R (fun r w => check_keeps fuel ord t r w)
                               (fun r w R0 => check_terminates_by_rank rk ord fuel t r w R0 HF)).
  destruct (each_row (check fuel ord t) (map snd (select_from 0 wh (t_rows tb))) (d, [])) as [w|e w|];
    [|discriminate|contradiction].
  destruct (get_table (fst w) t); discriminate.
Qed.

(* ------------------------------------------------------------------------------------ *)
(** * A cycle of ON DELETE CASCADE references between rows: no fuel is enough *)

Definition cyc_db : db :=
  [mkTable 0 [mkCol false None; mkCol true None] (Some [0]) [mkFk [1] 0 [0] ACascade ANoAction]
           [[Some 1%Z; Some 1%Z]]].

Lemma cycle_check_crashes : forall fuel ev, check fuel [0] 0 [Some 1%Z; Some 1%Z] (cyc_db, ev) = OCrash.
Proof.
  induction fuel as [|f IH]; intros ev; [reflexivity|].
  cbn [check]. unfold check_body, cascade_delete. cbn. rewrite IH. reflexivity.
Qed.

(** DELETE FROM t0 WHERE c0 = 1 on the row (1,1) of a self-referencing ON DELETE CASCADE table *)
Theorem cascade_cycle_diverges : forall fuel,
  snd (step_fuel fuel [0] cyc_db (SDelete 0 (Some (PCmp 0 OEq 1%Z)))) = RCrash.
Proof.
  intros fuel. unfold step_fuel, exec_delete. cbn. rewrite cycle_check_crashes. reflexivity.
Qed.

(** ... while the database satisfies every invariant and RI *)
Theorem cascade_cycle_state_ok : RI cyc_db /\ inv cyc_db.
Proof.
  split.
  - intros ct fk r [<-|[]] [<-|[]] [<-|[]] _. exists (hd (mkTable 0 [] None [] []) cyc_db), [Some 1%Z; Some 1%Z].
    cbn. auto.
  - constructor.
    + cbn. repeat constructor. intros [].
    + intros t r [<-|[]] [<-|[]]. reflexivity.
    + reflexivity.
    + intros t pk [<-|[]] E. inversion E; subst. cbn. repeat constructor. intros [].
    + intros t pk [<-|[]] E. inversion E; subst. split; [discriminate|]. intros c [<-|[]]. cbn. split; [lia|reflexivity].
    + intros t pk r [<-|[]] E [<-|[]]. inversion E; subst. reflexivity.
Qed.
