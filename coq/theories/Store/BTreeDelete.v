(** C17 -- delete / delete_specific with rebalancing (borrow, merge, root collapse) refine the
    ordered multimap and keep [wf 1] (no single-child internal node). *)
From Coq Require Import List ZArith Bool Arith Lia Sorted.
From VibeSQL Require Import Store.BTree Store.BTreeLemmas Store.BTreeLaws.
Import ListNotations.
Local Open Scope nat_scope.
Arguments seg : simpl never.
Arguments Nat.div : simpl never.

Ltac wl := match goal with |- context [write_leaf ?k ?x] =>
  destruct (write_leaf_cases k x) as [-> | ->]; cbn [bind]; [|first [reflexivity | cbn; reflexivity]] end.
Ltac wn := match goal with |- context [write_node ?k ?x ?y] =>
  destruct (write_node_cases k x y) as [-> | ->]; cbn [bind]; [|first [reflexivity | cbn; reflexivity]] end.

Lemma lob_S lo ks j m : nth_error ks j = Some m -> lob lo ks (S j) = Some m.
Proof. intros H. unfold lob. f_equal. now apply nth_error_nth. Qed.
Lemma hib_at hi ks i m : nth_error ks i = Some m -> hib hi ks i = Some m.
Proof. intros H. unfold hib. now rewrite H. Qed.

Lemma firstn_S_nth {A} : forall (l : list A) j x, nth_error l j = Some x -> firstn (S j) l = firstn j l ++ [x].
Proof.
  induction l as [|a l IH]; intros [|j] x H; cbn in H; try discriminate.
  - now inversion H.
  - cbn [firstn app]. f_equal. now apply IH.
Qed.

Lemma skipn_S_nth {A} : forall (l : list A) j x, nth_error l j = Some x -> skipn j l = x :: skipn (S j) l.
Proof.
  induction l as [|a l IH]; intros [|j] x H; cbn in H; try discriminate.
  - now inversion H.
  - cbn [skipn]. now apply IH.
Qed.

Lemma wf_leaf_view mn a b c : wf mn 1 a b c -> exists es, c = Leaf es /\ seg a b es.
Proof. destruct c; cbn; intros H; [exists es; tauto|]. destruct H as [H _]. congruence. Qed.

Lemma wf_node_view mn h a b c : wf mn (S (S h)) a b c ->
  exists nks ncs, c = Node nks ncs /\ mn <= length nks /\ wfc (wf mn (S h)) a b nks ncs.
Proof.
  destruct c as [es|nks ncs]; intros H.
  - destruct H; discriminate.
  - rewrite wf_node_unfold in H. exists nks, ncs. tauto.
Qed.

Section Delete.
  Variable d : nat.
  Variable ksz : key -> Z.
  Variable guard : bool.
  Hypothesis d_ge : 4 <= d.
  (** [mn] = minimum number of keys of an internal node; [mn = 0] (what bulk_load guarantees) is
      only sound for the code with the single-child guard *)
  Variable mn : nat.
  Hypothesis mn_le : mn <= 1.
  Hypothesis mn_guard : mn = 1 \/ guard = true.

  Let half_ge := half_ge d d_ge.

  (** ** leaf level *)
  Definition pair_post (W : bound -> bound -> node -> Prop) lo hi (ks : list key) (cs1 : list node)
             (res : option (list key * list node)) : Prop :=
    match res with
    | None => True
    | Some (ks', cs') =>
      wfc W lo hi ks' cs' /\ flat_map abs cs' = flat_map abs cs1 /\ length ks' = length ks
    end.

  Lemma borrow_leaf_left_spec lo hi ks cs j es' :
    wfc (wf mn 1) lo hi ks cs -> j < length ks -> seg (lob lo ks (S j)) (hib hi ks (S j)) es' ->
    let cs1 := set_nth (S j) (Leaf es') cs in
    match borrow_leaf_left d ksz ks cs1 (S j) es' with
    | Err e => e = PageOverflow
    | Ok res => pair_post (wf mn 1) lo hi ks cs1 res
    end.
  Proof.
    intros Hw Hj Hs cs1.
    destruct (wfc_at2 _ ks cs lo hi j Hw Hj) as (c1 & c2 & m & H1 & H2 & H3 & H4 & H5 & H6 & H7 & H8).
    pose proof (wfc_length _ _ _ _ _ Hw) as Hlen.
    unfold borrow_leaf_left, cs1.
    rewrite nth_error_set_nth_neq by lia. rewrite H1.
    apply wf_leaf_view in H6 as (ls & -> & Hls).
    destruct (half d <? length ls) eqn:Eh; [|exact I].
    apply Nat.ltb_lt in Eh.
    destruct (last_opt ls) as [[bk brs]|] eqn:El.
    2:{ apply last_opt_none in El. subst. cbn in Eh. lia. }
    apply last_opt_some in El.
    assert (j <? length ks = true) as -> by (apply Nat.ltb_lt; lia).
    wl. wl. cbn [fst pair_post].
    rewrite set2_set_nth_r by lia.
    pose proof (length_removelast ls) as Hl0.
    set (ls0 := removelast ls) in *. clearbody ls0.
    rewrite El in Hls. apply seg_split in Hls as (S0 & Sb & Hin).
    rewrite (lob_S lo ks j m H3) in Hs.
    split; [|split].
    - apply (H8 [bk] [Leaf ls0; Leaf ((bk, brs) :: es')]). cbn [wfc].
      split; [|split; [|split]].
      + destruct ls0 as [|e0 l0] eqn:E0; [cbn in Hl0; lia|]. eapply seg_nonempty_lo; eauto.
      + destruct Hin as [_ Hin]. cbn in Hin. eapply lt_hi_trans; [|exact H5]. lia.
      + split; auto.
      + split; auto. change ((bk, brs) :: es') with ([(bk, brs)] ++ es').
        eapply seg_app with (k := m); [exact Sb|exact Hs| |exact H5].
        destruct Hin as [_ Hin]. cbn in *. lia.
    - unfold set2, set_nth. rewrite !flat_map_app'. cbn [flat_map abs].
      rewrite (firstn_S_nth cs j (Leaf ls) H1), flat_map_app'. cbn [flat_map abs].
      rewrite El. rewrite <- !app_assoc. cbn [app]. reflexivity.
    - apply set_nth_length. lia.
  Qed.

  Lemma borrow_leaf_right_spec lo hi ks cs i es' :
    wfc (wf mn 1) lo hi ks cs -> i <= length ks -> seg (lob lo ks i) (hib hi ks i) es' ->
    let cs1 := set_nth i (Leaf es') cs in
    match borrow_leaf_right d ksz ks cs1 i es' with
    | Err e => e = PageOverflow
    | Ok res => pair_post (wf mn 1) lo hi ks cs1 res
    end.
  Proof.
    intros Hw Hi Hs cs1.
    pose proof (wfc_length _ _ _ _ _ Hw) as Hlen.
    unfold borrow_leaf_right, cs1. rewrite set_nth_length by lia.
    destruct (S i <? length cs) eqn:Ei; [|exact I]. apply Nat.ltb_lt in Ei.
    assert (Hi' : i < length ks) by lia.
    destruct (wfc_at2 _ ks cs lo hi i Hw Hi') as (c1 & c2 & m & H1 & H2 & H3 & H4 & H5 & H6 & H7 & H8).
    rewrite nth_error_set_nth_neq by lia. rewrite H2.
    apply wf_leaf_view in H7 as (rs & -> & Hrs).
    destruct (half d <? length rs) eqn:Eh; [|exact I].
    apply Nat.ltb_lt in Eh.
    destruct rs as [|[bkk brs] rs']; [cbn in Eh; lia|].
    destruct rs' as [|[k2 r2] rs'']; [cbn in Eh; lia|].
    assert (i <? length ks = true) as -> by (apply Nat.ltb_lt; lia).
    wl. wl. cbn [pair_post].
    rewrite set2_set_nth_l by lia.
    rewrite (hib_at hi ks i m H3) in Hs.
    change ((bkk, brs) :: (k2, r2) :: rs'') with ([(bkk, brs)] ++ (k2, r2) :: rs'') in Hrs.
    apply seg_split in Hrs as (Sb & Sr & Hin).
    assert (Hb : (m <= bkk < k2)%Z).
    { destruct Sb as (_ & Q & _). cbn in Q. inversion Q as [|? ? [Q1 Q2] _]; subst. cbn in Q1, Q2. lia. }
    split; [|split].
    - apply (H8 [k2] [Leaf (es' ++ [(bkk, brs)]); Leaf ((k2, r2) :: rs'')]). cbn [wfc].
      split; [|split; [|split]].
      + eapply lo_lt_trans; [exact H4|]. lia.
      + apply Hin.
      + split; auto. eapply seg_app with (k := m); [exact Hs|exact Sb| |].
        * now apply lo_lt_le.
        * cbn. lia.
      + split; auto.
    - unfold set2, set_nth. rewrite !flat_map_app'. cbn [flat_map abs].
      rewrite (skipn_S_nth cs (S i) _ H2). cbn [flat_map abs].
      rewrite <- !app_assoc. cbn [app]. reflexivity.
    - apply set_nth_length. lia.
  Qed.

  Definition merge_post (W : bound -> bound -> node -> Prop) lo hi (ks : list key) (cs1 : list node)
             (res : result (list key * list node)) : Prop :=
    match res with
    | Err e => e = PageOverflow
    | Ok (ks', cs') =>
      wfc W lo hi ks' cs' /\ flat_map abs cs' = flat_map abs cs1 /\ S (length ks') = length ks
    end.

  Lemma del_nth_length {A} i (l : list A) : i < length l -> S (length (del_nth i l)) = length l.
  Proof.
    intros H. unfold del_nth. rewrite app_length, firstn_length, skipn_length. lia.
  Qed.

  Lemma merge_leaf_left_spec lo hi ks cs j es' :
    wfc (wf mn 1) lo hi ks cs -> j < length ks -> seg (lob lo ks (S j)) (hib hi ks (S j)) es' ->
    let cs1 := set_nth (S j) (Leaf es') cs in
    merge_post (wf mn 1) lo hi ks cs1 (merge_leaf ksz ks cs1 (S j) es').
  Proof.
    intros Hw Hj Hs cs1.
    destruct (wfc_at2 _ ks cs lo hi j Hw Hj) as (c1 & c2 & m & H1 & H2 & H3 & H4 & H5 & H6 & H7 & H8).
    pose proof (wfc_length _ _ _ _ _ Hw) as Hlen.
    unfold merge_leaf, cs1.
    rewrite nth_error_set_nth_neq by lia. rewrite H1.
    apply wf_leaf_view in H6 as (ls & -> & Hls).
    wl.
    assert (j <? length ks = true) as -> by (apply Nat.ltb_lt; lia).
    cbn [merge_post]. rewrite merge2_set_nth_r by lia.
    rewrite (lob_S lo ks j m H3) in Hs.
    split; [|split].
    - apply (H8 [] [Leaf (ls ++ es')]). cbn [wfc]. split; auto.
      eapply seg_app with (k := m); eauto. now apply lo_lt_le.
    - unfold merge2, set_nth. rewrite !flat_map_app'. cbn [flat_map abs].
      rewrite (firstn_S_nth cs j (Leaf ls) H1), flat_map_app'. cbn [flat_map abs].
      rewrite <- !app_assoc. cbn [app]. reflexivity.
    - apply del_nth_length. lia.
  Qed.

  Lemma merge_leaf_right_spec lo hi ks cs es' :
    wfc (wf mn 1) lo hi ks cs -> 0 < length ks -> seg (lob lo ks 0) (hib hi ks 0) es' ->
    let cs1 := set_nth 0 (Leaf es') cs in
    merge_post (wf mn 1) lo hi ks cs1 (merge_leaf ksz ks cs1 0 es').
  Proof.
    intros Hw Hj Hs cs1.
    destruct (wfc_at2 _ ks cs lo hi 0 Hw Hj) as (c1 & c2 & m & H1 & H2 & H3 & H4 & H5 & H6 & H7 & H8).
    pose proof (wfc_length _ _ _ _ _ Hw) as Hlen.
    unfold merge_leaf, cs1.
    rewrite nth_error_set_nth_neq by lia. rewrite H2.
    apply wf_leaf_view in H7 as (rs & -> & Hrs).
    wl.
    assert (0 <? length ks = true) as -> by (apply Nat.ltb_lt; lia).
    cbn [merge_post]. rewrite merge2_set_nth_l by lia.
    rewrite (hib_at hi ks 0 m H3) in Hs.
    split; [|split].
    - apply (H8 [] [Leaf (es' ++ rs)]). cbn [wfc]. split; auto.
      eapply seg_app with (k := m); eauto. now apply lo_lt_le.
    - unfold merge2, set_nth. rewrite !flat_map_app'. cbn [flat_map abs].
      rewrite (skipn_S_nth cs 1 _ H2). cbn [flat_map abs].
      rewrite <- !app_assoc. cbn [app]. reflexivity.
    - apply del_nth_length. lia.
  Qed.

  Definition rebalance_post (W : bound -> bound -> node -> Prop) lo hi (ks : list key) (cs1 : list node)
             (res : result (list key * list node * bool)) : Prop :=
    match res with
    | Err e => e = PageOverflow
    | Ok (ks', cs', merged) =>
      wfc W lo hi ks' cs' /\ flat_map abs cs' = flat_map abs cs1 /\
      (if merged then S (length ks') = length ks else length ks' = length ks)
    end.

  Lemma rebalance_leaf_spec lo hi ks cs i es' :
    wfc (wf mn 1) lo hi ks cs -> i <= length ks -> 1 <= length ks ->
    seg (lob lo ks i) (hib hi ks i) es' ->
    let cs1 := set_nth i (Leaf es') cs in
    rebalance_post (wf mn 1) lo hi ks cs1 (rebalance_leaf d ksz ks cs1 i es').
  Proof.
    intros Hw Hi H1 Hs cs1. unfold rebalance_leaf.
    pose proof (borrow_leaf_right_spec lo hi ks cs i es' Hw Hi Hs) as PR. cbv zeta in PR. fold cs1 in PR.
    destruct i as [|j].
    - change (borrow_leaf_left d ksz ks cs1 0 es') with (@Ok (option (list key * list node)) None). cbn [bind].
      destruct (borrow_leaf_right d ksz ks cs1 0 es') as [[[ks' cs']|]|e]; cbn [bind]; [| |exact PR].
      + cbn [rebalance_post]. exact PR.
      + pose proof (merge_leaf_right_spec lo hi ks cs es' Hw H1 Hs) as PM. cbv zeta in PM. fold cs1 in PM.
        destruct (merge_leaf ksz ks cs1 0 es') as [[ks' cs']|e]; cbn [bind]; exact PM.
    - pose proof (borrow_leaf_left_spec lo hi ks cs j es' Hw Hi Hs) as PL. cbv zeta in PL. fold cs1 in PL.
      destruct (borrow_leaf_left d ksz ks cs1 (S j) es') as [[[ks' cs']|]|e]; cbn [bind]; [| |exact PL].
      + cbn [rebalance_post]. exact PL.
      + destruct (borrow_leaf_right d ksz ks cs1 (S j) es') as [[[ks' cs']|]|e]; cbn [bind]; [| |exact PR].
        * cbn [rebalance_post]. exact PR.
        * pose proof (merge_leaf_left_spec lo hi ks cs j es' Hw Hi Hs) as PM. cbv zeta in PM. fold cs1 in PM.
          destruct (merge_leaf ksz ks cs1 (S j) es') as [[ks' cs']|e]; cbn [bind]; exact PM.
  Qed.

  (** ** internal level *)
  Lemma borrow_node_left_spec h lo hi ks cs j nks ncs :
    wfc (wf mn (S (S h))) lo hi ks cs -> j < length ks ->
    wfc (wf mn (S h)) (lob lo ks (S j)) (hib hi ks (S j)) nks ncs ->
    let cs1 := set_nth (S j) (Node nks ncs) cs in
    match borrow_node_left d ksz ks cs1 (S j) nks ncs with
    | Err e => e = PageOverflow
    | Ok res => pair_post (wf mn (S (S h))) lo hi ks cs1 res
    end.
  Proof.
    intros Hw Hj Hs cs1.
    destruct (wfc_at2 _ ks cs lo hi j Hw Hj) as (c1 & c2 & m & H1 & H2 & H3 & H4 & H5 & H6 & H7 & H8).
    pose proof (wfc_length _ _ _ _ _ Hw) as Hlen.
    unfold borrow_node_left, cs1.
    rewrite nth_error_set_nth_neq by lia. rewrite H1.
    apply wf_node_view in H6 as (lks & lcs & -> & Hl1 & Hlw).
    pose proof (wfc_length _ _ _ _ _ Hlw) as Hll.
    destruct (half d <? length lcs) eqn:Eh; [|exact I].
    apply Nat.ltb_lt in Eh.
    destruct (last_opt lcs) as [bc|] eqn:Elc.
    2:{ apply last_opt_none in Elc. subst. cbn in Eh. lia. }
    destruct (last_opt lks) as [bk|] eqn:Elk.
    2:{ apply last_opt_none in Elk. subst. cbn in Hll. lia. }
    rewrite H3.
    apply last_opt_some in Elc. apply last_opt_some in Elk.
    pose proof (length_removelast lcs) as Hc0. pose proof (length_removelast lks) as Hk0.
    set (lcs0 := removelast lcs) in *. set (lks0 := removelast lks) in *. clearbody lcs0 lks0.
    wn. wn. cbn [pair_post].
    rewrite set2_set_nth_r by lia.
    rewrite (lob_S lo ks j m H3) in Hs.
    rewrite Elk, Elc in Hlw. apply wfc_app_inv in Hlw as (A1 & A2 & A3 & A4); [|lia].
    cbn [wfc] in A4. cbn in A2.
    split; [|split].
    - apply (H8 [bk] [Node lks0 lcs0; Node (m :: nks) (bc :: ncs)]). cbn [wfc].
      split; [exact A1|]. split; [eapply lt_hi_trans; [|exact H5]; lia|]. split.
      + rewrite wf_node_unfold. split; [lia|]. split; [lia|exact A3].
      + rewrite wf_node_unfold. split; [lia|]. split; [cbn; lia|]. cbn [wfc]. cbn. auto.
    - unfold set2, set_nth. rewrite !flat_map_app'. cbn [flat_map abs].
      rewrite (firstn_S_nth cs j _ H1), flat_map_app'. cbn [flat_map abs].
      rewrite Elc, flat_map_app'. cbn [flat_map]. rewrite <- !app_assoc. cbn [app]. reflexivity.
    - apply set_nth_length. lia.
  Qed.

  Lemma borrow_node_right_spec h lo hi ks cs i nks ncs :
    wfc (wf mn (S (S h))) lo hi ks cs -> i <= length ks ->
    wfc (wf mn (S h)) (lob lo ks i) (hib hi ks i) nks ncs ->
    let cs1 := set_nth i (Node nks ncs) cs in
    match borrow_node_right d ksz ks cs1 i nks ncs with
    | Err e => e = PageOverflow
    | Ok res => pair_post (wf mn (S (S h))) lo hi ks cs1 res
    end.
  Proof.
    intros Hw Hi Hs cs1.
    pose proof (wfc_length _ _ _ _ _ Hw) as Hlen.
    pose proof (wfc_length _ _ _ _ _ Hs) as Hln.
    unfold borrow_node_right, cs1. rewrite set_nth_length by lia.
    destruct (S i <? length cs) eqn:Ei; [|exact I]. apply Nat.ltb_lt in Ei.
    assert (Hi' : i < length ks) by lia.
    destruct (wfc_at2 _ ks cs lo hi i Hw Hi') as (c1 & c2 & m & H1 & H2 & H3 & H4 & H5 & H6 & H7 & H8).
    rewrite nth_error_set_nth_neq by lia. rewrite H2.
    apply wf_node_view in H7 as (rks & rcs & -> & Hr1 & Hrw).
    pose proof (wfc_length _ _ _ _ _ Hrw) as Hrl.
    destruct (half d <? length rcs) eqn:Eh; [|exact I].
    apply Nat.ltb_lt in Eh.
    destruct rcs as [|bc rcs']; [cbn in Eh; lia|].
    destruct rks as [|bk rks']; [cbn in Hrl, Eh; lia|].
    rewrite H3.
    wn. wn. cbn [pair_post].
    rewrite set2_set_nth_l by lia.
    rewrite (hib_at hi ks i m H3) in Hs.
    cbn [wfc] in Hrw. destruct Hrw as (B1 & B2 & B3 & B4). cbn in B1.
    cbn [length] in *.
    split; [|split].
    - apply (H8 [bk] [Node (nks ++ [m]) (ncs ++ [bc]); Node rks' rcs']). cbn [wfc].
      split; [eapply lo_lt_trans; [exact H4|]; lia|]. split; [exact B2|]. split.
      + rewrite wf_node_unfold. split; [lia|]. split; [rewrite app_length; cbn; lia|].
        apply wfc_app; auto; try (cbn; lia).
      + rewrite wf_node_unfold. split; [lia|]. split; [lia|exact B4].
    - unfold set2, set_nth. rewrite !flat_map_app'. cbn [flat_map abs].
      rewrite (skipn_S_nth cs (S i) _ H2). cbn [flat_map abs].
      rewrite flat_map_app'. cbn [flat_map]. rewrite <- !app_assoc. cbn [app]. reflexivity.
    - apply set_nth_length. lia.
  Qed.

  Lemma merge_node_left_spec h lo hi ks cs j nks ncs :
    wfc (wf mn (S (S h))) lo hi ks cs -> j < length ks ->
    wfc (wf mn (S h)) (lob lo ks (S j)) (hib hi ks (S j)) nks ncs ->
    let cs1 := set_nth (S j) (Node nks ncs) cs in
    merge_post (wf mn (S (S h))) lo hi ks cs1 (merge_node ksz ks cs1 (S j) nks ncs).
  Proof.
    intros Hw Hj Hs cs1.
    destruct (wfc_at2 _ ks cs lo hi j Hw Hj) as (c1 & c2 & m & H1 & H2 & H3 & H4 & H5 & H6 & H7 & H8).
    pose proof (wfc_length _ _ _ _ _ Hw) as Hlen.
    unfold merge_node, cs1.
    rewrite nth_error_set_nth_neq by lia. rewrite H1, H3.
    apply wf_node_view in H6 as (lks & lcs & -> & Hl1 & Hlw).
    wn. cbn [merge_post]. rewrite merge2_set_nth_r by lia.
    rewrite (lob_S lo ks j m H3) in Hs.
    split; [|split].
    - apply (H8 [] [Node (lks ++ m :: nks) (lcs ++ ncs)]). cbn [wfc].
      rewrite wf_node_unfold. split; [lia|]. split; [rewrite app_length; cbn; lia|].
      apply wfc_app; auto.
    - unfold merge2, set_nth. rewrite !flat_map_app'. cbn [flat_map abs].
      rewrite (firstn_S_nth cs j _ H1). rewrite !flat_map_app'. cbn [flat_map abs].
      rewrite ?app_nil_r, <- ?app_assoc. cbn [app]. reflexivity.
    - apply del_nth_length. lia.
  Qed.

  Lemma merge_node_right_spec h lo hi ks cs nks ncs :
    wfc (wf mn (S (S h))) lo hi ks cs -> 0 < length ks ->
    wfc (wf mn (S h)) (lob lo ks 0) (hib hi ks 0) nks ncs ->
    let cs1 := set_nth 0 (Node nks ncs) cs in
    merge_post (wf mn (S (S h))) lo hi ks cs1 (merge_node ksz ks cs1 0 nks ncs).
  Proof.
    intros Hw Hj Hs cs1.
    destruct (wfc_at2 _ ks cs lo hi 0 Hw Hj) as (c1 & c2 & m & H1 & H2 & H3 & H4 & H5 & H6 & H7 & H8).
    pose proof (wfc_length _ _ _ _ _ Hw) as Hlen.
    unfold merge_node, cs1.
    rewrite nth_error_set_nth_neq by lia. rewrite H2, H3.
    apply wf_node_view in H7 as (rks & rcs & -> & Hr1 & Hrw).
    wn. cbn [merge_post]. rewrite merge2_set_nth_l by lia.
    rewrite (hib_at hi ks 0 m H3) in Hs.
    split; [|split].
    - apply (H8 [] [Node (nks ++ m :: rks) (ncs ++ rcs)]). cbn [wfc].
      rewrite wf_node_unfold. split; [lia|]. split; [rewrite app_length; cbn; lia|].
      apply wfc_app; auto.
    - unfold merge2, set_nth. rewrite !flat_map_app'. cbn [flat_map abs].
      rewrite (skipn_S_nth cs 1 _ H2). rewrite !flat_map_app'. cbn [flat_map abs].
      rewrite ?app_nil_r, <- ?app_assoc. cbn [app]. reflexivity.
    - apply del_nth_length. lia.
  Qed.

  Definition rebalance_node_post (W : bound -> bound -> node -> Prop) lo hi (ks : list key) (cs1 : list node)
             (res : result (list key * list node)) : Prop :=
    match res with
    | Err e => e = PageOverflow
    | Ok (ks', cs') => wfc W lo hi ks' cs' /\ flat_map abs cs' = flat_map abs cs1
    end.

  Lemma rebalance_node_spec h lo hi ks cs i nks ncs :
    wfc (wf mn (S (S h))) lo hi ks cs -> i <= length ks -> 1 <= length ks ->
    wfc (wf mn (S h)) (lob lo ks i) (hib hi ks i) nks ncs ->
    let cs1 := set_nth i (Node nks ncs) cs in
    rebalance_node_post (wf mn (S (S h))) lo hi ks cs1 (rebalance_node d ksz ks cs1 i nks ncs).
  Proof.
    intros Hw Hi H1 Hs cs1. unfold rebalance_node.
    pose proof (borrow_node_right_spec h lo hi ks cs i nks ncs Hw Hi Hs) as PR. cbv zeta in PR. fold cs1 in PR.
    destruct i as [|j].
    - change (borrow_node_left d ksz ks cs1 0 nks ncs) with (@Ok (option (list key * list node)) None). cbn [bind].
      destruct (borrow_node_right d ksz ks cs1 0 nks ncs) as [[[ks' cs']|]|e]; cbn [bind]; [| |exact PR].
      + cbn [rebalance_node_post]. cbn in PR. tauto.
      + pose proof (merge_node_right_spec h lo hi ks cs nks ncs Hw H1 Hs) as PM. cbv zeta in PM. fold cs1 in PM.
        destruct (merge_node ksz ks cs1 0 nks ncs) as [[ks' cs']|e]; cbn in PM |- *; tauto.
    - pose proof (borrow_node_left_spec h lo hi ks cs j nks ncs Hw Hi Hs) as PL. cbv zeta in PL. fold cs1 in PL.
      destruct (borrow_node_left d ksz ks cs1 (S j) nks ncs) as [[[ks' cs']|]|e]; cbn [bind]; [| |exact PL].
      + cbn [rebalance_node_post]. cbn in PL. tauto.
      + destruct (borrow_node_right d ksz ks cs1 (S j) nks ncs) as [[[ks' cs']|]|e]; cbn [bind]; [| |exact PR].
        * cbn [rebalance_node_post]. cbn in PR. tauto.
        * pose proof (merge_node_left_spec h lo hi ks cs j nks ncs Hw Hi Hs) as PM. cbv zeta in PM. fold cs1 in PM.
          destruct (merge_node ksz ks cs1 (S j) nks ncs) as [[ks' cs']|e]; cbn in PM |- *; tauto.
  Qed.

  (** ** the recursive descent *)
  Lemma del_unfold_0 ks cs f k :
    del d ksz guard 2 (Node ks cs) f k =
    let i := fci ks k in
    match nth_error cs i with
    | None => Err Panic
    | Some c =>
      match c with
      | Node _ _ => Err BadPage
      | Leaf es =>
        match f es with
        | None => Ok DelNotFound
        | Some es' =>
          bind (write_leaf ksz es') (fun ln =>
          let cs1 := set_nth i ln cs in
          if length es' <? half d then
            if guard && (length cs <? 2) then Ok (DelDone (Node ks cs1) false) else
            bind (rebalance_leaf d ksz ks cs1 i es') (fun '(ks', cs', merged) =>
            bind (write_node ksz ks' cs') (fun n => Ok (DelDone n merged)))
          else Ok (DelDone (Node ks cs1) false))
        end
      end
    end.
  Proof. reflexivity. Qed.

  Lemma del_unfold_S h ks cs f k :
    del d ksz guard (S (S (S h))) (Node ks cs) f k =
    let i := fci ks k in
    match nth_error cs i with
    | None => Err Panic
    | Some c =>
      bind (del d ksz guard (S (S h)) c f k) (fun res =>
      match res with
      | DelNotFound => Ok DelNotFound
      | DelDone c' cont =>
        let cs1 := set_nth i c' cs in
        if cont then
          match c' with
          | Leaf _ => Err BadPage
          | Node nks ncs =>
            if length ncs <? half d then
              if guard && (length cs <? 2) then Ok (DelDone (Node ks cs1) false) else
              bind (rebalance_node d ksz ks cs1 i nks ncs) (fun '(ks', cs') =>
              bind (write_node ksz ks' cs') (fun n => Ok (DelDone n true)))
            else Ok (DelDone (Node ks cs1) false)
          end
        else Ok (DelDone (Node ks cs1) false)
      end)
    end.
  Proof. reflexivity. Qed.

  Definition del_post (h : nat) lo hi (t : node) (f : list entry -> option (list entry))
             (res : result del_res) : Prop :=
    match res with
    | Err e => e = PageOverflow
    | Ok DelNotFound => f (abs t) = None
    | Ok (DelDone t' cont) =>
      exists ks' cs', t' = Node ks' cs' /\ wfc (wf mn (S h)) lo hi ks' cs' /\
                      (cont = false -> mn <= length ks') /\ f (abs t) = Some (flat_map abs cs')
    end.

  Lemma flat_map_set_nth (cs : list node) i c c' : nth_error cs i = Some c ->
    flat_map abs (set_nth i c' cs) = flat_map abs (firstn i cs) ++ abs c' ++ flat_map abs (skipn (S i) cs).
  Proof. intros _. unfold set_nth. rewrite flat_map_app'. reflexivity. Qed.

  Lemma del_spec k f : local_op k f -> forall h lo hi t, wf mn (S (S h)) lo hi t -> inb lo hi k ->
    del_post h lo hi t f (del d ksz guard (S (S h)) t f k).
  Proof.
    intros Hf. induction h as [|h IH]; intros lo hi t H Hk.
    - apply wf_node_view in H as (ks & cs & -> & Hk1 & Hw).
      rewrite del_unfold_0. cbv zeta.
      pose proof (fci_le ks k) as Hi. set (i := fci ks k) in *.
      destruct (wfc_at _ ks cs lo hi i Hw Hi) as (c & Hn & Hwc & Hr).
      pose proof (wfc_route _ ks cs lo hi k Hw Hk) as Hrt. fold i in Hrt.
      pose proof (wfc_length _ _ _ _ _ Hw) as Hlen.
      assert (Hl : klt k (flat_map abs (firstn i cs))).
      { exact (wfc_prefix_klt _ (wf_seg mn 1) ks cs lo hi i k Hw Hi (proj1 Hrt)). }
      assert (Hg : kgt k (flat_map abs (skipn (S i) cs))).
      { exact (wfc_suffix_kgt _ (wf_seg mn 1) ks cs lo hi i k Hw Hi (proj2 Hrt)). }
      rewrite Hn. apply wf_leaf_view in Hwc as (es & -> & Hes).
      assert (Habs : f (abs (Node ks cs)) =
                     option_map (fun M => flat_map abs (firstn i cs) ++ M ++ flat_map abs (skipn (S i) cs)) (f es)).
      { cbn [abs]. rewrite (flat_map_split cs i _ Hn). cbn [abs].
        rewrite (lop_l _ _ Hf) by exact Hl. rewrite (lop_r _ _ Hf) by exact Hg.
        destruct (f es); reflexivity. }
      destruct (f es) as [es'|] eqn:Ef; [|cbn; exact Habs].
      pose proof (lop_seg _ _ Hf _ _ _ _ Hes Ef) as Hes'.
      wl.
      assert (Hplain0 : del_post 0 lo hi (Node ks cs) f (Ok (DelDone (Node ks (set_nth i (Leaf es') cs)) false))).
      { cbn [del_post]. exists ks, (set_nth i (Leaf es') cs). split; [reflexivity|]. split; [|split].
        * specialize (Hr [] [Leaf es']). cbn [app] in Hr. rewrite firstn_skipn in Hr. apply Hr.
          cbn [wfc]. split; auto.
        * intros _. exact Hk1.
        * rewrite Habs. cbn [option_map]. f_equal. now rewrite (flat_map_set_nth cs i _ _ Hn). }
      destruct (length es' <? half d) eqn:Eu; [|exact Hplain0].
      destruct (guard && (length cs <? 2)) eqn:Eg; [exact Hplain0|].
      assert (Hk1' : 1 <= length ks).
      { destruct mn_guard as [E|E]; [lia|]. rewrite E in Eg. cbn [andb] in Eg. apply Nat.ltb_ge in Eg. lia. }
      pose proof (rebalance_leaf_spec lo hi ks cs i es' Hw Hi Hk1' Hes') as PR. cbv zeta in PR.
      destruct (rebalance_leaf d ksz ks (set_nth i (Leaf es') cs) i es') as [[[ks' cs'] merged]|e];
        cbn [bind]; [|exact PR].
      cbn [rebalance_post] in PR. destruct PR as (P1 & P2 & P3).
      wn. cbn [del_post]. exists ks', cs'. split; [reflexivity|]. split; [exact P1|]. split.
      + intros ->. lia.
      + rewrite Habs, P2. cbn [option_map]. f_equal. now rewrite (flat_map_set_nth cs i _ _ Hn).
    - apply wf_node_view in H as (ks & cs & -> & Hk1 & Hw).
      rewrite del_unfold_S. cbv zeta.
      pose proof (fci_le ks k) as Hi. set (i := fci ks k) in *.
      destruct (wfc_at _ ks cs lo hi i Hw Hi) as (c & Hn & Hwc & Hr).
      pose proof (wfc_route _ ks cs lo hi k Hw Hk) as Hrt. fold i in Hrt.
      pose proof (wfc_length _ _ _ _ _ Hw) as Hlen.
      assert (Hl : klt k (flat_map abs (firstn i cs))).
      { exact (wfc_prefix_klt _ (wf_seg mn (S (S h))) ks cs lo hi i k Hw Hi (proj1 Hrt)). }
      assert (Hg : kgt k (flat_map abs (skipn (S i) cs))).
      { exact (wfc_suffix_kgt _ (wf_seg mn (S (S h))) ks cs lo hi i k Hw Hi (proj2 Hrt)). }
      rewrite Hn.
      assert (Habs : f (abs (Node ks cs)) =
                     option_map (fun M => flat_map abs (firstn i cs) ++ M ++ flat_map abs (skipn (S i) cs)) (f (abs c))).
      { cbn [abs]. rewrite (flat_map_split cs i _ Hn).
        rewrite (lop_l _ _ Hf) by exact Hl. rewrite (lop_r _ _ Hf) by exact Hg.
        destruct (f (abs c)); reflexivity. }
      specialize (IH _ _ c Hwc Hrt).
      destruct (del d ksz guard (S (S h)) c f k) as [[|c' cont]|e]; cbn [bind]; cbn [del_post] in IH.
      + cbn [del_post]. rewrite Habs, IH. reflexivity.
      + destruct IH as (nks & ncs & -> & Q1 & Q2 & Q3).
        pose proof (wfc_length _ _ _ _ _ Q1) as Hln.
        assert (Hplain : mn <= length nks ->
                  del_post (S h) lo hi (Node ks cs) f (Ok (DelDone (Node ks (set_nth i (Node nks ncs) cs)) false))).
        { intros Hn1. cbn [del_post]. exists ks, (set_nth i (Node nks ncs) cs).
          split; [reflexivity|]. split; [|split].
          - specialize (Hr [] [Node nks ncs]). cbn [app] in Hr. rewrite firstn_skipn in Hr. apply Hr.
            cbn [wfc]. rewrite wf_node_unfold. split; [lia|]. split; [exact Hn1|exact Q1].
          - intros _. exact Hk1.
          - rewrite Habs, Q3. cbn [option_map]. f_equal. now rewrite (flat_map_set_nth cs i _ _ Hn). }
        destruct cont.
        * destruct (length ncs <? half d) eqn:Eu.
          -- destruct (guard && (length cs <? 2)) eqn:Eg.
             { (* the guard fires only in a single-child parent, which [mn = 1] excludes *)
               apply Hplain. apply andb_prop in Eg as [Eg1 Eg2]. apply Nat.ltb_lt in Eg2.
               destruct mn_guard as [E|_]; [rewrite E in Hk1; lia|]. lia. }
             assert (Hk1' : 1 <= length ks).
             { destruct mn_guard as [E|E]; [lia|]. rewrite E in Eg. cbn [andb] in Eg. apply Nat.ltb_ge in Eg. lia. }
             pose proof (rebalance_node_spec h lo hi ks cs i nks ncs Hw Hi Hk1' Q1) as PR. cbv zeta in PR.
             destruct (rebalance_node d ksz ks (set_nth i (Node nks ncs) cs) i nks ncs) as [[ks' cs']|e];
               cbn [bind]; [|exact PR].
             cbn [rebalance_node_post] in PR. destruct PR as (P1 & P2).
             wn. cbn [del_post]. exists ks', cs'. split; [reflexivity|]. split; [exact P1|]. split.
             ++ intros; discriminate.
             ++ rewrite Habs, Q3, P2. cbn [option_map]. f_equal. now rewrite (flat_map_set_nth cs i _ _ Hn).
          -- apply Hplain. apply Nat.ltb_ge in Eu. lia.
        * apply Hplain. auto.
      + exact IH.
  Qed.

  (** ** BTreeIndex::delete / delete_specific *)
  Theorem delete_gen_refines k f t : local_op k f -> WF mn t ->
    match delete_gen d ksz guard f t k with
    | Err e => e = PageOverflow
    | Ok (t', b) =>
      WF mn t' /\
      match f (abs (root t)) with
      | None => t' = t /\ b = false
      | Some m' => abs (root t') = m' /\ b = true
      end
    end.
  Proof.
    intros Hf [Hh H]. unfold delete_gen. destruct t as [rt ht]. cbn [height root] in *.
    destruct ht as [|[|hh]]; [lia| |].
    - apply wf_leaf_view in H as (es & -> & Hes). cbn [abs].
      destruct (f es) as [es'|] eqn:Ef.
      + wl. split; [|auto]. split; cbn [height root]; [lia|]. cbn. split; auto.
        eapply (lop_seg _ _ Hf); eauto.
      + split; auto. split; cbn [height root]; [lia|]. cbn. auto.
    - pose proof (del_spec k f Hf hh None None rt H (conj I I)) as P.
      destruct (del d ksz guard (S (S hh)) rt f k) as [[|r' cont]|e]; cbn [bind]; cbn [del_post] in P; [| |exact P].
      + rewrite P. split; [split; [cbn [height]; lia|exact H]|auto].
      + destruct P as (ks' & cs' & -> & P1 & P2 & P3). rewrite P3.
        pose proof (wfc_length _ _ _ _ _ P1) as Hl.
        destruct cs' as [|c [|c2 rest]]; [cbn in Hl; lia| |].
        * destruct ks'; [|cbn in Hl; lia]. cbn [wfc] in P1. split.
          -- split; cbn [height root]; [lia|exact P1].
          -- cbn [root flat_map]. now rewrite app_nil_r.
        * split; [|auto]. split; cbn [height root]; [lia|].
          rewrite wf_node_unfold. split; [lia|]. split; [cbn in Hl; lia|exact P1].
  Qed.
End Delete.
