(** C33 laws, part 4a: [Agree] is preserved by CREATE TABLE, DROP TABLE, CREATE INDEX, DROP INDEX. *)
From Coq Require Import List ZArith Bool Arith Lia.
From VibeSQL Require Import Store.Catalog Store.CatalogBase Store.CatalogInv Store.CatalogIdx.
Import ListNotations.
Open Scope Z_scope.

Ltac simp_st := cbn [s_cs s_cat s_cidx s_tabs s_sidx set_tabs set_cat set_cidx set_sidx set_table fst snd] in *.

Lemma no_panic_ok : forall n, no_panic (ROk n).
Proof. intro n. split; discriminate. Qed.
Lemma no_panic_err : no_panic RErr.
Proof. split; discriminate. Qed.
#[export] Hint Resolve no_panic_ok no_panic_err : c33.

Lemma has_dot_split : forall n, has_dot n = true -> exists p, split_dot n = Some p.
Proof.
  induction n as [|c r IH]; intro H; [discriminate|]. cbn [split_dot].
  destruct (c =? dot) eqn:E; [eexists; reflexivity|].
  unfold has_dot in H. cbn [existsb] in H. rewrite E in H. cbn [orb] in H.
  destruct (IH H) as [[a b] Hp]. rewrite Hp. eexists; reflexivity.
Qed.

Lemma split_dot_none_nodot : forall n, split_dot n = None -> has_dot n = false.
Proof.
  intros n H. destruct (has_dot n) eqn:E; auto. destruct (has_dot_split n E) as [p Hp]. congruence.
Qed.

(** the (schema, table) split of an optionally qualified name *)
Lemma qname_cases : forall tn, wf_qname tn = true ->
  exists sn t, match split_dot tn with Some p => p | None => (public, tn) end = (sn, t) /\
               has_dot sn = false /\ has_dot t = false /\
               ((split_dot tn = None /\ sn = public /\ t = tn) \/ (split_dot tn = Some (sn, t) /\ tn = qual sn t)).
Proof.
  intros tn W. unfold wf_qname in W. destruct (split_dot tn) as [[sn t]|] eqn:E.
  - exists sn, t. destruct (split_dot_some _ _ _ E) as [-> Hd]. apply negb_true_iff in W. repeat split; auto.
  - exists public, tn. pose proof (split_dot_none_nodot _ E). repeat split; auto.
Qed.

(* ------------------------------------------------------------------------------------------ *)
(** * CREATE TABLE *)

Lemma agree_db_create_table : forall s sc, Agree s ->
  has_dot (ts_name sc) = false -> amem (ts_name sc) (s_cat s) = false -> cache_ok sc ->
  exists s', db_create_table s sc = Some s' /\ Agree s' /\
             s_cat s' = ainsert (ts_name sc) sc (s_cat s) /\
             s_tabs s' = ainsert (qual public (ts_name sc)) (mktab sc []) (s_tabs s) /\
             s_cidx s' = s_cidx s /\ s_sidx s' = s_sidx s /\ s_cs s' = s_cs s.
Proof.
  intros s sc A Hd NL CO. set (t := ts_name sc) in *.
  unfold db_create_table, cat_create_table. rewrite (ag_cs s A). fold t. rewrite NL.
  rewrite (cs_norm s A). fold t.
  eexists. split; [reflexivity|]. split; [|simp_st; repeat split; try reflexivity; apply (ag_cs s A)].
  assert (NLt : forall x, listed s x -> x <> t).
  { intros x L E. subst x. unfold listed in L. congruence. }
  constructor; cbn [s_cs s_cat s_cidx s_tabs s_sidx set_tabs set_cat].
  - apply (ag_cs s A).
  - apply nodup_ainsert. apply (ag_nd_cat s A).
  - apply nodup_ainsert. apply (ag_nd_tabs s A).
  - apply (ag_nd_cidx s A).
  - apply (ag_nd_sidx s A).
  - intros x sc0 H. rewrite alookup_ainsert in H. name_cases t x.
    + inversion H; subst. repeat split; auto.
    + apply (ag_cat_wf s A). exact H.
  - intros k H. rewrite amem_ainsert in H. unfold listed; simp_st.
    name_cases (qual public t) k.
    + exists t. split; auto. rewrite amem_ainsert. rewrite name_eqb_refl. reflexivity.
    + cbn [orb] in H. destruct (ag_tabs_keys s A k H) as [x [Hx L]]. exists x. split; auto.
      rewrite amem_ainsert. unfold listed in L. rewrite L. apply orb_true_r.
  - intros x sc0 H. rewrite alookup_ainsert in H. name_cases t x.
    + inversion H; subst. exists (mktab sc0 []). split; auto. apply alookup_ainsert_same.
    + destruct (ag_schemas s A x sc0 H) as [tb [H1 H2]]. exists tb. split; auto.
      rewrite alookup_ainsert_other; auto. intro E'. apply qual_inj_r in E'. congruence.
  - intros k tb H. rewrite alookup_ainsert in H. name_cases (qual public t) k.
    + inversion H; subst. cbn. constructor.
    + apply (ag_width s A k). exact H.
  - apply (ag_cidx s A).
  - apply (ag_sidx s A).
  - intros k x H. unfold listed; simp_st. rewrite amem_ainsert.
    pose proof (ag_idx_table s A k x H) as L. unfold listed in L. rewrite L. apply orb_true_r.
  - intros k x sc0 H H0. rewrite alookup_ainsert_other in H0.
    + eapply (ag_idx_cols s A); eauto.
    + intro E. apply (NLt (si_table x)); auto. eapply (ag_idx_table s A); eauto.
  - intros k x tb H H0. rewrite alookup_ainsert_other in H0.
    + eapply (ag_mirror s A); eauto.
    + intro E. apply qual_inj_r in E. apply (NLt (si_table x)); auto. eapply (ag_idx_table s A); eauto.
Qed.

Lemma cache_ok_new : forall n cols, cache_ok (ts_new n cols).
Proof. intros. reflexivity. Qed.

Lemma agree_create_table : forall s tn cols pk, Agree s -> wf_qname tn = true ->
  Agree (fst (exec_create_table s tn cols pk)) /\ no_panic (snd (exec_create_table s tn cols pk)).
Proof.
  intros s tn cols pk A W. unfold exec_create_table.
  destruct (qname_cases tn W) as [sn [t [E [Hsn [Ht _]]]]]. rewrite E.
  unfold cat_table_exists. rewrite (cat_get_qualified s A sn t Hsn).
  name_cases sn public.
  - subst sn. destruct (alookup t (s_cat s)) as [sc0|] eqn:EL; cbn [is_some fst snd]; auto with c33.
    cbn [negb].
    match goal with |- context [db_create_table s ?X] => set (sc := X) end.
    assert (Hn : ts_name sc = t) by reflexivity.
    destruct (agree_db_create_table s sc A) as [s' [H1 [H2 _]]].
    + rewrite Hn. exact Ht.
    + rewrite Hn. apply amem_false. exact EL.
    + reflexivity.
    + rewrite H1. cbn [fst snd]. auto with c33.
  - cbn [is_some negb fst snd]. auto with c33.
Qed.

(* ------------------------------------------------------------------------------------------ *)
(** * DROP TABLE *)

(** removing a listed table together with every index entry that names it *)
Lemma agree_remove_table : forall s s' t, Agree s -> listed s t ->
  s_cs s' = s_cs s ->
  s_cat s' = aremove t (s_cat s) ->
  s_tabs s' = aremove (qual public t) (s_tabs s) ->
  s_cidx s' = filter (fun p => negb (name_eqb (ci_table (snd p)) t)) (s_cidx s) ->
  NoDup (akeys (s_sidx s')) ->
  (forall k, alookup k (s_sidx s') =
             match alookup k (s_sidx s) with
             | Some x => if name_eqb (si_table x) t then None else Some x
             | None => None
             end) ->
  Agree s'.
Proof.
  intros s s' t A L E1 E2 E3 E4 ND E5.
  assert (SX : forall k x, alookup k (s_sidx s') = Some x -> alookup k (s_sidx s) = Some x /\ si_table x <> t).
  { intros k x H. rewrite E5 in H. destruct (alookup k (s_sidx s)) as [x0|]; try discriminate.
    name_cases (si_table x0) t; try discriminate. inversion H; subst. auto. }
  constructor; unfold listed; rewrite ?E1, ?E2, ?E3, ?E4.
  - apply (ag_cs s A).
  - apply nodup_aremove. apply (ag_nd_cat s A).
  - apply nodup_aremove. apply (ag_nd_tabs s A).
  - apply akeys_filter_nodup. apply (ag_nd_cidx s A).
  - exact ND.
  - intros x sc H. rewrite alookup_aremove in H. destruct (name_eqb t x); try discriminate.
    apply (ag_cat_wf s A). exact H.
  - intros k H. rewrite amem_aremove in H. apply andb_true_iff in H. destruct H as [H1 H2].
    apply negb_true_iff in H1. apply name_eqb_neq in H1.
    destruct (ag_tabs_keys s A k H2) as [x [Hx Lx]]. exists x. split; auto.
    rewrite amem_aremove. unfold listed in Lx. rewrite Lx. rewrite andb_true_r. apply negb_true_iff. apply name_eqb_neq.
    intro E. subst. contradiction.
  - intros x sc H. rewrite alookup_aremove in H. name_cases t x; try discriminate.
    destruct (ag_schemas s A x sc H) as [tb [H1 H2]]. exists tb. split; auto.
    rewrite alookup_aremove_other; auto. intro E'. apply qual_inj_r in E'. contradiction.
  - intros k tb H. rewrite alookup_aremove in H. destruct (name_eqb (qual public t) k); try discriminate.
    apply (ag_width s A k). exact H.
  - intros k c H. rewrite (alookup_filter _ _ _ (ag_nd_cidx s A)) in H.
    destruct (alookup k (s_cidx s)) as [c0|] eqn:Ec; try discriminate. cbn [snd] in H.
    destruct (name_eqb (ci_table c0) t) eqn:Et; try discriminate. cbn [negb] in H. inversion H; subst c0.
    destruct (ag_cidx s A k c Ec) as [Hk [x [Hx [Hn [Ht Hr]]]]]. split; auto.
    exists x. split; [|auto]. rewrite E5, Hx. rewrite Ht, Et. reflexivity.
  - intros k x H. destruct (SX k x H) as [H1 H2]. destruct (ag_sidx s A k x H1) as [Hk Hc]. split; auto.
    rewrite (alookup_filter _ _ _ (ag_nd_cidx s A)). rewrite Hc. cbn [snd ci_table].
    apply name_eqb_neq in H2. rewrite H2. reflexivity.
  - intros k x H. destruct (SX k x H) as [H1 H2]. rewrite amem_aremove.
    pose proof (ag_idx_table s A k x H1) as Lx. unfold listed in Lx. rewrite Lx, andb_true_r.
    apply negb_true_iff. apply name_eqb_neq. congruence.
  - intros k x sc H H0. destruct (SX k x H) as [H1 H2]. rewrite alookup_aremove_other in H0 by congruence.
    eapply (ag_idx_cols s A); eauto.
  - intros k x tb H H0. destruct (SX k x H) as [H1 H2]. rewrite alookup_aremove_other in H0.
    + eapply (ag_mirror s A); eauto.
    + intro E. apply qual_inj_r in E. congruence.
Qed.

(** dropping the storage indexes of a list of catalog indexes *)
Lemma fold_sidx_drop : forall l st,
  let st' := fold_left (fun st ci => sidx_drop st (ci_name ci)) l st in
  s_cs st' = s_cs st /\ s_cat st' = s_cat st /\ s_cidx st' = s_cidx st /\ s_tabs st' = s_tabs st /\
  (NoDup (akeys (s_sidx st)) -> NoDup (akeys (s_sidx st'))) /\
  (forall k, alookup k (s_sidx st') =
             if existsb (fun ci => name_eqb (idx_norm (ci_name ci)) k) l then None else alookup k (s_sidx st)).
Proof.
  induction l as [|ci r IH]; intro st; cbn [fold_left existsb].
  - repeat split; auto.
  - destruct (IH (sidx_drop st (ci_name ci))) as [H1 [H2 [H3 [H4 [H5 H6]]]]].
    cbn zeta in *. rewrite H1, H2, H3, H4. unfold sidx_drop at 1 2 3 4. simp_st. repeat split; auto.
    + intro ND. apply H5. unfold sidx_drop. simp_st. apply nodup_aremove. exact ND.
    + intro k. rewrite H6. unfold sidx_drop. simp_st. rewrite alookup_aremove.
      destruct (existsb (fun ci0 => name_eqb (idx_norm (ci_name ci0)) k) r); [rewrite orb_true_r; reflexivity|].
      rewrite orb_false_r. reflexivity.
Qed.

Lemma existsb_false_forall : forall (B : Type) (p : B -> bool) l, existsb p l = false <-> (forall x, In x l -> p x = false).
Proof.
  intros B p l. induction l as [|y r IH]; cbn [existsb].
  - split; auto. intros _ x [].
  - rewrite orb_false_iff, IH. split.
    + intros [H1 H2] x [Hx|Hx]; subst; auto.
    + intro H. split; [apply H; left; reflexivity | intros x Hx; apply H; right; exact Hx].
Qed.

(** under [Agree], the storage indexes reached through the catalog indexes of table [t] are
    exactly the storage indexes whose table is [t] *)
Lemma dropped_names_cover : forall s t k x, Agree s -> alookup k (s_sidx s) = Some x ->
  existsb (fun ci => name_eqb (idx_norm (ci_name ci)) k) (cat_table_indexes s t) = name_eqb (si_table x) t.
Proof.
  intros s t k x A H. destruct (ag_sidx s A k x H) as [Hk Hc].
  name_cases (si_table x) t.
  - apply existsb_exists. exists (mkci (si_name x) (si_table x) (si_cols x) (si_unique x)). split.
    + unfold cat_table_indexes. apply in_map_iff. eexists (_, _). split; [reflexivity|].
      apply filter_In. split; [apply alookup_in; exact Hc|]. cbn [snd ci_table]. apply name_eqb_eq. exact E.
    + cbn [ci_name]. apply name_eqb_eq. auto.
  - apply existsb_false_forall. intros ci Hci. apply name_eqb_neq. intro Ek.
    unfold cat_table_indexes in Hci. apply in_map_iff in Hci. destruct Hci as [[k0 c0] [Ec0 Hin]]. cbn in Ec0. subst c0.
    apply filter_In in Hin. destruct Hin as [Hin Ht]. cbn [snd] in Ht. apply name_eqb_eq in Ht.
    apply (in_alookup_nodup _ _ _ (ag_nd_cidx s A)) in Hin.
    destruct (ag_cidx s A k0 ci Hin) as [_ [x' [Hx' [_ [Ht' _]]]]].
    rewrite Ek in Hx'. rewrite H in Hx'. inversion Hx'; subst x'. congruence.
Qed.

Lemma sidx_no_dotted_table : forall s q, Agree s -> has_dot q = true ->
  filter (fun p => negb (name_eqb (si_table (snd p)) q)) (s_sidx s) = s_sidx s.
Proof.
  intros s q A Hq. apply filter_all. intros [k x] HI. cbn [snd].
  apply negb_true_iff. apply name_eqb_neq. intro E.
  apply (in_alookup_nodup _ _ _ (ag_nd_sidx s A)) in HI.
  pose proof (idx_table_nodot s A k x HI). congruence.
Qed.

Lemma cidx_no_dotted_table : forall s q, Agree s -> has_dot q = true ->
  filter (fun p => negb (name_eqb (ci_table (snd p)) q)) (s_cidx s) = s_cidx s /\ cat_table_indexes s q = [].
Proof.
  intros s q A Hq.
  assert (G : forall p, In p (s_cidx s) -> name_eqb (ci_table (snd p)) q = false).
  { intros [k c] HI. cbn [snd]. apply name_eqb_neq. intro E.
    apply (in_alookup_nodup _ _ _ (ag_nd_cidx s A)) in HI.
    pose proof (cidx_table_nodot s A k c HI). congruence. }
  split.
  - apply filter_all. intros p HI. rewrite (G p HI). reflexivity.
  - unfold cat_table_indexes. replace (filter (fun p => name_eqb (ci_table (snd p)) q) (s_cidx s)) with (@nil (name * cindex)); auto.
    symmetry. induction (s_cidx s) as [|p r IH]; cbn [filter]; auto.
    rewrite (G p (or_introl eq_refl)). apply IH. intros p' Hp'. apply G. right. exact Hp'.
Qed.

Lemma table_indexed_false : forall s t, table_indexed s t = false ->
  (forall p, In p (s_cidx s) -> name_eqb (ci_table (snd p)) t = false) /\
  (forall p, In p (s_sidx s) -> name_eqb (si_table (snd p)) t = false).
Proof.
  intros s t H. unfold table_indexed in H. apply orb_false_iff in H. destruct H as [H1 H2].
  split; [apply (proj1 (existsb_false_forall _ _ _) H1) | apply (proj1 (existsb_false_forall _ _ _) H2)].
Qed.

Lemma agree_drop_table : forall s tn ie, Agree s -> wf_qname tn = true -> known s (DropTable tn ie) = false ->
  Agree (fst (exec_drop_table s tn ie)) /\ no_panic (snd (exec_drop_table s tn ie)).
Proof.
  intros s tn ie A W K. unfold exec_drop_table.
  destruct (qname_cases tn W) as [sn [t [E [Hsn [Ht Hc]]]]].
  destruct Hc as [[Es [Esn Et]] | [Es Et]]; [subst sn; subst tn | subst tn].
  - (* plain name *)
    unfold cat_table_exists. rewrite (cat_get_plain s A t Ht).
    destruct (alookup t (s_cat s)) as [sc|] eqn:EL; cbn [is_some negb andb].
    2:{ destruct ie; cbn; auto with c33. }
    rewrite andb_false_r.
    assert (L : listed s t) by (apply amem_alookup; eauto).
    set (s1 := cat_drop_table_indexes s t).
    set (s2 := fold_left (fun st ci => sidx_drop st (ci_name ci)) (cat_table_indexes s t) s1).
    destruct (fold_sidx_drop (cat_table_indexes s t) s1) as [F1 [F2 [F3 [F4 [F5 F6]]]]]. fold s2 in F1, F2, F3, F4, F5, F6.
    unfold s1 in F1, F2, F3, F4, F5, F6. unfold cat_drop_table_indexes in F1, F2, F3, F4, F5, F6. simp_st.
    (* Operations::drop_table *)
    unfold ops_drop_table. unfold cat_norm. rewrite F1, (ag_cs s A). rewrite Ht.
    assert (SD : s_sidx (sidx_drop_for_table s2 (qual public t)) = s_sidx s2).
    { unfold sidx_drop_for_table. simp_st. apply filter_all. intros [k x] HI. cbn [snd].
      apply negb_true_iff. apply name_eqb_neq. intro Eq.
      assert (ND2 : NoDup (akeys (s_sidx s2))) by (apply F5; apply (ag_nd_sidx s A)).
      apply (in_alookup_nodup _ _ _ ND2) in HI. rewrite F6 in HI.
      destruct (existsb _ (cat_table_indexes s t)); try discriminate.
      pose proof (idx_table_nodot s A k x HI) as Hd. rewrite Eq, has_dot_qual in Hd. discriminate. }
    unfold cat_drop_table. rewrite Es. unfold schema_found, cat_norm, sidx_drop_for_table. simp_st.
    rewrite F1, (ag_cs s A). rewrite name_eqb_refl. cbn [negb]. rewrite F2. unfold listed in L. rewrite L.
    simp_st. rewrite F4. rewrite (tabs_nodot_absent s A t Ht). cbn [fst snd]. split; auto with c33.
    eapply (agree_remove_table s _ t A L); simp_st; try reflexivity; auto.
    + unfold sidx_drop_for_table in SD. simp_st. rewrite SD. apply F5. apply (ag_nd_sidx s A).
    + intro k. unfold sidx_drop_for_table in SD. simp_st. rewrite SD. rewrite F6.
      destruct (alookup k (s_sidx s)) as [x|] eqn:Ex.
      * rewrite (dropped_names_cover s t k x A Ex). reflexivity.
      * destruct (existsb _ (cat_table_indexes s t)); reflexivity.
  - (* schema-qualified name *)
    unfold cat_table_exists. rewrite (cat_get_qualified s A sn t Hsn).
    name_cases sn public.
    2:{ cbn [is_some negb andb]. destruct ie; cbn; auto with c33. }
    subst sn. destruct (alookup t (s_cat s)) as [sc|] eqn:EL; cbn [is_some negb andb].
    2:{ destruct ie; cbn; auto with c33. }
    rewrite andb_false_r.
    assert (L : listed s t) by (apply amem_alookup; eauto).
    cbn [known] in K. rewrite Es in K.
    destruct (cidx_no_dotted_table s (qual public t) A (has_dot_qual _ _)) as [C1 C2].
    rewrite C2. cbn [fold_left]. unfold cat_drop_table_indexes. rewrite C1.
    unfold ops_drop_table, cat_norm. simp_st. rewrite (ag_cs s A). rewrite has_dot_qual.
    unfold sidx_drop_for_table. simp_st. rewrite (sidx_no_dotted_table s _ A (has_dot_qual _ _)).
    unfold cat_drop_table. rewrite Es. unfold schema_found, cat_norm. simp_st. rewrite (ag_cs s A).
    rewrite name_eqb_refl. cbn [negb]. unfold listed in L. rewrite L.
    apply listed_stored in L; auto. unfold stored in L. simp_st. rewrite L. cbn [fst snd]. split; auto with c33.
    destruct (table_indexed_false s t K) as [K1 K2].
    eapply (agree_remove_table s _ t A); simp_st; try reflexivity; auto.
    + apply listed_stored; auto.
    + symmetry. apply filter_all. intros p Hp. rewrite (K1 p Hp). reflexivity.
    + apply (ag_nd_sidx s A).
    + intro k. destruct (alookup k (s_sidx s)) as [x|] eqn:Ex; auto.
      apply alookup_in in Ex. pose proof (K2 _ Ex) as K3. cbn [snd] in K3. rewrite K3. reflexivity.
Qed.

(* ------------------------------------------------------------------------------------------ *)
(** * CREATE INDEX *)

Lemma agree_add_index : forall s iname t unique cols sc rows d, Agree s ->
  alookup t (s_cat s) = Some sc ->
  alookup (qual public t) (s_tabs s) = Some (mktab sc rows) ->
  (forall c, In c cols -> In c (col_names sc)) ->
  amem (ci_key t iname) (s_cidx s) = false ->
  amem (idx_norm iname) (s_sidx s) = false ->
  build_data sc cols rows 0 [] = Some d ->
  Agree (set_sidx (set_cidx s (ainsert (ci_key t iname) (mkci iname t cols unique) (s_cidx s)))
                  (ainsert (idx_norm iname) (mksi iname t unique cols d) (s_sidx s))).
Proof.
  intros s iname t unique cols sc rows d A EL ET HC CK SK BD.
  assert (L : listed s t) by (apply amem_alookup; eauto).
  constructor; unfold listed; simp_st.
  - apply (ag_cs s A).
  - apply (ag_nd_cat s A).
  - apply (ag_nd_tabs s A).
  - apply nodup_ainsert. apply (ag_nd_cidx s A).
  - apply nodup_ainsert. apply (ag_nd_sidx s A).
  - apply (ag_cat_wf s A).
  - apply (ag_tabs_keys s A).
  - apply (ag_schemas s A).
  - apply (ag_width s A).
  - intros k c H. rewrite alookup_ainsert in H. name_cases (ci_key t iname) k.
    + inversion H; subst c. cbn [ci_table ci_name ci_cols ci_unique]. split; auto.
      eexists. split; [apply alookup_ainsert_same|]. cbn. auto.
    + destruct (ag_cidx s A k c H) as [Hk [x [Hx Hr]]]. split; auto. exists x. split; auto.
      rewrite alookup_ainsert_other; auto. intro E'.
      apply amem_false in SK. rewrite E' in SK. congruence.
  - intros k x H. rewrite alookup_ainsert in H. name_cases (idx_norm iname) k.
    + inversion H; subst x. cbn [si_name si_table si_cols si_unique]. split; auto. apply alookup_ainsert_same.
    + destruct (ag_sidx s A k x H) as [Hk Hc]. split; auto.
      rewrite alookup_ainsert_other; auto. intro E'.
      apply amem_false in CK. rewrite E' in CK. congruence.
  - intros k x H. rewrite alookup_ainsert in H. name_cases (idx_norm iname) k.
    + inversion H; subst x. exact L.
    + eapply (ag_idx_table s A); eauto.
  - intros k x sc0 H H0 c Hc. rewrite alookup_ainsert in H. name_cases (idx_norm iname) k.
    + inversion H; subst x. cbn [si_table si_cols] in *. rewrite EL in H0. inversion H0; subst sc0. auto.
    + eapply (ag_idx_cols s A); eauto.
  - intros k x tb H H0. rewrite alookup_ainsert in H. name_cases (idx_norm iname) k.
    + inversion H; subst x. cbn [si_table si_cols si_data] in *. rewrite ET in H0. inversion H0; subst tb. exact BD.
    + eapply (ag_mirror s A); eauto.
Qed.

Lemma exact_cols_in : forall sc cols,
  forallb (fun cn => existsb (fun c => name_eqb (c_name c) cn) (ts_cols sc)) cols = true ->
  forall c, In c cols -> In c (col_names sc).
Proof.
  intros sc cols H c Hc. rewrite forallb_forall in H. specialize (H c Hc).
  apply existsb_exists in H. destruct H as [col [H1 H2]]. apply name_eqb_eq in H2. subst.
  unfold col_names. apply in_map. exact H1.
Qed.

Lemma all_cols_found_exact : forall sc cols, cache_ok sc -> (forall c, In c cols -> In c (col_names sc)) ->
  all_cols_found sc cols = true.
Proof.
  intros sc cols CO H. unfold all_cols_found. apply forallb_forall. intros c Hc.
  destruct (get_column_index_exact sc c CO (H c Hc)) as [i [Hi _]]. rewrite Hi. reflexivity.
Qed.

Lemma agree_create_index : forall s iname tn unique cols ine, Agree s -> wf_name tn = true ->
  Agree (fst (exec_create_index s iname tn unique cols ine)) /\
  no_panic (snd (exec_create_index s iname tn unique cols ine)).
Proof.
  intros s iname tn unique cols ine A W. unfold wf_name in W. apply negb_true_iff in W.
  unfold exec_create_index. rewrite (split_dot_none _ W).
  rewrite (cat_get_qualified s A public tn eq_refl), name_eqb_refl.
  destruct (alookup tn (s_cat s)) as [csc|] eqn:EL; [|cbn; auto with c33].
  destruct (forallb (has_column csc) cols) eqn:HC; cbn [negb]; [|cbn; auto with c33].
  destruct (sidx_exists s iname) eqn:SE; [destruct ine; cbn; auto with c33|].
  unfold cat_add_index. cbn [ci_table ci_name ci_cols].
  destruct (amem (ci_key tn iname) (s_cidx s)) eqn:CK; [cbn; auto with c33|].
  rewrite (cs_schema_get s A), EL.
  destruct (forallb (fun cn => existsb (fun c => name_eqb (c_name c) cn) (ts_cols csc)) cols) eqn:EX; [|cbn; auto with c33].
  destruct (ag_cat_wf s A tn csc EL) as [_ [_ CO]].
  destruct (listed_table s A tn csc EL) as [rows [ET WD]].
  pose proof (exact_cols_in csc cols EX) as HIn.
  (* Operations::create_index on the state with the catalog index added *)
  unfold ops_find_key, cat_get_table, schema_get_table, cat_norm. simp_st. rewrite (ag_cs s A).
  rewrite (tabs_nodot_absent s A tn W). rewrite W. cbn [negb].
  assert (ST : amem (qual public tn) (s_tabs s) = true) by (apply amem_alookup; eauto).
  rewrite ST. rewrite (split_dot_none _ W). rewrite EL. rewrite ET.
  rewrite (all_cols_found_exact csc cols CO HIn). cbn [negb t_rows].
  destruct (build_data_ok csc cols rows 0 [] CO HIn WD) as [d BD]. rewrite BD.
  assert (OKC : Agree (set_sidx (set_cidx s (ainsert (ci_key tn iname) (mkci iname tn cols unique) (s_cidx s)))
                                (ainsert (idx_norm iname) (mksi iname tn unique cols d) (s_sidx s))))
    by (apply (agree_add_index s iname tn unique cols csc rows d A EL ET HIn CK); auto).
  (* a refused UNIQUE index takes its catalog entry back: the registry is as before *)
  assert (UNDO : aremove (ci_key tn iname) (ainsert (ci_key tn iname) (mkci iname tn cols unique) (s_cidx s)) = s_cidx s).
  { apply aremove_ainsert_absent. apply amem_false. exact CK. }
  destruct unique.
  - pose proof (unique_scan_no_panic csc cols rows [] CO HIn WD) as NPU.
    destruct (unique_scan csc cols rows []); cbn [fst snd]; try contradiction; split; auto with c33.
    eapply agree_ext; [| | | | |exact A]; simp_st; auto.
  - cbn [fst snd]. split; auto with c33.
Qed.

(* ------------------------------------------------------------------------------------------ *)
(** * DROP INDEX *)

(** the catalog holds at most one index of a given name *)
Lemma cidx_name_unique : forall s i k1 c1 k2 c2, Agree s ->
  alookup k1 (s_cidx s) = Some c1 -> alookup k2 (s_cidx s) = Some c2 ->
  ci_name c1 = i -> ci_name c2 = i -> k1 = k2.
Proof.
  intros s i k1 c1 k2 c2 A H1 H2 N1 N2.
  destruct (ag_cidx s A k1 c1 H1) as [K1 [x1 [X1 [_ [T1 _]]]]].
  destruct (ag_cidx s A k2 c2 H2) as [K2 [x2 [X2 [_ [T2 _]]]]].
  rewrite N1 in X1. rewrite N2 in X2. rewrite X1 in X2. inversion X2; subst x2.
  rewrite K1, K2, N1, N2, <- T1, <- T2. reflexivity.
Qed.

Lemma filter_at_most_one : forall (B : Type) (p : name * B -> bool) (m : list (name * B)),
  NoDup (akeys m) ->
  (forall e1 e2, In e1 m -> In e2 m -> p e1 = true -> p e2 = true -> fst e1 = fst e2) ->
  filter p m = [] \/ exists e, filter p m = [e].
Proof.
  intros B p m ND H. induction m as [|e r IH]; cbn [filter]; [left; reflexivity|].
  cbn [akeys map] in ND. inversion ND as [|? ? Hn ND']; subst.
  assert (IH' : filter p r = [] \/ exists e0, filter p r = [e0]).
  { apply IH; auto. intros e1 e2 H1 H2. apply H; right; assumption. }
  destruct (p e) eqn:Ep; auto.
  destruct IH' as [IH'|[e0 IH']].
  - right. exists e. rewrite IH'. reflexivity.
  - exfalso. assert (HI : In e0 (filter p r)) by (rewrite IH'; left; reflexivity).
    apply filter_In in HI. destruct HI as [HI Hp].
    assert (Ek : fst e = fst e0) by (apply H; auto; [left; reflexivity | right; exact HI]).
    apply Hn. rewrite Ek. unfold akeys. apply in_map. exact HI.
Qed.

Lemma agree_drop_index : forall s iname ie, Agree s -> known s (DropIndex iname ie) = false ->
  Agree (fst (exec_drop_index s iname ie)) /\ no_panic (snd (exec_drop_index s iname ie)).
Proof.
  intros s iname ie A K. unfold exec_drop_index. cbn [known] in K.
  destruct (filter_at_most_one _ (fun p => name_eqb (ci_name (snd p)) iname) (s_cidx s) (ag_nd_cidx s A)) as [F|[[k c] F]].
  { intros [k1 c1] [k2 c2] H1 H2 P1 P2. cbn [fst snd] in *.
    apply name_eqb_eq in P1. apply name_eqb_eq in P2.
    apply (in_alookup_nodup _ _ _ (ag_nd_cidx s A)) in H1. apply (in_alookup_nodup _ _ _ (ag_nd_cidx s A)) in H2.
    eapply cidx_name_unique; eauto. }
  - rewrite F.
    assert (EX : existsb (fun p => name_eqb (ci_name (snd p)) iname) (s_cidx s) = false).
    { apply existsb_false_forall. intros p Hp. destruct (name_eqb (ci_name (snd p)) iname) eqn:E; auto.
      assert (HI : In p (filter (fun p => name_eqb (ci_name (snd p)) iname) (s_cidx s))) by (apply filter_In; auto).
      rewrite F in HI. contradiction. }
    rewrite EX in K. cbn [negb andb] in K. rewrite K. destruct ie; cbn; auto with c33.
  - rewrite F.
    assert (HI : In (k, c) (filter (fun p => name_eqb (ci_name (snd p)) iname) (s_cidx s))) by (rewrite F; left; reflexivity).
    apply filter_In in HI. destruct HI as [HI Hn]. cbn [snd] in Hn. apply name_eqb_eq in Hn.
    apply (in_alookup_nodup _ _ _ (ag_nd_cidx s A)) in HI.
    destruct (ag_cidx s A k c HI) as [Hk [x [Hx [Xn [Xt [Xc Xu]]]]]]. rewrite Hn in Hx.
    unfold sidx_exists. simp_st. assert (SE : amem (idx_norm iname) (s_sidx s) = true) by (apply amem_alookup; eauto).
    rewrite SE. cbn [fst snd]. split; auto with c33. unfold sidx_drop. simp_st.
    constructor; unfold listed; simp_st.
    + apply (ag_cs s A).
    + apply (ag_nd_cat s A).
    + apply (ag_nd_tabs s A).
    + apply nodup_aremove. apply (ag_nd_cidx s A).
    + apply nodup_aremove. apply (ag_nd_sidx s A).
    + apply (ag_cat_wf s A).
    + apply (ag_tabs_keys s A).
    + apply (ag_schemas s A).
    + apply (ag_width s A).
    + intros k0 c0 H. rewrite alookup_aremove in H. name_cases k k0; try discriminate.
      destruct (ag_cidx s A k0 c0 H) as [Hk0 [x0 [Hx0 Hr0]]]. split; auto. exists x0. split; auto.
      rewrite alookup_aremove_other; auto. intro E'.
      (* the same storage index would belong to two catalog entries *)
      apply E. symmetry. destruct Hr0 as [N0 [T0 _]].
      rewrite <- E' in Hx0. rewrite Hx in Hx0. inversion Hx0; subst x0.
      rewrite Hk, Hk0, <- Xn, <- Xt, <- N0, <- T0. reflexivity.
    + intros k0 x0 H. rewrite alookup_aremove in H. name_cases (idx_norm iname) k0; try discriminate.
      destruct (ag_sidx s A k0 x0 H) as [Hk0 Hc0]. split; auto.
      rewrite alookup_aremove_other; auto. intro E'.
      apply E. rewrite Hk0.
      rewrite <- E' in Hc0. rewrite HI in Hc0. inversion Hc0 as [Hc1]. rewrite <- Hn. rewrite Hc1. reflexivity.
    + intros k0 x0 H. rewrite alookup_aremove in H. destruct (name_eqb (idx_norm iname) k0); try discriminate.
      eapply (ag_idx_table s A); eauto.
    + intros k0 x0 sc H. rewrite alookup_aremove in H. destruct (name_eqb (idx_norm iname) k0); try discriminate.
      eapply (ag_idx_cols s A); eauto.
    + intros k0 x0 tb H. rewrite alookup_aremove in H. destruct (name_eqb (idx_norm iname) k0); try discriminate.
      eapply (ag_mirror s A); eauto.
Qed.
