(** * Store/Atomic.v — the DML executors' validate / apply / trigger ordering (C11, C34)

    Executable model of
      crates/vibesql-executor/src/insert/{execution,validation,defaults,row_validator,constraints,bulk_transfer}.rs
      crates/vibesql-executor/src/update/{mod,row_selector,value_updater,constraints,foreign_keys}.rs
      crates/vibesql-executor/src/delete/{executor,integrity}.rs, truncate_validation.rs
      crates/vibesql-storage/src/table/{mod,append_mode}.rs (insert / update_row_selective / delete_where / clear)
    with every point at which the code returns [Err] reproduced in source order together with the mutations done so
    far.  Trigger firing is Store/Trigger.v; trigger bodies are statement lists executed by the same executors in a
    trigger context, the recursion guard is the fuel of [exec].  Model file: definitions only.

    The catalog's trigger map cannot change while a DML statement runs (a trigger body may only contain INSERT,
    UPDATE, DELETE and SELECT: execute_statement rejects everything else), so each executor reads the trigger list
    of the database it was started on, where the code calls find_triggers on the current database every time.

    Scope: tables with INTEGER columns, at most one single-column PRIMARY KEY, NOT NULL, CHECK, single-column FOREIGN
    KEYs onto the parent's primary key with ON DELETE / ON UPDATE in {NO ACTION, CASCADE, SET NULL}; FK graphs of depth
    one (no table references a child table: the recursive call in [cascade_delete] then finds nothing to do);
    no UNIQUE constraints, user indexes, DEFAULTs, REPLACE / ON DUPLICATE KEY UPDATE. *)
From Coq Require Import List ZArith Bool Arith Lia.
From VibeSQL Require Import Generated.Consts Store.Trigger.
Import ListNotations.
Open Scope nat_scope.

(** ** Database state *)
Inductive action := ANoAction | ACascade | ASetNull.

Record fkey := mkFk {
  fk_col : nat;            (* referencing column of the child table *)
  fk_parent : nat;         (* parent table *)
  fk_pcol : nat;           (* referenced column = the parent's primary key column *)
  fk_on_delete : action;
  fk_on_update : action
}.

Record tschema := mkSchema {
  s_ncols : nat;
  s_pk : option nat;
  s_notnull : list nat;    (* columns with nullable = false (includes the primary key column) *)
  s_checks : list cond;
  s_fks : list fkey
}.

(** AppendModeTracker (storage/table/append_mode.rs): maintained by Table::insert; since 3f052076 no modelled code path
    reads it (the bulk-transfer path's primary-key check used to) -- kept as the internal state it is *)
Record appst := mkApp { a_last : option cell; a_streak : nat; a_mode : bool }.
Definition app0 : appst := mkApp None 0 false.

Record table := mkTable { tb_id : nat; tb_schema : tschema; tb_rows : list row; tb_app : appst }.

(** [d_tabs] in the order of [Catalog::list_tables()], [d_trigs] in the catalog's trigger-map iteration order *)
Record db := mkDb { d_tabs : list table; d_trigs : list trig }.

Definition get_table (d : db) (t : nat) : option table :=
  find (fun tb => Nat.eqb (tb_id tb) t) (d_tabs d).

Definition upd_table (d : db) (t : nat) (f : table -> table) : db :=
  mkDb (map (fun tb => if Nat.eqb (tb_id tb) t then f tb else tb) (d_tabs d)) (d_trigs d).

Definition set_rows (d : db) (t : nat) (rows : list row) : db :=
  upd_table d t (fun tb => mkTable (tb_id tb) (tb_schema tb) rows (tb_app tb)).

Definition cell_gt (a b : cell) : bool :=
  match a, b with VInt x, VInt y => Z.ltb y x | _, _ => false end.

(** AppendModeTracker::update *)
Definition app_update (threshold : nat) (a : appst) (key : cell) : appst :=
  match a_last a with
  | None => mkApp (Some key) (a_streak a) (a_mode a)
  | Some last =>
      if cell_gt key last
      then let s := S (a_streak a) in mkApp (Some key) s (if threshold <=? s then true else a_mode a)
      else mkApp (Some key) 0 false
  end.

Definition app_threshold : nat := Z.to_nat c10_append_mode_threshold.

(** Table::insert (the normaliser accepts every row of INTEGER / NULL cells that passed the executor's checks) *)
Definition table_insert (tb : table) (r : row) : table :=
  let a := match s_pk (tb_schema tb) with
           | Some c => app_update app_threshold (tb_app tb) (nth c r VNull)
           | None => tb_app tb
           end in
  mkTable (tb_id tb) (tb_schema tb) (tb_rows tb ++ [r]) a.

Definition push_row (d : db) (t : nat) (r : row) : db := upd_table d t (fun tb => table_insert tb r).

Fixpoint remove_nth {A} (i : nat) (l : list A) : list A :=
  match l, i with
  | [], _ => []
  | _ :: l', O => l'
  | x :: l', S i' => x :: remove_nth i' l'
  end.

Fixpoint set_nth {A} (i : nat) (v : A) (l : list A) : list A :=
  match l, i with
  | [], _ => []
  | _ :: l', O => v :: l'
  | x :: l', S i' => x :: set_nth i' v l'
  end.

(** Table::delete_where(|_| index == i): the undo of the AFTER INSERT failure path *)
Definition delete_at (d : db) (t : nat) (i : nat) : db :=
  upd_table d t (fun tb => mkTable (tb_id tb) (tb_schema tb) (remove_nth i (tb_rows tb)) (tb_app tb)).

(** Table::clear *)
Definition clear_table (d : db) (t : nat) : db :=
  upd_table d t (fun tb => mkTable (tb_id tb) (tb_schema tb) [] app0).

(** what a client can observe: every table's rows in storage order (the append-mode tracker is internal) *)
Definition observe (d : db) : list (nat * list row) := map (fun tb => (tb_id tb, tb_rows tb)) (d_tabs d).

(** ** Outcomes *)
Inductive site :=
| AtResolve                 (* table / column resolution, column counts: before anything else *)
| AtValidate (k : nat)      (* evaluation, coercion or a constraint of row k (WHERE evaluation counts as row 0) *)
| AtBeforeStmt
| AtBeforeRow (k : nat)
| AtCascade (k : nat)       (* referential action of affected row k hit NO ACTION *)
| AtApply (k : nat)         (* the storage layer rejected row k (UPDATE: type mismatch in update_row_selective) *)
| AtAfterRow (k : nat)
| AtAfterStmt
| AtBulk (k : nat).         (* bulk-transfer path: a constraint of source row k *)

(** [Err s c m]: failed at [s] because of [c] after [m] storage write operations of the statement's own that were not
    undone (rows inserted / updated, one per delete_where call, one per referential action performed on a child table) *)
Inductive outcome := Ok (n : nat) | Err (s : site) (c : cause) (m : nat).

Definition tctx := option (option row * option row).   (* Some (OLD, NEW): executing inside a trigger body *)

Definition is_none {A} (o : option A) : bool := match o with None => true | Some _ => false end.

(** ** Row validation *)
Definition cellv (r : row) (c : nat) : cell := nth c r VNull.

Definition notnull_ok (s : tschema) (r : row) : bool :=
  forallb (fun c => negb (is_null (cellv r c))) (s_notnull s).

Definition key_in_rows (c : nat) (rows : list row) (key : cell) : bool :=
  existsb (fun r => cell_eqb (cellv r c) key) rows.

Definition checks_ok (s : tschema) (r : row) : bool :=
  forallb (fun c => match eval_cond (mkEnv (Some r) None) c with
                    | RErr => false                (* evaluator error propagates *)
                    | RBool (Some false) => false  (* CHECK violated *)
                    | _ => true
                    end) (s_checks s).

(** FOREIGN KEY existence (child side): NULL keys pass, the parent table must exist *)
Definition fks_ok (d : db) (s : tschema) (r : row) : bool :=
  forallb (fun fk =>
             match cellv r (fk_col fk) with
             | VNull => true
             | v => match get_table d (fk_parent fk) with
                    | None => false
                    | Some p => existsb (fun pr => match nth_error pr (fk_pcol fk) with
                                                   | Some x => cell_eqb x v
                                                   | None => false
                                                   end) (tb_rows p)
                    end
             end) (s_fks s).

(** RowValidator::validate (INSERT): NOT NULL, PK against the batch and the table, CHECK, FK *)
Definition insert_row_ok (d : db) (tb : table) (batch : list cell) (r : row) : bool :=
  let s := tb_schema tb in
  notnull_ok s r
  && match s_pk s with
     | None => true
     | Some c => negb (existsb (cell_eqb (cellv r c)) batch) && negb (key_in_rows c (tb_rows tb) (cellv r c))
     end
  && checks_ok s r
  && fks_ok d s r.

(** evaluate_insert_expression_with_trigger_context + coerce_value to INTEGER *)
Definition insert_value (ctx : tctx) (e : expr) : option cell :=
  let v := match e with
           | ELit c => Some c
           | ECol _ => None        (* "Column reference not supported in INSERT VALUES" *)
           | _ => match ctx with
                  | None => None   (* pseudo-variables / complex expressions need a trigger context *)
                  | Some _ => eval_expr (mkEnv (Some []) ctx) e
                  end
           end in
  match v with
  | Some VStr => None              (* coerce_value: Type mismatch *)
  | other => other
  end.

Fixpoint insert_values (ctx : tctx) (es : list expr) : option row :=
  match es with
  | [] => Some []
  | e :: rest =>
      match insert_value ctx e with
      | None => None
      | Some v => match insert_values ctx rest with None => None | Some r => Some (v :: r) end
      end
  end.

(** the validation loop of execute_insert_internal: [inl k] = row k rejected, nothing has been changed *)
Fixpoint validate_rows (d : db) (tb : table) (ctx : tctx) (rows : list (list expr)) (k : nat) (batch : list cell)
  : nat + list row :=
  match rows with
  | [] => inr []
  | es :: rest =>
      match insert_values ctx es with
      | None => inl k
      | Some r =>
          if insert_row_ok d tb batch r
          then let batch' := match s_pk (tb_schema tb) with Some c => cellv r c :: batch | None => batch end in
               match validate_rows d tb ctx rest (S k) batch' with
               | inl k' => inl k'
               | inr rs => inr (r :: rs)
               end
          else inl k
      end
  end.

(** ** Referential actions *)
Definition has_any_fks (d : db) : bool :=
  existsb (fun tb => negb (is_none (hd_error (s_fks (tb_schema tb))))) (d_tabs d).

Definition references (t : nat) (tb : table) : list fkey :=
  filter (fun fk => Nat.eqb (fk_parent fk) t) (s_fks (tb_schema tb)).

Fixpoint indexed {A} (i : nat) (l : list A) : list (nat * A) :=
  match l with [] => [] | x :: r => (i, x) :: indexed (S i) r end.

(** update/foreign_keys.rs check_no_child_references: scan every (table, fk) first; NO ACTION aborts before anything
    of *this* call is applied; then the collected row replacements are applied.  Returns the number of (table, fk)
    rewrite batches applied. *)
Definition upd_ref_plan (d : db) (t : nat) (okey nkey : cell) : option (list (nat * list (nat * row))) :=
  fold_left
    (fun acc tf =>
       match acc with
       | None => None
       | Some plan =>
           let '(tb, fk) := tf in
           let matching := filter (fun ir => cell_eqb (cellv (snd ir) (fk_col fk)) okey) (indexed 0 (tb_rows tb)) in
           match matching with
           | [] => Some plan
           | _ =>
               match fk_on_update fk with
               | ANoAction => None
               | ACascade => Some (plan ++ [(tb_id tb, map (fun ir => (fst ir, set_nth (fk_col fk) nkey (snd ir))) matching)])
               | ASetNull => Some (plan ++ [(tb_id tb, map (fun ir => (fst ir, set_nth (fk_col fk) VNull (snd ir))) matching)])
               end
           end
       end)
    (flat_map (fun tb => map (fun fk => (tb, fk)) (references t tb)) (d_tabs d))
    (Some []).

Definition apply_row_updates (d : db) (t : nat) (ups : list (nat * row)) : db :=
  fold_left (fun d' ir => upd_table d' t (fun tb => mkTable (tb_id tb) (tb_schema tb) (set_nth (fst ir) (snd ir) (tb_rows tb)) (tb_app tb)))
            ups d.

Definition upd_refs (d : db) (t : nat) (pkc : nat) (old new : row) : db * bool * nat :=
  if negb (has_any_fks d) then (d, true, 0)
  else match upd_ref_plan d t (cellv old pkc) (cellv new pkc) with
       | None => (d, false, 0)
       | Some plan => (fold_left (fun d' p => apply_row_updates d' (fst p) (snd p)) plan d, true, length plan)
       end.

(** delete/integrity.rs check_no_child_references: collect the (table, fk) pairs that have a referencing row, then
    perform the actions in that order on the evolving database; NO ACTION aborts with the earlier actions applied. *)
Definition refs_key (fk : fkey) (key : cell) (r : row) : bool :=
  negb (is_null (cellv r (fk_col fk))) && cell_eqb (cellv r (fk_col fk)) key.

Definition del_actions (d : db) (t : nat) (key : cell) : list (nat * fkey) :=
  flat_map (fun tb => map (fun fk => (tb_id tb, fk))
                          (filter (fun fk => existsb (refs_key fk key) (tb_rows tb)) (references t tb)))
           (d_tabs d).

Definition child_rows (d : db) (t : nat) : list row :=
  match get_table d t with Some tb => tb_rows tb | None => [] end.

Fixpoint del_perform (acts : list (nat * fkey)) (key : cell) (d : db) (m : nat) : db * bool * nat :=
  match acts with
  | [] => (d, true, m)
  | (ct, fk) :: rest =>
      match fk_on_delete fk with
      | ANoAction => (d, false, m)
      | ACascade =>
          let rows := child_rows d ct in
          let doomed := filter (refs_key fk key) rows in
          let keep := filter (fun r => negb (existsb (row_eqb r) doomed)) rows in
          del_perform rest key (set_rows d ct keep) (S m)
      | ASetNull =>
          let rows := child_rows d ct in
          let rows' := map (fun r => if refs_key fk key r then set_nth (fk_col fk) VNull r else r) rows in
          del_perform rest key (set_rows d ct rows') (S m)
      end
  end.

Definition del_refs (d : db) (t : nat) (pkc : nat) (r : row) (m : nat) : db * bool * nat :=
  if negb (has_any_fks d) then (d, true, m)
  else del_perform (del_actions d t (cellv r pkc)) (cellv r pkc) d m.

(** truncate_validation.rs can_use_truncate *)
Definition can_use_truncate (d : db) (t : nat) : bool :=
  is_none (hd_error (triggers_for_table (d_trigs d) t EvDelete))
  && negb (existsb (fun tb => negb (is_none (hd_error (references t tb)))) (d_tabs d)).

(** bulk_transfer.rs check_schema_compatibility (all modelled columns are INTEGER) *)
Definition bulk_eligible (dst src : table) : bool :=
  negb (Nat.eqb (tb_id dst) (tb_id src))
  && Nat.eqb (s_ncols (tb_schema dst)) (s_ncols (tb_schema src))
  && forallb (fun c => existsb (Nat.eqb c) (s_notnull (tb_schema src))) (s_notnull (tb_schema dst)).

(** bulk_transfer.rs execute_bulk_transfer: every source row is checked first -- PK against the rows in front of it
    and the table's index, CHECK, FK (types and NOT NULL are guaranteed by the schema compatibility) -- then all rows
    are inserted with Database::insert_row.  The path is only taken when the destination has no INSERT trigger. *)
Definition bulk_row_ok (d : db) (tb : table) (seen : list cell) (r : row) : bool :=
  let s := tb_schema tb in
  match s_pk s with
  | None => true
  | Some c => negb (existsb (cell_eqb (cellv r c)) seen) && negb (key_in_rows c (tb_rows tb) (cellv r c))
  end
  && checks_ok s r
  && fks_ok d s r.

Fixpoint bulk_validate (d : db) (tb : table) (rows : list row) (k : nat) (seen : list cell) : option nat :=
  match rows with
  | [] => None
  | r :: rest =>
      if bulk_row_ok d tb seen r
      then bulk_validate d tb rest (S k) (match s_pk (tb_schema tb) with Some c => cellv r c :: seen | None => seen end)
      else Some k
  end.

Definition bulk_transfer (d : db) (t : nat) (tb : table) (rows : list row) : db * outcome :=
  match bulk_validate d tb rows 0 [] with
  | Some k => (d, Err (AtBulk k) CzCheck 0)
  | None => (fold_left (fun d' r => push_row d' t r) rows d, Ok (length rows))
  end.

(** SELECT without ORDER BY (select/executor/nonagg: "implicit ordering for deterministic results"): the rows are
    stable-sorted by all columns, integers ascending, NULL last (grouping::compare_sql_values).  This is the order in
    which the normal INSERT ... SELECT path receives its rows. *)
Definition cell_cmp (a b : cell) : comparison :=
  match a, b with
  | VNull, VNull => Eq
  | VNull, _ => Gt
  | _, VNull => Lt
  | VInt x, VInt y => Z.compare x y
  | _, _ => Eq
  end.

Fixpoint row_cmp (a b : row) : comparison :=
  match a, b with
  | x :: a', y :: b' => match cell_cmp x y with Eq => row_cmp a' b' | c => c end
  | _, _ => Eq
  end.

Fixpoint sort_insert (x : row) (l : list row) : list row :=
  match l with
  | [] => [x]
  | y :: l' => match row_cmp x y with Lt => x :: y :: l' | _ => y :: sort_insert x l' end
  end.

Definition select_order (rows : list row) : list row := fold_left (fun acc x => sort_insert x acc) rows [].

(** ** The executors, over an abstract trigger-body runner *)
Section Exec.
  Variable run_body : trig -> option row -> option row -> db -> db * option (nat * bool).
  Variable depth_ok : bool.   (* RecursionGuard::new succeeds at the current depth *)

  Definition fireS := fire_stmt db run_body depth_ok.
  Definition fireR := fire_row db run_body depth_ok.
  Definition fireRs := fire_rows db run_body depth_ok.

  (** the per-row slow path of INSERT: BEFORE ROW, insert_row, AFTER ROW with the single-row undo *)
  Fixpoint insert_slow (trigs : list trig) (t : nat) (rows : list row) (k : nat) (d : db) : db * list firing * option (site * cause) * nat :=
    match rows with
    | [] => (d, [], None, k)
    | r :: rest =>
        let '(d1, l1, r1) := fireR trigs t Before EvInsert None (Some r) d in
        match r1 with
        | Some c => (d1, l1, Some (AtBeforeRow k, c), k)
        | None =>
            match get_table d1 t with
            | None => (d1, l1, Some (AtApply k, CzCheck), k)
            | Some tb1 =>
                let n0 := length (tb_rows tb1) in
                let d2 := push_row d1 t r in
                let '(d3, l3, r3) := fireR trigs t After EvInsert None (Some r) d2 in
                match r3 with
                | Some c => (delete_at d3 t n0, l1 ++ l3, Some (AtAfterRow k, c), k)
                | None =>
                    let '(d4, l4, r4, k4) := insert_slow trigs t rest (S k) d3 in
                    (d4, l1 ++ l3 ++ l4, r4, k4)
                end
            end
        end
    end.

  (** execute_insert_internal from the validation loop on *)
  Definition do_insert_rows (ctx : tctx) (d : db) (t : nat) (tb : table) (rows : list (list expr))
    : db * list firing * outcome :=
    if negb (forallb (fun es => Nat.eqb (length es) (s_ncols (tb_schema tb))) rows) then (d, [], Err AtResolve CzCheck 0)
    else
      match validate_rows d tb ctx rows 0 [] with
      | inl k => (d, [], Err (AtValidate k) CzCheck 0)
      | inr vrows =>
          let '(d1, l1, r1) := if is_none ctx then fireS (d_trigs d) t Before EvInsert d else (d, [], None) in
          match r1 with
          | Some c => (d1, l1, Err AtBeforeStmt c 0)
          | None =>
              let has_trg := negb (is_none (hd_error (triggers_for_table (d_trigs d) t EvInsert))) in
              let '(d2, l2, r2, cnt) :=
                if negb has_trg && (1 <? length vrows)
                then (fold_left (fun d' r => push_row d' t r) vrows d1, [], None, length vrows)   (* insert_rows_batch *)
                else insert_slow (d_trigs d) t vrows 0 d1 in
              match r2 with
              | Some (s, c) => (d2, l1 ++ l2, Err s c cnt)
              | None =>
                  let '(d3, l3, r3) := if is_none ctx then fireS (d_trigs d) t After EvInsert d2 else (d2, [], None) in
                  match r3 with
                  | Some c => (d3, l1 ++ l2 ++ l3, Err AtAfterStmt c cnt)
                  | None => (d3, l1 ++ l2 ++ l3, Ok cnt)
                  end
              end
          end
      end.

  Definition do_insert (ctx : tctx) (d : db) (t : nat) (cols_ok : bool) (rows : list (list expr))
    : db * list firing * outcome :=
    match get_table d t with
    | None => (d, [], Err AtResolve CzCheck 0)
    | Some tb => if cols_ok then do_insert_rows ctx d t tb rows else (d, [], Err AtResolve CzCheck 0)
    end.

  Definition do_insert_select (ctx : tctx) (d : db) (t src : nat) (star : bool) : db * list firing * outcome :=
    match get_table d t, get_table d src with
    | Some dst, Some s =>
        if star && is_none (hd_error (triggers_for_table (d_trigs d) t EvInsert)) && bulk_eligible dst s
        then let '(d', o) := bulk_transfer d t dst (tb_rows s) in (d', [], o)
        else if Nat.eqb (s_ncols (tb_schema dst)) (s_ncols (tb_schema s))
             then do_insert_rows ctx d t dst (map (map ELit) (select_order (tb_rows s)))
             else (d, [], Err AtResolve CzCheck 0)
    | _, _ => (d, [], Err AtResolve CzCheck 0)
    end.

  (** *** UPDATE *)
  (** RowSelector::select_rows (UPDATE): [None] = the WHERE clause failed to evaluate for some row *)
  Fixpoint select_rows (ctx : tctx) (w : option cond) (rows : list (nat * row)) : option (list (nat * row)) :=
    match rows with
    | [] => Some []
    | (i, r) :: rest =>
        match (match w with None => Some true | Some c => where_true (mkEnv (Some r) ctx) c end) with
        | None => None
        | Some b =>
            match select_rows ctx w rest with
            | None => None
            | Some sel => Some (if b then (i, r) :: sel else sel)
            end
        end
    end.

  (** ValueUpdater::apply_assignments: every expression is evaluated against the original row *)
  Fixpoint apply_assignments (ctx : tctx) (ncols : nat) (orig : row) (asg : list (nat * expr)) (acc : row) : option row :=
    match asg with
    | [] => Some acc
    | (c, e) :: rest =>
        if ncols <=? c then None            (* ColumnNotFound *)
        else match eval_expr (mkEnv (Some orig) ctx) e with
             | None => None
             | Some v => apply_assignments ctx ncols orig rest (set_nth c v acc)
             end
    end.

  (** update/constraints.rs validate_row + ForeignKeyValidator::validate_constraints *)
  Definition update_row_ok (d : db) (tb : table) (old new : row) : bool :=
    let s := tb_schema tb in
    notnull_ok s new
    && match s_pk s with
       | None => true
       | Some c => negb (key_in_rows c (tb_rows tb) (cellv new c) && negb (cell_eqb (cellv new c) (cellv old c)))
       end
    && checks_ok s new
    && fks_ok d s new.

  Fixpoint build_updates (ctx : tctx) (d : db) (tb : table) (asg : list (nat * expr)) (cands : list (nat * row)) (k : nat)
    : nat + list (nat * row * row) :=
    match cands with
    | [] => inr []
    | (i, r) :: rest =>
        match apply_assignments ctx (s_ncols (tb_schema tb)) r asg r with
        | None => inl k
        | Some new =>
            if update_row_ok d tb r new
            then match build_updates ctx d tb asg rest (S k) with
                 | inl k' => inl k'
                 | inr ups => inr ((i, r, new) :: ups)
                 end
            else inl k
        end
    end.

  Fixpoint cascade_updates (t pkc : nat) (ups : list (nat * row * row)) (k : nat) (d : db) (m : nat) : db * option nat * nat :=
    match ups with
    | [] => (d, None, m)
    | (_, old, new) :: rest =>
        let '(d1, ok, m1) := upd_refs d t pkc old new in
        if ok then cascade_updates t pkc rest (S k) d1 (m + m1) else (d1, Some k, m + m1)
    end.

  Definition storable (r : row) : bool := forallb (fun c => match c with VStr => false | _ => true end) r.

  (** the apply loop: Table::update_row_selective(index, new_row) *)
  Fixpoint apply_updates (t : nat) (ups : list (nat * row * row)) (k : nat) (d : db) : db * option nat * nat :=
    match ups with
    | [] => (d, None, k)
    | (i, _, new) :: rest =>
        match get_table d t with
        | None => (d, Some k, k)
        | Some tb =>
            if (i <? length (tb_rows tb)) && Nat.eqb (length new) (s_ncols (tb_schema tb))
               && notnull_ok (tb_schema tb) new && storable new
            then apply_updates t rest (S k) (set_rows d t (set_nth i new (tb_rows tb)))
            else (d, Some k, k)
        end
    end.

  Definition images (ups : list (nat * row * row)) : list (option row * option row) :=
    map (fun u => (Some (snd (fst u)), Some (snd u))) ups.

  (** selection, assignment and validation of an UPDATE: nothing is changed yet *)
  Definition update_plan (ctx : tctx) (d : db) (tb : table) (asg : list (nat * expr)) (w : option cond)
    : nat + list (nat * row * row) :=
    match select_rows ctx w (indexed 0 (tb_rows tb)) with
    | None => inl 0
    | Some cands => build_updates ctx d tb asg cands 0
    end.

  Definition do_update (ctx : tctx) (d : db) (t : nat) (asg : list (nat * expr)) (w : option cond)
    : db * list firing * outcome :=
    let ev := EvUpdate (Some (map fst asg)) in   (* update_event: UPDATE of the assigned columns *)
    let '(d1, l1, r1) := if is_none ctx then fireS (d_trigs d) t Before ev d else (d, [], None) in
    match r1 with
    | Some c => (d1, l1, Err AtBeforeStmt c 0)
    | None =>
        match get_table d1 t with
        | None => (d1, l1, Err AtResolve CzCheck 0)
        | Some tb =>
            match update_plan ctx d1 tb asg w with
            | inl k => (d1, l1, Err (AtValidate k) CzCheck 0)
            | inr ups =>
                let updates_pk := match s_pk (tb_schema tb) with
                                  | Some c => existsb (fun a => Nat.eqb (fst a) c) asg
                                  | None => false
                                  end in
                let '(d2, r2, m2) :=
                  match s_pk (tb_schema tb) with
                  | Some c => if updates_pk then cascade_updates t c ups 0 d1 0 else (d1, None, 0)
                  | None => (d1, None, 0)
                  end in
                match r2 with
                | Some k => (d2, l1, Err (AtCascade k) CzCheck m2)
                | None =>
                    let '(d3, l3, r3) := fireRs (d_trigs d) t Before ev (images ups) 0 d2 in
                    match r3 with
                    | Some (k, c) => (d3, l1 ++ l3, Err (AtBeforeRow k) c m2)
                    | None =>
                        let '(d4, r4, m4) := apply_updates t ups 0 d3 in
                        match r4 with
                        | Some k => (d4, l1 ++ l3, Err (AtApply k) CzCheck (m2 + m4))
                        | None =>
                            let '(d5, l5, r5) := fireRs (d_trigs d) t After ev (images ups) 0 d4 in
                            match r5 with
                            | Some (k, c) => (d5, l1 ++ l3 ++ l5, Err (AtAfterRow k) c (m2 + m4))
                            | None =>
                                let '(d6, l6, r6) := if is_none ctx then fireS (d_trigs d) t After ev d5 else (d5, [], None) in
                                match r6 with
                                | Some c => (d6, l1 ++ l3 ++ l5 ++ l6, Err AtAfterStmt c (m2 + m4))
                                | None => (d6, l1 ++ l3 ++ l5 ++ l6, Ok (length ups))
                                end
                            end
                        end
                    end
                end
            end
        end
    end.

  (** *** DELETE *)
  (** DeleteExecutor::collect_rows_with_scan: a row is selected when its predicate evaluates and is true by
      where_value_is_true; a row whose predicate cannot be evaluated (or is not a boolean / number) is kept --
      DELETE does not fail on it, where UPDATE does *)
  Definition selected (ctx : tctx) (w : option cond) (ir : nat * row) : bool :=
    match (match w with None => Some true | Some c => where_true (mkEnv (Some (snd ir)) ctx) c end) with
    | Some true => true
    | _ => false
    end.

  Definition collect_rows (ctx : tctx) (w : option cond) (rows : list (nat * row)) : list (nat * row) :=
    filter (selected ctx w) rows.

  Fixpoint cascade_deletes (t pkc : nat) (rows : list (nat * row)) (k : nat) (d : db) (m : nat) : db * option nat * nat :=
    match rows with
    | [] => (d, None, m)
    | (_, r) :: rest =>
        let '(d1, ok, m1) := del_refs d t pkc r m in
        if ok then cascade_deletes t pkc rest (S k) d1 m1 else (d1, Some k, m1)
    end.

  Definition delete_indices (rows : list row) (idx : list nat) : list row :=
    map snd (filter (fun ir => negb (existsb (Nat.eqb (fst ir)) idx)) (indexed 0 rows)).

  Definition do_delete (ctx : tctx) (d : db) (t : nat) (w : option cond) : db * list firing * outcome :=
    match get_table d t with
    | None => (d, [], Err AtResolve CzCheck 0)
    | Some tb =>
        if is_none w && can_use_truncate d t then (clear_table d t, [], Ok (length (tb_rows tb)))
        else
          let ev := EvDelete in
          let cands := collect_rows ctx w (indexed 0 (tb_rows tb)) in
          let '(d1, l1, r1) := if is_none ctx then fireS (d_trigs d) t Before ev d else (d, [], None) in
          match r1 with
          | Some c => (d1, l1, Err AtBeforeStmt c 0)
          | None =>
              let imgs := map (fun ir => (Some (snd ir), @None row)) cands in
              let '(d2, l2, r2) := fireRs (d_trigs d) t Before ev imgs 0 d1 in
              match r2 with
              | Some (k, c) => (d2, l1 ++ l2, Err (AtBeforeRow k) c 0)
              | None =>
                  let '(d3, r3, m3) :=
                    match s_pk (tb_schema tb) with
                    | Some c => cascade_deletes t c cands 0 d2 0
                    | None => (d2, None, 0)
                    end in
                  match r3 with
                  | Some k => (d3, l1 ++ l2, Err (AtCascade k) CzCheck m3)
                  | None =>
                      match get_table d3 t with
                      | None => (d3, l1 ++ l2, Err (AtApply 0) CzCheck m3)
                      | Some tb3 =>
                          let rows' := delete_indices (tb_rows tb3) (map fst cands) in
                          let cnt := length (tb_rows tb3) - length rows' in
                          let d4 := set_rows d3 t rows' in
                          let '(d5, l5, r5) := fireRs (d_trigs d) t After ev imgs 0 d4 in
                          match r5 with
                          | Some (k, c) => (d5, l1 ++ l2 ++ l5, Err (AtAfterRow k) c (S m3))
                          | None =>
                              let '(d6, l6, r6) := if is_none ctx then fireS (d_trigs d) t After ev d5 else (d5, [], None) in
                              match r6 with
                              | Some c => (d6, l1 ++ l2 ++ l5 ++ l6, Err AtAfterStmt c (S m3))
                              | None => (d6, l1 ++ l2 ++ l5 ++ l6, Ok cnt)
                              end
                          end
                      end
                  end
              end
          end
    end.

  Definition step_dml (ctx : tctx) (d : db) (s : stmt) : db * list firing * outcome :=
    match s with
    | SInsert t ok rows => do_insert ctx d t ok rows
    | SInsertSel t src star => do_insert_select ctx d t src star
    | SUpdate t asg w => do_update ctx d t asg w
    | SDelete t w => do_delete ctx d t w
    end.
End Exec.

(** ** Trigger bodies and the recursion guard *)
(** a firing that provably left nothing behind: a completed firing of a trigger with an empty body, or a failed
    firing whose runner vouches for it *)
Definition firing_quiet (f : firing) : bool :=
  match f_res f with
  | None => is_none (hd_error (t_body (f_trig f)))
  | Some (_, q) => q
  end.

Definition log_quiet (log : list firing) : bool := forallb firing_quiet log.

(** a failed statement that made no storage mutation of its own and whose trigger firings were all quiet *)
Definition quiet_failure (log : list firing) (o : outcome) : bool :=
  match o with
  | Err _ _ m => Nat.eqb m 0 && log_quiet log
  | Ok _ => false
  end.

(** execute_trigger_action: [for statement in statements { execute_statement(..)?; }].  The flag of a failure is
    true only when the very first statement failed quietly. *)
Fixpoint run_stmts (ex : db -> stmt -> db * list firing * outcome) (ss : list stmt) (j : nat) (d : db)
  : db * option (nat * bool) :=
  match ss with
  | [] => (d, None)
  | s :: rest =>
      let '(d1, l, o) := ex d s in
      match o with
      | Ok _ => run_stmts ex rest (S j) d1
      | Err _ _ _ => (d1, Some (j, Nat.eqb j 0 && quiet_failure l o))
      end
  end.

(** [exec fuel]: a statement executed when the thread-local depth counter is [levels - fuel].  Firing at fuel 0 is
    refused by the guard; bodies fired at fuel [S f] run their statements with fuel [f] in a trigger context. *)
Fixpoint exec (fuel : nat) (ctx : tctx) (d : db) (s : stmt) : db * list firing * outcome :=
  match fuel with
  | O => step_dml (fun _ _ _ d' => (d', None)) false ctx d s   (* the runner is never called: the guard refuses *)
  | S f =>
      step_dml (fun tr o n d' => run_stmts (exec f (Some (o, n))) (t_body tr) 0 d') true ctx d s
  end.

Definition guard_levels : nat := Z.to_nat c34_guard_levels.

(** a top-level statement *)
Definition step (d : db) (s : stmt) : db * list firing * outcome := exec guard_levels None d s.

Definition body_runner (f : nat) : trig -> option row -> option row -> db -> db * option (nat * bool) :=
  fun tr o n d' => run_stmts (exec f (Some (o, n))) (t_body tr) 0 d'.

(** the classifier of C11: a failed statement is in a known class when it failed after a storage mutation of its
    own that the code does not undo, or after a trigger firing that may have left an effect *)
Definition known_class (log : list firing) (o : outcome) : bool :=
  match o with
  | Err _ _ _ => negb (quiet_failure log o)
  | Ok _ => false
  end.
