(** C33 laws, part 5: the step theorem, its lifting to histories, and the derived properties
    (no panic, listed tables are queryable with their declared columns, DROP leaves nothing,
    a re-created table is empty and unindexed, ALTER keeps the data of the retained columns). *)
From Coq Require Import List ZArith Bool Arith Lia.
From VibeSQL Require Import Store.Catalog Store.CatalogBase Store.CatalogInv Store.CatalogIdx
  Store.CatalogStepA Store.CatalogStepB.
Import ListNotations.
Open Scope Z_scope.

(* ------------------------------------------------------------------------------------------ *)
(** * One statement *)

Theorem agree_step_full : forall s st, Agree s -> wf_stmt st = true -> known s st = false ->
  Agree (step_state s st) /\ no_panic (snd (step s st)).
Proof.
  intros s st A W K. unfold step_state.
  destruct (storage_only st) eqn:SO; [apply storage_only_case; auto|].
  destruct st; try discriminate SO; cbn [step wf_stmt] in *.
  - apply agree_create_table; auto.
  - apply agree_drop_table; auto.
  - apply agree_create_index; auto.
  - apply agree_drop_index; auto.
  - apply agree_add_constraint; auto.
  - apply agree_drop_constraint; auto.
  - apply andb_true_iff in W. destruct W. apply agree_rename_table; auto.
  - apply agree_insert; auto.
  - apply agree_delete; auto.
  - apply agree_truncate; auto.
Qed.

Theorem agree_step : forall s st, Agree s -> wf_stmt st = true -> known s st = false -> Agree (step_state s st).
Proof. intros. apply agree_step_full; auto. Qed.

(** an agreeing state never makes a statement panic -- known class or not *)
Theorem agree_no_panic : forall s st, Agree s -> wf_stmt st = true -> no_panic (snd (step s st)).
Proof.
  intros s st A W. destruct (known s st) eqn:K; [|apply agree_step_full; auto].
  destruct (storage_only st) eqn:SO; [apply storage_only_no_panic; auto|].
  destruct st; try discriminate SO; try discriminate K; cbn [step].
  - (* DROP TABLE *) unfold exec_drop_table, ops_drop_table.
    repeat (break_match; cbn [fst snd] in * ); split; discriminate.
  - (* DROP INDEX: no catalog index of that name *)
    cbn [known] in K. apply andb_true_iff in K. destruct K as [K1 K2]. apply negb_true_iff in K1.
    unfold exec_drop_index.
    assert (F : filter (fun p => name_eqb (ci_name (snd p)) iname) (s_cidx s) = []).
    { pose proof (proj1 (existsb_false_forall _ _ _) K1) as K3. clear K1 K2.
      induction (s_cidx s) as [|p r IH]; cbn [filter]; auto.
      rewrite (K3 p (or_introl eq_refl)). apply IH. intros x Hx. apply K3. right. exact Hx. }
    rewrite F, K2. cbn. auto with c33.
  - (* ADD CONSTRAINT through a case variant of the name *)
    unfold exec_add_constraint, resync. repeat (break_match; cbn [fst snd] in * ); split; discriminate.
  - unfold exec_drop_constraint, resync. repeat (break_match; cbn [fst snd] in * ); split; discriminate.
  - unfold exec_rename_table, ops_drop_table. repeat (break_match; cbn [fst snd] in * ); split; discriminate.
  - (* TRUNCATE of a qualified name: the rebuild finds no index under that name *)
    cbn [wf_stmt] in W. unfold exec_truncate.
    destruct (qname_cases tn W) as [sn [t [E [Hsn [Ht Hc]]]]].
    destruct Hc as [[Es [Esn Et]] | [Es Et]]; [cbn [known] in K; rewrite Es in K; discriminate | subst tn].
    unfold cat_table_exists. rewrite (cat_get_qualified s A sn t Hsn).
    name_cases sn public; [|cbn; auto with c33]. subst sn.
    destruct (alookup t (s_cat s)) as [csc|] eqn:EL; cbn [is_some negb]; [|cbn; auto with c33].
    destruct (listed_table s A t csc EL) as [rows [ET WD]].
    assert (ST : amem (qual public t) (s_tabs s) = true) by (apply amem_alookup; eauto).
    unfold tab_find_key. rewrite ST, ET. cbn [t_schema t_rows].
    unfold db_rebuild_indexes, rebuild_find_key. simp_st. rewrite amem_ainsert, name_eqb_refl. cbn [orb].
    rewrite alookup_ainsert_same.
    unfold cat_get_table. rewrite (split_dot_qual _ _ Hsn). unfold schema_found, schema_get_table, cat_norm. simp_st.
    rewrite (ag_cs s A), name_eqb_refl, EL. cbn [t_rows].
    rewrite rebuild_list_amapM. rewrite amapM_id_on; [cbn; auto with c33|].
    intros k x HI. unfold rebuild_entry.
    apply (in_alookup_nodup _ _ _ (ag_nd_sidx s A)) in HI.
    pose proof (idx_table_nodot s A k x HI) as Hd.
    name_cases (si_table x) (qual public t); auto. rewrite E0, has_dot_qual in Hd. discriminate.
Qed.

(* ------------------------------------------------------------------------------------------ *)
(** * Histories *)

(** every statement of the history is one the parser can produce and lies outside the known
    classes in the state it is executed in *)
Fixpoint clean (h : list stmt) (s : state) : Prop :=
  match h with
  | [] => True
  | st :: r => wf_stmt st = true /\ known s st = false /\ clean r (step_state s st)
  end.

Theorem agree_run : forall h s, Agree s -> clean h s -> Agree (run h s).
Proof.
  induction h as [|st r IH]; intros s A C; cbn [run fold_left]; auto.
  destruct C as [W [K C]]. apply IH; auto. apply agree_step; auto.
Qed.

Theorem agree_history : forall h, clean h init -> Agree (run h init).
Proof. intros h C. apply agree_run; auto. apply agree_init. Qed.

(** results of a run *)
Fixpoint results (h : list stmt) (s : state) : list result :=
  match h with
  | [] => []
  | st :: r => snd (step s st) :: results r (step_state s st)
  end.

Theorem clean_history_no_panic : forall h s, Agree s -> clean h s -> Forall no_panic (results h s).
Proof.
  induction h as [|st r IH]; intros s A C; cbn [results]; [constructor|].
  destruct C as [W [K C]]. destruct (agree_step_full s st A W K) as [A' NP]. constructor; auto.
Qed.

(* ------------------------------------------------------------------------------------------ *)
(** * Consequences of [Agree] *)

(** listed <-> stored *)
Theorem agree_listed_iff_stored : forall s t, Agree s -> (listed s t <-> stored s t).
Proof. intros. apply listed_stored; auto. Qed.

(** every listed table answers [SELECT *] with rows of exactly its declared (catalog) columns, and
    each declared column is found at a position inside every row *)
Theorem listed_queryable : forall s t sc, Agree s -> alookup t (s_cat s) = Some sc ->
  exists rows, obs_select s t = Some rows /\
    Forall (fun r => length r = length (ts_cols sc)) rows /\
    forall c, In c (col_names sc) -> exists i, get_column_index sc c = Some i /\ Forall (fun r => nth_error r i <> None) rows.
Proof.
  intros s t sc A EL. destruct (listed_table s A t sc EL) as [rows [ET WD]].
  assert (L : listed s t) by (apply amem_alookup; eauto).
  exists rows. unfold obs_select, get_table. rewrite (tab_find_listed s A t L), ET. cbn [t_rows].
  split; auto. split; auto. intros c Hc.
  destruct (ag_cat_wf s A t sc EL) as [_ [_ CO]].
  destruct (get_column_index_exact sc c CO Hc) as [i [Hi Hb]]. exists i. split; auto.
  eapply Forall_impl; [|exact WD]. cbn. intros r Hr. apply nth_error_Some. lia.
Qed.

(** no index entry (either registry) names a table that is not listed *)
Theorem unlisted_has_no_index : forall s t, Agree s -> amem t (s_cat s) = false ->
  (forall k c, alookup k (s_cidx s) = Some c -> ci_table c <> t) /\
  (forall k x, alookup k (s_sidx s) = Some x -> si_table x <> t).
Proof.
  intros s t A NL. split.
  - intros k c H E. pose proof (cidx_table_listed s A k c H) as L. unfold listed in L. rewrite E in L. congruence.
  - intros k x H E. pose proof (ag_idx_table s A k x H) as L. unfold listed in L. rewrite E in L. congruence.
Qed.

(** DROP TABLE (outside the known class) leaves nothing behind: no catalog entry, no stored table,
    no index in either registry *)
Theorem drop_leaves_nothing : forall s tn ie, Agree s -> wf_qname tn = true -> known s (DropTable tn ie) = false ->
  cat_table_exists s tn = true ->
  let t := match split_dot tn with Some (_, t) => t | None => tn end in
  let s' := step_state s (DropTable tn ie) in
  snd (step s (DropTable tn ie)) = ROk 0 /\
  amem t (s_cat s') = false /\ amem (qual public t) (s_tabs s') = false /\
  ((upper t = t \/ ~ listed s' (upper t)) -> obs_select s' t = None) /\
  (forall k c, alookup k (s_cidx s') = Some c -> ci_table c <> t) /\
  (forall k x, alookup k (s_sidx s') = Some x -> si_table x <> t).
Proof.
  intros s tn ie A W K EX t s'.
  assert (A' : Agree s') by (apply agree_step; auto).
  assert (R : snd (step s (DropTable tn ie)) = ROk 0 /\ amem t (s_cat s') = false).
  { unfold s', step_state. cbn [step]. unfold exec_drop_table. rewrite EX. cbn [negb andb]. rewrite andb_false_r.
    destruct (qname_cases tn W) as [sn [t0 [E [Hsn [Ht Hc]]]]].
    assert (CD : forall s0, s_cs s0 = true -> s_cat s0 = s_cat s ->
                 exists s1, cat_drop_table s0 tn = Some s1 /\ s_cat s1 = aremove t (s_cat s) /\ s_tabs s1 = s_tabs s0).
    { intros s0 C0 C1. unfold cat_drop_table. unfold t.
      destruct Hc as [[Es [Esn Et]] | [Es Et]].
      - subst sn t0. rewrite Es. unfold schema_found, cat_norm. rewrite C0, name_eqb_refl, C1. cbn [negb].
        unfold cat_table_exists in EX. rewrite (cat_get_plain s A tn Ht) in EX.
        unfold amem. destruct (alookup tn (s_cat s)); try discriminate. eexists. split; [reflexivity|]. simp_st. auto.
      - subst tn. rewrite Es. unfold schema_found, cat_norm. rewrite C0.
        unfold cat_table_exists in EX. rewrite (cat_get_qualified s A sn t0 Hsn) in EX.
        destruct (name_eqb sn public); try discriminate. cbn [negb]. rewrite C1.
        unfold amem. destruct (alookup t0 (s_cat s)); try discriminate. eexists. split; [reflexivity|]. simp_st. auto. }
    unfold ops_drop_table.
    match goal with |- context [cat_drop_table ?S0 tn] => destruct (CD S0) as [s1 [H1 [H2 H3]]] end.
    { unfold sidx_drop_for_table. simp_st. destruct (fold_sidx_drop (cat_table_indexes s tn) (cat_drop_table_indexes s tn)) as [F1 _].
      cbn zeta in F1. rewrite F1. unfold cat_drop_table_indexes. simp_st. apply (ag_cs s A). }
    { unfold sidx_drop_for_table. simp_st. destruct (fold_sidx_drop (cat_table_indexes s tn) (cat_drop_table_indexes s tn)) as [_ [F2 _]].
      cbn zeta in F2. rewrite F2. unfold cat_drop_table_indexes. simp_st. reflexivity. }
    rewrite H1. destruct (amem _ (s_tabs s1)); cbn [fst snd]; simp_st; rewrite H2; rewrite amem_aremove, name_eqb_refl; auto. }
  destruct R as [R1 R2]. split; auto. split; auto.
  destruct (unlisted_has_no_index s' t A' R2) as [U1 U2].
  assert (NS : amem (qual public t) (s_tabs s') = false).
  { destruct (amem (qual public t) (s_tabs s')) eqn:E; auto.
    assert (L : listed s' t) by (apply (listed_stored s' A'); exact E). unfold listed in L. congruence. }
  split; auto. split; auto.
  (* SELECT * cannot reach a table of that name, unless Database::get_table's lenient lookup lands on
     a listed table whose name is the upper-cased form *)
  intro Hcond. unfold obs_select, get_table.
  destruct (tab_find_key s' t) as [k|] eqn:EF; auto.
  assert (Ht : has_dot t = false).
  { unfold t. destruct (qname_cases tn W) as [sn [t0 [E [Hsn [Ht0 Hc]]]]].
    destruct Hc as [[Es [Esn Et]] | [Es Et]]; rewrite Es; subst; auto. }
  destruct (tab_find_unlisted_none_or_variant s' A' t k Ht R2 EF) as [-> [Hne Lu]].
  exfalso. destruct Hcond as [Hc|Hc]; contradiction.
Qed.

(** a successfully created table starts empty and no index of either registry names it -- in
    particular after DROP TABLE of the same name *)
Theorem recreate_is_empty : forall s tn cols pk, Agree s -> wf_qname tn = true ->
  is_ok (snd (step s (CreateTable tn cols pk))) = true ->
  let t := match split_dot tn with Some (_, t) => t | None => tn end in
  let s' := step_state s (CreateTable tn cols pk) in
  listed s' t /\ obs_select s' t = Some [] /\
  (forall k c, alookup k (s_cidx s') = Some c -> ci_table c <> t) /\
  (forall k x, alookup k (s_sidx s') = Some x -> si_table x <> t).
Proof.
  intros s tn cols pk A W OK t s'.
  assert (A' : Agree s') by (apply agree_step; auto).
  revert OK. unfold s', step_state, t. cbn [step]. unfold exec_create_table.
  destruct (qname_cases tn W) as [sn [t0 [E [Hsn [Ht Hc]]]]]. rewrite E.
  assert (Et : match split_dot tn with Some (_, t1) => t1 | None => tn end = t0).
  { destruct Hc as [[Es [Esn Et]] | [Es Et]]; rewrite Es; auto. }
  rewrite Et. clear Et.
  unfold cat_table_exists. rewrite (cat_get_qualified s A sn t0 Hsn).
  name_cases sn public; [|cbn; discriminate]. subst sn.
  destruct (alookup t0 (s_cat s)) as [sc0|] eqn:EL; cbn [is_some negb]; [cbn; discriminate|].
  match goal with |- context [db_create_table s ?X] => set (sc := X) end.
  destruct (agree_db_create_table s sc A) as [s1 [H1 [A1 [C1 [T1 [I1 [X1 S1]]]]]]]; try (cbn [ts_name sc]; auto).
  { apply amem_false. exact EL. }
  { reflexivity. }
  rewrite H1. cbn [fst snd]. intros _.
  assert (L1 : listed s1 t0). { unfold listed. rewrite C1. cbn [ts_name sc]. rewrite amem_ainsert, name_eqb_refl. reflexivity. }
  split; auto. split.
  - unfold obs_select, get_table. rewrite (tab_find_listed s1 A1 t0 L1). rewrite T1. cbn [ts_name sc].
    rewrite alookup_ainsert_same. reflexivity.
  - rewrite I1, X1. apply unlisted_has_no_index; auto. apply amem_false. exact EL.
Qed.

(* ------------------------------------------------------------------------------------------ *)
(** * ALTER TABLE touches only the named column *)

(** definition and values of the column at position [j] of a stored table *)
Definition col_data (tb : table) (j : nat) : option column * list (option value) :=
  (nth_error (ts_cols (t_schema tb)) j, map (fun r => nth_error r j) (t_rows tb)).

Definition others_untouched (s s' : state) (k : name) : Prop :=
  forall k', k' <> k -> alookup k' (s_tabs s') = alookup k' (s_tabs s).

Lemma set_table_others : forall s k tb, others_untouched s (set_table s k tb) k.
Proof. intros s k tb k' H. unfold set_table. simp_st. apply alookup_ainsert_other. auto. Qed.

Lemma others_refl : forall s k, others_untouched s s k.
Proof. intros s k k' _. reflexivity. Qed.

(** ADD COLUMN: every existing column keeps its definition and its values (full-width rows) *)
Theorem retained_add_column : forall s tn c k tb,
  tab_find_key s tn = Some k -> alookup k (s_tabs s) = Some tb ->
  Forall (fun r => length r = length (ts_cols (t_schema tb))) (t_rows tb) ->
  let s' := step_state s (AddColumn tn c) in
  others_untouched s s' k /\
  exists tb', alookup k (s_tabs s') = Some tb' /\
    forall j, (j < length (ts_cols (t_schema tb)))%nat -> col_data tb' j = col_data tb j.
Proof.
  intros s tn c k tb EF ET WD s'. unfold s', step_state. cbn [step]. unfold exec_add_column. rewrite EF, ET.
  destruct (ts_add_column (t_schema tb) c) as [sc'|] eqn:EA; cbn [fst].
  2:{ split; [apply others_refl|]. exists tb. split; auto. }
  split; [apply set_table_others|].
  eexists. split; [unfold set_table; simp_st; apply alookup_ainsert_same|].
  intros j Hj. unfold col_data. cbn [t_schema t_rows].
  unfold ts_add_column in EA. destruct (has_column (t_schema tb) (c_name c)); try discriminate.
  inversion EA; subst sc'. cbn [ts_cols set_cols]. f_equal.
  - apply nth_error_app1. exact Hj.
  - rewrite map_map. apply map_ext_in. intros r Hr. rewrite Forall_forall in WD.
    apply nth_error_app1. rewrite (WD r Hr). exact Hj.
Qed.

Definition shift (i j : nat) : nat := if Nat.ltb j i then j else (j - 1)%nat.

Lemma nth_error_remove_nth : forall (B : Type) (l : list B) i j, j <> i ->
  nth_error (remove_nth i l) (shift i j) = nth_error l j.
Proof.
  intros B l. induction l as [|x r IH]; intros i j H.
  - destruct i; cbn [remove_nth]; destruct (shift _ j), j; reflexivity.
  - destruct i as [|i'].
    + cbn [remove_nth]. unfold shift. cbn [Nat.ltb Nat.leb]. destruct j as [|j']; [contradiction|].
      cbn [nth_error]. replace (S j' - 1)%nat with j' by lia. reflexivity.
    + cbn [remove_nth]. destruct j as [|j'].
      * unfold shift. cbn. reflexivity.
      * cbn [nth_error]. assert (Hs : shift (S i') (S j') = S (shift i' j')).
        { unfold shift. change (Nat.ltb (S j') (S i')) with (Nat.ltb j' i').
          destruct (Nat.ltb j' i') eqn:E; auto. apply Nat.ltb_ge in E. lia. }
        rewrite Hs. cbn [nth_error]. apply IH. lia.
Qed.

(** the column [get_column_index] resolves a name to carries that name (up to case), when the
    schema's cache is coherent *)
Lemma find_col_idx_spec : forall p cols i j, find_col_idx p cols i = Some j ->
  exists col, nth_error cols (j - i) = Some col /\ p col = true.
Proof.
  intros p cols. induction cols as [|c r IH]; intros i j H; cbn [find_col_idx] in H; try discriminate.
  destruct (p c) eqn:Ep.
  - inversion H; subst. replace (j - j)%nat with O by lia. exists c. auto.
  - pose proof (find_col_idx_bound _ _ _ _ H) as Hb. destruct (IH _ _ H) as [col [H1 H2]].
    exists col. split; auto. replace (j - i)%nat with (S (j - S i)) by lia. exact H1.
Qed.

Theorem resolved_column_is_named : forall sc cn i, cache_ok sc -> get_column_index sc cn = Some i ->
  exists col, nth_error (ts_cols sc) i = Some col /\ lower (c_name col) = lower cn.
Proof.
  intros sc cn i CO H. unfold get_column_index in H. rewrite CO, build_cache_lookup in H.
  destruct (last_idx cn (ts_cols sc)) as [j|] eqn:E.
  - inversion H; subst. destruct (last_idx_some _ _ _ E) as [col [H1 H2]]. exists col. split; auto. congruence.
  - destruct (find_col_idx_spec _ _ _ _ H) as [col [H1 H2]]. replace (i - 0)%nat with i in H1 by lia.
    exists col. split; auto. apply name_eqb_eq. exact H2.
Qed.

(** DROP COLUMN: the statement either changes nothing or removes exactly the column at the position
    [get_column_index] resolves the name to; every other column keeps definition and values *)
Theorem retained_drop_column : forall s tn cn ie k tb,
  tab_find_key s tn = Some k -> alookup k (s_tabs s) = Some tb ->
  let s' := step_state s (DropColumn tn cn ie) in
  others_untouched s s' k /\
  exists tb', alookup k (s_tabs s') = Some tb' /\
    (tb' = tb \/
     exists i, get_column_index (t_schema tb) cn = Some i /\
               length (t_rows tb') = length (t_rows tb) /\
               forall j, j <> i -> col_data tb' (shift i j) = col_data tb j).
Proof.
  intros s tn cn ie k tb EF ET s'. unfold s', step_state. cbn [step]. unfold exec_drop_column. rewrite EF, ET.
  destruct (negb ie && negb (has_column (t_schema tb) cn)); cbn [fst]; [split; [apply others_refl|]; exists tb; auto|].
  destruct (in_pk (t_schema tb) cn); cbn [fst]; [split; [apply others_refl|]; exists tb; auto|].
  destruct (Nat.leb (length (ts_cols (t_schema tb))) 1); cbn [fst]; [split; [apply others_refl|]; exists tb; auto|].
  destruct (get_column_index (t_schema tb) cn) as [i|] eqn:EI; cbn [fst]; [|split; [apply others_refl|]; exists tb; auto].
  destruct (ts_remove_column (t_schema tb) i) as [sc'|] eqn:ER; cbn [fst]; [|split; [apply others_refl|]; exists tb; auto].
  split; [apply set_table_others|].
  eexists. split; [unfold set_table; simp_st; apply alookup_ainsert_same|].
  right. exists i. split; auto. cbn [t_rows]. split; [apply map_length|].
  intros j Hj. unfold col_data. cbn [t_schema t_rows].
  unfold ts_remove_column in ER. destruct (nth_error (ts_cols (t_schema tb)) i); try discriminate.
  inversion ER; subst sc'. cbn [ts_cols]. f_equal.
  - apply nth_error_remove_nth. exact Hj.
  - rewrite map_map. apply map_ext. intro r. apply nth_error_remove_nth. exact Hj.
Qed.

Lemma nth_error_set_nth_col : forall f cols i j, j <> i -> nth_error (set_nth_col i f cols) j = nth_error cols j.
Proof.
  intros f cols. induction cols as [|c r IH]; intros i j H; destruct i; cbn [set_nth_col]; auto.
  - destruct j; [contradiction|reflexivity].
  - destruct j; cbn [nth_error]; auto.
Qed.

Definition column_alter (st : stmt) : option (name * name) :=
  match st with
  | ChangeColumn tn old _ => Some (tn, old)
  | ModifyColumn tn cn _ _ | SetDefault tn cn _ | DropDefault tn cn | SetNotNull tn cn | DropNotNull tn cn => Some (tn, cn)
  | _ => None
  end.

(** CHANGE / MODIFY / ALTER COLUMN ...: no row changes; only the resolved column's definition may *)
Theorem retained_column_alter : forall s st tn cn k tb, column_alter st = Some (tn, cn) ->
  tab_find_key s tn = Some k -> alookup k (s_tabs s) = Some tb ->
  let s' := step_state s st in
  others_untouched s s' k /\
  exists tb', alookup k (s_tabs s') = Some tb' /\ t_rows tb' = t_rows tb /\
    (tb' = tb \/ exists i, get_column_index (t_schema tb) cn = Some i /\
                           forall j, j <> i -> nth_error (ts_cols (t_schema tb')) j = nth_error (ts_cols (t_schema tb)) j).
Proof.
  intros s st tn cn k tb CA EF ET s'. unfold s', step_state.
  destruct st; try discriminate CA; cbn [column_alter] in CA; inversion CA; subst; cbn [step];
    unfold exec_change_column, exec_modify_column, exec_set_default, exec_drop_default, exec_set_not_null,
           exec_drop_not_null, with_stored_column; rewrite EF, ET;
    (destruct (get_column_index (t_schema tb) cn) as [i|] eqn:EI; cbn [fst];
      [|split; [apply others_refl|]; exists tb; auto]);
    try (destruct (scan_not_null i (t_rows tb)); cbn [fst]; try (split; [apply others_refl|]; exists tb; auto));
    (split; [unfold upd_col; apply set_table_others|]);
    (eexists; split; [unfold upd_col, set_table; simp_st; apply alookup_ainsert_same|]);
    (split; [reflexivity|]); right; exists i; (split; [reflexivity|]);
    intros j Hj; cbn [t_schema ts_cols set_cols]; apply nth_error_set_nth_col; exact Hj.
Qed.

(** ADD / DROP CONSTRAINT: rows and column list of every stored table stay as they are *)
Theorem retained_constraint_alter : forall s st k0 tb0,
  (exists tn kd, st = AddConstraint tn kd) \/ (exists tn cn, st = DropConstraint tn cn) ->
  alookup k0 (s_tabs s) = Some tb0 ->
  exists tb', alookup k0 (s_tabs (step_state s st)) = Some tb' /\ t_rows tb' = t_rows tb0 /\
              ts_cols (t_schema tb') = ts_cols (t_schema tb0).
Proof.
  intros s st k0 tb0 H ET.
  assert (GD : forall s1 n s2, cat_drop_table s1 n = Some s2 -> s_tabs s2 = s_tabs s1).
  { intros s1 n s2. unfold cat_drop_table. repeat break_match; intro Hx; inversion Hx; subst; reflexivity. }
  assert (GC : forall s1 sc s2, cat_create_table s1 sc = Some s2 -> s_tabs s2 = s_tabs s1).
  { intros s1 sc s2. unfold cat_create_table. repeat break_match; intro Hx; inversion Hx; subst; reflexivity. }
  assert (G : forall s1 tn sc', s_tabs (fst (resync s1 tn sc')) = s_tabs s1).
  { intros s1 tn sc'. unfold resync. destruct (cat_drop_table s1 tn) as [s2|] eqn:E1; cbn [fst]; auto.
    destruct (cat_create_table s2 sc') as [s3|] eqn:E2; cbn [fst].
    - rewrite (GC _ _ _ E2). apply (GD _ _ _ E1).
    - apply (GD _ _ _ E1). }
  assert (G2 : forall k tb sc', alookup k (s_tabs s) = Some tb -> ts_cols sc' = ts_cols (t_schema tb) ->
           exists tb', alookup k0 (s_tabs (set_stored_schema s k tb sc')) = Some tb' /\ t_rows tb' = t_rows tb0 /\
                       ts_cols (t_schema tb') = ts_cols (t_schema tb0)).
  { intros k tb sc' Hk Hc. unfold set_stored_schema, set_table. simp_st. rewrite alookup_ainsert.
    name_cases k k0; [|eauto]. subst k0. rewrite ET in Hk. inversion Hk; subst tb. eexists. split; [reflexivity|]. cbn. auto. }
  unfold step_state. destruct H as [[tn [kd ->]]|[tn [cn ->]]]; cbn [step].
  - unfold exec_add_constraint. destruct (tab_find_key s tn) as [k|]; cbn [fst]; [|eauto].
    destruct (alookup k (s_tabs s)) as [tb|] eqn:Ek; cbn [fst]; [|eauto].
    destruct kd as [cols|cols|[cn|] col]; repeat (break_match; cbn [fst]); eauto;
      try (rewrite G); apply (G2 k tb); auto.
  - unfold exec_drop_constraint. destruct (tab_find_key s tn) as [k|]; cbn [fst]; [|eauto].
    destruct (alookup k (s_tabs s)) as [tb|] eqn:Ek; cbn [fst]; [|eauto].
    break_match; cbn [fst]; eauto. rewrite G. apply (G2 k tb); auto.
Qed.

(** what RENAME TO computes for a listed, unindexed table *)
Lemma rename_result : forall s tn new sc rows, Agree s -> has_dot tn = false -> has_dot new = false ->
  table_indexed s tn = false -> alookup tn (s_cat s) = Some sc -> tab_find_key s new = None ->
  alookup (qual public tn) (s_tabs s) = Some (mktab sc rows) ->
  let sc' := mkts new (ts_cols sc) (ts_cache sc) (ts_pk sc) (ts_uniques sc) (ts_checks sc) in
  let good := take_while (table_accepts sc') rows in
  exists s2, Agree s2 /\ s_cat s2 = ainsert new sc' (aremove tn (s_cat s)) /\
     s_tabs s2 = ainsert (qual public new) (mktab sc' []) (aremove (qual public tn) (s_tabs s)) /\
     s_cidx s2 = s_cidx s /\ s_sidx s2 = s_sidx s /\
     exec_rename_table s tn new =
       (set_table s2 (qual public new) (mktab sc' good), if Nat.eqb (length good) (length rows) then ROk 0 else RErr).
Proof.
  intros s tn new sc rows A W1 W2 K EL EN ET sc' good.
  assert (L : listed s tn) by (apply amem_alookup; eauto).
  assert (NLnew : amem new (s_cat s) = false).
  { destruct (amem new (s_cat s)) eqn:E; auto. rewrite (tab_find_listed s A new E) in EN. discriminate. }
  assert (SD : filter (fun p => negb (name_eqb (si_table (snd p)) (qual public tn))) (s_sidx s) = s_sidx s)
    by (apply sidx_no_dotted_table; auto; apply has_dot_qual).
  destruct (ag_cat_wf s A tn sc EL) as [_ [Hnm CO]].
  destruct (table_indexed_false s tn K) as [K1 K2].
  set (s1 := set_tabs (set_cat (set_sidx s (s_sidx s)) (aremove tn (s_cat s))) (aremove (qual public tn) (s_tabs s))).
  assert (OD : ops_drop_table s tn = (s1, true)).
  { unfold ops_drop_table, cat_norm. rewrite (ag_cs s A). rewrite W1.
    unfold sidx_drop_for_table. simp_st. rewrite SD.
    unfold cat_drop_table. rewrite (split_dot_none _ W1). unfold schema_found, cat_norm. simp_st.
    rewrite (ag_cs s A), name_eqb_refl. cbn [negb]. unfold listed in L. rewrite L. simp_st.
    rewrite (tabs_nodot_absent s A tn W1). reflexivity. }
  assert (A1 : Agree s1).
  { apply (agree_remove_table s s1 tn A L); unfold s1; simp_st; try reflexivity.
    - symmetry. apply filter_all. intros p Hp. rewrite (K1 p Hp). reflexivity.
    - apply (ag_nd_sidx s A).
    - intro k. destruct (alookup k (s_sidx s)) as [x|] eqn:Ex; auto.
      apply alookup_in in Ex. pose proof (K2 _ Ex) as K3. cbn [snd] in K3. rewrite K3. reflexivity. }
  destruct (agree_db_create_table s1 sc' A1) as [s2 [H1 [A2 [C2 [T2 [I2 [X2 S2]]]]]]].
  - exact W2.
  - cbn [ts_name sc']. unfold s1. simp_st. rewrite amem_aremove, NLnew. apply andb_false_r.
  - unfold cache_ok, sc'. cbn [ts_cache ts_cols]. exact CO.
  - exists s2. split; auto. cbn [ts_name sc'] in C2, T2. unfold s1 in C2, T2, I2, X2. simp_st.
    repeat split; auto.
    assert (L2 : listed s2 new).
    { unfold listed. rewrite C2. rewrite amem_ainsert, name_eqb_refl. reflexivity. }
    unfold exec_rename_table. rewrite EN. cbn [is_some]. unfold get_table.
    rewrite (tab_find_listed s A tn L), ET. cbn [t_schema t_rows]. rewrite OD. cbn [negb].
    fold sc'. rewrite H1. rewrite (tab_find_listed s2 A2 new L2). reflexivity.
Qed.

(** RENAME TO of a listed, unindexed table whose rows all pass the stored NOT NULL checks: the new
    name holds all the rows in order, the old name is gone *)
Theorem rename_moves_all_rows : forall s tn new sc rows, Agree s ->
  wf_name tn = true -> wf_name new = true -> known s (RenameTable tn new) = false ->
  alookup tn (s_cat s) = Some sc -> tab_find_key s new = None ->
  alookup (qual public tn) (s_tabs s) = Some (mktab sc rows) ->
  forallb (not_null_ok (ts_cols sc)) rows = true ->
  let s' := step_state s (RenameTable tn new) in
  snd (step s (RenameTable tn new)) = ROk 0 /\ obs_select s' new = Some rows /\ amem tn (s_cat s') = false.
Proof.
  intros s tn new sc rows A W1 W2 K EL EN ET NN s'.
  pose proof W1 as W1'. pose proof W2 as W2'. unfold wf_name in W1', W2'. apply negb_true_iff in W1'. apply negb_true_iff in W2'.
  cbn [known] in K.
  destruct (rename_result s tn new sc rows A W1' W2' K EL EN ET) as [s2 [A2 [C2 [T2 [I2 [X2 ER]]]]]].
  cbn zeta in ER.
  pose proof (ag_width s A _ _ ET) as WD. cbn [t_schema t_rows] in WD.
  match type of ER with context [take_while (table_accepts ?SC) rows] => set (sc' := SC) in * end.
  assert (TW : take_while (table_accepts sc') rows = rows).
  { clear - WD NN. induction rows as [|r rest IH]; cbn [take_while]; auto.
    inversion WD as [|? ? Hr Hrest]; subst. cbn [forallb] in NN. apply andb_true_iff in NN. destruct NN as [N1 N2].
    unfold table_accepts at 1. cbn [ts_cols sc']. rewrite Hr, Nat.eqb_refl, N1. cbn [andb]. f_equal. apply IH; auto. }
  rewrite TW, Nat.eqb_refl in ER.
  assert (A' : Agree s') by (apply agree_step; auto; cbn [wf_stmt]; rewrite W1, W2; reflexivity).
  unfold s', step_state in *. cbn [step] in *. rewrite ER in *. cbn [fst snd] in *.
  split; auto. split.
  - unfold obs_select, get_table.
    match goal with |- context [tab_find_key ?S3 new] => set (s3 := S3) in * end.
    assert (L3 : listed s3 new).
    { unfold listed, s3, set_table. simp_st. rewrite C2. rewrite amem_ainsert, name_eqb_refl. reflexivity. }
    rewrite (tab_find_listed s3 A' new L3). unfold s3, set_table. simp_st. rewrite alookup_ainsert_same. reflexivity.
  - unfold set_table. simp_st. rewrite C2. rewrite amem_ainsert, amem_aremove, name_eqb_refl.
    cbn [negb andb orb]. rewrite orb_false_r. apply name_eqb_neq. intro E. subst new.
    rewrite (tab_find_listed s A tn) in EN; [discriminate | apply amem_alookup; eauto].
Qed.

(* ------------------------------------------------------------------------------------------ *)
(** * Index-driven lookups: what the mirror means *)

(** in an agreeing state the entry of an index under a key lists exactly the positions of the rows
    of its table that carry the key, in ascending order -- nothing stale, nothing missing *)
Theorem index_entries_exact : forall s k x tb key, Agree s ->
  alookup k (s_sidx s) = Some x -> alookup (qual public (si_table x)) (s_tabs s) = Some tb ->
  dget key (si_data x) = matching_positions (t_schema tb) (si_cols x) key (t_rows tb) 0.
Proof.
  intros s k x tb key A H1 H2. pose proof (ag_mirror s A k x tb H1 H2) as M.
  rewrite (build_data_dget _ _ key _ _ _ _ M). reflexivity.
Qed.

(** every index of an agreeing state has a stored table to be looked up in *)
Theorem index_has_table : forall s k x, Agree s -> alookup k (s_sidx s) = Some x ->
  exists sc rows, alookup (si_table x) (s_cat s) = Some sc /\
                  alookup (qual public (si_table x)) (s_tabs s) = Some (mktab sc rows) /\
                  forall c, In c (si_cols x) -> In c (col_names sc).
Proof.
  intros s k x A H. pose proof (ag_idx_table s A k x H) as L. apply amem_alookup in L. destruct L as [sc L].
  destruct (listed_table s A _ sc L) as [rows [ET _]]. exists sc, rows. repeat split; auto.
  intros c Hc. eapply (ag_idx_cols s A); eauto.
Qed.
