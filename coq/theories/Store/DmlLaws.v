(** C10/C15: the invariant is preserved by every statement outside the known classes.
    Part 1: generic lemmas, DDL, DELETE / TRUNCATE. *)
From Coq Require Import List ZArith Bool Arith Lia Permutation.
From VibeSQL Require Import Store.Table Store.UserIndex Store.Constraints Store.Dml
     Store.TableLaws Store.UserIndexLaws Store.Invariant.
Import ListNotations.

(* ------------------------------------------------------------------------------------ *)
(** * Generic *)

Ltac simp_tab :=
  cbn [t_sch t_rows t_pkidx t_uqidx t_trk t_uidx set_sch set_uidx set_rows set_hash set_trk
       sch_with_check sch_with_pk sch_with_unique s_ncols s_notnull s_pk s_uniqs s_checks_enf
       s_checks_decl do_create_index do_drop_index tbl_rebuild_indexes tbl_clear tbl_delete_at
       fst snd ui_name ui_unique ui_cols ui_data ui_set_data] in *.

Ltac wf_same := (unfold rows_wf in *; simp_tab; assumption).

Lemma has_dup_NoDup l : has_dup l = false <-> NoDup l.
Proof.
  induction l as [|k l IH]; cbn.
  - split; [constructor | reflexivity].
  - rewrite orb_false_iff, IH, NoDup_cons_iff. split.
    + intros [Hm Hn]; split; [|exact Hn]. intros Hin. apply key_mem_In in Hin. congruence.
    + intros [Hm Hn]; split; [|exact Hn]. destruct (key_mem k l) eqn:E; [|reflexivity].
      apply key_mem_In in E. contradiction.
Qed.

Lemma NoDup_app_iff {A} (a b : list A) :
  NoDup (a ++ b) <-> NoDup a /\ NoDup b /\ (forall x, In x a -> ~ In x b).
Proof.
  induction a as [|y a IH]; cbn.
  - split; [intros H; repeat split; [constructor | exact H | intros x []] | intros [_ [H _]]; exact H].
  - rewrite !NoDup_cons_iff, IH, in_app_iff. split.
    + intros [Hy [Ha [Hb Hd]]]. repeat split; auto.
      intros x [->|Hx]; [intros Hb'; apply Hy; right; exact Hb' | apply Hd; exact Hx].
    + intros [[Hy Ha] [Hb Hd]]. repeat split; auto.
      intros [H|H]; [contradiction | apply (Hd y); [left; reflexivity | exact H]].
Qed.

Lemma Forall_upd_nth {A} (P : A -> Prop) i f (l : list A) :
  Forall P l -> (forall x, nth_error l i = Some x -> P x -> P (f x)) -> Forall P (upd_nth i f l).
Proof.
  revert i; induction l as [|y l IH]; intros i Hf Hx; [destruct i; constructor|].
  inversion Hf; subst. destruct i as [|i]; cbn.
  - constructor; [apply Hx; [reflexivity | assumption] | assumption].
  - constructor; [assumption | apply IH; [assumption | intros x Hn; apply Hx; exact Hn]].
Qed.

Lemma upd_nth_length {A} i f (l : list A) : length (upd_nth i f l) = length l.
Proof. revert i; induction l as [|y l IH]; intros [|i]; cbn; auto. Qed.

Lemma Forall_nth_error {A} (P : A -> Prop) l i x : Forall P l -> nth_error l i = Some x -> P x.
Proof. intros Hf Hn. rewrite Forall_forall in Hf. apply Hf. eapply nth_error_In; eauto. Qed.

Lemma opt_am_equiv_refl a : opt_am_equiv a a.
Proof. destruct a; cbn; [apply am_equiv_refl | exact I]. Qed.

Lemma Forall2_am_equiv_refl (l : list (amap nat)) : Forall2 am_equiv l l.
Proof. induction l; constructor; [apply am_equiv_refl | assumption]. Qed.

Lemma opt_perm_refl a : opt_perm a a.
Proof. destruct a; cbn; [apply Permutation_refl | exact I]. Qed.

Lemma ui_equiv_refl m : ui_equiv m m.
Proof. intros k; apply opt_perm_refl. Qed.

Lemma uq_keyed_ui cols rows j k : keyed_at (uq_kf cols) rows j k -> keyed_at (ui_kf cols) rows j k.
Proof.
  intros [r [Hr Hk]]. exists r; split; [exact Hr|]. unfold uq_kf in Hk. unfold ui_kf, ui_key.
  destruct (has_null (proj cols r)); [discriminate | exact Hk].
Qed.

Lemma Forall2_len {A B} (R : A -> B -> Prop) l1 l2 : Forall2 R l1 l2 -> length l1 = length l2.
Proof. induction 1; cbn; congruence. Qed.

(** shape of the hash maps implied by the mirror *)
Lemma mirror_shape t : hash_mirror t ->
  (match t_pkidx t, s_pk (t_sch t) with Some _, Some _ | None, None => True | _, _ => False end)
  /\ length (t_uqidx t) = length (s_uniqs (t_sch t)).
Proof.
  intros [Hp Hu]. split.
  - unfold pk_rebuild in Hp. destruct (t_pkidx t), (s_pk (t_sch t)); cbn in Hp; auto.
  - apply Forall2_len in Hu. unfold uq_rebuild in Hu. rewrite map_length in Hu. exact Hu.
Qed.

Lemma im_rebuild_pk_shape s pk rows :
  (match pk, s_pk s with Some _, Some _ | None, None => True | _, _ => False end) ->
  im_rebuild_pk s pk rows = pk_rebuild s rows.
Proof. unfold im_rebuild_pk, pk_rebuild. destruct pk, (s_pk s); intros H; try contradiction; reflexivity. Qed.

Lemma im_rebuild_uq_shape uniqs uq rows :
  length uq = length uniqs ->
  im_rebuild_uq uniqs uq rows = map (fun cols => h_rebuild (uq_kf cols) rows) uniqs.
Proof.
  revert uq; induction uniqs as [|c uniqs IH]; intros [|m uq] H; cbn in *; try discriminate; try reflexivity.
  f_equal. apply IH. lia.
Qed.

(** TInv only reads the fields; convenient constructor *)
Lemma TInv_intro t : rows_wf t -> constraints_hold t -> hash_mirror t -> user_mirror t -> TInv t.
Proof. intros H0 H1 H2 H3; split; [exact H0 | split; [exact H1 | split; [exact H2 | exact H3]]]. Qed.

(* ------------------------------------------------------------------------------------ *)
(** * Initial state *)

Lemma TInv_table_new s : created s -> TInv (table_new s).
Proof.
  intros Hc. apply TInv_intro.
  - split; [constructor | cbn; rewrite Hc; apply incl_refl].
  - unfold constraints_hold; cbn. repeat split; try constructor.
    + intros cols _. apply uniq_on_nil.
    + apply Forall_forall. intros cols _. apply uniq_on_nil.
  - split; cbn; [apply opt_am_equiv_refl | apply Forall2_am_equiv_refl].
  - constructor.
Qed.

Lemma inv_init_thm schemas : Forall created schemas -> Inv (db_init schemas).
Proof.
  intros Hc. split; cbn; [|exact I]. apply Forall_forall. intros t Ht. apply in_map_iff in Ht.
  destruct Ht as [s [<- Hs]]. apply TInv_table_new. rewrite Forall_forall in Hc. apply Hc; exact Hs.
Qed.

(* ------------------------------------------------------------------------------------ *)
(** * CREATE / DROP INDEX *)

Lemma TInv_create_index t name uniq cols :
  TInv t -> (uniq = true -> has_dup (somes (uq_kf cols) (t_rows t)) = false) ->
  TInv (do_create_index t name uniq cols).
Proof.
  intros [Hwf [[Hnn [Hpk [Huq [Hck Hui]]]] [Hh Hu]]] Hdup. apply TInv_intro.
  - wf_same.
  - unfold constraints_hold; cbn. repeat split; try assumption.
    apply Forall_app; split; [assumption|]. constructor; [|constructor]. cbn.
    intros ->. apply uniq_on_NoDup. apply has_dup_NoDup. apply Hdup; reflexivity.
  - exact Hh.
  - unfold user_mirror; cbn. apply Forall_app; split; [assumption|].
    constructor; [|constructor]. cbn. apply ui_equiv_refl.
Qed.

Lemma TInv_drop_index t name : TInv t -> TInv (do_drop_index name t).
Proof.
  intros [Hwf [[Hnn [Hpk [Huq [Hck Hui]]]] [Hh Hu]]]. apply TInv_intro.
  - wf_same.
  - unfold constraints_hold; cbn. repeat split; try assumption.
    apply Forall_forall. intros u Hin. apply filter_In in Hin. destruct Hin as [Hin _].
    rewrite Forall_forall in Hui. apply Hui; exact Hin.
  - exact Hh.
  - unfold user_mirror in *; cbn. apply Forall_forall. intros u Hin. apply filter_In in Hin.
    destruct Hin as [Hin _]. rewrite Forall_forall in Hu. apply Hu; exact Hin.
Qed.

(* ------------------------------------------------------------------------------------ *)
(** * ALTER TABLE ADD CONSTRAINT *)

Lemma hash_mirror_rebuild t s : hash_mirror (tbl_rebuild_indexes (set_sch t s)).
Proof. split; cbn; [apply opt_am_equiv_refl | apply Forall2_am_equiv_refl]. Qed.

Lemma TInv_add_unique t cols :
  TInv t -> has_dup (somes (uq_kf cols) (t_rows t)) = false ->
  TInv (tbl_rebuild_indexes (set_sch t (sch_with_unique (t_sch t) cols))).
Proof.
  intros [Hwf [[Hnn [Hpk [Huq [Hck Hui]]]] [Hh Hu]]] Hdup. apply TInv_intro.
  - destruct Hwf as [Hw1 Hw2]. split; simp_tab; [exact Hw1 | apply incl_refl].
  - unfold constraints_hold; cbn. repeat split; try assumption.
    apply Forall_app; split; [assumption|]. constructor; [|constructor].
    apply uniq_on_NoDup. apply has_dup_NoDup. exact Hdup.
  - apply hash_mirror_rebuild.
  - exact Hu.
Qed.

Lemma TInv_add_pk t cols :
  TInv t -> s_pk (t_sch t) = None -> has_dup (somes (pk_kf cols) (t_rows t)) = false ->
  TInv (tbl_rebuild_indexes (set_sch t (sch_with_pk (t_sch t) cols))).
Proof.
  intros [Hwf [[Hnn [Hpk [Huq [Hck Hui]]]] [Hh Hu]]] Hnone Hdup. apply TInv_intro.
  - destruct Hwf as [Hw1 Hw2]. split; simp_tab; [exact Hw1 | apply incl_refl].
  - unfold constraints_hold; cbn. repeat split; try assumption.
    intros cols' E; inversion E; subst. apply uniq_on_NoDup. apply has_dup_NoDup. exact Hdup.
  - apply hash_mirror_rebuild.
  - exact Hu.
Qed.

Lemma checks_ok_app cs c r : checks_ok (cs ++ [c]) r = checks_ok cs r && check_ok c r.
Proof. unfold checks_ok. rewrite forallb_app. cbn. rewrite andb_true_r. reflexivity. Qed.

Lemma TInv_add_check t c :
  TInv t -> existsb (fun r => negb (check_ok c r)) (t_rows t) = false ->
  TInv (set_sch t (sch_with_check (t_sch t) c)).
Proof.
  intros [Hwf [[Hnn [Hpk [Huq [Hck Hui]]]] [Hh Hu]]] Hex. apply TInv_intro.
  - destruct Hwf as [Hw1 Hw2]. split; simp_tab; [exact Hw1 | apply incl_appl; exact Hw2].
  - unfold constraints_hold; simp_tab. repeat split; try assumption.
    rewrite Forall_forall in *. intros r Hr. rewrite checks_ok_app, (Hck r Hr). cbn.
    destruct (check_ok c r) eqn:E; [reflexivity|].
    assert (existsb (fun r => negb (check_ok c r)) (t_rows t) = true) as Hc; [|congruence].
    apply existsb_exists. exists r; split; [exact Hr | rewrite E; reflexivity].
  - exact Hh.
  - exact Hu.
Qed.

(* ------------------------------------------------------------------------------------ *)
(** * DELETE / TRUNCATE *)

(** dropping the user indexes of a table keeps the rest of the invariant *)
Lemma TInv_forget_uidx t : TInv t -> TInv (set_uidx t []).
Proof.
  intros [Hwf [[Hnn [Hpk [Huq [Hck Hui]]]] [Hh Hu]]]. apply TInv_intro.
  - exact Hwf.
  - unfold constraints_hold. simp_tab. repeat split; try assumption. constructor.
  - exact Hh.
  - constructor.
Qed.

Lemma user_mirror_rebuilt t : user_mirror (db_rebuild_uidx t).
Proof.
  unfold user_mirror, db_rebuild_uidx, uidx_rebuild. simp_tab. apply Forall_forall.
  intros u' Hin. apply in_map_iff in Hin. destruct Hin as [u [<- _]]. cbn. apply ui_equiv_refl.
Qed.

Lemma TInv_rebuild_uidx t : TInv t -> TInv (db_rebuild_uidx t).
Proof.
  intros [Hwf [[Hnn [Hpk [Huq [Hck Hui]]]] [Hh Hu]]]. apply TInv_intro.
  - exact Hwf.
  - unfold constraints_hold, db_rebuild_uidx, uidx_rebuild. simp_tab. repeat split; try assumption.
    rewrite Forall_forall in *. intros u' Hin. apply in_map_iff in Hin. destruct Hin as [u [<- Hin]].
    cbn. apply Hui; exact Hin.
  - exact Hh.
  - apply user_mirror_rebuilt.
Qed.

(** rows and hash maps after Table::clear / Table::delete_where; the user indexes are dealt with
    by the rebuild that follows (or, for the savepoint undo, by the side condition) *)
Lemma TInv_clear t :
  TInv t -> (t_uidx t = [] \/ t_rows t = []) -> TInv (tbl_clear t).
Proof.
  intros [Hwf [[Hnn [Hpk [Huq [Hck Hui]]]] [Hh Hu]]] Hor.
  destruct (mirror_shape t Hh) as [Hsp Hsl]. apply TInv_intro.
  - destruct Hwf as [Hw1 Hw2]. split; simp_tab; [constructor | exact Hw2].
  - unfold constraints_hold; cbn. repeat split; try constructor.
    + intros cols _. apply uniq_on_nil.
    + apply Forall_forall. intros cols _. apply uniq_on_nil.
    + apply Forall_forall. intros u _ _. apply uniq_on_nil.
  - split; cbn.
    + unfold pk_rebuild. destruct (t_pkidx t), (s_pk (t_sch t)); cbn in *; try contradiction; auto.
      apply am_equiv_refl.
    + unfold uq_rebuild. revert Hsl. generalize (s_uniqs (t_sch t)). generalize (t_uqidx t).
      induction l as [|m l IH]; intros [|c l'] H; cbn in *; try discriminate; constructor.
      * apply am_equiv_refl.
      * apply IH. lia.
  - unfold user_mirror in *; cbn. destruct Hor as [E|E].
    + rewrite E; constructor.
    + rewrite E in Hu. exact Hu.
Qed.

Lemma TInv_delete_at t del :
  TInv t -> (t_uidx t = [] \/ remove_at_from 0 del (t_rows t) = t_rows t) ->
  TInv (fst (tbl_delete_at t del)).
Proof.
  intros [Hwf [[Hnn [Hpk [Huq [Hck Hui]]]] [Hh Hu]]] Hor.
  destruct (mirror_shape t Hh) as [Hsp Hsl].
  pose proof (remove_at_subseq 0 del (t_rows t)) as Hsub.
  apply TInv_intro.
  - destruct Hwf as [Hw1 Hw2]. split; simp_tab; [eapply subseq_Forall; eauto | exact Hw2].
  - unfold constraints_hold; cbn. repeat split.
    + eapply subseq_Forall; eauto.
    + intros cols E. eapply uniq_on_subseq; eauto.
    + rewrite Forall_forall in *. intros cols Hc. eapply uniq_on_subseq; eauto.
    + eapply subseq_Forall; eauto.
    + rewrite Forall_forall in *. intros u Hin Hq. eapply uniq_on_subseq; eauto.
  - split; cbn.
    + rewrite im_rebuild_pk_shape by assumption. apply opt_am_equiv_refl.
    + rewrite im_rebuild_uq_shape by assumption. apply Forall2_am_equiv_refl.
  - unfold user_mirror in *; cbn. destruct Hor as [E|E].
    + rewrite E; constructor.
    + rewrite E. exact Hu.
Qed.

(** replacing the user indexes of a table by others that satisfy their part of the invariant *)
Lemma TInv_set_uidx t us :
  TInv t ->
  Forall (fun u => ui_unique u = true -> uniq_on (uq_kf (ui_cols u)) (t_rows t)) us ->
  Forall (fun u => ui_mirror (ui_cols u) (t_rows t) (ui_data u)) us ->
  TInv (set_uidx t us).
Proof.
  intros [Hwf [[Hnn [Hpk [Huq [Hck Hui]]]] [Hh Hu]]] H1 H2. apply TInv_intro.
  - exact Hwf.
  - unfold constraints_hold. simp_tab. repeat split; assumption.
  - exact Hh.
  - exact H2.
Qed.

Lemma uidx_rebuild_mirror us rows :
  Forall (fun u => ui_mirror (ui_cols u) rows (ui_data u)) (uidx_rebuild us rows).
Proof.
  unfold uidx_rebuild. apply Forall_forall. intros u' Hin. apply in_map_iff in Hin.
  destruct Hin as [u [<- _]]. cbn. apply ui_equiv_refl.
Qed.

(** DELETE without WHERE / TRUNCATE: Table::clear followed by Database::rebuild_indexes *)
Lemma TInv_clear_rebuild t : TInv t -> TInv (db_rebuild_uidx (tbl_clear t)).
Proof.
  intros HI.
  change (db_rebuild_uidx (tbl_clear t))
    with (set_uidx (tbl_clear (set_uidx t [])) (uidx_rebuild (t_uidx t) [])).
  apply TInv_set_uidx.
  - apply TInv_clear; [apply TInv_forget_uidx; exact HI | left; reflexivity].
  - apply Forall_forall. intros u _ _. apply uniq_on_nil.
  - apply uidx_rebuild_mirror.
Qed.

(** DELETE ... WHERE: Table::delete_where followed by Database::rebuild_indexes *)
Lemma TInv_delete_rebuild t del : TInv t -> TInv (db_rebuild_uidx (fst (tbl_delete_at t del))).
Proof.
  intros HI.
  change (db_rebuild_uidx (fst (tbl_delete_at t del)))
    with (set_uidx (fst (tbl_delete_at (set_uidx t []) del))
                   (uidx_rebuild (t_uidx t) (remove_at_from 0 del (t_rows t)))).
  apply TInv_set_uidx.
  - apply TInv_delete_at; [apply TInv_forget_uidx; exact HI | left; reflexivity].
  - destruct HI as [_ [[_ [_ [_ [_ Hui]]]] _]]. unfold uidx_rebuild. simp_tab.
    rewrite Forall_forall in *. intros u' Hin Hq. apply in_map_iff in Hin. destruct Hin as [u [<- Hin]].
    cbn in *. eapply uniq_on_subseq; [apply remove_at_subseq | apply Hui; assumption].
  - apply uidx_rebuild_mirror.
Qed.
