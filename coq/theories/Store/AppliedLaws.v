(** * Store/AppliedLaws.v — successful statements apply all of their rows; the images row triggers see (C11, C34)

    Under the frame condition "no trigger body touches the statement's table" ([frame_on]) and for a table that
    does not reference itself: a successful INSERT appended exactly the validated rows in order (any path); a
    successful UPDATE left at every planned position the NEW image, found the OLD image there before, and moved
    nothing else; a successful DELETE kept exactly the rows that were not selected, in order; row-level firings of
    an UPDATE carry those OLD/NEW images.  Also: no statement creates or drops a table ([ids_exec]). *)
From Coq Require Import List ZArith Bool Arith Lia Sorted.
From VibeSQL Require Import Store.Trigger Store.Atomic Store.AtomicLaws Store.TriggerLaws.
Import ListNotations.

Lemma get_table_upd_other : forall d ct f t, ct <> t -> (forall x, tb_id (f x) = tb_id x) ->
  get_table (upd_table d ct f) t = get_table d t.
Proof.
  intros d ct f t Hne Hid. unfold get_table, upd_table. cbn [d_tabs].
  induction (d_tabs d) as [|x l IH]; [reflexivity|]. cbn [map find].
  destruct (Nat.eqb (tb_id x) ct) eqn:E.
  - rewrite Hid. apply Nat.eqb_eq in E. destruct (Nat.eqb (tb_id x) t) eqn:E2.
    + apply Nat.eqb_eq in E2. congruence.
    + exact IH.
  - destruct (Nat.eqb (tb_id x) t); [reflexivity|exact IH].
Qed.

(** ** No statement creates or drops a table or a trigger: the list of table keys and the trigger list are invariant *)
Definition ids (d : db) : list nat * list trig := (map tb_id (d_tabs d), d_trigs d).

Lemma ids_upd : forall d t f, (forall x, tb_id (f x) = tb_id x) -> ids (upd_table d t f) = ids d.
Proof. intros. unfold ids. rewrite upd_table_ids by assumption. reflexivity. Qed.

Lemma ids_trigs : forall d d', ids d' = ids d -> d_trigs d' = d_trigs d.
Proof. intros d d' H. unfold ids in H. congruence. Qed.

Lemma ids_apply_row_updates : forall ups d ct, ids (apply_row_updates d ct ups) = ids d.
Proof.
  induction ups as [|u us IH]; intros d ct; unfold apply_row_updates in *; cbn [fold_left]; [reflexivity|].
  rewrite IH. apply ids_upd. reflexivity.
Qed.

Lemma ids_upd_refs : forall d t pkc old new d' ok m, upd_refs d t pkc old new = (d', ok, m) -> ids d' = ids d.
Proof.
  intros d t pkc old new d' ok m H. unfold upd_refs in H.
  destruct (negb (has_any_fks d)); [inversion H; reflexivity|].
  destruct (upd_ref_plan d t (cellv old pkc) (cellv new pkc)) as [plan|]; [|inversion H; reflexivity].
  inversion H; subst. clear H. revert d. induction plan as [|p rest IH]; intros d; cbn [fold_left]; [reflexivity|].
  rewrite IH. apply ids_apply_row_updates.
Qed.

Lemma ids_cascade_updates : forall t pkc ups k d m0 d' r m, cascade_updates t pkc ups k d m0 = (d', r, m) -> ids d' = ids d.
Proof.
  induction ups as [|[[i old] new] rest IH]; intros k d m0 d' r m H; cbn [cascade_updates] in H; [inversion H; reflexivity|].
  destruct (upd_refs d t pkc old new) as [[d1 ok] m1] eqn:E1. apply ids_upd_refs in E1.
  destruct ok; [apply IH in H; congruence|inversion H; subst; exact E1].
Qed.

Lemma ids_apply_updates : forall t ups k d d' r m, apply_updates t ups k d = (d', r, m) -> ids d' = ids d.
Proof.
  induction ups as [|[[i old] new] rest IH]; intros k d d' r m H; cbn [apply_updates] in H; [inversion H; reflexivity|].
  destruct (get_table d t) as [tb|]; [|inversion H; reflexivity].
  destruct (_ && _); [|inversion H; reflexivity].
  apply IH in H. rewrite H. apply ids_upd. reflexivity.
Qed.

Lemma ids_del_perform : forall acts key d m d' ok m', del_perform acts key d m = (d', ok, m') -> ids d' = ids d.
Proof.
  induction acts as [|[ct fk] rest IH]; intros key d m d' ok m' H; cbn [del_perform] in H; [inversion H; reflexivity|].
  destruct (fk_on_delete fk); [inversion H; reflexivity| |]; apply IH in H; rewrite H; apply ids_upd; reflexivity.
Qed.

Lemma ids_cascade_deletes : forall t pkc rows k d m0 d' r m, cascade_deletes t pkc rows k d m0 = (d', r, m) -> ids d' = ids d.
Proof.
  induction rows as [|[i r0] rest IH]; intros k d m0 d' r m H; cbn [cascade_deletes] in H; [inversion H; reflexivity|].
  destruct (del_refs d t pkc r0 m0) as [[d1 ok] m1] eqn:E1.
  assert (H1 : ids d1 = ids d).
  { unfold del_refs in E1. destruct (negb (has_any_fks d)); [inversion E1; reflexivity|]. eapply ids_del_perform; eauto. }
  destruct ok; [apply IH in H; congruence|inversion H; subst; exact H1].
Qed.

Lemma ids_pushes : forall rows d t, ids (fold_left (fun d0 r => push_row d0 t r) rows d) = ids d.
Proof. induction rows as [|r rest IH]; intros; cbn [fold_left]; [reflexivity|]. rewrite IH. apply ids_upd. reflexivity. Qed.

Lemma ids_bulk_transfer : forall d t tb rows d' o, bulk_transfer d t tb rows = (d', o) -> ids d' = ids d.
Proof.
  intros d t tb rows d' o H. unfold bulk_transfer in H.
  destruct (bulk_validate d tb rows 0 []); inversion H; subst; [reflexivity|apply ids_pushes].
Qed.

Section Ids.
  Variable run_body : trig -> option row -> option row -> db -> db * option (nat * bool).
  Hypothesis Hids : forall tr o n d0 d1 r, run_body tr o n d0 = (d1, r) -> ids d1 = ids d0.

  Lemma ids_fire_list : forall trs o n d d' log r, fire_list db run_body trs o n d = (d', log, r) -> ids d' = ids d.
  Proof.
    induction trs as [|tr rest IH]; intros o n d d' log r H; cbn [fire_list] in H; [inversion H; reflexivity|].
    destruct (execute_trigger db run_body tr o n d) as [[d1 l1] r1] eqn:E1.
    assert (H1 : ids d1 = ids d).
    { unfold execute_trigger in E1. destruct (t_when tr) as [c|].
      - destruct (eval_when c o n) as [[|]|]; try (inversion E1; reflexivity).
        destruct (run_body tr o n d) as [d0 r0] eqn:Er. inversion E1; subst. eapply Hids; eauto.
      - destruct (run_body tr o n d) as [d0 r0] eqn:Er. inversion E1; subst. eapply Hids; eauto. }
    destruct r1; [inversion H; subst; exact H1|].
    destruct (fire_list db run_body rest o n d1) as [[d2 l2] r2] eqn:E2. inversion H; subst. apply IH in E2. congruence.
  Qed.

  Lemma ids_fire_stmt : forall b trigs t tm ev d d' log r, fire_stmt db run_body b trigs t tm ev d = (d', log, r) -> ids d' = ids d.
  Proof. intros. unfold fire_stmt in H. destruct b; [eapply ids_fire_list; eauto|inversion H; reflexivity]. Qed.

  Lemma ids_fire_row : forall b trigs t tm ev o n d d' log r, fire_row db run_body b trigs t tm ev o n d = (d', log, r) -> ids d' = ids d.
  Proof. intros. unfold fire_row in H. destruct b; [eapply ids_fire_list; eauto|inversion H; reflexivity]. Qed.

  Lemma ids_fire_rows : forall b trigs t tm ev imgs k d d' log r, fire_rows db run_body b trigs t tm ev imgs k d = (d', log, r) -> ids d' = ids d.
  Proof.
    induction imgs as [|[o n] rest IH]; intros k d d' log r H; cbn [fire_rows] in H; [inversion H; reflexivity|].
    destruct (fire_row db run_body b trigs t tm ev o n d) as [[d1 l1] r1] eqn:E1. apply ids_fire_row in E1.
    destruct r1; [inversion H; subst; exact E1|].
    destruct (fire_rows db run_body b trigs t tm ev rest (S k) d1) as [[d2 l2] r2] eqn:E2. inversion H; subst. apply IH in E2. congruence.
  Qed.

  Lemma ids_opt_stmt : forall b (ctx : tctx) trigs t tm ev d d' log r,
    (if is_none ctx then fire_stmt db run_body b trigs t tm ev d else (d, [], None)) = (d', log, r) -> ids d' = ids d.
  Proof. intros. destruct (is_none ctx); [eapply ids_fire_stmt; eauto|inversion H; reflexivity]. Qed.

  Lemma ids_insert_slow : forall b trigs t rows k d d' log r cnt, insert_slow run_body b trigs t rows k d = (d', log, r, cnt) -> ids d' = ids d.
  Proof.
    induction rows as [|r0 rest IH]; intros k d d' log r cnt H; cbn [insert_slow] in H; [inversion H; reflexivity|].
    unfold fireR in H.
    destruct (fire_row db run_body b trigs t Before EvInsert None (Some r0) d) as [[d1 l1] r1] eqn:E1. apply ids_fire_row in E1.
    destruct r1; [inversion H; subst; exact E1|].
    destruct (get_table d1 t); [|inversion H; subst; exact E1].
    destruct (fire_row db run_body b trigs t After EvInsert None (Some r0) (push_row d1 t r0)) as [[d3 l3] r3] eqn:E3. apply ids_fire_row in E3.
    assert (H3 : ids d3 = ids d) by (rewrite E3; unfold push_row; rewrite ids_upd; [exact E1|reflexivity]).
    destruct r3; [inversion H; subst; unfold delete_at; rewrite ids_upd; [exact H3|reflexivity]|].
    destruct (insert_slow run_body b trigs t rest (S k) d3) as [[[d4 l4] r4] k4] eqn:E4. inversion H; subst. apply IH in E4. congruence.
  Qed.

  Lemma ids_do_insert_rows : forall b ctx d t tb rows d' log o, do_insert_rows run_body b ctx d t tb rows = (d', log, o) -> ids d' = ids d.
  Proof.
    intros b ctx d t tb rows d' log o H. unfold do_insert_rows in H.
    destruct (negb (forallb _ rows)); [inversion H; reflexivity|].
    destruct (validate_rows d tb ctx rows 0 []) as [k|vrows]; [inversion H; reflexivity|]. unfold fireS in H.
    destruct (if is_none ctx then fire_stmt db run_body b (d_trigs d) t Before EvInsert d else (d, [], None)) as [[d1 l1] r1] eqn:E1.
    apply ids_opt_stmt in E1. destruct r1; [inversion H; subst; exact E1|].
    destruct (negb (negb (is_none (hd_error (triggers_for_table (d_trigs d) t EvInsert)))) && (1 <? length vrows)).
    - destruct (if is_none ctx then fire_stmt db run_body b (d_trigs d) t After EvInsert _ else _) as [[d3 l3] r3] eqn:E3.
      apply ids_opt_stmt in E3. rewrite ids_pushes in E3. destruct r3; inversion H; subst; congruence.
    - destruct (insert_slow run_body b (d_trigs d) t vrows 0 d1) as [[[d2 l2] r2] cnt] eqn:E2. apply ids_insert_slow in E2.
      destruct r2 as [[s c]|]; [inversion H; subst; congruence|].
      destruct (if is_none ctx then fire_stmt db run_body b (d_trigs d) t After EvInsert d2 else (d2, [], None)) as [[d3 l3] r3] eqn:E3.
      apply ids_opt_stmt in E3. destruct r3; inversion H; subst; congruence.
  Qed.

  Lemma ids_do_update : forall b ctx d t asg w d' log o, do_update run_body b ctx d t asg w = (d', log, o) -> ids d' = ids d.
  Proof.
    intros b ctx d t asg w d' log o H. unfold do_update in H. unfold fireS, fireRs in H.
    destruct (if is_none ctx then fire_stmt db run_body b (d_trigs d) t Before (EvUpdate (Some (map fst asg))) d else (d, [], None)) as [[d1 l1] r1] eqn:E1.
    apply ids_opt_stmt in E1. destruct r1; [inversion H; subst; exact E1|].
    destruct (get_table d1 t) as [tb|]; [|inversion H; subst; exact E1].
    destruct (update_plan ctx d1 tb asg w) as [k|ups]; [inversion H; subst; exact E1|].
    destruct (match s_pk (tb_schema tb) with
              | Some c0 => if match s_pk (tb_schema tb) with Some c1 => existsb (fun a => Nat.eqb (fst a) c1) asg | None => false end
                           then cascade_updates t c0 ups 0 d1 0 else (d1, None, 0)
              | None => (d1, None, 0) end) as [[d2 r2] m2] eqn:E2.
    assert (H2 : ids d2 = ids d).
    { destruct (s_pk (tb_schema tb)); [|inversion E2; subst; exact E1].
      destruct (existsb _ asg); [|inversion E2; subst; exact E1]. apply ids_cascade_updates in E2. congruence. }
    destruct r2; [inversion H; subst; exact H2|].
    destruct (fire_rows db run_body b (d_trigs d) t Before (EvUpdate (Some (map fst asg))) (images ups) 0 d2) as [[d3 l3] r3] eqn:E3. apply ids_fire_rows in E3.
    destruct r3 as [[k c]|]; [inversion H; subst; congruence|].
    destruct (apply_updates t ups 0 d3) as [[d4 r4] m4] eqn:E4. apply ids_apply_updates in E4.
    destruct r4; [inversion H; subst; congruence|].
    destruct (fire_rows db run_body b (d_trigs d) t After (EvUpdate (Some (map fst asg))) (images ups) 0 d4) as [[d5 l5] r5] eqn:E5. apply ids_fire_rows in E5.
    destruct r5 as [[k c]|]; [inversion H; subst; congruence|].
    destruct (if is_none ctx then fire_stmt db run_body b (d_trigs d) t After (EvUpdate (Some (map fst asg))) d5 else (d5, [], None)) as [[d6 l6] r6] eqn:E6.
    apply ids_opt_stmt in E6. destruct r6; inversion H; subst; congruence.
  Qed.

  Lemma ids_do_delete : forall b ctx d t w d' log o, do_delete run_body b ctx d t w = (d', log, o) -> ids d' = ids d.
  Proof.
    intros b ctx d t w d' log o H. unfold do_delete in H.
    destruct (get_table d t) as [tb|]; [|inversion H; reflexivity].
    destruct (is_none w && can_use_truncate d t); [inversion H; subst; unfold clear_table; apply ids_upd; reflexivity|].
    unfold fireS, fireRs in H.
    destruct (if is_none ctx then fire_stmt db run_body b (d_trigs d) t Before EvDelete d else (d, [], None)) as [[d1 l1] r1] eqn:E1.
    apply ids_opt_stmt in E1. destruct r1; [inversion H; subst; exact E1|].
    match type of H with context [fire_rows db run_body b (d_trigs d) t Before EvDelete ?im 0 d1] =>
      destruct (fire_rows db run_body b (d_trigs d) t Before EvDelete im 0 d1) as [[d2 l2] r2] eqn:E2 end.
    apply ids_fire_rows in E2. destruct r2 as [[k c]|]; [inversion H; subst; congruence|].
    destruct (match s_pk (tb_schema tb) with
              | Some c0 => cascade_deletes t c0 (collect_rows ctx w (indexed 0 (tb_rows tb))) 0 d2 0
              | None => (d2, None, 0) end) as [[d3 r3] m3] eqn:E3.
    assert (H3 : ids d3 = ids d).
    { destruct (s_pk (tb_schema tb)); [|inversion E3; subst; congruence]. apply ids_cascade_deletes in E3. congruence. }
    destruct r3; [inversion H; subst; exact H3|].
    destruct (get_table d3 t) as [tb3|]; [|inversion H; subst; exact H3].
    match type of H with context [fire_rows db run_body b (d_trigs d) t After EvDelete ?im 0 ?dd] =>
      destruct (fire_rows db run_body b (d_trigs d) t After EvDelete im 0 dd) as [[d5 l5] r5] eqn:E5 end.
    apply ids_fire_rows in E5. unfold set_rows in E5. rewrite ids_upd in E5 by reflexivity.
    destruct r5 as [[k c]|]; [inversion H; subst; congruence|].
    match type of H with context [if is_none ctx then fire_stmt db run_body b (d_trigs d) t After EvDelete ?dd else _] =>
      destruct (if is_none ctx then fire_stmt db run_body b (d_trigs d) t After EvDelete dd else (dd, [], None)) as [[d6 l6] r6] eqn:E6 end.
    apply ids_opt_stmt in E6. destruct r6; inversion H; subst; congruence.
  Qed.

  Lemma ids_step_dml : forall b ctx d s d' log o, step_dml run_body b ctx d s = (d', log, o) -> ids d' = ids d.
  Proof.
    intros b ctx d s d' log o H. destruct s as [t ok rows | t src star | t asg w | t w]; cbn [step_dml] in H.
    - unfold do_insert in H. destruct (get_table d t) as [tb|]; [|inversion H; reflexivity].
      destruct ok; [|inversion H; reflexivity]. eapply ids_do_insert_rows; eauto.
    - unfold do_insert_select in H.
      destruct (get_table d t) as [dst|]; [|inversion H; reflexivity].
      destruct (get_table d src) as [sr|]; [|inversion H; reflexivity].
      destruct (star && is_none (hd_error (triggers_for_table (d_trigs d) t EvInsert)) && bulk_eligible dst sr).
      + destruct (bulk_transfer d t dst (tb_rows sr)) as [dd oo] eqn:Eb. inversion H; subst. eapply ids_bulk_transfer; eauto.
      + destruct (Nat.eqb _ _); [|inversion H; reflexivity]. eapply ids_do_insert_rows; eauto.
    - eapply ids_do_update; eauto.
    - eapply ids_do_delete; eauto.
  Qed.
End Ids.

Lemma ids_run_stmts : forall ex, (forall d s d' l o, ex d s = (d', l, o) -> ids d' = ids d) ->
  forall ss j d d' r, run_stmts ex ss j d = (d', r) -> ids d' = ids d.
Proof.
  intros ex Hex. induction ss as [|s rest IH]; intros j d d' r H; cbn [run_stmts] in H; [inversion H; reflexivity|].
  destruct (ex d s) as [[d1 l] o] eqn:E. apply Hex in E. destruct o; [apply IH in H; congruence|inversion H; subst; exact E].
Qed.

Theorem ids_exec : forall fuel ctx d s d' log o, exec fuel ctx d s = (d', log, o) -> ids d' = ids d.
Proof.
  induction fuel as [|f IH]; intros ctx d s d' log o H; cbn [exec] in H.
  - eapply ids_step_dml; [|exact H]. intros tr o0 n d0 d1 r Hr. inversion Hr; reflexivity.
  - eapply ids_step_dml; [|exact H]. intros tr o0 n d0 d1 r Hr. cbn beta in Hr.
    eapply ids_run_stmts; [|exact Hr]. intros; eapply IH; eauto.
Qed.

Lemma ids_body_runner : forall f tr o n d0 d1 r, body_runner f tr o n d0 = (d1, r) -> ids d1 = ids d0.
Proof. intros f tr o n d0 d1 r H. unfold body_runner in H. eapply ids_run_stmts; [|exact H]. intros; eapply ids_exec; eauto. Qed.

Lemma wf_ids : forall d d', ids d' = ids d -> wf d -> wf d'.
Proof. intros d d' H Hwf. unfold wf in *. unfold ids in H. inversion H as [[H1 H2]]. rewrite H1. exact Hwf. Qed.

(** ** The storage loops of UPDATE and DELETE on the statement's table *)
Definition apply_all (ups : list (nat * row * row)) (rows : list row) : list row :=
  fold_left (fun rs u => set_nth (fst (fst u)) (snd u) rs) ups rows.

Lemma apply_updates_rows : forall t ups k d d' m tb,
  apply_updates t ups k d = (d', None, m) -> get_table d t = Some tb ->
  exists tb', get_table d' t = Some tb' /\ tb_rows tb' = apply_all ups (tb_rows tb) /\ tb_schema tb' = tb_schema tb.
Proof.
  induction ups as [|[[i old] new] rest IH]; intros k d d' m tb H Ht; cbn [apply_updates] in H.
  - inversion H; subst. exists tb. auto.
  - rewrite Ht in H.
    destruct ((i <? length (tb_rows tb)) && Nat.eqb (length new) (s_ncols (tb_schema tb)) && notnull_ok (tb_schema tb) new && storable new); [|discriminate].
    assert (Hg : get_table (set_rows d t (set_nth i new (tb_rows tb))) t
                 = Some (mkTable (tb_id tb) (tb_schema tb) (set_nth i new (tb_rows tb)) (tb_app tb))).
    { unfold set_rows. apply (get_table_upd d t (fun x => mkTable (tb_id x) (tb_schema x) (set_nth i new (tb_rows tb)) (tb_app x)) tb); [reflexivity|exact Ht]. }
    destruct (IH _ _ _ _ _ H Hg) as (tb' & Hg' & Hr & Hs). exists tb'. cbn [tb_rows tb_schema] in *. auto.
Qed.

(** referential actions of a parent table that does not reference itself leave the parent table alone *)
Lemma apply_row_updates_other : forall ups d ct t, ct <> t -> get_table (apply_row_updates d ct ups) t = get_table d t.
Proof.
  induction ups as [|u rest IH]; intros d ct t Hne; unfold apply_row_updates in *; cbn [fold_left]; [reflexivity|].
  rewrite IH by exact Hne. apply get_table_upd_other; [exact Hne|reflexivity].
Qed.

Lemma upd_ref_plan_ids : forall pairs t okey nkey acc plan,
  fold_left
    (fun acc tf =>
       match acc with
       | None => None
       | Some plan =>
           let '(tb, fk) := tf in
           let matching := filter (fun ir => cell_eqb (cellv (snd ir) (fk_col fk)) okey) (indexed 0 (tb_rows tb)) in
           match matching with
           | [] => Some plan
           | _ =>
               match fk_on_update fk with
               | ANoAction => None
               | ACascade => Some (plan ++ [(tb_id tb, map (fun ir => (fst ir, set_nth (fk_col fk) nkey (snd ir))) matching)])
               | ASetNull => Some (plan ++ [(tb_id tb, map (fun ir => (fst ir, set_nth (fk_col fk) VNull (snd ir))) matching)])
               end
           end
       end) pairs acc = Some plan ->
  (forall tf, In tf pairs -> tb_id (fst tf) <> t) ->
  (forall a p, acc = Some a -> In p a -> fst p <> t) ->
  forall p, In p plan -> fst p <> t.
Proof.
  induction pairs as [|[tb fk] rest IH]; intros t okey nkey acc plan H Hp Ha p Hin; cbn [fold_left] in H.
  - eapply Ha; eauto.
  - destruct acc as [a|].
    2:{ exfalso. clear - H. induction rest as [|x r IHr]; cbn [fold_left] in H; [discriminate|auto]. }
    eapply (IH t okey nkey _ plan H); [intros; apply Hp; right; assumption| |exact Hin].
    intros a' p' Ha' Hin'.
    assert (Hid : tb_id tb <> t) by (apply (Hp (tb, fk)); left; reflexivity).
    destruct (filter _ (indexed 0 (tb_rows tb))).
    + inversion Ha'; subst. eapply Ha; eauto.
    + destruct (fk_on_update fk); [discriminate| |]; inversion Ha'; subst;
        (apply in_app_or in Hin'; destruct Hin' as [Hi|[Hi|[]]]; [eapply Ha; eauto|subst p'; exact Hid]).
Qed.

Lemma upd_refs_frame : forall d t pkc old new d' ok m tb,
  upd_refs d t pkc old new = (d', ok, m) -> wf d -> get_table d t = Some tb -> references t tb = [] ->
  get_table d' t = get_table d t.
Proof.
  intros d t pkc old new d' ok m tb H Hwf Ht Hself. unfold upd_refs in H.
  destruct (negb (has_any_fks d)); [inversion H; reflexivity|].
  destruct (upd_ref_plan d t (cellv old pkc) (cellv new pkc)) as [plan|] eqn:Ep; [|inversion H; reflexivity].
  inversion H; subst. clear H.
  assert (Hids : forall p, In p plan -> fst p <> t).
  { unfold upd_ref_plan in Ep. eapply upd_ref_plan_ids; [exact Ep| |intros a p Ha; inversion Ha; subst; contradiction].
    intros [tb' fk] Hin. apply in_flat_map in Hin. destruct Hin as (x & Hx & Hin).
    apply in_map_iff in Hin. destruct Hin as (fk' & Heq & Hfk). inversion Heq; subst. cbn [fst].
    intro Hid. rewrite (wf_unique d t tb tb' Hwf Ht Hx Hid) in Hfk. rewrite Hself in Hfk. contradiction. }
  clear Ep. revert d Hwf Ht. induction plan as [|p rest IH]; intros d Hwf Ht; cbn [fold_left]; [reflexivity|].
  rewrite IH.
  - apply apply_row_updates_other. apply Hids. left; reflexivity.
  - intros q Hq. apply Hids. right; exact Hq.
  - unfold apply_row_updates. clear - Hwf. revert d Hwf. induction (snd p) as [|u us IHu]; intros d Hwf; cbn [fold_left]; [exact Hwf|].
    apply IHu. unfold wf. rewrite upd_table_ids; [exact Hwf|reflexivity].
  - rewrite apply_row_updates_other; [exact Ht|]. apply Hids. left; reflexivity.
Qed.

Lemma wf_apply_row_updates : forall ups d ct, wf d -> wf (apply_row_updates d ct ups).
Proof.
  induction ups as [|u us IH]; intros d ct Hwf; unfold apply_row_updates in *; cbn [fold_left]; [exact Hwf|].
  apply IH. unfold wf. rewrite upd_table_ids; [exact Hwf|reflexivity].
Qed.

Lemma upd_refs_wf : forall d t pkc old new d' ok m, upd_refs d t pkc old new = (d', ok, m) -> wf d -> wf d'.
Proof.
  intros d t pkc old new d' ok m H Hwf. unfold upd_refs in H.
  destruct (negb (has_any_fks d)); [inversion H; subst; exact Hwf|].
  destruct (upd_ref_plan d t (cellv old pkc) (cellv new pkc)) as [plan|]; [|inversion H; subst; exact Hwf].
  inversion H; subst. clear H. revert d Hwf. induction plan as [|p rest IH]; intros d Hwf; cbn [fold_left]; [exact Hwf|].
  apply IH. apply wf_apply_row_updates. exact Hwf.
Qed.

Lemma cascade_updates_frame : forall t pkc ups k d m0 d' r m tb,
  cascade_updates t pkc ups k d m0 = (d', r, m) -> wf d -> get_table d t = Some tb -> references t tb = [] ->
  get_table d' t = get_table d t.
Proof.
  induction ups as [|[[i old] new] rest IH]; intros k d m0 d' r m tb H Hwf Ht Hself; cbn [cascade_updates] in H.
  - inversion H; reflexivity.
  - destruct (upd_refs d t pkc old new) as [[d1 ok] m1] eqn:E1.
    pose proof (upd_refs_frame _ _ _ _ _ _ _ _ _ E1 Hwf Ht Hself) as Hf. pose proof (upd_refs_wf _ _ _ _ _ _ _ _ E1 Hwf) as Hwf1.
    destruct ok; [|inversion H; subst; exact Hf].
    rewrite (IH _ _ _ _ _ _ _ H Hwf1 (eq_trans Hf Ht) Hself). exact Hf.
Qed.

(** *** what the selection / assignment phase delivers: positions in increasing order, with the rows found there *)
Lemma select_rows_filter : forall ctx w rows sel,
  select_rows ctx w rows = Some sel -> sel = filter (selected ctx w) rows.
Proof.
  intros ctx w rows. induction rows as [|[i r] rest IH]; intros sel H; cbn [select_rows] in H.
  - inversion H; reflexivity.
  - cbn [filter]. unfold selected at 1. cbn [snd].
    destruct (match w with None => Some true | Some c => where_true (mkEnv (Some r) ctx) c end) as [b|]; [|discriminate].
    destruct (select_rows ctx w rest) as [sel'|]; [|discriminate].
    inversion H; subst. rewrite (IH sel' eq_refl). destruct b; reflexivity.
Qed.

Lemma select_rows_sub : forall ctx w rows sel,
  select_rows ctx w rows = Some sel -> exists keep, sel = filter keep rows.
Proof. intros. exists (selected ctx w). apply select_rows_filter. assumption. Qed.

Lemma build_updates_shape : forall ctx d tb asg cands k ups,
  build_updates ctx d tb asg cands k = inr ups ->
  map (fun u => (fst (fst u), snd (fst u))) ups = cands
  /\ forall u, In u ups -> apply_assignments ctx (s_ncols (tb_schema tb)) (snd (fst u)) asg (snd (fst u)) = Some (snd u)
                           /\ update_row_ok d tb (snd (fst u)) (snd u) = true.
Proof.
  induction cands as [|[i r] rest IH]; intros k ups H; cbn [build_updates] in H.
  - inversion H; subst. split; [reflexivity|intros u []].
  - destruct (apply_assignments ctx (s_ncols (tb_schema tb)) r asg r) as [new|] eqn:Ea; [|discriminate].
    destruct (update_row_ok d tb r new) eqn:Eo; [|discriminate].
    destruct (build_updates ctx d tb asg rest (S k)) as [k'|ups'] eqn:Eb; [discriminate|].
    inversion H; subst. destruct (IH _ _ Eb) as [Hm Hu]. split.
    + cbn [map fst snd]. rewrite Hm. reflexivity.
    + intros u [Hu0|Hin]; [subst u; cbn [fst snd]; auto|apply Hu; exact Hin].
Qed.

Lemma indexed_nth : forall {A} (l : list A) k i x, In (i, x) (indexed k l) -> k <= i /\ nth_error l (i - k) = Some x.
Proof.
  induction l as [|y l IH]; intros k i x H; cbn [indexed] in H; [contradiction|].
  destruct H as [H|H].
  - inversion H; subst. rewrite Nat.sub_diag. split; [lia|reflexivity].
  - apply IH in H. destruct H as [Hle Hn]. split; [lia|]. replace (i - k) with (S (i - S k)) by lia. exact Hn.
Qed.

Lemma indexed_sorted : forall {A} (l : list A) k, StronglySorted lt (map fst (indexed k l)).
Proof.
  induction l as [|y l IH]; intros k; cbn [indexed map]; [constructor|].
  constructor; [apply IH|]. apply Forall_forall. intros j Hj. apply in_map_iff in Hj. destruct Hj as ([i x] & Hf & Hin).
  subst j. apply indexed_nth in Hin. cbn [fst]. lia.
Qed.

Lemma sorted_filter : forall {A} (f : A -> nat) keep (l : list A),
  StronglySorted lt (map f l) -> StronglySorted lt (map f (filter keep l)).
Proof.
  induction l as [|x l IH]; intros H; cbn [filter map] in *; [constructor|].
  inversion H as [|? ? Hs Hall]; subst. destruct (keep x); [|apply IH; exact Hs].
  cbn [map]. constructor; [apply IH; exact Hs|].
  apply Forall_forall. intros j Hj. rewrite Forall_forall in Hall. apply Hall.
  apply in_map_iff in Hj. destruct Hj as (y & Hy & Hin). apply filter_In in Hin. apply in_map_iff. exists y. tauto.
Qed.

(** the plan of an UPDATE: distinct increasing positions, OLD = the row stored there *)
Lemma update_plan_shape : forall ctx d tb asg w ups,
  update_plan ctx d tb asg w = inr ups ->
  StronglySorted lt (map (fun u => fst (fst u)) ups)
  /\ forall u, In u ups -> nth_error (tb_rows tb) (fst (fst u)) = Some (snd (fst u)).
Proof.
  intros ctx d tb asg w ups H. unfold update_plan in H.
  destruct (select_rows ctx w (indexed 0 (tb_rows tb))) as [cands|] eqn:Es; [|discriminate].
  destruct (select_rows_sub _ _ _ _ Es) as [keep Hk].
  destruct (build_updates_shape _ _ _ _ _ _ _ H) as [Hm _].
  assert (Hidx : map (fun u : nat * row * row => fst (fst u)) ups = map fst cands).
  { rewrite <- Hm. rewrite map_map. reflexivity. }
  split.
  - rewrite Hidx, Hk. apply sorted_filter. apply indexed_sorted.
  - intros u Hu. assert (Hin : In (fst (fst u), snd (fst u)) cands).
    { rewrite <- Hm. apply in_map_iff. exists u. auto. }
    rewrite Hk in Hin. apply filter_In in Hin. destruct Hin as [Hin _]. apply indexed_nth in Hin.
    rewrite Nat.sub_0_r in Hin. tauto.
Qed.

Lemma set_nth_nth_same : forall {A} (l : list A) i v, i < length l -> nth_error (set_nth i v l) i = Some v.
Proof. induction l as [|x l IH]; intros i v H; cbn in H; [lia|]. destruct i; cbn; [reflexivity|apply IH; lia]. Qed.

Lemma set_nth_nth_other : forall {A} (l : list A) i j v, i <> j -> nth_error (set_nth i v l) j = nth_error l j.
Proof.
  induction l as [|x l IH]; intros i j v H; [destruct i; reflexivity|].
  destruct i, j; cbn; try reflexivity; [lia|apply IH; lia].
Qed.

Lemma set_nth_length : forall {A} (l : list A) i v, length (set_nth i v l) = length l.
Proof. induction l as [|x l IH]; intros i v; [destruct i; reflexivity|]. destruct i; cbn; [reflexivity|f_equal; apply IH]. Qed.

Lemma apply_all_length : forall ups rows, length (apply_all ups rows) = length rows.
Proof.
  induction ups as [|u rest IH]; intros rows; unfold apply_all in *; cbn [fold_left]; [reflexivity|].
  rewrite IH. apply set_nth_length.
Qed.

Lemma apply_all_untouched : forall ups rows j,
  (forall u, In u ups -> fst (fst u) <> j) -> nth_error (apply_all ups rows) j = nth_error rows j.
Proof.
  induction ups as [|u rest IH]; intros rows j H; unfold apply_all in *; cbn [fold_left]; [reflexivity|].
  rewrite IH by (intros; apply H; right; assumption).
  apply set_nth_nth_other. apply H. left; reflexivity.
Qed.

(** with distinct positions every planned row ends up holding its NEW image, every other row is untouched *)
Lemma apply_all_images : forall ups rows,
  StronglySorted lt (map (fun u => fst (fst u)) ups) ->
  (forall u, In u ups -> fst (fst u) < length rows) ->
  forall u, In u ups -> nth_error (apply_all ups rows) (fst (fst u)) = Some (snd u).
Proof.
  induction ups as [|u0 rest IH]; intros rows Hs Hlen u Hin; [contradiction|].
  cbn [map] in Hs. inversion Hs as [|? ? Hs' Hall]; subst.
  unfold apply_all. cbn [fold_left]. fold (apply_all rest (set_nth (fst (fst u0)) (snd u0) rows)).
  destruct Hin as [Heq|Hin].
  - subst u. rewrite apply_all_untouched.
    + apply set_nth_nth_same. apply Hlen. left; reflexivity.
    + intros v Hv. rewrite Forall_forall in Hall. assert (fst (fst u0) < fst (fst v)); [|lia].
      apply Hall. apply in_map_iff. exists v. auto.
  - apply IH; [exact Hs'| |exact Hin]. intros v Hv. rewrite set_nth_length. apply Hlen. right; exact Hv.
Qed.

(** *** DELETE: the rows that stay are the rows not selected, in order *)
Lemma indexed_unique : forall {A} (l : list A) k i x y, In (i, x) (indexed k l) -> In (i, y) (indexed k l) -> x = y.
Proof.
  intros A l k i x y Hx Hy. apply indexed_nth in Hx. apply indexed_nth in Hy. destruct Hx as [_ Hx], Hy as [_ Hy]. congruence.
Qed.

Lemma delete_indices_filter : forall (keep : nat * row -> bool) rows,
  delete_indices rows (map fst (filter keep (indexed 0 rows)))
  = map snd (filter (fun ir => negb (keep ir)) (indexed 0 rows)).
Proof.
  intros keep rows. unfold delete_indices. f_equal. apply filter_ext_in. intros [i x] Hin. f_equal.
  cbn [fst]. destruct (keep (i, x)) eqn:Ek.
  - apply existsb_exists. exists i. split; [|apply Nat.eqb_refl].
    apply in_map_iff. exists (i, x). split; [reflexivity|]. apply filter_In. auto.
  - apply not_true_is_false. intro He. apply existsb_exists in He. destruct He as (j & Hj & Heq).
    apply Nat.eqb_eq in Heq. subst j. apply in_map_iff in Hj. destruct Hj as ([i' y] & Hf & Hin'). cbn [fst] in Hf. subst i'.
    apply filter_In in Hin'. destruct Hin' as [Hin' Hk]. rewrite (indexed_unique rows 0 i x y Hin Hin') in Ek. congruence.
Qed.

Lemma filter_length_split : forall {A} (p : A -> bool) l, length (filter p l) + length (filter (fun x => negb (p x)) l) = length l.
Proof. induction l as [|x l IH]; cbn; [reflexivity|]. destruct (p x); cbn; lia. Qed.

Lemma indexed_length : forall {A} (l : list A) k, length (indexed k l) = length l.
Proof. induction l; intros; cbn; [reflexivity|f_equal; auto]. Qed.

Lemma del_perform_frame : forall acts key d m d' ok m' t,
  del_perform acts key d m = (d', ok, m') -> (forall a, In a acts -> fst a <> t) -> get_table d' t = get_table d t.
Proof.
  induction acts as [|[ct fk] rest IH]; intros key d m d' ok m' t H Hne; cbn [del_perform] in H; [inversion H; reflexivity|].
  assert (Hct : ct <> t) by (apply (Hne (ct, fk)); left; reflexivity).
  assert (Hrest : forall a, In a rest -> fst a <> t) by (intros; apply Hne; right; assumption).
  destruct (fk_on_delete fk); [inversion H; reflexivity| |];
    (rewrite (IH _ _ _ _ _ _ _ H Hrest); unfold set_rows; apply get_table_upd_other; [exact Hct|reflexivity]).
Qed.

Lemma del_refs_frame : forall d t pkc r m d' ok m' tb,
  del_refs d t pkc r m = (d', ok, m') -> wf d -> get_table d t = Some tb -> references t tb = [] ->
  get_table d' t = get_table d t.
Proof.
  intros d t pkc r m d' ok m' tb H Hwf Ht Hself. unfold del_refs in H.
  destruct (negb (has_any_fks d)); [inversion H; reflexivity|].
  eapply del_perform_frame; [exact H|].
  intros [ct fk] Hin. unfold del_actions in Hin. apply in_flat_map in Hin. destruct Hin as (x & Hx & Hin).
  apply in_map_iff in Hin. destruct Hin as (fk' & Heq & Hfk). inversion Heq; subst. cbn [fst].
  apply filter_In in Hfk. destruct Hfk as [Hfk _].
  intro Hid. rewrite (wf_unique d t tb x Hwf Ht Hx Hid) in Hfk. rewrite Hself in Hfk. contradiction.
Qed.

Lemma cascade_deletes_frame : forall t pkc rows k d m0 d' r m tb,
  cascade_deletes t pkc rows k d m0 = (d', r, m) -> wf d -> get_table d t = Some tb -> references t tb = [] ->
  get_table d' t = get_table d t.
Proof.
  induction rows as [|[i r0] rest IH]; intros k d m0 d' r m tb H Hwf Ht Hself; cbn [cascade_deletes] in H; [inversion H; reflexivity|].
  destruct (del_refs d t pkc r0 m0) as [[d1 ok] m1] eqn:E1.
  pose proof (del_refs_frame _ _ _ _ _ _ _ _ _ E1 Hwf Ht Hself) as Hf.
  assert (Hwf1 : wf d1).
  { apply (wf_ids d); [|exact Hwf]. unfold del_refs in E1. destruct (negb (has_any_fks d)); [inversion E1; reflexivity|]. eapply ids_del_perform; eauto. }
  destruct ok; [|inversion H; subst; exact Hf].
  rewrite (IH _ _ _ _ _ _ _ H Hwf1 (eq_trans Hf Ht) Hself). exact Hf.
Qed.

(** ** Frame: trigger bodies that leave the statement's table alone *)
Section Frame.
  Variable run_body : trig -> option row -> option row -> db -> db * option (nat * bool).
  Variable t : nat.
  Variable d0 : db.     (* the database the statement starts on: it fixes the trigger set and the table keys *)
  Hypothesis Hids : forall tr o n d1 d2 r, run_body tr o n d1 = (d2, r) -> ids d2 = ids d1.
  (** the frame condition: the triggers of [d0], run on any database with [d0]'s tables and triggers, leave [t] alone *)
  Hypothesis Hframe : forall tr o n d1 d2 r,
    In tr (d_trigs d0) -> ids d1 = ids d0 -> run_body tr o n d1 = (d2, r) -> get_table d2 t = get_table d1 t.

  Lemma execute_trigger_frame : forall tr o n d d' log r,
    In tr (d_trigs d0) -> ids d = ids d0 ->
    execute_trigger db run_body tr o n d = (d', log, r) -> get_table d' t = get_table d t.
  Proof.
    intros tr o n d d' log r Hin Hi H. unfold execute_trigger in H.
    assert (Hrun : forall x, (let '(d1, r0) := run_body tr o n d in
                    (d1, [mkFiring tr o n r0], match r0 with None => None | Some (j, _) => Some (CzBody (t_id tr) j) end)) = x
                   -> get_table (fst (fst x)) t = get_table d t).
    { intros x Hx. destruct (run_body tr o n d) as [d1 r0] eqn:E. subst x. cbn. eapply Hframe; eauto. }
    destruct (t_when tr) as [c|]; [|apply Hrun in H; exact H].
    destruct (eval_when c o n) as [[|]|]; [apply Hrun in H; exact H| |]; inversion H; reflexivity.
  Qed.

  Lemma fire_list_frame : forall trs o n d d' log r,
    (forall x, In x trs -> In x (d_trigs d0)) -> ids d = ids d0 ->
    fire_list db run_body trs o n d = (d', log, r) -> get_table d' t = get_table d t.
  Proof.
    induction trs as [|tr rest IH]; intros o n d d' log r Hsub Hi H; cbn [fire_list] in H.
    - inversion H; reflexivity.
    - destruct (execute_trigger db run_body tr o n d) as [[d1 l1] r1] eqn:E1.
      assert (Hi1 : ids d1 = ids d0).
      { rewrite <- Hi. apply (ids_fire_list run_body Hids [tr] o n d d1 l1 r1). cbn [fire_list]. rewrite E1.
        destruct r1; [reflexivity|rewrite app_nil_r; reflexivity]. }
      apply execute_trigger_frame in E1; [|apply Hsub; left; reflexivity|exact Hi].
      destruct r1; [inversion H; subst; exact E1|].
      destruct (fire_list db run_body rest o n d1) as [[d2 l2] r2] eqn:E2.
      inversion H; subst. apply IH in E2; [congruence| |exact Hi1]. intros x Hx. apply Hsub. right; exact Hx.
  Qed.

  Lemma stmt_triggers_sub : forall trigs tt tm ev x, In x (stmt_triggers trigs tt tm ev) -> In x trigs.
  Proof. intros trigs tt tm ev x H. unfold stmt_triggers, find_triggers, triggers_for_table in H. repeat (apply filter_In in H; destruct H as [H _]). exact H. Qed.

  Lemma row_triggers_sub : forall trigs tt tm ev o n x, In x (row_triggers trigs tt tm ev o n) -> In x trigs.
  Proof. intros trigs tt tm ev o n x H. unfold row_triggers, find_triggers, triggers_for_table in H. repeat (apply filter_In in H; destruct H as [H _]). exact H. Qed.

  Lemma fire_stmt_frame : forall b tt tm ev d d' log r, ids d = ids d0 ->
    fire_stmt db run_body b (d_trigs d0) tt tm ev d = (d', log, r) -> get_table d' t = get_table d t.
  Proof.
    intros b tt tm ev d d' log r Hi H. unfold fire_stmt in H. destruct b; [|inversion H; reflexivity].
    eapply fire_list_frame; [|exact Hi|exact H]. apply stmt_triggers_sub.
  Qed.

  Lemma fire_row_frame : forall b tt tm ev o n d d' log r, ids d = ids d0 ->
    fire_row db run_body b (d_trigs d0) tt tm ev o n d = (d', log, r) -> get_table d' t = get_table d t.
  Proof.
    intros b tt tm ev o n d d' log r Hi H. unfold fire_row in H. destruct b; [|inversion H; reflexivity].
    eapply fire_list_frame; [|exact Hi|exact H]. apply row_triggers_sub.
  Qed.

  Lemma fire_rows_frame : forall b tt tm ev imgs k d d' log r, ids d = ids d0 ->
    fire_rows db run_body b (d_trigs d0) tt tm ev imgs k d = (d', log, r) -> get_table d' t = get_table d t.
  Proof.
    induction imgs as [|[o n] rest IH]; intros k d d' log r Hi H; cbn [fire_rows] in H.
    - inversion H; reflexivity.
    - destruct (fire_row db run_body b (d_trigs d0) tt tm ev o n d) as [[d1 l1] r1] eqn:E1.
      pose proof (ids_fire_row run_body Hids _ _ _ _ _ _ _ _ _ _ _ E1) as Hi1. apply fire_row_frame in E1; [|exact Hi].
      destruct r1; [inversion H; subst; exact E1|].
      destruct (fire_rows db run_body b (d_trigs d0) tt tm ev rest (S k) d1) as [[d2 l2] r2] eqn:E2.
      inversion H; subst. apply IH in E2; [congruence|congruence].
  Qed.

  Lemma opt_stmt_frame : forall b (ctx : tctx) tt tm ev d d' log r, ids d = ids d0 ->
    (if is_none ctx then fire_stmt db run_body b (d_trigs d0) tt tm ev d else (d, [], None)) = (d', log, r) ->
    get_table d' t = get_table d t.
  Proof. intros. destruct (is_none ctx); [eapply fire_stmt_frame; eauto|inversion H0; reflexivity]. Qed.

  (** *** INSERT, any path: every validated row is appended, in order *)
  Lemma insert_slow_rows : forall b rows k d d' log cnt tb, ids d = ids d0 ->
    insert_slow run_body b (d_trigs d0) t rows k d = (d', log, None, cnt) -> get_table d t = Some tb ->
    exists tb', get_table d' t = Some tb' /\ tb_rows tb' = tb_rows tb ++ rows /\ tb_schema tb' = tb_schema tb.
  Proof.
    induction rows as [|r0 rest IH]; intros k d d' log cnt tb Hi H Ht; cbn [insert_slow] in H.
    - inversion H; subst. exists tb. rewrite app_nil_r. auto.
    - unfold fireR in H.
      destruct (fire_row db run_body b (d_trigs d0) t Before EvInsert None (Some r0) d) as [[d1 l1] r1] eqn:E1.
      pose proof (ids_fire_row run_body Hids _ _ _ _ _ _ _ _ _ _ _ E1) as Hi1.
      apply fire_row_frame in E1; [|exact Hi]. destruct r1; [discriminate|].
      rewrite E1, Ht in H.
      destruct (fire_row db run_body b (d_trigs d0) t After EvInsert None (Some r0) (push_row d1 t r0)) as [[d3 l3] r3] eqn:E3.
      assert (Hi2 : ids (push_row d1 t r0) = ids d0) by (unfold push_row; rewrite ids_upd; [congruence|reflexivity]).
      pose proof (ids_fire_row run_body Hids _ _ _ _ _ _ _ _ _ _ _ E3) as Hi3.
      apply fire_row_frame in E3; [|exact Hi2]. destruct r3; [discriminate|].
      destruct (insert_slow run_body b (d_trigs d0) t rest (S k) d3) as [[[d4 l4] r4] k4] eqn:E4.
      inversion H; subst.
      assert (H3 : get_table d3 t = Some (table_insert tb r0)).
      { rewrite E3. unfold push_row. apply (get_table_upd d1 t (fun x => table_insert x r0) tb); [reflexivity|congruence]. }
      destruct (IH _ _ _ _ _ _ (eq_trans Hi3 Hi2) E4 H3) as (tb' & Hg & Hr & Hs).
      exists tb'. split; [exact Hg|]. split; [|rewrite Hs; reflexivity].
      rewrite Hr. unfold table_insert. cbn [tb_rows]. rewrite <- app_assoc. reflexivity.
  Qed.

  Theorem insert_rows_all_applied : forall b ctx tb rows d' log n vrows,
    do_insert_rows run_body b ctx d0 t tb rows = (d', log, Ok n) ->
    get_table d0 t = Some tb -> validate_rows d0 tb ctx rows 0 [] = inr vrows ->
    exists tb', get_table d' t = Some tb' /\ tb_rows tb' = tb_rows tb ++ vrows /\ n = length vrows.
  Proof.
    intros b ctx tb rows d' log n vrows H Ht Hv. unfold do_insert_rows in H.
    destruct (negb (forallb _ rows)); [discriminate|]. rewrite Hv in H. unfold fireS in H.
    destruct (if is_none ctx then fire_stmt db run_body b (d_trigs d0) t Before EvInsert d0 else (d0, [], None)) as [[d1 l1] r1] eqn:E1.
    pose proof (ids_opt_stmt run_body Hids _ _ _ _ _ _ _ _ _ _ E1) as Hi1.
    apply opt_stmt_frame in E1; [|reflexivity]. destruct r1; [discriminate|].
    assert (H1 : get_table d1 t = Some tb) by congruence.
    destruct (negb (negb (is_none (hd_error (triggers_for_table (d_trigs d0) t EvInsert)))) && (1 <? length vrows)).
    - destruct (if is_none ctx then fire_stmt db run_body b (d_trigs d0) t After EvInsert _ else _) as [[d3 l3] r3] eqn:E3.
      apply opt_stmt_frame in E3; [|rewrite ids_pushes; exact Hi1]. destruct r3; [discriminate|]. inversion H; subst.
      destruct (rows_after_pushes vrows d1 t tb H1) as (tb' & Hg & Hr).
      exists tb'. rewrite E3. auto.
    - destruct (insert_slow run_body b (d_trigs d0) t vrows 0 d1) as [[[d2 l2] r2] cnt] eqn:E2.
      destruct r2 as [[s c]|]; [discriminate|].
      pose proof (ids_insert_slow run_body Hids _ _ _ _ _ _ _ _ _ _ E2) as Hi2.
      destruct (if is_none ctx then fire_stmt db run_body b (d_trigs d0) t After EvInsert d2 else (d2, [], None)) as [[d3 l3] r3] eqn:E3.
      apply opt_stmt_frame in E3; [|congruence]. destruct r3; [discriminate|]. inversion H; subst.
      destruct (insert_slow_rows _ _ _ _ _ _ _ _ Hi1 E2 H1) as (tb' & Hg & Hr & _).
      exists tb'. rewrite E3. repeat split; auto.
      apply insert_slow_ok_cnt in E2. cbn in E2. exact E2.
  Qed.

  (** *** UPDATE: every planned row holds its NEW image afterwards, was its OLD image before, nothing else moved *)
  Theorem update_all_applied : forall b ctx asg w d' log n tb,
    do_update run_body b ctx d0 t asg w = (d', log, Ok n) ->
    wf d0 -> get_table d0 t = Some tb -> references t tb = [] ->
    exists d1 ups tb',
      update_plan ctx d1 tb asg w = inr ups /\ get_table d1 t = Some tb
      /\ n = length ups
      /\ get_table d' t = Some tb' /\ tb_rows tb' = apply_all ups (tb_rows tb)
      /\ length (tb_rows tb') = length (tb_rows tb)
      /\ (forall u, In u ups -> nth_error (tb_rows tb) (fst (fst u)) = Some (snd (fst u))
                               /\ nth_error (tb_rows tb') (fst (fst u)) = Some (snd u))
      /\ (forall j, (forall u, In u ups -> fst (fst u) <> j) -> nth_error (tb_rows tb') j = nth_error (tb_rows tb) j)
      /\ (forall fi, In fi log -> t_gran (f_trig fi) = GRow ->
                     exists u, In u ups /\ f_old fi = Some (snd (fst u)) /\ f_new fi = Some (snd u)).
  Proof.
    intros b ctx asg w d' log n tb H Hwf Ht Hself. unfold do_update in H. unfold fireS, fireRs in H.
    destruct (if is_none ctx then fire_stmt db run_body b (d_trigs d0) t Before (EvUpdate (Some (map fst asg))) d0 else (d0, [], None)) as [[d1 l1] r1] eqn:E1.
    pose proof (ids_opt_stmt run_body Hids _ _ _ _ _ _ _ _ _ _ E1) as Hi1.
    assert (Hwf1 : wf d1) by (apply (wf_ids d0); assumption).
    pose proof (opt_stmt_gran run_body _ _ _ _ _ _ _ _ _ _ E1) as G1.
    apply opt_stmt_frame in E1; [|reflexivity]. destruct r1; [discriminate|].
    assert (H1 : get_table d1 t = Some tb) by congruence. rewrite H1 in H.
    destruct (update_plan ctx d1 tb asg w) as [k|ups] eqn:Ep; [discriminate|].
    destruct (match s_pk (tb_schema tb) with
              | Some c0 => if match s_pk (tb_schema tb) with Some c1 => existsb (fun a => Nat.eqb (fst a) c1) asg | None => false end
                           then cascade_updates t c0 ups 0 d1 0 else (d1, None, 0)
              | None => (d1, None, 0) end) as [[d2 r2] m2] eqn:E2.
    assert (H2 : get_table d2 t = Some tb /\ ids d2 = ids d0).
    { destruct (s_pk (tb_schema tb)); [|inversion E2; subst; auto].
      destruct (existsb _ asg); [|inversion E2; subst; auto].
      split; [rewrite (cascade_updates_frame _ _ _ _ _ _ _ _ _ _ E2 Hwf1 H1 Hself); exact H1|].
      apply ids_cascade_updates in E2. congruence. }
    destruct H2 as [H2 Hi2].
    destruct r2; [discriminate|].
    destruct (fire_rows db run_body b (d_trigs d0) t Before (EvUpdate (Some (map fst asg))) (images ups) 0 d2) as [[d3 l3] r3] eqn:E3.
    pose proof (fire_rows_legit run_body _ _ _ _ _ _ _ _ _ _ _ E3 (or_introl eq_refl)) as L3.
    pose proof (ids_fire_rows run_body Hids _ _ _ _ _ _ _ _ _ _ _ E3) as Hi3.
    apply fire_rows_frame in E3; [|exact Hi2]. destruct r3 as [[k c]|]; [discriminate|].
    destruct (apply_updates t ups 0 d3) as [[d4 r4] m4] eqn:E4.
    destruct r4; [discriminate|].
    pose proof (ids_apply_updates _ _ _ _ _ _ _ E4) as Hi4.
    destruct (apply_updates_rows _ _ _ _ _ _ _ E4 (eq_trans E3 H2)) as (tb4 & Hg4 & Hr4 & Hs4).
    destruct (fire_rows db run_body b (d_trigs d0) t After (EvUpdate (Some (map fst asg))) (images ups) 0 d4) as [[d5 l5] r5] eqn:E5.
    pose proof (fire_rows_legit run_body _ _ _ _ _ _ _ _ _ _ _ E5 (or_intror eq_refl)) as L5.
    pose proof (ids_fire_rows run_body Hids _ _ _ _ _ _ _ _ _ _ _ E5) as Hi5.
    apply fire_rows_frame in E5; [|congruence]. destruct r5 as [[k c]|]; [discriminate|].
    destruct (if is_none ctx then fire_stmt db run_body b (d_trigs d0) t After (EvUpdate (Some (map fst asg))) d5 else (d5, [], None)) as [[d6 l6] r6] eqn:E6.
    pose proof (opt_stmt_gran run_body _ _ _ _ _ _ _ _ _ _ E6) as G6.
    apply opt_stmt_frame in E6; [|congruence]. destruct r6; [discriminate|].
    inversion H; subst.
    destruct (update_plan_shape _ _ _ _ _ _ Ep) as [Hsorted Hold].
    assert (Hlen : forall u, In u ups -> fst (fst u) < length (tb_rows tb)).
    { intros u Hu. apply Hold in Hu. apply nth_error_Some. congruence. }
    exists d1, ups, tb4. split; [exact Ep|]. split; [exact H1|]. split; [reflexivity|].
    split; [congruence|]. split; [exact Hr4|]. split; [rewrite Hr4; apply apply_all_length|].
    split; [|split].
    - intros u Hu. split; [apply Hold; exact Hu|]. rewrite Hr4. apply apply_all_images; auto.
    - intros j Hj. rewrite Hr4. apply apply_all_untouched. exact Hj.
    - assert (Himg : forall fi, In (f_old fi, f_new fi) (images ups) ->
                       exists u, In u ups /\ f_old fi = Some (snd (fst u)) /\ f_new fi = Some (snd u)).
      { intros fi Hin. unfold images in Hin. apply in_map_iff in Hin. destruct Hin as (u & Hu & Hin).
        exists u. inversion Hu. auto. }
      intros fi Hin Hg.
      repeat (apply in_app_or in Hin; destruct Hin as [Hin|Hin]).
      + exfalso. rewrite Forall_forall in G1. rewrite (G1 fi Hin) in Hg. discriminate.
      + rewrite Forall_forall in L3. destruct (L3 fi Hin) as (_ & Hi & _). apply Himg. exact Hi.
      + rewrite Forall_forall in L5. destruct (L5 fi Hin) as (_ & Hi & _). apply Himg. exact Hi.
      + exfalso. rewrite Forall_forall in G6. rewrite (G6 fi Hin) in Hg. discriminate.
  Qed.

  (** *** DELETE: exactly the selected rows are gone *)
  Theorem delete_all_applied : forall b ctx w d' log n tb,
    do_delete run_body b ctx d0 t w = (d', log, Ok n) ->
    wf d0 -> get_table d0 t = Some tb -> references t tb = [] ->
    exists tb', get_table d' t = Some tb'
      /\ tb_rows tb' = map snd (filter (fun ir => negb (selected ctx w ir)) (indexed 0 (tb_rows tb)))
      /\ n = length (filter (selected ctx w) (indexed 0 (tb_rows tb))).
  Proof.
    intros b ctx w d' log n tb H Hwf Ht Hself. unfold do_delete in H. rewrite Ht in H.
    destruct (is_none w && can_use_truncate d0 t) eqn:Etr.
    - inversion H; subst. apply andb_prop in Etr. destruct Etr as [Hw _]. destruct w; [discriminate|].
      exists (mkTable (tb_id tb) (tb_schema tb) [] app0). split.
      + unfold clear_table. apply (get_table_upd d0 t (fun x => mkTable (tb_id x) (tb_schema x) [] app0) tb); [reflexivity|exact Ht].
      + cbn [tb_rows]. unfold selected. split.
        * induction (indexed 0 (tb_rows tb)); cbn; auto.
        * rewrite <- (indexed_length (tb_rows tb) 0). induction (indexed 0 (tb_rows tb)); cbn; auto.
    - unfold collect_rows in H. unfold fireS, fireRs in H.
      destruct (if is_none ctx then fire_stmt db run_body b (d_trigs d0) t Before EvDelete d0 else (d0, [], None)) as [[d1 l1] r1] eqn:E1.
      pose proof (ids_opt_stmt run_body Hids _ _ _ _ _ _ _ _ _ _ E1) as Hi1. apply opt_stmt_frame in E1; [|reflexivity].
      destruct r1; [discriminate|].
      match type of H with context [fire_rows db run_body b (d_trigs d0) t Before EvDelete ?im 0 d1] =>
        destruct (fire_rows db run_body b (d_trigs d0) t Before EvDelete im 0 d1) as [[d2 l2] r2] eqn:E2 end.
      pose proof (ids_fire_rows run_body Hids _ _ _ _ _ _ _ _ _ _ _ E2) as Hi2. apply fire_rows_frame in E2; [|exact Hi1].
      destruct r2 as [[k c]|]; [discriminate|].
      assert (H2 : get_table d2 t = Some tb) by congruence.
      assert (Hwf2 : wf d2) by (apply (wf_ids d0); [congruence|exact Hwf]).
      destruct (match s_pk (tb_schema tb) with
                | Some c0 => cascade_deletes t c0 (filter (selected ctx w) (indexed 0 (tb_rows tb))) 0 d2 0
                | None => (d2, None, 0) end) as [[d3 r3] m3] eqn:E3.
      assert (H3 : get_table d3 t = Some tb /\ ids d3 = ids d0).
      { destruct (s_pk (tb_schema tb)); [|inversion E3; subst; split; [exact H2|congruence]].
        split; [rewrite (cascade_deletes_frame _ _ _ _ _ _ _ _ _ _ E3 Hwf2 H2 Hself); exact H2|].
        apply ids_cascade_deletes in E3. congruence. }
      destruct H3 as [H3 Hi3].
      destruct r3; [discriminate|]. rewrite H3 in H.
      match type of H with context [fire_rows db run_body b (d_trigs d0) t After EvDelete ?im 0 ?dd] =>
        destruct (fire_rows db run_body b (d_trigs d0) t After EvDelete im 0 dd) as [[d5 l5] r5] eqn:E5 end.
      pose proof (ids_fire_rows run_body Hids _ _ _ _ _ _ _ _ _ _ _ E5) as Hi5.
      apply fire_rows_frame in E5; [|unfold set_rows; rewrite ids_upd; [exact Hi3|reflexivity]].
      destruct r5 as [[k c]|]; [discriminate|].
      match type of H with context [if is_none ctx then fire_stmt db run_body b (d_trigs d0) t After EvDelete ?dd else _] =>
        destruct (if is_none ctx then fire_stmt db run_body b (d_trigs d0) t After EvDelete dd else (dd, [], None)) as [[d6 l6] r6] eqn:E6 end.
      apply opt_stmt_frame in E6; [|rewrite Hi5; unfold set_rows; rewrite ids_upd; [exact Hi3|reflexivity]].
      destruct r6; [discriminate|]. inversion H; subst.
      rewrite delete_indices_filter in *.
      eexists. split.
      + rewrite E6, E5. unfold set_rows.
        apply (get_table_upd d3 t (fun x => mkTable (tb_id x) (tb_schema x) _ (tb_app x)) tb); [reflexivity|exact H3].
      + cbn [tb_rows]. split; [reflexivity|].
        rewrite map_length. pose proof (filter_length_split (selected ctx w) (indexed 0 (tb_rows tb))) as Hs.
        rewrite indexed_length in Hs. lia.
  Qed.
End Frame.

(** ** The recursive instance.  [frame_on f d t]: run at depth [f] on any database that has [d]'s tables and
    triggers, the body of a trigger of [d] does not touch table [t]. *)
Definition frame_on (f : nat) (d : db) (t : nat) : Prop :=
  forall tr o n d1 d2 r,
    In tr (d_trigs d) -> ids d1 = ids d -> body_runner f tr o n d1 = (d2, r) -> get_table d2 t = get_table d1 t.

Theorem exec_insert_all_applied : forall f ctx d t tb rows d' log n vrows,
  exec (S f) ctx d (SInsert t true rows) = (d', log, Ok n) -> frame_on f d t ->
  get_table d t = Some tb -> validate_rows d tb ctx rows 0 [] = inr vrows ->
  exists tb', get_table d' t = Some tb' /\ tb_rows tb' = tb_rows tb ++ vrows /\ n = length vrows.
Proof.
  intros f ctx d t tb rows d' log n vrows H Hfr Ht Hv. cbn [exec step_dml] in H. unfold do_insert in H. rewrite Ht in H.
  eapply (insert_rows_all_applied (body_runner f) t d); eauto. intros; eapply ids_body_runner; eauto.
Qed.

Theorem exec_update_all_applied : forall f ctx d t asg w d' log n tb,
  exec (S f) ctx d (SUpdate t asg w) = (d', log, Ok n) -> frame_on f d t ->
  wf d -> get_table d t = Some tb -> references t tb = [] ->
  exists d1 ups tb',
    update_plan ctx d1 tb asg w = inr ups /\ get_table d1 t = Some tb
    /\ n = length ups
    /\ get_table d' t = Some tb' /\ tb_rows tb' = apply_all ups (tb_rows tb)
    /\ length (tb_rows tb') = length (tb_rows tb)
    /\ (forall u, In u ups -> nth_error (tb_rows tb) (fst (fst u)) = Some (snd (fst u))
                             /\ nth_error (tb_rows tb') (fst (fst u)) = Some (snd u))
    /\ (forall j, (forall u, In u ups -> fst (fst u) <> j) -> nth_error (tb_rows tb') j = nth_error (tb_rows tb) j)
    /\ (forall fi, In fi log -> t_gran (f_trig fi) = GRow ->
                   exists u, In u ups /\ f_old fi = Some (snd (fst u)) /\ f_new fi = Some (snd u)).
Proof.
  intros f ctx d t asg w d' log n tb H Hfr Hwf Ht Hself. cbn [exec step_dml] in H.
  eapply (update_all_applied (body_runner f) t d); eauto. intros; eapply ids_body_runner; eauto.
Qed.

Theorem exec_delete_all_applied : forall f ctx d t w d' log n tb,
  exec (S f) ctx d (SDelete t w) = (d', log, Ok n) -> frame_on f d t ->
  wf d -> get_table d t = Some tb -> references t tb = [] ->
  exists tb', get_table d' t = Some tb'
    /\ tb_rows tb' = map snd (filter (fun ir => negb (selected ctx w ir)) (indexed 0 (tb_rows tb)))
    /\ n = length (filter (selected ctx w) (indexed 0 (tb_rows tb))).
Proof.
  intros f ctx d t w d' log n tb H Hfr Hwf Ht Hself. cbn [exec step_dml] in H.
  eapply (delete_all_applied (body_runner f) t d); eauto. intros; eapply ids_body_runner; eauto.
Qed.

(** the frame condition is satisfiable by databases whose triggers do real work: every trigger body is one INSERT
    into a table [a <> t] on which no INSERT trigger is defined (the audit-table pattern of the harness) *)
Definition audit_bodies (d : db) (a : nat) : Prop :=
  triggers_for_table (d_trigs d) a EvInsert = []
  /\ forall tr, In tr (d_trigs d) -> exists ok rows, t_body tr = [SInsert a ok rows].

Lemma get_table_pushes_other : forall rows d a t, a <> t ->
  get_table (fold_left (fun d1 r => push_row d1 a r) rows d) t = get_table d t.
Proof.
  induction rows as [|r rest IH]; intros d a t Hne; cbn [fold_left]; [reflexivity|].
  rewrite IH by exact Hne. unfold push_row. apply get_table_upd_other; [exact Hne|reflexivity].
Qed.

Theorem audit_bodies_frame : forall f d a t, audit_bodies d a -> a <> t -> frame_on (S f) d t.
Proof.
  intros f d a t [Hno Hb] Hne tr o n d1 d2 r Hin Hi Hr.
  destruct (Hb tr Hin) as (ok & rows & Hbody). unfold body_runner in Hr. rewrite Hbody in Hr. cbn [run_stmts] in Hr.
  destruct (exec (S f) (Some (o, n)) d1 (SInsert a ok rows)) as [[d3 l] oo] eqn:E.
  assert (Hd : get_table d3 t = get_table d1 t).
  { destruct (get_table d1 a) as [tba|] eqn:Ea.
    - assert (Hno1 : triggers_for_table (d_trigs d1) a EvInsert = []) by (rewrite (ids_trigs _ _ Hi); exact Hno).
      destruct (exec_insert_no_triggers_atomic _ _ _ _ _ _ _ _ _ _ E Ea Hno1) as [_ Ho].
      destruct oo as [k|s c m].
      + destruct Ho as (vrows & _ & _ & Hd3). subst d3. apply get_table_pushes_other. exact Hne.
      + destruct Ho as [Hd3 _]. subst d3. reflexivity.
    - cbn [exec step_dml] in E. unfold do_insert in E. rewrite Ea in E. inversion E; reflexivity. }
  destruct oo; inversion Hr; subst; exact Hd.
Qed.

(** ** INSERT ... SELECT through the normal path: the same specification list, over the rows in SELECT order *)
Theorem exec_insert_select_fires_once : forall f ctx d t src star dst s d' log n vrows,
  exec (S f) ctx d (SInsertSel t src star) = (d', log, Ok n) ->
  get_table d t = Some dst -> get_table d src = Some s ->
  star && is_none (hd_error (triggers_for_table (d_trigs d) t EvInsert)) && bulk_eligible dst s = false ->
  validate_rows d dst ctx (map (map ELit) (select_order (tb_rows s))) 0 [] = inr vrows ->
  log = spec_insert ctx (d_trigs d) t vrows /\ n = length vrows.
Proof.
  intros f ctx d t src star dst s d' log n vrows H Ht Hs Hb Hv. cbn [exec step_dml] in H.
  unfold do_insert_select in H. rewrite Ht, Hs, Hb in H.
  destruct (Nat.eqb _ _); [|discriminate]. eapply insert_rows_fires_once; eauto.
Qed.

(** ** The images of INSERT and DELETE row triggers *)
Lemma spec_row_in : forall trigs t tm ev img fi, In fi (spec_row trigs t tm ev img) -> f_old fi = fst img /\ f_new fi = snd img.
Proof. intros trigs t tm ev img fi H. unfold spec_row in H. apply fired_in in H. tauto. Qed.

Lemma fired_gran_stmt : forall trigs t tm ev fi,
  In fi (fired (stmt_triggers trigs t tm ev) None None) -> t_gran (f_trig fi) = GStmt.
Proof.
  intros trigs t tm ev fi H. apply fired_in in H. destruct H as (Hi & _). unfold stmt_triggers in Hi.
  apply filter_In in Hi. destruct Hi as [_ Hg]. apply gran_eqb_true in Hg. exact Hg.
Qed.

Lemma spec_stmt_gran : forall ctx trigs t tm ev fi, In fi (spec_stmt ctx trigs t tm ev) -> t_gran (f_trig fi) = GStmt.
Proof. intros ctx trigs t tm ev fi H. unfold spec_stmt in H. destruct (is_none ctx); [eapply fired_gran_stmt; eauto|contradiction]. Qed.

(** a row trigger of a successful INSERT saw no OLD row and as NEW one of the rows the statement appended *)
Theorem exec_insert_images : forall f ctx d t tb rows d' log n vrows,
  exec (S f) ctx d (SInsert t true rows) = (d', log, Ok n) -> frame_on f d t ->
  get_table d t = Some tb -> validate_rows d tb ctx rows 0 [] = inr vrows ->
  exists tb', get_table d' t = Some tb' /\ tb_rows tb' = tb_rows tb ++ vrows /\
    forall fi, In fi log -> t_gran (f_trig fi) = GRow ->
      f_old fi = None /\ exists r, f_new fi = Some r /\ In r vrows /\ In r (tb_rows tb').
Proof.
  intros f ctx d t tb rows d' log n vrows H Hfr Ht Hv.
  destruct (exec_insert_all_applied _ _ _ _ _ _ _ _ _ _ H Hfr Ht Hv) as (tb' & Hg & Hr & _).
  destruct (exec_insert_fires_once _ _ _ _ _ _ _ _ _ _ H Ht Hv) as [Hl _].
  exists tb'. split; [exact Hg|]. split; [exact Hr|]. intros fi Hin Hgr. subst log. unfold spec_insert in Hin.
  apply in_app_or in Hin. destruct Hin as [Hin|Hin]; [apply spec_stmt_gran in Hin; congruence|].
  apply in_app_or in Hin. destruct Hin as [Hin|Hin]; [|apply spec_stmt_gran in Hin; congruence].
  apply in_flat_map in Hin. destruct Hin as (r & Hr0 & Hin).
  apply in_app_or in Hin. destruct Hin as [Hin|Hin]; apply spec_row_in in Hin; cbn [fst snd] in Hin; destruct Hin as [Ho Hn];
    (split; [exact Ho|]; exists r; split; [exact Hn|]; split; [exact Hr0|]; rewrite Hr; apply in_or_app; right; exact Hr0).
Qed.

(** a row trigger of a successful DELETE saw no NEW row and as OLD a row that was stored and selected; afterwards
    exactly the unselected rows remain *)
Theorem exec_delete_images : forall f ctx d t w d' log n tb,
  exec (S f) ctx d (SDelete t w) = (d', log, Ok n) -> frame_on f d t ->
  wf d -> get_table d t = Some tb -> references t tb = [] ->
  exists tb', get_table d' t = Some tb'
    /\ tb_rows tb' = map snd (filter (fun ir => negb (selected ctx w ir)) (indexed 0 (tb_rows tb)))
    /\ forall fi, In fi log -> t_gran (f_trig fi) = GRow ->
         f_new fi = None /\ exists i r, f_old fi = Some r /\ nth_error (tb_rows tb) i = Some r /\ selected ctx w (i, r) = true.
Proof.
  intros f ctx d t w d' log n tb H Hfr Hwf Ht Hself.
  destruct (exec_delete_all_applied _ _ _ _ _ _ _ _ _ H Hfr Hwf Ht Hself) as (tb' & Hg & Hr & _).
  pose proof (exec_delete_fires_once _ _ _ _ _ _ _ _ _ H Ht) as Hl.
  exists tb'. split; [exact Hg|]. split; [exact Hr|]. intros fi Hin Hgr. subst log. unfold spec_two_pass in Hin.
  assert (Himg : forall tm, In fi (flat_map (spec_row (d_trigs d) t tm EvDelete) (delete_images ctx tb w)) ->
            f_new fi = None /\ exists i r, f_old fi = Some r /\ nth_error (tb_rows tb) i = Some r /\ selected ctx w (i, r) = true).
  { intros tm Hf. apply in_flat_map in Hf. destruct Hf as (img & Him & Hf). apply spec_row_in in Hf. destruct Hf as [Ho Hn].
    unfold delete_images, collect_rows in Him. apply in_map_iff in Him. destruct Him as ([i r] & Heq & Hir). subst img.
    cbn [fst snd] in *. apply filter_In in Hir. destruct Hir as [Hir Hsel]. apply indexed_nth in Hir. rewrite Nat.sub_0_r in Hir.
    split; [exact Hn|]. exists i, r. tauto. }
  apply in_app_or in Hin. destruct Hin as [Hin|Hin]; [apply spec_stmt_gran in Hin; congruence|].
  apply in_app_or in Hin. destruct Hin as [Hin|Hin]; [eapply Himg; eauto|].
  apply in_app_or in Hin. destruct Hin as [Hin|Hin]; [eapply Himg; eauto|apply spec_stmt_gran in Hin; congruence].
Qed.

(** C34: what a row trigger of a successful UPDATE saw as OLD is the row stored at that position before the statement,
    and what it saw as NEW is the row stored there afterwards *)
Theorem exec_update_images_pre_post : forall f ctx d t asg w d' log n tb,
  exec (S f) ctx d (SUpdate t asg w) = (d', log, Ok n) -> frame_on f d t ->
  wf d -> get_table d t = Some tb -> references t tb = [] ->
  exists tb', get_table d' t = Some tb' /\
    forall fi, In fi log -> t_gran (f_trig fi) = GRow ->
      exists i old new, f_old fi = Some old /\ f_new fi = Some new
                        /\ nth_error (tb_rows tb) i = Some old /\ nth_error (tb_rows tb') i = Some new.
Proof.
  intros f ctx d t asg w d' log n tb H Hfr Hwf Ht Hself.
  destruct (exec_update_all_applied _ _ _ _ _ _ _ _ _ _ H Hfr Hwf Ht Hself)
    as (d1 & ups & tb' & _ & _ & _ & Hg & _ & _ & Him & _ & Hfi).
  exists tb'. split; [exact Hg|]. intros fi Hin Hgr. destruct (Hfi fi Hin Hgr) as (u & Hu & Ho & Hn).
  destruct (Him u Hu) as [Hpre Hpost]. exists (fst (fst u)), (snd (fst u)), (snd u). auto.
Qed.
