(** C12 laws, part 3: INSERT, TRUNCATE, DROP TABLE, ALTER TABLE ADD FOREIGN KEY. *)
From Coq Require Import List ZArith Bool Arith Lia.
From VibeSQL Require Import Store.Fk Store.FkLaws Store.FkDeleteLaws.
Import ListNotations.

(* ------------------------------------------------------------------------------------ *)
(** * Column-order collection = declaration order for ascending column lists *)

Lemma strictly_ascending_tail : forall a l, strictly_ascending (a :: l) = true ->
  strictly_ascending l = true /\ forall x, In x l -> a < x.
Proof.
  intros a l. revert a. induction l as [|b l IH]; intros a H; cbn in *.
  - split; [reflexivity|intros x []].
  - apply andb_true_iff in H. destruct H as [H1 H2]. apply Nat.ltb_lt in H1.
    split; [exact H2|]. intros x [->|Hx]; [exact H1|].
    destruct (IH b H2) as [_ H3]. specialize (H3 x Hx). lia.
Qed.

Lemma nat_mem_false : forall n l, nat_mem n l = false <-> ~ In n l.
Proof.
  intros n l. split; intros H.
  - intros HI. apply nat_mem_In in HI. congruence.
  - destruct (nat_mem n l) eqn:E; [|reflexivity]. apply nat_mem_In in E. contradiction.
Qed.

Lemma filter_seq_asc : forall n l a,
  strictly_ascending l = true -> (forall x, In x l -> a <= x < a + n) ->
  filter (fun c => nat_mem c l) (seq a n) = l.
Proof.
  induction n as [|n IH]; intros l a HA HR; cbn.
  - destruct l as [|x l]; [reflexivity|]. specialize (HR x (or_introl eq_refl)). lia.
  - destruct l as [|x l].
    + cbn. apply (IH [] (S a)); [reflexivity|intros x []].
    + destruct (strictly_ascending_tail x l HA) as [HA' HL].
      destruct (Nat.eq_dec x a) as [->|Hne].
      * assert (E : nat_mem a (a :: l) = true) by (apply nat_mem_In; left; reflexivity). rewrite E. f_equal.
        transitivity (filter (fun c => nat_mem c l) (seq (S a) n)).
        -- apply filter_ext_in. intros c Hc. apply in_seq in Hc. unfold nat_mem. cbn.
           destruct (Nat.eqb c a) eqn:Ec; [apply Nat.eqb_eq in Ec; lia|reflexivity].
        -- apply IH; [exact HA'|]. intros y Hy. specialize (HL y Hy). specialize (HR y (or_intror Hy)). lia.
      * assert (E : nat_mem a (x :: l) = false).
        { apply nat_mem_false. intros [H|H]; [congruence|]. specialize (HL a H).
          specialize (HR x (or_introl eq_refl)). lia. }
        rewrite E. apply IH; [exact HA|]. intros y Hy. pose proof (HR y Hy) as HRy.
        pose proof (HR x (or_introl eq_refl)) as HRx.
        destruct Hy as [<-|Hy]; [lia|]. specialize (HL y Hy). lia.
Qed.

Lemma proj_colorder_asc : forall cols r,
  strictly_ascending cols = true -> (forall c, In c cols -> c < length r) ->
  proj_colorder cols r = proj cols r.
Proof.
  intros cols r HA HR. unfold proj_colorder, proj. rewrite filter_seq_asc; [reflexivity|exact HA|].
  intros x Hx. specialize (HR x Hx). lia.
Qed.

(* ------------------------------------------------------------------------------------ *)
(** * Parent lookup *)

Lemma zip_match_proj : forall pcols vs prow,
  length pcols = length vs -> zip_match pcols vs prow = true -> proj pcols prow = vs.
Proof.
  induction pcols as [|pc pcols IH]; intros [|v vs] prow HL HZ; cbn in *; try discriminate; [reflexivity|].
  destruct (nth_error prow pc) as [x|] eqn:E; [|discriminate].
  apply andb_true_iff in HZ. destruct HZ as [H1 H2]. apply val_eqb_eq in H1. subst x.
  f_equal; [erewrite nth_error_nth by exact E; reflexivity|]. apply IH; [lia|exact H2].
Qed.

Lemma proj_zip_match : forall pcols prow,
  (forall c, In c pcols -> c < length prow) -> zip_match pcols (proj pcols prow) prow = true.
Proof.
  induction pcols as [|pc pcols IH]; intros prow H; [reflexivity|].
  assert (Hpc : pc < length prow) by (apply H; left; reflexivity).
  unfold proj. cbn [map zip_match].
  destruct (nth_error prow pc) as [x|] eqn:E.
  - erewrite nth_error_nth by exact E. apply andb_true_iff. split; [apply val_eqb_eq; reflexivity|].
    apply IH. intros c Hc. apply H. right. exact Hc.
  - apply nth_error_None in E. lia.
Qed.

Lemma key_exists_In : forall fk vs prows,
  length (fk_pcols fk) = length vs -> key_exists fk vs prows = true ->
  exists pr, In pr prows /\ proj (fk_pcols fk) pr = vs.
Proof.
  intros fk vs prows HL H. unfold key_exists in H. apply existsb_exists in H.
  destruct H as [pr [Hin Hz]]. exists pr. split; [exact Hin|]. apply zip_match_proj; assumption.
Qed.

Lemma fk_validate_none : forall tuple d fks r,
  fk_validate tuple d fks r = None ->
  forall fk, In fk fks -> has_null (tuple (fk_cols fk) r) = true \/
     exists pt, get_table d (fk_parent fk) = Some pt /\ key_exists fk (tuple (fk_cols fk) r) (t_rows pt) = true.
Proof.
  intros tuple d fks r. induction fks as [|fk0 fks IH]; intros H fk Hin; [contradiction|].
  cbn in H. destruct (has_null (tuple (fk_cols fk0) r)) eqn:En.
  - destruct Hin as [->|Hin]; [left; exact En|]. apply IH; assumption.
  - destruct (get_table d (fk_parent fk0)) as [pt|] eqn:G; [|discriminate].
    destruct (key_exists fk0 (tuple (fk_cols fk0) r) (t_rows pt)) eqn:Ek; [|discriminate].
    destruct Hin as [->|Hin]; [right; exists pt; auto|]. apply IH; assumption.
Qed.

(** a row of table [ct] that passed the foreign-key validation has its parents (standard schema) *)
Lemma validated_row_has_parents : forall tuple d ct r,
  inv d -> In ct d -> (forall fk, In fk (t_fks ct) -> tuple (fk_cols fk) r = proj (fk_cols fk) r) ->
  fk_validate tuple d (t_fks ct) r = None ->
  forall fk, In fk (t_fks ct) -> has_null (proj (fk_cols fk) r) = false ->
    exists pt pr, get_table d (fk_parent fk) = Some pt /\ In pr (t_rows pt)
                  /\ proj (fk_pcols fk) pr = proj (fk_cols fk) r.
Proof.
  intros tuple d ct r I Hct HT HV fk Hfk HN.
  destruct (fk_validate_none _ _ _ _ HV fk Hfk) as [H|[pt [G Hk]]]; rewrite (HT fk Hfk) in *; [congruence|].
  destruct (fk_standard_parent d ct fk (std_fk _ _ _ (inv_std _ I) Hct Hfk)) as [pt2 [G2 [_ HL]]].
  assert (HL2 : length (fk_pcols fk) = length (proj (fk_cols fk) r)) by (unfold proj; rewrite map_length; lia).
  destruct (key_exists_In fk _ _ HL2 Hk) as [pr [Hin Hp]].
  exists pt, pr. auto.
Qed.

(* ------------------------------------------------------------------------------------ *)
(** * INSERT *)

Lemma In_set_rows : forall d n rs x,
  In x (set_rows d n rs) <->
  (exists y, In y d /\ t_name y = n /\ x = with_rows y rs) \/ (In x d /\ t_name x <> n).
Proof.
  intros d n rs x. unfold set_rows. rewrite in_map_iff. split.
  - intros [y [E Hy]]. destruct (Nat.eqb (t_name y) n) eqn:En.
    + apply Nat.eqb_eq in En. left. exists y. auto.
    + apply Nat.eqb_neq in En. right. subst x. auto.
  - intros [[y [Hy [Hn ->]]]|[Hx Hn]].
    + exists y. rewrite <- Hn, Nat.eqb_refl. auto.
    + exists x. apply Nat.eqb_neq in Hn. rewrite Hn. auto.
Qed.

Lemma NoDup_app_intro : forall {A} (a b : list A),
  NoDup a -> NoDup b -> (forall x, In x a -> ~ In x b) -> NoDup (a ++ b).
Proof.
  intros A a b Ha Hb H. induction Ha as [|x a Hx Ha IH]; cbn; [exact Hb|].
  constructor.
  - intros HI. apply in_app_or in HI. destruct HI as [HI|HI]; [contradiction|].
    apply (H x); [left; reflexivity|exact HI].
  - apply IH. intros y Hy. apply H. right. exact Hy.
Qed.

Lemma notnull_pk_nonnull : forall t pk r,
  notnull_okb t r = true -> (forall c, In c pk -> c < ncols t /\ col_nullable t c = false) ->
  has_null (proj pk r) = false.
Proof.
  intros t pk r Hn Hpk. unfold has_null, proj.
  destruct (existsb is_null (map (fun c => nth c r None) pk)) eqn:E; [|reflexivity].
  apply existsb_exists in E. destruct E as [v [Hv Hnull]]. apply in_map_iff in Hv.
  destruct Hv as [c [Ec Hc]]. destruct (Hpk c Hc) as [H1 H2].
  pose proof (notnull_okb_nth t r c Hn H1 H2) as X. subst v. destruct (nth c r None); [discriminate|contradiction].
Qed.

Lemma insert_validate_none : forall d tb rs batch,
  insert_validate d tb batch rs = None ->
  Forall (fun r => length r = ncols tb /\ notnull_okb tb r = true
                   /\ fk_validate proj d (t_fks tb) r = None) rs
  /\ (forall pk, t_pk tb = Some pk ->
        NoDup (map (proj pk) rs) /\
        forall r, In r rs -> ~ In (proj pk r) batch
                             /\ ~ In (proj pk r) (map (proj pk) (t_rows tb))).
Proof.
  intros d tb rs. induction rs as [|r rs IH]; intros batch H.
  - split; [constructor|]. intros pk _. split; [constructor|intros r []].
  - cbn [insert_validate] in H.
    destruct (Nat.eqb (length r) (ncols tb)) eqn:El; cbn [negb] in H; [|discriminate].
    destruct (notnull_okb tb r) eqn:En; cbn [negb] in H; [|discriminate].
    apply Nat.eqb_eq in El.
    destruct (t_pk tb) as [pk|] eqn:Epk.
    + destruct (key_mem (proj pk r) batch || key_mem (proj pk r) (map (proj pk) (t_rows tb))) eqn:Ed;
        [discriminate|].
      destruct (fk_validate proj d (t_fks tb) r) eqn:Ef; [discriminate|].
      apply orb_false_iff in Ed. destruct Ed as [Ed1 Ed2].
      apply key_mem_false in Ed1. apply key_mem_false in Ed2.
      destruct (IH _ H) as [F K]. split; [constructor; auto|].
      intros pk0 E0. inversion E0; subst pk0. destruct (K pk eq_refl) as [ND KK]. split.
      * cbn. constructor; [|exact ND]. intros HI. apply in_map_iff in HI. destruct HI as [x [Ex Hx]].
        destruct (KK x Hx) as [K1 _]. apply K1. left. symmetry. exact Ex.
      * intros x [->|Hx]; [auto|]. destruct (KK x Hx) as [K1 K2]. split; [|exact K2].
        intros HI. apply K1. right. exact HI.
    + destruct (fk_validate proj d (t_fks tb) r) eqn:Ef; [discriminate|].
      destruct (IH _ H) as [F K]. split; [constructor; auto|]. intros pk0 E0. discriminate.
Qed.

Lemma apply_defaults_length : forall tb c r, length (apply_defaults_from tb c r) = length r.
Proof. intros tb c r. revert c. induction r; intros c; cbn; auto. Qed.

(** appending rows that have the right arity, fresh NULL-free keys and all their parents *)
Lemma append_rows_ok : forall d t tb rs,
  inv d -> RI d -> get_table d t = Some tb ->
  (forall r, In r rs -> length r = ncols tb) ->
  (forall pk, t_pk tb = Some pk ->
     NoDup (map (proj pk) rs) /\
     forall r, In r rs -> ~ In (proj pk r) (map (proj pk) (t_rows tb)) /\ has_null (proj pk r) = false) ->
  (forall r fk, In r rs -> In fk (t_fks tb) -> has_null (proj (fk_cols fk) r) = false ->
     exists pt pr, get_table d (fk_parent fk) = Some pt /\ In pr (t_rows pt)
                   /\ proj (fk_pcols fk) pr = proj (fk_cols fk) r) ->
  inv (set_rows d t (t_rows tb ++ rs)) /\ RI (set_rows d t (t_rows tb ++ rs)).
Proof.
  intros d t tb rs I R G HA HK HP.
  pose proof (get_table_In _ _ _ G) as [Gin Gn].
  assert (SS : sames d (set_rows d t (t_rows tb ++ rs))) by apply set_rows_sames.
  assert (ONE : forall y, In y d -> t_name y = t -> y = tb).
  { intros y Hy Hn. pose proof (In_get_table _ _ (inv_names _ I) Hy) as Gy. rewrite Hn in Gy. congruence. }
  assert (I' : inv (set_rows d t (t_rows tb ++ rs))).
  { constructor.
    - rewrite names_set_rows. apply inv_names. exact I.
    - intros x row Hx Hrow. apply In_set_rows in Hx. destruct Hx as [[y [Hy [Hn ->]]]|[Hx Hn]].
      + rewrite (ONE y Hy Hn) in *. cbn in Hrow. apply in_app_or in Hrow. destruct Hrow as [Hrow|Hrow].
        * apply (inv_arity _ I tb); assumption.
        * apply (HA row Hrow).
      + apply (inv_arity _ I x); assumption.
    - rewrite (schema_standard_sames _ _ SS). apply inv_std. exact I.
    - intros x pk Hx Hpk. apply In_set_rows in Hx. destruct Hx as [[y [Hy [Hn ->]]]|[Hx Hn]].
      + rewrite (ONE y Hy Hn) in *. cbn in *. rewrite map_app. destruct (HK pk Hpk) as [ND KK].
        apply NoDup_app_intro.
        * apply (inv_keys _ I tb pk Gin Hpk).
        * exact ND.
        * intros k Hk1 Hk2. apply in_map_iff in Hk2. destruct Hk2 as [x [Ex Hx]].
          destruct (KK x Hx) as [K2 _]. apply K2. rewrite Ex. exact Hk1.
      + apply (inv_keys _ I x pk Hx Hpk).
    - eapply pk_cols_ok_sames; [exact SS|apply inv_pkcols; exact I].
    - intros x pk row Hx Hpk Hrow. apply In_set_rows in Hx. destruct Hx as [[y [Hy [Hn ->]]]|[Hx Hn]].
      + rewrite (ONE y Hy Hn) in *. cbn in *. apply in_app_or in Hrow. destruct Hrow as [Hrow|Hrow].
        * apply (inv_pknn _ I tb pk row Gin Hpk Hrow).
        * apply (HK pk Hpk). exact Hrow.
      + apply (inv_pknn _ I x pk row Hx Hpk Hrow). }
  split; [exact I'|].
  assert (PARENT : forall fk vs, (exists pt pr, get_table d (fk_parent fk) = Some pt /\ In pr (t_rows pt)
                                  /\ proj (fk_pcols fk) pr = vs) ->
            exists pt pr, get_table (set_rows d t (t_rows tb ++ rs)) (fk_parent fk) = Some pt /\ In pr (t_rows pt)
                                  /\ proj (fk_pcols fk) pr = vs).
  { intros fk vs [pt [pr [Gp [Hpr Ek]]]]. rewrite get_set_rows. destruct (Nat.eqb t (fk_parent fk)) eqn:Et.
    - apply Nat.eqb_eq in Et. rewrite <- Et in Gp. rewrite G in Gp. inversion Gp; subst pt.
      rewrite <- Et, G. cbn. exists (with_rows tb (t_rows tb ++ rs)), pr. cbn. split; [reflexivity|].
      split; [apply in_or_app; left; exact Hpr|exact Ek].
    - exists pt, pr. auto. }
  intros ct fk row Hct Hfk Hrow HN. apply In_set_rows in Hct. destruct Hct as [[y [Hy [Hn ->]]]|[Hx Hn]].
  - rewrite (ONE y Hy Hn) in *. cbn in *. apply PARENT. apply in_app_or in Hrow. destruct Hrow as [Hrow|Hrow].
    + apply (R tb fk row Gin Hfk Hrow HN).
    + apply HP; assumption.
  - apply PARENT. apply (R ct fk row Hx Hfk Hrow HN).
Qed.

Theorem exec_insert_ok : forall d t rs0 d' ev r,
  inv d -> RI d -> exec_insert d t rs0 = ((d', ev), r) -> ev = [] /\ inv d' /\ RI d'.
Proof.
  intros d t rs0 d' ev r I R E. unfold exec_insert in E.
  destruct (get_table d t) as [tb|] eqn:G; [|inversion E; subst; auto].
  set (rs := map (apply_defaults_from tb 0) rs0) in *.
  destruct (insert_validate d tb [] rs) as [e|] eqn:V; [inversion E; subst; auto|].
  inversion E; subst d' ev r. clear E. split; [reflexivity|].
  destruct (insert_validate_none _ _ _ _ V) as [F K]. rewrite Forall_forall in F.
  pose proof (get_table_In _ _ _ G) as [Gin Gn].
  apply (append_rows_ok d t tb rs I R G).
  - intros x Hx. apply (F x Hx).
  - intros pk Hpk. destruct (K pk Hpk) as [ND KK]. split.
    + exact ND.
    + intros x Hx. destruct (KK x Hx) as [_ K2]. split; [exact K2|].
      destruct (F x Hx) as [_ [Hnn _]]. apply (notnull_pk_nonnull tb); [exact Hnn|].
      apply (inv_pkcols _ I tb pk Gin Hpk).
  - intros x fk Hx Hfk HN. destruct (F x Hx) as [_ [_ Hv]].
    apply (validated_row_has_parents proj d tb x I Gin); auto.
Qed.

(* ------------------------------------------------------------------------------------ *)
(** * INSERT ... SELECT *)

Lemma bulk_validate_none : forall d tb rows seen,
  bulk_validate d tb rows seen = None ->
  Forall (fun r => fk_validate proj d (t_fks tb) r = None) rows
  /\ (forall pk, t_pk tb = Some pk ->
        NoDup (map (proj pk) rows) /\
        forall r, In r rows -> ~ In (proj pk r) seen /\ ~ In (proj pk r) (map (proj pk) (t_rows tb))).
Proof.
  intros d tb rows. induction rows as [|r rows IH]; intros seen H.
  - split; [constructor|]. intros pk _. split; [constructor|intros r []].
  - cbn [bulk_validate] in H. destruct (t_pk tb) as [pk|] eqn:Epk.
    + destruct (key_mem (proj pk r) seen || key_mem (proj pk r) (map (proj pk) (t_rows tb))) eqn:Ed; [discriminate|].
      destruct (fk_validate proj d (t_fks tb) r) eqn:Ef; [discriminate|].
      apply orb_false_iff in Ed. destruct Ed as [Ed1 Ed2].
      apply key_mem_false in Ed1. apply key_mem_false in Ed2.
      destruct (IH _ H) as [F K]. split; [constructor; auto|].
      intros pk0 E0. inversion E0; subst pk0. destruct (K pk eq_refl) as [ND KK]. split.
      * cbn. constructor; [|exact ND]. intros HI. apply in_map_iff in HI. destruct HI as [x [Ex Hx]].
        destruct (KK x Hx) as [K1 _]. apply K1. left. symmetry. exact Ex.
      * intros x [->|Hx]; [auto|]. destruct (KK x Hx) as [K1 K2]. split; [|exact K2].
        intros HI. apply K1. right. exact HI.
    + destruct (fk_validate proj d (t_fks tb) r) eqn:Ef; [discriminate|].
      destruct (IH _ H) as [F K]. split; [constructor; auto|]. intros pk0 E0. discriminate.
Qed.

Theorem exec_insert_select_ok : forall d dst src simple sel d' ev r,
  inv d -> RI d -> exec_insert_select d dst src simple sel = ((d', ev), r) -> ev = [] -> inv d' /\ RI d'.
Proof.
  intros d dst src simple sel d' ev r I R E Hev. unfold exec_insert_select in E.
  destruct (get_table d dst) as [dt|] eqn:Gd; [|inversion E; subst; auto].
  assert (PLAIN : insert_selected d dst src dt sel = ((d', ev), r) -> inv d' /\ RI d').
  { intros E'. unfold insert_selected in E'. destruct (get_table d src) as [st0|]; [|inversion E'; subst; auto].
    destruct (Nat.eqb (ncols st0) (ncols dt)); [|inversion E'; subst; auto].
    destruct (exec_insert_ok _ _ _ _ _ _ I R E') as [_ H]. exact H. }
  destruct (if simple && negb (Nat.eqb src dst) then get_table d src else None) as [st|] eqn:Gs; [|auto].
  destruct (bulk_compatible dt st) eqn:Ec; [|auto].
  assert (Gs' : get_table d src = Some st) by (destruct (simple && negb (Nat.eqb src dst)); [exact Gs|discriminate]).
  pose proof (get_table_In _ _ _ Gs') as [Gsin _]. pose proof (get_table_In _ _ _ Gd) as [Gdin _].
  unfold bulk_transfer in E.
  destruct (bulk_validate d dt (t_rows st) []) as [e|] eqn:V; [inversion E; subst; auto|].
  destruct (bulk_validate_none _ _ _ _ V) as [F K]. rewrite Forall_forall in F.
  inversion E as [[Hd He Hr]]. clear E.
  (* the ghost log is empty: the copied keys are NULL-free *)
  assert (NK : forall pk x, t_pk dt = Some pk -> In x (t_rows st) -> has_null (proj pk x) = false).
  { intros pk x Hpk Hx. rewrite Hpk in He. destruct (existsb (fun r0 => has_null (proj pk r0)) (t_rows st)) eqn:Ex.
    - rewrite <- He in Hev. discriminate.
    - destruct (has_null (proj pk x)) eqn:En; [|reflexivity]. exfalso.
      apply Bool.not_true_iff_false in Ex. apply Ex. apply existsb_exists. exists x. auto. }
  apply (append_rows_ok d dst dt (t_rows st) I R Gd).
  - intros x Hx. rewrite (inv_arity _ I st x Gsin Hx). unfold bulk_compatible in Ec.
    apply andb_true_iff in Ec. destruct Ec as [Ec _]. apply Nat.eqb_eq in Ec. symmetry. exact Ec.
  - intros pk Hpk. destruct (K pk Hpk) as [ND KK]. split; [exact ND|].
    intros x Hx. split; [apply (KK x Hx)|apply (NK pk x Hpk Hx)].
  - intros x fk Hx Hfk HN. eapply (validated_row_has_parents proj d dt x); eauto.
Qed.

(* ------------------------------------------------------------------------------------ *)
(** * TRUNCATE *)

Lemma clear_unreferenced_good : forall d t tb,
  inv d -> get_table d t = Some tb -> is_fk_referenced d t = false -> good d (set_rows d t []).
Proof.
  intros d t tb I G Hnr.
  assert (SH : shrinks d (set_rows d t [])).
  { eapply set_rows_dshrink; [apply inv_names; exact I|exact G|]. apply srows_nil. auto. }
  unfold good. eapply set_rows_dshrink; [apply inv_names; exact I|exact G|].
  apply srows_nil. intros x _ pk _. apply not_referenced_unref.
  rewrite (is_fk_referenced_shrinks _ _ _ _ SH). apply get_table_In in G. destruct G as [_ Gn]. rewrite Gn. exact Hnr.
Qed.

Section Dfs.
Variables (ord : list nat) (d : db).

Definition children (x : nat) : list nat := fk_children ord d x.

Definition closed_in (S V : list nat) : Prop := forall y, In y S -> forall c, In c (children y) -> In c V.

(** finished nodes are visited and have all their children visited; visited nodes are finished or on the stack *)
Definition dfs_inv (stack vis order : list nat) : Prop :=
  incl order vis /\ closed_in order vis /\ (forall y, In y vis -> In y order \/ In y stack).

Definition visit_ok (rec : nat -> list nat -> list nat -> list nat -> visitres) : Prop :=
  forall x stack vis order v' o',
    dfs_inv stack vis order -> rec x stack vis order = VisOk v' o' ->
    dfs_inv stack v' o' /\ incl vis v' /\ incl order o' /\ In x o'.

Lemma visit_children_ok : forall rec, visit_ok rec -> forall stack cs vis order v' o',
  dfs_inv stack vis order -> visit_children rec stack cs vis order = VisOk v' o' ->
  dfs_inv stack v' o' /\ incl vis v' /\ incl order o' /\ (forall c, In c cs -> In c o').
Proof.
  intros rec RO stack cs. induction cs as [|c cs IH]; intros vis order v' o' W H; cbn in H.
  - inversion H; subst. repeat split; try apply incl_refl; try apply W. intros c [].
  - destruct (rec c stack vis order) as [v1 o1| |] eqn:E; try discriminate.
    destruct (RO _ _ _ _ _ _ W E) as [W1 [I1 [J1 K1]]].
    destruct (IH _ _ _ _ W1 H) as [W2 [I2 [J2 K2]]].
    split; [exact W2|]. split; [eapply incl_tran; eassumption|]. split; [eapply incl_tran; eassumption|].
    intros c0 [->|Hc]; [apply J2; exact K1|apply K2; exact Hc].
Qed.

Lemma visit_is_ok : forall fuel, visit_ok (visit fuel ord d).
Proof.
  induction fuel as [|f IH]; intros x stack vis order v' o' W H; cbn in H; [discriminate|].
  destruct (nat_mem x stack) eqn:Es; [discriminate|].
  destruct (nat_mem x vis) eqn:Ev.
  - inversion H; subst. split; [exact W|]. split; [apply incl_refl|]. split; [apply incl_refl|].
    apply nat_mem_In in Ev. destruct W as [_ [_ Q]]. destruct (Q x Ev) as [Hx|Hx]; [exact Hx|].
    apply nat_mem_In in Hx. congruence.
  - destruct (visit_children (visit f ord d) (x :: stack) (fk_children ord d x) (x :: vis) order)
      as [v1 o1| |] eqn:E; try discriminate.
    inversion H; subst v' o'. clear H.
    assert (W0 : dfs_inv (x :: stack) (x :: vis) order).
    { destruct W as [A [B C]]. split; [|split].
      - intros y Hy. right. apply A. exact Hy.
      - intros y Hy c Hc. right. eapply B; eassumption.
      - intros y [->|Hy]; [right; left; reflexivity|]. destruct (C y Hy) as [H1|H1]; [left|right; right]; assumption. }
    destruct (visit_children_ok _ IH _ _ _ _ _ _ W0 E) as [[A1 [B1 C1]] [I1 [J1 K1]]].
    split; [|split; [|split]].
    + split; [|split].
      * intros y Hy. apply in_app_or in Hy. destruct Hy as [Hy|[->|[]]]; [apply A1; exact Hy|].
        apply I1. left. reflexivity.
      * intros y Hy c Hc. apply in_app_or in Hy. destruct Hy as [Hy|[->|[]]].
        -- eapply B1; eassumption.
        -- apply A1. apply K1. exact Hc.
      * intros y Hy. destruct (C1 y Hy) as [H1|[->|H1]].
        -- left. apply in_or_app. left. exact H1.
        -- left. apply in_or_app. right. left. reflexivity.
        -- right. exact H1.
    + intros y Hy. apply I1. right. exact Hy.
    + intros y Hy. apply in_or_app. left. apply J1. exact Hy.
    + apply in_or_app. right. left. reflexivity.
Qed.

(** the list TRUNCATE CASCADE clears contains the table and is closed under "is referenced by" *)
Lemma visit_top : forall fuel t v o,
  visit fuel ord d t [] [] [] = VisOk v o -> In t o /\ closed_in o o.
Proof.
  intros fuel t v o H.
  assert (W : dfs_inv [] [] []).
  { split; [apply incl_refl|]. split; [intros y []|intros y []]. }
  destruct (visit_is_ok fuel _ _ _ _ _ _ W H) as [[A [B C]] [_ [_ K]]].
  split; [exact K|]. intros y Hy c Hc. destruct (C c (B y Hy c Hc)) as [H1|[]]. exact H1.
Qed.

End Dfs.

Lemma clear_tables_db : forall ns d,
  fst (clear_tables ns d) = map (fun x => if nat_mem (t_name x) ns then with_rows x [] else x) d.
Proof.
  induction ns as [|n ns IH]; intros d; cbn.
  - rewrite map_id. reflexivity.
  - destruct (clear_tables ns (set_rows d n [])) as [d' c] eqn:E. cbn.
    pose proof (IH (set_rows d n [])) as H. rewrite E in H. cbn in H. rewrite H.
    unfold set_rows. rewrite map_map. apply map_ext. intros x. unfold nat_mem. cbn.
    destruct (Nat.eqb (t_name x) n) eqn:En.
    + cbn. destruct (existsb (Nat.eqb (t_name x)) ns); reflexivity.
    + reflexivity.
Qed.

Lemma fk_children_In : forall ord d p c,
  In c (fk_children ord d p) <->
  In c ord /\ c <> p /\ exists ct, get_table d c = Some ct /\ exists fk, In fk (t_fks ct) /\ fk_parent fk = p.
Proof.
  intros ord d p c. unfold fk_children. rewrite filter_In. split.
  - intros [Ho Hb]. apply andb_true_iff in Hb. destruct Hb as [H1 H2].
    apply negb_true_iff in H1. apply Nat.eqb_neq in H1.
    destruct (get_table d c) as [ct|]; [|discriminate]. apply existsb_exists in H2.
    destruct H2 as [fk [Hf Hp]]. apply Nat.eqb_eq in Hp. repeat split; auto. exists ct. split; [reflexivity|]. exists fk. auto.
  - intros [Ho [Hne [ct [G [fk [Hf Hp]]]]]]. split; [exact Ho|]. apply andb_true_iff. split.
    + apply negb_true_iff. apply Nat.eqb_neq. exact Hne.
    + rewrite G. apply existsb_exists. exists fk. split; [exact Hf|apply Nat.eqb_eq; exact Hp].
Qed.

Theorem exec_truncate_good : forall ord d t c d' ev r,
  inv d -> ord_ok ord d -> exec_truncate ord d t c = ((d', ev), r) -> ev = [] /\ good d d'.
Proof.
  intros ord d t c d' ev r I O E. unfold exec_truncate in E.
  destruct (get_table d t) as [tb|] eqn:G; [|inversion E; subst; split; [reflexivity|apply good_refl]].
  destruct c.
  - destruct (visit (S (length d)) ord d t [] [] []) as [v o| |] eqn:V;
      [|inversion E; subst; split; [reflexivity|apply good_refl]..].
    destruct (clear_tables o d) as [dd cnt] eqn:C. inversion E; subst dd ev r. split; [reflexivity|].
    pose proof (clear_tables_db o d) as CD. rewrite C in CD. cbn in CD. subst d'.
    destruct (visit_top ord d _ _ _ _ V) as [_ CL].
    set (d' := map (fun x => if nat_mem (t_name x) o then with_rows x [] else x) d).
    (* a table that references a cleared table is itself cleared *)
    assert (UN : forall y, In y d -> nat_mem (t_name y) o = true -> forall k, unref d' (t_name y) k).
    { intros y Hy Hmem k ct' fk row Hct' Hfk Hp Hrow. exfalso.
      unfold d' in Hct'. apply in_map_iff in Hct'. destruct Hct' as [ct [Ec Hct]].
      destruct (nat_mem (t_name ct) o) eqn:Em; subst ct'; [cbn in Hrow; contradiction|].
      cbn in *. assert (Hin : In (t_name ct) (children ord d (t_name y))).
      { apply fk_children_In. split; [apply O; exact Hct|]. split.
        - intros Heq. rewrite Heq in Em. congruence.
        - exists ct. split; [apply In_get_table; [apply inv_names; exact I|exact Hct]|]. exists fk. auto. }
      apply nat_mem_In in Hmem. pose proof (CL _ Hmem _ Hin) as X. apply nat_mem_In in X. congruence. }
    unfold good, dshrink, d'.
    assert (forall l, incl l d -> Forall2 (tshrink (droppable d')) l
              (map (fun x => if nat_mem (t_name x) o then with_rows x [] else x) l)) as X.
    { induction l as [|x l IH]; intros Hl; cbn; constructor.
      - destruct (nat_mem (t_name x) o) eqn:Em.
        + split; [repeat split|]. cbn. apply srows_nil. intros row _ pk _.
          apply UN; [apply Hl; left; reflexivity|exact Em].
        + split; [apply same_schema_refl|apply srows_refl].
      - apply IH. intros y Hy. apply Hl. right. exact Hy. }
    apply X. apply incl_refl.
  - destruct (is_fk_referenced d t) eqn:Er; inversion E; subst; split; try reflexivity; [apply good_refl|].
    eapply clear_unreferenced_good; eassumption.
Qed.

(* ------------------------------------------------------------------------------------ *)
(** * DROP TABLE *)

Lemma get_table_drop : forall d t n, n <> t ->
  get_table (filter (fun x => negb (Nat.eqb (t_name x) t)) d) n = get_table d n.
Proof.
  induction d as [|x d IH]; intros t n Hne; [reflexivity|]. unfold get_table in *. cbn.
  destruct (Nat.eqb (t_name x) t) eqn:E; cbn.
  - apply Nat.eqb_eq in E.
    destruct (Nat.eqb (t_name x) n) eqn:E2; [apply Nat.eqb_eq in E2; congruence|]. apply IH. exact Hne.
  - destruct (Nat.eqb (t_name x) n); [reflexivity|]. apply IH. exact Hne.
Qed.

Lemma NoDup_map_filter : forall {A B} (f : A -> B) (p : A -> bool) l, NoDup (map f l) -> NoDup (map f (filter p l)).
Proof.
  intros A B f p l. induction l as [|x l IH]; intros H; cbn; [constructor|].
  cbn in H. inversion H as [|? ? Hn ND]; subst. destruct (p x); cbn; [|auto].
  constructor; [|auto]. intros HI. apply Hn. apply in_map_iff in HI. destruct HI as [y [E Hy]].
  apply filter_In in Hy. apply in_map_iff. exists y. tauto.
Qed.

Theorem exec_drop_ok : forall d t d' ev r,
  inv d -> RI d -> exec_drop d t = ((d', ev), r) -> ev = [] /\ inv d' /\ RI d'.
Proof.
  intros d t d' ev r I R E. unfold exec_drop in E.
  destruct (get_table d t) as [tb|] eqn:G; [|inversion E; subst; auto].
  destruct (referenced_by_other d t) eqn:Er; inversion E; subst; [auto|]. clear E. split; [reflexivity|].
  set (d' := filter (fun x => negb (Nat.eqb (t_name x) t)) d).
  assert (IN : forall x, In x d' <-> In x d /\ t_name x <> t).
  { intros x. unfold d'. rewrite filter_In. rewrite negb_true_iff, Nat.eqb_neq. tauto. }
  (* nobody left references the dropped table *)
  assert (NP : forall x fk, In x d' -> In fk (t_fks x) -> fk_parent fk <> t).
  { intros x fk Hx Hfk Hp. apply IN in Hx. destruct Hx as [Hx Hn].
    unfold referenced_by_other in Er. apply Bool.not_true_iff_false in Er. apply Er.
    apply existsb_exists. exists x. split; [exact Hx|]. apply andb_true_iff. split.
    - apply negb_true_iff. apply Nat.eqb_neq. exact Hn.
    - apply existsb_exists. exists fk. split; [exact Hfk|apply Nat.eqb_eq; exact Hp]. }
  split.
  - constructor.
    + unfold names, d'. apply NoDup_map_filter. apply (inv_names _ I).
    + intros x row Hx. apply IN in Hx. apply (inv_arity _ I). tauto.
    + unfold schema_standard. apply forallb_forall. intros x Hx.
      pose proof (inv_std _ I) as S. unfold schema_standard in S. rewrite forallb_forall in S.
      pose proof (proj1 (IN x) Hx) as [Hxd _]. specialize (S x Hxd).
      apply andb_true_iff in S. destruct S as [S1 S2]. apply andb_true_iff. split; [|exact S2].
      apply forallb_forall. intros fk Hfk. rewrite forallb_forall in S1. specialize (S1 fk Hfk).
      unfold fk_standard in *. unfold d'. rewrite get_table_drop by (eapply NP; eassumption). exact S1.
    + intros x pk Hx. apply IN in Hx. apply (inv_keys _ I). tauto.
    + intros x pk Hx. apply IN in Hx. apply (inv_pkcols _ I). tauto.
    + intros x pk row Hx. apply IN in Hx. apply (inv_pknn _ I). tauto.
  - intros ct fk row Hct Hfk Hrow HN. pose proof (NP ct fk Hct Hfk) as Hne.
    apply IN in Hct. destruct Hct as [Hct _].
    destruct (R ct fk row Hct Hfk Hrow HN) as [pt [pr [Gp H]]]. exists pt, pr.
    unfold d'. rewrite get_table_drop by exact Hne. auto.
Qed.

(** DROP TABLE of a table that another table's FOREIGN KEY references is refused and changes nothing *)
Theorem drop_referenced_rejected : forall d t tb,
  get_table d t = Some tb -> referenced_by_other d t = true -> exec_drop d t = ((d, []), RErr EConstraint).
Proof. intros d t tb G H. unfold exec_drop. rewrite G, H. reflexivity. Qed.

(* ------------------------------------------------------------------------------------ *)
(** * ALTER TABLE ADD FOREIGN KEY *)

Definition add_fk_db (d : db) (t : nat) (fk : fkdecl) : db :=
  map (fun x => if Nat.eqb (t_name x) t then with_fks x (t_fks x ++ [fk]) else x) d.

Lemma get_add_fk : forall d t fk n,
  get_table (add_fk_db d t fk) n =
  option_map (fun x => if Nat.eqb (t_name x) t then with_fks x (t_fks x ++ [fk]) else x) (get_table d n).
Proof.
  induction d as [|x d IH]; intros t fk n; [reflexivity|].
  unfold get_table in *. cbn. destruct (Nat.eqb (t_name x) t) eqn:E; cbn;
    destruct (Nat.eqb (t_name x) n) eqn:E2; cbn; try rewrite E; try reflexivity; apply IH.
Qed.

Lemma fk_standard_add : forall d t fk x x' fk0,
  (x' = x \/ x' = with_fks x (t_fks x ++ [fk])) ->
  fk_standard (add_fk_db d t fk) x' fk0 = fk_standard d x fk0.
Proof.
  intros d t fk x x' fk0 Hx. unfold fk_standard.
  assert (E : ncols x' = ncols x) by (destruct Hx as [->| ->]; reflexivity). rewrite E.
  rewrite get_add_fk. destruct (get_table d (fk_parent fk0)) as [pt|]; cbn; [|reflexivity].
  destruct (Nat.eqb (t_name pt) t); reflexivity.
Qed.

Lemma nat_nodupb_NoDup : forall l, nat_nodupb l = true -> NoDup l.
Proof.
  induction l as [|a l IH]; intros H; [constructor|]. cbn in H. apply andb_true_iff in H. destruct H as [H1 H2].
  constructor; [|auto]. apply negb_true_iff in H1. apply nat_mem_false in H1. exact H1.
Qed.

Theorem exec_add_fk_ok : forall d t fk d' ev r,
  inv d -> RI d -> exec_add_fk d t fk = ((d', ev), r) -> ev = [] -> inv d' /\ RI d'.
Proof.
  intros d t fk d' ev r I R E Hev. unfold exec_add_fk in E.
  destruct (get_table d t) as [ct|] eqn:G; [|inversion E; subst; auto].
  destruct (forallb (fun c => Nat.ltb c (ncols ct)) (fk_cols fk)); cbn [negb] in E; [|inversion E; subst; auto].
  destruct (get_table d (fk_parent fk)) as [pt|] eqn:Gp; [|inversion E; subst; auto].
  destruct (forallb (fun c => Nat.ltb c (ncols pt)) (fk_pcols fk)); cbn [negb] in E; [|inversion E; subst; auto].
  destruct (negb (Nat.eqb (fk_parent fk) t) && reaches (length d) d (fk_parent fk) t);
    [inversion E; subst; discriminate|].
  fold (add_fk_db d t fk) in E.
  destruct (fk_rows_ok d ct fk) eqn:Erows; [|inversion E; subst; discriminate].
  destruct (fk_standard (add_fk_db d t fk) (with_fks ct (t_fks ct ++ [fk])) fk) eqn:Estd;
    [|inversion E; subst; discriminate].
  inversion E; subst d' ev r. clear E.
  pose proof (get_table_In _ _ _ G) as [Gin Gn].
  assert (IN : forall x', In x' (add_fk_db d t fk) ->
            exists x, In x d /\ ((x' = x /\ t_name x <> t) \/ (x' = with_fks x (t_fks x ++ [fk]) /\ x = ct))).
  { intros x' Hx'. unfold add_fk_db in Hx'. apply in_map_iff in Hx'. destruct Hx' as [x [Ex Hx]].
    exists x. split; [exact Hx|]. destruct (Nat.eqb (t_name x) t) eqn:En.
    - right. split; [auto|]. apply Nat.eqb_eq in En.
      pose proof (In_get_table _ _ (inv_names _ I) Hx) as Gx. rewrite En in Gx. congruence.
    - left. apply Nat.eqb_neq in En. auto. }
  split.
  - constructor.
    + unfold names, add_fk_db. rewrite map_map. erewrite map_ext; [apply (inv_names _ I)|].
      intros x. destruct (Nat.eqb (t_name x) t); reflexivity.
    + intros x' row Hx' Hrow. destruct (IN x' Hx') as [x [Hx [[-> _]|[-> _]]]]; apply (inv_arity _ I x); assumption.
    + unfold schema_standard. apply forallb_forall. intros x' Hx'.
      pose proof (inv_std _ I) as S. unfold schema_standard in S. rewrite forallb_forall in S.
      destruct (IN x' Hx') as [x [Hx [[-> _]|[-> ->]]]].
      * specialize (S x Hx). apply andb_true_iff in S. destruct S as [S1 S2]. apply andb_true_iff. split; [|exact S2].
        apply forallb_forall. intros fk0 Hfk0. rewrite forallb_forall in S1.
        rewrite (fk_standard_add d t fk x x fk0 (or_introl eq_refl)). apply S1. exact Hfk0.
      * specialize (S ct Hx). apply andb_true_iff in S. destruct S as [S1 S2]. apply andb_true_iff. split; [|exact S2].
        cbn [t_fks with_fks]. rewrite forallb_app. apply andb_true_iff. split.
        -- apply forallb_forall. intros fk0 Hfk0. rewrite forallb_forall in S1.
           rewrite (fk_standard_add d t fk ct _ fk0 (or_intror eq_refl)). apply S1. exact Hfk0.
        -- cbn. rewrite Estd. reflexivity.
    + intros x' pk Hx' Hpk. destruct (IN x' Hx') as [x [Hx [[-> _]|[-> _]]]]; apply (inv_keys _ I x); assumption.
    + intros x' pk Hx' Hpk. destruct (IN x' Hx') as [x [Hx [[-> _]|[-> _]]]]; apply (inv_pkcols _ I x); assumption.
    + intros x' pk row Hx' Hpk. destruct (IN x' Hx') as [x [Hx [[-> _]|[-> _]]]]; apply (inv_pknn _ I x); assumption.
  - assert (PARENT : forall fk0 vs, (exists pt0 pr, get_table d (fk_parent fk0) = Some pt0 /\ In pr (t_rows pt0)
                                  /\ proj (fk_pcols fk0) pr = vs) ->
            exists pt0 pr, get_table (add_fk_db d t fk) (fk_parent fk0) = Some pt0 /\ In pr (t_rows pt0)
                                  /\ proj (fk_pcols fk0) pr = vs).
    { intros fk0 vs [pt0 [pr [Gp0 H]]]. rewrite get_add_fk, Gp0. cbn.
      destruct (Nat.eqb (t_name pt0) t); [exists (with_fks pt0 (t_fks pt0 ++ [fk]))|exists pt0]; exists pr; auto. }
    intros x' fk0 row Hx' Hfk0 Hrow HN. apply PARENT.
    destruct (IN x' Hx') as [x [Hx [[-> _]|[-> ->]]]].
    + apply (R x fk0 row Hx Hfk0 Hrow HN).
    + cbn in Hfk0, Hrow. apply in_app_or in Hfk0. destruct Hfk0 as [Hfk0|[<-|[]]].
      * apply (R ct fk0 row Hx Hfk0 Hrow HN).
      * unfold fk_rows_ok in Erows. rewrite forallb_forall in Erows. specialize (Erows row Hrow).
        rewrite HN in Erows. cbn in Erows. rewrite Gp in Erows.
        assert (HL : length (fk_pcols fk) = length (proj (fk_cols fk) row)).
        { unfold proj. rewrite map_length.
          destruct (fk_standard_parent _ _ _ Estd) as [pt2 [_ [_ HL]]]. lia. }
        destruct (key_exists_In fk _ _ HL Erows) as [pr [Hin Hp]]. exists pt, pr. auto.
Qed.
