(** * Store/CacheConcrete.v — the transparency theorem instantiated with the concrete signature
    ([Lex/SipHash.signature] = SipHash-1-3 of the normalised text) and the concrete extractors
    ([xt_select] = table_extractor.rs, [ax_select] = the adapter's own FROM-only extractor).

    The abstract hypotheses H1 / H2 of [CacheLaws.run_transparent] are derived from obligations on
    the concrete functions plus three assumptions about code that is not modelled here:
    - [Hhash]: the 64-bit hash does not collide on the normal forms of the queries of this history
      (it cannot be injective on all strings);
    - [Hlex]: the parser and the executor respect lexical equivalence: two texts that are the same
      query up to white space and case outside protected regions have the same result on every
      database;
    - [Hdep]: a statement changes the successful result of a query only if it is one of the four
      kinds the adapter invalidates for and its target is (up to ASCII case) a table name mentioned in
      the query.  This is where views (a write to the base table of a mentioned view), FK cascades,
      triggers, ROLLBACK and ALTER TABLE are excluded: for them [Hdep] is false.
    and two side conditions on the queries of the history, which are exactly the side conditions of
    the obligations [normalize_sound_plain] and [xt_complete] / [ax_complete]:
    - no protected region in the text (no quote character, no [--]);
    - nothing hidden from the extractor in use. *)
From Coq Require Import List ZArith Bool Lia.
From VibeSQL Require Import Lex.Normalize Lex.SipHash Lex.NormalizeLaws
     Store.Cache Store.CacheLaws Store.CacheTables Store.CacheTablesLaws.
Import ListNotations.
Open Scope Z_scope.

(** a SELECT as the adapter sees it: the SQL text and its parse tree *)
Record cquery : Type := mkQ { q_text : list Z; q_ast : select }.

Definition sig_of (q : cquery) : Z := signature (q_text q).

Lemma zeqb_spec : forall a b : Z, (a =? b) = true <-> a = b.
Proof. intros. apply Z.eqb_eq. Qed.

Section Concrete.
  Variable R : Type.
  Variable db : Type.
  Variable stmt : Type.
  Variable exec : db -> cquery -> option R.
  Variable apply : db -> stmt -> db.
  Variable inval : stmt -> option tname.
  Variable cap : Z.
  Variable dom : cquery -> Prop.
  (** which extractor the protocol uses, and what it does not see *)
  Variable extract : select -> list tname.
  Variable hidden : select -> list tname.
  Hypothesis extract_exact : forall q x, In x (all_select q) <-> In x (extract q) \/ In x (hidden q).

  Hypothesis Hhash : forall q1 q2, dom q1 -> dom q2 ->
    signature (q_text q1) = signature (q_text q2) -> normalize (q_text q1) = normalize (q_text q2).
  Hypothesis Hlex : forall q1 q2, dom q1 -> dom q2 ->
    same_query (q_text q1) (q_text q2) -> forall d, exec d q1 = exec d q2.
  Hypothesis Hdep : forall d s q r, dom q -> exec d q = Some r ->
    match inval s with
    | Some t => forall t', In t' (all_select (q_ast q)) -> ci_eqb t' t = false
    | None => True
    end ->
    inval s <> None -> exec (apply d s) q = Some r.
  (** statements the adapter does not invalidate for change no successful result *)
  Hypothesis Hquiet : forall d s q r, dom q -> exec d q = Some r -> inval s = None ->
    exec (apply d s) q = Some r.
  Hypothesis Hplain : forall q, dom q -> has_protected (q_text q) = false.
  Hypothesis Hvisible : forall q, dom q -> hidden (q_ast q) = [].

  Theorem concrete_transparent : forall ops d d' c' obs,
    Forall (op_dom cquery stmt dom) (map fst ops) ->
    run Z Z.eqb R db cquery stmt exec apply sig_of (fun q => extract (q_ast q)) inval cap (d, []) ops
      = Some ((d', c'), obs) ->
    run_plain R db cquery stmt exec apply d (map fst ops) = (d', map (returned R) obs).
  Proof.
    apply (run_transparent Z Z.eqb zeqb_spec R db cquery stmt exec apply sig_of
                           (fun q => extract (q_ast q)) inval cap dom).
    - (* H1 *)
      intros q1 q2 Hd1 Hd2 Hs d. apply (Hlex q1 q2 Hd1 Hd2).
      apply (normalize_sound_plain _ _ (Hplain q1 Hd1) (Hplain q2 Hd2)).
      apply (Hhash q1 q2 Hd1 Hd2). exact Hs.
    - (* H2 *)
      intros d s q r Hd Hx Hu. unfold untouched in Hu.
      destruct (inval s) as [t|] eqn:Ei.
      + apply (Hdep d s q r Hd Hx); [|rewrite Ei; discriminate]. rewrite Ei.
        intros t' Hin. apply extract_exact in Hin. rewrite (Hvisible q Hd) in Hin.
        destruct Hin as [Hin|[]]. rewrite forallb_forall in Hu. specialize (Hu t' Hin).
        destruct (ci_eqb t' t); [discriminate|reflexivity].
      + exact (Hquiet d s q r Hd Hx Ei).
  Qed.
End Concrete.

(** the two instances: the executor crate's extractor and the adapter's own *)
Definition concrete_transparent_crate R db stmt exec apply inval cap dom :=
  concrete_transparent R db stmt exec apply inval cap dom xt_select hid_select xt_exact.
Definition concrete_transparent_adapter R db stmt exec apply inval cap dom :=
  concrete_transparent R db stmt exec apply inval cap dom ax_select ahid_select ax_exact.
