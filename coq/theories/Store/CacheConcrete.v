(** * Store/CacheConcrete.v — the transparency theorem instantiated with the concrete signature
    ([Lex/SipHash.signature] = SipHash-1-3 of the normalised text) and the concrete extractors
    ([xt_select] = table_extractor.rs, [ax_select] = the adapter's own FROM-only extractor).

    The abstract hypotheses H1 / H2 of [CacheLaws.run_transparent] are derived from obligations on
    the concrete functions plus three assumptions about code that is not modelled here:
    - [Hhash]: the 64-bit hash does not collide on the normal forms of the queries of this history
      (it cannot be injective on all strings);
    - [Hlex]: the parser and the executor respect lexical equivalence: two texts that are the same
      query up to white space and case outside protected regions have the same result on every
      database;
    - [Hdep]: a statement changes the successful result of a query only if it is one of the four
      kinds the adapter invalidates for and its target is (up to ASCII case) a table name mentioned in
      the query.  This is where views (a write to the base table of a mentioned view), FK cascades,
      triggers, ROLLBACK and ALTER TABLE are excluded: for them [Hdep] is false.
    and two side conditions on the queries of the history, which are exactly the side conditions of
    the obligations [normalize_sound_plain] and [xt_complete] / [ax_complete]:
    - no protected region in the text (no quote character, no [--]);
    - nothing hidden from the extractor in use. *)
From Coq Require Import List ZArith Bool Lia.
From VibeSQL Require Import Lex.Normalize Lex.SipHash Lex.NormalizeLaws
     Store.Cache Store.CacheLaws Store.CacheTables Store.CacheTablesLaws.
Import ListNotations.
Open Scope Z_scope.

(** a SELECT as the adapter sees it: the SQL text and its parse tree *)
Record cquery : Type := mkQ { q_text : list Z; q_ast : select }.

Definition sig_of (q : cquery) : Z := signature (q_text q).

Lemma zeqb_spec : forall a b : Z, (a =? b) = true <-> a = b.
Proof. intros. apply Z.eqb_eq. Qed.

Section Concrete.
  Variable R : Type.
  Variable db : Type.
  Variable stmt : Type.
  Variable exec : db -> cquery -> option R.
  Variable apply : db -> stmt -> db.
  Variable inval : stmt -> option tname.
  Variable cap : Z.
  Variable dom : cquery -> Prop.
  (** which extractor the protocol uses, and what it does not see *)
  Variable extract : select -> list tname.
  Variable hidden : select -> list tname.
  Hypothesis extract_exact : forall q x, In x (all_select q) <-> In x (extract q) \/ In x (hidden q).

  Hypothesis Hhash : forall q1 q2, dom q1 -> dom q2 ->
    signature (q_text q1) = signature (q_text q2) -> normalize (q_text q1) = normalize (q_text q2).
  Hypothesis Hlex : forall q1 q2, dom q1 -> dom q2 ->
    same_query (q_text q1) (q_text q2) -> forall d, exec d q1 = exec d q2.
  Hypothesis Hdep : forall d s q r, dom q -> exec d q = Some r ->
    match inval s with
    | Some t => forall t', In t' (all_select (q_ast q)) -> ci_eqb t' t = false
    | None => True
    end ->
    inval s <> None -> exec (apply d s) q = Some r.
  (** statements the adapter does not invalidate for change no successful result *)
  Hypothesis Hquiet : forall d s q r, dom q -> exec d q = Some r -> inval s = None ->
    exec (apply d s) q = Some r.
  Hypothesis Hplain : forall q, dom q -> has_protected (q_text q) = false.
  Hypothesis Hvisible : forall q, dom q -> hidden (q_ast q) = [].

  Theorem concrete_transparent : forall ops d d' c' obs,
    Forall (op_dom cquery stmt dom) (map fst ops) ->
    run Z Z.eqb R db cquery stmt exec apply sig_of (fun q => extract (q_ast q)) inval cap (d, []) ops
      = Some ((d', c'), obs) ->
    run_plain R db cquery stmt exec apply d (map fst ops) = (d', map (returned R) obs).
  Proof.
    apply (run_transparent Z Z.eqb zeqb_spec R db cquery stmt exec apply sig_of
                           (fun q => extract (q_ast q)) inval cap dom).
    - (* H1 *)
      intros q1 q2 Hd1 Hd2 Hs d. apply (Hlex q1 q2 Hd1 Hd2).
      apply (normalize_sound_plain _ _ (Hplain q1 Hd1) (Hplain q2 Hd2)).
      apply (Hhash q1 q2 Hd1 Hd2). exact Hs.
    - (* H2 *)
      intros d s q r Hd Hx Hu. unfold untouched in Hu.
      destruct (inval s) as [t|] eqn:Ei.
      + apply (Hdep d s q r Hd Hx); [|rewrite Ei; discriminate]. rewrite Ei.
        intros t' Hin. apply extract_exact in Hin. rewrite (Hvisible q Hd) in Hin.
        destruct Hin as [Hin|[]]. rewrite forallb_forall in Hu. specialize (Hu t' Hin).
        destruct (ci_eqb t' t); [discriminate|reflexivity].
      + exact (Hquiet d s q r Hd Hx Ei).
  Qed.
End Concrete.

(** the two instances: the executor crate's extractor and the adapter's own *)
Definition concrete_transparent_crate R db stmt exec apply inval cap dom :=
  concrete_transparent R db stmt exec apply inval cap dom xt_select hid_select xt_exact.
Definition concrete_transparent_adapter R db stmt exec apply inval cap dom :=
  concrete_transparent R db stmt exec apply inval cap dom ax_select ahid_select ax_exact.

(** ** Example: the hypotheses of [concrete_transparent] are satisfiable by a non-trivial instance.
    The database is the content of table T1 (one number); both queries are "SELECT * FROM t1" up to
    white space and case; statement [(true, z)] writes [z] into T1 (the adapter invalidates "T1" for
    it), statement [(false, _)] is a statement the adapter does not invalidate for and that changes
    nothing. *)
Definition ex_q1 : cquery := mkQ [83;69;76;69;67;84;32;42;32;70;82;79;77;32;116;49] (sel_from nT1).
Definition ex_q2 : cquery := mkQ [115;101;108;101;99;116;32;32;42;10;102;114;111;109;32;84;49;32] (sel_from nT1).
Definition ex_dom (q : cquery) : Prop := q = ex_q1 \/ q = ex_q2.
Definition ex_exec (d : Z) (_ : cquery) : option Z := Some d.
Definition ex_apply (d : Z) (s : bool * Z) : Z := if fst s then snd s else d.
Definition ex_inval (s : bool * Z) : option tname := if fst s then Some [116; 49] else None.

Example concrete_hypotheses_satisfiable :
  (forall q1 q2, ex_dom q1 -> ex_dom q2 -> signature (q_text q1) = signature (q_text q2) ->
                 normalize (q_text q1) = normalize (q_text q2)) /\
  (forall q1 q2, ex_dom q1 -> ex_dom q2 -> same_query (q_text q1) (q_text q2) ->
                 forall d, ex_exec d q1 = ex_exec d q2) /\
  (forall d s q r, ex_dom q -> ex_exec d q = Some r ->
     match ex_inval s with
     | Some t => forall t', In t' (all_select (q_ast q)) -> ci_eqb t' t = false
     | None => True
     end -> ex_inval s <> None -> ex_exec (ex_apply d s) q = Some r) /\
  (forall d s q r, ex_dom q -> ex_exec d q = Some r -> ex_inval s = None -> ex_exec (ex_apply d s) q = Some r) /\
  (forall q, ex_dom q -> has_protected (q_text q) = false) /\
  (forall q, ex_dom q -> hid_select (q_ast q) = []) /\
  run Z Z.eqb Z Z cquery (bool * Z) ex_exec ex_apply sig_of (fun q => xt_select (q_ast q)) ex_inval 4 (5, [])
      [(Read ex_q1, None); (Read ex_q2, None); (Write (false, 0), None); (Read ex_q1, None);
       (Write (true, 9), None); (Read ex_q2, None); (Read ex_q1, None)]
  = Some ((9, [(signature (q_text ex_q1), mkEntry 9 [nT1])]),
          [Miss (Some 5); Hit 5; Wrote; Hit 5; Wrote; Miss (Some 9); Hit 9]).
Proof.
  refine (conj _ (conj _ (conj _ (conj _ (conj _ (conj _ _)))))).
  - intros q1 q2 [H1|H1] [H2|H2] _; subst; vm_compute; reflexivity.
  - intros q1 q2 _ _ _ d. reflexivity.
  - intros d [[|] z] q r Hd Hx Hm Hn; cbn in *.
    + exfalso. destruct Hd as [Hd|Hd]; subst q;
        (assert (E : ci_eqb nT1 [116; 49] = false) by (apply Hm; vm_compute; left; reflexivity));
        vm_compute in E; discriminate.
    + exfalso. apply Hn. reflexivity.
  - intros d [[|] z] q r _ Hx Hi; cbn in *; [discriminate|exact Hx].
  - intros q [H|H]; subst; vm_compute; reflexivity.
  - intros q [H|H]; subst; vm_compute; reflexivity.
  - vm_compute. reflexivity.
Qed.
