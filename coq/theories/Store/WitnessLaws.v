(** C10/C15: one concrete witness per known class -- a state reached from the empty database by
    a history of statements none of which is in a known class (so the invariant holds there, by
    [inv_reachable_thm]) and one further statement after which a declared constraint is
    violated (C10) or a user index no longer mirrors its table (C15).  Every witness was first
    observed on the real engine (harness/src/c10_c15.rs, scripted histories) and is replayed
    there on every run. *)
From Coq Require Import List ZArith Bool Arith Lia Permutation.
From VibeSQL Require Import Store.Table Store.UserIndex Store.Constraints Store.Dml
     Store.TableLaws Store.UserIndexLaws Store.Invariant Store.DmlLaws Store.InsertLaws
     Store.UpdateLaws Store.StepLaws.
Import ListNotations.
Local Open Scope Z_scope.

(* ------------------------------------------------------------------------------------ *)
(** * How a violation is read off a concrete state *)

Lemma not_constraints_pk d ti t cols :
  nth_error (d_tabs d) ti = Some t -> s_pk (t_sch t) = Some cols ->
  has_dup (somes (pk_kf cols) (t_rows t)) = true -> ~ db_constraints_hold d.
Proof.
  intros Ht Hp Hd H. eapply Forall_nth_error in H; eauto. destruct H as [_ [Hpk _]].
  specialize (Hpk cols Hp). apply uniq_on_NoDup in Hpk. apply has_dup_NoDup in Hpk. congruence.
Qed.

Lemma not_constraints_uq d ti t j cols :
  nth_error (d_tabs d) ti = Some t -> nth_error (s_uniqs (t_sch t)) j = Some cols ->
  has_dup (somes (uq_kf cols) (t_rows t)) = true -> ~ db_constraints_hold d.
Proof.
  intros Ht Hj Hd H. eapply Forall_nth_error in H; eauto. destruct H as [_ [_ [Huq _]]].
  eapply Forall_nth_error in Huq; eauto. apply uniq_on_NoDup in Huq. apply has_dup_NoDup in Huq. congruence.
Qed.

Lemma not_constraints_uidx d ti t j u :
  nth_error (d_tabs d) ti = Some t -> nth_error (t_uidx t) j = Some u -> ui_unique u = true ->
  has_dup (somes (uq_kf (ui_cols u)) (t_rows t)) = true -> ~ db_constraints_hold d.
Proof.
  intros Ht Hj Hq Hd H. eapply Forall_nth_error in H; eauto. destruct H as [_ [_ [_ [_ Hui]]]].
  eapply Forall_nth_error in Hui; eauto. specialize (Hui Hq).
  apply uniq_on_NoDup in Hui. apply has_dup_NoDup in Hui. congruence.
Qed.

Lemma not_constraints_check d ti t :
  nth_error (d_tabs d) ti = Some t ->
  forallb (fun r => checks_ok (s_checks_decl (t_sch t)) r) (t_rows t) = false -> ~ db_constraints_hold d.
Proof.
  intros Ht Hc H. eapply Forall_nth_error in H; eauto. destruct H as [_ [_ [_ [Hck _]]]].
  assert (forallb (fun r => checks_ok (s_checks_decl (t_sch t)) r) (t_rows t) = true); [|congruence].
  apply forallb_forall. rewrite Forall_forall in Hck. exact Hck.
Qed.

(** a key under which the index data and the rebuild disagree about being present *)
Definition presence_differs (a b : option (list nat)) : bool :=
  match a, b with Some _, None | None, Some _ => true | _, _ => false end.

Lemma not_user_mirror d ti t j u k :
  nth_error (d_tabs d) ti = Some t -> nth_error (t_uidx t) j = Some u ->
  presence_differs (am_find k (ui_data u)) (am_find k (ui_rebuild (ui_cols u) (t_rows t))) = true ->
  ~ db_user_mirror d.
Proof.
  intros Ht Hj Hp H. eapply Forall_nth_error in H; eauto. unfold user_mirror in H.
  eapply Forall_nth_error in H; eauto. specialize (H k). unfold opt_perm in H.
  destruct (am_find k (ui_data u)), (am_find k (ui_rebuild (ui_cols u) (t_rows t))); cbn in Hp;
    try discriminate; exact H.
Qed.

(* ------------------------------------------------------------------------------------ *)
(** * Witnesses *)

Definition i3 (a b c : Z) : row := [Some a; Some b; Some c].
Definition t_pk0 : schema := mk_schema 3 [true; false; false] (Some [0%nat]) [] [].
Definition t_plain : schema := mk_schema 3 [false; false; false] None [] [].

(** the shape of every C10 witness *)
Definition c10_witness (schemas : list schema) (ss : list stmt) (s : stmt) : Prop :=
  Forall created schemas
  /\ clean (db_init schemas) ss = true
  /\ known_class s (run (db_init schemas) ss) = true
  /\ ~ db_constraints_hold (fst (step (run (db_init schemas) ss) s)).

Definition c15_witness (schemas : list schema) (ss : list stmt) (s : stmt) : Prop :=
  Forall created schemas
  /\ clean (db_init schemas) ss = true
  /\ known_class s (run (db_init schemas) ss) = true
  /\ ~ db_user_mirror (fst (step (run (db_init schemas) ss) s)).

Ltac created_tac := repeat constructor.
Ltac wit_pk := (split; [created_tac | split; [vm_compute; reflexivity | split; [vm_compute; reflexivity |
   eapply not_constraints_pk with (ti := 0%nat); vm_compute; reflexivity]]]).
Ltac wit_uq := (split; [created_tac | split; [vm_compute; reflexivity | split; [vm_compute; reflexivity |
   eapply not_constraints_uq with (ti := 0%nat) (j := 0%nat); vm_compute; reflexivity]]]).
Ltac wit_uidx := (split; [created_tac | split; [vm_compute; reflexivity | split; [vm_compute; reflexivity |
   eapply not_constraints_uidx with (ti := 0%nat) (j := 0%nat); vm_compute; reflexivity]]]).
Ltac wit_check := (split; [created_tac | split; [vm_compute; reflexivity | split; [vm_compute; reflexivity |
   eapply not_constraints_check with (ti := 0%nat); vm_compute; reflexivity]]]).
Ltac wit_mirror kk := (split; [created_tac | split; [vm_compute; reflexivity | split; [vm_compute; reflexivity |
   eapply not_user_mirror with (ti := 0%nat) (j := 0%nat) (k := kk); vm_compute; reflexivity]]]).

(** multirow-update-same-new-key: UPDATE t SET c0 = 7 WHERE c0 >= 2 over rows 2 and 3 *)
Lemma wit_multirow_update_pk :
  c10_witness [t_pk0] [SInsert 0 [i3 1 10 100; i3 2 20 200; i3 3 30 300]]
              (SUpdate 0 [(0%nat, EConst (Some 7))] (Some (PCmpC 0 OGe 2))).
Proof. wit_pk. Qed.

(** ... and a UNIQUE key copied from a column with duplicates: UPDATE t SET c1 = c2 *)
Lemma wit_multirow_update_unique :
  c10_witness [mk_schema 3 [true; false; false] (Some [0%nat]) [[1%nat]] []]
              [SInsert 0 [i3 1 10 5; i3 2 20 5; i3 3 30 6]]
              (SUpdate 0 [(1%nat, ECol 2)] None).
Proof. wit_uq. Qed.

(** unique-index-batch-insert-duplicates: INSERT ... VALUES (3,40,0),(4,40,0) under CREATE UNIQUE INDEX (c1) *)
Lemma wit_batch_insert_unique_index :
  c10_witness [t_pk0] [SCreateIndex 1 0 true [1%nat]; SInsert 0 [i3 1 10 0]]
              (SInsert 0 [i3 3 40 0; i3 4 40 0]).
Proof. wit_uidx. Qed.

(** ... and a UNIQUE INDEX key: UPDATE t SET c1 = 30 over two rows under CREATE UNIQUE INDEX (c1) *)
Lemma wit_multirow_update_unique_index :
  c10_witness [t_pk0] [SCreateIndex 1 0 true [1%nat]; SInsert 0 [i3 1 10 0; i3 2 20 0]]
              (SUpdate 0 [(1%nat, EConst (Some 30))] None).
Proof. wit_uidx. Qed.

(** Repaired classes: the statement that used to break a constraint is outside every known
    class now (so [inv_step_thm] covers it) and is rejected with an error. *)
Definition rejected (r : result) : bool := match r with ROk _ => false | _ => true end.

Definition c10_repaired (schemas : list schema) (ss : list stmt) (s : stmt) : Prop :=
  Forall created schemas
  /\ clean (db_init schemas) (ss ++ [s]) = true
  /\ rejected (snd (step (run (db_init schemas) ss) s)) = true.

Ltac rep_tac := (split; [created_tac | split; vm_compute; reflexivity]).

(** was update-ignores-unique-index: UPDATE t SET c1 = 10 WHERE c0 = 2 under a UNIQUE index on c1
    (IndexData::contains_key now normalises its probe) *)
Lemma rep_update_unique_index :
  c10_repaired [t_pk0] [SCreateIndex 1 0 true [1%nat]; SInsert 0 [i3 1 10 0; i3 2 20 0]]
               (SUpdate 0 [(1%nat, EConst (Some 10))] (Some (PCmpC 0 OEq 2))).
Proof. rep_tac. Qed.

(** was append-mode-bulk-transfer-duplicate-pk: four ascending inserts, then INSERT INTO t0 SELECT *
    FROM t1 with an existing key (the append-mode shortcut is gone) *)
Lemma rep_append_mode_bulk :
  c10_repaired [t_pk0; mk_schema 3 [true; false; false] None [] []]
               [SInsert 0 [i3 1 0 0]; SInsert 0 [i3 2 0 0]; SInsert 0 [i3 3 0 0]; SInsert 0 [i3 4 0 0];
                SInsert 1 [i3 2 9 9]]
               (SInsertSelect 0 1 []).
Proof. rep_tac. Qed.

(** was composite-key-validated-in-column-order: PRIMARY KEY (c1, c0), a second row (1,2,_)
    (RowValidator now builds its probe keys in declaration order) *)
Lemma rep_key_column_order :
  c10_repaired [mk_schema 3 [true; true; false] (Some [1%nat; 0%nat]) [] []]
               [SInsert 0 [i3 1 2 0]; SInsert 0 [i3 2 1 0]]
               (SInsert 0 [i3 1 2 1]).
Proof. rep_tac. Qed.

(** was create-unique-index-over-duplicates: IndexManager::create_index now refuses *)
Lemma rep_create_unique_index :
  c10_repaired [t_pk0] [SInsert 0 [i3 1 10 0; i3 2 10 0]] (SCreateIndex 1 0 true [1%nat]).
Proof. rep_tac. Qed.

Lemma c10_repaired_holds schemas ss s :
  c10_repaired schemas ss s ->
  Inv (fst (step (run (db_init schemas) ss) s)) /\ rejected (snd (step (run (db_init schemas) ss) s)) = true.
Proof.
  intros [Hc [Hcl Hr]]. split; [|exact Hr].
  pose proof (inv_reachable_thm schemas (ss ++ [s]) Hc Hcl) as HI.
  unfold run in HI. rewrite fold_left_app in HI. exact HI.
Qed.

(** alter-add-constraint-unvalidated: ADD UNIQUE / ADD PRIMARY KEY / ADD CHECK over violating rows *)
Lemma wit_alter_add_unique :
  c10_witness [t_pk0] [SInsert 0 [i3 1 10 0; i3 2 10 0]] (SAddUnique 0 [1%nat]).
Proof. wit_uq. Qed.

Lemma wit_alter_add_pk :
  c10_witness [t_plain] [SInsert 0 [i3 1 10 0; i3 1 20 0]] (SAddPk 0 [0%nat]).
Proof. wit_pk. Qed.

Lemma wit_alter_add_check :
  c10_witness [t_pk0] [SInsert 0 [i3 1 10 0]] (SAddCheck 0 (PCmpC 1 OLt 5)).
Proof. wit_check. Qed.

(** alter-add-check-not-enforced: the CHECK added by ALTER TABLE never reaches the executors *)
Lemma wit_check_not_enforced :
  c10_witness [t_pk0] [SAddCheck 0 (PCmpC 1 OLt 5); SInsert 0 [i3 1 1 0]] (SInsert 0 [i3 2 9 0]).
Proof. wit_check. Qed.

(** Repaired (was rollback-leaves-user-index-stale, C13's defect as seen by C15): ROLLBACK now
    drops the user indexes and rebuilds those that existed at BEGIN from the restored tables.
    The former witness is a history outside every known class; the index holds exactly key 10. *)
Definition c15_repaired (schemas : list schema) (ss : list stmt) : Prop :=
  Forall created schemas /\ clean (db_init schemas) ss = true.

Lemma rep_rollback :
  c15_repaired [t_pk0] [SCreateIndex 1 0 false [1%nat]; SInsert 0 [i3 1 10 0]; SBegin; SInsert 0 [i3 2 20 0]; SRollback]
  /\ map (fun t => map ui_data (t_uidx t))
         (d_tabs (run (db_init [t_pk0]) [SCreateIndex 1 0 false [1%nat]; SInsert 0 [i3 1 10 0]; SBegin;
                                         SInsert 0 [i3 2 20 0]; SRollback]))
     = [[[([Some 10], [0%nat])]]].
Proof. split; [split; [created_tac | vm_compute; reflexivity] | vm_compute; reflexivity]. Qed.

Lemma c15_repaired_holds schemas ss :
  c15_repaired schemas ss ->
  db_hash_mirror (run (db_init schemas) ss) /\ db_user_mirror (run (db_init schemas) ss).
Proof. intros [Hc Hcl]. apply mirror_reachable_thm; assumption. Qed.

(** savepoint-undo-leaves-user-index-stale (C14's defect as seen by C15) *)
Lemma wit_savepoint_undo_stale :
  c15_witness [t_pk0] [SCreateIndex 1 0 false [1%nat]; SBegin; SInsert 0 [i3 1 10 0]; SSavepoint 1;
                       SInsert 0 [i3 2 20 0]]
              (SRollbackTo 1).
Proof. wit_mirror constr:([Some 20]). Qed.

(** every witness starts from a state in which the whole invariant holds *)
Lemma c10_witness_refutes schemas ss s :
  c10_witness schemas ss s ->
  exists d, Inv d /\ known_class s d = true /\ ~ db_constraints_hold (fst (step d s)).
Proof.
  intros [Hc [Hcl [Hk Hn]]]. exists (run (db_init schemas) ss).
  split; [apply inv_reachable_thm; assumption | split; assumption].
Qed.

Lemma c15_witness_refutes schemas ss s :
  c15_witness schemas ss s ->
  exists d, Inv d /\ known_class s d = true /\ ~ db_user_mirror (fst (step d s)).
Proof.
  intros [Hc [Hcl [Hk Hn]]]. exists (run (db_init schemas) ss).
  split; [apply inv_reachable_thm; assumption | split; assumption].
Qed.
