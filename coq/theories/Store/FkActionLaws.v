(** C12 laws, part 8: what each referential action does, exactly; orphaning statements are rejected. *)
From Coq Require Import List ZArith Bool Arith Lia.
From VibeSQL Require Import Store.Fk Store.FkLaws Store.FkDeleteLaws Store.FkStepLaws Store.FkUpdateLaws Store.FkTheorems.
Import ListNotations.

(* ------------------------------------------------------------------------------------ *)
(** * NO ACTION (and RESTRICT): the parent row is refused iff a referencing row exists *)

Definition referenced (d : db) (p : nat) (k : key) : Prop :=
  exists ct fk r, In ct d /\ In fk (t_fks ct) /\ fk_parent fk = p /\ In r (t_rows ct) /\ refs fk k r = true.

Definition all_no_action (d : db) (p : nat) : Prop :=
  forall ct fk, In ct d -> In fk (t_fks ct) -> fk_parent fk = p -> fk_ondel fk = ANoAction \/ fk_ondel fk = ARestrict.

Theorem no_action_spec : forall fuel ord d p pt pk prow ev,
  NoDup (names d) -> ord_ok ord d -> get_table d p = Some pt -> t_pk pt = Some pk -> all_no_action d p ->
  (referenced d p (proj pk prow) -> check (S fuel) ord p prow (d, ev) = OErr EConstraint (d, ev))
  /\ (~ referenced d p (proj pk prow) -> check (S fuel) ord p prow (d, ev) = OOk (d, ev)).
Proof.
  intros fuel ord d p pt pk prow ev ND O G Hpk NA. cbn [check]. unfold check_body. cbn [fst]. rewrite G, Hpk.
  set (k := proj pk prow). split.
  - intros [ct [fk [r [Hct [Hfk [Hp [Hr Href]]]]]]].
    assert (HF : has_any_fks d = true).
    { apply existsb_exists. exists ct. split; [exact Hct|]. destruct (t_fks ct); [contradiction|reflexivity]. }
    rewrite HF. cbn [negb].
    assert (Hin : In (t_name ct, fk) (collect_actions ord d p k)).
    { apply collect_In. split; [apply O; exact Hct|]. exists ct. split; [apply In_get_table; assumption|].
      repeat split; auto. apply existsb_exists. exists r. auto. }
    destruct (collect_actions ord d p k) as [|[cn0 fk0] rest] eqn:EC; [contradiction|].
    assert (Hin0 : In (cn0, fk0) (collect_actions ord d p k)) by (rewrite EC; left; reflexivity).
    apply collect_In in Hin0. destruct Hin0 as [_ [ct0 [G0 [Hf0 [Hp0 _]]]]].
    apply get_table_In in G0. destruct G0 as [Gin0 _].
    cbn [run_actions]. destruct (NA ct0 fk0 Gin0 Hf0 Hp0) as [->| ->]; reflexivity.
  - intros NR. destruct (has_any_fks d); cbn [negb]; [|reflexivity].
    destruct (collect_actions ord d p k) as [|[cn0 fk0] rest] eqn:EC; [reflexivity|].
    exfalso. apply NR.
    assert (Hin0 : In (cn0, fk0) (collect_actions ord d p k)) by (rewrite EC; left; reflexivity).
    apply collect_In in Hin0. destruct Hin0 as [_ [ct0 [G0 [Hf0 [Hp0 Hex]]]]].
    apply existsb_exists in Hex. destruct Hex as [r [Hr Href]].
    apply get_table_In in G0. destruct G0 as [Gin0 _]. exists ct0, fk0, r. auto.
Qed.

(* ------------------------------------------------------------------------------------ *)
(** * SET NULL: exactly the foreign-key columns of exactly the referencing rows *)

Theorem set_null_exact : forall cn fk k d ev ct,
  get_table d cn = Some ct ->
  (forall r, In r (t_rows ct) -> refs fk k r = true -> notnull_okb ct (null_cols (fk_cols fk) r) = true) ->
  set_null cn fk k (d, ev) =
  OOk (set_rows d cn (map (fun r => if refs fk k r then null_cols (fk_cols fk) r else r) (t_rows ct)), ev).
Proof.
  intros cn fk k d ev ct G NN. unfold set_null, rewrite_children. cbn [fst snd]. rewrite G.
  destruct (apply_collect ct (refs fk k) (set_cols (fk_cols fk) (map (fun _ => None) (fk_cols fk))) (t_rows ct) [])
    as [rs' [ok [E1 [_ [E3 E4]]]]].
  cbn [length app] in E1. rewrite E1. destruct ok.
  - destruct (E3 eq_refl) as [-> _]. reflexivity.
  - exfalso. destruct (E4 eq_refl) as [r [Hr [Hh Hn]]]. specialize (NN r Hr Hh). unfold null_cols in NN. congruence.
Qed.

(** a NOT NULL foreign-key column makes the action fail (nothing is written: the first referencing row stops it) *)
Theorem set_null_not_null_fails : forall cn fk k d ev ct r,
  get_table d cn = Some ct -> In r (t_rows ct) -> refs fk k r = true ->
  (forall x, In x (t_rows ct) -> refs fk k x = true -> notnull_okb ct (null_cols (fk_cols fk) x) = false) ->
  exists d', set_null cn fk k (d, ev) = OErr EOther (d', ev).
Proof.
  intros cn fk k d ev ct r G Hr Href NN. unfold set_null, rewrite_children. cbn [fst snd]. rewrite G.
  destruct (apply_updates ct _ (t_rows ct)) as [rs' ok] eqn:EA.
  destruct (apply_collect ct (refs fk k) (set_cols (fk_cols fk) (map (fun _ => None) (fk_cols fk))) (t_rows ct) [])
    as [rs2 [ok2 [E1 [_ [E3 _]]]]].
  cbn [length app] in E1. rewrite EA in E1. inversion E1; subst rs' ok. destruct ok2.
  - exfalso. destruct (E3 eq_refl) as [_ X]. specialize (X r Hr Href). specialize (NN r Hr Href). unfold null_cols in NN. congruence.
  - eexists. reflexivity.
Qed.

(* ------------------------------------------------------------------------------------ *)
(** * Statements that would orphan a child row are rejected *)

(** INSERT of a row whose NULL-free foreign-key tuple has no parent row *)
Theorem insert_orphan_rejected : forall d t tb rs0 r fk,
  inv d -> get_table d t = Some tb -> In r (map (apply_defaults_from tb 0) rs0) -> In fk (t_fks tb) ->
  has_null (proj (fk_cols fk) r) = false ->
  (forall pt pr, get_table d (fk_parent fk) = Some pt -> In pr (t_rows pt) -> proj (fk_pcols fk) pr <> proj (fk_cols fk) r) ->
  exists e, exec_insert d t rs0 = ((d, []), RErr e).
Proof.
  intros d t tb rs0 r fk I G Hr Hfk HN NOP. unfold exec_insert. rewrite G.
  destruct (insert_validate d tb [] (map (apply_defaults_from tb 0) rs0)) as [e|] eqn:V; [exists e; reflexivity|].
  exfalso. destruct (insert_validate_none _ _ _ _ V) as [F _]. rewrite Forall_forall in F.
  destruct (F r Hr) as [Hl [_ Hv]]. pose proof (get_table_In _ _ _ G) as [Gin _].
  destruct (validated_row_has_parents proj d tb r I Gin (fun _ _ => eq_refl) Hv fk Hfk HN) as [pt [pr [Gp [Hpr Ek]]]].
  exact (NOP pt pr Gp Hpr Ek).
Qed.

(** UPDATE: whenever the statement is accepted, every new row had all its parents *)
Theorem update_accepts_only_parented : forall ord d t tb asg wh d' ev n,
  inv d -> get_table d t = Some tb -> exec_update ord d t asg wh = ((d', ev), ROk n) ->
  forall i r nr fk, In (i, r) (select_from 0 wh (t_rows tb)) -> apply_asg tb asg r r = Some nr ->
    In fk (t_fks tb) -> has_null (proj (fk_cols fk) nr) = false ->
    exists pt pr, get_table d (fk_parent fk) = Some pt /\ In pr (t_rows pt) /\ proj (fk_pcols fk) pr = proj (fk_cols fk) nr.
Proof.
  intros ord d t tb asg wh d' ev n I G E i r nr fk Hsel Ha Hfk HN. unfold exec_update in E. rewrite G in E.
  pose proof (get_table_In _ _ _ G) as [Gin _].
  destruct (negb (forallb (fun a => Nat.ltb (fst a) (ncols tb)) asg)).
  { destruct (select_from 0 wh (t_rows tb)); [contradiction|inversion E]. }
  destruct (plan_updates d tb asg (select_from 0 wh (t_rows tb))) as [ups|] eqn:EP; try (inversion E; fail).
  destruct (plan_updates_spec _ _ _ _ _ EP) as [ESEL PL]. rewrite Forall_forall in PL.
  rewrite <- ESEL in Hsel. apply in_map_iff in Hsel. destruct Hsel as [u [Eu Hu]]. inversion Eu as [[Ei Er]].
  destruct (PL u Hu) as [Ha' [_ [_ Hv]]]. rewrite Er in Ha'. rewrite Ha in Ha'. injection Ha' as En. subst nr.
  eapply (validated_row_has_parents proj d tb (upd_new u)); eauto.
Qed.

