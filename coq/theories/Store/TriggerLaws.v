(** * Store/TriggerLaws.v — C34: which triggers fire, how often, in which order, with which images

    Proofs about Store/Trigger.v and Store/Atomic.v.  [fired] / [spec_*] are the specification lists; the
    theorems say that the firing list the executors' model produces IS the specification list (successful
    statements), that every firing of every outcome is legitimate ([firing_facts]), and where the code departs from
    "once per affected row, in per-row order, for every matching trigger" ([*_refuted], with universal companions). *)
From Coq Require Import List ZArith Bool Arith Lia Permutation.
From VibeSQL Require Import Store.Trigger Store.Atomic.
Import ListNotations.

(** ** The specification of one firing loop *)
Definition when_fires (tr : trig) (o n : option row) : bool :=
  match t_when tr with
  | None => true
  | Some c => match eval_when c o n with Some true => true | _ => false end
  end.

Definition when_errs (tr : trig) (o n : option row) : bool :=
  match t_when tr with
  | None => false
  | Some c => match eval_when c o n with None => true | Some _ => false end
  end.

(** the firings of a loop over [trs] in which every body completed *)
Definition fired (trs : list trig) (o n : option row) : list firing :=
  map (fun tr => mkFiring tr o n None) (filter (fun tr => when_fires tr o n) trs).

Section FiringLaws.
  Variable DB : Type.
  Variable run_body : trig -> option row -> option row -> DB -> DB * option (nat * bool).

  Lemma execute_trigger_skip : forall tr o n d,
    when_fires tr o n = false -> when_errs tr o n = false ->
    execute_trigger DB run_body tr o n d = (d, [], None).
  Proof.
    intros tr o n d Hf He. unfold execute_trigger, when_fires, when_errs in *.
    destruct (t_when tr) as [c|]; [|discriminate].
    destruct (eval_when c o n) as [[|]|]; try discriminate; reflexivity.
  Qed.

  Lemma fire_list_ok : forall trs o n d d' log,
    fire_list DB run_body trs o n d = (d', log, None) -> log = fired trs o n.
  Proof.
    induction trs as [|tr rest IH]; intros o n d d' log H; cbn [fire_list] in H.
    - inversion H; reflexivity.
    - unfold fired; cbn [filter].
      destruct (execute_trigger DB run_body tr o n d) as [[d1 l1] r1] eqn:E.
      destruct r1 as [c|]; [discriminate|].
      destruct (fire_list DB run_body rest o n d1) as [[d2 l2] r2] eqn:E2.
      inversion H; subst. apply IH in E2. subst l2.
      unfold execute_trigger in E. unfold when_fires at 1.
      destruct (t_when tr) as [c|].
      + destruct (eval_when c o n) as [[|]|]; try discriminate.
        * destruct (run_body tr o n d) as [dd [[j q]|]]; inversion E; subst. reflexivity.
        * inversion E; subst. reflexivity.
      + destruct (run_body tr o n d) as [dd [[j q]|]]; inversion E; subst. reflexivity.
  Qed.

  (** a failing loop: the log is the specification of the triggers in front of the failing one, followed by the
      failing firing itself unless it was its WHEN condition that failed *)
  Lemma fire_list_err : forall trs o n d d' log c,
    fire_list DB run_body trs o n d = (d', log, Some c) ->
    exists pre tr post,
      trs = pre ++ tr :: post /\
      ((c = CzWhen (t_id tr) /\ when_errs tr o n = true /\ log = fired pre o n) \/
       (exists j q, c = CzBody (t_id tr) j /\ when_fires tr o n = true /\
                    log = fired pre o n ++ [mkFiring tr o n (Some (j, q))])).
  Proof.
    induction trs as [|tr rest IH]; intros o n d d' log c H; cbn [fire_list] in H.
    - discriminate.
    - destruct (execute_trigger DB run_body tr o n d) as [[d1 l1] r1] eqn:E.
      destruct r1 as [c1|].
      + inversion H; subst. exists [], tr, rest. split; [reflexivity|].
        unfold execute_trigger in E. unfold when_fires, when_errs.
        destruct (t_when tr) as [w|].
        * destruct (eval_when w o n) as [[|]|]; try discriminate.
          -- destruct (run_body tr o n d) as [dd [[j q]|]]; inversion E; subst.
             right. exists j, q. auto.
          -- inversion E; subst. left. auto.
        * destruct (run_body tr o n d) as [dd [[j q]|]]; inversion E; subst.
          right. exists j, q. auto.
      + destruct (fire_list DB run_body rest o n d1) as [[d2 l2] r2] eqn:E2.
        inversion H; subst.
        apply IH in E2. destruct E2 as (pre & tr' & post & Hs & Hc).
        exists (tr :: pre), tr', post. split; [rewrite Hs; reflexivity|].
        assert (Hl1 : l1 = fired [tr] o n).
        { apply (fire_list_ok [tr] o n d d1). cbn [fire_list]. rewrite E. rewrite app_nil_r. reflexivity. }
        assert (Hcons : forall l, fired (tr :: l) o n = fired [tr] o n ++ fired l o n).
        { intro l. unfold fired. cbn [filter]. destruct (when_fires tr o n); reflexivity. }
        destruct Hc as [(Hc & Hw & Hl) | (j & q & Hc & Hw & Hl)].
        * left. rewrite Hcons, Hl, Hl1. auto.
        * right. exists j, q. rewrite Hcons, Hl, Hl1, app_assoc. auto.
  Qed.
End FiringLaws.

(** ** The specification lists of the three executors (in the order the code uses) *)
Definition spec_stmt (ctx : tctx) (trigs : list trig) (t : nat) (tm : timing) (ev : event) : list firing :=
  if is_none ctx then fired (stmt_triggers trigs t tm ev) None None else [].

Definition spec_row (trigs : list trig) (t : nat) (tm : timing) (ev : event) (img : option row * option row) : list firing :=
  fired (row_triggers trigs t tm ev (fst img) (snd img)) (fst img) (snd img).

(** INSERT: statement-BEFORE, then per row BEFORE then AFTER, then statement-AFTER *)
Definition spec_insert (ctx : tctx) (trigs : list trig) (t : nat) (rows : list row) : list firing :=
  spec_stmt ctx trigs t Before EvInsert
  ++ flat_map (fun r => spec_row trigs t Before EvInsert (None, Some r) ++ spec_row trigs t After EvInsert (None, Some r)) rows
  ++ spec_stmt ctx trigs t After EvInsert.

(** UPDATE / DELETE: statement-BEFORE, BEFORE ROW of every row, (apply), AFTER ROW of every row, statement-AFTER *)
Definition spec_two_pass (ctx : tctx) (trigs : list trig) (t : nat) (ev : event) (imgs : list (option row * option row)) : list firing :=
  spec_stmt ctx trigs t Before ev
  ++ flat_map (spec_row trigs t Before ev) imgs
  ++ flat_map (spec_row trigs t After ev) imgs
  ++ spec_stmt ctx trigs t After ev.

(** the order the SQL standard prescribes: per affected row BEFORE then AFTER *)
Definition spec_per_row (ctx : tctx) (trigs : list trig) (t : nat) (ev : event) (imgs : list (option row * option row)) : list firing :=
  spec_stmt ctx trigs t Before ev
  ++ flat_map (fun im => spec_row trigs t Before ev im ++ spec_row trigs t After ev im) imgs
  ++ spec_stmt ctx trigs t After ev.

Lemma flat_map_app_perm : forall {A B} (f g : A -> list B) (l : list A),
  Permutation (flat_map f l ++ flat_map g l) (flat_map (fun x => f x ++ g x) l).
Proof.
  induction l as [|x l IH]; cbn [flat_map]; [constructor|].
  rewrite <- !app_assoc.
  apply Permutation_app_head.
  transitivity ((flat_map f l ++ flat_map g l) ++ g x).
  - rewrite <- app_assoc. apply Permutation_app_head. apply Permutation_app_comm.
  - transitivity (g x ++ (flat_map f l ++ flat_map g l)); [apply Permutation_app_comm|].
    apply Permutation_app_head. exact IH.
Qed.

Lemma spec_two_pass_perm : forall ctx trigs t ev imgs,
  Permutation (spec_two_pass ctx trigs t ev imgs) (spec_per_row ctx trigs t ev imgs).
Proof.
  intros. unfold spec_two_pass, spec_per_row.
  apply Permutation_app_head. rewrite app_assoc. apply Permutation_app_tail.
  apply flat_map_app_perm.
Qed.

(** ** What can be in a firing list at all *)
(** a firing of an executor working on table [t] for event [ev]: the trigger was found by find_triggers with the
    *whole* event and timing BEFORE or AFTER (so it is enabled, on [t], not an UPDATE OF or INSTEAD OF trigger), its
    WHEN condition evaluated to TRUE on the images, and a statement-level trigger saw no images *)
Definition legit (trigs : list trig) (t : nat) (ev : event) (f : firing) : Prop :=
  (exists tm, (tm = Before \/ tm = After) /\ In (f_trig f) (find_triggers trigs t tm ev))
  /\ when_fires (f_trig f) (f_old f) (f_new f) = true
  /\ (t_gran (f_trig f) = GStmt -> f_old f = None /\ f_new f = None).

Lemma fired_in : forall trs o n f, In f (fired trs o n) ->
  In (f_trig f) trs /\ f_old f = o /\ f_new f = n /\ when_fires (f_trig f) o n = true.
Proof.
  intros trs o n f H. unfold fired in H. apply in_map_iff in H. destruct H as (tr & Hf & Hin).
  apply filter_In in Hin. destruct Hin as [Hin Hw]. subst f. cbn. auto.
Qed.

Lemma gran_eqb_true : forall a b, gran_eqb a b = true -> a = b.
Proof. destruct a, b; cbn; congruence. Qed.

Section ExecFiring.
  Variable run_body : trig -> option row -> option row -> db -> db * option (nat * bool).

  Notation fireS := (fire_stmt db run_body true).
  Notation fireR := (fire_row db run_body true).
  Notation fireRs := (fire_rows db run_body true).

  Lemma fire_stmt_ok : forall trigs t tm ev d d' log,
    fireS trigs t tm ev d = (d', log, None) -> log = fired (stmt_triggers trigs t tm ev) None None.
  Proof. intros. unfold fire_stmt in H. eapply fire_list_ok; eauto. Qed.

  Lemma fire_row_ok : forall trigs t tm ev o n d d' log,
    fireR trigs t tm ev o n d = (d', log, None) -> log = spec_row trigs t tm ev (o, n).
  Proof. intros. unfold fire_row in H. unfold spec_row. cbn [fst snd]. eapply fire_list_ok; eauto. Qed.

  Lemma fire_rows_ok : forall trigs t tm ev imgs k d d' log,
    fireRs trigs t tm ev imgs k d = (d', log, None) -> log = flat_map (spec_row trigs t tm ev) imgs.
  Proof.
    induction imgs as [|[o n] rest IH]; intros k d d' log H; cbn [fire_rows] in H.
    - inversion H; reflexivity.
    - destruct (fire_row db run_body true trigs t tm ev o n d) as [[d1 l1] r1] eqn:E1.
      destruct r1; [discriminate|].
      destruct (fire_rows db run_body true trigs t tm ev rest (S k) d1) as [[d2 l2] r2] eqn:E2.
      inversion H; subst. cbn [flat_map]. f_equal.
      + eapply fire_row_ok; eauto.
      + eapply IH; eauto.
  Qed.

  Lemma opt_stmt_ok : forall (ctx : tctx) trigs t tm ev d d' log,
    (if is_none ctx then fireS trigs t tm ev d else (d, [], None)) = (d', log, None) ->
    log = spec_stmt ctx trigs t tm ev.
  Proof.
    intros. unfold spec_stmt. destruct (is_none ctx).
    - eapply fire_stmt_ok; eauto.
    - inversion H; reflexivity.
  Qed.

  Lemma insert_slow_ok : forall trigs t rows k d d' log cnt,
    insert_slow run_body true trigs t rows k d = (d', log, None, cnt) ->
    log = flat_map (fun r => spec_row trigs t Before EvInsert (None, Some r) ++ spec_row trigs t After EvInsert (None, Some r)) rows
    /\ cnt = k + length rows.
  Proof.
    induction rows as [|r rest IH]; intros k d d' log cnt H; cbn [insert_slow] in H.
    - inversion H; subst. split; [reflexivity|cbn; lia].
    - unfold Atomic.fireR in H.
      destruct (fire_row db run_body true trigs t Before EvInsert None (Some r) d) as [[d1 l1] r1] eqn:E1.
      destruct r1; [discriminate|].
      destruct (get_table d1 t) as [tb1|]; [|discriminate].
      destruct (fire_row db run_body true trigs t After EvInsert None (Some r) (push_row d1 t r)) as [[d3 l3] r3] eqn:E3.
      destruct r3; [discriminate|].
      destruct (insert_slow run_body true trigs t rest (S k) d3) as [[[d4 l4] r4] k4] eqn:E4.
      inversion H; subst.
      apply IH in E4. destruct E4 as [Hl Hc].
      apply fire_row_ok in E1. apply fire_row_ok in E3. subst.
      split; [cbn [flat_map]; rewrite <- app_assoc; reflexivity | cbn [length]; lia].
  Qed.

  Lemma fire_list_in : forall trs o n d d' log r f,
    fire_list db run_body trs o n d = (d', log, r) -> In f log ->
    In (f_trig f) trs /\ f_old f = o /\ f_new f = n /\ when_fires (f_trig f) o n = true.
  Proof.
    intros trs o n d d' log r f H Hin. destruct r as [c|].
    - apply fire_list_err in H. destruct H as (pre & tr & post & Hs & [(Hc & Hw & Hl) | (j & q & Hc & Hw & Hl)]); subst.
      + apply fired_in in Hin. destruct Hin as (Hi & Ho & Hn & Hw'). repeat split; auto. apply in_or_app; auto.
      + apply in_app_or in Hin. destruct Hin as [Hin | [Hin | []]].
        * apply fired_in in Hin. destruct Hin as (Hi & Ho & Hn & Hw'). repeat split; auto. apply in_or_app; auto.
        * subst f. cbn. repeat split; auto. apply in_or_app; right; left; reflexivity.
    - apply fire_list_ok in H. subst. apply fired_in in Hin. tauto.
  Qed.

  Lemma fire_stmt_legit : forall b trigs t tm ev d d' log r,
    fire_stmt db run_body b trigs t tm ev d = (d', log, r) -> tm = Before \/ tm = After ->
    Forall (legit trigs t ev) log.
  Proof.
    intros b trigs t tm ev d d' log r H Htm. unfold fire_stmt in H. destruct b.
    - apply Forall_forall. intros f Hin. destruct (fire_list_in _ _ _ _ _ _ _ _ H Hin) as (Hi & Ho & Hn & Hw).
      unfold stmt_triggers in Hi. apply filter_In in Hi. destruct Hi as [Hi Hg].
      split; [exists tm; auto|]. split; [rewrite Ho, Hn; exact Hw|]. intros _. auto.
    - inversion H; constructor.
  Qed.

  Lemma fire_stmt_gran : forall b trigs t tm ev d d' log r,
    fire_stmt db run_body b trigs t tm ev d = (d', log, r) -> Forall (fun f => t_gran (f_trig f) = GStmt) log.
  Proof.
    intros b trigs t tm ev d d' log r H. unfold fire_stmt in H. destruct b; [|inversion H; constructor].
    apply Forall_forall. intros f Hin. destruct (fire_list_in _ _ _ _ _ _ _ _ H Hin) as (Hi & _).
    unfold stmt_triggers in Hi. apply filter_In in Hi. destruct Hi as [_ Hg]. apply gran_eqb_true in Hg. exact Hg.
  Qed.

  Lemma opt_stmt_gran : forall b (ctx : tctx) trigs t tm ev d d' log r,
    (if is_none ctx then fire_stmt db run_body b trigs t tm ev d else (d, [], None)) = (d', log, r) ->
    Forall (fun f => t_gran (f_trig f) = GStmt) log.
  Proof. intros. destruct (is_none ctx); [eapply fire_stmt_gran; eauto|inversion H; constructor]. Qed.

  Lemma fire_row_legit : forall b trigs t tm ev o n d d' log r,
    fire_row db run_body b trigs t tm ev o n d = (d', log, r) -> tm = Before \/ tm = After ->
    Forall (fun f => legit trigs t ev f /\ f_old f = o /\ f_new f = n /\ t_gran (f_trig f) = GRow) log.
  Proof.
    intros b trigs t tm ev o n d d' log r H Htm. unfold fire_row in H. destruct b.
    - apply Forall_forall. intros f Hin. destruct (fire_list_in _ _ _ _ _ _ _ _ H Hin) as (Hi & Ho & Hn & Hw).
      unfold row_triggers in Hi. apply filter_In in Hi. destruct Hi as [Hi Hg].
      apply andb_prop in Hg. destruct Hg as [Hg _]. apply gran_eqb_true in Hg.
      split; [|auto]. split; [exists tm; auto|]. split; [rewrite Ho, Hn; exact Hw|].
      intro Hs. rewrite Hg in Hs. discriminate.
    - inversion H; constructor.
  Qed.

  Lemma fire_rows_legit : forall b trigs t tm ev imgs k d d' log r,
    fire_rows db run_body b trigs t tm ev imgs k d = (d', log, r) -> tm = Before \/ tm = After ->
    Forall (fun f => legit trigs t ev f /\ In (f_old f, f_new f) imgs /\ t_gran (f_trig f) = GRow) log.
  Proof.
    induction imgs as [|[o n] rest IH]; intros k d d' log r H Htm; cbn [fire_rows] in H.
    - inversion H; constructor.
    - destruct (fire_row db run_body b trigs t tm ev o n d) as [[d1 l1] r1] eqn:E1.
      apply fire_row_legit in E1; [|exact Htm].
      assert (H1 : Forall (fun f => legit trigs t ev f /\ In (f_old f, f_new f) ((o, n) :: rest) /\ t_gran (f_trig f) = GRow) l1).
      { eapply Forall_impl; [|exact E1]. cbn beta. intros f (Hl & Ho & Hn & Hg). subst. split; [exact Hl|]. split; [left; reflexivity|exact Hg]. }
      destruct r1.
      + inversion H; subst. exact H1.
      + destruct (fire_rows db run_body b trigs t tm ev rest (S k) d1) as [[d2 l2] r2] eqn:E2.
        inversion H; subst. apply Forall_app. split; [exact H1|].
        apply IH in E2; [|exact Htm]. eapply Forall_impl; [|exact E2]. cbn beta.
        intros f (Hl & Hi & Hg). split; [exact Hl|]. split; [right; exact Hi|exact Hg].
  Qed.

  (** no trigger is defined for INSERT on [t]: nothing can fire *)
  Lemma no_triggers_spec : forall trigs t ev,
    triggers_for_table trigs t ev = [] ->
    (forall tm, stmt_triggers trigs t tm ev = []) /\ (forall tm o n, row_triggers trigs t tm ev o n = []).
  Proof.
    intros trigs t ev H. split; intros; unfold stmt_triggers, row_triggers, find_triggers; rewrite H; reflexivity.
  Qed.

  Lemma hd_error_none : forall {A} (l : list A), is_none (hd_error l) = true -> l = [].
  Proof. destruct l; [reflexivity|discriminate]. Qed.

  Lemma flat_map_nil : forall {A B} (l : list A), flat_map (fun _ : A => @nil B) l = [].
  Proof. induction l; cbn; auto. Qed.

  (** *** INSERT: the firing list of a successful statement is the specification list *)
  Theorem insert_rows_fires_once : forall ctx d t tb rows d' log n vrows,
    do_insert_rows run_body true ctx d t tb rows = (d', log, Ok n) ->
    validate_rows d tb ctx rows 0 [] = inr vrows ->
    log = spec_insert ctx (d_trigs d) t vrows /\ n = length vrows.
  Proof.
    intros ctx d t tb rows d' log n vrows H Hv. unfold do_insert_rows in H.
    destruct (negb (forallb (fun es => Nat.eqb (length es) (s_ncols (tb_schema tb))) rows)); [discriminate|].
    rewrite Hv in H. unfold Atomic.fireS in H.
    destruct (if is_none ctx then fire_stmt db run_body true (d_trigs d) t Before EvInsert d else (d, [], None)) as [[d1 l1] r1] eqn:E1.
    destruct r1; [discriminate|].
    apply opt_stmt_ok in E1.
    destruct (negb (negb (is_none (hd_error (triggers_for_table (d_trigs d) t EvInsert)))) && (1 <? length vrows)) eqn:Eb.
    - (* batch path: no INSERT trigger exists *)
      apply andb_prop in Eb. destruct Eb as [Eb _]. rewrite negb_involutive in Eb.
      apply hd_error_none in Eb. destruct (no_triggers_spec _ _ _ Eb) as [Hs Hr].
      destruct (if is_none ctx then fire_stmt db run_body true (d_trigs d) t After EvInsert _ else _) as [[d3 l3] r3] eqn:E3.
      destruct r3; [discriminate|]. apply opt_stmt_ok in E3. inversion H; subst.
      split; [|reflexivity].
      unfold spec_insert, spec_stmt, spec_row. cbn [fst snd]. rewrite !Hs. 
      destruct (is_none ctx); cbn [fired map filter app];
        (erewrite flat_map_ext; [rewrite flat_map_nil; reflexivity|]); intros; rewrite !Hr; reflexivity.
    - destruct (insert_slow run_body true (d_trigs d) t vrows 0 d1) as [[[d2 l2] r2] cnt] eqn:E2.
      destruct r2 as [[s c]|]; [discriminate|].
      destruct (if is_none ctx then fire_stmt db run_body true (d_trigs d) t After EvInsert d2 else (d2, [], None)) as [[d3 l3] r3] eqn:E3.
      destruct r3; [discriminate|]. apply opt_stmt_ok in E3. inversion H; subst.
      apply insert_slow_ok in E2. destruct E2 as [Hl Hc]. subst.
      split; [reflexivity|cbn; lia].
  Qed.

  (** *** UPDATE *)
  Theorem update_fires_once : forall ctx d t asg w d' log n,
    do_update run_body true ctx d t asg w = (d', log, Ok n) ->
    exists d1 tb ups,
      (if is_none ctx then fireS (d_trigs d) t Before (EvUpdate (Some (map fst asg))) d else (d, [], None))
        = (d1, spec_stmt ctx (d_trigs d) t Before (EvUpdate (Some (map fst asg))), None)
      /\ get_table d1 t = Some tb
      /\ update_plan ctx d1 tb asg w = inr ups
      /\ log = spec_two_pass ctx (d_trigs d) t (EvUpdate (Some (map fst asg))) (images ups)
      /\ n = length ups.
  Proof.
    intros ctx d t asg w d' log n H. unfold do_update in H. unfold Atomic.fireS, Atomic.fireRs in H.
    destruct (if is_none ctx then fire_stmt db run_body true (d_trigs d) t Before (EvUpdate (Some (map fst asg))) d else (d, [], None)) as [[d1 l1] r1] eqn:E1.
    destruct r1; [discriminate|].
    destruct (get_table d1 t) as [tb|] eqn:Et; [|discriminate].
    destruct (update_plan ctx d1 tb asg w) as [k|ups] eqn:Ep; [discriminate|].
    destruct (match s_pk (tb_schema tb) with
              | Some c => if match s_pk (tb_schema tb) with Some c0 => existsb (fun a => Nat.eqb (fst a) c0) asg | None => false end
                          then cascade_updates t c ups 0 d1 0 else (d1, None, 0)
              | None => (d1, None, 0) end) as [[d2 r2] m2] eqn:E2.
    destruct r2; [discriminate|].
    destruct (fire_rows db run_body true (d_trigs d) t Before (EvUpdate (Some (map fst asg))) (images ups) 0 d2) as [[d3 l3] r3] eqn:E3.
    destruct r3 as [[k c]|]; [discriminate|].
    destruct (apply_updates t ups 0 d3) as [[d4 r4] m4] eqn:E4.
    destruct r4; [discriminate|].
    destruct (fire_rows db run_body true (d_trigs d) t After (EvUpdate (Some (map fst asg))) (images ups) 0 d4) as [[d5 l5] r5] eqn:E5.
    destruct r5 as [[k c]|]; [discriminate|].
    destruct (if is_none ctx then fire_stmt db run_body true (d_trigs d) t After (EvUpdate (Some (map fst asg))) d5 else (d5, [], None)) as [[d6 l6] r6] eqn:E6.
    destruct r6; [discriminate|].
    inversion H; subst.
    pose proof (opt_stmt_ok _ _ _ _ _ _ _ _ E1) as H1. apply opt_stmt_ok in E6.
    apply fire_rows_ok in E3. apply fire_rows_ok in E5. subst.
    exists d1, tb, ups. repeat split; auto.
  Qed.

  (** *** DELETE *)
  Definition delete_images (ctx : tctx) (tb : table) (w : option cond) : list (option row * option row) :=
    map (fun ir => (Some (snd ir), @None row)) (collect_rows ctx w (indexed 0 (tb_rows tb))).

  Lemma can_truncate_no_triggers : forall d t, can_use_truncate d t = true -> triggers_for_table (d_trigs d) t EvDelete = [].
  Proof.
    intros d t H. unfold can_use_truncate in H. apply andb_prop in H. destruct H as [H _].
    apply hd_error_none in H. exact H.
  Qed.

  Lemma spec_two_pass_no_triggers : forall ctx trigs t ev imgs,
    triggers_for_table trigs t ev = [] -> spec_two_pass ctx trigs t ev imgs = [].
  Proof.
    intros ctx trigs t ev imgs H. destruct (no_triggers_spec _ _ _ H) as [Hs Hr].
    unfold spec_two_pass, spec_stmt, spec_row. rewrite !Hs.
    assert (Hf : forall tm, flat_map (fun img : option row * option row =>
                   fired (row_triggers trigs t tm ev (fst img) (snd img)) (fst img) (snd img)) imgs = []).
    { intro tm. erewrite flat_map_ext; [apply flat_map_nil|]. intros; rewrite Hr; reflexivity. }
    rewrite !Hf. destruct (is_none ctx); reflexivity.
  Qed.

  Theorem delete_fires_once : forall ctx d t w d' log n tb,
    do_delete run_body true ctx d t w = (d', log, Ok n) ->
    get_table d t = Some tb ->
    log = spec_two_pass ctx (d_trigs d) t EvDelete (delete_images ctx tb w).
  Proof.
    intros ctx d t w d' log n tb H Ht. unfold do_delete in H. rewrite Ht in H.
    destruct (is_none w && can_use_truncate d t) eqn:Etr.
    - inversion H; subst. apply andb_prop in Etr. destruct Etr as [_ Hc].
      symmetry. apply spec_two_pass_no_triggers. apply can_truncate_no_triggers; exact Hc.
    - unfold delete_images. unfold Atomic.fireS, Atomic.fireRs in H.
      destruct (if is_none ctx then fire_stmt db run_body true (d_trigs d) t Before EvDelete d else (d, [], None)) as [[d1 l1] r1] eqn:E1.
      destruct r1; [discriminate|].
      match type of H with context [fire_rows db run_body true (d_trigs d) t Before EvDelete ?im 0 d1] =>
        destruct (fire_rows db run_body true (d_trigs d) t Before EvDelete im 0 d1) as [[d2 l2] r2] eqn:E2 end.
      destruct r2 as [[k c]|]; [discriminate|].
      destruct (match s_pk (tb_schema tb) with
                | Some c => cascade_deletes t c (collect_rows ctx w (indexed 0 (tb_rows tb))) 0 d2 0
                | None => (d2, None, 0) end) as [[d3 r3] m3] eqn:E3.
      destruct r3; [discriminate|].
      destruct (get_table d3 t) as [tb3|]; [|discriminate].
      match type of H with context [fire_rows db run_body true (d_trigs d) t After EvDelete ?im 0 ?dd] =>
        destruct (fire_rows db run_body true (d_trigs d) t After EvDelete im 0 dd) as [[d5 l5] r5] eqn:E5 end.
      destruct r5 as [[k c]|]; [discriminate|].
      match type of H with context [if is_none ctx then fire_stmt db run_body true (d_trigs d) t After EvDelete ?dd else _] =>
        destruct (if is_none ctx then fire_stmt db run_body true (d_trigs d) t After EvDelete dd else (dd, [], None)) as [[d6 l6] r6] eqn:E6 end.
      destruct r6; [discriminate|].
      inversion H; subst.
      apply opt_stmt_ok in E1. apply opt_stmt_ok in E6. apply fire_rows_ok in E2. apply fire_rows_ok in E5. subst.
      reflexivity.
  Qed.

  (** *** every firing of every outcome (Ok or Err, any depth) is legitimate *)
  Definition ok_firing (ctx : tctx) (trigs : list trig) (t : nat) (ev : event) (f : firing) : Prop :=
    legit trigs t ev f /\ (ctx <> None -> t_gran (f_trig f) = GRow).

  Lemma rows_to_ok : forall ctx trigs t ev (P : firing -> Prop) log,
    Forall (fun f => legit trigs t ev f /\ P f /\ t_gran (f_trig f) = GRow) log -> Forall (ok_firing ctx trigs t ev) log.
  Proof. intros. eapply Forall_impl; [|exact H]. cbn beta. intros f (Hl & _ & Hg). split; auto. Qed.

  Lemma row_to_ok : forall ctx trigs t ev o n log,
    Forall (fun f => legit trigs t ev f /\ f_old f = o /\ f_new f = n /\ t_gran (f_trig f) = GRow) log ->
    Forall (ok_firing ctx trigs t ev) log.
  Proof. intros. eapply Forall_impl; [|exact H]. cbn beta. intros f (Hl & _ & _ & Hg). split; auto. Qed.

  Lemma opt_stmt_legit : forall b (ctx : tctx) trigs t tm ev d d' log r,
    (if is_none ctx then fire_stmt db run_body b trigs t tm ev d else (d, [], None)) = (d', log, r) ->
    tm = Before \/ tm = After -> Forall (ok_firing ctx trigs t ev) log.
  Proof.
    intros b ctx trigs t tm ev d d' log r H Htm. destruct ctx as [c|]; cbn [is_none] in H.
    - inversion H; constructor.
    - apply fire_stmt_legit in H; [|exact Htm]. eapply Forall_impl; [|exact H]. cbn beta.
      intros f Hl. split; [exact Hl|]. intro Hc; congruence.
  Qed.

  Lemma insert_slow_legit : forall b ctx trigs t rows k d d' log r cnt,
    insert_slow run_body b trigs t rows k d = (d', log, r, cnt) -> Forall (ok_firing ctx trigs t EvInsert) log.
  Proof.
    induction rows as [|r0 rest IH]; intros k d d' log r cnt H; cbn [insert_slow] in H.
    - inversion H; constructor.
    - unfold Atomic.fireR in H.
      destruct (fire_row db run_body b trigs t Before EvInsert None (Some r0) d) as [[d1 l1] r1] eqn:E1.
      apply fire_row_legit in E1; [|auto]. apply (row_to_ok ctx) in E1.
      destruct r1; [inversion H; subst; exact E1|].
      destruct (get_table d1 t) as [tb1|]; [|inversion H; subst; exact E1].
      destruct (fire_row db run_body b trigs t After EvInsert None (Some r0) (push_row d1 t r0)) as [[d3 l3] r3] eqn:E3.
      apply fire_row_legit in E3; [|auto]. apply (row_to_ok ctx) in E3.
      destruct r3; [inversion H; subst; apply Forall_app; auto|].
      destruct (insert_slow run_body b trigs t rest (S k) d3) as [[[d4 l4] r4] k4] eqn:E4.
      inversion H; subst. apply IH in E4. repeat (apply Forall_app; split); auto.
  Qed.

  Lemma do_insert_rows_legit : forall b ctx d t tb rows d' log o,
    do_insert_rows run_body b ctx d t tb rows = (d', log, o) -> Forall (ok_firing ctx (d_trigs d) t EvInsert) log.
  Proof.
    intros b ctx d t tb rows d' log o H. unfold do_insert_rows in H.
    destruct (negb (forallb _ rows)); [inversion H; constructor|].
    destruct (validate_rows d tb ctx rows 0 []) as [k|vrows]; [inversion H; constructor|].
    unfold Atomic.fireS in H.
    destruct (if is_none ctx then fire_stmt db run_body b (d_trigs d) t Before EvInsert d else (d, [], None)) as [[d1 l1] r1] eqn:E1.
    apply opt_stmt_legit in E1; [|auto].
    destruct r1; [inversion H; subst; exact E1|].
    destruct (negb (negb (is_none (hd_error (triggers_for_table (d_trigs d) t EvInsert)))) && (1 <? length vrows)).
    - destruct (if is_none ctx then fire_stmt db run_body b (d_trigs d) t After EvInsert _ else _) as [[d3 l3] r3] eqn:E3.
      apply opt_stmt_legit in E3; [|auto].
      destruct r3; inversion H; subst; repeat (apply Forall_app; split); auto.
    - destruct (insert_slow run_body b (d_trigs d) t vrows 0 d1) as [[[d2 l2] r2] cnt] eqn:E2.
      apply (insert_slow_legit b ctx) in E2.
      destruct r2 as [[s c]|]; [inversion H; subst; apply Forall_app; auto|].
      destruct (if is_none ctx then fire_stmt db run_body b (d_trigs d) t After EvInsert d2 else (d2, [], None)) as [[d3 l3] r3] eqn:E3.
      apply opt_stmt_legit in E3; [|auto].
      destruct r3; inversion H; subst; repeat (apply Forall_app; split); auto.
  Qed.

  (** the bulk-transfer path is only entered when no INSERT trigger exists on the destination: it fires nothing, and
      nothing is what the specification list asks for *)
  Lemma spec_insert_no_triggers : forall ctx trigs t rows,
    triggers_for_table trigs t EvInsert = [] -> spec_insert ctx trigs t rows = [].
  Proof.
    intros ctx trigs t rows H. destruct (no_triggers_spec _ _ _ H) as [Hs Hr].
    unfold spec_insert, spec_stmt, spec_row. cbn [fst snd]. rewrite !Hs.
    assert (Hf : flat_map (fun r : row => fired (row_triggers trigs t Before EvInsert None (Some r)) None (Some r)
                                       ++ fired (row_triggers trigs t After EvInsert None (Some r)) None (Some r)) rows = []).
    { erewrite flat_map_ext; [apply flat_map_nil|]. intros; rewrite !Hr; reflexivity. }
    rewrite Hf. destruct (is_none ctx); reflexivity.
  Qed.

  Lemma bulk_path_fires_as_specified : forall b ctx d t src dst s d' log o,
    do_insert_select run_body b ctx d t src true = (d', log, o) ->
    get_table d t = Some dst -> get_table d src = Some s ->
    is_none (hd_error (triggers_for_table (d_trigs d) t EvInsert)) && bulk_eligible dst s = true ->
    log = [] /\ forall rows, spec_insert ctx (d_trigs d) t rows = [].
  Proof.
    intros b ctx d t src dst s d' log o H Ht Hs He. unfold do_insert_select in H. rewrite Ht, Hs in H.
    cbn [andb] in H. rewrite He in H. destruct (bulk_transfer d t dst (tb_rows s)) as [dd oo]. inversion H; subst.
    split; [reflexivity|]. intro rows. apply spec_insert_no_triggers. apply andb_prop in He. destruct He as [He _].
    apply hd_error_none. exact He.
  Qed.

  Lemma do_insert_select_legit : forall b ctx d t src star d' log o,
    do_insert_select run_body b ctx d t src star = (d', log, o) -> Forall (ok_firing ctx (d_trigs d) t EvInsert) log.
  Proof.
    intros b ctx d t src star d' log o H. unfold do_insert_select in H.
    destruct (get_table d t) as [dst|]; [|inversion H; constructor].
    destruct (get_table d src) as [s|]; [|inversion H; constructor].
    destruct (star && is_none (hd_error (triggers_for_table (d_trigs d) t EvInsert)) && bulk_eligible dst s).
    - destruct (bulk_transfer d t dst (tb_rows s)) as [dd oo]. inversion H; constructor.
    - destruct (Nat.eqb _ _); [|inversion H; constructor]. eapply do_insert_rows_legit; eauto.
  Qed.
  Lemma do_update_legit : forall b ctx d t asg w d' log o,
    do_update run_body b ctx d t asg w = (d', log, o) -> Forall (ok_firing ctx (d_trigs d) t (EvUpdate (Some (map fst asg)))) log.
  Proof.
    intros b ctx d t asg w d' log o H. unfold do_update in H. unfold Atomic.fireS, Atomic.fireRs in H.
    destruct (if is_none ctx then fire_stmt db run_body b (d_trigs d) t Before (EvUpdate (Some (map fst asg))) d else (d, [], None)) as [[d1 l1] r1] eqn:E1.
    apply opt_stmt_legit in E1; [|auto].
    destruct r1; [inversion H; subst; exact E1|].
    destruct (get_table d1 t) as [tb|] eqn:Et; [|inversion H; subst; exact E1].
    destruct (update_plan ctx d1 tb asg w) as [k|ups] eqn:Ep; [inversion H; subst; exact E1|].
    destruct (match s_pk (tb_schema tb) with
              | Some c => if match s_pk (tb_schema tb) with Some c0 => existsb (fun a => Nat.eqb (fst a) c0) asg | None => false end
                          then cascade_updates t c ups 0 d1 0 else (d1, None, 0)
              | None => (d1, None, 0) end) as [[d2 r2] m2] eqn:E2.
    destruct r2; [inversion H; subst; exact E1|].
    destruct (fire_rows db run_body b (d_trigs d) t Before (EvUpdate (Some (map fst asg))) (images ups) 0 d2) as [[d3 l3] r3] eqn:E3.
    apply fire_rows_legit in E3; [|auto]. apply (rows_to_ok ctx) in E3.
    destruct r3 as [[k c]|]; [inversion H; subst; apply Forall_app; auto|].
    destruct (apply_updates t ups 0 d3) as [[d4 r4] m4] eqn:E4.
    destruct r4; [inversion H; subst; apply Forall_app; auto|].
    destruct (fire_rows db run_body b (d_trigs d) t After (EvUpdate (Some (map fst asg))) (images ups) 0 d4) as [[d5 l5] r5] eqn:E5.
    apply fire_rows_legit in E5; [|auto]. apply (rows_to_ok ctx) in E5.
    destruct r5 as [[k c]|]; [inversion H; subst; repeat (apply Forall_app; split); auto|].
    destruct (if is_none ctx then fire_stmt db run_body b (d_trigs d) t After (EvUpdate (Some (map fst asg))) d5 else (d5, [], None)) as [[d6 l6] r6] eqn:E6.
    apply opt_stmt_legit in E6; [|auto].
    destruct r6; inversion H; subst; repeat (apply Forall_app; split); auto.
  Qed.

  Lemma do_delete_legit : forall b ctx d t w d' log o,
    do_delete run_body b ctx d t w = (d', log, o) -> Forall (ok_firing ctx (d_trigs d) t EvDelete) log.
  Proof.
    intros b ctx d t w d' log o H. unfold do_delete in H.
    destruct (get_table d t) as [tb|]; [|inversion H; constructor].
    destruct (is_none w && can_use_truncate d t); [inversion H; constructor|].
    unfold Atomic.fireS, Atomic.fireRs in H.
    destruct (if is_none ctx then fire_stmt db run_body b (d_trigs d) t Before EvDelete d else (d, [], None)) as [[d1 l1] r1] eqn:E1.
    apply opt_stmt_legit in E1; [|auto].
    destruct r1; [inversion H; subst; exact E1|].
    match type of H with context [fire_rows db run_body b (d_trigs d) t Before EvDelete ?im 0 d1] =>
      destruct (fire_rows db run_body b (d_trigs d) t Before EvDelete im 0 d1) as [[d2 l2] r2] eqn:E2 end.
    apply fire_rows_legit in E2; [|auto]. apply (rows_to_ok ctx) in E2.
    destruct r2 as [[k c]|]; [inversion H; subst; apply Forall_app; auto|].
    destruct (match s_pk (tb_schema tb) with
              | Some c => cascade_deletes t c (collect_rows ctx w (indexed 0 (tb_rows tb))) 0 d2 0
              | None => (d2, None, 0) end) as [[d3 r3] m3] eqn:E3.
    destruct r3; [inversion H; subst; apply Forall_app; auto|].
    destruct (get_table d3 t) as [tb3|]; [|inversion H; subst; apply Forall_app; auto].
    match type of H with context [fire_rows db run_body b (d_trigs d) t After EvDelete ?im 0 ?dd] =>
      destruct (fire_rows db run_body b (d_trigs d) t After EvDelete im 0 dd) as [[d5 l5] r5] eqn:E5 end.
    apply fire_rows_legit in E5; [|auto]. apply (rows_to_ok ctx) in E5.
    destruct r5 as [[k c]|]; [inversion H; subst; repeat (apply Forall_app; split); auto|].
    match type of H with context [if is_none ctx then fire_stmt db run_body b (d_trigs d) t After EvDelete ?dd else _] =>
      destruct (if is_none ctx then fire_stmt db run_body b (d_trigs d) t After EvDelete dd else (dd, [], None)) as [[d6 l6] r6] eqn:E6 end.
    apply opt_stmt_legit in E6; [|auto].
    destruct r6; inversion H; subst; repeat (apply Forall_app; split); auto.
  Qed.
End ExecFiring.

(** ** The recursive instance *)
Definition stmt_target (s : stmt) : nat :=
  match s with SInsert t _ _ | SInsertSel t _ _ | SUpdate t _ _ | SDelete t _ => t end.

(** the event each executor passes to find_triggers: UPDATE passes [Update(Some(assigned columns))] *)
Definition stmt_event (s : stmt) : event :=
  match s with
  | SInsert _ _ _ | SInsertSel _ _ _ => EvInsert
  | SUpdate _ asg _ => EvUpdate (Some (map fst asg))
  | SDelete _ _ => EvDelete
  end.

Lemma step_dml_legit : forall run_body b ctx d s d' log o,
  step_dml run_body b ctx d s = (d', log, o) ->
  Forall (ok_firing ctx (d_trigs d) (stmt_target s) (stmt_event s)) log.
Proof.
  intros run_body b ctx d s d' log o H. destruct s as [t ok rows | t src star | t asg w | t w]; cbn [step_dml stmt_target stmt_event] in *.
  - unfold do_insert in H. destruct (get_table d t) as [tb|]; [|inversion H; constructor].
    destruct ok; [|inversion H; constructor]. eapply do_insert_rows_legit; eauto.
  - eapply do_insert_select_legit; eauto.
  - eapply do_update_legit; eauto.
  - eapply do_delete_legit; eauto.
Qed.

Theorem exec_firings_legit : forall fuel ctx d s d' log o,
  exec fuel ctx d s = (d', log, o) ->
  Forall (ok_firing ctx (d_trigs d) (stmt_target s) (stmt_event s)) log.
Proof. intros fuel ctx d s d' log o H. destruct fuel; cbn [exec] in H; eapply step_dml_legit; eauto. Qed.

(** what every firing of every statement (successful or not, at any nesting depth) satisfies *)
Theorem firing_facts : forall fuel ctx d s d' log o f,
  exec fuel ctx d s = (d', log, o) -> In f log ->
  In (f_trig f) (d_trigs d)
  /\ t_table (f_trig f) = stmt_target s
  /\ event_match (t_event (f_trig f)) (stmt_event s) = true
  /\ t_enabled (f_trig f) = true
  /\ (t_timing (f_trig f) = Before \/ t_timing (f_trig f) = After)
  /\ when_fires (f_trig f) (f_old f) (f_new f) = true
  /\ (t_gran (f_trig f) = GStmt -> f_old f = None /\ f_new f = None /\ ctx = None).
Proof.
  intros fuel ctx d s d' log o f H Hin.
  pose proof (exec_firings_legit _ _ _ _ _ _ _ H) as Hall. rewrite Forall_forall in Hall.
  destruct (Hall f Hin) as [[(tm & Htm & Hf) [Hw Hg]] Hc].
  unfold find_triggers, triggers_for_table in Hf.
  apply filter_In in Hf. destruct Hf as [Hf Hte]. apply filter_In in Hf. destruct Hf as [Hf Htb].
  apply andb_prop in Hte. destruct Hte as [Htm' Hen]. apply andb_prop in Htb. destruct Htb as [Htab Hev].
  apply Nat.eqb_eq in Htab.
  assert (Htim : t_timing (f_trig f) = tm) by (destruct (t_timing (f_trig f)), tm; cbn in Htm'; congruence).
  repeat split; auto.
  - rewrite Htim. exact Htm.
  - apply Hg; assumption.
  - apply Hg; assumption.
  - destruct ctx as [c|]; [|reflexivity]. assert (Hgr : t_gran (f_trig f) = GRow) by (apply Hc; discriminate). congruence.
Qed.

(** which triggers an event lookup finds: INSERT and DELETE statements only triggers of exactly that event; an UPDATE
    statement every UPDATE trigger without a column list and the UPDATE OF triggers that name an assigned column *)
Lemma event_match_cases : forall have want,
  event_match have want = true ->
  match want with
  | EvInsert => have = EvInsert
  | EvDelete => have = EvDelete
  | EvUpdate None => exists cols, have = EvUpdate cols
  | EvUpdate (Some assigned) =>
      have = EvUpdate None \/ exists monitored, have = EvUpdate (Some monitored)
                                                /\ exists c, In c monitored /\ In c assigned
  end.
Proof.
  intros have want H. destruct have as [|[m|]|], want as [|[a|]|]; cbn in H; try discriminate; eauto.
  right. exists m. split; [reflexivity|]. apply existsb_exists in H. destruct H as (c & Hc & Hx).
  apply existsb_exists in Hx. destruct Hx as (c' & Hc' & He). apply Nat.eqb_eq in He. subst c'. eauto.
Qed.

(** an UPDATE OF trigger fires only for UPDATE statements that assign one of its columns *)
Theorem update_of_needs_assigned_column : forall fuel ctx d s d' log o f cols,
  exec fuel ctx d s = (d', log, o) -> In f log -> t_event (f_trig f) = EvUpdate (Some cols) ->
  exists t asg w, s = SUpdate t asg w /\ exists c, In c cols /\ In c (map fst asg).
Proof.
  intros fuel ctx d s d' log o f cols H Hin Hev.
  destruct (firing_facts _ _ _ _ _ _ _ _ H Hin) as (_ & _ & He & _). rewrite Hev in He.
  apply event_match_cases in He. destruct s as [t ok rows | t src star | t asg w | t w]; cbn [stmt_event] in He; try discriminate.
  destruct He as [He|(m & Hm & c & Hc & Ha)]; [discriminate|]. inversion Hm; subst m. exists t, asg, w. eauto.
Qed.

(** a statement-level firing has neither OLD nor NEW: its WHEN condition is evaluated against an empty row *)
Lemma eval_when_no_row : forall c,
  eval_when c None None =
  match eval_cond (mkEnv (Some []) (Some (None, None))) c with
  | RBool (Some b) => Some b | RBool None => Some false | _ => None
  end.
Proof. intro c. unfold eval_when. destruct (eval_cond _ c) as [|[[|]|]|]; reflexivity. Qed.

(** ** The three firing theorems for the recursive instance (a statement executed at depth < 16) *)
Theorem exec_insert_fires_once : forall f ctx d t tb rows d' log n vrows,
  exec (S f) ctx d (SInsert t true rows) = (d', log, Ok n) ->
  get_table d t = Some tb -> validate_rows d tb ctx rows 0 [] = inr vrows ->
  log = spec_insert ctx (d_trigs d) t vrows /\ n = length vrows.
Proof.
  intros f ctx d t tb rows d' log n vrows H Ht Hv. cbn [exec step_dml] in H. unfold do_insert in H. rewrite Ht in H.
  eapply insert_rows_fires_once; eauto.
Qed.

Theorem exec_update_fires_once : forall f ctx d t asg w d' log n,
  exec (S f) ctx d (SUpdate t asg w) = (d', log, Ok n) ->
  exists d1 tb ups,
    (if is_none ctx then fire_stmt db (body_runner f) true (d_trigs d) t Before (EvUpdate (Some (map fst asg))) d else (d, [], None))
      = (d1, spec_stmt ctx (d_trigs d) t Before (EvUpdate (Some (map fst asg))), None)
    /\ get_table d1 t = Some tb
    /\ update_plan ctx d1 tb asg w = inr ups
    /\ log = spec_two_pass ctx (d_trigs d) t (EvUpdate (Some (map fst asg))) (images ups)
    /\ n = length ups.
Proof. intros f ctx d t asg w d' log n H. cbn [exec step_dml] in H. eapply update_fires_once; eauto. Qed.

Theorem exec_delete_fires_once : forall f ctx d t w d' log n tb,
  exec (S f) ctx d (SDelete t w) = (d', log, Ok n) -> get_table d t = Some tb ->
  log = spec_two_pass ctx (d_trigs d) t EvDelete (delete_images ctx tb w).
Proof. intros f ctx d t w d' log n tb H Ht. cbn [exec step_dml] in H. eapply delete_fires_once; eauto. Qed.

(** zero affected rows: the statement-level triggers still fire, once *)
Corollary two_pass_zero_rows : forall ctx trigs t ev,
  spec_two_pass ctx trigs t ev [] = spec_stmt ctx trigs t Before ev ++ spec_stmt ctx trigs t After ev.
Proof. reflexivity. Qed.

(** the INSERT ... SELECT * fast path is entered only when the destination has no INSERT trigger: it fires nothing,
    which is the specification list *)
Theorem exec_bulk_path_fires_as_specified : forall fuel ctx d t src dst s d' log o,
  exec fuel ctx d (SInsertSel t src true) = (d', log, o) ->
  get_table d t = Some dst -> get_table d src = Some s ->
  is_none (hd_error (triggers_for_table (d_trigs d) t EvInsert)) && bulk_eligible dst s = true ->
  log = [] /\ forall rows, spec_insert ctx (d_trigs d) t rows = [].
Proof.
  intros fuel ctx d t src dst s d' log o H Ht Hs He. destruct fuel; cbn [exec step_dml] in H; eapply bulk_path_fires_as_specified; eauto.
Qed.

(** ** Witnesses *)
Module Witness.
  Open Scope Z_scope.
  (** T0 (C0 PRIMARY KEY, C1) with two rows; T1 = audit (id, OLD.C0, OLD.C1, NEW.C0, NEW.C1); T2 = source like T0;
      T3 = child of T0 (C0 PRIMARY KEY, C1 REFERENCES T0 ON DELETE CASCADE) *)
  Definition s_t0 := mkSchema 2 (Some 0%nat) [0%nat] [] [].
  Definition s_aud := mkSchema 5 None [] [] [].
  Definition s_child := mkSchema 2 (Some 0%nat) [0%nat] [] [mkFk 1 0 0 ACascade ANoAction].
  Definition t0 := mkTable 0 s_t0 [[VInt 1; VInt 10]; [VInt 2; VInt 20]] app0.
  Definition aud := mkTable 1 s_aud [] app0.
  Definition src := mkTable 2 s_t0 [[VInt 5; VInt 50]] app0.
  Definition child := mkTable 3 s_child [[VInt 7; VInt 1]; [VInt 8; VInt 1]] app0.

  Definition audit (id : Z) (o n : bool) : stmt :=
    SInsert 1 true [[ELit (VInt id);
                     if o then EOld 0 else ELit VNull; if o then EOld 1 else ELit VNull;
                     if n then ENew 0 else ELit VNull; if n then ENew 1 else ELit VNull]].

  Definition tr (id : Z) (tb : nat) (tm : timing) (ev : event) (g : gran) (w : option cond) (o n : bool) : trig :=
    mkTrig id tb tm ev g w true [audit id o n].

  Definition upd := SUpdate 0 [(1%nat, EAdd (ECol 1) 1)] None.

  (** the specification list is met, in the code's order: all BEFORE ROW firings, then all AFTER ROW firings *)
  Definition d_order := mkDb [t0; aud] [tr 1 0 Before (EvUpdate None) GRow None true true; tr 2 0 After (EvUpdate None) GRow None true true].
  Example update_order_example :
    let '(_, log, o) := step d_order upd in
    map (fun f => (t_id (f_trig f), f_old f, f_new f)) log =
      [(1, Some [VInt 1; VInt 10], Some [VInt 1; VInt 11]); (1, Some [VInt 2; VInt 20], Some [VInt 2; VInt 21]);
       (2, Some [VInt 1; VInt 10], Some [VInt 1; VInt 11]); (2, Some [VInt 2; VInt 20], Some [VInt 2; VInt 21])]
    /\ o = Ok 2.
  Proof. vm_compute. split; reflexivity. Qed.
End Witness.

(** the order of a multi-row UPDATE is not the per-row order BEFORE, change, AFTER *)
Theorem update_order_not_per_row_refuted :
  exists d s d' log n tb ups,
    step d s = (d', log, Ok n) /\ get_table d 0 = Some tb /\ update_plan None d tb [(1%nat, EAdd (ECol 1) 1)] None = inr ups
    /\ log <> spec_per_row None (d_trigs d) 0 (EvUpdate (Some [1%nat])) (images ups)
    /\ Permutation log (spec_per_row None (d_trigs d) 0 (EvUpdate (Some [1%nat])) (images ups)).
Proof.
  exists Witness.d_order, Witness.upd. eexists. eexists. exists 2%nat, Witness.t0. eexists.
  split; [vm_compute; reflexivity|]. split; [reflexivity|]. split; [vm_compute; reflexivity|].
  split.
  - vm_compute. discriminate.
  - match goal with |- Permutation ?l (spec_per_row ?c ?tr ?t ?ev ?im) =>
      replace l with (spec_two_pass c tr t ev im) by (vm_compute; reflexivity) end.
    apply spec_two_pass_perm.
Qed.

Module Witness2.
  Import Witness.
  Open Scope Z_scope.

  (** UPDATE OF (C1) *)
  Definition d_upof := mkDb [t0; aud] [tr 1 0 After (EvUpdate (Some [1%nat])) GRow None true true].
  (** INSERT INTO T0 SELECT * FROM T2 with an AFTER INSERT row trigger *)
  Definition d_bulk := mkDb [t0; aud; src] [tr 1 0 After EvInsert GRow None false true].
  (** a statement-level trigger with WHEN (1 = 1) *)
  Definition d_swhen := mkDb [t0; aud] [tr 1 0 After EvDelete GStmt (Some (CCmp OpEq (ELit (VInt 1)) (ELit (VInt 1)))) false false].
  (** ON DELETE CASCADE: the child table has an AFTER DELETE row trigger *)
  Definition d_casc := mkDb [t0; aud; child] [tr 9 3 After EvDelete GRow None true false].
  (** a self-recursive AFTER INSERT trigger on a table without constraints, chain cut by WHEN *)
  Definition t_free := mkTable 0 (mkSchema 2 None [] [] []) [] app0.
  Definition d_rec (limit : Z) := mkDb [t_free]
    [mkTrig 1 0 After EvInsert GRow (Some (CCmp OpLt (ENew 0) (ELit (VInt limit)))) true
            [SInsert 0 true [[EAdd (ENew 0) 1; ELit (VInt 0)]]]].
  Definition ins1 := SInsert 0 true [[ELit (VInt 1); ELit (VInt 0)]].
End Witness2.

(** UPDATE OF (C1): the trigger fires for every row whose C1 changes when the statement assigns C1, does not fire for a
    row whose C1 keeps its value, and is not even looked up when the statement assigns only other columns *)
Theorem update_of_fires_when_column_changes :
  (exists d', step Witness2.d_upof Witness.upd = (d', spec_two_pass None (d_trigs Witness2.d_upof) 0 (EvUpdate (Some [1%nat]))
       [(Some [VInt 1; VInt 10], Some [VInt 1; VInt 11]); (Some [VInt 2; VInt 20], Some [VInt 2; VInt 21])], Ok 2)
     /\ length (spec_two_pass None (d_trigs Witness2.d_upof) 0 (EvUpdate (Some [1%nat]))
                  [(Some [VInt 1; VInt 10], Some [VInt 1; VInt 11]); (Some [VInt 2; VInt 20], Some [VInt 2; VInt 21])]) = 2%nat)
  /\ (exists d', step Witness2.d_upof (SUpdate 0 [(1%nat, ECase (CCmp OpEq (ECol 0) (ELit (VInt 1%Z))) (EAdd (ECol 1) 1%Z) (ECol 1))] None)
                  = (d', [mkFiring (Witness.tr 1 0 After (EvUpdate (Some [1%nat])) GRow None true true)
                                   (Some [VInt 1; VInt 10]) (Some [VInt 1; VInt 11]) None], Ok 2))
  /\ (exists d', step Witness2.d_upof (SUpdate 0 [(0%nat, EAdd (ECol 0) 100%Z)] None) = (d', [], Ok 2)).
Proof.
  split; [|split].
  - eexists. split; vm_compute; reflexivity.
  - eexists. vm_compute. reflexivity.
  - eexists. vm_compute. reflexivity.
Qed.

(** INSERT INTO T0 SELECT * FROM T2 on a table with an AFTER INSERT row trigger takes the normal path and fires it *)
Theorem insert_select_star_fires_triggers :
  exists d', step Witness2.d_bulk (SInsertSel 0 2 true)
             = (d', spec_insert None (d_trigs Witness2.d_bulk) 0 [[VInt 5; VInt 50]], Ok 1)
  /\ length (spec_insert None (d_trigs Witness2.d_bulk) 0 [[VInt 5; VInt 50]]) = 1%nat.
Proof. eexists. split; vm_compute; reflexivity. Qed.

(** statement-level triggers: WHEN (1 = 1) fires once, WHEN (1 = 2) does not fire, and the statement succeeds *)
Theorem stmt_trigger_when_gates :
  (exists d' f, step Witness2.d_swhen (SDelete 0 (Some (CCmp OpEq (ECol 0) (ELit (VInt 1%Z))))) = (d', [f], Ok 1)
                /\ f_old f = None /\ f_new f = None /\ t_gran (f_trig f) = GStmt)
  /\ (exists d', step (mkDb [Witness.t0; Witness.aud]
                          [Witness.tr 1 0 After EvDelete GStmt (Some (CCmp OpEq (ELit (VInt 1%Z)) (ELit (VInt 2%Z)))) false false])
                     (SDelete 0 (Some (CCmp OpEq (ECol 0) (ELit (VInt 1%Z))))) = (d', [], Ok 1)).
Proof.
  split.
  - eexists. eexists. split; [vm_compute; reflexivity|]. cbn. tauto.
  - eexists. vm_compute. reflexivity.
Qed.

(** rows removed by ON DELETE CASCADE fire no trigger of the child table *)
Theorem cascade_fires_no_child_trigger :
  exists d s d' log n,
    step d s = (d', log, Ok n) /\ log = []
    /\ Atomic.child_rows d 3 = [[VInt 7; VInt 1]; [VInt 8; VInt 1]] /\ Atomic.child_rows d' 3 = []
    /\ exists tr, In tr (d_trigs d) /\ t_table tr = 3%nat /\ t_event tr = EvDelete /\ t_gran tr = GRow /\ t_enabled tr = true.
Proof.
  exists Witness2.d_casc, (SDelete 0 (Some (CCmp OpEq (ECol 0) (ELit (VInt 1))))). eexists. eexists. eexists.
  split; [vm_compute; reflexivity|]. split; [reflexivity|]. split; [reflexivity|]. split; [vm_compute; reflexivity|].
  eexists. split; [left; reflexivity|]. cbn. tauto.
Qed.

(** the recursion guard: a chain of exactly [guard_levels] nested firings runs, one more is refused and the
    statement fails without leaving a row behind *)
Example recursion_guard_boundary :
  (let '(d', _, o) := step (Witness2.d_rec (Z.of_nat guard_levels)) Witness2.ins1 in (o, length (Atomic.child_rows d' 0)))
    = (Ok 1, guard_levels)
  /\ (let '(d', _, o) := step (Witness2.d_rec (Z.of_nat guard_levels + 1)) Witness2.ins1 in
      (is_none (match o with Ok _ => None | Err _ _ _ => Some tt end), length (Atomic.child_rows d' 0))) = (false, 0%nat).
Proof. vm_compute. split; reflexivity. Qed.
