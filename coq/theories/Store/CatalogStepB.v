(** C33 laws, part 4b: [Agree] is preserved by ALTER TABLE ADD/DROP CONSTRAINT, RENAME TO, INSERT,
    DELETE and TRUNCATE; the storage-only ALTER forms leave the state alone when they fail. *)
From Coq Require Import List ZArith Bool Arith Lia.
From VibeSQL Require Import Store.Catalog Store.CatalogBase Store.CatalogInv Store.CatalogIdx Store.CatalogStepA.
Import ListNotations.
Open Scope Z_scope.

(* ------------------------------------------------------------------------------------------ *)
(** * Replacing both schema copies by one with the same columns *)

Lemma agree_set_schema : forall s t sc rows sc', Agree s ->
  alookup t (s_cat s) = Some sc ->
  alookup (qual public t) (s_tabs s) = Some (mktab sc rows) ->
  ts_name sc' = ts_name sc -> ts_cols sc' = ts_cols sc -> ts_cache sc' = ts_cache sc ->
  Agree (set_cat (set_tabs s (ainsert (qual public t) (mktab sc' rows) (s_tabs s)))
                 (ainsert t sc' (aremove t (s_cat s)))).
Proof.
  intros s t sc rows sc' A EL ET Hn Hc Hk.
  destruct (ag_cat_wf s A t sc EL) as [Hd [Hnm CO]].
  assert (LK : forall x, alookup x (ainsert t sc' (aremove t (s_cat s))) = if name_eqb t x then Some sc' else alookup x (s_cat s)).
  { intro x. rewrite alookup_ainsert. name_cases t x; auto. rewrite alookup_aremove_other; auto. }
  assert (MK : forall x, amem x (ainsert t sc' (aremove t (s_cat s))) = amem x (s_cat s)).
  { intro x. unfold amem. rewrite LK. name_cases t x; auto. subst. rewrite EL. reflexivity. }
  constructor; unfold listed; simp_st.
  - apply (ag_cs s A).
  - apply nodup_ainsert. apply nodup_aremove. apply (ag_nd_cat s A).
  - apply nodup_ainsert. apply (ag_nd_tabs s A).
  - apply (ag_nd_cidx s A).
  - apply (ag_nd_sidx s A).
  - intros x sc0 H. rewrite LK in H. name_cases t x.
    + inversion H; subst. repeat split; auto; try congruence; try (unfold cache_ok in *; congruence).
    + apply (ag_cat_wf s A). exact H.
  - intros k H. rewrite amem_ainsert in H. name_cases (qual public t) k.
    + exists t. split; auto. rewrite MK. apply amem_alookup. eauto.
    + cbn [orb] in H. destruct (ag_tabs_keys s A k H) as [x [Hx L]]. exists x. split; auto. rewrite MK. exact L.
  - intros x sc0 H. rewrite LK in H. name_cases t x.
    + inversion H; subst. eexists. split; [apply alookup_ainsert_same|reflexivity].
    + destruct (ag_schemas s A x sc0 H) as [tb [H1 H2]]. exists tb. split; auto.
      rewrite alookup_ainsert_other; auto. intro E'. apply qual_inj_r in E'. contradiction.
  - intros k tb H. rewrite alookup_ainsert in H. name_cases (qual public t) k.
    + inversion H; subst. cbn [t_schema t_rows]. rewrite Hc.
      apply (ag_width s A _ _ ET).
    + apply (ag_width s A k). exact H.
  - apply (ag_cidx s A).
  - apply (ag_sidx s A).
  - intros k x H. rewrite MK. eapply (ag_idx_table s A); eauto.
  - intros k x sc0 H H0 c Hin. rewrite LK in H0. name_cases t (si_table x).
    + inversion H0; subst sc0. unfold col_names. rewrite Hc. rewrite E in EL.
      apply (ag_idx_cols s A k x sc H EL c Hin).
    + eapply (ag_idx_cols s A); eauto.
  - intros k x tb H H0. rewrite alookup_ainsert in H0. name_cases (qual public t) (qual public (si_table x)).
    + inversion H0; subst tb. cbn [t_schema t_rows]. rewrite E in ET.
      rewrite (build_data_ext sc' sc) by auto. apply (ag_mirror s A k x _ H ET).
    + eapply (ag_mirror s A); eauto.
Qed.

(** the write-back of alter/constraints.rs on a listed table *)
Lemma resync_listed : forall s0 s t sc', Agree s -> listed s t ->
  s_cs s0 = s_cs s -> s_cat s0 = s_cat s -> ts_name sc' = t ->
  resync s0 t sc' = (set_cat s0 (ainsert t sc' (aremove t (s_cat s))), ROk 0).
Proof.
  intros s0 s t sc' A L E1 E2 Hn. pose proof (listed_nodot s A t L) as Hd.
  unfold resync, cat_drop_table. rewrite (split_dot_none _ Hd).
  unfold schema_found, cat_norm. rewrite E1, (ag_cs s A). rewrite name_eqb_refl. cbn [negb].
  rewrite E2. unfold listed in L. rewrite L.
  unfold cat_create_table. simp_st. rewrite E1, (ag_cs s A). rewrite Hn.
  rewrite amem_aremove, name_eqb_refl. cbn [negb andb]. reflexivity.
Qed.

Lemma set_stored_schema_proj : forall s k tb sc,
  s_cs (set_stored_schema s k tb sc) = s_cs s /\ s_cat (set_stored_schema s k tb sc) = s_cat s /\
  s_cidx (set_stored_schema s k tb sc) = s_cidx s /\ s_sidx (set_stored_schema s k tb sc) = s_sidx s /\
  s_tabs (set_stored_schema s k tb sc) = ainsert k (mktab sc (t_rows tb)) (s_tabs s).
Proof. intros. unfold set_stored_schema. simp_st. auto. Qed.

Lemma agree_constraint_change : forall s t sc rows sc', Agree s ->
  alookup t (s_cat s) = Some sc ->
  alookup (qual public t) (s_tabs s) = Some (mktab sc rows) ->
  ts_name sc' = ts_name sc -> ts_cols sc' = ts_cols sc -> ts_cache sc' = ts_cache sc ->
  let r := resync (set_stored_schema s (qual public t) (mktab sc rows) sc') t sc' in
  Agree (fst r) /\ no_panic (snd r).
Proof.
  intros s t sc rows sc' A EL ET Hn Hc Hk r.
  assert (L : listed s t) by (apply amem_alookup; eauto).
  destruct (ag_cat_wf s A t sc EL) as [_ [Hnm _]].
  unfold r. rewrite (resync_listed _ s t sc' A L); try reflexivity; try congruence.
  cbn [fst snd]. split; auto with c33.
  unfold set_stored_schema. cbn [t_rows].
  eapply agree_ext; [| | | | |apply (agree_set_schema s t sc rows sc' A EL ET Hn Hc Hk)]; simp_st; reflexivity.
Qed.

(* ------------------------------------------------------------------------------------------ *)
(** * The storage-only ALTER forms: a failing statement changes nothing, and none of them panics
      in an agreeing state *)

Ltac break_match :=
  match goal with
  | |- context [match ?x with _ => _ end] => destruct x eqn:?
  | H : context [match ?x with _ => _ end] |- _ => destruct x eqn:?
  end.

Lemma storage_only_fail_unchanged : forall s st, storage_only st = true ->
  is_ok (snd (step s st)) = false -> fst (step s st) = s.
Proof.
  intros s st SO. destruct st; try discriminate SO; cbn [step];
    unfold exec_add_column, exec_drop_column, exec_change_column, exec_modify_column, exec_set_default,
           exec_drop_default, exec_set_not_null, exec_drop_not_null, exec_add_constraint, with_stored_column;
    intro H; repeat (break_match; cbn [fst snd is_ok] in *; try reflexivity; try discriminate).
Qed.

Lemma scan_not_null_no_panic : forall i rows, Forall (fun r => (i < length r)%nat) rows -> scan_not_null i rows <> RPanic.
Proof.
  intros i rows H. induction H as [|r rest Hr Hrest IH]; cbn [scan_not_null]; [discriminate|].
  destruct (nth_error r i) as [[v|]|] eqn:E; auto; try discriminate.
  apply nth_error_None in E. lia.
Qed.

Lemma scan_not_null_shape : forall i rows, scan_not_null i rows = ROk 0 \/ scan_not_null i rows = RErr \/ scan_not_null i rows = RPanic.
Proof.
  intros i rows. induction rows as [|r rest IH]; cbn [scan_not_null]; auto.
  destruct (nth_error r i) as [[v|]|]; auto.
Qed.

(** every stored table of an agreeing state carries a coherent schema and full-width rows *)
Lemma stored_table_wf : forall s k tb, Agree s -> alookup k (s_tabs s) = Some tb ->
  cache_ok (t_schema tb) /\ Forall (fun r => length r = length (ts_cols (t_schema tb))) (t_rows tb).
Proof.
  intros s k tb A H. split; [|apply (ag_width s A k tb H)].
  assert (M : amem k (s_tabs s) = true) by (apply amem_alookup; eauto).
  destruct (ag_tabs_keys s A k M) as [t [-> L]]. apply amem_alookup in L. destruct L as [sc L].
  destruct (ag_schemas s A t sc L) as [tb' [H1 H2]]. rewrite H in H1. inversion H1; subst tb'. rewrite H2.
  apply (ag_cat_wf s A t sc L).
Qed.

Lemma storage_only_no_panic : forall s st, Agree s -> storage_only st = true -> no_panic (snd (step s st)).
Proof.
  intros s st A SO. destruct st; try discriminate SO; cbn [step];
    unfold exec_add_column, exec_drop_column, exec_change_column, exec_modify_column, exec_set_default,
           exec_drop_default, exec_drop_not_null, exec_add_constraint, with_stored_column;
    try (repeat (break_match; cbn [fst snd] in *); split; discriminate).
  (* SET NOT NULL *)
  unfold exec_set_not_null, with_stored_column.
  destruct (tab_find_key s tn) as [k|]; [|cbn; auto with c33].
  destruct (alookup k (s_tabs s)) as [tb|] eqn:ET; [|cbn; auto with c33].
  destruct (get_column_index (t_schema tb) cn) as [i|] eqn:EI; [|cbn; auto with c33].
  destruct (stored_table_wf s k tb A ET) as [CO WD].
  pose proof (get_column_index_bound _ _ _ CO EI) as Hb.
  assert (NP : scan_not_null i (t_rows tb) <> RPanic).
  { apply scan_not_null_no_panic. eapply Forall_impl; [|exact WD]. cbn. intros r Hr. lia. }
  destruct (scan_not_null_shape i (t_rows tb)) as [E|[E|E]]; rewrite E in *; cbn; auto with c33. contradiction.
Qed.

Lemma storage_only_case : forall s st, Agree s -> storage_only st = true -> known s st = false ->
  Agree (fst (step s st)) /\ no_panic (snd (step s st)).
Proof.
  intros s st A SO K. split; [|apply storage_only_no_panic; auto].
  assert (K' : is_ok (snd (step s st)) = false).
  { destruct st; try discriminate SO; cbn [known storage_only andb] in K; try exact K.
    destruct k; try discriminate SO. exact K. }
  rewrite (storage_only_fail_unchanged s st SO K'). exact A.
Qed.

(* ------------------------------------------------------------------------------------------ *)
(** * ALTER TABLE ADD / DROP CONSTRAINT *)

Lemma agree_add_constraint : forall s tn kd, Agree s -> wf_name tn = true ->
  known s (AddConstraint tn kd) = false ->
  Agree (fst (exec_add_constraint s tn kd)) /\ no_panic (snd (exec_add_constraint s tn kd)).
Proof.
  intros s tn kd A W K.
  destruct (storage_only (AddConstraint tn kd)) eqn:SO.
  { apply (storage_only_case s (AddConstraint tn kd) A SO K). }
  unfold wf_name in W. apply negb_true_iff in W.
  destruct (alookup tn (s_cat s)) as [sc|] eqn:EL.
  - assert (L : listed s tn) by (apply amem_alookup; eauto).
    destruct (listed_table s A tn sc EL) as [rows [ET WD]].
    unfold exec_add_constraint. rewrite (tab_find_listed s A tn L). rewrite ET. cbn [t_schema].
    destruct kd as [cols|cols|cn col]; try discriminate SO.
    + destruct (forallb (has_column sc) cols); cbn [negb]; [|cbn; auto with c33].
      destruct (ts_pk sc); cbn [is_some]; [cbn; auto with c33|].
      apply (agree_constraint_change s tn sc rows _ A EL ET); reflexivity.
    + destruct (forallb (has_column sc) cols); cbn [negb]; [|cbn; auto with c33].
      apply (agree_constraint_change s tn sc rows _ A EL ET); reflexivity.
  - (* not listed: either nothing is found, or a case variant is (a known class) *)
    unfold exec_add_constraint. destruct (tab_find_key s tn) as [k|] eqn:EF; [|cbn; auto with c33].
    exfalso. apply amem_false in EL.
    destruct kd as [cols|cols|cn col]; try discriminate SO; cbn [known] in K; rewrite EF, EL in K; discriminate.
Qed.

Lemma agree_drop_constraint : forall s tn cn, Agree s -> wf_name tn = true ->
  known s (DropConstraint tn cn) = false ->
  Agree (fst (exec_drop_constraint s tn cn)) /\ no_panic (snd (exec_drop_constraint s tn cn)).
Proof.
  intros s tn cn A W K. unfold wf_name in W. apply negb_true_iff in W.
  destruct (alookup tn (s_cat s)) as [sc|] eqn:EL.
  - assert (L : listed s tn) by (apply amem_alookup; eauto).
    destruct (listed_table s A tn sc EL) as [rows [ET WD]].
    unfold exec_drop_constraint. rewrite (tab_find_listed s A tn L). rewrite ET. cbn [t_schema].
    destruct (existsb (fun p => name_eqb (fst p) cn) (ts_checks sc)); [|cbn; auto with c33].
    apply (agree_constraint_change s tn sc rows _ A EL ET); reflexivity.
  - unfold exec_drop_constraint. destruct (tab_find_key s tn) as [k|] eqn:EF; [|cbn; auto with c33].
    exfalso. apply amem_false in EL. cbn [known] in K. rewrite EF, EL in K. discriminate.
Qed.

(* ------------------------------------------------------------------------------------------ *)
(** * Changing the rows of a listed table together with its index entries *)

Lemma agree_set_rows : forall s t sc rows rows' l', Agree s ->
  alookup t (s_cat s) = Some sc ->
  alookup (qual public t) (s_tabs s) = Some (mktab sc rows) ->
  Forall (fun r => length r = length (ts_cols sc)) rows' ->
  akeys l' = akeys (s_sidx s) ->
  (forall k x', alookup k l' = Some x' -> exists x, alookup k (s_sidx s) = Some x /\
       si_name x' = si_name x /\ si_table x' = si_table x /\ si_cols x' = si_cols x /\ si_unique x' = si_unique x /\
       (si_table x = t -> build_data sc (si_cols x) rows' 0 [] = Some (si_data x')) /\
       (si_table x <> t -> x' = x)) ->
  Agree (set_sidx (set_table s (qual public t) (mktab sc rows')) l').
Proof.
  intros s t sc rows rows' l' A EL ET WD KE SP.
  assert (TOT : forall k x, alookup k (s_sidx s) = Some x -> exists x', alookup k l' = Some x').
  { intros k x H. destruct (alookup k l') as [x'|] eqn:E; [eauto|].
    apply alookup_none_notin in E. rewrite KE in E. exfalso. apply E. eapply alookup_in_keys; eauto. }
  constructor; unfold listed; simp_st.
  - apply (ag_cs s A).
  - apply (ag_nd_cat s A).
  - apply nodup_ainsert. apply (ag_nd_tabs s A).
  - apply (ag_nd_cidx s A).
  - rewrite KE. apply (ag_nd_sidx s A).
  - apply (ag_cat_wf s A).
  - intros k H. rewrite amem_ainsert in H. name_cases (qual public t) k.
    + exists t. split; auto. apply amem_alookup. eauto.
    + cbn [orb] in H. apply (ag_tabs_keys s A k H).
  - intros x sc0 H. name_cases t x.
    + subst x. rewrite EL in H. inversion H; subst. eexists. split; [apply alookup_ainsert_same|reflexivity].
    + destruct (ag_schemas s A x sc0 H) as [tb [H1 H2]]. exists tb. split; auto.
      rewrite alookup_ainsert_other; auto. intro E'. apply qual_inj_r in E'. contradiction.
  - intros k tb H. rewrite alookup_ainsert in H. name_cases (qual public t) k.
    + inversion H; subst. cbn [t_schema t_rows]. exact WD.
    + apply (ag_width s A k). exact H.
  - intros k c H. destruct (ag_cidx s A k c H) as [Hk [x [Hx [N [T [C U]]]]]]. split; auto.
    destruct (TOT _ _ Hx) as [x' Hx']. exists x'. split; auto.
    destruct (SP _ _ Hx') as [x0 [Hx0 [N0 [T0 [C0 [U0 _]]]]]]. rewrite Hx in Hx0. inversion Hx0; subst x0.
    repeat split; congruence.
  - intros k x' H. destruct (SP _ _ H) as [x [Hx [N [T [C [U _]]]]]].
    destruct (ag_sidx s A k x Hx) as [Hk Hc]. rewrite N, T, C, U. auto.
  - intros k x' H. destruct (SP _ _ H) as [x [Hx [N [T _]]]]. rewrite T. eapply (ag_idx_table s A); eauto.
  - intros k x' sc0 H H0. destruct (SP _ _ H) as [x [Hx [N [T [C _]]]]]. rewrite T in H0. rewrite C.
    eapply (ag_idx_cols s A); eauto.
  - intros k x' tb H H0. destruct (SP _ _ H) as [x [Hx [N [T [C [U [M1 M2]]]]]]].
    rewrite T in H0. rewrite C. rewrite alookup_ainsert in H0. name_cases (qual public t) (qual public (si_table x)).
    + apply qual_inj_r in E. inversion H0; subst tb. cbn [t_schema t_rows]. apply M1. auto.
    + assert (Hne : si_table x <> t) by (intro E'; apply E; rewrite E'; reflexivity).
      rewrite (M2 Hne). eapply (ag_mirror s A); eauto.
Qed.

Lemma amapM_entry_spec : forall f l l', amapM f l = Some l' ->
  akeys l' = akeys l /\ forall k x', alookup k l' = Some x' -> exists x, alookup k l = Some x /\ f x = Some x'.
Proof.
  intros f l l' H. split; [eapply amapM_keys; eauto|].
  intros k x' H'. rewrite (amapM_lookup f l l' k H) in H'.
  destruct (alookup k l) as [x|]; try discriminate. eauto.
Qed.

Lemma si_with_data_meta : forall x d,
  si_name (si_with_data x d) = si_name x /\ si_table (si_with_data x d) = si_table x /\
  si_cols (si_with_data x d) = si_cols x /\ si_unique (si_with_data x d) = si_unique x /\ si_data (si_with_data x d) = d.
Proof. intros. unfold si_with_data. cbn. auto. Qed.

(** the index entries of a listed table can always be extracted from full-width rows *)
Lemma index_cols_in : forall s k x sc, Agree s -> alookup k (s_sidx s) = Some x -> alookup (si_table x) (s_cat s) = Some sc ->
  forall c, In c (si_cols x) -> In c (col_names sc).
Proof. intros. eapply (ag_idx_cols s); eauto. Qed.

(* ------------------------------------------------------------------------------------------ *)
(** * INSERT *)

Lemma forallb_width : forall (rows : list row) n, forallb (fun r => Nat.eqb (length r) n) rows = true ->
  Forall (fun r => length r = n) rows.
Proof.
  intros rows n H. apply Forall_forall. intros r Hr. rewrite forallb_forall in H. apply Nat.eqb_eq. auto.
Qed.

Lemma agree_insert : forall s tn zrows, Agree s -> wf_name tn = true ->
  Agree (fst (exec_insert s tn zrows)) /\ no_panic (snd (exec_insert s tn zrows)).
Proof.
  intros s tn zrows A W. unfold wf_name in W. apply negb_true_iff in W.
  unfold exec_insert. cbn zeta. destruct zrows as [|z0 zr]; [cbn; split; auto; split; discriminate|].
  set (rows := map (map (fun z => Some z)) (z0 :: zr)).
  rewrite (cat_get_plain s A tn W).
  destruct (alookup tn (s_cat s)) as [csc|] eqn:EL; [|cbn; auto with c33].
  match goal with |- context [negb (forallb ?F rows)] => destruct (forallb F rows) eqn:EW end; cbn [negb]; [|cbn; auto with c33].
  destruct (degenerate_keys csc); [cbn; split; auto; split; discriminate|].
  destruct (checks_err csc); [cbn; auto with c33|].
  destruct (listed_table s A tn csc EL) as [old [ET WD]].
  destruct (ag_cat_wf s A tn csc EL) as [_ [_ CO]].
  pose proof (forallb_width rows _ EW) as NW.
  (* phase 5 probes every unique index whose table name matches up to case: a missing column is an
     error there, and full-width rows cannot be too short *)
  assert (NP5 : fst (phase5_probe tn csc rows (s_sidx s)) = false).
  { apply probe_no_panic. intros k x r HI Hr _.
    pose proof (extract_key_no_oob csc (si_cols x) r CO) as HO.
    rewrite Forall_forall in NW. specialize (HO (NW r Hr)).
    destruct (extract_key csc (si_cols x) r); auto. }
  destruct (phase5_probe tn csc rows (s_sidx s)) as [pn5 er5]. cbn [fst] in NP5. subst pn5.
  destruct er5; [cbn; auto with c33|].
  rewrite (ops_find_plain s A tn W).
  assert (ST : amem (qual public tn) (s_tabs s) = true) by (apply amem_alookup; eauto).
  rewrite ST, ET. cbn [t_schema t_rows].
  (* the storage-level probe of the table's own unique indexes cannot panic *)
  assert (NP : fst (uniq_probe tn csc rows (s_sidx s)) = false).
  { apply probe_no_panic. intros k x r HI Hr Et. apply andb_true_iff in Et. destruct Et as [Et _]. apply name_eqb_eq in Et.
    apply (in_alookup_nodup _ _ _ (ag_nd_sidx s A)) in HI.
    destruct (extract_key_ok csc (si_cols x) r CO) as [key Hk].
    - intros c Hc. eapply (ag_idx_cols s A k x csc HI); auto. rewrite Et. exact EL.
    - rewrite Forall_forall in NW. apply NW. exact Hr.
    - rewrite Hk. exact I. }
  destruct (uniq_probe tn csc rows (s_sidx s)) as [pn er]. cbn [fst] in NP. subst pn.
  destruct er; [cbn; auto with c33|].
  destruct (forallb (table_accepts csc) rows); cbn [negb]; [|cbn; auto with c33].
  simp_st. rewrite add_rows_list_amapM.
  destruct (amapM_total (append_entry tn csc rows (length old)) (s_sidx s)) as [l' HL].
  { intros k x HI. unfold append_entry. name_cases (si_table x) tn; [|eauto].
    apply (in_alookup_nodup _ _ _ (ag_nd_sidx s A)) in HI.
    destruct (build_data_ok csc (si_cols x) rows (length old) (si_data x) CO) as [d Hd]; auto.
    - intros c Hc. eapply (ag_idx_cols s A k x csc HI); auto. rewrite E. exact EL.
    - rewrite Hd. eauto. }
  rewrite HL. cbn [fst snd]. split; auto with c33.
  destruct (amapM_entry_spec _ _ _ HL) as [KE SP].
  eapply agree_ext; [| | | | |apply (agree_set_rows s tn csc old (old ++ rows) l' A EL ET)]; simp_st; try reflexivity; auto.
  - apply Forall_app. split; auto.
  - intros k x' H. destruct (SP k x' H) as [x [Hx Hf]]. exists x. split; auto.
    unfold append_entry in Hf. name_cases (si_table x) tn.
    + destruct (build_data csc (si_cols x) rows (length old) (si_data x)) as [d|] eqn:Hd; try discriminate.
      inversion Hf; subst x'. destruct (si_with_data_meta x d) as [M1 [M2 [M3 [M4 M5]]]].
      repeat split; auto; try contradiction.
      intros _. rewrite M5. rewrite build_data_app.
      rewrite <- E in ET. pose proof (ag_mirror s A k x _ Hx ET) as MR. cbn [t_schema t_rows] in MR. rewrite MR. cbn [Nat.add]. exact Hd.
    + inversion Hf; subst x'. repeat split; auto. intro; contradiction.
Qed.

(* ------------------------------------------------------------------------------------------ *)
(** * DELETE and TRUNCATE *)

Lemma filter_idx_forall : forall (B : Type) (P : B -> Prop) (p : nat -> B -> bool) l i, Forall P l -> Forall P (filter_idx p i l).
Proof.
  intros B P p l. induction l as [|x r IH]; intros i H; cbn [filter_idx]; auto.
  inversion H; subst. destruct (p i x); auto.
Qed.

(** [Database::rebuild_indexes] right after the rows of a listed table were replaced *)
Lemma rebuild_after_set_rows : forall s t sc rows', Agree s -> alookup t (s_cat s) = Some sc ->
  Forall (fun r => length r = length (ts_cols sc)) rows' ->
  let s1 := set_table s (qual public t) (mktab sc rows') in
  exists l', rebuild_list t sc rows' (s_sidx s) = Some l' /\ db_rebuild_indexes s1 t = Some (set_sidx s1 l').
Proof.
  intros s t sc rows' A EL WD s1.
  destruct (ag_cat_wf s A t sc EL) as [Hd [_ CO]].
  assert (TOT : exists l', rebuild_list t sc rows' (s_sidx s) = Some l').
  { rewrite rebuild_list_amapM. apply amapM_total. intros k x HI. unfold rebuild_entry.
    name_cases (si_table x) t; [|eauto].
    apply (in_alookup_nodup _ _ _ (ag_nd_sidx s A)) in HI.
    destruct (build_data_ok sc (si_cols x) rows' 0 [] CO) as [d Hdd]; auto.
    - intros c Hc. eapply (ag_idx_cols s A k x sc HI); auto. rewrite E. exact EL.
    - rewrite Hdd. eauto. }
  destruct TOT as [l' HL]. exists l'. split; auto.
  subst s1. unfold db_rebuild_indexes, rebuild_find_key, cat_norm. simp_st. rewrite (ag_cs s A).
  rewrite amem_ainsert. rewrite (tabs_nodot_absent s A t Hd).
  assert (N1 : name_eqb (qual public t) t = false) by (apply name_eqb_neq; intro E; symmetry in E; revert E; apply nodot_ne_qual; auto).
  rewrite N1. cbn [orb]. rewrite amem_ainsert, name_eqb_refl. cbn [orb].
  rewrite alookup_ainsert_same.
  unfold cat_get_table. rewrite (split_dot_none _ Hd). unfold schema_get_table, cat_norm. simp_st.
  rewrite (ag_cs s A). rewrite EL. cbn [t_rows]. rewrite HL. reflexivity.
Qed.

Lemma agree_after_rebuild : forall s t sc rows rows' l', Agree s ->
  alookup t (s_cat s) = Some sc ->
  alookup (qual public t) (s_tabs s) = Some (mktab sc rows) ->
  Forall (fun r => length r = length (ts_cols sc)) rows' ->
  rebuild_list t sc rows' (s_sidx s) = Some l' ->
  Agree (set_sidx (set_table s (qual public t) (mktab sc rows')) l').
Proof.
  intros s t sc rows rows' l' A EL ET WD HL. rewrite rebuild_list_amapM in HL.
  destruct (amapM_entry_spec _ _ _ HL) as [KE SP].
  apply (agree_set_rows s t sc rows rows' l' A EL ET WD KE).
  intros k x' H. destruct (SP k x' H) as [x [Hx Hf]]. exists x. split; auto.
  unfold rebuild_entry in Hf. name_cases (si_table x) t.
  - destruct (build_data sc (si_cols x) rows' 0 []) as [d|] eqn:Hd; try discriminate.
    inversion Hf; subst x'. destruct (si_with_data_meta x d) as [M1 [M2 [M3 [M4 M5]]]].
    repeat split; auto; try contradiction; try (intros _; rewrite M5; reflexivity).
  - inversion Hf; subst x'. repeat split; auto; intro; contradiction.
Qed.

Lemma pk_indices_bound : forall sc idxs, cache_ok sc -> pk_indices sc = Some idxs ->
  forall i, In i idxs -> (i < length (ts_cols sc))%nat.
Proof.
  intros sc idxs CO EP. unfold pk_indices in EP. destruct (ts_pk sc) as [l|]; try discriminate.
  inversion EP; subst idxs. clear EP.
  induction l as [|n r IH]; cbn [filter_map_idx]; [intros i []|].
  destruct (get_column_index sc n) as [j|] eqn:EJ; auto.
  intros i [Hi|Hi]; [subst; eapply get_column_index_bound; eauto | auto].
Qed.

Lemma agree_delete : forall s tn w, Agree s -> wf_name tn = true ->
  Agree (fst (exec_delete s tn w)) /\ no_panic (snd (exec_delete s tn w)).
Proof.
  intros s tn w A W. unfold wf_name in W. apply negb_true_iff in W.
  unfold exec_delete. rewrite (cat_get_plain s A tn W).
  destruct (alookup tn (s_cat s)) as [csc|] eqn:EL; [|cbn; auto with c33].
  assert (L : listed s tn) by (apply amem_alookup; eauto).
  rewrite (tab_find_listed s A tn L).
  destruct (listed_table s A tn csc EL) as [rows [ET WD]]. rewrite ET. cbn [t_schema t_rows].
  match goal with |- context [filter_idx (fun i r => negb (?K i r)) 0 rows] => set (keep := K) end.
  set (rows' := filter_idx keep 0 rows).
  assert (WD' : Forall (fun r => length r = length (ts_cols csc)) rows') by (apply filter_idx_forall; auto).
  destruct (ag_cat_wf s A tn csc EL) as [_ [_ CO]].
  assert (NP : pk_probe_panics csc (filter_idx (fun i r => negb (keep i r)) 0 rows) = false).
  { unfold pk_probe_panics. destruct (pk_indices csc) as [idxs|] eqn:EP; auto.
    pose proof (pk_indices_bound csc idxs CO EP) as HB.
    apply existsb_false_forall. intros r Hr. apply existsb_false_forall. intros i Hi.
    assert (WG : Forall (fun r => length r = length (ts_cols csc)) (filter_idx (fun i r => negb (keep i r)) 0 rows))
      by (apply filter_idx_forall; auto).
    rewrite Forall_forall in WG. specialize (WG r Hr). specialize (HB i Hi).
    destruct (nth_error r i) eqn:EN; [reflexivity|]. apply nth_error_None in EN. lia. }
  rewrite NP, andb_false_r.
  destruct (rebuild_after_set_rows s tn csc rows' A EL WD') as [l' [HL HR]]. cbn zeta in HR.
  rewrite HR. cbn [fst snd]. split; auto with c33.
  apply (agree_after_rebuild s tn csc rows rows' l' A EL ET WD' HL).
Qed.

Lemma agree_truncate : forall s tn, Agree s -> wf_qname tn = true -> known s (Truncate tn) = false ->
  Agree (fst (exec_truncate s tn)) /\ no_panic (snd (exec_truncate s tn)).
Proof.
  intros s tn A W K. unfold exec_truncate.
  destruct (qname_cases tn W) as [sn [t [E [Hsn [Ht Hc]]]]].
  destruct Hc as [[Es [Esn Et]] | [Es Et]]; [subst sn; subst tn | subst tn].
  - unfold cat_table_exists. rewrite (cat_get_plain s A t Ht).
    destruct (alookup t (s_cat s)) as [csc|] eqn:EL; cbn [is_some negb]; [|cbn; auto with c33].
    assert (L : listed s t) by (apply amem_alookup; eauto).
    rewrite (tab_find_listed s A t L).
    destruct (listed_table s A t csc EL) as [rows [ET WD]]. rewrite ET. cbn [t_schema t_rows].
    destruct (rebuild_after_set_rows s t csc (@nil row) A EL (Forall_nil _)) as [l' [HL HR]]. cbn zeta in HR.
    rewrite HR. cbn [fst snd]. split; auto with c33.
    apply (agree_after_rebuild s t csc rows (@nil row) l' A EL ET (Forall_nil _) HL).
  - unfold cat_table_exists. rewrite (cat_get_qualified s A sn t Hsn).
    name_cases sn public; [|cbn; auto with c33]. subst sn.
    destruct (alookup t (s_cat s)) as [csc|] eqn:EL; cbn [is_some negb]; [|cbn; auto with c33].
    assert (L : listed s t) by (apply amem_alookup; eauto).
    destruct (listed_table s A t csc EL) as [rows [ET WD]].
    assert (ST : amem (qual public t) (s_tabs s) = true) by (apply amem_alookup; eauto).
    unfold tab_find_key. rewrite ST, ET. cbn [t_schema t_rows].
    cbn [known] in K. rewrite Es in K. destruct (table_indexed_false s t K) as [K1 K2].
    (* the rebuild is asked for the qualified name: no index carries it *)
    assert (RB : db_rebuild_indexes (set_table s (qual public t) (mktab csc (@nil row))) (qual public t)
                 = Some (set_sidx (set_table s (qual public t) (mktab csc (@nil row))) (s_sidx s))).
    { unfold db_rebuild_indexes, rebuild_find_key. simp_st. rewrite amem_ainsert, name_eqb_refl. cbn [orb].
      rewrite alookup_ainsert_same.
      unfold cat_get_table. rewrite (split_dot_qual _ _ Hsn). unfold schema_found, schema_get_table, cat_norm. simp_st.
      rewrite (ag_cs s A), name_eqb_refl, EL. cbn [t_rows].
      rewrite rebuild_list_amapM. rewrite amapM_id_on; auto.
      intros k x HI. unfold rebuild_entry.
      apply (in_alookup_nodup _ _ _ (ag_nd_sidx s A)) in HI.
      pose proof (idx_table_nodot s A k x HI) as Hd.
      name_cases (si_table x) (qual public t); auto. rewrite E0, has_dot_qual in Hd. discriminate. }
    rewrite RB. cbn [fst snd]. split; auto with c33.
    apply (agree_set_rows s t csc rows (@nil row) (s_sidx s) A EL ET (Forall_nil _) eq_refl).
    intros k x H. exists x. repeat split; auto.
    intro Et. exfalso. apply alookup_in in H. pose proof (K2 _ H) as K3. cbn [snd] in K3.
    apply name_eqb_neq in K3. contradiction.
Qed.

(* ------------------------------------------------------------------------------------------ *)
(** * ALTER TABLE RENAME TO *)

Lemma take_while_forall : forall (B : Type) (P : B -> Prop) (p : B -> bool) l, Forall P l -> Forall P (take_while p l).
Proof.
  intros B P p l H. induction H as [|x r Hx Hr IH]; cbn [take_while]; auto.
  destruct (p x); auto.
Qed.

Lemma agree_rename_table : forall s tn new, Agree s -> wf_name tn = true -> wf_name new = true ->
  known s (RenameTable tn new) = false ->
  Agree (fst (exec_rename_table s tn new)) /\ no_panic (snd (exec_rename_table s tn new)).
Proof.
  intros s tn new A W1 W2 K. unfold wf_name in W1, W2. apply negb_true_iff in W1. apply negb_true_iff in W2.
  unfold exec_rename_table.
  destruct (tab_find_key s new) as [kn|] eqn:EN; cbn [is_some]; [cbn; auto with c33|].
  assert (NLnew : amem new (s_cat s) = false).
  { destruct (amem new (s_cat s)) eqn:E; auto. rewrite (tab_find_listed s A new E) in EN. discriminate. }
  unfold get_table.
  (* what Operations::drop_table does to the storage indexes: nothing (they carry unqualified names) *)
  assert (SD : filter (fun p => negb (name_eqb (si_table (snd p)) (qual public tn))) (s_sidx s) = s_sidx s)
    by (apply sidx_no_dotted_table; auto; apply has_dot_qual).
  destruct (alookup tn (s_cat s)) as [sc|] eqn:EL.
  - assert (L : listed s tn) by (apply amem_alookup; eauto).
    rewrite (tab_find_listed s A tn L).
    destruct (listed_table s A tn sc EL) as [rows [ET WD]]. rewrite ET. cbn [t_schema t_rows].
    destruct (ag_cat_wf s A tn sc EL) as [_ [Hnm CO]].
    cbn [known] in K. destruct (table_indexed_false s tn K) as [K1 K2].
    unfold ops_drop_table, cat_norm. rewrite (ag_cs s A). rewrite W1.
    unfold sidx_drop_for_table. simp_st. rewrite SD.
    unfold cat_drop_table. rewrite (split_dot_none _ W1). unfold schema_found, cat_norm. simp_st.
    rewrite (ag_cs s A), name_eqb_refl. cbn [negb]. unfold listed in L. rewrite L. simp_st.
    rewrite (tabs_nodot_absent s A tn W1). cbn [negb].
    match goal with |- context [db_create_table ?S1 ?SC] => set (s1 := S1); set (sc' := SC) end.
    assert (A1 : Agree s1).
    { apply (agree_remove_table s s1 tn A L); unfold s1; simp_st; try reflexivity.
      - symmetry. apply filter_all. intros p Hp. rewrite (K1 p Hp). reflexivity.
      - apply (ag_nd_sidx s A).
      - intro k. destruct (alookup k (s_sidx s)) as [x|] eqn:Ex; auto.
        apply alookup_in in Ex. pose proof (K2 _ Ex) as K3. cbn [snd] in K3. rewrite K3. reflexivity. }
    destruct (agree_db_create_table s1 sc' A1) as [s2 [H1 [A2 [C2 [T2 [I2 [X2 S2]]]]]]].
    + exact W2.
    + cbn [ts_name sc']. unfold s1. simp_st. rewrite amem_aremove, NLnew. apply andb_false_r.
    + unfold cache_ok, sc'. cbn [ts_cache ts_cols]. exact CO.
    + rewrite H1.
      assert (L2 : listed s2 new).
      { unfold listed. rewrite C2. cbn [ts_name sc']. rewrite amem_ainsert, name_eqb_refl. reflexivity. }
      rewrite (tab_find_listed s2 A2 new L2).
      match goal with |- context [take_while ?P rows] => set (good := take_while P rows) end.
      assert (R : no_panic (if Nat.eqb (length good) (length rows) then ROk 0 else RErr)) by (destruct (Nat.eqb _ _); auto with c33).
      cbn [fst snd]. split; auto.
      assert (EL2 : alookup new (s_cat s2) = Some sc') by (rewrite C2; cbn [ts_name sc']; apply alookup_ainsert_same).
      assert (ET2 : alookup (qual public new) (s_tabs s2) = Some (mktab sc' [])) by (rewrite T2; cbn [ts_name sc']; apply alookup_ainsert_same).
      assert (WG : Forall (fun r => length r = length (ts_cols sc')) good).
      { unfold good. apply take_while_forall. cbn [ts_cols sc']. exact WD. }
      eapply agree_ext; [| | | | |apply (agree_set_rows s2 new sc' [] good (s_sidx s2) A2 EL2 ET2 WG eq_refl)]; simp_st; try reflexivity.
      intros k x H. exists x. repeat split; auto. intro Et. exfalso.
      (* an index on [new] would make [new] listed in s *)
      rewrite X2 in H. unfold s1 in H. simp_st.
      pose proof (ag_idx_table s A k x H) as Lx. unfold listed in Lx. rewrite Et in Lx. congruence.
  - (* the old name is not listed: nothing is found, or a case variant whose catalog entry is not found *)
    destruct (tab_find_key s tn) as [k|] eqn:EF; [|cbn; auto with c33].
    destruct (alookup k (s_tabs s)) as [tb|]; [|cbn; auto with c33].
    unfold ops_drop_table, cat_norm. rewrite (ag_cs s A). rewrite W1.
    unfold sidx_drop_for_table. simp_st. rewrite SD.
    unfold cat_drop_table. rewrite (split_dot_none _ W1). unfold schema_found, cat_norm. simp_st.
    rewrite (ag_cs s A), name_eqb_refl. cbn [negb]. apply amem_false in EL. rewrite EL. cbn [fst snd negb].
    split; auto with c33. eapply agree_ext; [| | | | |exact A]; simp_st; reflexivity.
Qed.
