(** C12 laws, part 11: termination of the cascade recursion from the ROWS.
    Measure: the longest chain of ON DELETE CASCADE references below the checked row.  A chain
    without repetition visits each (table, key) at most once, so the rows bound it: without a cycle of
    CASCADE references between rows the default fuel [S (S (total_rows d))] is never exhausted. *)
From Coq Require Import List ZArith Bool Arith Lia.
From VibeSQL Require Import Store.Fk Store.FkLaws Store.FkDeleteLaws Store.FkStepLaws Store.FkUpdateLaws Store.FkTermination.
Import ListNotations.

(** no ON DELETE SET DEFAULT with a non-NULL default (that action can create references; it is a
    known class of its own) *)
Definition nsd (d : db) : Prop :=
  forall ct fk, In ct d -> In fk (t_fks ct) -> fk_ondel fk = ASetDefault -> forallb is_null (fk_defaults ct fk) = true.

Lemma nsd_sames : forall d d', sames d d' -> nsd d -> nsd d'.
Proof.
  intros d d' S N ct' fk Hct' Hfk Ha. destruct (sames_In _ _ _ S Hct') as [ct [Hct [_ [Hc [_ Hf]]]]].
  rewrite Hf in Hfk. specialize (N ct fk Hct Hfk Ha). unfold fk_defaults, col_default in *. rewrite Hc. exact N.
Qed.

(** every DELETE-side action only shrinks the database, whatever the ghost log says *)
Definition shr (w : world) (o : outcome) : Prop :=
  match o with
  | OOk w' | OErr _ w' => shrinks (fst w) (fst w')
  | OCrash => True
  end.

Definition rec_shr (rec : nat -> row -> world -> outcome) : Prop :=
  forall p r w, inv (fst w) -> nsd (fst w) -> shr w (rec p r w).

Lemma shr_bind : forall w o f, inv (fst w) -> nsd (fst w) ->
  shr w o -> (forall w1, inv (fst w1) -> nsd (fst w1) -> shr w1 (f w1)) -> shr w (bind o f).
Proof.
  intros w o f I N H1 H2. destruct o as [w1|e w1|]; cbn in *; auto.
  assert (I1 : inv (fst w1)) by (eapply inv_shrinks; eassumption).
  assert (N1 : nsd (fst w1)) by (eapply nsd_sames; [eapply dshrink_sames; exact H1|exact N]).
  specialize (H2 w1 I1 N1). destruct (f w1); cbn in *; auto; eapply shrinks_trans; eassumption.
Qed.

Lemma each_row_shr : forall (f : row -> world -> outcome) rs w, inv (fst w) -> nsd (fst w) ->
  (forall r w, inv (fst w) -> nsd (fst w) -> shr w (f r w)) -> shr w (each_row f rs w).
Proof.
  intros f rs. induction rs as [|r rs IH]; intros w I N H; cbn; [apply dshrink_refl|].
  apply shr_bind; auto; intros w1 I1 N1; apply IH; auto.
Qed.

Lemma rewrite_children_shr : forall cn fk k vs w ct, inv (fst w) -> get_table (fst w) cn = Some ct ->
  In fk (t_fks ct) -> forallb is_null vs = true -> length vs = length (fk_cols fk) ->
  shr w (rewrite_children cn fk k vs w).
Proof.
  intros cn fk k vs [d ev] ct I G Hf Hn Hl. cbn [fst] in *.
  assert (Hne : fk_cols fk <> []).
  { pose proof (get_table_In _ _ _ G) as [Gin _]. eapply std_fk_cols_nonempty; eassumption. }
  pose proof (rewrite_children_spec (fun _ _ => True) cn fk k vs d ev ct I G Hne Hn Hl) as H.
  destruct (rewrite_children cn fk k vs (d, ev)) as [[d' ev']|e [d' ev']|]; cbn; [apply H|apply H|exact Logic.I].
Qed.

Lemma cascade_delete_shr : forall rec cn fk k w, rec_shr rec -> inv (fst w) -> nsd (fst w) ->
  shr w (cascade_delete rec cn fk k w).
Proof.
  intros rec cn fk k w RS I N. unfold cascade_delete. destruct (get_table (fst w) cn) as [ct|]; [|apply dshrink_refl].
  apply shr_bind; auto; [apply each_row_shr; auto; intros; apply RS; assumption|].
  intros w1 I1 N1. destruct (get_table (fst w1) cn) as [ct1|] eqn:G1; [|apply dshrink_refl].
  assert (X : shrinks (fst w1) (set_rows (fst w1) cn (filter (fun r => negb (key_mem r (filter (refs fk k) (t_rows ct)))) (t_rows ct1)))).
  { eapply set_rows_dshrink; [apply (inv_names _ I1)|exact G1|]. apply srows_filter. auto. }
  destruct (forallb _ _); cbn; exact X.
Qed.

Lemma run_actions_shr : forall rec acts k w, rec_shr rec -> inv (fst w) -> nsd (fst w) ->
  (forall cn fk, In (cn, fk) acts -> exists ct, get_table (fst w) cn = Some ct /\ In fk (t_fks ct)) ->
  shr w (run_actions rec acts k w).
Proof.
  intros rec acts k. induction acts as [|[cn fk] acts IH]; intros w RS I N HA; cbn [run_actions]; [apply dshrink_refl|].
  destruct (HA cn fk (or_introl eq_refl)) as [ct [G Hf]].
  assert (NEXT : forall o1, shr w o1 -> shr w (bind o1 (run_actions rec acts k))).
  { intros o1 S1. destruct o1 as [w1|e w1|]; cbn [bind]; auto. cbn in S1.
    assert (I1 : inv (fst w1)) by (eapply inv_shrinks; eassumption).
    assert (N1 : nsd (fst w1)) by (eapply nsd_sames; [eapply dshrink_sames; exact S1|exact N]).
    assert (HA1 : forall cn0 fk0, In (cn0, fk0) acts -> exists ct0, get_table (fst w1) cn0 = Some ct0 /\ In fk0 (t_fks ct0)).
    { intros cn0 fk0 Hin. destruct (HA cn0 fk0 (or_intror Hin)) as [ct0 [G0 Hf0]].
      destruct (dshrink_get _ _ _ _ _ S1 G0) as [ct0' [G0' [[_ [_ [_ Hfk]]] _]]]. exists ct0'. rewrite Hfk. auto. }
    specialize (IH w1 RS I1 N1 HA1). destruct (run_actions rec acts k w1); cbn in *; auto; eapply shrinks_trans; eassumption. }
  destruct (fk_ondel fk) eqn:Ea.
  - apply dshrink_refl.
  - apply dshrink_refl.
  - apply NEXT. apply cascade_delete_shr; assumption.
  - apply NEXT. unfold set_null. eapply rewrite_children_shr; try eassumption.
    + apply forallb_is_null_map_none.
    + apply map_length.
  - apply NEXT. unfold set_default. rewrite G.
    pose proof (get_table_In _ _ _ G) as [Gin _]. rewrite (N ct fk Gin Hf Ea).
    eapply rewrite_children_shr; try eassumption; [apply (N ct fk Gin Hf Ea)|apply map_length].
Qed.

Lemma check_shr : forall fuel ord, rec_shr (check fuel ord).
Proof.
  induction fuel as [|f IH]; intros ord p r w I N; cbn; [exact Logic.I|].
  unfold check_body. destruct (get_table (fst w) p) as [pt|]; [|apply dshrink_refl].
  destruct (t_pk pt) as [pk|]; [|apply dshrink_refl]. destruct (negb (has_any_fks (fst w))); [apply dshrink_refl|].
  apply run_actions_shr; auto.
  intros cn fk Hin. apply collect_In in Hin. destruct Hin as [_ [ct [G [Hf _]]]]. exists ct. auto.
Qed.

(* ------------------------------------------------------------------------------------ *)
(** * Depth of the CASCADE reference chains below a key *)

(** [depth_le n d p k]: every chain of ON DELETE CASCADE references that starts at key [k] of table
    [p] has fewer than [n] links (a nested call is made for every referencing row, also of a child
    without primary key, where it returns at once) *)
Fixpoint depth_le (n : nat) (d : db) (p : nat) (k : key) : Prop :=
  match n with
  | O => False
  | S n' => forall ct fk r, In ct d -> In fk (t_fks ct) -> fk_parent fk = p -> fk_ondel fk = ACascade ->
              In r (t_rows ct) -> refs fk k r = true ->
              match t_pk ct with
              | Some pkc => depth_le n' d (t_name ct) (proj pkc r)
              | None => n' <> 0
              end
  end.

Lemma depth_le_shrinks : forall n d d' p k, shrinks d d' -> depth_le n d p k -> depth_le n d' p k.
Proof.
  induction n as [|n IH]; intros d d' p k S H; [exact H|]. cbn in *.
  intros ct' fk r' Hct' Hfk Hp Ha Hr' Href.
  destruct (dshrink_In _ _ _ _ S Hct') as [ct [Hct [[Hn [_ [Hpp Hf]]] Hrows]]].
  destruct (srows_origin _ _ _ _ _ Hrows Hr') as [r [Hr [Hle Hk]]].
  assert (X := H ct fk r Hct (eq_ind _ (fun l => In fk l) Hfk _ Hf) Hp Ha Hr (refs_le _ _ _ _ Hle Href)).
  rewrite Hpp. destruct (t_pk ct) as [pkc|]; [|exact X].
  cbn in Hk. rewrite Hk, Hn. apply (IH d d'); assumption.
Qed.

Lemma depth_le_mono : forall n m d p k, n <= m -> depth_le n d p k -> depth_le m d p k.
Proof.
  induction n as [|n IH]; intros m d p k Hm H; [contradiction|]. destruct m as [|m]; [lia|]. cbn in *.
  intros ct fk r H1 H2 H3 H4 H5 H6. specialize (H ct fk r H1 H2 H3 H4 H5 H6).
  destruct (t_pk ct); [apply (IH m); [lia|exact H]|lia].
Qed.

(** what a call [check fuel p prow] needs *)
Definition levelok (fuel : nat) (d : db) (p : nat) (prow : row) : Prop :=
  match get_table d p with
  | Some pt => match t_pk pt with Some pk => depth_le fuel d p (proj pk prow) | None => fuel <> 0 end
  | None => fuel <> 0
  end.

Lemma levelok_shrinks : forall fuel d d' p prow, shrinks d d' -> levelok fuel d p prow -> levelok fuel d' p prow.
Proof.
  intros fuel d d' p prow S H. unfold levelok in *. destruct (get_table d p) as [pt|] eqn:G.
  - destruct (dshrink_get _ _ _ _ _ S G) as [pt' [G' [[_ [_ [Hp _]]] _]]]. rewrite G', Hp.
    destruct (t_pk pt); [eapply depth_le_shrinks; eassumption|exact H].
  - destruct (get_table d' p) as [pt'|] eqn:G'; [|exact H].
    destruct (dshrink_get_rev _ _ _ _ _ S G') as [pt [G2 _]]. congruence.
Qed.

Section Depth.
Variable ord : list nat.

Lemma each_row_depth : forall (f : row -> world -> outcome) rs w,
  inv (fst w) -> nsd (fst w) ->
  (forall r w, inv (fst w) -> nsd (fst w) -> shr w (f r w)) ->
  (forall r w0, In r rs -> inv (fst w0) -> nsd (fst w0) -> shrinks (fst w) (fst w0) -> never_crashes (f r w0)) ->
  never_crashes (each_row f rs w).
Proof.
  intros f rs. induction rs as [|r rs IH]; intros w I N SH NC; cbn; [exact Logic.I|].
  apply never_bind; [apply NC; auto; [left; reflexivity|apply dshrink_refl]|].
  intros w1 E. pose proof (SH r w I N) as S1. rewrite E in S1. cbn in S1.
  assert (I1 : inv (fst w1)) by (eapply inv_shrinks; eassumption).
  assert (N1 : nsd (fst w1)) by (eapply nsd_sames; [eapply dshrink_sames; exact S1|exact N]).
  apply IH; auto. intros r0 w0 Hr0 I0 N0 S0. apply NC; auto; [right; exact Hr0|eapply shrinks_trans; eassumption].
Qed.

Lemma run_actions_depth : forall fuel p k acts w,
  (forall q r w0, inv (fst w0) -> nsd (fst w0) -> levelok fuel (fst w0) q r -> never_crashes (check fuel ord q r w0)) ->
  inv (fst w) -> nsd (fst w) -> depth_le (S fuel) (fst w) p k ->
  (forall cn fk, In (cn, fk) acts -> fk_parent fk = p /\ exists ct, get_table (fst w) cn = Some ct /\ In fk (t_fks ct)) ->
  never_crashes (run_actions (check fuel ord) acts k w).
Proof.
  intros fuel p k acts. induction acts as [|[cn fk] acts IH]; intros w NC I N D HA; cbn [run_actions]; [exact Logic.I|].
  destruct (HA cn fk (or_introl eq_refl)) as [Hp [ct [G Hf]]].
  assert (NEXT : forall o1, shr w o1 -> never_crashes o1 -> never_crashes (bind o1 (run_actions (check fuel ord) acts k))).
  { intros o1 S1 N1. apply never_bind; [exact N1|]. intros w1 E. subst o1. cbn in S1.
    assert (I1 : inv (fst w1)) by (eapply inv_shrinks; eassumption).
    assert (Nw1 : nsd (fst w1)) by (eapply nsd_sames; [eapply dshrink_sames; exact S1|exact N]).
    apply IH; auto; [eapply depth_le_shrinks; eassumption|].
    intros cn0 fk0 Hin. destruct (HA cn0 fk0 (or_intror Hin)) as [Hp0 [ct0 [G0 Hf0]]]. split; [exact Hp0|].
    destruct (dshrink_get _ _ _ _ _ S1 G0) as [ct0' [G0' [[_ [_ [_ Hfk]]] _]]]. exists ct0'. rewrite Hfk. auto. }
  destruct (fk_ondel fk) eqn:Ea; try exact Logic.I.
  - apply NEXT; [apply cascade_delete_shr; auto; apply check_shr|].
    unfold cascade_delete. rewrite G. apply never_bind.
    + apply each_row_depth; auto; [intros; apply check_shr; assumption|].
      intros x w0 Hx I0 N0 S0. apply NC; auto. apply filter_In in Hx. destruct Hx as [Hx Href].
      eapply levelok_shrinks; [exact S0|]. unfold levelok. rewrite G.
      pose proof (get_table_In _ _ _ G) as [Gin Gn].
      pose proof (D ct fk x Gin Hf Hp Ea Hx Href) as X. rewrite Gn in X. exact X.
    + intros w1 _. destruct (get_table (fst w1) cn); [|exact Logic.I]. destruct (forallb _ _); exact Logic.I.
  - apply NEXT; [unfold set_null; eapply rewrite_children_shr; try eassumption; [apply forallb_is_null_map_none|apply map_length]|].
    unfold set_null, rewrite_children. rewrite G. destruct (apply_updates _ _ _) as [rs' ok]. destruct ok; exact Logic.I.
  - pose proof (get_table_In _ _ _ G) as [Gin _]. pose proof (N ct fk Gin Hf Ea) as Hd.
    apply NEXT.
    + unfold set_default. rewrite G, Hd. eapply rewrite_children_shr; try eassumption. apply map_length.
    + unfold set_default, rewrite_children. rewrite G, Hd, G. destruct (apply_updates _ _ _) as [rs' ok]. destruct ok; exact Logic.I.
Qed.

(** the recursion ends whenever the chains of CASCADE references below the row are shorter than the fuel *)
Theorem check_terminates_by_depth : forall fuel p prow w,
  inv (fst w) -> nsd (fst w) -> levelok fuel (fst w) p prow -> never_crashes (check fuel ord p prow w).
Proof.
  induction fuel as [|f IH]; intros p prow w I N L.
  - exfalso. unfold levelok in L. destruct (get_table (fst w) p) as [pt|]; [destruct (t_pk pt)|]; [exact L|congruence|congruence].
  - cbn [check]. unfold check_body. unfold levelok in L.
    destruct (get_table (fst w) p) as [pt|]; [|exact Logic.I]. destruct (t_pk pt) as [pk|]; [|exact Logic.I].
    destruct (negb (has_any_fks (fst w))); [exact Logic.I|].
    apply (run_actions_depth f p); auto.
    intros cn fk Hin. apply collect_In in Hin. destruct Hin as [_ [ct [G1 [Hf [Hp _]]]]].
    split; [exact Hp|]. exists ct. auto.
Qed.

End Depth.

(* ------------------------------------------------------------------------------------ *)
(** * Without a cycle of CASCADE references between rows the default fuel is enough *)

Definition node := (nat * key)%type.

Definition edge (d : db) (x y : node) : Prop :=
  exists ct fk r pkc, In ct d /\ In fk (t_fks ct) /\ fk_parent fk = fst x /\ fk_ondel fk = ACascade
                      /\ In r (t_rows ct) /\ refs fk (snd x) r = true /\ t_pk ct = Some pkc
                      /\ y = (t_name ct, proj pkc r).

Inductive chain (d : db) : node -> list node -> Prop :=
| ch_nil : forall x, chain d x []
| ch_cons : forall x y l, edge d x y -> chain d y l -> chain d x (y :: l).

Lemma depth_of_chains : forall n d x,
  (forall l, chain d x l -> length l + 2 <= n) -> depth_le n d (fst x) (snd x).
Proof.
  induction n as [|n IH]; intros d x H.
  - specialize (H [] (ch_nil d x)). cbn in H. lia.
  - cbn. intros ct fk r Hct Hfk Hp Ha Hr Href. destruct (t_pk ct) as [pkc|] eqn:Epk.
    + apply (IH d (t_name ct, proj pkc r)). intros l Hl.
      assert (E : edge d x (t_name ct, proj pkc r)) by (exists ct, fk, r, pkc; repeat split; auto).
      specialize (H _ (ch_cons d x _ l E Hl)). cbn in H. lia.
    + specialize (H [] (ch_nil d x)). cbn in H. lia.
Qed.

(** all (table, key) pairs of the stored rows *)
Definition universe (d : db) : list node :=
  flat_map (fun t => match t_pk t with
                     | Some pk => map (fun r => (t_name t, proj pk r)) (t_rows t)
                     | None => [] end) d.

Lemma universe_length : forall d, length (universe d) <= total_rows d.
Proof.
  unfold universe, total_rows. induction d as [|t d IH]; cbn [flat_map fold_right length]; [lia|].
  rewrite app_length. destruct (t_pk t); [rewrite map_length|cbn [length Nat.add]].
  - apply Nat.add_le_mono_l. exact IH.
  - eapply Nat.le_trans; [exact IH|]. apply Nat.le_add_l.
Qed.

Lemma chain_in_universe : forall d x l, chain d x l -> incl l (universe d).
Proof.
  intros d x l H. induction H as [|x y l [ct [fk [r [pkc [Hct [_ [_ [_ [Hr [_ [Hpk ->]]]]]]]]]]] _ IH]; intros z Hz; [contradiction|].
  destruct Hz as [<-|Hz]; [|apply IH; exact Hz].
  unfold universe. apply in_flat_map. exists ct. split; [exact Hct|]. rewrite Hpk. apply in_map_iff. exists r. auto.
Qed.

Definition no_cascade_cycle_from (d : db) (x : node) : Prop := forall l, chain d x l -> NoDup l.

Theorem depth_without_cycle : forall d x, no_cascade_cycle_from d x -> depth_le (default_fuel d) d (fst x) (snd x).
Proof.
  intros d x A. apply depth_of_chains. intros l Hl.
  pose proof (NoDup_incl_length (A l Hl) (chain_in_universe _ _ _ Hl)) as X.
  pose proof (universe_length d). unfold default_fuel. lia.
Qed.

(** the DELETE statement with the default fuel never "overflows the stack" when no cycle of ON DELETE
    CASCADE references between rows is reachable from a selected row *)
Theorem delete_terminates_without_cycle : forall ord d t wh,
  inv d -> nsd d ->
  (forall tb pk r, get_table d t = Some tb -> t_pk tb = Some pk -> In r (t_rows tb) -> selects wh r = true ->
     no_cascade_cycle_from d (t, proj pk r)) ->
  step_res ord d (SDelete t wh) <> RCrash.
Proof.
  intros ord d t wh I N A. unfold step_res, step, step_fuel, exec_delete.
  destruct (get_table d t) as [tb|] eqn:G; [|discriminate].
  destruct (_ && _); [discriminate|].
  assert (NC : never_crashes (each_row (check (default_fuel d) ord t) (map snd (select_from 0 wh (t_rows tb))) (d, []))).
  { apply each_row_depth; auto; [intros; apply check_shr; assumption|].
    intros r w0 Hr I0 N0 S0. apply check_terminates_by_depth; auto. eapply levelok_shrinks; [exact S0|].
    unfold levelok. cbn [fst]. rewrite G. destruct (t_pk tb) as [pk|] eqn:Epk; [|unfold default_fuel; lia].
    apply (depth_without_cycle d (t, proj pk r)). apply (A tb pk r eq_refl Epk).
    - apply in_map_iff in Hr. destruct Hr as [[i y] [Ey Hy]]. cbn in Ey. subst y.
      destruct (select_from_spec wh (t_rows tb) 0) as [F _]. rewrite Forall_forall in F.
      destruct (F _ Hy) as [_ X]. eapply nth_error_In. exact X.
    - apply in_map_iff in Hr. destruct Hr as [[i y] [Ey Hy]]. cbn in Ey. subst y.
      clear -Hy. revert Hy. generalize 0. induction (t_rows tb) as [|a l IHl]; intros n Hy; cbn in Hy; [contradiction|].
      destruct (selects wh a) eqn:Es; [destruct Hy as [E|Hy]; [inversion E; subst; exact Es|eapply IHl; exact Hy]|eapply IHl; exact Hy]. }
  destruct (each_row (check (default_fuel d) ord t) (map snd (select_from 0 wh (t_rows tb))) (d, [])) as [w|e w|];
    [|discriminate|contradiction].
  destruct (get_table (fst w) t); discriminate.
Qed.
