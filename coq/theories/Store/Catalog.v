(** C33 model: the registries that must describe the same objects after any DDL/DML history.

    Four registries, each with its own key normalisation (all names are [list Z] of code points;
    the harness uses ASCII names only, where [str::to_uppercase]/[to_lowercase] are the maps below):

    - catalog tables   [Catalog.schemas["public"].tables : HashMap<String, TableSchema>]
        key = the table name, upper-cased unless [case_sensitive_identifiers] (default: true)
        (crates/vibesql-catalog/src/{schema.rs, store/tables.rs, store/mod.rs})
    - catalog indexes  [Catalog.indexes : HashMap<String, IndexMetadata>]
        key = "<table_name as given>.<index name as given>"          (store/indexes.rs, index.rs)
    - stored tables    [Database.tables : HashMap<String, Table>]
        key = "<current schema>.<normalised table name>"; looked up through the multi-step
        [Database::get_table] / the two-step lookups of [Operations]   (storage database/{core,operations}.rs)
    - storage indexes  [IndexManager.indexes/index_data : HashMap<String, ..>]
        key = upper-cased index name; [metadata.table_name] is stored AS GIVEN and compared with [==]
        against whatever string the caller passes                  (database/indexes/*.rs)

    A stored [Table] carries its own copy of the [TableSchema]; the catalog has another copy.  Every
    executor reads one or the other (see the comment at each function).  The model keeps both.

    Fragment (everything else yields [RUnmodelled], never silently a wrong answer):
    all columns INTEGER; values are NULL or an integer; one schema ("public", the current one);
    no triggers, views, foreign keys, spatial/disk-backed indexes (a table has < 100 000 rows);
    security disabled (PrivilegeChecker returns Ok, the default of [Database::new]).
    INSERT is [INSERT INTO t VALUES (..),(..)] with integer literals and no column list, under the
    stated assumption that the rows do not collide with PRIMARY KEY / UNIQUE table constraints (the
    harness inserts fresh values; CHECK constraints are [col >= 0] over non-negative values); DELETE is
    [DELETE FROM t [WHERE c = literal]].

    Rust panics are explicit results ([RPanic]); the state returned with a panic is unspecified (the
    model returns the input state) and runs stop comparing there.

    Executable definitions only; the laws are in Store/CatalogLaws.v. *)
From Coq Require Import List ZArith Bool Arith.
Import ListNotations.
Open Scope Z_scope.

(* ------------------------------------------------------------------------------------------ *)
(** * Names *)

Definition name := list Z.

Fixpoint name_eqb (a b : name) : bool :=
  match a, b with
  | [], [] => true
  | x :: a', y :: b' => (x =? y) && name_eqb a' b'
  | _, _ => false
  end.

(** [str::to_uppercase] / [to_lowercase] on ASCII *)
Definition up_c (c : Z) : Z := if (97 <=? c) && (c <=? 122) then c - 32 else c.
Definition lo_c (c : Z) : Z := if (65 <=? c) && (c <=? 90) then c + 32 else c.
Definition upper (n : name) : name := map up_c n.
Definition lower (n : name) : name := map lo_c n.

Definition dot : Z := 46.
(** "public" *)
Definition public : name := [112; 117; 98; 108; 105; 99].
(** [format!("{}.{}", a, b)] *)
Definition qual (a b : name) : name := a ++ dot :: b.

(** [str::split_once('.')] *)
Fixpoint split_dot (n : name) : option (name * name) :=
  match n with
  | [] => None
  | c :: r =>
      if c =? dot then Some ([], r)
      else match split_dot r with
           | Some (a, b) => Some (c :: a, b)
           | None => None
           end
  end.

(** [str::contains('.')] *)
Definition has_dot (n : name) : bool := existsb (fun c => c =? dot) n.

(* ------------------------------------------------------------------------------------------ *)
(** * HashMap<String, A> as an association list with unique keys (iteration order is not modelled:
      every place where the code's result depends on it yields [RNondet]) *)

Fixpoint alookup {A} (k : name) (m : list (name * A)) : option A :=
  match m with
  | [] => None
  | (k', v) :: r => if name_eqb k k' then Some v else alookup k r
  end.

Fixpoint aremove {A} (k : name) (m : list (name * A)) : list (name * A) :=
  match m with
  | [] => []
  | (k', v) :: r => if name_eqb k k' then aremove k r else (k', v) :: aremove k r
  end.

(** [HashMap::insert] (overwrites) *)
Definition ainsert {A} (k : name) (v : A) (m : list (name * A)) : list (name * A) :=
  aremove k m ++ [(k, v)].

Definition amem {A} (k : name) (m : list (name * A)) : bool :=
  match alookup k m with Some _ => true | None => false end.

Definition akeys {A} (m : list (name * A)) : list name := map fst m.

Definition is_some {A} (o : option A) : bool := match o with Some _ => true | None => false end.

(* ------------------------------------------------------------------------------------------ *)
(** * Table schemas (crates/vibesql-catalog/src/table.rs) *)

Definition value := option Z.          (* None = NULL *)
Definition row := list value.

Record column := mkcol { c_name : name; c_nullable : bool; c_default : option Z }.

(** [ts_cache] is [column_index_cache : HashMap<String, usize>]: it is cloned with the schema and is
    NOT refreshed when ALTER TABLE CHANGE COLUMN renames a column through [schema_mut().columns[i].name]. *)
Record tschema := mkts {
  ts_name : name;
  ts_cols : list column;
  ts_cache : list (name * nat);
  ts_pk : option (list name);
  ts_uniques : list (list name);
  ts_checks : list (name * name)        (* (constraint name, the one column its expression mentions) *)
}.

Definition col_names (sc : tschema) : list name := map c_name (ts_cols sc).

(** [columns.iter().enumerate().map(|(i, c)| (c.name, i)).collect::<HashMap>()] (a later duplicate wins) *)
Fixpoint build_cache_from (i : nat) (cols : list column) (acc : list (name * nat)) : list (name * nat) :=
  match cols with
  | [] => acc
  | c :: r => build_cache_from (S i) r (ainsert (c_name c) i acc)
  end.
Definition build_cache (cols : list column) : list (name * nat) := build_cache_from 0 cols [].

(** [TableSchema::new] *)
Definition ts_new (n : name) (cols : list column) : tschema :=
  mkts n cols (build_cache cols) None [] [].

Fixpoint find_col (p : column -> bool) (cols : list column) : option column :=
  match cols with [] => None | c :: r => if p c then Some c else find_col p r end.

Fixpoint find_col_idx (p : column -> bool) (cols : list column) (i : nat) : option nat :=
  match cols with [] => None | c :: r => if p c then Some i else find_col_idx p r (S i) end.

(** [TableSchema::get_column]: exact match first, then case-insensitive *)
Definition get_column (sc : tschema) (n : name) : option column :=
  match find_col (fun c => name_eqb (c_name c) n) (ts_cols sc) with
  | Some c => Some c
  | None => find_col (fun c => name_eqb (lower (c_name c)) (lower n)) (ts_cols sc)
  end.
Definition has_column (sc : tschema) (n : name) : bool := is_some (get_column sc n).

(** [TableSchema::get_column_index]: the cache first, then a case-insensitive scan *)
Definition get_column_index (sc : tschema) (n : name) : option nat :=
  match alookup n (ts_cache sc) with
  | Some i => Some i
  | None => find_col_idx (fun c => name_eqb (lower (c_name c)) (lower n)) (ts_cols sc) 0
  end.

Definition mem_name (n : name) (l : list name) : bool := existsb (name_eqb n) l.
Definition names_eqb (a b : list name) : bool :=
  (Nat.eqb (length a) (length b)) && forallb (fun p => name_eqb (fst p) (snd p)) (combine a b).

Definition set_cols (sc : tschema) (cols : list column) (cache : list (name * nat)) : tschema :=
  mkts (ts_name sc) cols cache (ts_pk sc) (ts_uniques sc) (ts_checks sc).

(** [TableSchema::add_column] *)
Definition ts_add_column (sc : tschema) (c : column) : option tschema :=
  if has_column sc (c_name c) then None
  else Some (set_cols sc (ts_cols sc ++ [c]) (ainsert (c_name c) (length (ts_cols sc)) (ts_cache sc))).

Fixpoint remove_nth {A} (i : nat) (l : list A) : list A :=
  match l, i with
  | [], _ => []
  | _ :: r, O => r
  | x :: r, S j => x :: remove_nth j r
  end.

(** [TableSchema::remove_column(index)]: the cache is rebuilt; the column's name is removed from the
    primary key (dropped when empty), from the unique constraints (dropped when empty) and every
    CHECK constraint mentioning it is dropped *)
Definition ts_remove_column (sc : tschema) (i : nat) : option tschema :=
  match nth_error (ts_cols sc) i with
  | None => None
  | Some rc =>
      let cols := remove_nth i (ts_cols sc) in
      let rn := c_name rc in
      let keep := fun n => negb (name_eqb n rn) in
      let pk := match ts_pk sc with
                | None => None
                | Some l => match filter keep l with [] => None | l' => Some l' end
                end in
      let uq := filter (fun l => match l with [] => false | _ => true end)
                       (map (filter keep) (ts_uniques sc)) in
      let ck := filter (fun p => keep (snd p)) (ts_checks sc) in
      Some (mkts (ts_name sc) cols (build_cache cols) pk uq ck)
  end.

(** [TableSchema::is_column_in_primary_key] (exact) *)
Definition in_pk (sc : tschema) (n : name) : bool :=
  match ts_pk sc with Some l => mem_name n l | None => false end.

(** [TableSchema::get_primary_key_indices]: [filter_map] over the key's column names *)
Fixpoint filter_map_idx (sc : tschema) (l : list name) : list nat :=
  match l with
  | [] => []
  | n :: r => match get_column_index sc n with
              | Some i => i :: filter_map_idx sc r
              | None => filter_map_idx sc r
              end
  end.
Definition pk_indices (sc : tschema) : option (list nat) :=
  match ts_pk sc with Some l => Some (filter_map_idx sc l) | None => None end.

Fixpoint set_nth_col (i : nat) (f : column -> column) (cols : list column) : list column :=
  match cols, i with
  | [], _ => []
  | c :: r, O => f c :: r
  | c :: r, S j => c :: set_nth_col j f r
  end.

(* ------------------------------------------------------------------------------------------ *)
(** * The state *)

Record table := mktab { t_schema : tschema; t_rows : list row }.

(** catalog [IndexMetadata] (index.rs) *)
Record cindex := mkci { ci_name : name; ci_table : name; ci_cols : list name; ci_unique : bool }.

(** storage [IndexMetadata] + [IndexData::InMemory] *)
Definition idata := list (list value * list nat).
Record sindex := mksi { si_name : name; si_table : name; si_unique : bool; si_cols : list name; si_data : idata }.

Record state := mkst {
  s_cs : bool;                          (* Catalog.case_sensitive_identifiers *)
  s_cat : list (name * tschema);        (* catalog tables of schema "public" *)
  s_cidx : list (name * cindex);        (* catalog indexes *)
  s_tabs : list (name * table);         (* Database.tables *)
  s_sidx : list (name * sindex)         (* IndexManager *)
}.

(** [Database::new()]: [Catalog::new()] has case_sensitive_identifiers = true *)
Definition init : state := mkst true [] [] [] [].
(** the same after [catalog.set_case_sensitive_identifiers(false)] *)
Definition init_ci : state := mkst false [] [] [] [].

Definition set_cat (s : state) (c : list (name * tschema)) : state := mkst (s_cs s) c (s_cidx s) (s_tabs s) (s_sidx s).
Definition set_cidx (s : state) (c : list (name * cindex)) : state := mkst (s_cs s) (s_cat s) c (s_tabs s) (s_sidx s).
Definition set_tabs (s : state) (t : list (name * table)) : state := mkst (s_cs s) (s_cat s) (s_cidx s) t (s_sidx s).
Definition set_sidx (s : state) (i : list (name * sindex)) : state := mkst (s_cs s) (s_cat s) (s_cidx s) (s_tabs s) i.

Inductive result :=
| ROk (n : Z)        (* DDL: 0; DML: affected rows *)
| RErr
| RPanic
| RNondet            (* outcome depends on HashMap iteration order (which entry a scan finds first; Err or Panic) *)
| RUnmodelled.

(* ------------------------------------------------------------------------------------------ *)
(** * Catalog (crates/vibesql-catalog/src/store) *)

(** [Catalog::normalize_identifier] *)
Definition cat_norm (s : state) (n : name) : name := if s_cs s then n else upper n.

(** [get_schema_case_insensitive] / the schema-key search of [drop_table]: one schema, "public" *)
Definition schema_found (s : state) (sn : name) : bool :=
  if s_cs s then name_eqb sn public else name_eqb (upper sn) (upper public).

(** [Schema::get_table(name, case_sensitive)] *)
Definition schema_get_table (s : state) (n : name) : option tschema :=
  alookup (if s_cs s then n else upper n) (s_cat s).

(** [Catalog::get_table]: "schema.table" or "table" *)
Definition cat_get_table (s : state) (n : name) : option tschema :=
  match split_dot n with
  | Some (sn, tn) => if schema_found s sn then schema_get_table s (cat_norm s tn) else None
  | None => schema_get_table s (cat_norm s n)
  end.
Definition cat_table_exists (s : state) (n : name) : bool := is_some (cat_get_table s n).

(** [Catalog::create_table] -> [Schema::create_table_with_case_mode] (no foreign keys: the cycle
    check passes).  [None] = TableAlreadyExists. *)
Definition cat_create_table (s : state) (sc : tschema) : option state :=
  let key := if s_cs s then ts_name sc else upper (ts_name sc) in
  let present :=
    if s_cs s then amem key (s_cat s)
    else existsb (fun p => name_eqb (upper (ts_name (snd p))) key) (s_cat s) in
  if present then None else Some (set_cat s (ainsert key sc (s_cat s))).

Fixpoint find_key_upper {A} (u : name) (m : list (name * A)) : option name :=
  match m with
  | [] => None
  | (k, _) :: r => if name_eqb (upper k) u then Some k else find_key_upper u r
  end.

(** [Catalog::drop_table] -> [Schema::drop_table(normalized, case_sensitive)].  [None] = not found.
    (the triggers of the table are dropped too; triggers are outside the model) *)
Definition cat_drop_table (s : state) (n : name) : option state :=
  let '(sn, tn) := match split_dot n with Some p => p | None => (public, n) end in
  let normalized := cat_norm s tn in
  if negb (schema_found s sn) then None
  else if s_cs s then
    (if amem normalized (s_cat s) then Some (set_cat s (aremove normalized (s_cat s))) else None)
  else
    match find_key_upper (upper normalized) (s_cat s) with
    | Some k => Some (set_cat s (aremove k (s_cat s)))
    | None => None
    end.

(** [Catalog::list_tables]: the schemas' [name] fields *)
Definition cat_list_tables (s : state) : list name := map (fun p => ts_name (snd p)) (s_cat s).

(** [IndexMetadata::qualified_name] *)
Definition ci_key (t i : name) : name := qual t i.

(** [Catalog::add_index].  [None] = IndexAlreadyExists / TableNotFound / ColumnNotFound. *)
Definition cat_add_index (s : state) (ci : cindex) : option state :=
  let k := ci_key (ci_table ci) (ci_name ci) in
  if amem k (s_cidx s) then None
  else match schema_get_table s (ci_table ci) with
       | None => None
       | Some sc =>
           if forallb (fun cn => existsb (fun c => name_eqb (c_name c) cn) (ts_cols sc)) (ci_cols ci)
           then Some (set_cidx s (ainsert k ci (s_cidx s)))
           else None
       end.

(** [Catalog::drop_table_indexes(table_name)]: [index.table_name == table_name] *)
Definition cat_table_indexes (s : state) (t : name) : list cindex :=
  map snd (filter (fun p => name_eqb (ci_table (snd p)) t) (s_cidx s)).
Definition cat_drop_table_indexes (s : state) (t : name) : state :=
  set_cidx s (filter (fun p => negb (name_eqb (ci_table (snd p)) t)) (s_cidx s)).

(* ------------------------------------------------------------------------------------------ *)
(** * IndexManager (storage database/indexes) *)

(** [normalize_index_name] *)
Definition idx_norm (n : name) : name := upper n.
Definition sidx_exists (s : state) (n : name) : bool := amem (idx_norm n) (s_sidx s).

(** [IndexManager::drop_index] (the executor ignores or pre-checks the error) *)
Definition sidx_drop (s : state) (n : name) : state := set_sidx s (aremove (idx_norm n) (s_sidx s)).

(** [IndexManager::drop_indexes_for_table(table_name)]: [metadata.table_name == table_name] *)
Definition sidx_drop_for_table (s : state) (t : name) : state :=
  set_sidx s (filter (fun p => negb (name_eqb (si_table (snd p)) t)) (s_sidx s)).

Fixpoint key_eqb (a b : list value) : bool :=
  match a, b with
  | [], [] => true
  | x :: a', y :: b' =>
      (match x, y with
       | None, None => true
       | Some u, Some v => u =? v
       | _, _ => false
       end) && key_eqb a' b'
  | _, _ => false
  end.

Fixpoint dlookup (k : list value) (d : idata) : option (list nat) :=
  match d with
  | [] => None
  | (k', l) :: r => if key_eqb k k' then Some l else dlookup k r
  end.

(** [data.entry(key).or_default().push(row_index)] (a BTreeMap: the position of an entry is not observable) *)
Fixpoint dadd (k : list value) (i : nat) (d : idata) : idata :=
  match d with
  | [] => [(k, [i])]
  | (k', l) :: r => if key_eqb k k' then (k', l ++ [i]) :: r else (k', l) :: dadd k i r
  end.

Definition key_has_null (k : list value) : bool := existsb (fun v => match v with None => true | Some _ => false end) k.

(** key extraction [metadata.columns.iter().map(|col| { let i = schema.get_column_index(col).expect(..);
    row.values[i] })]: a missing column and a short row both panic *)
Inductive kres := KOk (k : list value) | KMissing | KOob.
Fixpoint extract_key (sc : tschema) (cols : list name) (r : row) : kres :=
  match cols with
  | [] => KOk []
  | c :: cs =>
      match get_column_index sc c with
      | None => KMissing
      | Some i =>
          match nth_error r i with
          | None => KOob
          | Some v => match extract_key sc cs r with KOk k => KOk (v :: k) | e => e end
          end
      end
  end.

(** building index data from rows ([create_index] in-memory arm / [rebuild_indexes]); [None] = panic *)
Fixpoint build_data (sc : tschema) (cols : list name) (rows : list row) (i : nat) (acc : idata) : option idata :=
  match rows with
  | [] => Some acc
  | r :: rest =>
      match extract_key sc cols r with
      | KOk k => build_data sc cols rest (S i) (dadd k i acc)
      | _ => None
      end
  end.

Definition si_with_data (x : sindex) (d : idata) : sindex :=
  mksi (si_name x) (si_table x) (si_unique x) (si_cols x) d.

(** [IndexManager::rebuild_indexes(table_name, schema, rows)]: every index with
    [metadata.table_name == table_name] is cleared and refilled; [None] = panic *)
Fixpoint rebuild_list (t : name) (sc : tschema) (rows : list row) (l : list (name * sindex)) : option (list (name * sindex)) :=
  match l with
  | [] => Some []
  | (k, x) :: r =>
      match rebuild_list t sc rows r with
      | None => None
      | Some r' =>
          if name_eqb (si_table x) t then
            match build_data sc (si_cols x) rows 0 [] with
            | Some d => Some ((k, si_with_data x d) :: r')
            | None => None
            end
          else Some ((k, x) :: r')
      end
  end.

(** [IndexManager::add_to_indexes_for_insert(table_name, schema, row, row_index)]; [None] = panic *)
Fixpoint add_row_list (t : name) (sc : tschema) (r : row) (i : nat) (l : list (name * sindex)) : option (list (name * sindex)) :=
  match l with
  | [] => Some []
  | (k, x) :: rest =>
      match add_row_list t sc r i rest with
      | None => None
      | Some rest' =>
          if name_eqb (si_table x) t then
            match extract_key sc (si_cols x) r with
            | KOk key => Some ((k, si_with_data x (dadd key i (si_data x))) :: rest')
            | _ => None
            end
          else Some ((k, x) :: rest')
      end
  end.

Fixpoint add_rows_list (t : name) (sc : tschema) (rows : list row) (i : nat) (l : list (name * sindex)) : option (list (name * sindex)) :=
  match rows with
  | [] => Some l
  | r :: rest =>
      match add_row_list t sc r i l with
      | None => None
      | Some l' => add_rows_list t sc rest (S i) l'
      end
  end.

(** probing the UNIQUE user indexes selected by [sel] with the keys of the statement's rows, over all
    rows: (some index panics, some index reports an error).  A missing index column is a panic
    ([.expect]) or an error ([ok_or_else]) depending on the caller; a short row always panics *)
Definition probe_row (sel : sindex -> bool) (missing_err : bool) (sc : tschema) (r : row) (x : sindex) : bool * bool :=
  if sel x then
    match extract_key sc (si_cols x) r with
    | KOk k => (false, negb (key_has_null k) && is_some (dlookup k (si_data x)))
    | KMissing => if missing_err then (false, true) else (true, false)
    | KOob => (true, false)
    end
  else (false, false).

Definition probe (sel : sindex -> bool) (missing_err : bool) (sc : tschema) (rows : list row) (l : list (name * sindex)) : bool * bool :=
  fold_left (fun acc r =>
      fold_left (fun acc2 p => let '(pn, er) := probe_row sel missing_err sc r (snd p) in (fst acc2 || pn, snd acc2 || er)) l acc)
    rows (false, false).

(** [IndexManager::check_unique_constraints_for_insert(table_name, schema, row)]: the unique indexes
    whose [metadata.table_name == table_name] *)
Definition uniq_probe (t : name) (sc : tschema) (rows : list row) (l : list (name * sindex)) : bool * bool :=
  probe (fun x => name_eqb (si_table x) t && si_unique x) false sc rows l.

(** [IndexManager::create_index] for a UNIQUE index (as of 3e485d50): the existing rows are scanned
    before anything is registered; a NULL-free key seen twice is an error, [row.values[idx]] on a
    short row panics *)
Inductive ures := UOk | UDup | UPanic.
Fixpoint unique_scan (sc : tschema) (cols : list name) (rows : list row) (seen : list (list value)) : ures :=
  match rows with
  | [] => UOk
  | r :: rest =>
      match extract_key sc cols r with
      | KOk k =>
          if key_has_null k then unique_scan sc cols rest seen
          else if existsb (key_eqb k) seen then UDup
          else unique_scan sc cols rest (k :: seen)
      | _ => UPanic
      end
  end.

(* ------------------------------------------------------------------------------------------ *)
(** * Database / Operations (storage database/{core,operations}.rs) *)

(** [Database::get_table] / [get_table_mut]: the key found, in this order: the name as is; its
    upper-case form; "public.<name>"; "public.<UPPER>" *)
Definition tab_find_key (s : state) (n : name) : option name :=
  if amem n (s_tabs s) then Some n
  else
    let un := upper n in
    if negb (name_eqb un n) && amem un (s_tabs s) then Some un
    else if negb (has_dot n) then
      let q1 := qual public n in
      if amem q1 (s_tabs s) then Some q1
      else
        let q2 := qual public un in
        if negb (name_eqb q2 q1) && amem q2 (s_tabs s) then Some q2 else None
    else None.

Definition get_table (s : state) (n : name) : option table :=
  match tab_find_key s n with Some k => alookup k (s_tabs s) | None => None end.

(** the lookup of [Operations::insert_row] / [insert_rows_batch] / [create_index]:
    the normalised name, then (if the name has no dot) "public.<normalised>" *)
Definition ops_find_key (s : state) (n : name) : option name :=
  let nn := cat_norm s n in
  if amem nn (s_tabs s) then Some nn
  else if negb (has_dot n) then
    let q := qual public nn in if amem q (s_tabs s) then Some q else None
  else None.

(** the lookup of [Operations::rebuild_indexes] (as of commit 06b958cd) *)
Definition rebuild_find_key (s : state) (n : name) : option name :=
  if amem n (s_tabs s) then Some n
  else
    let nn := cat_norm s n in
    if amem nn (s_tabs s) then Some nn
    else let q := qual public nn in if amem q (s_tabs s) then Some q else None.

(** [Database::create_table]: catalog first, then [tables.insert("public.<normalised>", Table::new(schema))] *)
Definition db_create_table (s : state) (sc : tschema) : option state :=
  match cat_create_table s sc with
  | None => None
  | Some s1 =>
      let key := qual public (cat_norm s (ts_name sc)) in
      Some (set_tabs s1 (ainsert key (mktab sc []) (s_tabs s1)))
  end.

(** [Operations::drop_table(name)]: (state, ok).  The storage indexes are dropped for the
    QUALIFIED name before the catalog is asked; on a catalog error the function returns early. *)
Definition ops_drop_table (s : state) (n : name) : state * bool :=
  let normalized := cat_norm s n in
  let qualified := if has_dot normalized then normalized else qual public normalized in
  let s1 := sidx_drop_for_table s qualified in
  match cat_drop_table s1 n with
  | None => (s1, false)
  | Some s2 =>
      if amem normalized (s_tabs s2) then (set_tabs s2 (aremove normalized (s_tabs s2)), true)
      else (set_tabs s2 (aremove qualified (s_tabs s2)), true)
  end.

(** [Database::rebuild_indexes(table_name)] -> [Operations::rebuild_indexes]; [None] = panic *)
Definition db_rebuild_indexes (s : state) (n : name) : option state :=
  match rebuild_find_key s n with
  | None => Some s
  | Some k =>
      match alookup k (s_tabs s), cat_get_table s n with
      | Some tb, Some csc =>
          match rebuild_list n csc (t_rows tb) (s_sidx s) with
          | Some l => Some (set_sidx s l)
          | None => None
          end
      | _, _ => Some s
      end
  end.

Definition set_table (s : state) (k : name) (tb : table) : state := set_tabs s (ainsert k tb (s_tabs s)).

(* ------------------------------------------------------------------------------------------ *)
(** * Statements (as the parser hands them to the executors: unquoted identifiers already
      upper-cased by the lexer, delimited identifiers as written, "schema.table" joined by a dot) *)

Inductive constraint_def :=
| KPrimaryKey (cols : list name)
| KUnique (cols : list name)
| KCheck (cname : option name) (col : name).

Inductive stmt :=
| CreateTable (tn : name) (cols : list column) (pk : option name)
| DropTable (tn : name) (if_exists : bool)
| CreateIndex (iname tn : name) (unique : bool) (cols : list name) (if_not_exists : bool)
| DropIndex (iname : name) (if_exists : bool)
| AddColumn (tn : name) (c : column)
| DropColumn (tn cn : name) (if_exists : bool)
| ChangeColumn (tn old : name) (c : column)
| ModifyColumn (tn cn : name) (nullable : bool) (dflt : option Z)
| SetDefault (tn cn : name) (d : Z)
| DropDefault (tn cn : name)
| SetNotNull (tn cn : name)
| DropNotNull (tn cn : name)
| AddConstraint (tn : name) (k : constraint_def)
| DropConstraint (tn cname : name)
| RenameTable (tn new : name)
| Insert (tn : name) (rows : list (list Z))
| Delete (tn : name) (w : option (name * Z))
| Truncate (tn : name).

(* ------------------------------------------------------------------------------------------ *)
(** * Executors (crates/vibesql-executor/src) *)

(** create_table.rs: one column-level PRIMARY KEY at most; the key column becomes NOT NULL
    (ConstraintValidator::apply_to_columns) *)
Definition exec_create_table (s : state) (tn : name) (cols : list column) (pk : option name) : state * result :=
  let '(sn, t) := match split_dot tn with Some p => p | None => (public, tn) end in
  if cat_table_exists s (qual sn t) then (s, RErr)
  else
    let cols' := match pk with
                 | Some p => map (fun c => if name_eqb (c_name c) p then mkcol (c_name c) false (c_default c) else c) cols
                 | None => cols
                 end in
    let sc0 := ts_new t cols' in
    let sc := mkts (ts_name sc0) (ts_cols sc0) (ts_cache sc0)
                   (match pk with Some p => Some [p] | None => None end) [] [] in
    (* a schema other than the current one: set_current_schema fails unless it exists; only "public" exists *)
    if negb (name_eqb sn public) then (s, RErr)
    else match db_create_table s sc with
         | Some s' => (s', ROk 0)
         | None => (s, RErr)
         end.

(** drop_table.rs *)
Definition exec_drop_table (s : state) (tn : name) (if_exists : bool) : state * result :=
  let present := cat_table_exists s tn in
  if if_exists && negb present then (s, ROk 0)
  else if negb present then (s, RErr)
  else
    let dropped := cat_table_indexes s tn in
    let s1 := cat_drop_table_indexes s tn in
    let s2 := fold_left (fun st ci => sidx_drop st (ci_name ci)) dropped s1 in
    let '(s3, ok) := ops_drop_table s2 tn in
    (s3, if ok then ROk 0 else RErr).

Definition all_cols_found (sc : tschema) (cols : list name) : bool := forallb (fun c => is_some (get_column_index sc c)) cols.

(** index_ddl/create_index.rs (B-tree) + Operations::create_index + IndexManager::create_index *)
Definition exec_create_index (s : state) (iname tn : name) (unique : bool) (cols : list name) (if_not_exists : bool) : state * result :=
  let '(sn, t) := match split_dot tn with Some p => p | None => (public, tn) end in
  let q := qual sn t in
  match cat_get_table s q with
  | None => (s, RErr)
  | Some csc =>
      if negb (forallb (has_column csc) cols) then (s, RErr)
      else if sidx_exists s iname then (if if_not_exists then (s, ROk 0) else (s, RErr))
      else
        match cat_add_index s (mkci iname t cols unique) with
        | None => (s, RErr)
        | Some s1 =>
            (* when the storage side fails the catalog entry is taken back (as of 3e485d50):
               [catalog.drop_index(&table_name, index_name)] *)
            let undo := set_cidx s1 (aremove (ci_key t iname) (s_cidx s1)) in
            (* Operations::create_index(index_name, table_name = t, ..) *)
            match ops_find_key s1 t, cat_get_table s1 t with
            | Some k, Some csc2 =>
                match alookup k (s_tabs s1) with
                | None => (undo, RErr)
                | Some tb =>
                    if negb (all_cols_found csc2 cols) then (undo, RErr)
                    else
                      match (if unique then unique_scan csc2 cols (t_rows tb) [] else UOk) with
                      | UPanic => (s, RPanic)
                      | UDup => (undo, RErr)
                      | UOk =>
                          match build_data csc2 cols (t_rows tb) 0 [] with
                          | Some d => (set_sidx s1 (ainsert (idx_norm iname) (mksi iname t unique cols d) (s_sidx s1)), ROk 0)
                          | None => (s, RPanic)
                          end
                      end
                end
            | _, _ => (undo, RErr)
            end
        end
  end.

(** index_ddl/drop_index.rs: the catalog is searched by exact name over ALL tables' indexes; the
    storage index is dropped under the upper-cased name.  Two catalog indexes of the same name make
    the choice depend on HashMap order. *)
Definition exec_drop_index (s : state) (iname : name) (if_exists : bool) : state * result :=
  match filter (fun p => name_eqb (ci_name (snd p)) iname) (s_cidx s) with
  | [(k, _)] =>
      let s1 := set_cidx s (aremove k (s_cidx s)) in
      (if sidx_exists s1 iname then sidx_drop s1 iname else s1, ROk 0)
  | _ :: _ :: _ => (s, RNondet)
  | [] =>
      if sidx_exists s iname then (sidx_drop s iname, ROk 0)
      else if if_exists then (s, ROk 0) else (s, RErr)
  end.

(** alter/columns.rs execute_add_column: the STORED table only *)
Definition exec_add_column (s : state) (tn : name) (c : column) : state * result :=
  match tab_find_key s tn with
  | None => (s, RErr)
  | Some k =>
      match alookup k (s_tabs s) with
      | None => (s, RErr)
      | Some tb =>
          match ts_add_column (t_schema tb) c with
          | None => (s, RErr)
          | Some sc' =>
              let v : value := c_default c in
              (set_table s k (mktab sc' (map (fun r => r ++ [v]) (t_rows tb))), ROk 0)
          end
      end
  end.

(** execute_drop_column: the STORED table only; user indexes are not touched *)
Definition exec_drop_column (s : state) (tn cn : name) (if_exists : bool) : state * result :=
  match tab_find_key s tn with
  | None => (s, RErr)
  | Some k =>
      match alookup k (s_tabs s) with
      | None => (s, RErr)
      | Some tb =>
          let sc := t_schema tb in
          if negb if_exists && negb (has_column sc cn) then (s, RErr)
          else if in_pk sc cn then (s, RErr)
          else if Nat.leb (length (ts_cols sc)) 1 then (s, RErr)
          else match get_column_index sc cn with
               | None => (s, RErr)
               | Some i =>
                   match ts_remove_column sc i with
                   | None => (s, RErr)
                   | Some sc' => (set_table s k (mktab sc' (map (remove_nth i) (t_rows tb))), ROk 0)
                   end
               end
      end
  end.

Definition with_stored_column (s : state) (tn cn : name)
    (f : name -> table -> nat -> state * result) : state * result :=
  match tab_find_key s tn with
  | None => (s, RErr)
  | Some k =>
      match alookup k (s_tabs s) with
      | None => (s, RErr)
      | Some tb =>
          match get_column_index (t_schema tb) cn with
          | None => (s, RErr)
          | Some i => f k tb i
          end
      end
  end.

Definition upd_col (s : state) (k : name) (tb : table) (i : nat) (f : column -> column) : state :=
  let sc := t_schema tb in
  set_table s k (mktab (set_cols sc (set_nth_col i f (ts_cols sc)) (ts_cache sc)) (t_rows tb)).

(** execute_change_column (INTEGER -> INTEGER): renames in place; the cache keeps the old name *)
Definition exec_change_column (s : state) (tn old : name) (c : column) : state * result :=
  with_stored_column s tn old (fun k tb i =>
    (upd_col s k tb i (fun o => mkcol (c_name c) (c_nullable c)
                                  (match c_default c with Some d => Some d | None => c_default o end)), ROk 0)).

(** execute_modify_column (INTEGER -> INTEGER) *)
Definition exec_modify_column (s : state) (tn cn : name) (nullable : bool) (dflt : option Z) : state * result :=
  with_stored_column s tn cn (fun k tb i =>
    (upd_col s k tb i (fun o => mkcol (c_name o) nullable
                                  (match dflt with Some d => Some d | None => c_default o end)), ROk 0)).

Definition exec_set_default (s : state) (tn cn : name) (d : Z) : state * result :=
  with_stored_column s tn cn (fun k tb i => (upd_col s k tb i (fun o => mkcol (c_name o) (c_nullable o) (Some d)), ROk 0)).
Definition exec_drop_default (s : state) (tn cn : name) : state * result :=
  with_stored_column s tn cn (fun k tb i => (upd_col s k tb i (fun o => mkcol (c_name o) (c_nullable o) None), ROk 0)).

(** SET NOT NULL reads [row.values[col_index]] of every row: a short row panics, a NULL is an error *)
Fixpoint scan_not_null (i : nat) (rows : list row) : result :=
  match rows with
  | [] => ROk 0
  | r :: rest =>
      match nth_error r i with
      | None => RPanic
      | Some None => RErr
      | Some (Some _) => scan_not_null i rest
      end
  end.
Definition exec_set_not_null (s : state) (tn cn : name) : state * result :=
  with_stored_column s tn cn (fun k tb i =>
    match scan_not_null i (t_rows tb) with
    | ROk _ => (upd_col s k tb i (fun o => mkcol (c_name o) false (c_default o)), ROk 0)
    | r => (s, r)
    end).
Definition exec_drop_not_null (s : state) (tn cn : name) : state * result :=
  with_stored_column s tn cn (fun k tb i => (upd_col s k tb i (fun o => mkcol (c_name o) true (c_default o)), ROk 0)).

(** the write-back of alter/constraints.rs: [catalog.drop_table(stmt.table_name)?;
    catalog.create_table(table.schema.clone())?] *)
Definition resync (s : state) (tn : name) (sc : tschema) : state * result :=
  match cat_drop_table s tn with
  | None => (s, RErr)
  | Some s1 =>
      match cat_create_table s1 sc with
      | None => (s1, RErr)
      | Some s2 => (s2, ROk 0)
      end
  end.

Definition set_stored_schema (s : state) (k : name) (tb : table) (sc : tschema) : state :=
  set_table s k (mktab sc (t_rows tb)).

(** alter/constraints.rs execute_add_constraint *)
Definition exec_add_constraint (s : state) (tn : name) (kd : constraint_def) : state * result :=
  match tab_find_key s tn with
  | None => (s, RErr)
  | Some k =>
      match alookup k (s_tabs s) with
      | None => (s, RErr)
      | Some tb =>
          let sc := t_schema tb in
          match kd with
          | KPrimaryKey cols =>
              if negb (forallb (has_column sc) cols) then (s, RErr)
              else if is_some (ts_pk sc) then (s, RErr)
              else
                let sc' := mkts (ts_name sc) (ts_cols sc) (ts_cache sc) (Some cols) (ts_uniques sc) (ts_checks sc) in
                resync (set_stored_schema s k tb sc') tn sc'
          | KUnique cols =>
              if negb (forallb (has_column sc) cols) then (s, RErr)
              else
                let sc' := mkts (ts_name sc) (ts_cols sc) (ts_cache sc) (ts_pk sc) (ts_uniques sc ++ [cols]) (ts_checks sc) in
                resync (set_stored_schema s k tb sc') tn sc'
          | KCheck (Some cn) col =>
              if existsb (fun p => name_eqb (fst p) cn) (ts_checks sc) then (s, RErr)
              else
                let sc' := mkts (ts_name sc) (ts_cols sc) (ts_cache sc) (ts_pk sc) (ts_uniques sc) (ts_checks sc ++ [(cn, col)]) in
                (set_stored_schema s k tb sc', ROk 0)
          | KCheck None _ => (s, RUnmodelled)
          end
      end
  end.

(** execute_drop_constraint: a CHECK constraint of that name (stored schema), then write-back;
    there are no foreign keys in the fragment *)
Definition exec_drop_constraint (s : state) (tn cn : name) : state * result :=
  match tab_find_key s tn with
  | None => (s, RErr)
  | Some k =>
      match alookup k (s_tabs s) with
      | None => (s, RErr)
      | Some tb =>
          let sc := t_schema tb in
          if existsb (fun p => name_eqb (fst p) cn) (ts_checks sc) then
            let sc' := mkts (ts_name sc) (ts_cols sc) (ts_cache sc) (ts_pk sc) (ts_uniques sc)
                            (filter (fun p => negb (name_eqb (fst p) cn)) (ts_checks sc)) in
            resync (set_stored_schema s k tb sc') tn sc'
          else (s, RErr)
      end
  end.

(** [Table::insert] as far as the fragment goes: width and NOT NULL (RowNormalizer) *)
Fixpoint not_null_ok (cols : list column) (r : row) : bool :=
  match cols, r with
  | c :: cs, v :: vs => (c_nullable c || is_some v) && not_null_ok cs vs
  | _, _ => true
  end.
Definition table_accepts (sc : tschema) (r : row) : bool :=
  Nat.eqb (length r) (length (ts_cols sc)) && not_null_ok (ts_cols sc) r.

Fixpoint take_while {A} (p : A -> bool) (l : list A) : list A :=
  match l with [] => [] | x :: r => if p x then x :: take_while p r else [] end.

(** alter/table_options.rs execute_rename_table: clone, [Database::drop_table(old)],
    [Database::create_table(schema renamed)], then re-insert the rows one by one through
    [Table::insert]; the first rejected row aborts with an error (the old table is gone) *)
Definition exec_rename_table (s : state) (tn new : name) : state * result :=
  if is_some (tab_find_key s new) then (s, RErr)
  else match get_table s tn with
       | None => (s, RErr)
       | Some tb =>
           let sc := t_schema tb in
           let sc' := mkts new (ts_cols sc) (ts_cache sc) (ts_pk sc) (ts_uniques sc) (ts_checks sc) in
           let '(s1, ok) := ops_drop_table s tn in
           if negb ok then (s1, RErr)
           else match db_create_table s1 sc' with
                | None => (s1, RErr)
                | Some s2 =>
                    match tab_find_key s2 new with
                    | None => (s2, RErr)
                    | Some k =>
                        let good := take_while (table_accepts sc') (t_rows tb) in
                        let s3 := set_table s2 k (mktab sc' good) in
                        (s3, if Nat.eqb (length good) (length (t_rows tb)) then ROk 0 else RErr)
                    end
                end
       end.

(** phase 5 of RowValidator (insert/constraints.rs enforce_unique_indexes): the UNIQUE user indexes
    found by [list_indexes_for_table] (upper-case comparison of the table names!) are probed with the
    key built from the new row through the CATALOG schema: a column the schema cannot resolve is an
    error, and so is a NULL-free key the index already holds ([IndexData::contains_key] normalises
    the probe as of 53cdfad0) *)
Definition phase5_probe (tn : name) (csc : tschema) (rows : list row) (l : list (name * sindex)) : bool * bool :=
  probe (fun x => name_eqb (upper (si_table x)) (upper tn) && si_unique x) true csc rows l.

(** phases 2 and 3 of RowValidator probe the stored table's PRIMARY KEY / UNIQUE hash indexes with the
    key built from the columns the CATALOG schema can resolve.  The model assumes fresh values, so a
    key with at least one component never collides; a key none of whose columns resolves (left by
    CHANGE COLUMN + DROP COLUMN of a key column, then a write-back) is the empty tuple, collides with
    every earlier row and with the second row of the statement, and is outside the model *)
Definition degenerate_keys (csc : tschema) : bool :=
  (match pk_indices csc with Some [] => true | _ => false end)
  || existsb (fun u => match filter_map_idx csc u with [] => true | _ => false end) (ts_uniques csc).

(** phase 4 of RowValidator: every CHECK constraint of the CATALOG schema is evaluated on the new row;
    the harness's constraints are [col >= 0] over non-negative values, so the only way to fail is a
    column the schema cannot resolve (ADD CONSTRAINT .. CHECK does not validate its columns) *)
Definition checks_err (csc : tschema) : bool :=
  existsb (fun p => negb (is_some (get_column_index csc (snd p)))) (ts_checks csc).

(** insert/execution.rs + Database::insert_row / insert_rows_batch *)
Definition exec_insert (s : state) (tn : name) (zrows : list (list Z)) : state * result :=
  let rows : list row := map (map (fun z => Some z)) zrows in
  match zrows with
  | [] => (s, RUnmodelled)
  | _ =>
    match cat_get_table s tn with
    | None => (s, RErr)
    | Some csc =>
        if negb (forallb (fun r => Nat.eqb (length r) (length (ts_cols csc))) rows) then (s, RErr)
        else if degenerate_keys csc then (s, RUnmodelled)
        else if checks_err csc then (s, RErr)
        else match phase5_probe tn csc rows (s_sidx s) with
        | (true, true) => (s, RNondet)
        | (true, false) => (s, RPanic)
        | (false, true) => (s, RErr)
        | (false, false) =>
             match ops_find_key s tn with
             | None => (s, RErr)
             | Some k =>
                 match alookup k (s_tabs s) with
                 | None => (s, RErr)
                 | Some tb =>
                     match uniq_probe tn csc rows (s_sidx s) with
                     | (true, true) => (s, RNondet)
                     | (true, false) => (s, RPanic)
                     | (false, true) => (s, RErr)
                     | (false, false) =>
                         if negb (forallb (table_accepts (t_schema tb)) rows) then (s, RErr)
                         else
                           let s1 := set_table s k (mktab (t_schema tb) (t_rows tb ++ rows)) in
                           match add_rows_list tn csc rows (length (t_rows tb)) (s_sidx s1) with
                           | Some l => (set_sidx s1 l, ROk (Z.of_nat (length rows)))
                           | None => (s, RPanic)
                           end
                     end
                 end
             end
        end
    end
  end.

(** the rows a [WHERE c = v] scan selects (delete/executor.rs collect_rows_with_scan, as of 6c2d8434):
    the column index comes from the CATALOG schema, the value from the stored row; a row whose
    predicate cannot be evaluated (unknown column, short row) is kept *)
Definition row_matches (csc : tschema) (c : name) (v : Z) (r : row) : bool :=
  match get_column_index csc c with
  | None => false
  | Some i => match nth_error r i with
              | Some (Some x) => x =? v
              | _ => false
              end
  end.

Definition proj_idx (idxs : list nat) (r : row) : option (list value) :=
  fold_right (fun i acc => match nth_error r i, acc with Some v, Some l => Some (v :: l) | _, _ => None end) (Some []) idxs.

(** the stored table's PRIMARY KEY hash index (hidden state of [Table]) is described by its content
    after a rebuild: it maps a key to the LAST row carrying it.  Assumption: the real hash index is
    in step with the rows whenever the fast path of DELETE consults it; ADD/DROP/CHANGE COLUMN can
    leave it out of step until the next rebuild (DELETE, TRUNCATE, ADD PRIMARY KEY/UNIQUE, RENAME), and
    the harness issues no primary-key point delete on a table whose real hash index is out of step *)
Fixpoint last_pk_match (idxs : list nat) (k : list value) (rows : list row) (i : nat) (acc : option nat) : option nat :=
  match rows with
  | [] => acc
  | r :: rest =>
      let acc' := match proj_idx idxs r with
                  | Some k' => if key_eqb k k' then Some i else acc
                  | None => acc
                  end in
      last_pk_match idxs k rest (S i) acc'
  end.

Fixpoint filter_idx {A} (p : nat -> A -> bool) (i : nat) (l : list A) : list A :=
  match l with [] => [] | x :: r => if p i x then x :: filter_idx p (S i) r else filter_idx p (S i) r end.

(** delete/integrity.rs check_no_child_references, called for every row about to be deleted (not on
    the truncate fast path): [pk_indices.iter().map(|&idx| parent_row.values[idx])] with the CATALOG
    schema's primary-key positions on the STORED row; there are no foreign keys, so nothing else happens *)
Definition pk_probe_panics (csc : tschema) (gone : list row) : bool :=
  match pk_indices csc with
  | Some idxs => existsb (fun r => existsb (fun i => negb (is_some (nth_error r i))) idxs) gone
  | None => false
  end.

(** delete/executor.rs *)
Definition exec_delete (s : state) (tn : name) (w : option (name * Z)) : state * result :=
  match cat_get_table s tn with
  | None => (s, RErr)
  | Some csc =>
      match tab_find_key s tn with
      | None => (s, RErr)
      | Some k =>
          match alookup k (s_tabs s) with
          | None => (s, RErr)
          | Some tb =>
              let rows := t_rows tb in
              let keep : nat -> row -> bool :=
                match w with
                | None => fun _ _ => false           (* truncate fast path: no triggers, no FK parents *)
                | Some (c, v) =>
                    let fast :=
                      match pk_indices csc, get_column_index csc c with
                      | Some [p], Some ci => Nat.eqb p ci
                      | _, _ => false
                      end in
                    if fast && is_some (ts_pk (t_schema tb)) then
                      match pk_indices (t_schema tb) with
                      | Some idxs =>
                          match last_pk_match idxs [Some v] rows 0 None with
                          | Some hit => fun i _ => negb (Nat.eqb i hit)
                          | None => fun _ _ => true
                          end
                      | None => fun _ _ => true
                      end
                    else fun _ r => negb (row_matches csc c v r)
                end in
              let rows' := filter_idx keep 0 rows in
              let gone := filter_idx (fun i r => negb (keep i r)) 0 rows in
              if is_some w && pk_probe_panics csc gone then (s, RPanic)
              else
              let s1 := set_table s k (mktab (t_schema tb) rows') in
              match db_rebuild_indexes s1 tn with
              | Some s2 => (s2, ROk (Z.of_nat (length rows) - Z.of_nat (length rows')))
              | None => (s, RPanic)
              end
          end
      end
  end.

(** truncate/{mod,core}.rs, one table, no CASCADE *)
Definition exec_truncate (s : state) (tn : name) : state * result :=
  if negb (cat_table_exists s tn) then (s, RErr)
  else match tab_find_key s tn with
       | None => (s, RErr)
       | Some k =>
           match alookup k (s_tabs s) with
           | None => (s, RErr)
           | Some tb =>
               let s1 := set_table s k (mktab (t_schema tb) []) in
               match db_rebuild_indexes s1 tn with
               | Some s2 => (s2, ROk (Z.of_nat (length (t_rows tb))))
               | None => (s, RPanic)
               end
           end
       end.

Definition step (s : state) (st : stmt) : state * result :=
  match st with
  | CreateTable tn cols pk => exec_create_table s tn cols pk
  | DropTable tn ie => exec_drop_table s tn ie
  | CreateIndex i tn u cols ine => exec_create_index s i tn u cols ine
  | DropIndex i ie => exec_drop_index s i ie
  | AddColumn tn c => exec_add_column s tn c
  | DropColumn tn cn ie => exec_drop_column s tn cn ie
  | ChangeColumn tn old c => exec_change_column s tn old c
  | ModifyColumn tn cn nl d => exec_modify_column s tn cn nl d
  | SetDefault tn cn d => exec_set_default s tn cn d
  | DropDefault tn cn => exec_drop_default s tn cn
  | SetNotNull tn cn => exec_set_not_null s tn cn
  | DropNotNull tn cn => exec_drop_not_null s tn cn
  | AddConstraint tn k => exec_add_constraint s tn k
  | DropConstraint tn cn => exec_drop_constraint s tn cn
  | RenameTable tn new => exec_rename_table s tn new
  | Insert tn rows => exec_insert s tn rows
  | Delete tn w => exec_delete s tn w
  | Truncate tn => exec_truncate s tn
  end.

Definition step_state (s : state) (st : stmt) : state := fst (step s st).
Definition run (h : list stmt) (s : state) : state := fold_left step_state h s.

(** the observation [SELECT * FROM t]: the executor resolves the table through [Database::get_table]
    and reads the STORED schema and rows *)
Definition obs_select (s : state) (tn : name) : option (list row) :=
  match get_table s tn with Some tb => Some (t_rows tb) | None => None end.
