(** C10: a rejection by INSERT ... VALUES is justified ([rejecting_is_sound]): when the executor
    answers ConstraintViolation, appending the rows would indeed violate a declared constraint.
    The same statement is false for UPDATE (each new row is validated against the table as it
    was BEFORE the statement): witness. *)
From Coq Require Import List ZArith Bool Arith Lia Permutation.
From VibeSQL Require Import Store.Table Store.UserIndex Store.Constraints Store.Dml
     Store.TableLaws Store.UserIndexLaws Store.Invariant Store.DmlLaws Store.InsertLaws
     Store.UpdateLaws Store.StepLaws.
Import ListNotations.

(* ------------------------------------------------------------------------------------ *)
(** * A boolean checker for [constraints_hold] (sound), used by the positive witnesses *)

Definition constraints_holdb (t : table) : bool :=
  let s := t_sch t in
  forallb (fun r => notnull_ok (s_notnull s) r) (t_rows t)
  && match s_pk s with Some cols => negb (has_dup (somes (pk_kf cols) (t_rows t))) | None => true end
  && forallb (fun cols => negb (has_dup (somes (uq_kf cols) (t_rows t)))) (s_uniqs s)
  && forallb (fun r => checks_ok (s_checks_decl s) r) (t_rows t)
  && forallb (fun u => negb (ui_unique u) || negb (has_dup (somes (uq_kf (ui_cols u)) (t_rows t)))) (t_uidx t).

Lemma constraints_holdb_sound t : constraints_holdb t = true -> constraints_hold t.
Proof.
  unfold constraints_holdb, constraints_hold. intros H.
  apply andb_true_iff in H; destruct H as [H H5].
  apply andb_true_iff in H; destruct H as [H H4].
  apply andb_true_iff in H; destruct H as [H H3].
  apply andb_true_iff in H; destruct H as [H1 H2].
  repeat split.
  - apply Forall_forall. rewrite forallb_forall in H1. exact H1.
  - intros cols E. rewrite E in H2. apply negb_true_iff in H2. apply uniq_on_NoDup. apply has_dup_NoDup. exact H2.
  - apply Forall_forall. rewrite forallb_forall in H3. intros cols Hc. specialize (H3 cols Hc).
    apply negb_true_iff in H3. apply uniq_on_NoDup. apply has_dup_NoDup. exact H3.
  - apply Forall_forall. rewrite forallb_forall in H4. exact H4.
  - apply Forall_forall. rewrite forallb_forall in H5. intros u Hu Hq. specialize (H5 u Hu).
    rewrite Hq in H5. cbn in H5. apply negb_true_iff in H5. apply uniq_on_NoDup. apply has_dup_NoDup. exact H5.
Qed.

(* ------------------------------------------------------------------------------------ *)
(** * rejecting_is_sound *)

Lemma somes_dup_app kf a r b k :
  In k (somes kf a) -> kf r = Some k -> ~ NoDup (somes kf (a ++ r :: b)).
Proof.
  intros Hin Hk Hn. rewrite somes_app in Hn. apply NoDup_app_iff in Hn. destruct Hn as [_ [_ Hd]].
  apply (Hd k Hin). cbn [somes flat_map]. rewrite Hk. left; reflexivity.
Qed.

Lemma rv_unique_ok_false keys : forall batch uq,
  rv_unique_ok keys batch uq = false ->
  exists j k, nth_error keys j = Some (Some k) /\ dup_in k (nth j batch []) (nth_error uq j) = true.
Proof.
  induction keys as [|o keys IH]; intros batch uq H; cbn in H; [discriminate|].
  destruct o as [k|].
  - apply andb_false_iff in H. destruct H as [H|H].
    + apply negb_false_iff in H. exists 0, k. split; [reflexivity|]. destruct batch, uq; exact H.
    + destruct (IH _ _ H) as [j [k' [Hj Hd]]]. exists (S j), k'. split; [exact Hj|].
      rewrite nth_tl, nth_error_tl in Hd. exact Hd.
  - destruct (IH _ _ H) as [j [k' [Hj Hd]]]. exists (S j), k'. split; [exact Hj|].
    rewrite nth_tl, nth_error_tl in Hd. exact Hd.
Qed.

Lemma dup_in_true k b m :
  dup_in k b (Some m) = true -> In k b \/ am_mem k m = true.
Proof.
  unfold dup_in. intros H. apply orb_true_iff in H. destruct H as [H|H]; [left; apply key_mem_In; exact H | right; exact H].
Qed.

Lemma checks_ok_incl enf decl r : incl enf decl -> checks_ok enf r = false -> checks_ok decl r = false.
Proof.
  intros Hi H. unfold checks_ok in *. apply not_true_is_false. intros Hd.
  rewrite forallb_forall in Hd. assert (forallb (fun c => check_ok c r) enf = true); [|congruence].
  apply forallb_forall. intros c Hc. apply Hd. apply Hi. exact Hc.
Qed.

Lemma rv_reject t :
  TInv t ->
  forall rows done bpk buq,
    (forall cols, s_pk (t_sch t) = Some cols -> bpk = somes (pk_kf cols) done) ->
    (forall j cols, nth_error (s_uniqs (t_sch t)) j = Some cols -> nth j buq [] = somes (uq_kf cols) done) ->
    length buq = length (s_uniqs (t_sch t)) ->
    rv_validate_all t bpk buq rows = false ->
    ~ constraints_hold (set_rows t (t_rows t ++ done ++ rows)).
Proof.
  intros HI. pose proof HI as [[Hwf Hincl] [[Hnn [Hpk [Huq [Hck Hui]]]] [[Hhp Hhu] Hu]]].
  induction rows as [|r rows IH]; intros done bpk buq Bpk Buq Blen Hv; [discriminate|].
  cbn [rv_validate_all] in Hv.
  destruct (rv_validate t bpk buq r) as [v|] eqn:Ev.
  - (* this row passed: a later one fails *)
    destruct (rv_validate_facts _ _ _ _ _ Ev) as [_ [Hvp [Hvu _]]].
    replace (t_rows t ++ done ++ r :: rows) with (t_rows t ++ (done ++ [r]) ++ rows)
      by (rewrite <- !app_assoc; reflexivity).
    apply (IH (done ++ [r]) (batch_pk_push bpk v) (batch_uq_push buq (v_uq v))); [| | |exact Hv].
    + intros cols Ec. unfold batch_pk_push. rewrite Hvp, Ec.
      rewrite rv_key_in_order. rewrite somes_app, (Bpk cols Ec). reflexivity.
    + intros j cols Ej. rewrite batch_uq_push_nth by (rewrite Hvu, map_length; exact Blen).
      rewrite Hvu. erewrite map_nth_error by exact Ej.
      rewrite rv_key_in_order.
      rewrite somes_app, (Buq j cols Ej). cbn [somes flat_map]. unfold nonnull_key, uq_kf.
      destruct (has_null (proj cols r)); cbn; [rewrite app_nil_r|]; reflexivity.
    + rewrite batch_uq_push_length. exact Blen.
  - (* this row is rejected: exhibit the violated constraint *)
    clear IH Hv. intros [Cnn [Cpk [Cuq [Cck Cui]]]]. simp_tab.
    unfold rv_validate in Ev.
    destruct (negb (notnull_ok (s_notnull (t_sch t)) r)) eqn:E1.
    { apply negb_true_iff in E1. rewrite Forall_forall in Cnn.
      rewrite (Cnn r) in E1; [discriminate|]. apply in_or_app; right. apply in_or_app; right. left; reflexivity. }
    match type of Ev with (if ?c then _ else _) = _ => destruct c eqn:E2 end.
    { (* PRIMARY KEY *)
      destruct (s_pk (t_sch t)) as [cols|] eqn:Ec; [|discriminate].
      rewrite rv_key_in_order in E2.
      unfold pk_rebuild in Hhp. rewrite Ec in Hhp.
      destruct (t_pkidx t) as [m|] eqn:Em; cbn in Hhp; [|contradiction].
      specialize (Cpk cols eq_refl). apply uniq_on_NoDup in Cpk.
      rewrite app_assoc in Cpk. revert Cpk. apply somes_dup_app with (k := proj cols r); [|reflexivity].
      rewrite somes_app. apply in_or_app. apply dup_in_true in E2. destruct E2 as [E2|E2].
      - right. rewrite <- (Bpk cols eq_refl). exact E2.
      - left. apply In_somes. apply (h_spec_mem (pk_kf cols) (t_rows t) m); [|exact E2].
        apply h_mirror_spec; [apply Hpk; reflexivity | exact Hhp]. }
    match type of Ev with (if ?c then _ else _) = _ => destruct c eqn:E3 end.
    { (* UNIQUE *)
      apply negb_true_iff in E3. apply rv_unique_ok_false in E3. destruct E3 as [j [k [Hj Hd]]].
      destruct (nth_error (s_uniqs (t_sch t)) j) as [cols|] eqn:Ej.
      2:{ rewrite nth_error_map in Hj. rewrite Ej in Hj. discriminate. }
      rewrite (map_nth_error _ _ _ Ej) in Hj.
      rewrite rv_key_in_order in Hj.
      assert (Hk : uq_kf cols r = Some k) by (inversion Hj; reflexivity).
      unfold uq_rebuild in Hhu.
      assert (Hj' : nth_error (map (fun cols => h_rebuild (uq_kf cols) (t_rows t)) (s_uniqs (t_sch t))) j
                    = Some (h_rebuild (uq_kf cols) (t_rows t)))
        by (exact (map_nth_error (fun c => h_rebuild (uq_kf c) (t_rows t)) j _ Ej)).
      destruct (Forall2_nth_error_r _ _ _ _ _ Hhu Hj') as [m [Em He]].
      rewrite Em in Hd. rewrite Forall_forall in Cuq, Huq.
      assert (Hin : In cols (s_uniqs (t_sch t))) by (eapply nth_error_In; eauto).
      specialize (Cuq cols Hin). apply uniq_on_NoDup in Cuq.
      rewrite app_assoc in Cuq. revert Cuq. apply somes_dup_app with (k := k); [|exact Hk].
      rewrite somes_app. apply in_or_app. apply dup_in_true in Hd. destruct Hd as [Hd|Hd].
      - right. rewrite <- (Buq j cols Ej). exact Hd.
      - left. apply In_somes. apply (h_spec_mem (uq_kf cols) (t_rows t) m); [|exact Hd].
        apply h_mirror_spec; [apply Huq; exact Hin | exact He]. }
    match type of Ev with (if ?c then _ else _) = _ => destruct c eqn:E4 end.
    { (* CHECK *)
      apply negb_true_iff in E4. apply (checks_ok_incl _ _ _ Hincl) in E4.
      rewrite Forall_forall in Cck. rewrite (Cck r) in E4; [discriminate|].
      apply in_or_app; right. apply in_or_app; right. left; reflexivity. }
    match type of Ev with (if ?c then _ else _) = _ => destruct c eqn:E5 end; [|discriminate].
    { (* UNIQUE index *)
      unfold exec_unique_index_probe in E5. apply (TInv_unique_check t r HI) in E5.
      destruct E5 as [u [k [Hin [Hq [Hk Hs]]]]].
      rewrite Forall_forall in Cui. specialize (Cui u Hin Hq). apply uniq_on_NoDup in Cui.
      rewrite app_assoc in Cui. revert Cui. apply somes_dup_app with (k := k); [|exact Hk].
      rewrite somes_app. apply in_or_app. left. exact Hs. }
Qed.

Theorem rejecting_is_sound_thm d ti t rows :
  Inv d -> nth_error (d_tabs d) ti = Some t ->
  snd (step d (SInsert ti rows)) = RErrConstraint ->
  ~ constraints_hold (set_rows t (t_rows t ++ rows)).
Proof.
  intros HI Ht Hr. cbn [step] in Hr. rewrite Ht in Hr.
  destruct (do_insert_values t rows) as [[t' r] ins] eqn:Ed. cbn in Hr. subst r.
  unfold do_insert_values in Ed.
  destruct (negb (forallb (fun r => length r =? s_ncols (t_sch t)) rows)); [inversion Ed|].
  destruct (negb (rv_validate_all t [] (map (fun _ => []) (s_uniqs (t_sch t))) rows)) eqn:Ev.
  - apply negb_true_iff in Ev. pose proof (Inv_tab _ _ _ HI Ht) as HT.
    apply (rv_reject t HT rows [] [] (map (fun _ => []) (s_uniqs (t_sch t)))); auto.
    + intros j cols Ej. cbn. clear -Ej. revert j Ej. induction (s_uniqs (t_sch t)); intros [|j] Ej; cbn in *; try discriminate; auto.
    + apply map_length.
  - destruct rows as [|r0 [|r1 rows]].
    + inversion Ed.
    + destruct (db_insert_row t r0) as [t1 ok]; destruct ok; inversion Ed.
    + destruct (db_insert_batch t (r0 :: r1 :: rows)) as [t1 ok]; destruct ok; inversion Ed.
Qed.

(* ------------------------------------------------------------------------------------ *)
(** * ... and where a rejection is NOT justified *)

Local Open Scope Z_scope.

(** the rows an UPDATE without WHERE is meant to produce *)
Definition upd_all_rows (asg : list (nat * sexpr)) (rows : list row) : list row :=
  map (fun r => match apply_asg r asg r with Some n => n | None => r end) rows.

(** UPDATE t SET c0 = c0 + 1 over keys {1,2}: row 1's new key 2 is still in the pre-statement
    map, so the statement is rejected although {2,3} has no duplicate *)
Lemma update_rejection_unsound :
  exists d t asg,
    Inv d /\ nth_error (d_tabs d) 0 = Some t
    /\ snd (step d (SUpdate 0 asg None)) = RErrConstraint
    /\ constraints_hold (set_rows t (upd_all_rows asg (t_rows t))).
Proof.
  set (sch := mk_schema 2 [true; false] (Some [0%nat]) [] []).
  set (ss := [SInsert 0 [[Some 1; Some 10]; [Some 2; Some 20]]]).
  exists (run (db_init [sch]) ss).
  eexists. exists [(0%nat, EAddC 0 1)].
  split; [apply inv_reachable_thm; [repeat constructor | vm_compute; reflexivity]|].
  split; [vm_compute; reflexivity|].
  split; [vm_compute; reflexivity|].
  apply constraints_holdb_sound. vm_compute. reflexivity.
Qed.

(** Repaired (was the class composite-key-validated-in-column-order): with PRIMARY KEY (c1, c0)
    holding (1,2,_), INSERT (2,1,_) -- key (1,2), distinct from (2,1) -- is now accepted, and a
    second (1,2,_) is now rejected; both were the other way round when RowValidator probed the
    map with the key in column order. *)
Lemma column_order_now_sound :
  exists d,
    Inv d
    /\ map t_rows (d_tabs d) = [[[Some 1; Some 2; Some 0]]]
    /\ map (fun t => s_pk (t_sch t)) (d_tabs d) = [Some [1%nat; 0%nat]]
    /\ snd (step d (SInsert 0 [[Some 2; Some 1; Some 0]])) = ROk 1
    /\ snd (step d (SInsert 0 [[Some 1; Some 2; Some 1]])) = RErrConstraint.
Proof.
  set (sch := mk_schema 3 [false; false; false] None [] []).
  set (ss := [SInsert 0 [[Some 1; Some 2; Some 0]]; SAddPk 0 [1%nat; 0%nat]]).
  exists (run (db_init [sch]) ss).
  split; [apply inv_reachable_thm; [repeat constructor | vm_compute; reflexivity]|].
  vm_compute. repeat split.
Qed.

(* ------------------------------------------------------------------------------------ *)
(** * Examples: the hypotheses of the theorems are satisfiable by non-trivial inputs *)

Definition ex_schemas : list schema :=
  [ mk_schema 3 [true; true; false] (Some [0%nat; 1%nat]) [[2%nat]] [PCmpC 2 OLe 50];
    mk_schema 3 [true; true; false] None [] [] ].

Definition ex_hist : list stmt :=
  [ SInsert 0 [[Some 1; Some 1; Some 5]; [Some 1; Some 2; None]; [Some 2; Some 1; Some 7]];
    SCreateIndex 1 0 false [2%nat; 1%nat];
    SCreateIndex 2 0 true [2%nat];
    SInsert 0 [[Some 3; Some 3; Some 9]];
    SUpdate 0 [(0%nat, EAddC 0 10); (2%nat, EAddC 2 1)] (Some (PCmpC 1 OLe 2));   (* multi-row, key-changing *)
    SInsert 1 [[Some 7; Some 7; Some 20]; [Some 8; Some 8; None]];
    SInsertSelect 0 1 [];                                                            (* bulk-transfer path *)
    SDelete 1 (Some (PCmpC 0 OEq 7));
    SBegin; SInsert 1 [[Some 9; Some 9; Some 9]]; SSavepoint 1; SInsert 1 [[Some 9; Some 9; Some 9]];
    SRollbackTo 1; SCommit;
    SAddUnique 1 [0%nat; 1%nat];
    STruncate 1 ].

(** none of the 16 statements is in a known class, 13 of them change the state *)
Example ex_clean : clean (db_init ex_schemas) ex_hist = true.
Proof. vm_compute. reflexivity. Qed.

Example ex_state :
  map t_rows (d_tabs (run (db_init ex_schemas) ex_hist)) =
    [ [[Some 11; Some 1; Some 6]; [Some 11; Some 2; None]; [Some 12; Some 1; Some 8]; [Some 3; Some 3; Some 9];
       [Some 7; Some 7; Some 20]; [Some 8; Some 8; None]]; [] ].
Proof. vm_compute. reflexivity. Qed.

Example ex_inv : Inv (run (db_init ex_schemas) ex_hist).
Proof. apply inv_reachable_thm; [repeat constructor | exact ex_clean]. Qed.

(** hypotheses of [rejecting_is_sound_thm]: a duplicate UNIQUE value, a failing CHECK and a
    duplicate composite PRIMARY KEY are each rejected with ConstraintViolation *)
Example ex_rejects :
  let d := run (db_init ex_schemas) ex_hist in
  snd (step d (SInsert 0 [[Some 4; Some 4; Some 9]])) = RErrConstraint
  /\ snd (step d (SInsert 0 [[Some 4; Some 4; Some 60]])) = RErrConstraint
  /\ snd (step d (SInsert 0 [[Some 5; Some 5; None]; [Some 11; Some 2; Some 1]])) = RErrConstraint
  /\ snd (step d (SInsert 0 [[Some 5; Some 5; None]; [Some 6; Some 6; None]])) = ROk 2.
Proof. vm_compute. repeat split. Qed.
