(** * Store/Trigger.v — values, conditions, DML syntax, trigger definitions and trigger firing (C34, C11)

    Executable model of crates/vibesql-executor/src/trigger_execution.rs (TriggerFirer) and of the catalog side
    crates/vibesql-catalog/src/store/advanced/triggers.rs.  Model file: definitions only.

    Scope.  Cells are INTEGER values, NULL, or "a string value" ([VStr], the only non-integer a statement of the
    modelled fragment can produce; it is never storable in the INTEGER columns of the modelled tables).  Tables and
    columns are numbered (the harness maps names to numbers).  The evaluator fragment: literals, column /
    OLD. / NEW. references, [e + k], CASE WHEN, comparisons, AND/OR/NOT with the executor's short-circuit order,
    IS NULL.  Integer overflow is outside the model (the harness keeps |values| small). *)
From Coq Require Import List ZArith Bool Arith Lia.
Import ListNotations.
Open Scope Z_scope.

(** ** Values *)
Inductive cell := VNull | VInt (z : Z) | VStr.
Definition row := list cell.

(** [SqlValue ==] on the modelled variants (Null == Null is true, as the derived comparison used by
    [old_row.values[i] != new_row.values[i]] and by [Vec<SqlValue> ==]). *)
Definition cell_eqb (a b : cell) : bool :=
  match a, b with
  | VNull, VNull => true
  | VInt x, VInt y => Z.eqb x y
  | VStr, VStr => true
  | _, _ => false
  end.

Fixpoint row_eqb (a b : row) : bool :=
  match a, b with
  | [], [] => true
  | x :: a', y :: b' => cell_eqb x y && row_eqb a' b'
  | _, _ => false
  end.

Definition is_null (c : cell) : bool := match c with VNull => true | _ => false end.

(** ** Expressions and conditions *)
Inductive cmpop := OpEq | OpNe | OpLt | OpLe | OpGt | OpGe.

Inductive expr :=
| ELit (c : cell)
| ECol (i : nat)                 (* bare column of the current row *)
| EOld (i : nat)                 (* OLD.col *)
| ENew (i : nat)                 (* NEW.col *)
| EAdd (a : expr) (k : Z)        (* a + k *)
| ECase (c : cond) (a b : expr)  (* CASE WHEN c THEN a ELSE b END *)
with cond :=
| CCmp (op : cmpop) (a b : expr)
| CAnd (a b : cond)
| COr (a b : cond)
| CNot (a : cond)
| CIsNull (a : expr)
| CConst (v : option bool)       (* TRUE / FALSE / NULL *)
| CVal (a : expr).               (* an expression used as a condition, e.g. WHEN (5) or WHEN (B) *)

(** evaluation environment: the current row (WHERE / SET / CHECK / base row of WHEN) and the trigger context *)
Record env := mkEnv { e_cur : option row; e_ctx : option (option row * option row) }.

(** result of evaluating a condition: error, or a boolean / NULL, or a non-boolean value *)
Inductive cres := RErr | RBool (b : option bool) | RNonBool (v : cell).

Definition col_of (r : option row) (i : nat) : option cell :=
  match r with
  | None => None
  | Some r => nth_error r i       (* index out of range = ColumnNotFound *)
  end.

Definition cmp_int (op : cmpop) (x y : Z) : bool :=
  match op with
  | OpEq => Z.eqb x y | OpNe => negb (Z.eqb x y)
  | OpLt => Z.ltb x y | OpLe => Z.leb x y
  | OpGt => Z.ltb y x | OpGe => Z.leb y x
  end.

Fixpoint eval_expr (en : env) (e : expr) : option cell :=
  match e with
  | ELit c => Some c
  | ECol i => col_of (e_cur en) i
  | EOld i => match e_ctx en with
              | None => None                         (* pseudo-variable outside a trigger body *)
              | Some (o, _) => col_of o i            (* OLD not available / column not found *)
              end
  | ENew i => match e_ctx en with
              | None => None
              | Some (_, n) => col_of n i
              end
  | EAdd a k => match eval_expr en a with
                | Some (VInt x) => Some (VInt (x + k))
                | Some VNull => Some VNull
                | _ => None                          (* string + integer: type error *)
                end
  | ECase c a b => match eval_cond en c with
                   | RBool (Some true) => eval_expr en a
                   | RBool _ => eval_expr en b
                   | _ => None
                   end
  end
with eval_cond (en : env) (c : cond) : cres :=
  match c with
  | CCmp op a b =>
      match eval_expr en a, eval_expr en b with
      | Some (VInt x), Some (VInt y) => RBool (Some (cmp_int op x y))
      | Some VNull, Some (VInt _) | Some (VInt _), Some VNull | Some VNull, Some VNull => RBool None
      | _, _ => RErr                                  (* evaluation error or TypeMismatch with a string *)
      end
  | CAnd a b =>
      match eval_cond en a with
      | RErr => RErr
      | RNonBool _ => RErr
      | RBool (Some false) => RBool (Some false)      (* short circuit: the right operand is not evaluated *)
      | RBool la =>
          match eval_cond en b with
          | RErr | RNonBool _ => RErr
          | RBool (Some false) => RBool (Some false)
          | RBool (Some true) => RBool la
          | RBool None => RBool None
          end
      end
  | COr a b =>
      match eval_cond en a with
      | RErr => RErr
      | RNonBool _ => RErr
      | RBool (Some true) => RBool (Some true)
      | RBool la =>
          match eval_cond en b with
          | RErr | RNonBool _ => RErr
          | RBool (Some true) => RBool (Some true)
          | RBool (Some false) => RBool la
          | RBool None => RBool None
          end
      end
  | CNot a =>
      match eval_cond en a with
      | RBool (Some b) => RBool (Some (negb b))
      | RBool None => RBool None
      | _ => RErr
      end
  | CIsNull a =>
      match eval_expr en a with
      | Some v => RBool (Some (is_null v))
      | None => RErr
      end
  | CConst v => RBool v
  | CVal a =>
      match eval_expr en a with
      | Some VNull => RBool None
      | Some v => RNonBool v
      | None => RErr
      end
  end.

(** the truth value of a WHERE result in UPDATE and DELETE (select/filter.rs where_value_is_true, the rule SELECT uses):
    TRUE selects, FALSE and NULL do not, an integer selects when it is not 0, anything else is an error;
    [None] = the statement fails (evaluation error or a non-boolean, non-numeric value) *)
Definition where_true (en : env) (c : cond) : option bool :=
  match eval_cond en c with
  | RBool (Some b) => Some b
  | RBool None => Some false
  | RNonBool (VInt z) => Some (negb (Z.eqb z 0))
  | RNonBool _ => None
  | RErr => None
  end.

(** ** DML statements (the fragment the executors' model covers) *)
Inductive stmt :=
| SInsert (t : nat) (cols_ok : bool) (rows : list (list expr))
    (* INSERT INTO t [(cols)] VALUES ...; [cols_ok = false]: the column list names a missing column *)
| SInsertSel (t : nat) (src : nat) (star : bool)
    (* INSERT INTO t SELECT * FROM src ([star]) or SELECT c0, .., cn FROM src *)
| SUpdate (t : nat) (asg : list (nat * expr)) (w : option cond)
| SDelete (t : nat) (w : option cond).

(** ** Trigger definitions (vibesql-catalog/src/trigger.rs, vibesql-ast ddl/schema.rs) *)
Inductive timing := Before | After | InsteadOf.
Inductive event := EvInsert | EvUpdate (cols : option (list nat)) | EvDelete.
Inductive gran := GRow | GStmt.

Record trig := mkTrig {
  t_id : Z;
  t_table : nat;
  t_timing : timing;
  t_event : event;
  t_gran : gran;
  t_when : option cond;
  t_enabled : bool;
  t_body : list stmt      (* the parsed statements of TriggerAction::RawSql *)
}.

Definition timing_eqb (a b : timing) : bool :=
  match a, b with Before, Before | After, After | InsteadOf, InsteadOf => true | _, _ => false end.

Fixpoint natlist_eqb (a b : list nat) : bool :=
  match a, b with
  | [], [] => true
  | x :: a', y :: b' => Nat.eqb x y && natlist_eqb a' b'
  | _, _ => false
  end.

(** derived [PartialEq] of [TriggerEvent]: [Update(None) <> Update(Some cols)] *)
Definition event_eqb (a b : event) : bool :=
  match a, b with
  | EvInsert, EvInsert => true
  | EvDelete, EvDelete => true
  | EvUpdate None, EvUpdate None => true
  | EvUpdate (Some x), EvUpdate (Some y) => natlist_eqb x y
  | _, _ => false
  end.

Definition gran_eqb (a b : gran) : bool :=
  match a, b with GRow, GRow | GStmt, GStmt => true | _, _ => false end.

(** the event comparison of Catalog::get_triggers_for_table: UPDATE events match when either side has no column list
    or the two lists share a column (the UPDATE executor looks triggers up with the assigned columns); every other
    pair by equality *)
Definition event_match (have want : event) : bool :=
  match have, want with
  | EvUpdate None, EvUpdate _ => true
  | EvUpdate _, EvUpdate None => true
  | EvUpdate (Some monitored), EvUpdate (Some assigned) =>
      existsb (fun m => existsb (Nat.eqb m) assigned) monitored
  | _, _ => event_eqb have want
  end.

(** Catalog::get_triggers_for_table(table, Some(event)): iteration order of the catalog's trigger map (the model's
    [trigs] list is given in that order), filtered by table name and [event_match]. *)
Definition triggers_for_table (trigs : list trig) (t : nat) (ev : event) : list trig :=
  filter (fun tr => Nat.eqb (t_table tr) t && event_match (t_event tr) ev) trigs.

(** TriggerFirer::find_triggers *)
Definition find_triggers (trigs : list trig) (t : nat) (tm : timing) (ev : event) : list trig :=
  filter (fun tr => timing_eqb (t_timing tr) tm && t_enabled tr) (triggers_for_table trigs t ev).

(** TriggerFirer::should_fire_update_of (a column name that is not in the schema, i.e. an index beyond the row, is skipped) *)
Definition should_fire_update_of (tr : trig) (o n : row) : bool :=
  match t_event tr with
  | EvUpdate (Some cols) =>
      existsb (fun c => match nth_error o c, nth_error n c with
                        | Some x, Some y => negb (cell_eqb x y)
                        | _, _ => false
                        end) cols
  | _ => true
  end.

(** the row-level triggers execute_before_triggers / execute_after_triggers run for one row *)
Definition row_triggers (trigs : list trig) (t : nat) (tm : timing) (ev : event) (o n : option row) : list trig :=
  filter (fun tr => gran_eqb (t_gran tr) GRow &&
                    match o, n with
                    | Some o', Some n' => should_fire_update_of tr o' n'
                    | _, _ => true
                    end)
         (find_triggers trigs t tm ev).

Definition stmt_triggers (trigs : list trig) (t : nat) (tm : timing) (ev : event) : list trig :=
  filter (fun tr => gran_eqb (t_gran tr) GStmt) (find_triggers trigs t tm ev).

(** TriggerFirer::evaluate_when_condition: [None] = error (evaluation error, non-boolean value) *)
Definition eval_when (c : cond) (o n : option row) : option bool :=
  (* base row: NEW, else OLD, else an empty row (statement-level triggers) *)
  let cur := match n with Some r => r | None => match o with Some r => r | None => [] end end in
  match eval_cond (mkEnv (Some cur) (Some (o, n))) c with
  | RBool (Some b) => Some b
  | RBool None => Some false
  | RNonBool _ => None                          (* "WHEN condition must evaluate to boolean" *)
  | RErr => None
  end.

(** one firing: the trigger whose body was started, with the row images it saw, and how the body ended:
    [None] = every statement returned Ok; [Some (j, q)] = statement j returned Err, and [q] says whether the runner
    vouches that this failed body left no observable change behind (see [run_stmts] in Store/Atomic.v) *)
Record firing := mkFiring { f_trig : trig; f_old : option row; f_new : option row; f_res : option (nat * bool) }.

(** why a statement failed inside trigger processing *)
Inductive cause :=
| CzCheck                      (* not a trigger: validation, lookup, evaluation, constraint, storage *)
| CzDepth                      (* RecursionGuard::new refused *)
| CzWhen (tid : Z)             (* the WHEN condition of trigger tid could not be evaluated *)
| CzBody (tid : Z) (j : nat).  (* statement j of trigger tid's body returned Err *)

Section Firing.
  (** the database type and the execution of a trigger body are supplied by Store/Atomic.v *)
  Variable DB : Type.
  Variable run_body : trig -> option row -> option row -> DB -> DB * option (nat * bool).   (* Some (j, q): body statement j failed *)

  (** TriggerFirer::execute_trigger *)
  Definition execute_trigger (tr : trig) (o n : option row) (d : DB) : DB * list firing * option cause :=
    let run :=
      let '(d', r) := run_body tr o n d in
      (d', [mkFiring tr o n r], match r with None => None | Some (j, _) => Some (CzBody (t_id tr) j) end) in
    match t_when tr with
    | None => run
    | Some c =>
        match eval_when c o n with
        | None => (d, [], Some (CzWhen (t_id tr)))
        | Some false => (d, [], None)
        | Some true => run
        end
    end.

  (** the [for trigger in triggers { ... execute_trigger(..)?; }] loops *)
  Fixpoint fire_list (trs : list trig) (o n : option row) (d : DB) : DB * list firing * option cause :=
    match trs with
    | [] => (d, [], None)
    | tr :: rest =>
        let '(d1, l1, r1) := execute_trigger tr o n d in
        match r1 with
        | Some c => (d1, l1, Some c)
        | None => let '(d2, l2, r2) := fire_list rest o n d1 in (d2, l1 ++ l2, r2)
        end
    end.

  (** execute_before_triggers / execute_after_triggers: the guard first, even when no trigger exists *)
  Definition fire_row (depth_ok : bool) (trigs : list trig) (t : nat) (tm : timing) (ev : event)
             (o n : option row) (d : DB) : DB * list firing * option cause :=
    if depth_ok then fire_list (row_triggers trigs t tm ev o n) o n d
    else (d, [], Some CzDepth).

  (** execute_before_statement_triggers / execute_after_statement_triggers *)
  Definition fire_stmt (depth_ok : bool) (trigs : list trig) (t : nat) (tm : timing) (ev : event)
             (d : DB) : DB * list firing * option cause :=
    if depth_ok then fire_list (stmt_triggers trigs t tm ev) None None d
    else (d, [], Some CzDepth).

  (** [for row in rows { execute_x_triggers(row)?; }]: returns the index of the row at which a trigger failed *)
  Fixpoint fire_rows (depth_ok : bool) (trigs : list trig) (t : nat) (tm : timing) (ev : event)
           (imgs : list (option row * option row)) (k : nat) (d : DB) : DB * list firing * option (nat * cause) :=
    match imgs with
    | [] => (d, [], None)
    | (o, n) :: rest =>
        let '(d1, l1, r1) := fire_row depth_ok trigs t tm ev o n d in
        match r1 with
        | Some c => (d1, l1, Some (k, c))
        | None => let '(d2, l2, r2) := fire_rows depth_ok trigs t tm ev rest (S k) d1 in (d2, l1 ++ l2, r2)
        end
    end.
End Firing.
