(** C12 model: FOREIGN KEY enforcement of the statement executors.

    Transcribed from (all paths under /repo/crates):
      vibesql-executor/src/insert/row_validator.rs   RowValidator::{validate_column_constraints,
                                                     validate_primary_key_uniqueness, validate_foreign_keys}
      vibesql-executor/src/insert/execution.rs       execute_insert_internal (validate all rows, then insert all)
      vibesql-executor/src/insert/bulk_transfer.rs   try_bulk_transfer / execute_bulk_transfer (validate all rows, then insert all)
      vibesql-executor/src/update/mod.rs             UpdateExecutor::execute_internal (steps 4-8)
      vibesql-executor/src/update/constraints.rs     validate_not_null / validate_primary_key
      vibesql-executor/src/update/foreign_keys.rs    ForeignKeyValidator::{validate_constraints, check_no_child_references}
      vibesql-executor/src/delete/executor.rs        DeleteExecutor::execute_internal, execute_truncate (fast path)
      vibesql-executor/src/delete/integrity.rs       check_no_child_references, cascade_delete, set_null, set_default
      vibesql-executor/src/truncate_validation.rs    can_use_truncate / is_fk_referenced
      vibesql-executor/src/truncate/{mod,core,constraints}.rs   TRUNCATE [CASCADE], collect_fk_dependencies
      vibesql-executor/src/drop_table.rs             DropTableExecutor::execute (refuses a table referenced by another table's key)
      vibesql-executor/src/alter/constraints.rs      ADD FOREIGN KEY (existing rows are not validated)
      vibesql-storage/src/table/mod.rs               Table::{insert, update_row, update_row_selective, delete_where, clear}
      vibesql-storage/src/table/normalization.rs     RowNormalizer::normalize_and_validate (column count / NOT NULL)
      vibesql-catalog/src/{foreign_key,schema}.rs    ForeignKeyConstraint, Schema::list_tables (HashMap order)

    Executable definitions only (laws are in FkLaws.v / FkDeleteLaws.v / ...).

    Scope of the value domain: INTEGER columns, a value is NULL or an i64 ([val := option Z]).
    Column indices stored in the catalog (fk.column_indices, parent_column_indices, primary key
    indices) are resolved at DDL time against existing columns and every stored row has the
    schema's arity (RowNormalizer rejects any other length), so the `row.values[idx]` indexing
    of the modelled paths cannot go out of bounds; [nth _ _ None] never uses its default under
    the well-formedness invariant [wf_db] of FkLaws.v (the theorems assume it and prove it preserved).

    Ghost state: the executors are instrumented with a log of [event]s.  Events do not influence
    the computation; they mark the precise places where the code does something that the
    known-defect classes of C12 are defined by (see [known_class]). *)
From Coq Require Import List ZArith Bool Arith Lia.
Import ListNotations.

(* ------------------------------------------------------------------------------------ *)
(** * Values, rows, keys *)

Definition val := option Z.          (* None = SqlValue::Null, Some z = SqlValue::Integer z *)
Definition row := list val.          (* Row { values } *)
Definition key := list val.          (* Vec<SqlValue> *)

Definition val_eqb (a b : val) : bool :=
  match a, b with
  | None, None => true               (* SqlValue::Null == SqlValue::Null under PartialEq *)
  | Some x, Some y => Z.eqb x y
  | _, _ => false
  end.

(** Vec<SqlValue> == Vec<SqlValue> (also Row == Row) *)
Fixpoint key_eqb (a b : key) : bool :=
  match a, b with
  | [], [] => true
  | x :: a', y :: b' => val_eqb x y && key_eqb a' b'
  | _, _ => false
  end.

Definition is_null (v : val) : bool := match v with None => true | Some _ => false end.
Definition has_null (k : key) : bool := existsb is_null k.

(** [indices.iter().map(|&idx| row.values[idx].clone()).collect()] *)
Definition proj (cols : list nat) (r : row) : key := map (fun c => nth c r None) cols.

Definition nat_mem (n : nat) (l : list nat) : bool := existsb (Nat.eqb n) l.
Definition key_mem (k : key) (l : list key) : bool := existsb (key_eqb k) l.

(** the same tuple collected while walking the columns in COLUMN order
    (RowValidator::validate_column_constraints: `for (col_idx, col) in columns.enumerate()
    { if indices.contains(&col_idx) { buf.push(value) } }`) *)
Definition proj_colorder (cols : list nat) (r : row) : key :=
  map (fun c => nth c r None) (filter (fun c => nat_mem c cols) (seq 0 (length r))).

Fixpoint set_nth {A} (i : nat) (x : A) (l : list A) : list A :=
  match l, i with
  | [], _ => []
  | _ :: t, O => x :: t
  | h :: t, S i' => h :: set_nth i' x t
  end.

(** write [vs] into columns [cols] (zip: stops at the shorter list) *)
Fixpoint set_cols (cols : list nat) (vs : list val) (r : row) : row :=
  match cols, vs with
  | c :: cols', v :: vs' => set_cols cols' vs' (set_nth c v r)
  | _, _ => r
  end.

Definition null_cols (cols : list nat) (r : row) : row :=
  set_cols cols (map (fun _ => None) cols) r.

(* ------------------------------------------------------------------------------------ *)
(** * Catalog: tables, foreign keys *)

(** vibesql_catalog::ReferentialAction.  [ARestrict] cannot be written in SQL text (the parser
    rejects the keyword) but exists in the enum and is handled like [ANoAction]. *)
Inductive action := ANoAction | ARestrict | ACascade | ASetNull | ASetDefault.

Record fkdecl := mkFk {
  fk_cols : list nat;       (* column_indices (declaration order) *)
  fk_parent : nat;          (* parent_table (tables are named by numbers) *)
  fk_pcols : list nat;      (* parent_column_indices *)
  fk_ondel : action;
  fk_onupd : action;
}.

Record coldef := mkCol {
  c_nullable : bool;
  c_default : val;          (* literal DEFAULT; None = no default (or DEFAULT NULL) *)
}.

Record table := mkTable {
  t_name : nat;
  t_cols : list coldef;
  t_pk : option (list nat);       (* primary key column indices, declaration order *)
  t_fks : list fkdecl;            (* schema.foreign_keys, in declaration order *)
  t_rows : list row;              (* Table::rows, storage order *)
}.

Definition db := list table.

Definition get_table (d : db) (n : nat) : option table :=
  find (fun t => Nat.eqb (t_name t) n) d.

Definition with_rows (t : table) (rs : list row) : table :=
  mkTable (t_name t) (t_cols t) (t_pk t) (t_fks t) rs.

Definition with_fks (t : table) (fks : list fkdecl) : table :=
  mkTable (t_name t) (t_cols t) (t_pk t) fks (t_rows t).

Definition set_rows (d : db) (n : nat) (rs : list row) : db :=
  map (fun t => if Nat.eqb (t_name t) n then with_rows t rs else t) d.

Definition ncols (t : table) : nat := length (t_cols t).

Definition col_nullable (t : table) (c : nat) : bool :=
  match nth_error (t_cols t) c with Some cd => c_nullable cd | None => true end.

Definition col_default (t : table) (c : nat) : val :=
  match nth_error (t_cols t) c with Some cd => c_default cd | None => None end.

(** NOT NULL check of RowValidator phase 1 / validate_not_null / RowNormalizer *)
Definition notnull_okb (t : table) (r : row) : bool :=
  forallb (fun c => col_nullable t c || negb (is_null (nth c r None))) (seq 0 (ncols t)).

(* ------------------------------------------------------------------------------------ *)
(** * Statements *)

Inductive cmpop := OEq | OLt | OGe.

(** WHERE over integer columns, three-valued (None = UNKNOWN) *)
Inductive pred :=
| PCmp (c : nat) (o : cmpop) (k : Z)
| PIsNull (c : nat)
| POr (p q : pred)
| PAnd (p q : pred).

Definition cmp_eval (o : cmpop) (a b : Z) : bool :=
  match o with OEq => Z.eqb a b | OLt => Z.ltb a b | OGe => Z.leb b a end.

Fixpoint pred_eval (p : pred) (r : row) : option bool :=
  match p with
  | PCmp c o k => match nth c r None with Some v => Some (cmp_eval o v k) | None => None end
  | PIsNull c => Some (is_null (nth c r None))
  | POr p q =>
      match pred_eval p r, pred_eval q r with
      | Some true, _ | _, Some true => Some true
      | Some false, Some false => Some false
      | _, _ => None
      end
  | PAnd p q =>
      match pred_eval p r, pred_eval q r with
      | Some false, _ | _, Some false => Some false
      | Some true, Some true => Some true
      | _, _ => None
      end
  end.

(** a row is selected iff the WHERE clause is TRUE (no WHERE = every row) *)
Definition selects (w : option pred) (r : row) : bool :=
  match w with
  | None => true
  | Some p => match pred_eval p r with Some true => true | _ => false end
  end.

(** SET expressions, evaluated against the ORIGINAL row *)
Inductive expr :=
| ELit (v : val)
| ECol (c : nat)
| EAdd (c : nat) (k : Z)      (* col + literal; i64 overflow is an error (checked_add) *)
| EDefault.

Inductive stmt :=
| SInsert (t : nat) (rows : list row)
| SInsertSelect (dst src : nat) (simple : bool) (sel : list row)
    (* INSERT INTO dst SELECT * FROM src [WHERE ..]; [simple] = no WHERE / DISTINCT / LIMIT ...;
       [sel] = the rows the SELECT returns (its row order is the query executor's business; used on
       the non-bulk path only) *)
| SUpdate (t : nat) (asg : list (nat * expr)) (w : option pred)
| SDelete (t : nat) (w : option pred)
| STruncate (t : nat) (cascade : bool)
| SDropTable (t : nat)
| SAddFk (t : nat) (fk : fkdecl).

Inductive errk := EConstraint | ENotFound | EOther.

Inductive result :=
| ROk (n : nat)          (* rows affected / done *)
| RErr (e : errk)
| RPanic                 (* Rust panic (none left on the modelled paths; kept for the result code) *)
| RCrash.                (* unbounded recursion of the cascade: stack overflow, process abort *)

(** ghost events *)
Inductive event :=
| EvStaleCascadeRow   (* cascade_delete: a row scheduled for deletion is no longer in the table
                         (by value) when `delete_where(|row| row == row_to_delete)` runs *)
| EvIndexShift        (* DeleteExecutor step 5: deleting by pre-computed index removes other rows
                         than deleting the selected keys would (a cascade shortened the target table) *)
| EvSetDefault        (* SET DEFAULT wrote a default that is not NULL (never checked against the parent) *)
| EvPartial           (* the statement returned an error after it had already changed the database *)
| EvOverwrite         (* FK update check: two foreign keys of one child table both matched the old key; a row
                         matched by both is written twice, the second write (built from the unmodified
                         clone) overwrites the first *)
| EvSideEffect        (* ON UPDATE CASCADE wrote into a column that also belongs to the child's
                         primary key or to another foreign key of the child (never re-checked, not propagated) *)
| EvSelfRefPkUpdate   (* UPDATE assigns a primary-key column of a table that references itself *)
| EvPkCollision       (* UPDATE gave two rows the same new primary key (C10 class multirow-update-same-new-key) *)
| EvAddFkUnchecked    (* ALTER TABLE ADD FOREIGN KEY over rows that violate it *)
| EvAddFkCycle        (* ALTER TABLE ADD FOREIGN KEY closing a cycle through several tables: refused, but only
                         after the table was removed from the catalog *)
| EvBulkNullKey       (* bulk transfer copied a row with a NULL primary-key value (the path does not re-check
                         NOT NULL; needs a NULL in a NOT NULL source column, never observed) *)
| EvNonStandardFk.    (* the schema holds a FOREIGN KEY that does not reference the parent's PRIMARY KEY
                         column-for-column *)

Definition event_eqb (a b : event) : bool :=
  match a, b with
  | EvStaleCascadeRow, EvStaleCascadeRow | EvIndexShift, EvIndexShift | EvSetDefault, EvSetDefault
  | EvPartial, EvPartial | EvOverwrite, EvOverwrite | EvSideEffect, EvSideEffect
  | EvSelfRefPkUpdate, EvSelfRefPkUpdate | EvPkCollision, EvPkCollision
  | EvAddFkUnchecked, EvAddFkUnchecked
  | EvNonStandardFk, EvNonStandardFk | EvAddFkCycle, EvAddFkCycle
  | EvBulkNullKey, EvBulkNullKey => true
  | _, _ => false
  end.

(** world = database + ghost log *)
Definition world := (db * list event)%type.

Inductive outcome :=
| OOk (w : world)
| OErr (e : errk) (w : world)     (* Err(..) returned; the database keeps what was done so far *)
| OCrash.

Definition bind (o : outcome) (f : world -> outcome) : outcome :=
  match o with OOk w => f w | other => other end.

Definition log (e : event) (w : world) : world := (fst w, e :: snd w).

(* ------------------------------------------------------------------------------------ *)
(** * References *)

(** delete/integrity.rs: `if child_fk_values.iter().any(Null) { skip }; child_fk_values == parent_key_values` *)
Definition refs (fk : fkdecl) (k : key) (r : row) : bool :=
  let t := proj (fk_cols fk) r in negb (has_null t) && key_eqb t k.

(** update/foreign_keys.rs: `child_fk_values == old_parent_key_values` (no NULL skip) *)
Definition refs_u (fk : fkdecl) (k : key) (r : row) : bool :=
  key_eqb (proj (fk_cols fk) r) k.

(** insert/row_validator.rs validate_foreign_keys and update/foreign_keys.rs validate_constraints:
    `parent.scan().iter().any(|prow| pcols.iter().zip(fk_values).all(|(&pi, v)| prow.get(pi) == Some(v)))` *)
Fixpoint zip_match (pcols : list nat) (vs : list val) (prow : row) : bool :=
  match pcols, vs with
  | pc :: pcols', v :: vs' =>
      match nth_error prow pc with
      | Some x => val_eqb x v && zip_match pcols' vs' prow
      | None => false
      end
  | _, _ => true
  end.

Definition key_exists (fk : fkdecl) (vs : list val) (prows : list row) : bool :=
  existsb (zip_match (fk_pcols fk) vs) prows.

(** validate the foreign keys of one new row of table [t]; [tuple] says how the values are
    collected (declaration order on INSERT and UPDATE since the repair of RowValidator phase 1;
    [proj_colorder] is what phase 1 used to hand on) *)
Fixpoint fk_validate (tuple : list nat -> row -> key) (d : db) (fks : list fkdecl) (r : row)
  : option errk :=
  match fks with
  | [] => None
  | fk :: rest =>
      let vs := tuple (fk_cols fk) r in
      if has_null vs then fk_validate tuple d rest r
      else match get_table d (fk_parent fk) with
           | None => Some ENotFound
           | Some pt => if key_exists fk vs (t_rows pt) then fk_validate tuple d rest r
                        else Some EConstraint
           end
  end.

(** `catalog.list_tables().any(|t| !schema(t).foreign_keys.is_empty())` *)
Definition has_any_fks (d : db) : bool :=
  existsb (fun t => match t_fks t with [] => false | _ => true end) d.

(** truncate_validation.rs is_fk_referenced (self references count) *)
Definition is_fk_referenced (d : db) (n : nat) : bool :=
  existsb (fun t => existsb (fun fk => Nat.eqb (fk_parent fk) n) (t_fks t)) d.

(* ------------------------------------------------------------------------------------ *)
(** * DELETE side: delete/integrity.rs *)

(** [ord] is `catalog.list_tables()`: the iteration order of a HashMap, supplied from outside *)
Definition collect_actions (ord : list nat) (d : db) (pname : nat) (k : key)
  : list (nat * fkdecl) :=
  flat_map (fun cn =>
    match get_table d cn with
    | None => []
    | Some ct =>
        map (fun fk => (cn, fk))
          (filter (fun fk => Nat.eqb (fk_parent fk) pname && existsb (refs fk k) (t_rows ct))
                  (t_fks ct))
    end) ord.

(** rows to rewrite, as (index, new row) pairs: `scan().iter().enumerate()` + filter *)
Fixpoint collect_updates_from (i : nat) (hit : row -> bool) (f : row -> row) (rs : list row)
  : list (nat * row) :=
  match rs with
  | [] => []
  | r :: rest =>
      if hit r then (i, f r) :: collect_updates_from (S i) hit f rest
      else collect_updates_from (S i) hit f rest
  end.

(** `for (idx, row) in ups { table.update_row(idx, row)? }`: the NOT NULL check of
    RowNormalizer fails the call on the first offending row, earlier rows stay written *)
Fixpoint apply_updates (t : table) (ups : list (nat * row)) (rs : list row)
  : list row * bool (* ok? *) :=
  match ups with
  | [] => (rs, true)
  | (i, r) :: rest =>
      if notnull_okb t r then apply_updates t rest (set_nth i r rs)
      else (rs, false)
  end.

(** set_null / set_default share their shape; [vs] are the values written into the FK columns *)
Definition rewrite_children (cn : nat) (fk : fkdecl) (k : key) (vs : list val) (w : world) : outcome :=
  match get_table (fst w) cn with
  | None => OErr EOther w                               (* unreachable: `unwrap()` on an existing table *)
  | Some ct =>
      let ups := collect_updates_from 0 (refs fk k) (set_cols (fk_cols fk) vs) (t_rows ct) in
      let '(rs', ok) := apply_updates ct ups (t_rows ct) in
      let w' := (set_rows (fst w) cn rs', snd w) in
      if ok then OOk w' else OErr EOther w'
  end.

Definition set_null (cn : nat) (fk : fkdecl) (k : key) (w : world) : outcome :=
  rewrite_children cn fk k (map (fun _ => None) (fk_cols fk)) w.

Definition fk_defaults (ct : table) (fk : fkdecl) : list val :=
  map (col_default ct) (fk_cols fk).

Definition set_default (cn : nat) (fk : fkdecl) (k : key) (w : world) : outcome :=
  match get_table (fst w) cn with
  | None => OErr EOther w
  | Some ct =>
      let vs := fk_defaults ct fk in
      let w1 := if forallb is_null vs then w else log EvSetDefault w in
      rewrite_children cn fk k vs w1
  end.

(** fold a per-row check over rows, threading the world *)
Fixpoint each_row (f : row -> world -> outcome) (rs : list row) (w : world) : outcome :=
  match rs with
  | [] => OOk w
  | r :: rest => bind (f r w) (each_row f rest)
  end.

(** cascade_delete: collect, recurse on every collected row, then delete BY VALUE *)
Definition cascade_delete (rec : nat -> row -> world -> outcome)
           (cn : nat) (fk : fkdecl) (k : key) (w : world) : outcome :=
  match get_table (fst w) cn with
  | None => OErr EOther w
  | Some ct =>
      let rtd := filter (refs fk k) (t_rows ct) in
      bind (each_row (rec cn) rtd w) (fun w1 =>
        match get_table (fst w1) cn with
        | None => OErr EOther w1
        | Some ct1 =>
            let rs' := filter (fun r => negb (key_mem r rtd)) (t_rows ct1) in
            let w2 := if forallb (fun r => key_mem r (t_rows ct1)) rtd then w1
                      else log EvStaleCascadeRow w1 in
            OOk (set_rows (fst w2) cn rs', snd w2)
        end)
  end.

Fixpoint run_actions (rec : nat -> row -> world -> outcome)
         (acts : list (nat * fkdecl)) (k : key) (w : world) : outcome :=
  match acts with
  | [] => OOk w
  | (cn, fk) :: rest =>
      match fk_ondel fk with
      | ANoAction | ARestrict => OErr EConstraint w
      | ACascade => bind (cascade_delete rec cn fk k w) (run_actions rec rest k)
      | ASetNull => bind (set_null cn fk k w) (run_actions rec rest k)
      | ASetDefault => bind (set_default cn fk k w) (run_actions rec rest k)
      end
  end.

(** check_no_child_references (delete/integrity.rs) with the recursive call abstracted *)
Definition check_body (rec : nat -> row -> world -> outcome) (ord : list nat)
           (pname : nat) (prow : row) (w : world) : outcome :=
  match get_table (fst w) pname with
  | None => OErr ENotFound w
  | Some pt =>
      match t_pk pt with
      | None => OOk w
      | Some pk =>
          let k := proj pk prow in
          if negb (has_any_fks (fst w)) then OOk w
          else run_actions rec (collect_actions ord (fst w) pname k) k w
      end
  end.

(** the recursion of the real code is unbounded; fuel exhaustion = stack overflow *)
Fixpoint check (fuel : nat) (ord : list nat) (pname : nat) (prow : row) (w : world) : outcome :=
  match fuel with
  | O => OCrash
  | S f => check_body (check f ord) ord pname prow w
  end.

(* ------------------------------------------------------------------------------------ *)
(** * DELETE statement: delete/executor.rs *)

(** `scan().iter().enumerate()` filtered by WHERE: (index, row clone) *)
Fixpoint select_from (i : nat) (w : option pred) (rs : list row) : list (nat * row) :=
  match rs with
  | [] => []
  | r :: rest => if selects w r then (i, r) :: select_from (S i) w rest else select_from (S i) w rest
  end.

(** step 5: `delete_where(|_| { let i = counter++; indices.contains(&i) })` *)
Fixpoint delete_by_index_from (i : nat) (idx : list nat) (rs : list row) : list row :=
  match rs with
  | [] => []
  | r :: rest => if nat_mem i idx then delete_by_index_from (S i) idx rest
                 else r :: delete_by_index_from (S i) idx rest
  end.

(** what step 5 is meant to do: remove the rows whose primary key was selected *)
Definition delete_by_key (pk : list nat) (ks : list key) (rs : list row) : list row :=
  filter (fun r => negb (key_mem (proj pk r) ks)) rs.

Definition total_rows (d : db) : nat := fold_right (fun t n => length (t_rows t) + n) 0 d.

(** enough for every database without a cycle of ON DELETE CASCADE references between rows
    (FkTermination.v); with a cycle no fuel is enough *)
Definition default_fuel (d : db) : nat := S (S (total_rows d)).

Fixpoint rows_eqb (a b : list row) : bool :=
  match a, b with
  | [], [] => true
  | x :: a', y :: b' => key_eqb x y && rows_eqb a' b'
  | _, _ => false
  end.

Fixpoint db_rows_eqb (a b : db) : bool :=
  match a, b with
  | [], [] => true
  | x :: a', y :: b' =>
      Nat.eqb (t_name x) (t_name y) && rows_eqb (t_rows x) (t_rows y) && db_rows_eqb a' b'
  | _, _ => false
  end.

Definition partial_mark (d0 : db) (w : world) : world :=
  if db_rows_eqb d0 (fst w) then w else log EvPartial w.

Definition exec_delete (fuel : nat) (ord : list nat) (d : db) (t : nat) (wh : option pred)
  : world * result :=
  match get_table d t with
  | None => ((d, []), RErr ENotFound)
  | Some tb =>
      if (match wh with None => true | Some _ => false end) && negb (is_fk_referenced d t)
      then (* TRUNCATE-style fast path (no triggers in scope) *)
        ((set_rows d t [], []), ROk (length (t_rows tb)))
      else
        let sel := select_from 0 wh (t_rows tb) in
        match each_row (check fuel ord t) (map snd sel) (d, []) with
        | OCrash => ((d, []), RCrash)
        | OErr e w => (partial_mark d w, RErr e)
        | OOk w =>
            match get_table (fst w) t with
            | None => (w, RErr ENotFound)
            | Some tb' =>
                let rs' := delete_by_index_from 0 (map fst sel) (t_rows tb') in
                let w' :=
                  match t_pk tb' with
                  | Some pk =>
                      if rows_eqb rs' (delete_by_key pk (map (fun p => proj pk (snd p)) sel) (t_rows tb'))
                      then w else log EvIndexShift w
                  | None => w
                  end in
                ((set_rows (fst w') t rs', snd w'), ROk (length (t_rows tb') - length rs'))
            end
        end
  end.

(* ------------------------------------------------------------------------------------ *)
(** * INSERT statement *)

Definition i64_ok (z : Z) : bool := (Z.leb (-9223372036854775808) z && Z.leb z 9223372036854775807)%Z.

(** validate the rows one after the other against the database as it is BEFORE the statement;
    [batch] = primary keys of the earlier rows of the same statement *)
Fixpoint insert_validate (d : db) (tb : table) (batch : list key) (rs : list row) : option errk :=
  match rs with
  | [] => None
  | r :: rest =>
      if negb (Nat.eqb (length r) (ncols tb)) then Some EOther
      else if negb (notnull_okb tb r) then Some EConstraint
      else
        (* the primary-key tuple and the foreign-key tuples are rebuilt in DECLARATION order after
           the column walk of RowValidator phase 1 *)
        let pkv := match t_pk tb with Some pk => Some (proj pk r) | None => None end in
        let dup := match pkv, t_pk tb with
                   | Some k, Some pk => key_mem k batch || key_mem k (map (proj pk) (t_rows tb))
                   | _, _ => false
                   end in
        if dup then Some EConstraint
        else match fk_validate proj d (t_fks tb) r with
             | Some e => Some e
             | None => insert_validate d tb (match pkv with Some k => k :: batch | None => batch end) rest
             end
  end.

(** insert/defaults.rs apply_default_values: a NULL (also one written explicitly) in a column
    with a DEFAULT becomes the default *)
Fixpoint apply_defaults_from (tb : table) (c : nat) (r : row) : row :=
  match r with
  | [] => []
  | v :: rest => (if is_null v then col_default tb c else v) :: apply_defaults_from tb (S c) rest
  end.

Definition exec_insert (d : db) (t : nat) (rs0 : list row) : world * result :=
  match get_table d t with
  | None => ((d, []), RErr ENotFound)
  | Some tb =>
      let rs := map (apply_defaults_from tb 0) rs0 in
      match insert_validate d tb [] rs with
      | Some e => ((d, []), RErr e)
      | None => ((set_rows d t (t_rows tb ++ rs), []), ROk (length rs))
      end
  end.

(* ------------------------------------------------------------------------------------ *)
(** * INSERT ... SELECT: insert/execution.rs, insert/bulk_transfer.rs, insert/foreign_keys.rs *)

(** check_schema_compatibility (all columns INTEGER): same column count, and a NOT NULL
    destination column needs a NOT NULL source column *)
Definition bulk_compatible (dst src : table) : bool :=
  Nat.eqb (ncols dst) (ncols src)
  && forallb (fun c => col_nullable dst c || negb (col_nullable src c)) (seq 0 (ncols dst)).

(** execute_bulk_transfer: phase A validates every source row (storage order) against the
    database as it is BEFORE the statement and against the rows in front of it in the batch --
    primary key (enforce_primary_key_constraint: batch, then the table's index), foreign keys in
    declaration order (validate_foreign_key_constraints); no arity / NOT NULL / DEFAULT handling
    (the schema compatibility check stands for them).  Phase B appends all rows. *)
Fixpoint bulk_validate (d : db) (tb : table) (rows : list row) (seen : list key) : option errk :=
  match rows with
  | [] => None
  | r :: rest =>
      let pkv := match t_pk tb with Some pk => Some (proj pk r) | None => None end in
      let dup := match pkv, t_pk tb with
                 | Some k, Some pk => key_mem k seen || key_mem k (map (proj pk) (t_rows tb))
                 | _, _ => false
                 end in
      if dup then Some EConstraint
      else match fk_validate proj d (t_fks tb) r with
           | Some e => Some e
           | None => bulk_validate d tb rest (match pkv with Some k => k :: seen | None => seen end)
           end
  end.

Definition bulk_transfer (d : db) (dst : nat) (tb : table) (rows : list row) : world * result :=
  match bulk_validate d tb rows [] with
  | Some e => ((d, []), RErr e)
  | None =>
      let nullkey := match t_pk tb with
                     | Some pk => existsb (fun r => has_null (proj pk r)) rows
                     | None => false
                     end in
      ((set_rows d dst (t_rows tb ++ rows), if nullkey then [EvBulkNullKey] else []), ROk (length rows))
  end.

(** the non-bulk path: the SELECT is executed (unknown source table = error), its column count
    is compared with the target's (also when it returns no row), then its rows go through the
    INSERT VALUES validation *)
Definition insert_selected (d : db) (dst src : nat) (dt : table) (sel : list row) : world * result :=
  match get_table d src with
  | None => ((d, []), RErr ENotFound)
  | Some st =>
      if Nat.eqb (ncols st) (ncols dt) then exec_insert d dst sel else ((d, []), RErr EOther)
  end.

Definition exec_insert_select (d : db) (dst src : nat) (simple : bool) (sel : list row) : world * result :=
  match get_table d dst with
  | None => ((d, []), RErr ENotFound)
  | Some dt =>
      match (if simple && negb (Nat.eqb src dst) then get_table d src else None) with
      | Some st =>
          if bulk_compatible dt st then bulk_transfer d dst dt (t_rows st)
          else insert_selected d dst src dt sel
      | None => insert_selected d dst src dt sel
      end
  end.

(* ------------------------------------------------------------------------------------ *)
(** * UPDATE statement: update/mod.rs, update/foreign_keys.rs *)

Inductive evalres := VOk (v : val) | VErr.

Definition eval_expr (tb : table) (c : nat) (e : expr) (r : row) : evalres :=
  match e with
  | ELit v => VOk v
  | ECol c' => VOk (nth c' r None)
  | EAdd c' k =>
      match nth c' r None with
      | None => VOk None
      | Some v => if i64_ok (v + k) then VOk (Some (v + k)%Z) else VErr
      end
  | EDefault => VOk (col_default tb c)
  end.

(** apply_assignments: each expression is evaluated against the original row, written in order *)
Fixpoint apply_asg (tb : table) (asg : list (nat * expr)) (orig : row) (acc : row) : option row :=
  match asg with
  | [] => Some acc
  | (c, e) :: rest =>
      match eval_expr tb c e orig with
      | VErr => None
      | VOk v => apply_asg tb rest orig (set_nth c v acc)
      end
  end.

Inductive upd_plan :=
| UPlan (ups : list (nat * row * row))     (* (index, old row, new row) *)
| UErr (e : errk).

(** step 6: build and validate every new row against the pre-statement database *)
Fixpoint plan_updates (d : db) (tb : table) (asg : list (nat * expr)) (sel : list (nat * row))
  : upd_plan :=
  match sel with
  | [] => UPlan []
  | (i, r) :: rest =>
      match apply_asg tb asg r r with
      | None => UErr EOther          (* "BIGINT value is out of range" *)
      | Some nr =>
          if negb (notnull_okb tb nr) then UErr EConstraint
          else
            let pkbad := match t_pk tb with
                         | Some pk => key_mem (proj pk nr) (map (proj pk) (t_rows tb))
                                      && negb (key_eqb (proj pk nr) (proj pk r))
                         | None => false
                         end in
            if pkbad then UErr EConstraint
            else match fk_validate proj d (t_fks tb) nr with
                 | Some e => UErr e
                 | None => match plan_updates d tb asg rest with
                           | UPlan ups => UPlan ((i, r, nr) :: ups)
                           | other => other
                           end
                 end
      end
  end.

(** one collected batch of child updates: (child table, [(index, new row)]) *)
Definition child_batch := (nat * list (nat * row))%type.

Definition fks_overlap (ct : table) (fk : fkdecl) : bool :=
  existsb (fun c =>
     (match t_pk ct with Some pk => nat_mem c pk | None => false end)
     || Nat.ltb 1 (length (filter (fun fk' => nat_mem c (fk_cols fk')) (t_fks ct))))
    (fk_cols fk).

(** the scanning loop of ForeignKeyValidator::check_no_child_references over one child table's
    foreign keys: returns the batches (in order) or the NO ACTION error; ghost events are
    collected alongside *)
Fixpoint scan_child_fks (cn : nat) (ct : table) (pname : nat) (oldk newk : key) (fks : list fkdecl)
  : option (list child_batch * list event) :=
  match fks with
  | [] => Some ([], [])
  | fk :: rest =>
      if negb (Nat.eqb (fk_parent fk) pname) then scan_child_fks cn ct pname oldk newk rest
      else
        let hit := refs_u fk oldk in
        if negb (existsb hit (t_rows ct)) then scan_child_fks cn ct pname oldk newk rest
        else
          let mk (vs : list val) (evs : list event) :=
            match scan_child_fks cn ct pname oldk newk rest with
            | None => None
            | Some (bs, evs') =>
                Some ((cn, collect_updates_from 0 hit (set_cols (fk_cols fk) vs) (t_rows ct)) :: bs,
                      evs ++ evs')
            end in
          match fk_onupd fk with
          | ACascade => mk newk (if fks_overlap ct fk then [EvSideEffect] else [])
          | ASetNull => mk (map (fun _ => None) (fk_cols fk)) []
          | ASetDefault =>
              let vs := fk_defaults ct fk in
              mk vs (if forallb is_null vs then [] else [EvSetDefault])
          | ANoAction | ARestrict => None
          end
  end.

Fixpoint scan_tables (ord : list nat) (d : db) (pname : nat) (oldk newk : key)
  : option (list child_batch * list event) :=
  match ord with
  | [] => Some ([], [])
  | cn :: rest =>
      match get_table d cn with
      | None => scan_tables rest d pname oldk newk
      | Some ct =>
          match scan_child_fks cn ct pname oldk newk (t_fks ct) with
          | None => None
          | Some (bs, evs) =>
              match scan_tables rest d pname oldk newk with
              | None => None
              | Some (bs', evs') => Some (bs ++ bs', evs ++ evs')
              end
          end
      end
  end.

(** two collected batches address the same child table: two foreign keys of one child both
    matched the old key.  A row matched by both is written twice and the second write, built
    from the unmodified clone, undoes the first.  (The class is taken per table, not per row.) *)
Fixpoint batches_overlap (bs : list child_batch) : bool :=
  match bs with
  | [] => false
  | (cn, _) :: rest => existsb (fun b => Nat.eqb (fst b) cn) rest || batches_overlap rest
  end.

(** `for (table, updates) in cascade_updates { for (idx,row) in updates { update_row(idx,row)? } }` *)
Fixpoint apply_batches (bs : list child_batch) (w : world) : outcome :=
  match bs with
  | [] => OOk w
  | (cn, ups) :: rest =>
      match get_table (fst w) cn with
      | None => OErr EOther w
      | Some ct =>
          let '(rs', ok) := apply_updates ct ups (t_rows ct) in
          let w' := (set_rows (fst w) cn rs', snd w) in
          if ok then apply_batches rest w' else OErr EOther w'
      end
  end.

(** ForeignKeyValidator::check_no_child_references(db, parent, old_row, new_row) *)
Definition fk_update_check (ord : list nat) (pname : nat) (old new : row) (w : world) : outcome :=
  match get_table (fst w) pname with
  | None => OErr ENotFound w
  | Some pt =>
      match t_pk pt with
      | None => OOk w
      | Some pk =>
          if negb (has_any_fks (fst w)) then OOk w
          else match scan_tables ord (fst w) pname (proj pk old) (proj pk new) with
               | None => OErr EConstraint w
               | Some (bs, evs) =>
                   let w1 := (fst w, evs ++ snd w) in
                   let w2 := if batches_overlap bs then log EvOverwrite w1 else w1 in
                   apply_batches bs w2
               end
      end
  end.

Fixpoint each_update (ord : list nat) (t : nat) (ups : list (nat * row * row)) (w : world) : outcome :=
  match ups with
  | [] => OOk w
  | (_, old, new) :: rest => bind (fk_update_check ord t old new w) (each_update ord t rest)
  end.

(** step 8: `update_row_selective(index, new_row)` writes the WHOLE new row *)
Fixpoint write_rows (ups : list (nat * row * row)) (rs : list row) : list row :=
  match ups with
  | [] => rs
  | (i, _, nr) :: rest => write_rows rest (set_nth i nr rs)
  end.

Fixpoint keys_nodupb (ks : list key) : bool :=
  match ks with
  | [] => true
  | k :: rest => negb (key_mem k rest) && keys_nodupb rest
  end.

Definition exec_update (ord : list nat) (d : db) (t : nat) (asg : list (nat * expr)) (wh : option pred)
  : world * result :=
  match get_table d t with
  | None => ((d, []), RErr ENotFound)
  | Some tb =>
      let sel := select_from 0 wh (t_rows tb) in
      (* an unknown column is only noticed by apply_assignments, i.e. when a row is selected *)
      if negb (forallb (fun a => Nat.ltb (fst a) (ncols tb)) asg)
      then ((d, []), match sel with [] => ROk 0 | _ => RErr ENotFound end)
      else
      let updates_pk := match t_pk tb with
                        | Some pk => existsb (fun a => nat_mem (fst a) pk) asg
                        | None => false
                        end in
      match plan_updates d tb asg sel with
      | UErr e => ((d, []), RErr e)
      | UPlan ups =>
          let ev0 :=
            (if updates_pk && existsb (fun fk => Nat.eqb (fk_parent fk) t) (t_fks tb)
                && negb (match ups with [] => true | _ => false end)
             then [EvSelfRefPkUpdate] else [])
            ++ (match t_pk tb with
                | Some pk => if keys_nodupb (map (fun u => proj pk (snd u)) ups) then [] else [EvPkCollision]
                | None => []
                end) in
          let step7 := if updates_pk then each_update ord t ups (d, ev0) else OOk (d, ev0) in
          match step7 with
          | OCrash => ((d, []), RCrash)
          | OErr e w => (partial_mark d w, RErr e)
          | OOk w =>
              match get_table (fst w) t with
              | None => (w, RErr ENotFound)
              | Some tb' => ((set_rows (fst w) t (write_rows ups (t_rows tb')), snd w), ROk (length ups))
              end
          end
      end
  end.

(* ------------------------------------------------------------------------------------ *)
(** * TRUNCATE: truncate/{mod,core,constraints}.rs *)

(** get_fk_children: tables (in catalog order) with a foreign key to [p], [p] itself excluded *)
Definition fk_children (ord : list nat) (d : db) (p : nat) : list nat :=
  filter (fun cn => negb (Nat.eqb cn p) &&
                    match get_table d cn with
                    | Some ct => existsb (fun fk => Nat.eqb (fk_parent fk) p) (t_fks ct)
                    | None => false
                    end) ord.

Inductive visitres :=
| VisOk (visited order : list nat)
| VisCycle                      (* "Circular foreign key dependency detected" *)
| VisFuel.

(** the `for child in children { visit(child)? }` loop, with the recursive call abstracted *)
Fixpoint visit_children (rec : nat -> list nat -> list nat -> list nat -> visitres)
         (stack : list nat) (cs : list nat) (visited order : list nat) : visitres :=
  match cs with
  | [] => VisOk visited order
  | c :: rest =>
      match rec c stack visited order with
      | VisOk v o => visit_children rec stack rest v o
      | other => other
      end
  end.

(** collect_fk_dependencies::visit (DFS, post-order, recursion-stack cycle detection) *)
Fixpoint visit (fuel : nat) (ord : list nat) (d : db) (x : nat) (stack visited order : list nat)
  : visitres :=
  match fuel with
  | O => VisFuel
  | S f =>
      if nat_mem x stack then VisCycle
      else if nat_mem x visited then VisOk visited order
      else
        match visit_children (visit f ord d) (x :: stack) (fk_children ord d x) (x :: visited) order with
        | VisOk v o => VisOk v (o ++ [x])
        | other => other
        end
  end.

Fixpoint clear_tables (ns : list nat) (d : db) : db * nat :=
  match ns with
  | [] => (d, 0)
  | n :: rest =>
      let cnt := match get_table d n with Some t => length (t_rows t) | None => 0 end in
      let '(d', c) := clear_tables rest (set_rows d n []) in
      (d', cnt + c)
  end.

Definition exec_truncate (ord : list nat) (d : db) (t : nat) (cascade : bool) : world * result :=
  match get_table d t with
  | None => ((d, []), RErr ENotFound)
  | Some tb =>
      if cascade then
        match visit (S (length d)) ord d t [] [] [] with
        | VisOk _ order => let '(d', c) := clear_tables order d in ((d', []), ROk c)
        | VisCycle => ((d, []), RErr EOther)
        | VisFuel => ((d, []), RCrash)
        end
      else if is_fk_referenced d t then ((d, []), RErr EOther)
      else ((set_rows d t [], []), ROk (length (t_rows tb)))
  end.

(* ------------------------------------------------------------------------------------ *)
(** * DROP TABLE and ALTER TABLE ADD FOREIGN KEY (no validation) *)

Definition referenced_by_other (d : db) (n : nat) : bool :=
  existsb (fun t => negb (Nat.eqb (t_name t) n)
                    && existsb (fun fk => Nat.eqb (fk_parent fk) n) (t_fks t)) d.

(** DropTableExecutor::execute: a table that another table's FOREIGN KEY references is refused
    (a self reference does not count) *)
Definition exec_drop (d : db) (t : nat) : world * result :=
  match get_table d t with
  | None => ((d, []), RErr ENotFound)
  | Some _ =>
      if referenced_by_other d t then ((d, []), RErr EConstraint)
      else ((filter (fun x => negb (Nat.eqb (t_name x) t)) d, []), ROk 0)
  end.

(** the rows of [ct] satisfy [fk] (declaration-order tuple, parent looked up in [d]) *)
Definition fk_rows_ok (d : db) (ct : table) (fk : fkdecl) : bool :=
  forallb (fun r =>
    let vs := proj (fk_cols fk) r in
    has_null vs ||
    match get_table d (fk_parent fk) with
    | Some pt => key_exists fk vs (t_rows pt)
    | None => false
    end) (t_rows ct).

Fixpoint strictly_ascending (l : list nat) : bool :=
  match l with
  | a :: ((b :: _) as rest) => Nat.ltb a b && strictly_ascending rest
  | _ => true
  end.

Fixpoint list_nat_eqb (a b : list nat) : bool :=
  match a, b with
  | [], [] => true
  | x :: a', y :: b' => Nat.eqb x y && list_nat_eqb a' b'
  | _, _ => false
  end.

(** a FOREIGN KEY the three executors agree on: it references the parent's PRIMARY KEY column
    for column (its own columns are distinct, in any order) *)
Fixpoint nat_nodupb (l : list nat) : bool :=
  match l with [] => true | a :: r => negb (nat_mem a r) && nat_nodupb r end.

Definition fk_standard (d : db) (ct : table) (fk : fkdecl) : bool :=
  nat_nodupb (fk_cols fk)
  && forallb (fun c => Nat.ltb c (ncols ct)) (fk_cols fk)
  && match get_table d (fk_parent fk) with
     | Some pt => match t_pk pt with
                  | Some pk => list_nat_eqb (fk_pcols fk) pk
                               && Nat.eqb (length (fk_cols fk)) (length pk)
                  | None => false
                  end
     | None => false
     end.

(** Catalog::check_circular_foreign_keys (run by the `catalog.create_table` that ends ADD FOREIGN KEY):
    a dependency cycle through SEVERAL tables is refused, a self reference is allowed.  Tables
    depend on the parents of their foreign keys; [reaches n d x target] follows at most [n] edges. *)
Fixpoint reaches (n : nat) (d : db) (x target : nat) : bool :=
  Nat.eqb x target ||
  match n with
  | O => false
  | S n' =>
      match get_table d x with
      | None => false
      | Some tx => existsb (fun fk => negb (Nat.eqb (fk_parent fk) x) && reaches n' d (fk_parent fk) target)
                           (t_fks tx)
      end
  end.

Definition exec_add_fk (d : db) (t : nat) (fk : fkdecl) : world * result :=
  match get_table d t with
  | None => ((d, []), RErr ENotFound)
  | Some ct =>
      if negb (forallb (fun c => Nat.ltb c (ncols ct)) (fk_cols fk)) then ((d, []), RErr ENotFound)
      else match get_table d (fk_parent fk) with
           | None => ((d, []), RErr ENotFound)
           | Some pt =>
               if negb (forallb (fun c => Nat.ltb c (ncols pt)) (fk_pcols fk)) then ((d, []), RErr ENotFound)
               else if negb (Nat.eqb (fk_parent fk) t) && reaches (length d) d (fk_parent fk) t
               then (* refused AFTER `catalog.drop_table`: the statement fails and the table is gone
                       from the catalog (its rows stay in storage).  The model keeps the database and
                       marks the class; what the engine does with the table afterwards is not modelled. *)
                 ((d, [EvAddFkCycle]), RErr EConstraint)
               else
                 let d' := map (fun x => if Nat.eqb (t_name x) t then with_fks x (t_fks x ++ [fk]) else x) d in
                 let ev := (if fk_rows_ok d ct fk then [] else [EvAddFkUnchecked])
                           ++ (if fk_standard d' (with_fks ct (t_fks ct ++ [fk])) fk then [] else [EvNonStandardFk]) in
                 ((d', ev), ROk 0)
           end
  end.

(* ------------------------------------------------------------------------------------ *)
(** * One statement *)

Definition schema_standard (d : db) : bool :=
  forallb (fun t => forallb (fk_standard d t) (t_fks t)
                    && match t_pk t with
                       | Some pk => strictly_ascending pk && forallb (fun c => Nat.ltb c (ncols t)) pk
                       | None => true
                       end) d.

Definition step_fuel (fuel : nat) (ord : list nat) (d : db) (s : stmt) : world * result :=
  match s with
  | SInsert t rs => exec_insert d t rs
  | SInsertSelect dst src simple sel => exec_insert_select d dst src simple sel
  | SUpdate t asg wh => exec_update ord d t asg wh
  | SDelete t wh => exec_delete fuel ord d t wh
  | STruncate t c => exec_truncate ord d t c
  | SDropTable t => exec_drop d t
  | SAddFk t fk => exec_add_fk d t fk
  end.

Definition step (ord : list nat) (d : db) (s : stmt) : world * result :=
  step_fuel (default_fuel d) ord d s.

Definition step_db (ord : list nat) (d : db) (s : stmt) : db := fst (fst (step ord d s)).
Definition step_res (ord : list nat) (d : db) (s : stmt) : result := snd (step ord d s).
Definition step_events (ord : list nat) (d : db) (s : stmt) : list event := snd (fst (step ord d s)).

(** the known-defect classes: the statement, run on this database, passes one of the marked places,
    or the schema already holds a non-standard FOREIGN KEY *)
Definition known_class (ord : list nat) (s : stmt) (d : db) : bool :=
  negb (schema_standard d)
  || negb (match step_events ord d s with [] => true | _ => false end)
  || match step_res ord d s with RCrash => true | _ => false end.

(** a history: statements with the catalog order observed before each of them *)
Definition run (d : db) (h : list (list nat * stmt)) : db :=
  fold_left (fun d os => step_db (fst os) d (snd os)) h d.

(* ------------------------------------------------------------------------------------ *)
(** * The property's predicate, executable *)

(** every child row with a NULL-free foreign-key tuple has a parent row with that key
    (the referenced columns are the declared [fk_pcols]; a missing parent table violates it) *)
Definition fk_holds (d : db) (ct : table) (fk : fkdecl) : bool := fk_rows_ok d ct fk.

Definition ri_b (d : db) : bool :=
  forallb (fun ct => forallb (fk_holds d ct) (t_fks ct)) d.
