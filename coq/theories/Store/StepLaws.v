(** C10/C15: the invariant over [step] and over every history ([inv_step], [inv_reachable]),
    transactions and savepoints. *)
From Coq Require Import List ZArith Bool Arith Lia Permutation.
From VibeSQL Require Import Store.Table Store.UserIndex Store.Constraints Store.Dml
     Store.TableLaws Store.UserIndexLaws Store.Invariant Store.DmlLaws Store.InsertLaws Store.UpdateLaws.
Import ListNotations.

(* ------------------------------------------------------------------------------------ *)
(** * Lists of tables *)

Lemma nth_error_upd_nth {A} i j f (l : list A) :
  nth_error (upd_nth i f l) j = if i =? j then option_map f (nth_error l j) else nth_error l j.
Proof.
  revert i j; induction l as [|y l IH]; intros i j.
  - destruct i, j; cbn; try reflexivity. destruct (i =? j); reflexivity.
  - destruct i as [|i], j as [|j]; cbn; try reflexivity. apply IH.
Qed.

Lemma Forall_upd_nth_const {A} (P : A -> Prop) i x (l : list A) :
  Forall P l -> P x -> Forall P (upd_nth i (fun _ => x) l).
Proof. intros Hf Hx. apply Forall_upd_nth; [exact Hf | intros; exact Hx]. Qed.

Definition snap_same (a b : option txn) : Prop :=
  match a, b with
  | Some x, Some y => x_snap x = x_snap y
  | None, None => True
  | _, _ => False
  end.

Lemma snap_same_refl a : snap_same a a.
Proof. destruct a; cbn; auto. Qed.

Lemma snap_same_record a ti rows : snap_same a (record_inserts a ti rows).
Proof. destruct a; cbn; auto. Qed.

Lemma Inv_tabs d tabs' txn' :
  Inv d -> Forall TInv tabs' -> length tabs' = length (d_tabs d) -> snap_same (d_txn d) txn' ->
  Inv {| d_tabs := tabs'; d_txn := txn' |}.
Proof.
  intros [Ht Hx] Ht' Hl Hs. split; cbn; [exact Ht'|].
  destruct (d_txn d) as [x|], txn' as [y|]; cbn in Hs; try contradiction; [|exact I].
  rewrite <- Hs. destruct Hx as [H1 H2]. split; [exact H1 | congruence].
Qed.

Lemma Inv_upd_tab d ti t' txn' :
  Inv d -> TInv t' -> snap_same (d_txn d) txn' ->
  Inv {| d_tabs := upd_nth ti (fun _ => t') (d_tabs d); d_txn := txn' |}.
Proof.
  intros HI Ht Hs. apply (Inv_tabs d); auto.
  - apply Forall_upd_nth_const; [apply HI | exact Ht].
  - apply upd_nth_length.
Qed.

Lemma Inv_tab d ti t : Inv d -> nth_error (d_tabs d) ti = Some t -> TInv t.
Proof. intros [Ht _] Hn. eapply Forall_nth_error; eauto. Qed.

(* ------------------------------------------------------------------------------------ *)
(** * DELETE / TRUNCATE on a table *)

Lemma uidx_nil_eq t : uidx_nil t = true -> t_uidx t = [].
Proof. unfold uidx_nil. destruct (t_uidx t); [reflexivity | discriminate]. Qed.

Lemma do_delete_TInv t w t' res : TInv t -> do_delete t w = (t', res) -> TInv t'.
Proof.
  intros HI Hd. unfold do_delete in Hd. destruct w as [p|].
  - destruct (select_rows t (Some p)) as [sel|] eqn:Es; [|inversion Hd; subst; exact HI].
    destruct (tbl_delete_at t (map fst sel)) as [t1 n] eqn:Ed. inversion Hd; subst t' res; clear Hd.
    replace t1 with (fst (tbl_delete_at t (map fst sel))) by (rewrite Ed; reflexivity).
    apply TInv_delete_rebuild. exact HI.
  - inversion Hd; subst t' res; clear Hd. apply TInv_clear_rebuild. exact HI.
Qed.

Lemma do_truncate_TInv t : TInv t -> TInv (fst (do_truncate t)).
Proof. intros HI. unfold do_truncate; cbn [fst]. apply TInv_clear_rebuild. exact HI. Qed.

(* ------------------------------------------------------------------------------------ *)
(** * ROLLBACK *)

Lemma recreate_uidx_props rows : forall defs us ok,
  recreate_uidx defs rows = (us, ok) ->
  Forall (fun u => ui_unique u = true -> uniq_on (uq_kf (ui_cols u)) rows) us
  /\ Forall (fun u => ui_mirror (ui_cols u) rows (ui_data u)) us.
Proof.
  induction defs as [|u defs IH]; intros us ok H; cbn in H.
  - inversion H; subst. split; constructor.
  - destruct (ui_unique u && has_dup (somes (uq_kf (ui_cols u)) rows)) eqn:Ed.
    + inversion H; subst. split; constructor.
    + destruct (recreate_uidx defs rows) as [l ok'] eqn:Er. inversion H; subst.
      destruct (IH _ _ eq_refl) as [I1 I2]. split; constructor; auto.
      * cbn. intros Hq. rewrite Hq in Ed. cbn in Ed. apply uniq_on_NoDup. apply has_dup_NoDup. exact Ed.
      * cbn. apply ui_equiv_refl.
Qed.

Lemma restore_tabs_TInv snap : forall ts ok,
  Forall TInv snap -> restore_tabs snap = (ts, ok) -> Forall TInv ts /\ length ts = length snap.
Proof.
  induction snap as [|s snap IH]; intros ts ok Hs H; cbn in H.
  - inversion H; subst. auto.
  - inversion Hs; subst. destruct (recreate_uidx (t_uidx s) (t_rows s)) as [us oku] eqn:Er.
    destruct (recreate_uidx_props _ _ _ _ Er) as [P1 P2].
    assert (HT : TInv (set_uidx s us)) by (apply TInv_set_uidx; assumption).
    destruct oku.
    + destruct (restore_tabs snap) as [ts' ok2] eqn:Et. inversion H; subst.
      destruct (IH _ _ H3 eq_refl) as [I1 I2]. split; [constructor; assumption | cbn; congruence].
    + inversion H; subst. split.
      * constructor; [exact HT|]. apply Forall_forall. intros t' Hin. apply in_map_iff in Hin.
        destruct Hin as [t0 [<- Hin]]. apply TInv_forget_uidx. rewrite Forall_forall in H3. apply H3; exact Hin.
      * cbn. rewrite map_length. reflexivity.
Qed.

(* ------------------------------------------------------------------------------------ *)
(** * ROLLBACK TO SAVEPOINT *)

Lemma tbl_remove_row_TInv t r t' : TInv t -> t_uidx t = [] -> tbl_remove_row t r = inr t' -> TInv t' /\ t_uidx t' = [].
Proof.
  intros HI Hu H. unfold tbl_remove_row in H. destruct (row_eqb_pos r (t_rows t) 0) as [pos|]; [|discriminate].
  inversion H; subst t'. split; [apply TInv_delete_at; auto | cbn; exact Hu].
Qed.

Lemma undo_all_TInv chs : forall ts,
  Forall TInv ts ->
  (forall ch, In ch chs -> forall t, nth_error ts (fst ch) = Some t -> t_uidx t = []) ->
  Forall TInv (fst (undo_all ts chs)) /\ length (fst (undo_all ts chs)) = length ts.
Proof.
  induction chs as [|[ti r] chs IH]; intros ts Hf Hn; cbn; [auto|].
  destruct (nth_error ts ti) as [t|] eqn:Et; cbn; [|auto].
  destruct (tbl_remove_row t r) as [e|t'] eqn:Er; cbn; [auto|].
  destruct (tbl_remove_row_TInv t r t') as [HT Hu]; auto.
  { eapply Forall_nth_error; eauto. }
  { apply (Hn (ti, r) (or_introl eq_refl)). exact Et. }
  destruct (IH (upd_nth ti (fun _ => t') ts)) as [I1 I2].
  - apply Forall_upd_nth_const; assumption.
  - intros ch Hin t2 Ht2. rewrite nth_error_upd_nth in Ht2.
    destruct (Nat.eqb_spec ti (fst ch)) as [E|E].
    + rewrite <- E, Et in Ht2. cbn in Ht2. inversion Ht2; subst. exact Hu.
    + apply (Hn ch (or_intror Hin)). exact Ht2.
  - split; [exact I1 | rewrite I2; apply upd_nth_length].
Qed.

(* ------------------------------------------------------------------------------------ *)
(** * inv_step *)

Lemma on_table_Inv d ti f (kc : table -> bool) :
  Inv d ->
  (forall t t' r, TInv t -> kc t = false -> f t = (t', r) -> TInv t') ->
  with_tab d ti kc = false ->
  Inv (fst (on_table d ti f)).
Proof.
  intros HI Hf Hk. unfold on_table, with_tab in *. destruct (nth_error (d_tabs d) ti) as [t|] eqn:Et; [|exact HI].
  destruct (f t) as [t' r] eqn:Ef. cbn. apply Inv_upd_tab; [exact HI | | apply snap_same_refl].
  eapply Hf; eauto. eapply Inv_tab; eauto.
Qed.

Theorem inv_step_thm d s : Inv d -> known_class s d = false -> Inv (fst (step d s)).
Proof.
  intros HI Hk. destruct s; cbn [step known_class] in *.
  - (* INSERT VALUES *)
    unfold with_tab in Hk. destruct (nth_error (d_tabs d) t) as [tb|] eqn:Et; [|exact HI].
    destruct (do_insert_values tb rows) as [[t' r] ins] eqn:Ed. cbn.
    apply Inv_upd_tab; [exact HI | | apply snap_same_record].
    eapply do_insert_values_TInv; eauto. eapply Inv_tab; eauto.
  - (* INSERT SELECT *)
    destruct (nth_error (d_tabs d) dst) as [td|] eqn:Ed; [|exact HI].
    destruct (nth_error (d_tabs d) src) as [ts|] eqn:Es; [|exact HI].
    destruct (do_insert_select td (dst =? src) (t_sch ts) (t_rows ts) sel) as [[t' r] ins] eqn:Ei. cbn.
    apply Inv_upd_tab; [exact HI | | apply snap_same_record].
    eapply do_insert_select_TInv; eauto. eapply Inv_tab; eauto.
  - (* UPDATE *)
    apply on_table_Inv with (kc := fun t => kc_update t asg w); auto.
    intros tb t' r HT Hkc Hd. eapply do_update_TInv; eauto.
  - (* DELETE *)
    apply on_table_Inv with (kc := fun _ => false); auto.
    + intros tb t' r HT Hkc Hd. eapply do_delete_TInv; eauto.
    + unfold with_tab. destruct (nth_error (d_tabs d) t); reflexivity.
  - (* TRUNCATE *)
    apply on_table_Inv with (kc := fun _ => false); auto.
    + intros tb t' r HT Hkc Hd. replace t' with (fst (do_truncate tb)) by (rewrite Hd; reflexivity).
      apply do_truncate_TInv; assumption.
    + unfold with_tab. destruct (nth_error (d_tabs d) t); reflexivity.
  - (* CREATE INDEX *)
    unfold with_tab in Hk. destruct (nth_error (d_tabs d) t) as [tb|] eqn:Et; [|exact HI].
    destruct (negb (cols_valid (t_sch tb) cols)); [exact HI|].
    destruct (index_exists name (d_tabs d)); [exact HI|].
    destruct (uniq && has_dup (somes (uq_kf cols) (t_rows tb))) eqn:Edup; [exact HI|]. cbn.
    apply (Inv_tabs d); [exact HI | | apply upd_nth_length | apply snap_same_refl].
    apply Forall_upd_nth; [apply HI|]. intros x Hx HT. rewrite Et in Hx; inversion Hx; subst x.
    apply TInv_create_index; [exact HT|]. intros ->. cbn in Edup. exact Edup.
  - (* DROP INDEX *)
    destruct (index_exists name (d_tabs d)); [|exact HI]. cbn.
    apply (Inv_tabs d); [exact HI | | apply map_length | apply snap_same_refl].
    destruct HI as [Ht _]. rewrite Forall_forall in *. intros t' Hin. apply in_map_iff in Hin.
    destruct Hin as [t0 [<- Hin]]. apply TInv_drop_index. apply Ht; exact Hin.
  - (* ADD PRIMARY KEY *)
    apply on_table_Inv with (kc := fun t => match s_pk (t_sch t) with Some _ => false
                                          | None => has_dup (somes (pk_kf cols) (t_rows t)) end); auto.
    intros tb t' r HT Hkc Hd. unfold do_add_pk in Hd.
    destruct (negb (cols_valid (t_sch tb) cols)); [inversion Hd; subst; exact HT|].
    destruct (s_pk (t_sch tb)) eqn:Ep; inversion Hd; subst; [exact HT|].
    apply TInv_add_pk; assumption.
  - (* ADD UNIQUE *)
    apply on_table_Inv with (kc := fun t => has_dup (somes (uq_kf cols) (t_rows t))); auto.
    intros tb t' r HT Hkc Hd. unfold do_add_unique in Hd.
    destruct (negb (cols_valid (t_sch tb) cols)); inversion Hd; subst; [exact HT|].
    apply TInv_add_unique; assumption.
  - (* ADD CHECK *)
    apply on_table_Inv with (kc := fun t => existsb (fun r => negb (check_ok c r)) (t_rows t)); auto.
    intros tb t' r HT Hkc Hd. unfold do_add_check in Hd. inversion Hd; subst.
    apply TInv_add_check; assumption.
  - (* BEGIN *)
    destruct (d_txn d) eqn:Ex; [exact HI|]. cbn. destruct HI as [Ht _]. split; cbn; auto.
  - (* COMMIT *)
    destruct (d_txn d) eqn:Ex; [|exact HI]. cbn. destruct HI as [Ht _]. split; cbn; auto.
  - (* ROLLBACK *)
    destruct (d_txn d) as [x|] eqn:Ex; [|exact HI].
    destruct HI as [Ht Hx]. rewrite Ex in Hx. destruct Hx as [Hs Hl].
    destruct (restore_tabs (x_snap x)) as [ts ok] eqn:Er.
    destruct (restore_tabs_TInv _ _ _ Hs Er) as [R1 R2].
    split; cbn; auto.
  - (* SAVEPOINT *)
    destruct (d_txn d) as [x|] eqn:Ex; [|exact HI]. cbn.
    destruct HI as [Ht Hx]. rewrite Ex in Hx. split; cbn; auto.
  - (* ROLLBACK TO *)
    unfold kc_rollback_to in Hk.
    destruct (d_txn d) as [x|] eqn:Ex; [|exact HI].
    destruct (save_pos name (x_saves x) 0) as [[pos idx]|] eqn:Es; [|exact HI].
    destruct HI as [Ht Hx]. rewrite Ex in Hx. destruct Hx as [Hs Hl].
    destruct (undo_all (d_tabs d) (rev (skipn idx (x_changes x)))) as [ts ok] eqn:Eu. cbn.
    destruct (undo_all_TInv (rev (skipn idx (x_changes x))) (d_tabs d) Ht) as [U1 U2].
    { intros ch Hin tb Htb. apply in_rev in Hin. rewrite existsb_exists_false in Hk.
      specialize (Hk ch Hin). rewrite Htb in Hk. apply negb_false_iff in Hk. apply uidx_nil_eq; exact Hk. }
    rewrite Eu in U1, U2. cbn in U1, U2. split; cbn; [exact U1 | split; [exact Hs | congruence]].
  - (* RELEASE *)
    destruct (d_txn d) as [x|] eqn:Ex; [|exact HI].
    destruct (save_pos name (x_saves x) 0) as [[pos idx]|] eqn:Es; [|exact HI]. cbn.
    destruct HI as [Ht Hx]. rewrite Ex in Hx. split; cbn; auto.
Qed.

Theorem inv_run_thm ss : forall d, Inv d -> clean d ss = true -> Inv (run d ss).
Proof.
  induction ss as [|s ss IH]; intros d HI Hc; cbn in *; [exact HI|].
  apply andb_true_iff in Hc. destruct Hc as [Hk Hc]. apply negb_true_iff in Hk.
  apply IH; [apply inv_step_thm; assumption | exact Hc].
Qed.

Theorem inv_reachable_thm schemas ss :
  Forall created schemas -> clean (db_init schemas) ss = true -> Inv (run (db_init schemas) ss).
Proof. intros Hc Hs. apply inv_run_thm; [apply inv_init_thm; exact Hc | exact Hs]. Qed.

(** the two properties, separately *)
Lemma Inv_parts d : Inv d -> db_constraints_hold d /\ db_hash_mirror d /\ db_user_mirror d.
Proof.
  intros [Ht _]. unfold db_constraints_hold, db_hash_mirror, db_user_mirror.
  repeat split; eapply Forall_impl; try exact Ht; intros t HT; apply HT.
Qed.

(* ------------------------------------------------------------------------------------ *)
(** * What the mirror means, in the property's own words *)

(** the PRIMARY KEY map sends k to i exactly when row i carries key k *)
Lemma TInv_pk_spec t cols m :
  TInv t -> s_pk (t_sch t) = Some cols -> t_pkidx t = Some m -> h_spec (pk_kf cols) (t_rows t) m.
Proof.
  intros [_ [[_ [Hpk _]] [[Hhp _] _]]] Ec Em. unfold pk_rebuild in Hhp. rewrite Ec, Em in Hhp. cbn in Hhp.
  apply h_mirror_spec; [apply Hpk; exact Ec | exact Hhp].
Qed.

(** the j-th UNIQUE map sends k to i exactly when row i carries the NULL-free key k *)
Lemma TInv_uq_spec t j cols m :
  TInv t -> nth_error (s_uniqs (t_sch t)) j = Some cols -> nth_error (t_uqidx t) j = Some m ->
  h_spec (uq_kf cols) (t_rows t) m.
Proof.
  intros [_ [[_ [_ [Huq _]]] [[_ Hhu] _]]] Ej Em. unfold uq_rebuild in Hhu.
  assert (Hj' : nth_error (map (fun cols => h_rebuild (uq_kf cols) (t_rows t)) (s_uniqs (t_sch t))) j
                = Some (h_rebuild (uq_kf cols) (t_rows t)))
    by (exact (map_nth_error (fun c => h_rebuild (uq_kf c) (t_rows t)) j _ Ej)).
  destruct (Forall2_nth_error_r _ _ _ _ _ Hhu Hj') as [m' [Em' He]].
  rewrite Em in Em'; inversion Em'; subst m'.
  apply h_mirror_spec; [|exact He]. exact (Forall_nth_error _ _ _ _ Huq Ej).
Qed.

(** a user index lists, under every key, exactly the positions of the rows carrying it *)
Lemma TInv_uidx_spec t u :
  TInv t -> In u (t_uidx t) -> ui_spec (ui_cols u) (t_rows t) (ui_data u).
Proof.
  intros [_ [_ [_ Hu]]] Hin. unfold user_mirror in Hu. rewrite Forall_forall in Hu.
  apply ui_mirror_spec. apply Hu; exact Hin.
Qed.

(** the storage layer's uniqueness check against the UNIQUE user indexes fires exactly when the
    row's NULL-free key is carried by some row of the table *)
Lemma TInv_unique_check t r :
  TInv t ->
  (uidx_unique_violation (t_uidx t) r = true <->
   exists u k, In u (t_uidx t) /\ ui_unique u = true /\ uq_kf (ui_cols u) r = Some k
               /\ In k (somes (uq_kf (ui_cols u)) (t_rows t))).
Proof.
  intros HT. unfold uidx_unique_violation. rewrite existsb_exists. split.
  - intros [u [Hin H]]. apply andb_true_iff in H. destruct H as [Hq H].
    apply andb_true_iff in H. destruct H as [Hn Hm]. apply negb_true_iff in Hn.
    exists u, (ui_key (ui_cols u) r). split; [exact Hin|]. split; [exact Hq|].
    unfold uq_kf, ui_key in *. rewrite Hn. split; [reflexivity|].
    pose proof (TInv_uidx_spec t u HT Hin) as Hs. destruct (Hs (proj (ui_cols u) r)) as [Hi [_ Hne]].
    unfold am_mem in Hm. unfold ui_get in Hi.
    destruct (am_find (proj (ui_cols u) r) (ui_data u)) as [l|] eqn:El; [|discriminate].
    destruct l as [|j l]; [congruence|]. apply In_somes. exists j.
    destruct (proj1 (Hi j) (or_introl eq_refl)) as [r' [Hr' Hk']]. exists r'; split; [exact Hr'|].
    unfold ui_kf, ui_key in Hk'. inversion Hk' as [Hk'']. unfold uq_kf. rewrite Hk'', Hn. reflexivity.
  - intros [u [k [Hin [Hq [Hk Hs]]]]]. exists u; split; [exact Hin|]. rewrite Hq. cbn.
    unfold uq_kf in Hk. unfold ui_key. destruct (has_null (proj (ui_cols u) r)) eqn:Hn; [discriminate|].
    inversion Hk; subst k. cbn. apply In_somes in Hs. destruct Hs as [j Hj]. apply uq_keyed_ui in Hj.
    pose proof (TInv_uidx_spec t u HT Hin) as Hsp. destruct (Hsp (proj (ui_cols u) r)) as [Hi _].
    apply Hi in Hj. unfold ui_get, am_mem in *. destruct (am_find (proj (ui_cols u) r) (ui_data u)); [reflexivity | destruct Hj].
Qed.

(* ------------------------------------------------------------------------------------ *)
(** * The two halves, as separate statements *)

Theorem constraints_step_thm d s :
  Inv d -> known_class s d = false -> db_constraints_hold (fst (step d s)).
Proof. intros HI Hk. exact (proj1 (Inv_parts _ (inv_step_thm d s HI Hk))). Qed.

Theorem constraints_reachable_thm schemas ss :
  Forall created schemas -> clean (db_init schemas) ss = true ->
  db_constraints_hold (run (db_init schemas) ss).
Proof. intros Hc Hs. exact (proj1 (Inv_parts _ (inv_reachable_thm schemas ss Hc Hs))). Qed.

Theorem mirror_step_thm d s :
  Inv d -> known_class s d = false ->
  db_hash_mirror (fst (step d s)) /\ db_user_mirror (fst (step d s)).
Proof. intros HI Hk. exact (proj2 (Inv_parts _ (inv_step_thm d s HI Hk))). Qed.

Theorem mirror_reachable_thm schemas ss :
  Forall created schemas -> clean (db_init schemas) ss = true ->
  db_hash_mirror (run (db_init schemas) ss) /\ db_user_mirror (run (db_init schemas) ss).
Proof. intros Hc Hs. exact (proj2 (Inv_parts _ (inv_reachable_thm schemas ss Hc Hs))). Qed.
