(** C10/C15 model, part 1: values, keys, HashMap-style association maps, table schemas,
    predicates (WHERE / CHECK), the append-mode tracker and the storage-level [Table]
    operations of crates/vibesql-storage/src/table/{mod,indexes,append_mode,normalization}.rs.

    Executable definitions only (laws are in TableLaws.v).

    Scope of the value domain: the harness tables have INTEGER columns only, so a value is
    NULL or an i64 ([val := option Z]); [RowNormalizer::normalize_and_validate] is then the
    identity on well-typed rows and only its column-count / NOT NULL checks remain. *)
From Coq Require Import List ZArith Bool Arith Lia.
From VibeSQL Require Import Generated.Consts.
Import ListNotations.
Local Close Scope Z_scope.   (* Consts.v opens it; this file's numerals are nat *)

(* ------------------------------------------------------------------------------------ *)
(** * Values, rows, keys *)

Definition val := option Z.          (* None = SqlValue::Null, Some z = SqlValue::Integer z *)
Definition row := list val.          (* Row { values } *)
Definition key := list val.          (* Vec<SqlValue> used as HashMap / BTreeMap key *)

Definition val_eqb (a b : val) : bool :=
  match a, b with
  | None, None => true               (* SqlValue::Null == SqlValue::Null under PartialEq *)
  | Some x, Some y => Z.eqb x y
  | _, _ => false
  end.

Fixpoint key_eqb (a b : key) : bool :=
  match a, b with
  | [], [] => true
  | x :: a', y :: b' => val_eqb x y && key_eqb a' b'
  | _, _ => false
  end.

Definition is_null (v : val) : bool := match v with None => true | Some _ => false end.

(** [values.contains(&SqlValue::Null)] *)
Definition has_null (k : key) : bool := existsb is_null k.

(** [indices.iter().map(|&idx| row.values[idx].clone()).collect()].  Indexing past the end
    of a row would panic in Rust; every caller runs after the column-count validation, so
    the default is never used on the modelled paths (rows of a table have the schema's arity). *)
Definition proj (cols : list nat) (r : row) : key := map (fun c => nth c r None) cols.

Definition key_mem (k : key) (l : list key) : bool := existsb (key_eqb k) l.

(* ------------------------------------------------------------------------------------ *)
(** * HashMap<Vec<SqlValue>, V> as an association list.
    [HashMap::insert] overwrites; iteration order is not observable, so any list order is a
    faithful representation; lookups return the unique binding. *)

Definition amap (V : Type) := list (key * V).

Fixpoint am_find {V} (k : key) (m : amap V) : option V :=
  match m with
  | [] => None
  | (k', v) :: r => if key_eqb k k' then Some v else am_find k r
  end.

Fixpoint am_remove {V} (k : key) (m : amap V) : amap V :=
  match m with
  | [] => []
  | (k', v) :: r => if key_eqb k k' then am_remove k r else (k', v) :: am_remove k r
  end.

Definition am_insert {V} (k : key) (v : V) (m : amap V) : amap V := (k, v) :: am_remove k m.

Definition am_mem {V} (k : key) (m : amap V) : bool :=
  match am_find k m with Some _ => true | None => false end.

(* ------------------------------------------------------------------------------------ *)
(** * Predicates: WHERE clauses and CHECK constraints over integer columns,
    three-valued (None = UNKNOWN) as ExpressionEvaluator::eval computes them. *)

Inductive cmpop := OEq | ONe | OLt | OLe | OGt | OGe.

Inductive pred :=
| PCmpC (c : nat) (o : cmpop) (v : Z)          (* col <op> literal *)
| PCmpCol (c1 : nat) (o : cmpop) (c2 : nat)    (* col <op> col *)
| PIsNull (c : nat)
| PNotNull (c : nat)
| PAnd (p q : pred)
| POr (p q : pred).

Definition cmp_z (o : cmpop) (a b : Z) : bool :=
  match o with
  | OEq => Z.eqb a b | ONe => negb (Z.eqb a b)
  | OLt => Z.ltb a b | OLe => Z.leb a b
  | OGt => Z.ltb b a | OGe => Z.leb b a
  end.

Definition cmp_val (o : cmpop) (a b : val) : option bool :=
  match a, b with
  | Some x, Some y => Some (cmp_z o x y)
  | _, _ => None
  end.

Definition and3 (a b : option bool) : option bool :=
  match a, b with
  | Some false, _ | _, Some false => Some false
  | Some true, Some true => Some true
  | _, _ => None
  end.

Definition or3 (a b : option bool) : option bool :=
  match a, b with
  | Some true, _ | _, Some true => Some true
  | Some false, Some false => Some false
  | _, _ => None
  end.

Fixpoint eval_pred (p : pred) (r : row) : option bool :=
  match p with
  | PCmpC c o v => cmp_val o (nth c r None) (Some v)
  | PCmpCol c1 o c2 => cmp_val o (nth c1 r None) (nth c2 r None)
  | PIsNull c => Some (is_null (nth c r None))
  | PNotNull c => Some (negb (is_null (nth c r None)))
  | PAnd p q => and3 (eval_pred p r) (eval_pred q r)
  | POr p q => or3 (eval_pred p r) (eval_pred q r)
  end.

(** WHERE keeps a row iff the predicate is TRUE *)
Definition pred_true (p : pred) (r : row) : bool :=
  match eval_pred p r with Some true => true | _ => false end.

(** a CHECK constraint rejects a row iff it evaluates to FALSE (TRUE and UNKNOWN pass) *)
Definition check_ok (p : pred) (r : row) : bool :=
  match eval_pred p r with Some false => false | _ => true end.

Definition checks_ok (cs : list pred) (r : row) : bool := forallb (fun c => check_ok c r) cs.

(* ------------------------------------------------------------------------------------ *)
(** * Table schema (vibesql_catalog::TableSchema, the part the modelled code reads).

    The engine keeps two copies of a table's schema: the catalog's (read by the INSERT /
    UPDATE executors) and the storage table's own ([Table::schema], read by the IndexManager
    and the RowNormalizer).  ALTER TABLE ADD CONSTRAINT CHECK changes only the storage copy
    (alter/constraints.rs); ADD PRIMARY KEY / ADD UNIQUE change the storage copy and then
    overwrite the catalog copy with it.  The two copies therefore agree on everything except
    the CHECK list: [s_checks_enf] is the catalog's list (the one the executors enforce),
    [s_checks_decl] the storage copy's list (every constraint that was declared successfully). *)

Record schema := {
  s_ncols : nat;
  s_notnull : list bool;              (* per column: !nullable *)
  s_pk : option (list nat);           (* get_primary_key_indices(): declaration order *)
  s_uniqs : list (list nat);          (* get_unique_constraint_indices() *)
  s_checks_enf : list pred;
  s_checks_decl : list pred;
}.

(** NOT NULL scan over the columns in order; used verbatim by RowValidator phase 1,
    update/constraints.rs validate_not_null and RowNormalizer::normalize_and_validate *)
Definition notnull_ok (nn : list bool) (r : row) : bool :=
  forallb (fun p => negb (fst p) || negb (is_null (snd p))) (combine nn r).

(* ------------------------------------------------------------------------------------ *)
(** * AppendModeTracker (append_mode.rs) *)

Record tracker := { tr_last : option key; tr_mode : bool; tr_streak : nat }.

Definition tracker_new : tracker := {| tr_last := None; tr_mode := false; tr_streak := 0 |}.

(** re-read from append_mode.rs on every run (Generated/Consts.v) *)
Definition APPEND_MODE_THRESHOLD : nat := Z.to_nat c10_append_mode_threshold.

(** [pk_values > last_pk.as_slice()]: slice PartialOrd = lexicographic over
    SqlValue::partial_cmp, which is None as soon as a NULL is involved. *)
Fixpoint key_pcmp (a b : key) : option comparison :=
  match a, b with
  | [], [] => Some Eq
  | [], _ :: _ => Some Lt
  | _ :: _, [] => Some Gt
  | Some x :: a', Some y :: b' =>
      match Z.compare x y with Eq => key_pcmp a' b' | c => Some c end
  | _ :: _, _ :: _ => None
  end.

Definition key_gt (a b : key) : bool := match key_pcmp a b with Some Gt => true | _ => false end.

Definition tracker_update (t : tracker) (pk : key) : tracker :=
  match tr_last t with
  | Some last =>
      if key_gt pk last then
        let s := S (tr_streak t) in
        {| tr_last := Some pk;
           tr_mode := if APPEND_MODE_THRESHOLD <=? s then true else tr_mode t;
           tr_streak := s |}
      else {| tr_last := Some pk; tr_mode := false; tr_streak := 0 |}
  | None => {| tr_last := Some pk; tr_mode := tr_mode t; tr_streak := tr_streak t |}
  end.

(* ------------------------------------------------------------------------------------ *)
(** * Hash index keys.
    The primary-key index stores every row's key; a UNIQUE constraint's index skips rows
    whose key contains a NULL.  Both are instances of "index the rows whose [kf] is Some". *)

Definition pk_kf (cols : list nat) (r : row) : option key := Some (proj cols r).
Definition uq_kf (cols : list nat) (r : row) : option key :=
  let k := proj cols r in if has_null k then None else Some k.

(** the list of keys carried by the rows, in order, and "some key occurs twice" *)
Definition somes (kf : row -> option key) (rows : list row) : list key :=
  flat_map (fun r => match kf r with Some k => [k] | None => [] end) rows.

Fixpoint has_dup (l : list key) : bool :=
  match l with
  | [] => false
  | k :: r => key_mem k r || has_dup r
  end.

(** one step of IndexManager::update_for_insert on one map *)
Definition h_insert (kf : row -> option key) (r : row) (n : nat) (m : amap nat) : amap nat :=
  match kf r with Some k => am_insert k n m | None => m end.

(** IndexManager::rebuild on one map: clear, then update_for_insert for every (index,row) *)
Fixpoint h_rebuild_from (kf : row -> option key) (n : nat) (rows : list row) (m : amap nat) : amap nat :=
  match rows with
  | [] => m
  | r :: rest => h_rebuild_from kf (S n) rest (h_insert kf r n m)
  end.

Definition h_rebuild (kf : row -> option key) (rows : list row) : amap nat := h_rebuild_from kf 0 rows [].

(* ------------------------------------------------------------------------------------ *)
(** * User-defined index data (IndexData::InMemory: BTreeMap<Vec<SqlValue>, Vec<usize>>).
    The record lives in UserIndex.v; the table record refers to it, so it is declared here. *)

Record uindex := {
  ui_name : Z;                        (* normalised index name, as a number *)
  ui_unique : bool;
  ui_cols : list nat;
  ui_data : amap (list nat);
}.

(* ------------------------------------------------------------------------------------ *)
(** * The table *)

Record table := {
  t_sch : schema;
  t_rows : list row;
  t_pkidx : option (amap nat);        (* IndexManager::primary_key_index *)
  t_uqidx : list (amap nat);          (* IndexManager::unique_indexes *)
  t_trk : tracker;
  t_uidx : list uindex;               (* the user-defined indexes whose table_name is this table
                                         (kept in Database::operations.index_manager) *)
}.

Definition set_rows (t : table) (rows : list row) : table :=
  {| t_sch := t_sch t; t_rows := rows; t_pkidx := t_pkidx t; t_uqidx := t_uqidx t;
     t_trk := t_trk t; t_uidx := t_uidx t |}.
Definition set_hash (t : table) (pk : option (amap nat)) (uq : list (amap nat)) : table :=
  {| t_sch := t_sch t; t_rows := t_rows t; t_pkidx := pk; t_uqidx := uq;
     t_trk := t_trk t; t_uidx := t_uidx t |}.
Definition set_trk (t : table) (k : tracker) : table :=
  {| t_sch := t_sch t; t_rows := t_rows t; t_pkidx := t_pkidx t; t_uqidx := t_uqidx t;
     t_trk := k; t_uidx := t_uidx t |}.
Definition set_uidx (t : table) (u : list uindex) : table :=
  {| t_sch := t_sch t; t_rows := t_rows t; t_pkidx := t_pkidx t; t_uqidx := t_uqidx t;
     t_trk := t_trk t; t_uidx := u |}.
Definition set_sch (t : table) (s : schema) : table :=
  {| t_sch := s; t_rows := t_rows t; t_pkidx := t_pkidx t; t_uqidx := t_uqidx t;
     t_trk := t_trk t; t_uidx := t_uidx t |}.

(** IndexManager::new + rebuild: the PK map exists iff the schema has a primary key; one map
    per UNIQUE constraint *)
Definition pk_rebuild (s : schema) (rows : list row) : option (amap nat) :=
  match s_pk s with Some cols => Some (h_rebuild (pk_kf cols) rows) | None => None end.
Definition uq_rebuild (s : schema) (rows : list row) : list (amap nat) :=
  map (fun cols => h_rebuild (uq_kf cols) rows) (s_uniqs s).

Definition table_new (s : schema) : table :=
  {| t_sch := s; t_rows := []; t_pkidx := pk_rebuild s []; t_uqidx := uq_rebuild s [];
     t_trk := tracker_new; t_uidx := [] |}.

(** IndexManager::update_for_insert.  [unique_indexes.get_mut(constraint_idx)] pairs the
    i-th constraint with the i-th map; a constraint without a map is skipped. *)
Definition pk_for_insert (s : schema) (r : row) (n : nat) (pk : option (amap nat)) : option (amap nat) :=
  match pk, s_pk s with
  | Some m, Some cols => Some (h_insert (pk_kf cols) r n m)
  | _, _ => pk
  end.

Fixpoint uq_for_insert (uniqs : list (list nat)) (r : row) (n : nat) (uq : list (amap nat)) : list (amap nat) :=
  match uq, uniqs with
  | m :: uq', cols :: uniqs' => h_insert (uq_kf cols) r n m :: uq_for_insert uniqs' r n uq'
  | _, _ => uq
  end.

(** storage-level errors *)
Inductive serr := SColumnCount | SNullViolation | SIndexOutOfBounds | SRowNotFound.

(** RowNormalizer::normalize_and_validate for INTEGER columns *)
Definition normalize (s : schema) (r : row) : serr + row :=
  if negb (length r =? s_ncols s) then inl SColumnCount
  else if negb (notnull_ok (s_notnull s) r) then inl SNullViolation
  else inr r.

(** Table::insert *)
Definition tbl_insert (t : table) (r : row) : serr + table :=
  match normalize (t_sch t) r with
  | inl e => inl e
  | inr r' =>
      let trk := match s_pk (t_sch t) with
                 | Some cols => tracker_update (t_trk t) (proj cols r')
                 | None => t_trk t end in
      let n := length (t_rows t) in
      inr {| t_sch := t_sch t; t_rows := t_rows t ++ [r'];
             t_pkidx := pk_for_insert (t_sch t) r' n (t_pkidx t);
             t_uqidx := uq_for_insert (s_uniqs (t_sch t)) r' n (t_uqidx t);
             t_trk := trk; t_uidx := t_uidx t |}
  end.

(** Table::clear: rows, hash indexes, tracker *)
Definition tbl_clear (t : table) : table :=
  {| t_sch := t_sch t; t_rows := [];
     t_pkidx := match t_pkidx t with Some _ => Some [] | None => None end;
     t_uqidx := map (fun _ => []) (t_uqidx t);
     t_trk := tracker_new; t_uidx := t_uidx t |}.

Fixpoint set_nth {A} (i : nat) (x : A) (l : list A) : list A :=
  match l, i with
  | [], _ => []
  | _ :: r, O => x :: r
  | y :: r, S i' => y :: set_nth i' x r
  end.

(** one PK-map step of update_for_update / update_selective *)
Definition pk_upd (cols : list nat) (old new : row) (i : nat) (m : amap nat) : amap nat :=
  let ko := proj cols old in
  let kn := proj cols new in
  if key_eqb ko kn then m else am_insert kn i (am_remove ko m).

(** one UNIQUE-map step *)
Definition uq_upd (cols : list nat) (old new : row) (i : nat) (m : amap nat) : amap nat :=
  let ko := proj cols old in
  let kn := proj cols new in
  let m1 := if negb (key_eqb ko kn) && negb (has_null ko) then am_remove ko m else m in
  if negb (has_null kn) then am_insert kn i m1 else m1.

Definition cols_touched (cols changed : list nat) : bool :=
  existsb (fun c => existsb (Nat.eqb c) changed) cols.

(** get_affected_indexes + update_selective *)
Definition pk_for_update (s : schema) (old new : row) (i : nat) (changed : list nat)
           (pk : option (amap nat)) : option (amap nat) :=
  match pk, s_pk s with
  | Some m, Some cols => if cols_touched cols changed then Some (pk_upd cols old new i m) else pk
  | _, _ => pk
  end.

Fixpoint uq_for_update (uniqs : list (list nat)) (old new : row) (i : nat) (changed : list nat)
         (uq : list (amap nat)) : list (amap nat) :=
  match uq, uniqs with
  | m :: uq', cols :: uniqs' =>
      (if cols_touched cols changed then uq_upd cols old new i m else m)
        :: uq_for_update uniqs' old new i changed uq'
  | _, _ => uq
  end.

(** Table::update_row_selective *)
Definition tbl_update_row_selective (t : table) (i : nat) (r : row) (changed : list nat) : serr + table :=
  match nth_error (t_rows t) i with
  | None => inl SIndexOutOfBounds
  | Some old =>
      match normalize (t_sch t) r with
      | inl e => inl e
      | inr r' =>
          inr {| t_sch := t_sch t; t_rows := set_nth i r' (t_rows t);
                 t_pkidx := pk_for_update (t_sch t) old r' i changed (t_pkidx t);
                 t_uqidx := uq_for_update (s_uniqs (t_sch t)) old r' i changed (t_uqidx t);
                 t_trk := t_trk t; t_uidx := t_uidx t |}
      end
  end.

(** rows kept by [Table::delete_where] when the predicate is "index is in [del]" *)
Fixpoint remove_at_from (n : nat) (del : list nat) (rows : list row) : list row :=
  match rows with
  | [] => []
  | r :: rest =>
      if existsb (Nat.eqb n) del then remove_at_from (S n) del rest
      else r :: remove_at_from (S n) del rest
  end.

(** IndexManager::rebuild on the maps that exist: [clear()] empties every map, then
    update_for_insert re-inserts through the schema (a PK map without a schema PK, or a map
    beyond the schema's UNIQUE list, stays empty). *)
Definition im_rebuild_pk (s : schema) (pk : option (amap nat)) (rows : list row) : option (amap nat) :=
  match pk, s_pk s with
  | Some _, Some cols => Some (h_rebuild (pk_kf cols) rows)
  | Some _, None => Some []
  | None, _ => None
  end.

Fixpoint im_rebuild_uq (uniqs : list (list nat)) (uq : list (amap nat)) (rows : list row) : list (amap nat) :=
  match uq, uniqs with
  | _ :: uq', cols :: uniqs' => h_rebuild (uq_kf cols) rows :: im_rebuild_uq uniqs' uq' rows
  | _, _ => map (fun _ => []) uq
  end.

(** Table::delete_where: remove the rows, update_for_delete each removed row, then rebuild --
    the final IndexManager::rebuild clears the maps first, so only it is visible.
    Returns the number of rows removed. *)
Definition tbl_delete_at (t : table) (del : list nat) : table * nat :=
  let rows' := remove_at_from 0 del (t_rows t) in
  ({| t_sch := t_sch t; t_rows := rows';
      t_pkidx := im_rebuild_pk (t_sch t) (t_pkidx t) rows';
      t_uqidx := im_rebuild_uq (s_uniqs (t_sch t)) (t_uqidx t) rows';
      t_trk := t_trk t; t_uidx := t_uidx t |},
   length (t_rows t) - length rows').

(** Table::rebuild_indexes (after ALTER TABLE ADD PRIMARY KEY / UNIQUE): IndexManager::new for
    the current schema, then rebuild *)
Definition tbl_rebuild_indexes (t : table) : table :=
  set_hash t (pk_rebuild (t_sch t) (t_rows t)) (uq_rebuild (t_sch t) (t_rows t)).

Fixpoint row_eqb_pos (target : row) (rows : list row) (n : nat) : option nat :=
  match rows with
  | [] => None
  | r :: rest => if key_eqb r target then Some n else row_eqb_pos target rest (S n)
  end.

(** Table::remove_row (savepoint undo): first structurally equal row; hash maps rebuilt *)
Definition tbl_remove_row (t : table) (target : row) : serr + table :=
  match row_eqb_pos target (t_rows t) 0 with
  | None => inl SRowNotFound
  | Some pos => inr (fst (tbl_delete_at t [pos]))
  end.
