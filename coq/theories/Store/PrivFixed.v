(** The privilege state machine with the proposed repair of GRANT (fixes/C26-grant-requires-authority.patch):
    with security enabled the grantor must be ADMIN/DBA or hold every granted privilege on the object WITH
    GRANT OPTION.  Everything else is [Store.Priv.step].  Model file: definitions only. *)
From Coq Require Import List Bool String.
From VibeSQL Require Import Store.Priv.
Import ListNotations.
Open Scope string_scope.

(** the session role holds [p] on [obj] with grant option *)
Definition may_grant (s : state) (obj : string) (p : privilege) : bool :=
  existsb (fun g => matches obj (current_role s) p g && g_wgo g) (st_grants s).

Definition grant_authorised (s : state) (obj : string) (expanded : list privilege) : bool :=
  negb (st_security s) || is_admin (current_role s) || forallb (may_grant s obj) expanded.

Definition exec_grant_fixed (s : state) (privs : list privilege) (ot : objtype) (obj : string)
           (grantees : list string) (wgo : bool) : state * result :=
  match grant_object_check s privs ot obj with
  | inr e => (s, RErr e)
  | inl actual =>
      if all_roles_exist s grantees
      then if grant_authorised s obj (expand privs actual)
           then (set_grants s (st_grants s ++ new_grants obj actual (expand privs actual) grantees (current_role s) wgo), ROk)
           else (s, RErr EPermissionDenied)
      else (s, RErr ERoleNotFound)
  end.

Definition step_fixed (s : state) (o : op) : state * result :=
  match o with
  | OGrant privs ot obj grantees wgo => exec_grant_fixed s privs ot obj grantees wgo
  | _ => step s o
  end.

Fixpoint exec_fixed (s : state) (h : list op) : state :=
  match h with
  | [] => s
  | o :: r => exec_fixed (fst (step_fixed s o)) r
  end.

(** what a connected client can issue: statements, but neither [Database::set_role] nor the security switch
    (both are host-API calls, not SQL) *)
Definition session_op (o : op) : bool :=
  match o with
  | OSetRole _ | OSetSecurity _ => false
  | _ => true
  end.
