(** C33 laws, part 1: names and association lists (HashMap model) of Store/Catalog.v. *)
From Coq Require Import List ZArith Bool Arith Lia.
From VibeSQL Require Import Store.Catalog.
Import ListNotations.
Open Scope Z_scope.

(* ------------------------------------------------------------------------------------------ *)
(** * name equality *)

Lemma name_eqb_eq : forall a b, name_eqb a b = true <-> a = b.
Proof.
  induction a as [|x a IH]; destruct b as [|y b]; cbn [name_eqb]; split; intro H; try discriminate; auto.
  - apply andb_true_iff in H. destruct H as [H1 H2]. apply Z.eqb_eq in H1. apply IH in H2. congruence.
  - inversion H; subst. apply andb_true_iff. split; [apply Z.eqb_refl | apply IH; reflexivity].
Qed.

Lemma name_eqb_refl : forall a, name_eqb a a = true.
Proof. intro a. apply name_eqb_eq. reflexivity. Qed.

Lemma name_eqb_neq : forall a b, name_eqb a b = false <-> a <> b.
Proof.
  intros a b. split; intro H.
  - intro E. apply name_eqb_eq in E. congruence.
  - destruct (name_eqb a b) eqn:E; auto. apply name_eqb_eq in E. contradiction.
Qed.

Lemma name_eqb_sym : forall a b, name_eqb a b = name_eqb b a.
Proof.
  intros a b. destruct (name_eqb a b) eqn:E.
  - apply name_eqb_eq in E. subst. symmetry. apply name_eqb_refl.
  - symmetry. apply name_eqb_neq. apply name_eqb_neq in E. congruence.
Qed.

Lemma name_eq_dec : forall a b : name, {a = b} + {a <> b}.
Proof. intros a b. destruct (name_eqb a b) eqn:E; [left; apply name_eqb_eq; auto | right; apply name_eqb_neq; auto]. Qed.

Ltac name_cases a b :=
  let E := fresh "E" in
  destruct (name_eqb a b) eqn:E; [apply name_eqb_eq in E | apply name_eqb_neq in E].

(* ------------------------------------------------------------------------------------------ *)
(** * dots *)

Lemma has_dot_app : forall a b, has_dot (a ++ b) = has_dot a || has_dot b.
Proof. intros. unfold has_dot. apply existsb_app. Qed.

Lemma has_dot_qual : forall a b, has_dot (qual a b) = true.
Proof.
  intros. unfold qual. rewrite has_dot_app. unfold has_dot at 2. cbn [existsb].
  unfold dot. rewrite Z.eqb_refl. cbn. apply orb_true_r.
Qed.

Lemma split_dot_none : forall n, has_dot n = false -> split_dot n = None.
Proof.
  induction n as [|c r IH]; intro H; cbn [split_dot]; auto.
  unfold has_dot in H. cbn [existsb] in H. apply orb_false_iff in H. destruct H as [H1 H2].
  rewrite H1. fold (has_dot r) in H2. rewrite (IH H2). reflexivity.
Qed.

Lemma split_dot_qual : forall a b, has_dot a = false -> split_dot (qual a b) = Some (a, b).
Proof.
  induction a as [|c r IH]; intros b H.
  - unfold qual. cbn. unfold dot. reflexivity.
  - unfold has_dot in H. cbn [existsb] in H. apply orb_false_iff in H. destruct H as [H1 H2].
    unfold qual. cbn [app split_dot]. rewrite H1. fold (qual r b). rewrite (IH b H2). reflexivity.
Qed.

Lemma split_dot_some_has_dot : forall n p, split_dot n = Some p -> has_dot n = true.
Proof.
  intros n p H. destruct (has_dot n) eqn:E; auto. rewrite (split_dot_none _ E) in H. discriminate.
Qed.

Lemma split_dot_some : forall n a b, split_dot n = Some (a, b) -> n = qual a b /\ has_dot a = false.
Proof.
  induction n as [|c r IH]; intros a b H; cbn [split_dot] in H; try discriminate.
  destruct (c =? dot) eqn:E.
  - inversion H; subst. apply Z.eqb_eq in E. subst. split; reflexivity.
  - destruct (split_dot r) as [[a' b']|] eqn:E2; try discriminate.
    inversion H; subst. destruct (IH _ _ eq_refl) as [-> Hd].
    split; [reflexivity|]. unfold has_dot. cbn [existsb]. rewrite E. exact Hd.
Qed.

Lemma qual_inj_r : forall a b c, qual a b = qual a c -> b = c.
Proof. intros a b c H. unfold qual in H. apply app_inv_head in H. congruence. Qed.

Lemma qual_inj : forall a b c d, has_dot a = false -> has_dot c = false -> qual a b = qual c d -> a = c /\ b = d.
Proof.
  intros a b c d Ha Hc H.
  pose proof (split_dot_qual a b Ha) as H1. pose proof (split_dot_qual c d Hc) as H2.
  rewrite H in H1. rewrite H1 in H2. inversion H2; auto.
Qed.

Lemma public_nodot : has_dot public = false.
Proof. reflexivity. Qed.

Lemma up_c_dot : forall c, up_c c = dot <-> c = dot.
Proof.
  intro c. unfold up_c, dot. destruct ((97 <=? c) && (c <=? 122)) eqn:E.
  - apply andb_true_iff in E. destruct E as [E1 E2]. apply Z.leb_le in E1. apply Z.leb_le in E2. lia.
  - tauto.
Qed.

Lemma up_c_dot_eqb : forall c, (up_c c =? dot) = (c =? dot).
Proof.
  intro c. destruct (c =? dot) eqn:E.
  - apply Z.eqb_eq in E. subst. reflexivity.
  - apply Z.eqb_neq in E. apply Z.eqb_neq. intro H. apply (proj1 (up_c_dot c)) in H. contradiction.
Qed.

Lemma has_dot_upper : forall n, has_dot (upper n) = has_dot n.
Proof.
  induction n as [|c r IH]; auto.
  change (has_dot (upper (c :: r))) with ((up_c c =? dot) || has_dot (upper r)).
  change (has_dot (c :: r)) with ((c =? dot) || has_dot r).
  rewrite IH, up_c_dot_eqb. reflexivity.
Qed.

Lemma nodot_ne_qual : forall t a b, has_dot t = false -> t <> qual a b.
Proof. intros t a b H E. subst. rewrite has_dot_qual in H. discriminate. Qed.

(* ------------------------------------------------------------------------------------------ *)
(** * association lists *)

Section Alist.
Context {A : Type}.
Implicit Types m : list (name * A).

Lemma alookup_in : forall m k v, alookup k m = Some v -> In (k, v) m.
Proof.
  induction m as [|[k' v'] r IH]; intros k v H; cbn [alookup] in H; try discriminate.
  name_cases k k'.
  - inversion H; subst. left. reflexivity.
  - right. apply IH. exact H.
Qed.

Lemma alookup_in_keys : forall m k v, alookup k m = Some v -> In k (akeys m).
Proof. intros m k v H. apply alookup_in in H. unfold akeys. apply in_map_iff. exists (k, v). auto. Qed.

Lemma alookup_none_notin : forall m k, alookup k m = None <-> ~ In k (akeys m).
Proof.
  induction m as [|[k' v'] r IH]; intros k; cbn [alookup akeys map fst].
  - split; auto.
  - name_cases k k'.
    + subst. split; [discriminate | intro H; exfalso; apply H; left; reflexivity].
    + rewrite IH. unfold akeys. split; intro H.
      * intros [H1|H1]; [congruence | contradiction].
      * intro H1. apply H. right. exact H1.
Qed.

Lemma in_alookup_nodup : forall m k v, NoDup (akeys m) -> In (k, v) m -> alookup k m = Some v.
Proof.
  induction m as [|[k' v'] r IH]; intros k v ND HI; [contradiction|].
  cbn [akeys map fst] in ND. inversion ND as [|? ? Hn ND']; subst.
  cbn [alookup]. destruct HI as [HI|HI].
  - inversion HI; subst. rewrite name_eqb_refl. reflexivity.
  - name_cases k k'.
    + subst. exfalso. apply Hn. unfold akeys. apply in_map_iff. exists (k', v). auto.
    + apply IH; auto.
Qed.

Lemma amem_alookup : forall m k, amem k m = true <-> exists v, alookup k m = Some v.
Proof.
  intros m k. unfold amem. destruct (alookup k m) as [v|]; split; intro H; auto.
  - exists v. reflexivity.
  - discriminate.
  - destruct H as [v H]. discriminate.
Qed.

Lemma amem_false : forall m k, amem k m = false <-> alookup k m = None.
Proof. intros m k. unfold amem. destruct (alookup k m); split; intro H; auto; discriminate. Qed.

Lemma akeys_aremove : forall m k, akeys (aremove k m) = filter (fun x => negb (name_eqb k x)) (akeys m).
Proof.
  induction m as [|[k' v'] r IH]; intro k; cbn [aremove akeys map fst filter]; auto.
  destruct (name_eqb k k'); cbn [negb]; [apply IH|].
  cbn [akeys map fst]. f_equal. apply IH.
Qed.

Lemma nodup_filter : forall (B : Type) (p : B -> bool) (l : list B), NoDup l -> NoDup (filter p l).
Proof.
  intros B p l H. induction H as [|x l Hn ND IH]; cbn [filter]; [constructor|].
  destruct (p x); auto. constructor; auto. intro HI. apply filter_In in HI. tauto.
Qed.

Lemma nodup_aremove : forall m k, NoDup (akeys m) -> NoDup (akeys (aremove k m)).
Proof. intros. rewrite akeys_aremove. apply nodup_filter. assumption. Qed.

Lemma alookup_aremove_same : forall m k, alookup k (aremove k m) = None.
Proof.
  intros m k. apply alookup_none_notin. rewrite akeys_aremove. intro H. apply filter_In in H.
  destruct H as [_ H]. rewrite name_eqb_refl in H. discriminate.
Qed.

Lemma alookup_aremove_other : forall m k k', k <> k' -> alookup k' (aremove k m) = alookup k' m.
Proof.
  induction m as [|[k0 v0] r IH]; intros k k' Hne; cbn [aremove alookup]; auto.
  name_cases k k0.
  - subst. name_cases k' k0; [congruence | apply IH; auto].
  - cbn [alookup]. destruct (name_eqb k' k0); auto.
Qed.

Lemma alookup_app : forall m1 m2 k, alookup k (m1 ++ m2) = match alookup k m1 with Some v => Some v | None => alookup k m2 end.
Proof.
  induction m1 as [|[k0 v0] r IH]; intros m2 k; cbn [app alookup]; auto.
  destruct (name_eqb k k0); auto.
Qed.

Lemma alookup_ainsert_same : forall m k v, alookup k (ainsert k v m) = Some v.
Proof.
  intros. unfold ainsert. rewrite alookup_app. rewrite alookup_aremove_same. cbn [alookup]. rewrite name_eqb_refl. reflexivity.
Qed.

Lemma alookup_ainsert_other : forall m k v k', k <> k' -> alookup k' (ainsert k v m) = alookup k' m.
Proof.
  intros m k v k' Hne. unfold ainsert. rewrite alookup_app. rewrite (alookup_aremove_other _ _ _ Hne).
  destruct (alookup k' m); auto. cbn [alookup]. name_cases k' k; [congruence | reflexivity].
Qed.

Lemma alookup_ainsert : forall m k v k', alookup k' (ainsert k v m) = if name_eqb k k' then Some v else alookup k' m.
Proof.
  intros. name_cases k k'.
  - subst. apply alookup_ainsert_same.
  - apply alookup_ainsert_other. assumption.
Qed.

Lemma alookup_aremove : forall m k k', alookup k' (aremove k m) = if name_eqb k k' then None else alookup k' m.
Proof.
  intros. name_cases k k'.
  - subst. apply alookup_aremove_same.
  - apply alookup_aremove_other. assumption.
Qed.

Lemma aremove_absent : forall m k, alookup k m = None -> aremove k m = m.
Proof.
  induction m as [|[k0 v0] r IH]; intros k H; cbn [aremove alookup] in *; auto.
  destruct (name_eqb k k0); try discriminate. f_equal. apply IH. exact H.
Qed.

Lemma aremove_app : forall m1 m2 k, aremove k (m1 ++ m2) = aremove k m1 ++ aremove k m2.
Proof.
  induction m1 as [|[k0 v0] r IH]; intros m2 k; cbn [app aremove]; auto.
  destruct (name_eqb k k0); cbn [app]; rewrite IH; reflexivity.
Qed.

(** taking back an entry that was inserted under a fresh key gives the map back *)
Lemma aremove_ainsert_absent : forall m k v, alookup k m = None -> aremove k (ainsert k v m) = m.
Proof.
  intros m k v H. unfold ainsert. rewrite aremove_app. cbn [aremove]. rewrite name_eqb_refl.
  rewrite app_nil_r. rewrite (aremove_absent m k H). apply aremove_absent. exact H.
Qed.

Lemma akeys_app : forall m1 m2, akeys (m1 ++ m2) = akeys m1 ++ akeys m2.
Proof. intros. unfold akeys. apply map_app. Qed.

Lemma nodup_snoc : forall (B : Type) (l : list B) (x : B), NoDup l -> ~ In x l -> NoDup (l ++ [x]).
Proof.
  intros B l x ND. induction ND as [|y l Hn ND IH]; intro Hx; cbn [app].
  - constructor; [intros []|constructor].
  - constructor.
    + intro HI. apply in_app_or in HI. destruct HI as [HI|[HI|[]]]; [contradiction|]. subst. apply Hx. left. reflexivity.
    + apply IH. intro HI. apply Hx. right. exact HI.
Qed.

Lemma nodup_ainsert : forall m k v, NoDup (akeys m) -> NoDup (akeys (ainsert k v m)).
Proof.
  intros m k v ND. unfold ainsert. rewrite akeys_app. cbn [akeys map fst].
  apply nodup_snoc.
  - apply nodup_aremove. exact ND.
  - apply alookup_none_notin. apply alookup_aremove_same.
Qed.

Lemma amem_ainsert : forall m k v k', amem k' (ainsert k v m) = name_eqb k k' || amem k' m.
Proof. intros. unfold amem. rewrite alookup_ainsert. destruct (name_eqb k k'); reflexivity. Qed.

Lemma amem_aremove : forall m k k', amem k' (aremove k m) = negb (name_eqb k k') && amem k' m.
Proof. intros. unfold amem. rewrite alookup_aremove. destruct (name_eqb k k'); reflexivity. Qed.

(** filtering on the whole entry *)
Lemma akeys_filter_nodup : forall (p : name * A -> bool) m, NoDup (akeys m) -> NoDup (akeys (filter p m)).
Proof.
  intros p m. induction m as [|[k v] r IH]; intro ND; cbn [filter akeys map fst]; [constructor|].
  cbn [akeys map fst] in ND. inversion ND as [|? ? Hn ND']; subst.
  destruct (p (k, v)); [|apply IH; auto].
  cbn [akeys map fst]. constructor; [|apply IH; auto].
  intro HI. apply Hn. unfold akeys in *. apply in_map_iff in HI. destruct HI as [[k2 v2] [E HI]]. cbn in E. subst.
  apply filter_In in HI. apply in_map_iff. exists (k, v2). tauto.
Qed.

Lemma alookup_filter : forall (p : name * A -> bool) m k, NoDup (akeys m) ->
  alookup k (filter p m) = match alookup k m with Some v => if p (k, v) then Some v else None | None => None end.
Proof.
  intros p m k ND. destruct (alookup k m) as [v|] eqn:E.
  - destruct (p (k, v)) eqn:Ep.
    + apply in_alookup_nodup; [apply akeys_filter_nodup; auto|]. apply filter_In. split; auto. apply alookup_in. exact E.
    + destruct (alookup k (filter p m)) as [v'|] eqn:E'; auto.
      apply alookup_in in E'. apply filter_In in E'. destruct E' as [HI Hp].
      apply (in_alookup_nodup _ _ _ ND) in HI. rewrite E in HI. inversion HI; subst. congruence.
  - destruct (alookup k (filter p m)) as [v'|] eqn:E'; auto.
    apply alookup_in in E'. apply filter_In in E'. destruct E' as [HI _].
    apply (in_alookup_nodup _ _ _ ND) in HI. congruence.
Qed.

Lemma filter_all : forall (B : Type) (p : B -> bool) (l : list B), (forall x, In x l -> p x = true) -> filter p l = l.
Proof.
  intros B p l. induction l as [|x r IH]; intro H; cbn [filter]; auto.
  rewrite (H x (or_introl eq_refl)). f_equal. apply IH. intros y Hy. apply H. right. exact Hy.
Qed.

End Alist.

Lemma NoDup_nil_keys : forall A, NoDup (akeys (@nil (name * A))).
Proof. intros. constructor. Qed.
