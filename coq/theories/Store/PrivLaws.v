(** Laws of the privilege model [Store.Priv] (C26): equality tests, catalog operations, one-step
    characterisation of [has_privilege], [revoke_cascade] as reachability in the delegation graph,
    the history theorem, termination of CASCADE, monotonicity without GRANT. *)
From Coq Require Import List Bool String Arith Lia.
From VibeSQL Require Import Store.Priv.
Import ListNotations.
Open Scope string_scope.

(** * equality tests are equality *)
Lemma strs_eqb_eq : forall a b, strs_eqb a b = true <-> a = b.
Proof.
  induction a as [|x a IH]; destruct b as [|y b]; cbn; split; intro H; try congruence; try discriminate.
  - apply andb_true_iff in H as [H1 H2]. apply String.eqb_eq in H1. apply IH in H2. congruence.
  - inversion H; subst. rewrite String.eqb_refl. cbn. apply IH. reflexivity.
Qed.

Lemma cols_eqb_eq : forall a b, cols_eqb a b = true <-> a = b.
Proof.
  destruct a as [a|], b as [b|]; cbn; split; intro H; try congruence; try discriminate.
  - apply strs_eqb_eq in H. congruence.
  - inversion H; subst. apply strs_eqb_eq. reflexivity.
Qed.

Lemma priv_eqb_eq : forall a b, priv_eqb a b = true <-> a = b.
Proof.
  destruct a, b; cbn; split; intro H; try congruence; try discriminate;
    try (apply cols_eqb_eq in H; congruence);
    try (inversion H; subst; apply cols_eqb_eq; reflexivity).
Qed.

Lemma priv_eqb_refl : forall a, priv_eqb a a = true.
Proof. intro a. apply priv_eqb_eq. reflexivity. Qed.

Lemma priv_eqb_neq : forall a b, priv_eqb a b = false <-> a <> b.
Proof.
  intros a b. split.
  - intros H E. apply priv_eqb_eq in E. congruence.
  - intro H. destruct (priv_eqb a b) eqn:E; [|reflexivity]. apply priv_eqb_eq in E. contradiction.
Qed.

Lemma priv_eq_dec : forall a b : privilege, {a = b} + {a <> b}.
Proof.
  intros a b. destruct (priv_eqb a b) eqn:E.
  - left. apply priv_eqb_eq. exact E.
  - right. apply priv_eqb_neq. exact E.
Qed.

Lemma mem_In : forall x l, mem x l = true <-> In x l.
Proof.
  intros x l. unfold mem. rewrite existsb_exists. split.
  - intros [y [Hy E]]. apply String.eqb_eq in E. subst. exact Hy.
  - intro H. exists x. split; [exact H | apply String.eqb_refl].
Qed.

(** * the key of a grant: the triple every catalog operation looks at *)
Definition key (g : grant) : string * string * privilege := (g_object g, g_grantee g, g_priv g).

Lemma matches_spec : forall obj ge p g,
  matches obj ge p g = true <-> g_object g = obj /\ g_grantee g = ge /\ g_priv g = p.
Proof.
  intros. unfold matches. rewrite !andb_true_iff, !String.eqb_eq, priv_eqb_eq. tauto.
Qed.

Lemma granted_by_spec : forall obj gr p g,
  granted_by obj gr p g = true <-> g_object g = obj /\ g_grantor g = gr /\ g_priv g = p.
Proof.
  intros. unfold granted_by. rewrite !andb_true_iff, !String.eqb_eq, priv_eqb_eq. tauto.
Qed.

Lemma has_in_spec : forall G r obj p,
  has_privilege_in G r obj p = true <-> exists g, In g G /\ g_object g = obj /\ g_grantee g = r /\ g_priv g = p.
Proof.
  intros. unfold has_privilege_in. rewrite existsb_exists.
  split; intros [g [Hg H]]; exists g; (split; [exact Hg|]); apply matches_spec; exact H.
Qed.

Lemma has_in_app : forall G H r obj p,
  has_privilege_in (G ++ H) r obj p = has_privilege_in G r obj p || has_privilege_in H r obj p.
Proof. intros. unfold has_privilege_in. apply existsb_app. Qed.

(** * removal by a set of (grantee, privilege) pairs on one object *)
Definition in_pairs (KP : list (string * privilege)) (ge : string) (p : privilege) : bool :=
  existsb (fun kq => String.eqb ge (fst kq) && priv_eqb p (snd kq)) KP.

Lemma in_pairs_In : forall KP ge p, in_pairs KP ge p = true <-> In (ge, p) KP.
Proof.
  intros. unfold in_pairs. rewrite existsb_exists. split.
  - intros [[k q] [Hk E]]. cbn in E. apply andb_true_iff in E as [E1 E2].
    apply String.eqb_eq in E1. apply priv_eqb_eq in E2. subst. exact Hk.
  - intro H. exists (ge, p). split; [exact H|]. cbn. rewrite String.eqb_refl, priv_eqb_refl. reflexivity.
Qed.

Lemma in_pairs_app : forall A B ge p, in_pairs (A ++ B) ge p = in_pairs A ge p || in_pairs B ge p.
Proof. intros. unfold in_pairs. apply existsb_app. Qed.

Definition doomed (obj : string) (KP : list (string * privilege)) (g : grant) : bool :=
  String.eqb (g_object g) obj && in_pairs KP (g_grantee g) (g_priv g).

Definition prune (obj : string) (KP : list (string * privilege)) (G : list grant) : list grant :=
  filter (fun g => negb (doomed obj KP g)) G.

Lemma prune_nil : forall obj G, prune obj [] G = G.
Proof.
  intros. unfold prune. induction G as [|g G IH]; cbn; [reflexivity|].
  unfold doomed at 1. cbn. rewrite andb_false_r. cbn. f_equal. exact IH.
Qed.

Lemma filter_filter : forall (A : Type) (f g : A -> bool) l,
  filter f (filter g l) = filter (fun x => g x && f x) l.
Proof.
  intros A f g l. induction l as [|x l IH]; cbn; [reflexivity|].
  destruct (g x); cbn; [destruct (f x); cbn; [f_equal|]|]; exact IH.
Qed.

Lemma doomed_app : forall obj A B g, doomed obj (A ++ B) g = doomed obj A g || doomed obj B g.
Proof.
  intros. unfold doomed. rewrite in_pairs_app.
  destruct (String.eqb (g_object g) obj); reflexivity.
Qed.

Lemma prune_prune : forall obj A B G, prune obj B (prune obj A G) = prune obj (A ++ B) G.
Proof.
  intros. unfold prune. rewrite filter_filter. apply filter_ext. intro g.
  rewrite doomed_app. rewrite negb_orb. reflexivity.
Qed.

Lemma prune_incl : forall obj KP G g, In g (prune obj KP G) -> In g G.
Proof. intros obj KP G g H. unfold prune in H. apply filter_In in H. tauto. Qed.

Lemma prune_In : forall obj KP G g, In g (prune obj KP G) <-> In g G /\ doomed obj KP g = false.
Proof.
  intros. unfold prune. rewrite filter_In. rewrite negb_true_iff. tauto.
Qed.

Lemma prune_length : forall obj KP G, List.length (prune obj KP G) <= List.length G.
Proof.
  intros. unfold prune. induction G as [|g G IH]; cbn; [lia|].
  destruct (negb (doomed obj KP g)); cbn; lia.
Qed.

Lemma remove_full_prune : forall obj ge p G, remove_grants obj ge p false G = prune obj [(ge, p)] G.
Proof.
  intros. unfold remove_grants, prune. apply filter_ext. intro g.
  f_equal. unfold matches, doomed, in_pairs. cbn. rewrite orb_false_r.
  rewrite andb_assoc. reflexivity.
Qed.

Lemma has_in_prune : forall obj KP G r o q,
  has_privilege_in (prune obj KP G) r o q =
  has_privilege_in G r o q && negb (String.eqb o obj && in_pairs KP r q).
Proof.
  intros. unfold has_privilege_in, prune.
  induction G as [|g G IH]; [reflexivity|].
  cbn [filter existsb].
  assert (HM : matches o r q g = true -> doomed obj KP g = String.eqb o obj && in_pairs KP r q).
  { intro M. apply matches_spec in M as [M1 [M2 M3]]. unfold doomed. rewrite M1, M2, M3. reflexivity. }
  destruct (doomed obj KP g) eqn:D; cbn [negb existsb].
  - rewrite IH. destruct (matches o r q g) eqn:M; cbn [orb]; [|reflexivity].
    rewrite <- (HM eq_refl). cbn. rewrite andb_false_r. reflexivity.
  - rewrite IH. destruct (matches o r q g) eqn:M; cbn [orb]; [|reflexivity].
    rewrite <- (HM eq_refl). reflexivity.
Qed.

(** * GRANT OPTION FOR: keys are untouched *)
Lemma key_clear_wgo : forall g, key (clear_wgo g) = key g.
Proof. reflexivity. Qed.

Lemma remove_option_keys : forall obj ge p G, map key (remove_grants obj ge p true G) = map key G.
Proof.
  intros. unfold remove_grants. rewrite map_map. apply map_ext. intro g.
  destruct (matches obj ge p g); reflexivity.
Qed.

Lemma has_in_keys : forall G H r o q, map key G = map key H -> has_privilege_in G r o q = has_privilege_in H r o q.
Proof.
  induction G as [|g G IH]; destruct H as [|h H]; cbn; intros r o q E; try discriminate; [reflexivity|].
  inversion E as [[E1 E2 E3 E4]]. unfold has_privilege_in in *. cbn.
  rewrite (IH H r o q E4). f_equal. unfold matches. rewrite E1, E2, E3. reflexivity.
Qed.

(** edges of the delegation graph ignore the grant-option flag too *)
Definition ekey (g : grant) : string * string * string * privilege := (g_object g, g_grantor g, g_grantee g, g_priv g).

Lemma remove_option_ekeys : forall obj ge p G, map ekey (remove_grants obj ge p true G) = map ekey G.
Proof.
  intros. unfold remove_grants. rewrite map_map. apply map_ext. intro g.
  destruct (matches obj ge p g); reflexivity.
Qed.

Lemma deps_ekeys : forall obj x p G H, map ekey G = map ekey H ->
  map g_grantee (filter (granted_by obj x p) G) = map g_grantee (filter (granted_by obj x p) H).
Proof.
  induction G as [|g G IH]; destruct H as [|h H]; cbn; intro E; try discriminate; [reflexivity|].
  inversion E as [[E1 E2 E3 E4 E5]].
  assert (Eg : granted_by obj x p g = granted_by obj x p h) by (unfold granted_by; rewrite E1, E2, E4; reflexivity).
  rewrite Eg. destruct (granted_by obj x p h); cbn; [rewrite E3; f_equal|]; apply IH; exact E5.
Qed.

Lemma ekeys_keys : forall G H, map ekey G = map ekey H -> map key G = map key H.
Proof.
  induction G as [|g G IH]; destruct H as [|h H]; cbn; intro E; try discriminate; [reflexivity|].
  inversion E as [[E1 E2 E3 E4 E5]]. unfold key at 1 3. rewrite E1, E3, E4. f_equal. apply IH. exact E5.
Qed.

(** * the delegation graph and [revoke_cascade] (plain REVOKE, i.e. [grant_option_only = false]) *)

(** [x] granted [p] on [obj] to [y] *)
Definition edge (obj : string) (G : list grant) (p : privilege) (x y : string) : Prop :=
  exists g, In g G /\ g_object g = obj /\ g_priv g = p /\ g_grantor g = x /\ g_grantee g = y.

(** one or more delegation steps *)
Inductive reach (obj : string) (G : list grant) (p : privilege) (x : string) : string -> Prop :=
| reach_one : forall y, edge obj G p x y -> reach obj G p x y
| reach_step : forall y z, reach obj G p x y -> edge obj G p y z -> reach obj G p x z.

Lemma edge_mono : forall obj G G' p x y, (forall g, In g G' -> In g G) -> edge obj G' p x y -> edge obj G p x y.
Proof. intros obj G G' p x y Hs [g [Hg H]]. exists g. split; [apply Hs; exact Hg | exact H]. Qed.

Lemma reach_mono : forall obj G G' p x y, (forall g, In g G' -> In g G) -> reach obj G' p x y -> reach obj G p x y.
Proof.
  intros obj G G' p x y Hs H. induction H as [y E | y z _ IH E].
  - apply reach_one. eapply edge_mono; eassumption.
  - eapply reach_step; [exact IH | eapply edge_mono; eassumption].
Qed.

Lemma reach_cons : forall obj G p x y z, edge obj G p x y -> reach obj G p y z -> reach obj G p x z.
Proof.
  intros obj G p x y z E H. induction H as [w E' | w v _ IH E'].
  - eapply reach_step; [apply reach_one; exact E | exact E'].
  - eapply reach_step; [exact IH | exact E'].
Qed.

(** no grant on [obj] made by a visited (grantor, privilege) pair is left *)
Definition closed (obj : string) (KP : list (string * privilege)) (G : list grant) : Prop :=
  forall g, In g G -> g_object g = obj -> ~ In (g_grantor g, g_priv g) KP.

Lemma closed_mono : forall obj KP G G', (forall g, In g G' -> In g G) -> closed obj KP G -> closed obj KP G'.
Proof. intros obj KP G G' Hs H g Hg. apply H. apply Hs. exact Hg. Qed.

Lemma closed_app : forall obj A B G, closed obj A G -> closed obj B G -> closed obj (A ++ B) G.
Proof. intros obj A B G HA HB g Hg Ho Hin. apply in_app_or in Hin as [Hin|Hin]; [eapply HA | eapply HB]; eassumption. Qed.

(** postcondition of one [revoke_cascade] call *)
Definition cascade_post (obj : string) (p : privilege) (G : list grant) (x : string) (G' : list grant) : Prop :=
  exists KP, G' = prune obj KP G /\ closed obj ((x, p) :: KP) G' /\
             forall k q, In (k, q) KP -> q = p /\ reach obj G p x k.

Lemma deps_spec : forall obj x p G d,
  In d (map g_grantee (filter (granted_by obj x p) G)) <-> edge obj G p x d.
Proof.
  intros. rewrite in_map_iff. split.
  - intros [g [Hd Hg]]. apply filter_In in Hg as [Hg Hb]. apply granted_by_spec in Hb as [H1 [H2 H3]].
    exists g. tauto.
  - intros [g [Hg [H1 [H2 [H3 H4]]]]]. exists g. split; [exact H4|]. apply filter_In. split; [exact Hg|].
    apply granted_by_spec. tauto.
Qed.

Lemma fold_kill_spec : forall obj p (casc : list grant -> string -> option (list grant)),
  (forall G x G', casc G x = Some G' -> cascade_post obj p G x G') ->
  forall ds G G', fold_opt (kill_then casc obj p false) ds G = Some G' ->
  exists KP, G' = prune obj KP G /\ (forall d, In d ds -> In (d, p) KP) /\ closed obj KP G' /\
             forall k q, In (k, q) KP -> q = p /\ (In k ds \/ exists d, In d ds /\ reach obj G p d k).
Proof.
  intros obj p casc IHc. induction ds as [|d ds IH]; intros G G' H.
  - cbn in H. inversion H; subst. exists []. rewrite prune_nil. repeat split; try (intros; contradiction).
    intros g _ _ F. exact F.
  - cbn in H. destruct (kill_then casc obj p false G d) as [G1|] eqn:E1; [|discriminate].
    unfold kill_then in E1. rewrite remove_full_prune in E1.
    apply IHc in E1 as [KP1 [EG1 [C1 R1]]].
    apply IH in H as [KP2 [EG2 [I2 [C2 R2]]]].
    assert (Sub1 : forall g, In g G1 -> In g G).
    { intros g Hg. subst G1. apply prune_incl in Hg. apply prune_incl in Hg. exact Hg. }
    assert (Sub2 : forall g, In g G' -> In g G1).
    { intros g Hg. subst G'. apply prune_incl in Hg. exact Hg. }
    exists (((d, p) :: KP1) ++ KP2)%list. split; [|split; [|split]].
    + subst G' G1. rewrite !prune_prune. reflexivity.
    + intros d' [Hd|Hd]; [subst; left; reflexivity|]. apply in_or_app. right. apply I2. exact Hd.
    + apply closed_app; [|exact C2]. eapply closed_mono; [exact Sub2 | exact C1].
    + intros k q H. apply in_app_or in H as [[H|H]|H].
      * inversion H; subst. split; [reflexivity|]. left. left. reflexivity.
      * apply R1 in H as [Hq H]. split; [exact Hq|]. right. exists d. split; [left; reflexivity|].
        eapply reach_mono; [|exact H]. intros g Hg. apply prune_incl in Hg. exact Hg.
      * apply R2 in H as [Hq [H|[d' [Hd' H]]]]; (split; [exact Hq|]); [left; right; exact H|].
        right. exists d'. split; [right; exact Hd'|]. eapply reach_mono; [exact Sub1 | exact H].
Qed.

Lemma cascade_spec : forall obj p fuel G x G',
  revoke_cascade fuel obj p false G x = Some G' -> cascade_post obj p G x G'.
Proof.
  intros obj p. induction fuel as [|f IH]; intros G x G' H; [discriminate|].
  cbn in H. apply (fold_kill_spec obj p _ IH) in H as [KP [EG [I [C R]]]].
  exists KP. split; [exact EG|]. split.
  - intros g Hg Ho [Hin|Hin]; [|eapply C; eassumption].
    assert (Hx : g_grantor g = x) by (injection Hin; congruence).
    assert (Hp : g_priv g = p) by (injection Hin; congruence).
    assert (HgG : In g G) by (subst G'; apply prune_incl in Hg; exact Hg).
    assert (Hd : In (g_grantee g, p) KP).
    { apply I. apply deps_spec. exists g. repeat split; assumption. }
    subst G'. apply prune_In in Hg as [_ Hg]. unfold doomed in Hg.
    rewrite Ho, String.eqb_refl in Hg. cbn in Hg. rewrite Hp in Hg.
    apply in_pairs_In in Hd. congruence.
  - intros k q Hk. apply R in Hk as [Hq [Hk|[d [Hd Hk]]]]; (split; [exact Hq|]).
    + apply reach_one. apply deps_spec. exact Hk.
    + eapply reach_cons; [apply deps_spec; exact Hd | exact Hk].
Qed.

(** every pair reachable from a visited pair has been visited *)
Lemma closure_complete : forall obj KP G G',
  G' = prune obj KP G -> closed obj KP G' ->
  forall r q k, In (r, q) KP -> reach obj G q r k -> In (k, q) KP.
Proof.
  intros obj KP G G' EG C r q k Hr H.
  assert (Step : forall y z, In (y, q) KP -> edge obj G q y z -> In (z, q) KP).
  { intros y z Hy [g [Hg [Ho [Hp [Hx Hz]]]]].
    destruct (doomed obj KP g) eqn:D.
    - unfold doomed in D. apply andb_true_iff in D as [_ D]. apply in_pairs_In in D. congruence.
    - exfalso. apply (C g).
      + subst G'. apply prune_In. split; assumption.
      + exact Ho.
      + rewrite Hx, Hp. exact Hy. }
  induction H as [y E | y z _ IH E].
  - eapply Step; eassumption.
  - eapply Step; eassumption.
Qed.

Lemma in_pairs_pairs : forall grantees expanded ge q,
  In (ge, q) (pairs grantees expanded) <-> In ge grantees /\ In q expanded.
Proof.
  intros. unfold pairs. rewrite in_flat_map. split.
  - intros [x [Hx H]]. apply in_map_iff in H as [y [E Hy]]. inversion E; subst. tauto.
  - intros [H1 H2]. exists ge. split; [exact H1|]. apply in_map_iff. exists q. tauto.
Qed.

(** ** the statement's own loops *)
Lemma revoke_fold_plain : forall fuel obj casc prs G G',
  casc <> CCascade ->
  fold_opt (revoke_one fuel obj false casc) prs G = Some G' -> G' = prune obj prs G.
Proof.
  intros fuel obj casc. induction prs as [|[ge p] prs IH]; intros G G' Hc H.
  - cbn in H. inversion H. symmetry. apply prune_nil.
  - destruct casc; try contradiction; cbn [fold_opt revoke_one] in H;
      (apply IH in H; [|exact Hc]); rewrite remove_full_prune in H; rewrite prune_prune in H; exact H.
Qed.

Definition stmt_post (obj : string) (G : list grant) (R : list (string * privilege)) (G' : list grant) : Prop :=
  exists KP, G' = prune obj KP G /\ (forall kq, In kq R -> In kq KP) /\ closed obj KP G' /\
             forall k q, In (k, q) KP -> In (k, q) R \/ exists r, In (r, q) R /\ reach obj G q r k.

Lemma revoke_fold_cascade : forall fuel obj prs G G',
  fold_opt (revoke_one fuel obj false CCascade) prs G = Some G' -> stmt_post obj G prs G'.
Proof.
  intros fuel obj. induction prs as [|[ge p] prs IH]; intros G G' H.
  - cbn in H. inversion H; subst. exists []. rewrite prune_nil. repeat split; try (intros; contradiction).
    intros g _ _ F. exact F.
  - cbn [fold_opt revoke_one] in H.
    destruct (kill_then (revoke_cascade fuel obj p false) obj p false G ge) as [G1|] eqn:E1; [|discriminate].
    unfold kill_then in E1. rewrite remove_full_prune in E1.
    apply cascade_spec in E1 as [KP1 [EG1 [C1 R1]]].
    apply IH in H as [KP2 [EG2 [I2 [C2 R2]]]].
    assert (Sub1 : forall g, In g G1 -> In g G).
    { intros g Hg. subst G1. apply prune_incl in Hg. apply prune_incl in Hg. exact Hg. }
    assert (Sub2 : forall g, In g G' -> In g G1).
    { intros g Hg. subst G'. apply prune_incl in Hg. exact Hg. }
    exists (((ge, p) :: KP1) ++ KP2)%list. split; [|split; [|split]].
    + subst G' G1. rewrite !prune_prune. reflexivity.
    + intros kq [Hd|Hd]; [subst; left; reflexivity|]. apply in_or_app. right. apply I2. exact Hd.
    + apply closed_app; [|exact C2]. eapply closed_mono; [exact Sub2 | exact C1].
    + intros k q H. apply in_app_or in H as [[H|H]|H].
      * inversion H; subst. left. left. reflexivity.
      * apply R1 in H as [Hq H]. subst q. right. exists ge. split; [left; reflexivity|].
        eapply reach_mono; [|exact H]. intros g Hg. apply prune_incl in Hg. exact Hg.
      * apply R2 in H as [H|[r [Hr H]]]; [left; right; exact H|].
        right. exists r. split; [right; exact Hr|]. eapply reach_mono; [exact Sub1 | exact H].
Qed.

(** which (role, privilege) pairs a successful plain REVOKE on [obj] removes: the listed grantees, and under
    CASCADE everything that received the privilege from them through a chain of grants *)
Definition revoke_hits (obj : string) (G : list grant) (grantees : list string) (expanded : list privilege)
           (casc : cascade_opt) (r : string) (q : privilege) : Prop :=
  In q expanded /\ exists ge, In ge grantees /\ (r = ge \/ (casc = CCascade /\ reach obj G q ge r)).

Lemma revoke_fold_has : forall fuel obj casc grantees expanded G G',
  fold_opt (revoke_one fuel obj false casc) (pairs grantees expanded) G = Some G' ->
  forall r o q, has_privilege_in G' r o q = true <->
                has_privilege_in G r o q = true /\ ~ (o = obj /\ revoke_hits obj G grantees expanded casc r q).
Proof.
  intros fuel obj casc grantees expanded G G' H r o q.
  destruct casc.
  - apply revoke_fold_plain in H; [|discriminate]. subst G'. rewrite has_in_prune.
    rewrite andb_true_iff, negb_true_iff, andb_false_iff. split; intros [H1 H2]; (split; [exact H1|]).
    + intros [Ho [Hq [ge [Hge [Hr|[Hc _]]]]]]; [|discriminate]. subst.
      destruct H2 as [H2|H2]; [rewrite String.eqb_refl in H2; discriminate|].
      assert (HI : In (ge, q) (pairs grantees expanded)) by (apply in_pairs_pairs; tauto).
      apply in_pairs_In in HI. congruence.
    + destruct (String.eqb o obj) eqn:Eo; [|left; reflexivity]. right. apply String.eqb_eq in Eo.
      destruct (in_pairs (pairs grantees expanded) r q) eqn:EI; [|reflexivity]. exfalso. apply H2.
      apply in_pairs_In, in_pairs_pairs in EI as [E1 E2]. split; [exact Eo|]. split; [exact E2|].
      exists r. split; [exact E1|]. left. reflexivity.
  - apply revoke_fold_cascade in H as [KP [EG [I [C R]]]]. rewrite EG, has_in_prune.
    rewrite andb_true_iff, negb_true_iff, andb_false_iff. split; intros [H1 H2]; (split; [exact H1|]).
    + intros [Ho [Hq [ge [Hge Hr]]]]. subst o.
      destruct H2 as [H2|H2]; [rewrite String.eqb_refl in H2; discriminate|].
      assert (HI : In (ge, q) KP) by (apply I, in_pairs_pairs; tauto).
      assert (HK : In (r, q) KP).
      { destruct Hr as [Hr|[_ Hr]]; [subst; exact HI|]. eapply closure_complete; eassumption. }
      apply in_pairs_In in HK. congruence.
    + destruct (String.eqb o obj) eqn:Eo; [|left; reflexivity]. right. apply String.eqb_eq in Eo.
      destruct (in_pairs KP r q) eqn:EI; [|reflexivity]. exfalso. apply H2. split; [exact Eo|].
      apply in_pairs_In in EI. apply R in EI as [EI|[ge [Hge Hr]]].
      * apply in_pairs_pairs in EI as [E1 E2]. split; [exact E2|]. exists r. split; [exact E1|]. left. reflexivity.
      * apply in_pairs_pairs in Hge as [E1 E2]. split; [exact E2|]. exists ge. split; [exact E1|]. right. split; [reflexivity|exact Hr].
  - apply revoke_fold_plain in H; [|discriminate]. subst G'. rewrite has_in_prune.
    rewrite andb_true_iff, negb_true_iff, andb_false_iff. split; intros [H1 H2]; (split; [exact H1|]).
    + intros [Ho [Hq [ge [Hge [Hr|[Hc _]]]]]]; [|discriminate]. subst.
      destruct H2 as [H2|H2]; [rewrite String.eqb_refl in H2; discriminate|].
      assert (HI : In (ge, q) (pairs grantees expanded)) by (apply in_pairs_pairs; tauto).
      apply in_pairs_In in HI. congruence.
    + destruct (String.eqb o obj) eqn:Eo; [|left; reflexivity]. right. apply String.eqb_eq in Eo.
      destruct (in_pairs (pairs grantees expanded) r q) eqn:EI; [|reflexivity]. exfalso. apply H2.
      apply in_pairs_In, in_pairs_pairs in EI as [E1 E2]. split; [exact Eo|]. split; [exact E2|].
      exists r. split; [exact E1|]. left. reflexivity.
Qed.

(** ** REVOKE GRANT OPTION FOR never changes who holds what (when it returns at all) *)
Lemma fold_kill_option_ekeys : forall obj p (casc : list grant -> string -> option (list grant)),
  (forall G x G', casc G x = Some G' -> map ekey G' = map ekey G) ->
  forall ds G G', fold_opt (kill_then casc obj p true) ds G = Some G' -> map ekey G' = map ekey G.
Proof.
  intros obj p casc IHc. induction ds as [|d ds IH]; intros G G' H.
  - cbn in H. inversion H. reflexivity.
  - cbn [fold_opt] in H. destruct (kill_then casc obj p true G d) as [G1|] eqn:E1; [|discriminate].
    unfold kill_then in E1. apply IHc in E1. apply IH in H. rewrite H, E1. apply remove_option_ekeys.
Qed.

Lemma cascade_option_ekeys : forall obj p fuel G x G',
  revoke_cascade fuel obj p true G x = Some G' -> map ekey G' = map ekey G.
Proof.
  intros obj p. induction fuel as [|f IH]; intros G x G' H; [discriminate|].
  cbn [revoke_cascade] in H. eapply fold_kill_option_ekeys; [exact IH | exact H].
Qed.

Lemma revoke_fold_option_ekeys : forall fuel obj casc prs G G',
  fold_opt (revoke_one fuel obj true casc) prs G = Some G' -> map ekey G' = map ekey G.
Proof.
  intros fuel obj casc. induction prs as [|[ge p] prs IH]; intros G G' H.
  - cbn in H. inversion H. reflexivity.
  - destruct casc; cbn [fold_opt revoke_one] in H.
    + apply IH in H. rewrite H. apply remove_option_ekeys.
    + destruct (kill_then (revoke_cascade fuel obj p true) obj p true G ge) as [G1|] eqn:E1; [|discriminate].
      unfold kill_then in E1. apply cascade_option_ekeys in E1. apply IH in H. rewrite H, E1. apply remove_option_ekeys.
    + apply IH in H. rewrite H. apply remove_option_ekeys.
Qed.

(** * one step of the state machine *)

Lemma step_fail_unchanged : forall s o, snd (step s o) <> ROk -> fst (step s o) = s.
Proof.
  intros s o H. destruct o; cbn in *; try congruence.
  - unfold exec_create_role in *. destruct (role_exists s r); cbn in *; congruence.
  - unfold exec_drop_role in *. destruct (role_exists s r); cbn in *; congruence.
  - unfold exec_grant in *. destruct (grant_object_check s privs ot obj); [|reflexivity].
    destruct (all_roles_exist s grantees); cbn in *; congruence.
  - unfold exec_revoke in *. destruct (revoke_object_check s ot obj); [reflexivity|].
    destruct (negb (all_roles_exist s grantees)); [reflexivity|].
    destruct (_ && _); [reflexivity|].
    destruct (fold_opt _ _ _); cbn in *; congruence.
Qed.

(** what a successful GRANT adds *)
Definition grant_adds (s : state) (privs : list privilege) (ot : objtype) (obj : string) (grantees : list string)
           (r o : string) (q : privilege) : Prop :=
  o = obj /\ In r grantees /\ exists actual, grant_object_check s privs ot obj = inl actual /\ In q (expand privs actual).

Lemma has_in_new_grants : forall obj ot expanded grantees grantor wgo r o q,
  has_privilege_in (new_grants obj ot expanded grantees grantor wgo) r o q = true <->
  o = obj /\ In r grantees /\ In q expanded.
Proof.
  intros. rewrite has_in_spec. unfold new_grants. split.
  - intros [g [Hg [H1 [H2 H3]]]]. apply in_flat_map in Hg as [ge [Hge Hg]].
    apply in_map_iff in Hg as [p [E Hp]]. subst g. cbn in *. subst. tauto.
  - intros [H1 [H2 H3]]. exists (mkGrant obj ot q r grantor wgo). split; [|cbn; repeat split; congruence].
    apply in_flat_map. exists r. split; [exact H2|]. apply in_map_iff. exists q. tauto.
Qed.

Theorem exec_grant_has : forall s privs ot obj grantees wgo s',
  exec_grant s privs ot obj grantees wgo = (s', ROk) ->
  forall r o q, has_privilege s' r o q = true <->
                has_privilege s r o q = true \/ grant_adds s privs ot obj grantees r o q.
Proof.
  intros s privs ot obj grantees wgo s' H r o q. unfold exec_grant in H. unfold grant_adds.
  destruct (grant_object_check s privs ot obj) as [actual|e] eqn:EC; [|inversion H].
  destruct (all_roles_exist s grantees); [|inversion H]. inversion H; subst s'. clear H.
  unfold has_privilege. cbn [st_grants set_grants]. rewrite has_in_app, orb_true_iff, has_in_new_grants.
  split; (intros [H|H]; [left; exact H|right]).
  - destruct H as [H1 [H2 H3]]. split; [exact H1|]. split; [exact H2|]. exists actual. tauto.
  - destruct H as [H1 [H2 [a [Ha H3]]]]. inversion Ha; subst a. tauto.
Qed.

Theorem exec_revoke_has : forall s gof privs ot obj grantees casc s',
  exec_revoke s gof privs ot obj grantees casc = (s', ROk) ->
  forall r o q, has_privilege s' r o q = true <->
                has_privilege s r o q = true /\
                ~ (gof = false /\ o = obj /\ revoke_hits obj (st_grants s) grantees (expand privs ot) casc r q).
Proof.
  intros s gof privs ot obj grantees casc s' H r o q. unfold exec_revoke in H.
  destruct (revoke_object_check s ot obj); [inversion H|].
  destruct (negb (all_roles_exist s grantees)); [inversion H|].
  destruct (_ && _); [inversion H|].
  destruct (fold_opt _ _ _) as [G'|] eqn:EF; [|inversion H]. inversion H; subst s'. clear H.
  unfold has_privilege. cbn [st_grants set_grants].
  destruct gof.
  - apply revoke_fold_option_ekeys in EF. apply ekeys_keys in EF.
    rewrite (has_in_keys _ _ r o q EF). split; [intro H; split; [exact H | intros [F _]; discriminate] | tauto].
  - rewrite (revoke_fold_has _ _ _ _ _ _ _ EF r o q). split; intros [H1 H2]; (split; [exact H1|]); tauto.
Qed.

(** [Grants s o r obj q]: executed in state [s], operation [o] succeeds and gives [r] the privilege [q] on [obj].
    [Kills s o r obj q]: executed in state [s], operation [o] succeeds and takes [q] on [obj] away from [r]:
    a REVOKE without GRANT OPTION FOR, on the same object string, whose (expanded) privilege list contains
    [q] (compared with derive(PartialEq): the column list is part of the privilege), naming [r] or - with
    CASCADE - a grantee from which [r] is reachable along grants of [q] on [obj] (grantor -> grantee edges of
    the table as it is when the REVOKE starts). *)
Definition Grants (s : state) (o : op) (r obj : string) (q : privilege) : Prop :=
  snd (step s o) = ROk /\
  match o with
  | OGrant privs ot ob grantees _ => grant_adds s privs ot ob grantees r obj q
  | _ => False
  end.

Definition Kills (s : state) (o : op) (r obj : string) (q : privilege) : Prop :=
  snd (step s o) = ROk /\
  match o with
  | ORevoke gof privs ot ob grantees casc =>
      gof = false /\ obj = ob /\ revoke_hits ob (st_grants s) grantees (expand privs ot) casc r q
  | _ => False
  end.

Lemma pair_eta : forall (A B : Type) (x : A * B), x = (fst x, snd x).
Proof. intros A B [a b]. reflexivity. Qed.

Theorem one_step : forall s o r obj q,
  has_privilege (fst (step s o)) r obj q = true <->
  Grants s o r obj q \/ (has_privilege s r obj q = true /\ ~ Kills s o r obj q).
Proof.
  intros s o r obj q.
  destruct (snd (step s o)) eqn:ER.
  2,3: (rewrite step_fail_unchanged by congruence; unfold Grants, Kills; rewrite ER; split;
        [intro H; right; split; [exact H | intros [F _]; discriminate] | intros [[F _]|[H _]]; [discriminate | exact H]]).
  destruct o.
  1,2,5,6,7,8,9:
    (unfold Grants, Kills; cbn in *;
     match goal with
     | |- context [exec_create_role ?s ?r] => unfold exec_create_role in *; destruct (role_exists s r)
     | |- context [exec_drop_role ?s ?r] => unfold exec_drop_role in *; destruct (role_exists s r)
     | |- context [table_exists ?s ?t] => destruct (table_exists s t)
     | _ => idtac
     end; cbn in *; unfold has_privilege; cbn; tauto).
  - pose proof (exec_grant_has s privs ot obj0 grantees wgo (fst (step s (OGrant privs ot obj0 grantees wgo)))) as HG.
    cbn [step] in *. rewrite (pair_eta _ _ (exec_grant s privs ot obj0 grantees wgo)) in HG at 1. rewrite ER in HG.
    specialize (HG eq_refl r obj q). rewrite HG. unfold Grants, Kills. cbn [step]. rewrite ER. tauto.
  - pose proof (exec_revoke_has s gof privs ot obj0 grantees casc (fst (step s (ORevoke gof privs ot obj0 grantees casc)))) as HR.
    cbn [step] in *. rewrite (pair_eta _ _ (exec_revoke s gof privs ot obj0 grantees casc)) in HR at 1. rewrite ER in HR.
    specialize (HR eq_refl r obj q). rewrite HR. unfold Grants, Kills. cbn [step]. rewrite ER. tauto.
Qed.

(** * histories *)
Lemma exec_app : forall h1 h2 s, exec s (h1 ++ h2) = exec (exec s h1) h2.
Proof. induction h1 as [|o h1 IH]; intros h2 s; cbn; [reflexivity | apply IH]. Qed.

Lemma exec_snoc : forall h o s, exec s (h ++ [o]) = fst (step (exec s h) o).
Proof. intros. rewrite exec_app. reflexivity. Qed.

Lemma snoc_decomp : forall (A : Type) (t a b : list A) (x o : A),
  (t ++ [x] = a ++ o :: b)%list ->
  (b = [] /\ a = t /\ o = x) \/ (exists b', b = (b' ++ [x])%list /\ t = (a ++ o :: b')%list).
Proof.
  intros A t a b x o H. destruct b as [|y b] using rev_ind.
  - left. apply app_inj_tail in H as [H1 H2]. subst. tauto.
  - right. clear IHb. exists b. 
    assert (E : (a ++ o :: b ++ [y] = (a ++ o :: b) ++ [y])%list) by (rewrite <- app_assoc; reflexivity).
    rewrite E in H. apply app_inj_tail in H as [H1 H2]. subst. tauto.
Qed.

(** no operation of [post], executed after [pre] (both starting from [s]), takes [q] on [obj] away from [r] *)
Definition no_later_kill (s : state) (pre post : list op) (r obj : string) (q : privilege) : Prop :=
  forall a o b, post = (a ++ o :: b)%list -> ~ Kills (exec s (pre ++ a)) o r obj q.

Lemma nlk_nil : forall s pre r obj q, no_later_kill s pre [] r obj q.
Proof. intros s pre r obj q a o b H. destruct a; discriminate. Qed.

Lemma nlk_snoc : forall s pre post x r obj q,
  no_later_kill s pre (post ++ [x]) r obj q <->
  no_later_kill s pre post r obj q /\ ~ Kills (exec s (pre ++ post)) x r obj q.
Proof.
  intros s pre post x r obj q. split.
  - intro H. split.
    + intros a o b E. apply (H a o (b ++ [x])%list). rewrite E. rewrite <- app_assoc. reflexivity.
    + apply (H post x []). reflexivity.
  - intros [H1 H2] a o b E. apply snoc_decomp in E as [[Eb [Ea Eo]]|[b' [Eb Et]]].
    + subst. exact H2.
    + eapply H1. exact Et.
Qed.

(** C26 privilege_history: a role holds a privilege after a history iff it held it initially and nothing
    took it away, or some GRANT in the history gave it and no later REVOKE took it away. *)
Theorem privilege_history : forall h s r obj q,
  has_privilege (exec s h) r obj q = true <->
  (has_privilege s r obj q = true /\ no_later_kill s [] h r obj q) \/
  (exists h1 o h2, h = (h1 ++ o :: h2)%list /\ Grants (exec s h1) o r obj q /\
                   no_later_kill s (h1 ++ [o]) h2 r obj q).
Proof.
  induction h as [|x t IH] using rev_ind; intros s r obj q.
  - cbn [exec]. split.
    + intro H. left. split; [exact H | apply nlk_nil].
    + intros [[H _]|[h1 [o [h2 [E _]]]]]; [exact H | destruct h1; discriminate].
  - rewrite exec_snoc, one_step, IH. split.
    + intros [HG|[[[H0 HN]|[h1 [o [h2 [E [HG HN]]]]]] HK]].
      * right. exists t, x, []. split; [reflexivity|]. split; [exact HG | apply nlk_nil].
      * left. split; [exact H0|]. apply nlk_snoc. split; [exact HN | exact HK].
      * right. exists h1, o, (h2 ++ [x])%list. split; [subst t; rewrite <- app_assoc; reflexivity|].
        split; [exact HG|]. apply nlk_snoc. split; [exact HN|].
        assert (Et : ((h1 ++ [o]) ++ h2 = t)%list) by (subst t; rewrite <- app_assoc; reflexivity).
        rewrite Et. exact HK.
    + intros [[H0 HN]|[h1 [o [h2 [E [HG HN]]]]]].
      * apply nlk_snoc in HN as [HN HK]. right. split; [left; split; assumption | exact HK].
      * apply snoc_decomp in E as [[Eb [Ea Eo]]|[b' [Eb Et]]].
        -- subst. left. exact HG.
        -- subst h2. apply nlk_snoc in HN as [HN HK]. right. split.
           ++ right. exists h1, o, b'. split; [exact Et|]. split; assumption.
           ++ assert (E2 : ((h1 ++ [o]) ++ b' = t)%list) by (subst t; rewrite <- app_assoc; reflexivity).
              rewrite E2 in HK. exact HK.
Qed.

(** starting without grants ([Database::new()]): exactly "a GRANT with no later matching REVOKE" *)
Corollary privilege_history_fresh : forall h s r obj q,
  st_grants s = [] ->
  (has_privilege (exec s h) r obj q = true <->
   exists h1 o h2, h = (h1 ++ o :: h2)%list /\ Grants (exec s h1) o r obj q /\
                   no_later_kill s (h1 ++ [o]) h2 r obj q).
Proof.
  intros h s r obj q E. rewrite privilege_history. split.
  - intros [[H _]|H]; [|exact H]. unfold has_privilege in H. rewrite E in H. discriminate.
  - intro H. right. exact H.
Qed.

(** * the permission check *)
Lemma check_security_off : forall s obj p, st_security s = false -> check_privilege s obj p = true.
Proof. intros s obj p H. unfold check_privilege. rewrite H. reflexivity. Qed.

Lemma check_admin : forall s obj p, is_admin (current_role s) = true -> check_privilege s obj p = true.
Proof. intros s obj p H. unfold check_privilege. rewrite H. destruct (negb (st_security s)); reflexivity. Qed.

Lemma check_spec : forall s obj p,
  st_security s = true -> is_admin (current_role s) = false ->
  check_privilege s obj p = has_privilege s (current_role s) obj p.
Proof. intros s obj p H1 H2. unfold check_privilege. rewrite H1, H2. reflexivity. Qed.

(** a denied check is an error and leaves the state alone *)
Theorem check_denied_changes_nothing : forall s k obj,
  check_privilege s obj (kind_priv k) = false -> step s (OCheck k obj) = (s, RErr EPermissionDenied).
Proof. intros s k obj H. cbn. rewrite H. reflexivity. Qed.

(** a check never changes the state, whatever its answer *)
Lemma check_pure : forall s k obj, fst (step s (OCheck k obj)) = s.
Proof. reflexivity. Qed.

(** C26 revoke_then_denied *)
Theorem revoke_then_not_held : forall s privs ot obj grantees casc s' r q,
  exec_revoke s false privs ot obj grantees casc = (s', ROk) ->
  In r grantees -> In q (expand privs ot) -> has_privilege s' r obj q = false.
Proof.
  intros s privs ot obj grantees casc s' r q H Hr Hq.
  destruct (has_privilege s' r obj q) eqn:E; [|reflexivity]. exfalso.
  apply (exec_revoke_has _ _ _ _ _ _ _ _ H r obj q) in E as [_ E]. apply E.
  split; [reflexivity|]. split; [reflexivity|]. split; [exact Hq|]. exists r. split; [exact Hr|]. left. reflexivity.
Qed.

Lemma exec_revoke_session : forall s gof privs ot obj grantees casc s',
  exec_revoke s gof privs ot obj grantees casc = (s', ROk) ->
  st_security s' = st_security s /\ st_role s' = st_role s.
Proof.
  intros s gof privs ot obj grantees casc s' H. unfold exec_revoke in H.
  destruct (revoke_object_check s ot obj); [inversion H|].
  destruct (negb (all_roles_exist s grantees)); [inversion H|].
  destruct (_ && _); [inversion H|].
  destruct (fold_opt _ _ _); inversion H; subst. split; reflexivity.
Qed.

Theorem revoke_then_denied : forall s privs ot obj grantees casc s' r k,
  exec_revoke s false privs ot obj grantees casc = (s', ROk) ->
  In r grantees -> In (kind_priv k) (expand privs ot) -> is_admin r = false ->
  forall s'', s'' = set_security (set_role s' (Some r)) true ->
  step s'' (OCheck k obj) = (s'', RErr EPermissionDenied).
Proof.
  intros s privs ot obj grantees casc s' r k H Hr Hq Ha s'' Es.
  apply check_denied_changes_nothing. rewrite check_spec; subst s''; [|reflexivity|exact Ha].
  cbn [current_role st_role set_security set_role]. unfold has_privilege. cbn [st_grants set_security set_role].
  apply (revoke_then_not_held _ _ _ _ _ _ _ _ _ H Hr Hq).
Qed.

(** * no GRANT, no gain *)
Definition is_grant (o : op) : bool := match o with OGrant _ _ _ _ _ => true | _ => false end.

Theorem no_grant_no_gain : forall h s r obj q,
  forallb (fun o => negb (is_grant o)) h = true ->
  has_privilege (exec s h) r obj q = true -> has_privilege s r obj q = true.
Proof.
  intros h s r obj q Hn H. apply privilege_history in H as [[H _]|[h1 [o [h2 [E [[_ HG] _]]]]]]; [exact H|].
  exfalso. rewrite forallb_forall in Hn. assert (Ho : In o h) by (subst h; apply in_or_app; right; left; reflexivity).
  apply Hn in Ho. destruct o; cbn in Ho; try discriminate; contradiction.
Qed.

(** * GRANT asks for no authority: its outcome does not depend on the session role or on the security flag *)
Theorem grant_ignores_session : forall s role sec privs ot obj grantees wgo,
  snd (exec_grant (set_security (set_role s role) sec) privs ot obj grantees wgo) =
  snd (exec_grant s privs ot obj grantees wgo) /\
  forall r o q,
    has_privilege (fst (exec_grant (set_security (set_role s role) sec) privs ot obj grantees wgo)) r o q =
    has_privilege (fst (exec_grant s privs ot obj grantees wgo)) r o q.
Proof.
  intros. unfold exec_grant.
  assert (E1 : grant_object_check (set_security (set_role s role) sec) privs ot obj = grant_object_check s privs ot obj) by reflexivity.
  assert (E2 : all_roles_exist (set_security (set_role s role) sec) grantees = all_roles_exist s grantees) by reflexivity.
  rewrite E1, E2. destruct (grant_object_check s privs ot obj) as [a|e]; [|split; reflexivity].
  destruct (all_roles_exist s grantees); [|split; reflexivity]. split; [reflexivity|].
  intros r o q. unfold has_privilege. cbn [st_grants set_grants set_security set_role fst].
  rewrite !has_in_app. f_equal.
  destruct (has_privilege_in (new_grants obj a (expand privs a) grantees _ wgo) r o q) eqn:EA;
  destruct (has_privilege_in (new_grants obj a (expand privs a) grantees (current_role s) wgo) r o q) eqn:EB; try reflexivity.
  - apply has_in_new_grants in EA.
    apply (proj2 (has_in_new_grants obj a (expand privs a) grantees (current_role s) wgo r o q)) in EA. congruence.
  - apply has_in_new_grants in EB.
    apply (proj2 (has_in_new_grants obj a (expand privs a) grantees (current_role (set_security (set_role s role) sec)) wgo r o q)) in EB.
    congruence.
Qed.

(** the session of a role that holds nothing: one GRANT to itself and the check passes *)
Definition esc_state : state :=
  mkState [] ["R1"] ["T"] ["public"] true (Some "R1").

Theorem self_grant_escalates :
  check_privilege esc_state "T" (PSelect None) = false /\
  is_admin (current_role esc_state) = false /\
  let s' := fst (step esc_state (OGrant [PSelect None] OTable "T" ["R1"] false)) in
  snd (step esc_state (OGrant [PSelect None] OTable "T" ["R1"] false)) = ROk /\
  check_privilege s' "T" (PSelect None) = true.
Proof. vm_compute. repeat split. Qed.

(** * CASCADE terminates for a plain REVOKE *)
Lemma filter_length_lt : forall (A : Type) (f : A -> bool) l x, In x l -> f x = false -> List.length (filter f l) < List.length l.
Proof.
  intros A f l x. induction l as [|y l IH]; intros Hin Hf; [contradiction|].
  cbn. destruct Hin as [E|Hin].
  - subst y. rewrite Hf. assert (L : List.length (filter f l) <= List.length l).
    { clear. induction l as [|z l IH]; cbn; [lia|]. destruct (f z); cbn; lia. }
    lia.
  - specialize (IH Hin Hf). destruct (f y); cbn; lia.
Qed.

Lemma remove_full_length : forall obj d p G, List.length (remove_grants obj d p false G) <= List.length G.
Proof. intros. rewrite remove_full_prune. apply prune_length. Qed.

Lemma fold_kill_terminates : forall obj p f (casc : list grant -> string -> option (list grant)),
  (forall G x, List.length G < f -> exists G', casc G x = Some G' /\ List.length G' <= List.length G) ->
  forall ds G, List.length G < f ->
  exists G', fold_opt (kill_then casc obj p false) ds G = Some G' /\ List.length G' <= List.length G.
Proof.
  intros obj p f casc IHc. induction ds as [|d ds IH]; intros G HL.
  - exists G. split; [reflexivity | lia].
  - cbn [fold_opt]. unfold kill_then at 1.
    pose proof (remove_full_length obj d p G) as L1.
    destruct (IHc (remove_grants obj d p false G) d) as [G1 [E1 L2]]; [lia|].
    rewrite E1. destruct (IH G1) as [G' [E' L3]]; [lia|]. exists G'. split; [exact E' | lia].
Qed.

Theorem cascade_terminates : forall obj p f G x,
  List.length G < f -> exists G', revoke_cascade f obj p false G x = Some G' /\ List.length G' <= List.length G.
Proof.
  intros obj p. induction f as [|f IH]; intros G x HL; [lia|].
  cbn [revoke_cascade].
  destruct (map g_grantee (filter (granted_by obj x p) G)) as [|d ds] eqn:ED.
  - exists G. split; [reflexivity | lia].
  - cbn [fold_opt]. unfold kill_then at 1.
    assert (Hd : In d (map g_grantee (filter (granted_by obj x p) G))) by (rewrite ED; left; reflexivity).
    apply deps_spec in Hd as [g [Hg [Ho [Hp [Hx Hy]]]]].
    assert (L1 : List.length (remove_grants obj d p false G) < List.length G).
    { unfold remove_grants. eapply filter_length_lt; [exact Hg|]. apply negb_false_iff. apply matches_spec. tauto. }
    destruct (IH (remove_grants obj d p false G) d) as [G1 [E1 L2]]; [lia|].
    rewrite E1. destruct (fold_kill_terminates obj p f _ IH ds G1) as [G' [E' L3]]; [lia|].
    exists G'. split; [exact E' | lia].
Qed.

Lemma revoke_fold_terminates : forall fuel obj casc prs G,
  List.length G < fuel ->
  exists G', fold_opt (revoke_one fuel obj false casc) prs G = Some G' /\ List.length G' <= List.length G.
Proof.
  intros fuel obj casc. induction prs as [|[ge p] prs IH]; intros G HL.
  - exists G. split; [reflexivity | lia].
  - pose proof (remove_full_length obj ge p G) as L1.
    destruct casc; cbn [fold_opt revoke_one].
    + destruct (IH (remove_grants obj ge p false G)) as [G' [E L]]; [lia|]. exists G'. split; [exact E | lia].
    + unfold kill_then.
      destruct (cascade_terminates obj p fuel (remove_grants obj ge p false G) ge) as [G1 [E1 L2]]; [lia|].
      rewrite E1. destruct (IH G1) as [G' [E L]]; [lia|]. exists G'. split; [exact E | lia].
    + destruct (IH (remove_grants obj ge p false G)) as [G' [E L]]; [lia|]. exists G'. split; [exact E | lia].
Qed.

(** a REVOKE without GRANT OPTION FOR never overflows the stack (with the model's budget [cascade_fuel]) *)
Theorem revoke_plain_never_crashes : forall s privs ot obj grantees casc,
  snd (exec_revoke s false privs ot obj grantees casc) <> RCrash.
Proof.
  intros. unfold exec_revoke.
  destruct (revoke_object_check s ot obj); [discriminate|].
  destruct (negb (all_roles_exist s grantees)); [discriminate|].
  destruct (_ && _); [discriminate|].
  destruct (revoke_fold_terminates (cascade_fuel (st_grants s)) obj casc (pairs grantees (expand privs ot)) (st_grants s)) as [G' [E _]].
  - unfold cascade_fuel. lia.
  - rewrite E. discriminate.
Qed.

(** more fuel never changes a result *)
Lemma fold_opt_ext_some : forall (A B : Type) (f g : B -> A -> option B),
  (forall b x b', f b x = Some b' -> g b x = Some b') ->
  forall l b b', fold_opt f l b = Some b' -> fold_opt g l b = Some b'.
Proof.
  intros A B f g H. induction l as [|x l IH]; intros b b' E; [exact E|].
  cbn in *. destruct (f b x) as [b1|] eqn:E1; [|discriminate]. rewrite (H _ _ _ E1). apply IH. exact E.
Qed.

Theorem cascade_fuel_mono : forall obj p gof f G x G',
  revoke_cascade f obj p gof G x = Some G' -> revoke_cascade (S f) obj p gof G x = Some G'.
Proof.
  intros obj p gof. induction f as [|f IH]; intros G x G' H; [discriminate|].
  cbn [revoke_cascade] in H. change (revoke_cascade (S (S f)) obj p gof G x) with
    (fold_opt (kill_then (revoke_cascade (S f) obj p gof) obj p gof) (map g_grantee (filter (granted_by obj x p) G)) G).
  eapply fold_opt_ext_some; [|exact H]. intros b d b' E. unfold kill_then in *. apply IH. exact E.
Qed.

(** * REVOKE GRANT OPTION FOR ... CASCADE on a delegation cycle never returns *)
Lemma edge_ekey : forall obj G p x y, edge obj G p x y <-> In (obj, x, y, p) (map ekey G).
Proof.
  intros. rewrite in_map_iff. unfold edge, ekey. split.
  - intros [g [Hg [H1 [H2 [H3 H4]]]]]. exists g. split; [congruence | exact Hg].
  - intros [g [E Hg]]. exists g. inversion E. tauto.
Qed.

Lemma reach_ekeys : forall obj G H p x y, map ekey G = map ekey H -> reach obj G p x y -> reach obj H p x y.
Proof.
  intros obj G H p x y E R. induction R as [y Ed | y z _ IH Ed].
  - apply reach_one. apply edge_ekey. rewrite <- E. apply edge_ekey. exact Ed.
  - eapply reach_step; [exact IH|]. apply edge_ekey. rewrite <- E. apply edge_ekey. exact Ed.
Qed.

Lemma reach_first : forall obj G p x z, reach obj G p x z -> exists y, edge obj G p x y /\ (y = z \/ reach obj G p y z).
Proof.
  intros obj G p x z R. induction R as [y Ed | y z _ [w [Ew IH]] Ed].
  - exists y. split; [exact Ed | left; reflexivity].
  - exists w. split; [exact Ew|]. right. destruct IH as [IH|IH].
    + subst w. apply reach_one. exact Ed.
    + eapply reach_step; eassumption.
Qed.

Lemma fold_kill_none : forall obj p (casc : list grant -> string -> option (list grant)) y,
  (forall G1 d G2, casc G1 d = Some G2 -> map ekey G2 = map ekey G1) ->
  forall ds G, In y ds ->
  (forall G'', map ekey G'' = map ekey G -> casc G'' y = None) ->
  fold_opt (kill_then casc obj p true) ds G = None.
Proof.
  intros obj p casc y Hk. induction ds as [|d ds IH]; intros G Hin Hy; [contradiction|].
  cbn [fold_opt]. destruct (kill_then casc obj p true G d) as [G1|] eqn:E1; [|reflexivity].
  unfold kill_then in E1. destruct Hin as [Hd|Hin].
  - subst d. rewrite Hy in E1; [discriminate | apply remove_option_ekeys].
  - apply Hk in E1. apply IH; [exact Hin|]. intros G'' E. apply Hy. rewrite E, E1. apply remove_option_ekeys.
Qed.

Theorem cascade_option_cycle_diverges : forall obj p fuel G x,
  reach obj G p x x -> revoke_cascade fuel obj p true G x = None.
Proof.
  intros obj p. induction fuel as [|f IH]; intros G x R; [reflexivity|].
  cbn [revoke_cascade]. destruct (reach_first _ _ _ _ _ R) as [y [Ey Hy]].
  assert (Ry : reach obj G p y y).
  { destruct Hy as [Hy|Hy]; [subst y; exact R | eapply reach_step; eassumption]. }
  eapply (fold_kill_none obj p _ y).
  - intros G1 d G2. apply cascade_option_ekeys.
  - apply deps_spec. exact Ey.
  - intros G'' E. apply IH. eapply reach_ekeys; [symmetry; exact E | exact Ry].
Qed.

Lemma revoke_fold_none : forall fuel obj prs G ge p,
  In (ge, p) prs -> reach obj G p ge ge ->
  fold_opt (revoke_one fuel obj true CCascade) prs G = None.
Proof.
  intros fuel obj. induction prs as [|[ge' p'] prs IH]; intros G ge p Hin R; [contradiction|].
  cbn [fold_opt revoke_one].
  destruct (kill_then (revoke_cascade fuel obj p' true) obj p' true G ge') as [G1|] eqn:E1; [|reflexivity].
  unfold kill_then in E1. destruct Hin as [Hd|Hin].
  - inversion Hd; subst. rewrite cascade_option_cycle_diverges in E1; [discriminate|].
    eapply reach_ekeys; [|exact R]. symmetry. apply remove_option_ekeys.
  - apply cascade_option_ekeys in E1. eapply IH; [exact Hin|].
    eapply reach_ekeys; [|exact R]. rewrite E1. symmetry. apply remove_option_ekeys.
Qed.

(** whatever stack budget is chosen: the statement that passes its checks ends in a stack overflow as soon
    as one named grantee sits on a cycle of grants of one of the named privileges *)
Theorem revoke_option_cascade_cycle_crashes : forall s privs ot obj grantees ge p,
  revoke_object_check s ot obj = None -> all_roles_exist s grantees = true ->
  In ge grantees -> In p (expand privs ot) -> reach obj (st_grants s) p ge ge ->
  step s (ORevoke true privs ot obj grantees CCascade) = (s, RCrash).
Proof.
  intros s privs ot obj grantees ge p H1 H2 Hg Hp R. cbn [step]. unfold exec_revoke. rewrite H1, H2. cbn [negb andb].
  rewrite (revoke_fold_none _ obj _ _ ge p); [reflexivity| |exact R]. apply in_pairs_pairs. tauto.
Qed.

(** the witness history of known.d: R1 grants to R2, R2 grants back to R1 *)
Definition cycle_history : list op :=
  [ OCreateRole "R1"; OCreateRole "R2";
    OSetRole (Some "R1"); OGrant [PSelect None] OTable "A" ["R2"] true;
    OSetRole (Some "R2"); OGrant [PSelect None] OTable "A" ["R1"] true;
    ORevoke true [PSelect None] OTable "A" ["R1"] CCascade ].

Theorem revoke_never_crashes_refuted :
  exists s h, In RCrash (results s h).
Proof. exists (init_state ["A"] ["public"]), cycle_history. vm_compute. tauto. Qed.

(** * examples: the hypotheses of the theorems above are satisfiable by non-trivial inputs *)
Definition ex_history : list op :=
  [ OCreateRole "R1"; OCreateRole "R2"; OCreateRole "R3";
    OGrant [PAllPrivileges] OTable "T" ["R1"] true;
    OSetRole (Some "R1"); OGrant [PSelect None; PInsert None] OTable "T" ["R2"] true;
    OSetRole (Some "R2"); OGrant [PSelect None] OTable "T" ["R3"] false;
    OSetRole None;
    ORevoke true [PSelect None] OTable "T" ["R1"] CNone;
    ORevoke false [PInsert None] OTable "T" ["R2"] CRestrict;
    ORevoke false [PSelect None] OTable "T" ["R1"] CCascade;
    OGrant [PSelect (Some ["V"])] OTable "T" ["R3"] false;
    OSetSecurity true ].

Example ex_history_results :
  results (init_state ["T"] ["public"]) ex_history =
  [ROk; ROk; ROk; ROk; ROk; ROk; ROk; ROk; ROk; ROk; ROk; ROk; ROk; ROk].
Proof. vm_compute. reflexivity. Qed.

Example ex_history_privileges :
  let s := exec (init_state ["T"] ["public"]) ex_history in
  (* the CASCADE took SELECT from R1, and from R2 and R3 who had it through R1 *)
  has_privilege s "R1" "T" (PSelect None) = false /\
  has_privilege s "R2" "T" (PSelect None) = false /\
  has_privilege s "R3" "T" (PSelect None) = false /\
  (* untouched: R1's other privileges; the column-level grant is a different privilege *)
  has_privilege s "R1" "T" (PInsert None) = true /\
  has_privilege s "R2" "T" (PInsert None) = false /\
  has_privilege s "R3" "T" (PSelect (Some ["V"])) = true.
Proof. vm_compute. repeat split. Qed.

Example ex_restrict_blocks :
  let s := exec (init_state ["T"] ["public"]) (firstn 8 ex_history) in
  snd (step s (ORevoke false [PSelect None] OTable "T" ["R1"] CRestrict)) = RErr EDependentPrivileges.
Proof. vm_compute. reflexivity. Qed.

Example ex_revoke_then_denied :
  let s := exec (init_state ["T"] ["public"]) (firstn 8 ex_history) in
  exists s', exec_revoke s false [PAllPrivileges] OTable "T" ["R1"] CCascade = (s', ROk) /\
             In "R1" ["R1"] /\ In (kind_priv KSelect) (expand [PAllPrivileges] OTable) /\ is_admin "R1" = false.
Proof. vm_compute. eexists. repeat split; tauto. Qed.

Example ex_reach : reach "T" (st_grants (exec (init_state ["T"] ["public"]) (firstn 8 ex_history))) (PSelect None) "R1" "R3".
Proof.
  eapply reach_step; [apply reach_one|]; apply edge_ekey; vm_compute; tauto.
Qed.

Example ex_cycle_reach :
  reach "A" (st_grants (exec (init_state ["A"] ["public"]) (firstn 6 cycle_history))) (PSelect None) "R1" "R1".
Proof.
  eapply reach_step; [apply reach_one|]; apply edge_ekey; vm_compute; tauto.
Qed.

(** * the catalog operations by themselves *)
Theorem add_then_has : forall G g, has_privilege_in (add_grant G g) (g_grantee g) (g_object g) (g_priv g) = true.
Proof.
  intros. unfold add_grant. rewrite has_in_app. apply orb_true_iff. right.
  unfold has_privilege_in. cbn. unfold matches. rewrite !String.eqb_refl, priv_eqb_refl. reflexivity.
Qed.

Theorem add_other_unchanged : forall G g r o q,
  (r, o, q) <> (g_grantee g, g_object g, g_priv g) ->
  has_privilege_in (add_grant G g) r o q = has_privilege_in G r o q.
Proof.
  intros G g r o q H. unfold add_grant. rewrite has_in_app.
  destruct (has_privilege_in [g] r o q) eqn:E; [|apply orb_false_r].
  exfalso. apply H. apply has_in_spec in E as [g' [[E'|[]] [H1 [H2 H3]]]]. subst g'. congruence.
Qed.

Theorem remove_then_not_has : forall obj ge p G, has_privilege_in (remove_grants obj ge p false G) ge obj p = false.
Proof.
  intros. rewrite remove_full_prune, has_in_prune. unfold in_pairs. cbn.
  rewrite !String.eqb_refl, priv_eqb_refl. cbn. apply andb_false_r.
Qed.

Theorem remove_other_unchanged : forall obj ge p G r o q,
  (r, o, q) <> (ge, obj, p) ->
  has_privilege_in (remove_grants obj ge p false G) r o q = has_privilege_in G r o q.
Proof.
  intros obj ge p G r o q H. rewrite remove_full_prune, has_in_prune. unfold in_pairs. cbn. rewrite orb_false_r.
  destruct (String.eqb o obj) eqn:E1; [|cbn; apply andb_true_r].
  destruct (String.eqb r ge) eqn:E2; [|cbn; apply andb_true_r].
  destruct (priv_eqb q p) eqn:E3; [|cbn; apply andb_true_r].
  exfalso. apply H. apply String.eqb_eq in E1, E2. apply priv_eqb_eq in E3. congruence.
Qed.

Theorem remove_option_only_keeps_privileges : forall obj ge p G r o q,
  has_privilege_in (remove_grants obj ge p true G) r o q = has_privilege_in G r o q.
Proof. intros. apply has_in_keys. apply remove_option_keys. Qed.

Theorem remove_option_only_clears : forall obj ge p G g,
  In g (remove_grants obj ge p true G) -> matches obj ge p g = true -> g_wgo g = false.
Proof.
  intros obj ge p G g Hg Hm. unfold remove_grants in Hg. apply in_map_iff in Hg as [g0 [E Hg0]].
  destruct (matches obj ge p g0) eqn:E0; subst g; [reflexivity|].
  congruence.
Qed.

(** * RESTRICT *)
Lemma existsb_false_forall : forall (A : Type) (f : A -> bool) l, existsb f l = false -> forall x, In x l -> f x = false.
Proof.
  intros A f l H x Hx. destruct (f x) eqn:E; [|reflexivity].
  assert (existsb f l = true) by (apply existsb_exists; exists x; tauto). congruence.
Qed.

(** a REVOKE ... RESTRICT that succeeds found no grant made by a named grantee of a named privilege ... *)
Theorem restrict_success_no_dependents : forall s gof privs ot obj grantees s' ge p,
  exec_revoke s gof privs ot obj grantees CRestrict = (s', ROk) ->
  In ge grantees -> In p (expand privs ot) ->
  has_dependent_grants (st_grants s) obj ge p = false.
Proof.
  intros s gof privs ot obj grantees s' ge p H Hg Hp. unfold exec_revoke in H.
  destruct (revoke_object_check s ot obj); [inversion H|].
  destruct (negb (all_roles_exist s grantees)); [inversion H|].
  cbn [andb] in H. destruct (restrict_blocked (st_grants s) obj grantees (expand privs ot)) eqn:EB; [inversion H|].
  unfold restrict_blocked in EB.
  apply (existsb_false_forall _ _ _ EB (ge, p)). apply in_pairs_pairs. tauto.
Qed.

(** ... whereas the default (no CASCADE / RESTRICT keyword; "defaults to RESTRICT" says the comment in
    revoke.rs) neither refuses nor cascades: the dependent grant survives its grantor's revocation *)
Example default_revoke_leaves_dependents :
  let s := exec (init_state ["T"] ["public"]) (firstn 8 ex_history) in
  let s' := fst (step s (ORevoke false [PSelect None] OTable "T" ["R1"] CNone)) in
  snd (step s (ORevoke false [PSelect None] OTable "T" ["R1"] CNone)) = ROk /\
  has_privilege s' "R1" "T" (PSelect None) = false /\
  has_privilege s' "R2" "T" (PSelect None) = true /\          (* granted by R1 *)
  snd (step s (ORevoke false [PSelect None] OTable "T" ["R1"] CRestrict)) = RErr EDependentPrivileges.
Proof. vm_compute. repeat split. Qed.

(** * REVOKE GRANT OPTION FOR ... CASCADE returns when no delegation cycle is reachable *)
Lemma fold_kill_some : forall obj p (casc : list grant -> string -> option (list grant)),
  (forall G1 d G2, casc G1 d = Some G2 -> map ekey G2 = map ekey G1) ->
  forall ds G,
  (forall d G'', In d ds -> map ekey G'' = map ekey G -> casc G'' d <> None) ->
  fold_opt (kill_then casc obj p true) ds G <> None.
Proof.
  intros obj p casc Hk. induction ds as [|d ds IH]; intros G Hd; [discriminate|].
  cbn [fold_opt]. unfold kill_then at 1.
  destruct (casc (remove_grants obj d p true G) d) as [G1|] eqn:E1.
  - apply IH. intros d' G'' Hin E. apply Hd; [right; exact Hin|].
    rewrite E. rewrite (Hk _ _ _ E1). apply remove_option_ekeys.
  - exfalso. apply (Hd d (remove_grants obj d p true G)); [left; reflexivity | apply remove_option_ekeys | exact E1].
Qed.

Lemma NoDup_incl_le : forall (l l' : list string), NoDup l -> incl l l' -> List.length l <= List.length l'.
Proof. intros. apply NoDup_incl_length; assumption. Qed.

Lemma cascade_option_acyclic_aux : forall obj p (nodes : list string) fuel G x (path : list string),
  (forall a b, edge obj G p a b -> In b nodes) ->
  In x nodes -> incl path nodes -> NoDup path -> ~ In x path ->
  (forall z, In z path -> reach obj G p z x) ->
  (forall z, z = x \/ reach obj G p x z -> ~ reach obj G p z z) ->
  List.length nodes <= List.length path + fuel ->
  revoke_cascade fuel obj p true G x <> None.
Proof.
  intros obj p nodes. induction fuel as [|f IH]; intros G x path Hn Hx Hp Hnd Hxp Hr Hac Hlen.
  - exfalso.
    assert (L : List.length (x :: path) <= List.length nodes).
    { apply NoDup_incl_le; [constructor; assumption|]. intros z [E|Hz]; [subst; exact Hx | apply Hp; exact Hz]. }
    cbn in L. lia.
  - cbn [revoke_cascade]. apply fold_kill_some; [intros G1 d G2; apply cascade_option_ekeys|].
    intros y G'' Hy E. apply deps_spec in Hy.
    assert (Tr : forall a b, reach obj G p a b -> reach obj G'' p a b) by (intros a b; apply reach_ekeys; symmetry; exact E).
    assert (Tr' : forall a b, reach obj G'' p a b -> reach obj G p a b) by (intros a b; apply reach_ekeys; exact E).
    apply (IH G'' y (x :: path)).
    + intros a b Hab. apply (Hn a b). apply edge_ekey. rewrite <- E. apply edge_ekey. exact Hab.
    + eapply Hn. exact Hy.
    + intros z [Ez|Hz]; [subst; exact Hx | apply Hp; exact Hz].
    + constructor; assumption.
    + intros [Ey|Hyp].
      * subst y. apply (Hac x (or_introl eq_refl)). apply reach_one. exact Hy.
      * apply (Hac y); [right; apply reach_one; exact Hy|].
        eapply reach_step; [apply Hr; exact Hyp | exact Hy].
    + intros z [Ez|Hz]; apply Tr.
      * subst z. apply reach_one. exact Hy.
      * eapply reach_step; [apply Hr; exact Hz | exact Hy].
    + intros z Hz. intro C. apply Tr' in C. apply (Hac z); [|exact C]. right.
      destruct Hz as [Ez|Hz]; [subst z; apply reach_one; exact Hy|].
      eapply reach_cons; [exact Hy | apply Tr'; exact Hz].
    + cbn. lia.
Qed.

(** with the model's stack budget (one frame per grant, plus one) *)
Theorem cascade_option_acyclic_terminates : forall obj p G x,
  (forall z, z = x \/ reach obj G p x z -> ~ reach obj G p z z) ->
  revoke_cascade (cascade_fuel G) obj p true G x <> None.
Proof.
  intros obj p G x Hac.
  apply (cascade_option_acyclic_aux obj p (x :: map g_grantee G) (cascade_fuel G) G x []).
  - intros a b [g [Hg [_ [_ [_ Hb]]]]]. right. rewrite <- Hb. apply in_map. exact Hg.
  - left. reflexivity.
  - intros z [].
  - constructor.
  - intros [].
  - intros z [].
  - exact Hac.
  - unfold cascade_fuel. cbn. rewrite map_length. lia.
Qed.

(** ... and never returns when one is (generalises [cascade_option_cycle_diverges] from "on a cycle" to
    "reaches a cycle") *)
Theorem cascade_option_cycle_reachable_diverges : forall obj p fuel G x z,
  z = x \/ reach obj G p x z -> reach obj G p z z -> revoke_cascade fuel obj p true G x = None.
Proof.
  intros obj p. induction fuel as [|f IH]; intros G x z Hz C; [reflexivity|].
  destruct Hz as [Ez|Hz]; [subst z; apply cascade_option_cycle_diverges; exact C|].
  cbn [revoke_cascade]. destruct (reach_first _ _ _ _ _ Hz) as [y [Ey Hy]].
  eapply (fold_kill_none obj p _ y).
  - intros G1 d G2. apply cascade_option_ekeys.
  - apply deps_spec. exact Ey.
  - intros G'' E. apply (IH G'' y z).
    + destruct Hy as [Hy|Hy]; [left; symmetry; exact Hy | right; eapply reach_ekeys; [symmetry; exact E | exact Hy]].
    + eapply reach_ekeys; [symmetry; exact E | exact C].
Qed.

Lemma ekeys_length : forall G H, map ekey G = map ekey H -> List.length G = List.length H.
Proof. intros G H E. rewrite <- (map_length ekey G), <- (map_length ekey H), E. reflexivity. Qed.

(** the whole statement: REVOKE GRANT OPTION FOR ... CASCADE returns when no named (grantee, privilege) pair
    reaches a delegation cycle, and overflows the stack as soon as one does *)
Lemma revoke_fold_option_some : forall fuel obj prs G,
  (forall ge p G'', In (ge, p) prs -> map ekey G'' = map ekey G -> revoke_cascade fuel obj p true G'' ge <> None) ->
  fold_opt (revoke_one fuel obj true CCascade) prs G <> None.
Proof.
  intros fuel obj. induction prs as [|[ge p] prs IH]; intros G H; [discriminate|].
  cbn [fold_opt revoke_one]. unfold kill_then.
  destruct (revoke_cascade fuel obj p true (remove_grants obj ge p true G) ge) as [G1|] eqn:E1.
  - apply IH. intros ge' p' G'' Hin E. apply H; [right; exact Hin|].
    rewrite E. rewrite (cascade_option_ekeys _ _ _ _ _ _ E1). apply remove_option_ekeys.
  - exfalso. apply (H ge p (remove_grants obj ge p true G)); [left; reflexivity | apply remove_option_ekeys | exact E1].
Qed.

Theorem revoke_option_acyclic_never_crashes : forall s privs ot obj grantees,
  (forall ge p z, In ge grantees -> In p (expand privs ot) ->
     z = ge \/ reach obj (st_grants s) p ge z -> ~ reach obj (st_grants s) p z z) ->
  snd (exec_revoke s true privs ot obj grantees CCascade) <> RCrash.
Proof.
  intros s privs ot obj grantees Hac. unfold exec_revoke.
  destruct (revoke_object_check s ot obj); [discriminate|].
  destruct (negb (all_roles_exist s grantees)); [discriminate|].
  cbn [andb].
  destruct (fold_opt _ _ _) as [G'|] eqn:EF; [discriminate|]. exfalso.
  revert EF. apply revoke_fold_option_some. intros ge p G'' Hin E.
  apply in_pairs_pairs in Hin as [Hg Hp].
  assert (EL : cascade_fuel (st_grants s) = cascade_fuel G'').
  { unfold cascade_fuel. rewrite (ekeys_length _ _ E). reflexivity. }
  rewrite EL. apply cascade_option_acyclic_terminates. intros z Hz C.
  apply (Hac ge p z Hg Hp).
  - destruct Hz as [Hz|Hz]; [left; exact Hz | right; eapply reach_ekeys; [exact E | exact Hz]].
  - eapply reach_ekeys; [exact E | exact C].
Qed.

Lemma revoke_fold_none_reach : forall fuel obj prs G ge p z,
  In (ge, p) prs -> z = ge \/ reach obj G p ge z -> reach obj G p z z ->
  fold_opt (revoke_one fuel obj true CCascade) prs G = None.
Proof.
  intros fuel obj. induction prs as [|[ge' p'] prs IH]; intros G ge p z Hin Hz C; [contradiction|].
  cbn [fold_opt revoke_one].
  destruct (kill_then (revoke_cascade fuel obj p' true) obj p' true G ge') as [G1|] eqn:E1; [|reflexivity].
  unfold kill_then in E1.
  assert (Tr : forall G'' a b, map ekey G'' = map ekey G -> reach obj G p a b -> reach obj G'' p a b)
    by (intros G'' a b E; apply reach_ekeys; symmetry; exact E).
  destruct Hin as [Hd|Hin].
  - inversion Hd; subst. rewrite (cascade_option_cycle_reachable_diverges obj p fuel _ ge z) in E1; [discriminate| |].
    + destruct Hz as [Hz|Hz]; [left; exact Hz | right; apply Tr; [apply remove_option_ekeys | exact Hz]].
    + apply Tr; [apply remove_option_ekeys | exact C].
  - apply cascade_option_ekeys in E1.
    assert (E : map ekey G1 = map ekey G) by (rewrite E1; apply remove_option_ekeys).
    apply (IH G1 ge p z Hin).
    + destruct Hz as [Hz|Hz]; [left; exact Hz | right; apply Tr; assumption].
    + apply Tr; assumption.
Qed.

Theorem revoke_option_cascade_reachable_cycle_crashes : forall s privs ot obj grantees ge p z,
  revoke_object_check s ot obj = None -> all_roles_exist s grantees = true ->
  In ge grantees -> In p (expand privs ot) ->
  z = ge \/ reach obj (st_grants s) p ge z -> reach obj (st_grants s) p z z ->
  step s (ORevoke true privs ot obj grantees CCascade) = (s, RCrash).
Proof.
  intros s privs ot obj grantees ge p z H1 H2 Hg Hp Hz C. cbn [step]. unfold exec_revoke. rewrite H1, H2. cbn [negb andb].
  rewrite (revoke_fold_none_reach _ obj _ _ ge p z); [reflexivity| |exact Hz|exact C]. apply in_pairs_pairs. tauto.
Qed.

Example ex_acyclic_option_cascade :
  let s := exec (init_state ["T"] ["public"]) (firstn 8 ex_history) in
  snd (step s (ORevoke true [PSelect None] OTable "T" ["R1"] CCascade)) = ROk.
Proof. vm_compute. reflexivity. Qed.
