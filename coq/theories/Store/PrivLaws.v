(** Laws of the privilege model [Store.Priv] (C26): equality tests, catalog operations, one-step
    characterisation of [has_privilege], [revoke_cascade] as reachability in the delegation graph,
    the history theorem, termination of CASCADE, monotonicity without GRANT. *)
From Coq Require Import List Bool String Arith Lia.
From VibeSQL Require Import Store.Priv.
Import ListNotations.
Open Scope string_scope.

(** * equality tests are equality *)
Lemma strs_eqb_eq : forall a b, strs_eqb a b = true <-> a = b.
Proof.
  induction a as [|x a IH]; destruct b as [|y b]; cbn; split; intro H; try congruence; try discriminate.
  - apply andb_true_iff in H as [H1 H2]. apply String.eqb_eq in H1. apply IH in H2. congruence.
  - inversion H; subst. rewrite String.eqb_refl. cbn. apply IH. reflexivity.
Qed.

Lemma cols_eqb_eq : forall a b, cols_eqb a b = true <-> a = b.
Proof.
  destruct a as [a|], b as [b|]; cbn; split; intro H; try congruence; try discriminate.
  - apply strs_eqb_eq in H. congruence.
  - inversion H; subst. apply strs_eqb_eq. reflexivity.
Qed.

Lemma priv_eqb_eq : forall a b, priv_eqb a b = true <-> a = b.
Proof.
  destruct a, b; cbn; split; intro H; try congruence; try discriminate;
    try (apply cols_eqb_eq in H; congruence);
    try (inversion H; subst; apply cols_eqb_eq; reflexivity).
Qed.

Lemma priv_eqb_refl : forall a, priv_eqb a a = true.
Proof. intro a. apply priv_eqb_eq. reflexivity. Qed.

Lemma priv_eqb_neq : forall a b, priv_eqb a b = false <-> a <> b.
Proof.
  intros a b. split.
  - intros H E. apply priv_eqb_eq in E. congruence.
  - intro H. destruct (priv_eqb a b) eqn:E; [|reflexivity]. apply priv_eqb_eq in E. contradiction.
Qed.

Lemma priv_eq_dec : forall a b : privilege, {a = b} + {a <> b}.
Proof.
  intros a b. destruct (priv_eqb a b) eqn:E.
  - left. apply priv_eqb_eq. exact E.
  - right. apply priv_eqb_neq. exact E.
Qed.

Lemma mem_In : forall x l, mem x l = true <-> In x l.
Proof.
  intros x l. unfold mem. rewrite existsb_exists. split.
  - intros [y [Hy E]]. apply String.eqb_eq in E. subst. exact Hy.
  - intro H. exists x. split; [exact H | apply String.eqb_refl].
Qed.

(** * the key of a grant: the triple every catalog operation looks at *)
Definition key (g : grant) : string * string * privilege := (g_object g, g_grantee g, g_priv g).

Lemma matches_spec : forall obj ge p g,
  matches obj ge p g = true <-> g_object g = obj /\ g_grantee g = ge /\ g_priv g = p.
Proof.
  intros. unfold matches. rewrite !andb_true_iff, !String.eqb_eq, priv_eqb_eq. tauto.
Qed.

Lemma granted_by_spec : forall obj gr p g,
  granted_by obj gr p g = true <-> g_object g = obj /\ g_grantor g = gr /\ g_priv g = p.
Proof.
  intros. unfold granted_by. rewrite !andb_true_iff, !String.eqb_eq, priv_eqb_eq. tauto.
Qed.

Lemma has_in_spec : forall G r obj p,
  has_privilege_in G r obj p = true <-> exists g, In g G /\ g_object g = obj /\ g_grantee g = r /\ g_priv g = p.
Proof.
  intros. unfold has_privilege_in. rewrite existsb_exists.
  split; intros [g [Hg H]]; exists g; (split; [exact Hg|]); apply matches_spec; exact H.
Qed.

Lemma has_in_app : forall G H r obj p,
  has_privilege_in (G ++ H) r obj p = has_privilege_in G r obj p || has_privilege_in H r obj p.
Proof. intros. unfold has_privilege_in. apply existsb_app. Qed.

(** * removal by a set of (grantee, privilege) pairs on one object *)
Definition in_pairs (KP : list (string * privilege)) (ge : string) (p : privilege) : bool :=
  existsb (fun kq => String.eqb ge (fst kq) && priv_eqb p (snd kq)) KP.

Lemma in_pairs_In : forall KP ge p, in_pairs KP ge p = true <-> In (ge, p) KP.
Proof.
  intros. unfold in_pairs. rewrite existsb_exists. split.
  - intros [[k q] [Hk E]]. cbn in E. apply andb_true_iff in E as [E1 E2].
    apply String.eqb_eq in E1. apply priv_eqb_eq in E2. subst. exact Hk.
  - intro H. exists (ge, p). split; [exact H|]. cbn. rewrite String.eqb_refl, priv_eqb_refl. reflexivity.
Qed.

Lemma in_pairs_app : forall A B ge p, in_pairs (A ++ B) ge p = in_pairs A ge p || in_pairs B ge p.
Proof. intros. unfold in_pairs. apply existsb_app. Qed.

Definition doomed (obj : string) (KP : list (string * privilege)) (g : grant) : bool :=
  String.eqb (g_object g) obj && in_pairs KP (g_grantee g) (g_priv g).

Definition prune (obj : string) (KP : list (string * privilege)) (G : list grant) : list grant :=
  filter (fun g => negb (doomed obj KP g)) G.

Lemma prune_nil : forall obj G, prune obj [] G = G.
Proof.
  intros. unfold prune. induction G as [|g G IH]; cbn; [reflexivity|].
  unfold doomed at 1. cbn. rewrite andb_false_r. cbn. f_equal. exact IH.
Qed.

Lemma filter_filter : forall (A : Type) (f g : A -> bool) l,
  filter f (filter g l) = filter (fun x => g x && f x) l.
Proof.
  intros A f g l. induction l as [|x l IH]; cbn; [reflexivity|].
  destruct (g x); cbn; [destruct (f x); cbn; [f_equal|]|]; exact IH.
Qed.

Lemma doomed_app : forall obj A B g, doomed obj (A ++ B) g = doomed obj A g || doomed obj B g.
Proof.
  intros. unfold doomed. rewrite in_pairs_app.
  destruct (String.eqb (g_object g) obj); reflexivity.
Qed.

Lemma prune_prune : forall obj A B G, prune obj B (prune obj A G) = prune obj (A ++ B) G.
Proof.
  intros. unfold prune. rewrite filter_filter. apply filter_ext. intro g.
  rewrite doomed_app. rewrite negb_orb. reflexivity.
Qed.

Lemma prune_incl : forall obj KP G g, In g (prune obj KP G) -> In g G.
Proof. intros obj KP G g H. unfold prune in H. apply filter_In in H. tauto. Qed.

Lemma prune_In : forall obj KP G g, In g (prune obj KP G) <-> In g G /\ doomed obj KP g = false.
Proof.
  intros. unfold prune. rewrite filter_In. rewrite negb_true_iff. tauto.
Qed.

Lemma prune_length : forall obj KP G, List.length (prune obj KP G) <= List.length G.
Proof.
  intros. unfold prune. induction G as [|g G IH]; cbn; [lia|].
  destruct (negb (doomed obj KP g)); cbn; lia.
Qed.

Lemma remove_full_prune : forall obj ge p G, remove_grants obj ge p false G = prune obj [(ge, p)] G.
Proof.
  intros. unfold remove_grants, prune. apply filter_ext. intro g.
  f_equal. unfold matches, doomed, in_pairs. cbn. rewrite orb_false_r.
  rewrite andb_assoc. reflexivity.
Qed.

Lemma has_in_prune : forall obj KP G r o q,
  has_privilege_in (prune obj KP G) r o q =
  has_privilege_in G r o q && negb (String.eqb o obj && in_pairs KP r q).
Proof.
  intros. unfold has_privilege_in, prune.
  induction G as [|g G IH]; [reflexivity|].
  cbn [filter existsb].
  assert (HM : matches o r q g = true -> doomed obj KP g = String.eqb o obj && in_pairs KP r q).
  { intro M. apply matches_spec in M as [M1 [M2 M3]]. unfold doomed. rewrite M1, M2, M3. reflexivity. }
  destruct (doomed obj KP g) eqn:D; cbn [negb existsb].
  - rewrite IH. destruct (matches o r q g) eqn:M; cbn [orb]; [|reflexivity].
    rewrite <- (HM eq_refl). cbn. rewrite andb_false_r. reflexivity.
  - rewrite IH. destruct (matches o r q g) eqn:M; cbn [orb]; [|reflexivity].
    rewrite <- (HM eq_refl). reflexivity.
Qed.

(** * GRANT OPTION FOR: keys are untouched *)
Lemma key_clear_wgo : forall g, key (clear_wgo g) = key g.
Proof. reflexivity. Qed.

Lemma remove_option_keys : forall obj ge p G, map key (remove_grants obj ge p true G) = map key G.
Proof.
  intros. unfold remove_grants. rewrite map_map. apply map_ext. intro g.
  destruct (matches obj ge p g); reflexivity.
Qed.

Lemma has_in_keys : forall G H r o q, map key G = map key H -> has_privilege_in G r o q = has_privilege_in H r o q.
Proof.
  induction G as [|g G IH]; destruct H as [|h H]; cbn; intros r o q E; try discriminate; [reflexivity|].
  inversion E as [[E1 E2 E3 E4]]. unfold has_privilege_in in *. cbn.
  rewrite (IH H r o q E4). f_equal. unfold matches. rewrite E1, E2, E3. reflexivity.
Qed.

(** edges of the delegation graph ignore the grant-option flag too *)
Definition ekey (g : grant) : string * string * string * privilege := (g_object g, g_grantor g, g_grantee g, g_priv g).

Lemma remove_option_ekeys : forall obj ge p G, map ekey (remove_grants obj ge p true G) = map ekey G.
Proof.
  intros. unfold remove_grants. rewrite map_map. apply map_ext. intro g.
  destruct (matches obj ge p g); reflexivity.
Qed.

Lemma deps_ekeys : forall obj x p G H, map ekey G = map ekey H ->
  map g_grantee (filter (granted_by obj x p) G) = map g_grantee (filter (granted_by obj x p) H).
Proof.
  induction G as [|g G IH]; destruct H as [|h H]; cbn; intro E; try discriminate; [reflexivity|].
  inversion E as [[E1 E2 E3 E4 E5]].
  assert (Eg : granted_by obj x p g = granted_by obj x p h) by (unfold granted_by; rewrite E1, E2, E4; reflexivity).
  rewrite Eg. destruct (granted_by obj x p h); cbn; [rewrite E3; f_equal|]; apply IH; exact E5.
Qed.

Lemma ekeys_keys : forall G H, map ekey G = map ekey H -> map key G = map key H.
Proof.
  induction G as [|g G IH]; destruct H as [|h H]; cbn; intro E; try discriminate; [reflexivity|].
  inversion E as [[E1 E2 E3 E4 E5]]. unfold key at 1 3. rewrite E1, E3, E4. f_equal. apply IH. exact E5.
Qed.

(** * the delegation graph and [revoke_cascade] (plain REVOKE, i.e. [grant_option_only = false]) *)

(** [x] granted [p] on [obj] to [y] *)
Definition edge (obj : string) (G : list grant) (p : privilege) (x y : string) : Prop :=
  exists g, In g G /\ g_object g = obj /\ g_priv g = p /\ g_grantor g = x /\ g_grantee g = y.

(** one or more delegation steps *)
Inductive reach (obj : string) (G : list grant) (p : privilege) (x : string) : string -> Prop :=
| reach_one : forall y, edge obj G p x y -> reach obj G p x y
| reach_step : forall y z, reach obj G p x y -> edge obj G p y z -> reach obj G p x z.

Lemma edge_mono : forall obj G G' p x y, (forall g, In g G' -> In g G) -> edge obj G' p x y -> edge obj G p x y.
Proof. intros obj G G' p x y Hs [g [Hg H]]. exists g. split; [apply Hs; exact Hg | exact H]. Qed.

Lemma reach_mono : forall obj G G' p x y, (forall g, In g G' -> In g G) -> reach obj G' p x y -> reach obj G p x y.
Proof.
  intros obj G G' p x y Hs H. induction H as [y E | y z _ IH E].
  - apply reach_one. eapply edge_mono; eassumption.
  - eapply reach_step; [exact IH | eapply edge_mono; eassumption].
Qed.

Lemma reach_cons : forall obj G p x y z, edge obj G p x y -> reach obj G p y z -> reach obj G p x z.
Proof.
  intros obj G p x y z E H. induction H as [w E' | w v _ IH E'].
  - eapply reach_step; [apply reach_one; exact E | exact E'].
  - eapply reach_step; [exact IH | exact E'].
Qed.

(** no grant on [obj] made by a visited (grantor, privilege) pair is left *)
Definition closed (obj : string) (KP : list (string * privilege)) (G : list grant) : Prop :=
  forall g, In g G -> g_object g = obj -> ~ In (g_grantor g, g_priv g) KP.

Lemma closed_mono : forall obj KP G G', (forall g, In g G' -> In g G) -> closed obj KP G -> closed obj KP G'.
Proof. intros obj KP G G' Hs H g Hg. apply H. apply Hs. exact Hg. Qed.

Lemma closed_app : forall obj A B G, closed obj A G -> closed obj B G -> closed obj (A ++ B) G.
Proof. intros obj A B G HA HB g Hg Ho Hin. apply in_app_or in Hin as [Hin|Hin]; [eapply HA | eapply HB]; eassumption. Qed.

(** postcondition of one [revoke_cascade] call *)
Definition cascade_post (obj : string) (p : privilege) (G : list grant) (x : string) (G' : list grant) : Prop :=
  exists KP, G' = prune obj KP G /\ closed obj ((x, p) :: KP) G' /\
             forall k q, In (k, q) KP -> q = p /\ reach obj G p x k.

Lemma deps_spec : forall obj x p G d,
  In d (map g_grantee (filter (granted_by obj x p) G)) <-> edge obj G p x d.
Proof.
  intros. rewrite in_map_iff. split.
  - intros [g [Hd Hg]]. apply filter_In in Hg as [Hg Hb]. apply granted_by_spec in Hb as [H1 [H2 H3]].
    exists g. tauto.
  - intros [g [Hg [H1 [H2 [H3 H4]]]]]. exists g. split; [exact H4|]. apply filter_In. split; [exact Hg|].
    apply granted_by_spec. tauto.
Qed.

(** ** the walk with its visited set *)
Lemma prune_ext : forall obj A B G,
  (forall k q, in_pairs A k q = in_pairs B k q) -> prune obj A G = prune obj B G.
Proof.
  intros obj A B G H. unfold prune. apply filter_ext. intro g. unfold doomed. rewrite H. reflexivity.
Qed.

Lemma prune_idem : forall obj A G, prune obj A (prune obj A G) = prune obj A G.
Proof.
  intros. rewrite prune_prune. apply prune_ext. intros k q. rewrite in_pairs_app. apply orb_diag.
Qed.

(** visited names paired with the privilege being revoked *)
Definition vp (p : privilege) (V : list string) : list (string * privilege) := map (fun v => (v, p)) V.

Lemma in_vp : forall p V k q, In (k, q) (vp p V) <-> q = p /\ In k V.
Proof.
  intros. unfold vp. rewrite in_map_iff. split.
  - intros [v [E Hv]]. inversion E; subst. tauto.
  - intros [E Hk]. subst. exists k. tauto.
Qed.

Lemma vp_app : forall p A B, vp p (A ++ B) = (vp p A ++ vp p B)%list.
Proof. intros. unfold vp. apply map_app. Qed.

(** every grant of [p] on [obj] in the reference table [G0] made by a FINISHED grantor leads into the visited set *)
Definition closedF (obj : string) (p : privilege) (G0 : list grant) (F V : list string) : Prop :=
  forall g, In g G0 -> g_object g = obj -> g_priv g = p -> In (g_grantor g) F -> In (g_grantee g) V.

Lemma closedF_mono : forall obj p G0 F F' V V',
  (forall x, In x F' -> In x F) -> (forall x, In x V -> In x V') ->
  closedF obj p G0 F V -> closedF obj p G0 F' V'.
Proof. intros obj p G0 F F' V V' HF HV H g Hg Ho Hp Hin. apply HV. apply (H g Hg Ho Hp). apply HF. exact Hin. Qed.

Definition walk_post (obj : string) (p : privilege) (G0 : list grant) (F V : list string) (x : string)
           (finished_x : bool) (st : cstate) : Prop :=
  exists new, snd st = (new ++ V)%list /\ fst st = prune obj (vp p (snd st)) G0 /\
              closedF obj p G0 ((if finished_x then [x] else []) ++ new ++ F) (snd st) /\
              forall v, In v new -> reach obj G0 p x v.

Lemma in_pairs_same : forall A B k q, (forall x, In x A <-> In x B) -> in_pairs A k q = in_pairs B k q.
Proof.
  intros A B k q H. destruct (in_pairs A k q) eqn:EA, (in_pairs B k q) eqn:EB; try reflexivity.
  - apply in_pairs_In, H, in_pairs_In in EA. congruence.
  - apply in_pairs_In, H, in_pairs_In in EB. congruence.
Qed.

Lemma remove_visit_prune : forall obj p G0 V d,
  remove_grants obj d p false (prune obj (vp p V) G0) = prune obj (vp p (d :: V)) G0.
Proof.
  intros. rewrite remove_full_prune, prune_prune. apply prune_ext. intros k q. apply in_pairs_same.
  intro x. cbn [vp map]. fold (vp p V). rewrite in_app_iff. cbn [In]. tauto.
Qed.

Lemma fold_visit_spec : forall obj p G0 x (casc : list grant -> list string -> string -> option cstate),
  (forall G V F y st, casc G V y = Some st -> G = prune obj (vp p V) G0 -> In y V -> closedF obj p G0 F V ->
                      walk_post obj p G0 F V y true st) ->
  forall ds st0 F st,
  fold_opt (visit_then casc obj p false) ds st0 = Some st ->
  fst st0 = prune obj (vp p (snd st0)) G0 -> closedF obj p G0 F (snd st0) ->
  (forall d, In d ds -> edge obj G0 p x d) ->
  walk_post obj p G0 F (snd st0) x false st /\ (forall d, In d ds -> In d (snd st)).
Proof.
  intros obj p G0 x casc IHc. induction ds as [|d ds IH]; intros [G V] F st H HG HF Hd.
  - cbn in H. inversion H; subst. split; [|intros d []]. exists []. cbn. repeat split; try assumption. intros v [].
  - cbn [fold_opt] in H. cbn [fst snd] in *. unfold visit_then in H at 1. cbn [fst snd] in H.
    destruct (mem d V) eqn:Em.
    + destruct (IH (G, V) F st H HG HF (fun d' Hd' => Hd d' (or_intror Hd'))) as [HP HI].
      split; [exact HP|]. intros d' [E|Hd']; [|apply HI; exact Hd'].
      subst d'. destruct HP as [new [EV _]]. cbn [snd] in EV. rewrite EV. apply in_or_app. right. apply mem_In. exact Em.
    + destruct (casc (remove_grants obj d p false G) (d :: V) d) as [st1|] eqn:E1; [|discriminate].
      assert (Hstep : walk_post obj p G0 F (d :: V) d true st1).
      { apply (IHc _ _ F _ _ E1).
        - rewrite HG. apply remove_visit_prune.
        - left. reflexivity.
        - eapply closedF_mono; [| |exact HF]; [tauto | intros z Hz; right; exact Hz]. }
      destruct Hstep as [new1 [EV1 [EG1 [C1 R1]]]].
      destruct (IH st1 (d :: new1 ++ F)%list st H EG1) as [[new2 [EV2 [EG2 [C2 R2]]]] HI].
      * exact C1.
      * intros d' Hd'. apply Hd. right. exact Hd'.
      * split.
        -- exists (new2 ++ new1 ++ [d])%list. cbn [snd]. split; [|split; [|split]].
           ++ rewrite EV2, EV1. rewrite <- !app_assoc. reflexivity.
           ++ exact EG2.
           ++ eapply closedF_mono; [| |exact C2]; [|tauto]. cbn [app]. intros z Hz.
              apply in_app_or in Hz as [Hz|Hz].
              ** apply in_app_or in Hz as [Hz|Hz]; [apply in_or_app; left; exact Hz|].
                 apply in_app_or in Hz as [Hz|[Hz|[]]].
                 --- apply in_or_app. right. right. apply in_or_app. left. exact Hz.
                 --- subst z. apply in_or_app. right. left. reflexivity.
              ** apply in_or_app. right. right. apply in_or_app. right. exact Hz.
           ++ intros v Hv. apply in_app_or in Hv as [Hv|Hv]; [apply R2; exact Hv|].
              apply in_app_or in Hv as [Hv|[Hv|[]]].
              ** eapply reach_cons; [apply Hd; left; reflexivity | apply R1; exact Hv].
              ** subst v. apply reach_one. apply Hd. left. reflexivity.
        -- intros d' [E|Hd']; [|apply HI; exact Hd'].
           subst d'. rewrite EV2, EV1. apply in_or_app. right. apply in_or_app. right. left. reflexivity.
Qed.

Lemma cascade_walk_spec : forall obj p G0 fuel G V F x st,
  revoke_cascade fuel obj p false G V x = Some st ->
  G = prune obj (vp p V) G0 -> In x V -> closedF obj p G0 F V ->
  walk_post obj p G0 F V x true st.
Proof.
  intros obj p G0. induction fuel as [|f IH]; intros G V F x st H HG Hx HF; [discriminate|].
  cbn [revoke_cascade] in H.
  assert (Hdeps : forall d, In d (map g_grantee (filter (granted_by obj x p) G)) -> edge obj G0 p x d).
  { intros d Hd. apply deps_spec in Hd. eapply edge_mono; [|exact Hd]. intros g Hg. subst G. apply prune_incl in Hg. exact Hg. }
  destruct (fold_visit_spec obj p G0 x _ IH _ (G, V) F st H HG HF Hdeps) as [[new [EV [EG [C R]]]] HI].
  cbn [snd] in *. exists new. split; [exact EV|]. split; [exact EG|]. split; [|exact R].
  cbn [app]. intros g Hg Ho Hp [Hgx|Hin]; [|apply (C g Hg Ho Hp Hin)].
  (* an edge out of x: still in the table at entry (then it is a dependent) or already removed (then its grantee was visited) *)
  destruct (doomed obj (vp p V) g) eqn:D.
  - unfold doomed in D. apply andb_true_iff in D as [_ D]. apply in_pairs_In, in_vp in D as [_ D].
    rewrite EV. apply in_or_app. right. exact D.
  - apply HI. apply deps_spec. exists g. split; [subst G; apply prune_In; split; assumption|].
    split; [exact Ho|]. split; [exact Hp|]. split; [symmetry; exact Hgx | reflexivity].
Qed.

(** the statement-level call: [remove_grants] for the named grantee, visited = {grantee}, then the walk *)
Lemma cascade_spec : forall obj p fuel G ge st,
  revoke_cascade fuel obj p false (prune obj [(ge, p)] G) [ge] ge = Some st ->
  cascade_post obj p (prune obj [(ge, p)] G) ge (fst st).
Proof.
  intros obj p fuel G ge st H. set (G0 := prune obj [(ge, p)] G) in *.
  assert (Hid : prune obj (vp p [ge]) G0 = G0) by (unfold G0; apply prune_idem).
  destruct (cascade_walk_spec obj p G0 fuel G0 [ge] [] ge st H (eq_sym Hid)) as [new [EV [EG [C R]]]].
  - left. reflexivity.
  - intros g _ _ _ [].
  - exists (vp p new). split; [|split].
    + rewrite EG, EV, vp_app. rewrite <- Hid at 2. rewrite prune_prune. apply prune_ext. intros k q.
      apply in_pairs_same. intro y. rewrite !in_app_iff. tauto.
    + intros g Hg Ho Hin.
      assert (Hp : g_priv g = p /\ In (g_grantor g) (snd st)).
      { destruct Hin as [E|Hin].
        - assert (E1 : g_grantor g = ge) by (injection E; congruence).
          assert (E2 : g_priv g = p) by (injection E; congruence).
          split; [exact E2|]. rewrite EV, E1. apply in_or_app. right. left. reflexivity.
        - apply in_vp in Hin as [Hq Hin]. split; [exact Hq|]. rewrite EV. apply in_or_app. left. exact Hin. }
      destruct Hp as [Hp Hgr].
      assert (HgG0 : In g G0) by (rewrite EG in Hg; apply prune_incl in Hg; exact Hg).
      assert (Hge : In (g_grantee g) (snd st)).
      { apply (C g HgG0 Ho Hp). rewrite app_nil_r. cbn [app]. rewrite EV in Hgr.
        apply in_app_or in Hgr as [Hgr|[Hgr|[]]]; [right; exact Hgr | left; exact Hgr]. }
      rewrite EG in Hg. apply prune_In in Hg as [_ Hd]. unfold doomed in Hd.
      rewrite Ho, String.eqb_refl in Hd. cbn in Hd.
      assert (Hin' : In (g_grantee g, g_priv g) (vp p (snd st))) by (apply in_vp; tauto).
      apply in_pairs_In in Hin'. congruence.
    + intros k q Hk. apply in_vp in Hk as [Hq Hk]. split; [exact Hq | apply R; exact Hk].
Qed.

(** every pair reachable from a visited pair has been visited *)
Lemma closure_complete : forall obj KP G G',
  G' = prune obj KP G -> closed obj KP G' ->
  forall r q k, In (r, q) KP -> reach obj G q r k -> In (k, q) KP.
Proof.
  intros obj KP G G' EG C r q k Hr H.
  assert (Step : forall y z, In (y, q) KP -> edge obj G q y z -> In (z, q) KP).
  { intros y z Hy [g [Hg [Ho [Hp [Hx Hz]]]]].
    destruct (doomed obj KP g) eqn:D.
    - unfold doomed in D. apply andb_true_iff in D as [_ D]. apply in_pairs_In in D. congruence.
    - exfalso. apply (C g).
      + subst G'. apply prune_In. split; assumption.
      + exact Ho.
      + rewrite Hx, Hp. exact Hy. }
  induction H as [y E | y z _ IH E].
  - eapply Step; eassumption.
  - eapply Step; eassumption.
Qed.

Lemma in_pairs_pairs : forall grantees expanded ge q,
  In (ge, q) (pairs grantees expanded) <-> In ge grantees /\ In q expanded.
Proof.
  intros. unfold pairs. rewrite in_flat_map. split.
  - intros [x [Hx H]]. apply in_map_iff in H as [y [E Hy]]. inversion E; subst. tauto.
  - intros [H1 H2]. exists ge. split; [exact H1|]. apply in_map_iff. exists q. tauto.
Qed.

(** ** the statement's own loops *)
Lemma revoke_fold_plain : forall fuel obj casc prs G G',
  casc <> CCascade ->
  fold_opt (revoke_one fuel obj false casc) prs G = Some G' -> G' = prune obj prs G.
Proof.
  intros fuel obj casc. induction prs as [|[ge p] prs IH]; intros G G' Hc H.
  - cbn in H. inversion H. symmetry. apply prune_nil.
  - destruct casc; try contradiction; cbn [fold_opt revoke_one] in H;
      (apply IH in H; [|exact Hc]); rewrite remove_full_prune in H; rewrite prune_prune in H; exact H.
Qed.

Definition stmt_post (obj : string) (G : list grant) (R : list (string * privilege)) (G' : list grant) : Prop :=
  exists KP, G' = prune obj KP G /\ (forall kq, In kq R -> In kq KP) /\ closed obj KP G' /\
             forall k q, In (k, q) KP -> In (k, q) R \/ exists r, In (r, q) R /\ reach obj G q r k.

Lemma revoke_fold_cascade : forall fuel obj prs G G',
  fold_opt (revoke_one fuel obj false CCascade) prs G = Some G' -> stmt_post obj G prs G'.
Proof.
  intros fuel obj. induction prs as [|[ge p] prs IH]; intros G G' H.
  - cbn in H. inversion H; subst. exists []. rewrite prune_nil. repeat split; try (intros; contradiction).
    intros g _ _ F. exact F.
  - cbn [fold_opt revoke_one] in H. rewrite remove_full_prune in H.
    destruct (revoke_cascade fuel obj p false (prune obj [(ge, p)] G) [ge] ge) as [st1|] eqn:E1; [|discriminate].
    remember (fst st1) as G1 eqn:EG1'. apply cascade_spec in E1. rewrite <- EG1' in E1. clear EG1' st1.
    destruct E1 as [KP1 [EG1 [C1 R1]]].
    apply IH in H as [KP2 [EG2 [I2 [C2 R2]]]].
    assert (Sub1 : forall g, In g G1 -> In g G).
    { intros g Hg. subst G1. apply prune_incl in Hg. apply prune_incl in Hg. exact Hg. }
    assert (Sub2 : forall g, In g G' -> In g G1).
    { intros g Hg. subst G'. apply prune_incl in Hg. exact Hg. }
    exists (((ge, p) :: KP1) ++ KP2)%list. split; [|split; [|split]].
    + subst G' G1. rewrite !prune_prune. reflexivity.
    + intros kq [Hd|Hd]; [subst; left; reflexivity|]. apply in_or_app. right. apply I2. exact Hd.
    + apply closed_app; [|exact C2]. eapply closed_mono; [exact Sub2 | exact C1].
    + intros k q H. apply in_app_or in H as [[H|H]|H].
      * inversion H; subst. left. left. reflexivity.
      * apply R1 in H as [Hq H]. subst q. right. exists ge. split; [left; reflexivity|].
        eapply reach_mono; [|exact H]. intros g Hg. apply prune_incl in Hg. exact Hg.
      * apply R2 in H as [H|[r [Hr H]]]; [left; right; exact H|].
        right. exists r. split; [right; exact Hr|]. eapply reach_mono; [exact Sub1 | exact H].
Qed.

(** which (role, privilege) pairs a successful plain REVOKE on [obj] removes: the listed grantees, and under
    CASCADE everything that received the privilege from them through a chain of grants *)
Definition revoke_hits (obj : string) (G : list grant) (grantees : list string) (expanded : list privilege)
           (casc : cascade_opt) (r : string) (q : privilege) : Prop :=
  In q expanded /\ exists ge, In ge grantees /\ (r = ge \/ (casc = CCascade /\ reach obj G q ge r)).

Lemma revoke_fold_has : forall fuel obj casc grantees expanded G G',
  fold_opt (revoke_one fuel obj false casc) (pairs grantees expanded) G = Some G' ->
  forall r o q, has_privilege_in G' r o q = true <->
                has_privilege_in G r o q = true /\ ~ (o = obj /\ revoke_hits obj G grantees expanded casc r q).
Proof.
  intros fuel obj casc grantees expanded G G' H r o q.
  destruct casc.
  - apply revoke_fold_plain in H; [|discriminate]. subst G'. rewrite has_in_prune.
    rewrite andb_true_iff, negb_true_iff, andb_false_iff. split; intros [H1 H2]; (split; [exact H1|]).
    + intros [Ho [Hq [ge [Hge [Hr|[Hc _]]]]]]; [|discriminate]. subst.
      destruct H2 as [H2|H2]; [rewrite String.eqb_refl in H2; discriminate|].
      assert (HI : In (ge, q) (pairs grantees expanded)) by (apply in_pairs_pairs; tauto).
      apply in_pairs_In in HI. congruence.
    + destruct (String.eqb o obj) eqn:Eo; [|left; reflexivity]. right. apply String.eqb_eq in Eo.
      destruct (in_pairs (pairs grantees expanded) r q) eqn:EI; [|reflexivity]. exfalso. apply H2.
      apply in_pairs_In, in_pairs_pairs in EI as [E1 E2]. split; [exact Eo|]. split; [exact E2|].
      exists r. split; [exact E1|]. left. reflexivity.
  - apply revoke_fold_cascade in H as [KP [EG [I [C R]]]]. rewrite EG, has_in_prune.
    rewrite andb_true_iff, negb_true_iff, andb_false_iff. split; intros [H1 H2]; (split; [exact H1|]).
    + intros [Ho [Hq [ge [Hge Hr]]]]. subst o.
      destruct H2 as [H2|H2]; [rewrite String.eqb_refl in H2; discriminate|].
      assert (HI : In (ge, q) KP) by (apply I, in_pairs_pairs; tauto).
      assert (HK : In (r, q) KP).
      { destruct Hr as [Hr|[_ Hr]]; [subst; exact HI|]. eapply closure_complete; eassumption. }
      apply in_pairs_In in HK. congruence.
    + destruct (String.eqb o obj) eqn:Eo; [|left; reflexivity]. right. apply String.eqb_eq in Eo.
      destruct (in_pairs KP r q) eqn:EI; [|reflexivity]. exfalso. apply H2. split; [exact Eo|].
      apply in_pairs_In in EI. apply R in EI as [EI|[ge [Hge Hr]]].
      * apply in_pairs_pairs in EI as [E1 E2]. split; [exact E2|]. exists r. split; [exact E1|]. left. reflexivity.
      * apply in_pairs_pairs in Hge as [E1 E2]. split; [exact E2|]. exists ge. split; [exact E1|]. right. split; [reflexivity|exact Hr].
  - apply revoke_fold_plain in H; [|discriminate]. subst G'. rewrite has_in_prune.
    rewrite andb_true_iff, negb_true_iff, andb_false_iff. split; intros [H1 H2]; (split; [exact H1|]).
    + intros [Ho [Hq [ge [Hge [Hr|[Hc _]]]]]]; [|discriminate]. subst.
      destruct H2 as [H2|H2]; [rewrite String.eqb_refl in H2; discriminate|].
      assert (HI : In (ge, q) (pairs grantees expanded)) by (apply in_pairs_pairs; tauto).
      apply in_pairs_In in HI. congruence.
    + destruct (String.eqb o obj) eqn:Eo; [|left; reflexivity]. right. apply String.eqb_eq in Eo.
      destruct (in_pairs (pairs grantees expanded) r q) eqn:EI; [|reflexivity]. exfalso. apply H2.
      apply in_pairs_In, in_pairs_pairs in EI as [E1 E2]. split; [exact Eo|]. split; [exact E2|].
      exists r. split; [exact E1|]. left. reflexivity.
Qed.

(** ** REVOKE GRANT OPTION FOR never changes who holds what (when it returns at all) *)
Lemma fold_visit_option_ekeys : forall obj p (casc : list grant -> list string -> string -> option cstate),
  (forall G V x st, casc G V x = Some st -> map ekey (fst st) = map ekey G) ->
  forall ds st0 st, fold_opt (visit_then casc obj p true) ds st0 = Some st -> map ekey (fst st) = map ekey (fst st0).
Proof.
  intros obj p casc IHc. induction ds as [|d ds IH]; intros st0 st H.
  - cbn in H. inversion H. reflexivity.
  - cbn [fold_opt] in H. unfold visit_then in H at 1. destruct (mem d (snd st0)).
    + apply IH. exact H.
    + destruct (casc (remove_grants obj d p true (fst st0)) (d :: snd st0) d) as [st1|] eqn:E1; [|discriminate].
      apply IHc in E1. apply IH in H. rewrite H, E1. apply remove_option_ekeys.
Qed.

Lemma cascade_option_ekeys : forall obj p fuel G V x st,
  revoke_cascade fuel obj p true G V x = Some st -> map ekey (fst st) = map ekey G.
Proof.
  intros obj p. induction fuel as [|f IH]; intros G V x st H; [discriminate|].
  cbn [revoke_cascade] in H. apply (fold_visit_option_ekeys obj p _ IH) in H. exact H.
Qed.

Lemma revoke_fold_option_ekeys : forall fuel obj casc prs G G',
  fold_opt (revoke_one fuel obj true casc) prs G = Some G' -> map ekey G' = map ekey G.
Proof.
  intros fuel obj casc. induction prs as [|[ge p] prs IH]; intros G G' H.
  - cbn in H. inversion H. reflexivity.
  - destruct casc; cbn [fold_opt revoke_one] in H.
    + apply IH in H. rewrite H. apply remove_option_ekeys.
    + destruct (revoke_cascade fuel obj p true (remove_grants obj ge p true G) [ge] ge) as [st1|] eqn:E1; [|discriminate].
      apply cascade_option_ekeys in E1. apply IH in H. rewrite H, E1. apply remove_option_ekeys.
    + apply IH in H. rewrite H. apply remove_option_ekeys.
Qed.

(** * one step of the state machine *)

Lemma step_fail_unchanged : forall s o, snd (step s o) <> ROk -> fst (step s o) = s.
Proof.
  intros s o H. destruct o; cbn in *; try congruence.
  - unfold exec_create_role in *. destruct (role_exists s r); cbn in *; congruence.
  - unfold exec_drop_role in *. destruct (role_exists s r); cbn in *; congruence.
  - unfold exec_grant in *. destruct (grant_object_check s privs ot obj); [|reflexivity].
    destruct (all_roles_exist s grantees); [|reflexivity].
    destruct (grant_authorised s obj _); cbn in *; congruence.
  - unfold exec_revoke in *. destruct (revoke_object_check s ot obj); [reflexivity|].
    destruct (negb (all_roles_exist s grantees)); [reflexivity|].
    destruct (_ && _); [reflexivity|].
    destruct (fold_opt _ _ _); cbn in *; congruence.
Qed.

(** what a successful GRANT adds *)
Definition grant_adds (s : state) (privs : list privilege) (ot : objtype) (obj : string) (grantees : list string)
           (r o : string) (q : privilege) : Prop :=
  o = obj /\ In r grantees /\ exists actual, grant_object_check s privs ot obj = inl actual /\ In q (expand privs actual).

Lemma has_in_new_grants : forall obj ot expanded grantees grantor wgo r o q,
  has_privilege_in (new_grants obj ot expanded grantees grantor wgo) r o q = true <->
  o = obj /\ In r grantees /\ In q expanded.
Proof.
  intros. rewrite has_in_spec. unfold new_grants. split.
  - intros [g [Hg [H1 [H2 H3]]]]. apply in_flat_map in Hg as [ge [Hge Hg]].
    apply in_map_iff in Hg as [p [E Hp]]. subst g. cbn in *. subst. tauto.
  - intros [H1 [H2 H3]]. exists (mkGrant obj ot q r grantor wgo). split; [|cbn; repeat split; congruence].
    apply in_flat_map. exists r. split; [exact H2|]. apply in_map_iff. exists q. tauto.
Qed.

Theorem exec_grant_has : forall s privs ot obj grantees wgo s',
  exec_grant s privs ot obj grantees wgo = (s', ROk) ->
  forall r o q, has_privilege s' r o q = true <->
                has_privilege s r o q = true \/ grant_adds s privs ot obj grantees r o q.
Proof.
  intros s privs ot obj grantees wgo s' H r o q. unfold exec_grant in H. unfold grant_adds.
  destruct (grant_object_check s privs ot obj) as [actual|e] eqn:EC; [|inversion H].
  destruct (all_roles_exist s grantees); [|inversion H].
  destruct (grant_authorised s obj (expand privs actual)); [|inversion H]. inversion H; subst s'. clear H.
  unfold has_privilege. cbn [st_grants set_grants]. rewrite has_in_app, orb_true_iff, has_in_new_grants.
  split; (intros [H|H]; [left; exact H|right]).
  - destruct H as [H1 [H2 H3]]. split; [exact H1|]. split; [exact H2|]. exists actual. tauto.
  - destruct H as [H1 [H2 [a [Ha H3]]]]. inversion Ha; subst a. tauto.
Qed.

Theorem exec_revoke_has : forall s gof privs ot obj grantees casc s',
  exec_revoke s gof privs ot obj grantees casc = (s', ROk) ->
  forall r o q, has_privilege s' r o q = true <->
                has_privilege s r o q = true /\
                ~ (gof = false /\ o = obj /\ revoke_hits obj (st_grants s) grantees (expand privs ot) casc r q).
Proof.
  intros s gof privs ot obj grantees casc s' H r o q. unfold exec_revoke in H.
  destruct (revoke_object_check s ot obj); [inversion H|].
  destruct (negb (all_roles_exist s grantees)); [inversion H|].
  destruct (_ && _); [inversion H|].
  destruct (fold_opt _ _ _) as [G'|] eqn:EF; [|inversion H]. inversion H; subst s'. clear H.
  unfold has_privilege. cbn [st_grants set_grants].
  destruct gof.
  - apply revoke_fold_option_ekeys in EF. apply ekeys_keys in EF.
    rewrite (has_in_keys _ _ r o q EF). split; [intro H; split; [exact H | intros [F _]; discriminate] | tauto].
  - rewrite (revoke_fold_has _ _ _ _ _ _ _ EF r o q). split; intros [H1 H2]; (split; [exact H1|]); tauto.
Qed.

(** [Grants s o r obj q]: executed in state [s], operation [o] succeeds and gives [r] the privilege [q] on [obj].
    [Kills s o r obj q]: executed in state [s], operation [o] succeeds and takes [q] on [obj] away from [r]:
    a REVOKE without GRANT OPTION FOR, on the same object string, whose (expanded) privilege list contains
    [q] (compared with derive(PartialEq): the column list is part of the privilege), naming [r] or - with
    CASCADE - a grantee from which [r] is reachable along grants of [q] on [obj] (grantor -> grantee edges of
    the table as it is when the REVOKE starts). *)
Definition Grants (s : state) (o : op) (r obj : string) (q : privilege) : Prop :=
  snd (step s o) = ROk /\
  match o with
  | OGrant privs ot ob grantees _ => grant_adds s privs ot ob grantees r obj q
  | _ => False
  end.

Definition Kills (s : state) (o : op) (r obj : string) (q : privilege) : Prop :=
  snd (step s o) = ROk /\
  match o with
  | ORevoke gof privs ot ob grantees casc =>
      gof = false /\ obj = ob /\ revoke_hits ob (st_grants s) grantees (expand privs ot) casc r q
  | _ => False
  end.

Lemma pair_eta : forall (A B : Type) (x : A * B), x = (fst x, snd x).
Proof. intros A B [a b]. reflexivity. Qed.

Theorem one_step : forall s o r obj q,
  has_privilege (fst (step s o)) r obj q = true <->
  Grants s o r obj q \/ (has_privilege s r obj q = true /\ ~ Kills s o r obj q).
Proof.
  intros s o r obj q.
  destruct (snd (step s o)) eqn:ER.
  2,3: (rewrite step_fail_unchanged by congruence; unfold Grants, Kills; rewrite ER; split;
        [intro H; right; split; [exact H | intros [F _]; discriminate] | intros [[F _]|[H _]]; [discriminate | exact H]]).
  destruct o.
  1,2,5,6,7,8,9:
    (unfold Grants, Kills; cbn in *;
     match goal with
     | |- context [exec_create_role ?s ?r] => unfold exec_create_role in *; destruct (role_exists s r)
     | |- context [exec_drop_role ?s ?r] => unfold exec_drop_role in *; destruct (role_exists s r)
     | |- context [table_exists ?s ?t] => destruct (table_exists s t)
     | _ => idtac
     end; cbn in *; unfold has_privilege; cbn; tauto).
  - pose proof (exec_grant_has s privs ot obj0 grantees wgo (fst (step s (OGrant privs ot obj0 grantees wgo)))) as HG.
    cbn [step] in *. rewrite (pair_eta _ _ (exec_grant s privs ot obj0 grantees wgo)) in HG at 1. rewrite ER in HG.
    specialize (HG eq_refl r obj q). rewrite HG. unfold Grants, Kills. cbn [step]. rewrite ER. tauto.
  - pose proof (exec_revoke_has s gof privs ot obj0 grantees casc (fst (step s (ORevoke gof privs ot obj0 grantees casc)))) as HR.
    cbn [step] in *. rewrite (pair_eta _ _ (exec_revoke s gof privs ot obj0 grantees casc)) in HR at 1. rewrite ER in HR.
    specialize (HR eq_refl r obj q). rewrite HR. unfold Grants, Kills. cbn [step]. rewrite ER. tauto.
Qed.

(** * histories *)
Lemma exec_app : forall h1 h2 s, exec s (h1 ++ h2) = exec (exec s h1) h2.
Proof. induction h1 as [|o h1 IH]; intros h2 s; cbn; [reflexivity | apply IH]. Qed.

Lemma exec_snoc : forall h o s, exec s (h ++ [o]) = fst (step (exec s h) o).
Proof. intros. rewrite exec_app. reflexivity. Qed.

Lemma snoc_decomp : forall (A : Type) (t a b : list A) (x o : A),
  (t ++ [x] = a ++ o :: b)%list ->
  (b = [] /\ a = t /\ o = x) \/ (exists b', b = (b' ++ [x])%list /\ t = (a ++ o :: b')%list).
Proof.
  intros A t a b x o H. destruct b as [|y b] using rev_ind.
  - left. apply app_inj_tail in H as [H1 H2]. subst. tauto.
  - right. clear IHb. exists b. 
    assert (E : (a ++ o :: b ++ [y] = (a ++ o :: b) ++ [y])%list) by (rewrite <- app_assoc; reflexivity).
    rewrite E in H. apply app_inj_tail in H as [H1 H2]. subst. tauto.
Qed.

(** no operation of [post], executed after [pre] (both starting from [s]), takes [q] on [obj] away from [r] *)
Definition no_later_kill (s : state) (pre post : list op) (r obj : string) (q : privilege) : Prop :=
  forall a o b, post = (a ++ o :: b)%list -> ~ Kills (exec s (pre ++ a)) o r obj q.

Lemma nlk_nil : forall s pre r obj q, no_later_kill s pre [] r obj q.
Proof. intros s pre r obj q a o b H. destruct a; discriminate. Qed.

Lemma nlk_snoc : forall s pre post x r obj q,
  no_later_kill s pre (post ++ [x]) r obj q <->
  no_later_kill s pre post r obj q /\ ~ Kills (exec s (pre ++ post)) x r obj q.
Proof.
  intros s pre post x r obj q. split.
  - intro H. split.
    + intros a o b E. apply (H a o (b ++ [x])%list). rewrite E. rewrite <- app_assoc. reflexivity.
    + apply (H post x []). reflexivity.
  - intros [H1 H2] a o b E. apply snoc_decomp in E as [[Eb [Ea Eo]]|[b' [Eb Et]]].
    + subst. exact H2.
    + eapply H1. exact Et.
Qed.

(** C26 privilege_history: a role holds a privilege after a history iff it held it initially and nothing
    took it away, or some GRANT in the history gave it and no later REVOKE took it away. *)
Theorem privilege_history : forall h s r obj q,
  has_privilege (exec s h) r obj q = true <->
  (has_privilege s r obj q = true /\ no_later_kill s [] h r obj q) \/
  (exists h1 o h2, h = (h1 ++ o :: h2)%list /\ Grants (exec s h1) o r obj q /\
                   no_later_kill s (h1 ++ [o]) h2 r obj q).
Proof.
  induction h as [|x t IH] using rev_ind; intros s r obj q.
  - cbn [exec]. split.
    + intro H. left. split; [exact H | apply nlk_nil].
    + intros [[H _]|[h1 [o [h2 [E _]]]]]; [exact H | destruct h1; discriminate].
  - rewrite exec_snoc, one_step, IH. split.
    + intros [HG|[[[H0 HN]|[h1 [o [h2 [E [HG HN]]]]]] HK]].
      * right. exists t, x, []. split; [reflexivity|]. split; [exact HG | apply nlk_nil].
      * left. split; [exact H0|]. apply nlk_snoc. split; [exact HN | exact HK].
      * right. exists h1, o, (h2 ++ [x])%list. split; [subst t; rewrite <- app_assoc; reflexivity|].
        split; [exact HG|]. apply nlk_snoc. split; [exact HN|].
        assert (Et : ((h1 ++ [o]) ++ h2 = t)%list) by (subst t; rewrite <- app_assoc; reflexivity).
        rewrite Et. exact HK.
    + intros [[H0 HN]|[h1 [o [h2 [E [HG HN]]]]]].
      * apply nlk_snoc in HN as [HN HK]. right. split; [left; split; assumption | exact HK].
      * apply snoc_decomp in E as [[Eb [Ea Eo]]|[b' [Eb Et]]].
        -- subst. left. exact HG.
        -- subst h2. apply nlk_snoc in HN as [HN HK]. right. split.
           ++ right. exists h1, o, b'. split; [exact Et|]. split; assumption.
           ++ assert (E2 : ((h1 ++ [o]) ++ b' = t)%list) by (subst t; rewrite <- app_assoc; reflexivity).
              rewrite E2 in HK. exact HK.
Qed.

(** starting without grants ([Database::new()]): exactly "a GRANT with no later matching REVOKE" *)
Corollary privilege_history_fresh : forall h s r obj q,
  st_grants s = [] ->
  (has_privilege (exec s h) r obj q = true <->
   exists h1 o h2, h = (h1 ++ o :: h2)%list /\ Grants (exec s h1) o r obj q /\
                   no_later_kill s (h1 ++ [o]) h2 r obj q).
Proof.
  intros h s r obj q E. rewrite privilege_history. split.
  - intros [[H _]|H]; [|exact H]. unfold has_privilege in H. rewrite E in H. discriminate.
  - intro H. right. exact H.
Qed.

(** * the permission check *)
Lemma check_security_off : forall s obj p, st_security s = false -> check_privilege s obj p = true.
Proof. intros s obj p H. unfold check_privilege. rewrite H. reflexivity. Qed.

Lemma check_admin : forall s obj p, is_admin (current_role s) = true -> check_privilege s obj p = true.
Proof. intros s obj p H. unfold check_privilege. rewrite H. destruct (negb (st_security s)); reflexivity. Qed.

Lemma check_spec : forall s obj p,
  st_security s = true -> is_admin (current_role s) = false ->
  check_privilege s obj p = has_privilege s (current_role s) obj p.
Proof. intros s obj p H1 H2. unfold check_privilege. rewrite H1, H2. reflexivity. Qed.

(** a denied check is an error and leaves the state alone *)
Theorem check_denied_changes_nothing : forall s k obj,
  check_privilege s obj (kind_priv k) = false -> step s (OCheck k obj) = (s, RErr EPermissionDenied).
Proof. intros s k obj H. cbn. rewrite H. reflexivity. Qed.

(** a check never changes the state, whatever its answer *)
Lemma check_pure : forall s k obj, fst (step s (OCheck k obj)) = s.
Proof. reflexivity. Qed.

(** C26 revoke_then_denied *)
Theorem revoke_then_not_held : forall s privs ot obj grantees casc s' r q,
  exec_revoke s false privs ot obj grantees casc = (s', ROk) ->
  In r grantees -> In q (expand privs ot) -> has_privilege s' r obj q = false.
Proof.
  intros s privs ot obj grantees casc s' r q H Hr Hq.
  destruct (has_privilege s' r obj q) eqn:E; [|reflexivity]. exfalso.
  apply (exec_revoke_has _ _ _ _ _ _ _ _ H r obj q) in E as [_ E]. apply E.
  split; [reflexivity|]. split; [reflexivity|]. split; [exact Hq|]. exists r. split; [exact Hr|]. left. reflexivity.
Qed.

Lemma exec_revoke_session : forall s gof privs ot obj grantees casc s',
  exec_revoke s gof privs ot obj grantees casc = (s', ROk) ->
  st_security s' = st_security s /\ st_role s' = st_role s.
Proof.
  intros s gof privs ot obj grantees casc s' H. unfold exec_revoke in H.
  destruct (revoke_object_check s ot obj); [inversion H|].
  destruct (negb (all_roles_exist s grantees)); [inversion H|].
  destruct (_ && _); [inversion H|].
  destruct (fold_opt _ _ _); inversion H; subst. split; reflexivity.
Qed.

Theorem revoke_then_denied : forall s privs ot obj grantees casc s' r k,
  exec_revoke s false privs ot obj grantees casc = (s', ROk) ->
  In r grantees -> In (kind_priv k) (expand privs ot) -> is_admin r = false ->
  forall s'', s'' = set_security (set_role s' (Some r)) true ->
  step s'' (OCheck k obj) = (s'', RErr EPermissionDenied).
Proof.
  intros s privs ot obj grantees casc s' r k H Hr Hq Ha s'' Es.
  apply check_denied_changes_nothing. rewrite check_spec; subst s''; [|reflexivity|exact Ha].
  cbn [current_role st_role set_security set_role]. unfold has_privilege. cbn [st_grants set_security set_role].
  apply (revoke_then_not_held _ _ _ _ _ _ _ _ _ H Hr Hq).
Qed.

(** * no GRANT, no gain *)
Definition is_grant (o : op) : bool := match o with OGrant _ _ _ _ _ => true | _ => false end.

Theorem no_grant_no_gain : forall h s r obj q,
  forallb (fun o => negb (is_grant o)) h = true ->
  has_privilege (exec s h) r obj q = true -> has_privilege s r obj q = true.
Proof.
  intros h s r obj q Hn H. apply privilege_history in H as [[H _]|[h1 [o [h2 [E [[_ HG] _]]]]]]; [exact H|].
  exfalso. rewrite forallb_forall in Hn. assert (Ho : In o h) by (subst h; apply in_or_app; right; left; reflexivity).
  apply Hn in Ho. destruct o; cbn in Ho; try discriminate; contradiction.
Qed.

(** * GRANT needs authority (fix "grant-requires-authority") *)

(** a successful GRANT under security by a non-administrator was covered, privilege by privilege, by a grant
    option of the session role *)
Theorem grant_success_authorised : forall s privs ot obj grantees wgo s',
  exec_grant s privs ot obj grantees wgo = (s', ROk) ->
  st_security s = true -> is_admin (current_role s) = false ->
  exists actual, grant_object_check s privs ot obj = inl actual /\
  forall p, In p (expand privs actual) ->
    exists g, In g (st_grants s) /\ g_object g = obj /\ g_grantee g = current_role s /\ g_priv g = p /\ g_wgo g = true.
Proof.
  intros s privs ot obj grantees wgo s' H Hs Ha. unfold exec_grant in H.
  destruct (grant_object_check s privs ot obj) as [actual|e]; [|inversion H].
  destruct (all_roles_exist s grantees); [|inversion H].
  destruct (grant_authorised s obj (expand privs actual)) eqn:EA; [|inversion H].
  exists actual. split; [reflexivity|]. intros p Hp.
  unfold grant_authorised in EA. rewrite Hs, Ha in EA. cbn [negb orb] in EA.
  rewrite forallb_forall in EA. apply EA in Hp. unfold may_grant in Hp.
  apply existsb_exists in Hp as [g [Hg Hm]]. apply andb_true_iff in Hm as [Hm Hw].
  apply matches_spec in Hm as [H1 [H2 H3]]. exists g. tauto.
Qed.

(** for an administrator, and while security is disabled, GRANT behaves as it did before the fix *)
Theorem grant_same_for_admin : forall s privs ot obj grantees wgo,
  st_security s = false \/ is_admin (current_role s) = true ->
  exec_grant s privs ot obj grantees wgo = exec_grant_before s privs ot obj grantees wgo.
Proof.
  intros s privs ot obj grantees wgo H. unfold exec_grant, exec_grant_before.
  destruct (grant_object_check s privs ot obj); [|reflexivity].
  destruct (all_roles_exist s grantees); [|reflexivity].
  unfold grant_authorised. destruct H as [H|H]; rewrite H; cbn; [reflexivity|].
  rewrite orb_true_r. reflexivity.
Qed.

(** the session of a role that holds nothing: the GRANT to itself is refused now; before the fix it succeeded
    and the check passed afterwards (former known finding grant-without-authority) *)
Definition esc_state : state :=
  mkState [] ["R1"] ["T"] ["public"] true (Some "R1").

Example self_grant_refused :
  check_privilege esc_state "T" (PSelect None) = false /\
  is_admin (current_role esc_state) = false /\
  step esc_state (OGrant [PSelect None] OTable "T" ["R1"] false) = (esc_state, RErr EPermissionDenied) /\
  (let s' := fst (exec_grant_before esc_state [PSelect None] OTable "T" ["R1"] false) in
   snd (exec_grant_before esc_state [PSelect None] OTable "T" ["R1"] false) = ROk /\
   check_privilege s' "T" (PSelect None) = true).
Proof. vm_compute. repeat split. Qed.

(** ** no escalation: a session without grant option on an object cannot make anybody's privileges on it grow *)

(** every grant of [G'] that carries the grant option is a grant of [G] *)
Definition wgo_sub (G' G : list grant) : Prop := forall g, In g G' -> g_wgo g = true -> In g G.

Lemma wgo_sub_refl : forall G, wgo_sub G G.
Proof. intros G g H _. exact H. Qed.

Lemma wgo_sub_trans : forall A B C, wgo_sub A B -> wgo_sub B C -> wgo_sub A C.
Proof. intros A B C H1 H2 g Hg Hw. apply H2; [apply H1; assumption | exact Hw]. Qed.

Lemma remove_wgo_sub : forall obj ge p gof G, wgo_sub (remove_grants obj ge p gof G) G.
Proof.
  intros obj ge p gof G g Hg Hw. unfold remove_grants in Hg. destruct gof.
  - apply in_map_iff in Hg as [g0 [E Hg0]]. destruct (matches obj ge p g0).
    + subst g. cbn in Hw. discriminate.
    + subst g. exact Hg0.
  - apply filter_In in Hg. tauto.
Qed.

Lemma fold_visit_wgo_sub : forall obj p gof (casc : list grant -> list string -> string -> option cstate),
  (forall G V x st, casc G V x = Some st -> wgo_sub (fst st) G) ->
  forall ds st0 st, fold_opt (visit_then casc obj p gof) ds st0 = Some st -> wgo_sub (fst st) (fst st0).
Proof.
  intros obj p gof casc IHc. induction ds as [|d ds IH]; intros st0 st H.
  - cbn in H. inversion H. apply wgo_sub_refl.
  - cbn [fold_opt] in H. unfold visit_then in H at 1. destruct (mem d (snd st0)).
    + apply IH. exact H.
    + destruct (casc (remove_grants obj d p gof (fst st0)) (d :: snd st0) d) as [st1|] eqn:E1; [|discriminate].
      apply IHc in E1. apply IH in H.
      eapply wgo_sub_trans; [exact H|]. eapply wgo_sub_trans; [exact E1 | apply remove_wgo_sub].
Qed.

Lemma cascade_wgo_sub : forall obj p gof fuel G V x st,
  revoke_cascade fuel obj p gof G V x = Some st -> wgo_sub (fst st) G.
Proof.
  intros obj p gof. induction fuel as [|f IH]; intros G V x st H; [discriminate|].
  cbn [revoke_cascade] in H. apply (fold_visit_wgo_sub obj p gof _ IH) in H. exact H.
Qed.

Lemma revoke_fold_wgo_sub : forall fuel obj gof casc prs G G',
  fold_opt (revoke_one fuel obj gof casc) prs G = Some G' -> wgo_sub G' G.
Proof.
  intros fuel obj gof casc. induction prs as [|[ge p] prs IH]; intros G G' H.
  - cbn in H. inversion H. apply wgo_sub_refl.
  - destruct casc; cbn [fold_opt revoke_one] in H.
    + apply IH in H. eapply wgo_sub_trans; [exact H | apply remove_wgo_sub].
    + destruct (revoke_cascade fuel obj p gof (remove_grants obj ge p gof G) [ge] ge) as [st1|] eqn:E1; [|discriminate].
      apply cascade_wgo_sub in E1. apply IH in H.
      eapply wgo_sub_trans; [exact H|]. eapply wgo_sub_trans; [exact E1 | apply remove_wgo_sub].
    + apply IH in H. eapply wgo_sub_trans; [exact H | apply remove_wgo_sub].
Qed.

Lemma exec_revoke_wgo_sub : forall s gof privs ot obj grantees casc,
  wgo_sub (st_grants (fst (exec_revoke s gof privs ot obj grantees casc))) (st_grants s).
Proof.
  intros. unfold exec_revoke.
  destruct (revoke_object_check s ot obj); [apply wgo_sub_refl|].
  destruct (negb (all_roles_exist s grantees)); [apply wgo_sub_refl|].
  destruct (_ && _); [apply wgo_sub_refl|].
  destruct (fold_opt _ _ _) as [G'|] eqn:EF; [|apply wgo_sub_refl].
  cbn. eapply revoke_fold_wgo_sub. exact EF.
Qed.

(** the invariant of an unprivileged session on [obj] *)
Definition powerless (s : state) (r obj : string) : Prop :=
  st_security s = true /\ st_role s = Some r /\ is_admin r = false /\
  forall g, In g (st_grants s) -> g_object g = obj -> g_grantee g = r -> g_wgo g = false.

Lemma powerless_may_grant : forall s r obj p, powerless s r obj -> may_grant s obj p = false.
Proof.
  intros s r obj p [_ [Hr [_ Hw]]]. unfold may_grant.
  destruct (existsb _ _) eqn:E; [|reflexivity]. exfalso.
  apply existsb_exists in E as [g [Hg E]]. apply andb_true_iff in E as [Hm Hwgo].
  apply matches_spec in Hm as [H1 [H2 H3]].
  unfold current_role in H2. rewrite Hr in H2.
  rewrite (Hw g Hg H1 H2) in Hwgo. discriminate.
Qed.

Lemma revoke_session_fields : forall s gof privs ot obj grantees casc,
  st_security (fst (exec_revoke s gof privs ot obj grantees casc)) = st_security s /\
  st_role (fst (exec_revoke s gof privs ot obj grantees casc)) = st_role s.
Proof.
  intros. unfold exec_revoke.
  destruct (revoke_object_check s ot obj); [split; reflexivity|].
  destruct (negb (all_roles_exist s grantees)); [split; reflexivity|].
  destruct (_ && _); [split; reflexivity|].
  destruct (fold_opt _ _ _); split; reflexivity.
Qed.

(** one session step: the invariant is kept and nobody's privileges on [obj] grow *)
Lemma step_powerless : forall s o r obj,
  powerless s r obj -> session_op o = true ->
  powerless (fst (step s o)) r obj /\
  forall r' q, has_privilege (fst (step s o)) r' obj q = true -> has_privilege s r' obj q = true.
Proof.
  intros s o r obj HP Hs. pose proof HP as [Hsec [Hrole [Hadm Hw]]].
  destruct o; cbn in Hs; try discriminate; cbn [step].
  - unfold exec_create_role. destruct (role_exists s r0); cbn; (split; [exact HP | tauto]).
  - unfold exec_drop_role. destruct (role_exists s r0); cbn; (split; [exact HP | tauto]).
  - (* GRANT *)
    unfold exec_grant.
    destruct (grant_object_check s privs ot obj0) as [actual|e]; [|cbn; split; [exact HP | tauto]].
    destruct (all_roles_exist s grantees); [|cbn; split; [exact HP | tauto]].
    destruct (grant_authorised s obj0 (expand privs actual)) eqn:EA; [|cbn; split; [exact HP | tauto]].
    unfold grant_authorised in EA. rewrite Hsec in EA. unfold current_role in EA at 1. rewrite Hrole, Hadm in EA.
    cbn [negb orb] in EA.
    destruct (String.eqb obj0 obj) eqn:Eo.
    + apply String.eqb_eq in Eo. subst obj0.
      assert (Hnil : expand privs actual = []).
      { destruct (expand privs actual) as [|p l]; [reflexivity|]. cbn in EA.
        rewrite (powerless_may_grant s r obj p HP) in EA. discriminate. }
      rewrite Hnil. unfold new_grants. cbn [map].
      assert (Hf : flat_map (fun _ : string => @nil grant) grantees = []).
      { clear. induction grantees; [reflexivity | exact IHgrantees]. }
      rewrite Hf, app_nil_r. cbn. split.
      * repeat split; assumption.
      * tauto.
    + cbn [fst]. split.
      * repeat split; try assumption. intros g Hg Ho Hge. cbn [st_grants set_grants] in Hg.
        apply in_app_or in Hg as [Hg|Hg]; [apply Hw; assumption|].
        unfold new_grants in Hg. apply in_flat_map in Hg as [ge [_ Hg]]. apply in_map_iff in Hg as [p [E _]].
        subst g. cbn in Ho. subst obj0. rewrite String.eqb_refl in Eo. discriminate.
      * intros r' q H. unfold has_privilege in *. cbn [st_grants set_grants] in H.
        rewrite has_in_app in H. apply orb_true_iff in H as [H|H]; [exact H|].
        apply has_in_new_grants in H as [H _]. subst obj0. rewrite String.eqb_refl in Eo. discriminate.
  - (* REVOKE *)
    pose proof (exec_revoke_wgo_sub s gof privs ot obj0 grantees casc) as HS.
    pose proof (revoke_session_fields s gof privs ot obj0 grantees casc) as [F1 F2]. split.
    + repeat split; try congruence. intros g Hg Ho Hge.
      destruct (g_wgo g) eqn:E; [|reflexivity]. rewrite <- E. apply Hw; [|exact Ho|exact Hge]. apply HS; assumption.
    + intros r' q H.
      destruct (snd (exec_revoke s gof privs ot obj0 grantees casc)) eqn:ER.
      * pose proof (exec_revoke_has s gof privs ot obj0 grantees casc (fst (exec_revoke s gof privs ot obj0 grantees casc))) as HH.
        rewrite (pair_eta _ _ (exec_revoke s gof privs ot obj0 grantees casc)) in HH at 1. rewrite ER in HH.
        apply (HH eq_refl) in H. tauto.
      * pose proof (step_fail_unchanged s (ORevoke gof privs ot obj0 grantees casc)) as HF. cbn [step] in HF.
        rewrite HF in H by (rewrite ER; discriminate). exact H.
      * pose proof (step_fail_unchanged s (ORevoke gof privs ot obj0 grantees casc)) as HF. cbn [step] in HF.
        rewrite HF in H by (rewrite ER; discriminate). exact H.
  - cbn. split; [exact HP | tauto].
  - destruct (table_exists s t); cbn; (split; [exact HP | tauto]).
  - cbn. split; [exact HP | tauto].
Qed.

(** C26 no_self_escalation: whatever a non-administrator session without grant option on [obj] issues, no role
    ends up with a privilege on [obj] it did not have before *)
Theorem no_escalation : forall h s r obj,
  powerless s r obj -> forallb session_op h = true ->
  forall r' q, has_privilege (exec s h) r' obj q = true -> has_privilege s r' obj q = true.
Proof.
  induction h as [|o h IH]; intros s r obj HP Hs r' q H; [exact H|].
  cbn in Hs. apply andb_true_iff in Hs as [Ho Hs]. cbn [exec] in H.
  destruct (step_powerless s o r obj HP Ho) as [HP' Hmono].
  apply Hmono. eapply IH; eassumption.
Qed.

Example ex_powerless : powerless esc_state "R1" "T".
Proof. repeat split. intros g []. Qed.

(** delegation still works for a role that does hold the grant option *)
Example ex_authorised_delegation :
  let h := [OCreateRole "R1"; OCreateRole "R2"; OGrant [PSelect None; PInsert None] OTable "T" ["R1"] true;
            OSetSecurity true; OSetRole (Some "R1");
            OGrant [PSelect None] OTable "T" ["R2"] false;          (* covered by R1's grant option *)
            OGrant [PDelete] OTable "T" ["R2"] false;               (* not covered *)
            OSetRole (Some "R2");
            OGrant [PSelect None] OTable "T" ["R1"] false ] in      (* R2 holds SELECT without grant option *)
  results (init_state ["T"] ["public"]) h =
    [ROk; ROk; ROk; ROk; ROk; ROk; RErr EPermissionDenied; ROk; RErr EPermissionDenied].
Proof. vm_compute. reflexivity. Qed.

(** * CASCADE always terminates (both modes): every recursive call marks a new grantee *)
Definition grantees_in (G : list grant) (N : list string) : Prop := forall g, In g G -> In (g_grantee g) N.

Lemma remove_grantees_in : forall obj d p gof G N, grantees_in G N -> grantees_in (remove_grants obj d p gof G) N.
Proof.
  intros obj d p gof G N H g Hg. unfold remove_grants in Hg. destruct gof.
  - apply in_map_iff in Hg as [g0 [E Hg0]]. destruct (matches obj d p g0); subst g; [cbn|]; apply H; exact Hg0.
  - apply filter_In in Hg as [Hg _]. apply H. exact Hg.
Qed.

Definition term_post (N base : list string) (added : list string) (o : option cstate) : Prop :=
  exists G' added', o = Some (G', (added' ++ base)%list) /\ grantees_in G' N /\ NoDup added' /\ incl added' N /\
                    List.length added <= List.length added'.

Lemma fold_visit_terminates : forall obj p gof N base f (casc : list grant -> list string -> string -> option cstate),
  (forall G added x, grantees_in G N -> NoDup added -> incl added N -> List.length N < List.length added + f ->
                     term_post N base added (casc G (added ++ base)%list x)) ->
  forall ds G added, (forall d, In d ds -> In d N) -> grantees_in G N -> NoDup added -> incl added N ->
  List.length N < List.length added + S f ->
  term_post N base added (fold_opt (visit_then casc obj p gof) ds (G, (added ++ base)%list)).
Proof.
  intros obj p gof N base f casc IHc. induction ds as [|d ds IH]; intros G added Hd HG Hnd Hin Hlen.
  - exists G, added. cbn. repeat split; try assumption. lia.
  - cbn [fold_opt]. unfold visit_then at 1. cbn [fst snd].
    destruct (mem d (added ++ base)) eqn:Em.
    + apply IH; try assumption. intros d' Hd'. apply Hd. right. exact Hd'.
    + assert (Hnot : ~ In d added).
      { intro C. assert (mem d (added ++ base) = true) by (apply mem_In, in_or_app; left; exact C). congruence. }
      destruct (IHc (remove_grants obj d p gof G) (d :: added) d) as [G1 [added1 [E1 [HG1 [Hnd1 [Hin1 Hl1]]]]]].
      * apply remove_grantees_in. exact HG.
      * constructor; assumption.
      * intros z [E|Hz]; [subst; apply Hd; left; reflexivity | apply Hin; exact Hz].
      * cbn. lia.
      * change ((d :: added) ++ base)%list with (d :: (added ++ base))%list in E1. rewrite E1.
        destruct (IH G1 added1) as [G2 [added2 [E2 [HG2 [Hnd2 [Hin2 Hl2]]]]]]; try assumption.
        -- intros d' Hd'. apply Hd. right. exact Hd'.
        -- cbn in Hl1. lia.
        -- exists G2, added2. repeat split; try assumption. cbn in Hl1. lia.
Qed.

Lemma cascade_terminates_aux : forall obj p gof N base fuel G added x,
  grantees_in G N -> NoDup added -> incl added N -> List.length N < List.length added + fuel ->
  term_post N base added (revoke_cascade fuel obj p gof G (added ++ base)%list x).
Proof.
  intros obj p gof N base. induction fuel as [|f IH]; intros G added x HG Hnd Hin Hlen.
  - exfalso. pose proof (NoDup_incl_length Hnd Hin). lia.
  - cbn [revoke_cascade]. apply (fold_visit_terminates obj p gof N base f _ IH); try assumption.
    intros d Hd. apply in_map_iff in Hd as [g [E Hg]]. apply filter_In in Hg as [Hg _]. subst d. apply HG. exact Hg.
Qed.

Theorem cascade_terminates : forall obj p gof N fuel G ge,
  grantees_in G N -> List.length N < fuel ->
  exists st, revoke_cascade fuel obj p gof G [ge] ge = Some st /\ grantees_in (fst st) N.
Proof.
  intros obj p gof N fuel G ge HG Hl.
  destruct (cascade_terminates_aux obj p gof N [ge] fuel G [] ge HG (NoDup_nil _) (incl_nil_l _)) as [G' [added' [E [HG' _]]]].
  - cbn. lia.
  - cbn [app] in E. exists (G', (added' ++ [ge])%list). split; [exact E | exact HG'].
Qed.

Lemma revoke_fold_terminates : forall fuel obj gof casc N prs G,
  grantees_in G N -> List.length N < fuel ->
  exists G', fold_opt (revoke_one fuel obj gof casc) prs G = Some G' /\ grantees_in G' N.
Proof.
  intros fuel obj gof casc N. induction prs as [|[ge p] prs IH]; intros G HG Hl.
  - exists G. split; [reflexivity | exact HG].
  - pose proof (remove_grantees_in obj ge p gof G N HG) as HG1.
    destruct casc; cbn [fold_opt revoke_one].
    + apply IH; assumption.
    + destruct (cascade_terminates obj p gof N fuel (remove_grants obj ge p gof G) ge HG1 Hl) as [st [E HGs]].
      rewrite E. apply IH; assumption.
    + apply IH; assumption.
Qed.

(** no REVOKE - plain or GRANT OPTION FOR, with or without CASCADE, cyclic delegation graph or not - exhausts
    the recursion budget: the walk visits every grantee at most once *)
Theorem revoke_never_crashes : forall s gof privs ot obj grantees casc,
  snd (exec_revoke s gof privs ot obj grantees casc) <> RCrash.
Proof.
  intros. unfold exec_revoke.
  destruct (revoke_object_check s ot obj); [discriminate|].
  destruct (negb (all_roles_exist s grantees)); [discriminate|].
  destruct (_ && _); [discriminate|].
  destruct (revoke_fold_terminates (cascade_fuel (st_grants s)) obj gof casc (map g_grantee (st_grants s))
              (pairs grantees (expand privs ot)) (st_grants s)) as [G' [E _]].
  - intros g Hg. apply in_map. exact Hg.
  - unfold cascade_fuel. rewrite map_length. lia.
  - rewrite E. discriminate.
Qed.

Theorem step_never_crashes : forall s o, snd (step s o) <> RCrash.
Proof.
  intros s o. destruct o; cbn [step]; try discriminate.
  - unfold exec_create_role. destruct (role_exists s r); discriminate.
  - unfold exec_drop_role. destruct (role_exists s r); discriminate.
  - unfold exec_grant. destruct (grant_object_check s privs ot obj); [|discriminate].
    destruct (all_roles_exist s grantees); [|discriminate]. destruct (grant_authorised s obj _); discriminate.
  - apply revoke_never_crashes.
  - cbn. destruct (check_privilege s obj (kind_priv k)); discriminate.
Qed.

(** * delegation cycles *)
Lemma edge_ekey : forall obj G p x y, edge obj G p x y <-> In (obj, x, y, p) (map ekey G).
Proof.
  intros. rewrite in_map_iff. unfold edge, ekey. split.
  - intros [g [Hg [H1 [H2 [H3 H4]]]]]. exists g. split; [congruence | exact Hg].
  - intros [g [E Hg]]. exists g. inversion E. tauto.
Qed.

Lemma reach_ekeys : forall obj G H p x y, map ekey G = map ekey H -> reach obj G p x y -> reach obj H p x y.
Proof.
  intros obj G H p x y E R. induction R as [y Ed | y z _ IH Ed].
  - apply reach_one. apply edge_ekey. rewrite <- E. apply edge_ekey. exact Ed.
  - eapply reach_step; [exact IH|]. apply edge_ekey. rewrite <- E. apply edge_ekey. exact Ed.
Qed.

(** the history that used to kill the process (R1 grants to R2, R2 grants back to R1, then
    REVOKE GRANT OPTION FOR ... CASCADE): with the visited set it returns, and both grant options are gone *)
Definition cycle_history : list op :=
  [ OCreateRole "R1"; OCreateRole "R2";
    OSetRole (Some "R1"); OGrant [PSelect None] OTable "A" ["R2"] true;
    OSetRole (Some "R2"); OGrant [PSelect None] OTable "A" ["R1"] true;
    ORevoke true [PSelect None] OTable "A" ["R1"] CCascade ].

Example cycle_history_returns :
  results (init_state ["A"] ["public"]) cycle_history = [ROk; ROk; ROk; ROk; ROk; ROk; ROk] /\
  map g_wgo (st_grants (exec (init_state ["A"] ["public"]) cycle_history)) = [false; false] /\
  has_privilege (exec (init_state ["A"] ["public"]) cycle_history) "R1" "A" (PSelect None) = true.
Proof. vm_compute. repeat split. Qed.

(** the plain REVOKE ... CASCADE on the same cycle removes both grants *)
Example cycle_history_plain_cascade :
  st_grants (exec (init_state ["A"] ["public"]) (firstn 6 cycle_history ++ [ORevoke false [PSelect None] OTable "A" ["R1"] CCascade])) = [].
Proof. vm_compute. reflexivity. Qed.

(** * examples: the hypotheses of the theorems above are satisfiable by non-trivial inputs *)
Definition ex_history : list op :=
  [ OCreateRole "R1"; OCreateRole "R2"; OCreateRole "R3";
    OGrant [PAllPrivileges] OTable "T" ["R1"] true;
    OSetRole (Some "R1"); OGrant [PSelect None; PInsert None] OTable "T" ["R2"] true;
    OSetRole (Some "R2"); OGrant [PSelect None] OTable "T" ["R3"] false;
    OSetRole None;
    ORevoke true [PSelect None] OTable "T" ["R1"] CNone;
    ORevoke false [PInsert None] OTable "T" ["R2"] CRestrict;
    ORevoke false [PSelect None] OTable "T" ["R1"] CCascade;
    OGrant [PSelect (Some ["V"])] OTable "T" ["R3"] false;
    OSetSecurity true ].

Example ex_history_results :
  results (init_state ["T"] ["public"]) ex_history =
  [ROk; ROk; ROk; ROk; ROk; ROk; ROk; ROk; ROk; ROk; ROk; ROk; ROk; ROk].
Proof. vm_compute. reflexivity. Qed.

Example ex_history_privileges :
  let s := exec (init_state ["T"] ["public"]) ex_history in
  (* the CASCADE took SELECT from R1, and from R2 and R3 who had it through R1 *)
  has_privilege s "R1" "T" (PSelect None) = false /\
  has_privilege s "R2" "T" (PSelect None) = false /\
  has_privilege s "R3" "T" (PSelect None) = false /\
  (* untouched: R1's other privileges; the column-level grant is a different privilege *)
  has_privilege s "R1" "T" (PInsert None) = true /\
  has_privilege s "R2" "T" (PInsert None) = false /\
  has_privilege s "R3" "T" (PSelect (Some ["V"])) = true.
Proof. vm_compute. repeat split. Qed.

Example ex_restrict_blocks :
  let s := exec (init_state ["T"] ["public"]) (firstn 8 ex_history) in
  snd (step s (ORevoke false [PSelect None] OTable "T" ["R1"] CRestrict)) = RErr EDependentPrivileges.
Proof. vm_compute. reflexivity. Qed.

Example ex_revoke_then_denied :
  let s := exec (init_state ["T"] ["public"]) (firstn 8 ex_history) in
  exists s', exec_revoke s false [PAllPrivileges] OTable "T" ["R1"] CCascade = (s', ROk) /\
             In "R1" ["R1"] /\ In (kind_priv KSelect) (expand [PAllPrivileges] OTable) /\ is_admin "R1" = false.
Proof. vm_compute. eexists. repeat split; tauto. Qed.

Example ex_reach : reach "T" (st_grants (exec (init_state ["T"] ["public"]) (firstn 8 ex_history))) (PSelect None) "R1" "R3".
Proof.
  eapply reach_step; [apply reach_one|]; apply edge_ekey; vm_compute; tauto.
Qed.

Example ex_cycle_reach :
  reach "A" (st_grants (exec (init_state ["A"] ["public"]) (firstn 6 cycle_history))) (PSelect None) "R1" "R1".
Proof.
  eapply reach_step; [apply reach_one|]; apply edge_ekey; vm_compute; tauto.
Qed.

(** * the catalog operations by themselves *)
Theorem add_then_has : forall G g, has_privilege_in (add_grant G g) (g_grantee g) (g_object g) (g_priv g) = true.
Proof.
  intros. unfold add_grant. rewrite has_in_app. apply orb_true_iff. right.
  unfold has_privilege_in. cbn. unfold matches. rewrite !String.eqb_refl, priv_eqb_refl. reflexivity.
Qed.

Theorem add_other_unchanged : forall G g r o q,
  (r, o, q) <> (g_grantee g, g_object g, g_priv g) ->
  has_privilege_in (add_grant G g) r o q = has_privilege_in G r o q.
Proof.
  intros G g r o q H. unfold add_grant. rewrite has_in_app.
  destruct (has_privilege_in [g] r o q) eqn:E; [|apply orb_false_r].
  exfalso. apply H. apply has_in_spec in E as [g' [[E'|[]] [H1 [H2 H3]]]]. subst g'. congruence.
Qed.

Theorem remove_then_not_has : forall obj ge p G, has_privilege_in (remove_grants obj ge p false G) ge obj p = false.
Proof.
  intros. rewrite remove_full_prune, has_in_prune. unfold in_pairs. cbn.
  rewrite !String.eqb_refl, priv_eqb_refl. cbn. apply andb_false_r.
Qed.

Theorem remove_other_unchanged : forall obj ge p G r o q,
  (r, o, q) <> (ge, obj, p) ->
  has_privilege_in (remove_grants obj ge p false G) r o q = has_privilege_in G r o q.
Proof.
  intros obj ge p G r o q H. rewrite remove_full_prune, has_in_prune. unfold in_pairs. cbn. rewrite orb_false_r.
  destruct (String.eqb o obj) eqn:E1; [|cbn; apply andb_true_r].
  destruct (String.eqb r ge) eqn:E2; [|cbn; apply andb_true_r].
  destruct (priv_eqb q p) eqn:E3; [|cbn; apply andb_true_r].
  exfalso. apply H. apply String.eqb_eq in E1, E2. apply priv_eqb_eq in E3. congruence.
Qed.

Theorem remove_option_only_keeps_privileges : forall obj ge p G r o q,
  has_privilege_in (remove_grants obj ge p true G) r o q = has_privilege_in G r o q.
Proof. intros. apply has_in_keys. apply remove_option_keys. Qed.

Theorem remove_option_only_clears : forall obj ge p G g,
  In g (remove_grants obj ge p true G) -> matches obj ge p g = true -> g_wgo g = false.
Proof.
  intros obj ge p G g Hg Hm. unfold remove_grants in Hg. apply in_map_iff in Hg as [g0 [E Hg0]].
  destruct (matches obj ge p g0) eqn:E0; subst g; [reflexivity|].
  congruence.
Qed.

(** * RESTRICT *)
Lemma existsb_false_forall : forall (A : Type) (f : A -> bool) l, existsb f l = false -> forall x, In x l -> f x = false.
Proof.
  intros A f l H x Hx. destruct (f x) eqn:E; [|reflexivity].
  assert (existsb f l = true) by (apply existsb_exists; exists x; tauto). congruence.
Qed.

(** a REVOKE ... RESTRICT that succeeds found no grant made by a named grantee of a named privilege ... *)
Theorem restrict_success_no_dependents : forall s gof privs ot obj grantees s' ge p,
  exec_revoke s gof privs ot obj grantees CRestrict = (s', ROk) ->
  In ge grantees -> In p (expand privs ot) ->
  has_dependent_grants (st_grants s) obj ge p = false.
Proof.
  intros s gof privs ot obj grantees s' ge p H Hg Hp. unfold exec_revoke in H.
  destruct (revoke_object_check s ot obj); [inversion H|].
  destruct (negb (all_roles_exist s grantees)); [inversion H|].
  cbn [andb] in H. destruct (restrict_blocked (st_grants s) obj grantees (expand privs ot)) eqn:EB; [inversion H|].
  unfold restrict_blocked in EB.
  apply (existsb_false_forall _ _ _ EB (ge, p)). apply in_pairs_pairs. tauto.
Qed.

(** ... whereas the default (no CASCADE / RESTRICT keyword; "defaults to RESTRICT" says the comment in
    revoke.rs) neither refuses nor cascades: the dependent grant survives its grantor's revocation *)
Example default_revoke_leaves_dependents :
  let s := exec (init_state ["T"] ["public"]) (firstn 8 ex_history) in
  let s' := fst (step s (ORevoke false [PSelect None] OTable "T" ["R1"] CNone)) in
  snd (step s (ORevoke false [PSelect None] OTable "T" ["R1"] CNone)) = ROk /\
  has_privilege s' "R1" "T" (PSelect None) = false /\
  has_privilege s' "R2" "T" (PSelect None) = true /\          (* granted by R1 *)
  snd (step s (ORevoke false [PSelect None] OTable "T" ["R1"] CRestrict)) = RErr EDependentPrivileges.
Proof. vm_compute. repeat split. Qed.
