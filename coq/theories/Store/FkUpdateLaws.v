(** C12 laws, part 4: the UPDATE statement (update/mod.rs, update/foreign_keys.rs). *)
From Coq Require Import List ZArith Bool Arith Lia.
From VibeSQL Require Import Store.Fk Store.FkLaws Store.FkDeleteLaws Store.FkStepLaws.
Import ListNotations.

(* ------------------------------------------------------------------------------------ *)
(** * Row selection, assignments, the write loop *)

Lemma select_from_spec : forall wh rows i0,
  Forall (fun p => i0 <= fst p /\ nth_error rows (fst p - i0) = Some (snd p)) (select_from i0 wh rows)
  /\ NoDup (map fst (select_from i0 wh rows)).
Proof.
  intros wh rows. induction rows as [|r rows IH]; intros i0; cbn.
  - split; constructor.
  - destruct (IH (S i0)) as [F ND].
    assert (F' : Forall (fun p => i0 <= fst p /\ nth_error (r :: rows) (fst p - i0) = Some (snd p))
                   (select_from (S i0) wh rows)).
    { eapply Forall_impl; [|exact F]. intros [i x] [H1 H2]. cbn in *. split; [lia|].
      replace (i - i0) with (S (i - S i0)) by lia. exact H2. }
    destruct (selects wh r).
    + split.
      * constructor; [cbn; split; [lia|]; rewrite Nat.sub_diag; reflexivity|exact F'].
      * cbn. constructor; [|exact ND]. intros HI. apply in_map_iff in HI. destruct HI as [[i x] [E Hx]].
        rewrite Forall_forall in F. specialize (F _ Hx). cbn in *. lia.
    + split; assumption.
Qed.

Lemma apply_asg_length : forall tb asg orig acc nr,
  apply_asg tb asg orig acc = Some nr -> length nr = length acc.
Proof.
  intros tb asg orig. induction asg as [|[c e] asg IH]; intros acc nr H; cbn in H.
  - inversion H. reflexivity.
  - destruct (eval_expr tb c e orig); [|discriminate]. rewrite (IH _ _ H). apply set_nth_length.
Qed.

Lemma apply_asg_other : forall tb asg orig acc nr c,
  apply_asg tb asg orig acc = Some nr -> (forall a, In a asg -> fst a <> c) -> nth c nr None = nth c acc None.
Proof.
  intros tb asg orig. induction asg as [|[c0 e] asg IH]; intros acc nr c H Hn; cbn in H.
  - inversion H. reflexivity.
  - destruct (eval_expr tb c0 e orig); [|discriminate].
    rewrite (IH _ _ c H) by (intros a Ha; apply Hn; right; exact Ha).
    rewrite nth_set_nth. destruct (Nat.eqb c0 c) eqn:E; [|reflexivity].
    apply Nat.eqb_eq in E. exfalso. apply (Hn (c0, e)); [left; reflexivity|exact E].
Qed.

Definition upd_idx (u : nat * row * row) : nat := fst (fst u).
Definition upd_old (u : nat * row * row) : row := snd (fst u).
Definition upd_new (u : nat * row * row) : row := snd u.

(** what step 6 established for every planned update *)
Definition planned (d : db) (tb : table) (asg : list (nat * expr)) (u : nat * row * row) : Prop :=
  apply_asg tb asg (upd_old u) (upd_old u) = Some (upd_new u)
  /\ notnull_okb tb (upd_new u) = true
  /\ (forall pk, t_pk tb = Some pk ->
        In (proj pk (upd_new u)) (map (proj pk) (t_rows tb)) -> proj pk (upd_new u) = proj pk (upd_old u))
  /\ fk_validate proj d (t_fks tb) (upd_new u) = None.

Lemma plan_updates_spec : forall d tb asg sel ups,
  plan_updates d tb asg sel = UPlan ups ->
  map (fun u => (upd_idx u, upd_old u)) ups = sel /\ Forall (planned d tb asg) ups.
Proof.
  intros d tb asg sel. induction sel as [|[i r] sel IH]; intros ups H; cbn in H.
  - inversion H. split; [reflexivity|constructor].
  - destruct (apply_asg tb asg r r) as [nr|] eqn:Ea; [|discriminate].
    destruct (notnull_okb tb nr) eqn:En; cbn [negb] in H; [|discriminate].
    destruct (match t_pk tb with
              | Some pk => key_mem (proj pk nr) (map (proj pk) (t_rows tb)) && negb (key_eqb (proj pk nr) (proj pk r))
              | None => false end) eqn:Ep; [discriminate|].
    destruct (fk_validate proj d (t_fks tb) nr) eqn:Ef; [discriminate|].
    destruct (plan_updates d tb asg sel) as [ups0|] eqn:Er; try discriminate.
    inversion H; subst ups. destruct (IH ups0 eq_refl) as [E F]. split; [cbn; rewrite E; reflexivity|].
    constructor; [|exact F]. unfold planned, upd_old, upd_new. cbn. repeat split; auto.
    intros pk Hpk Hin. rewrite Hpk in Ep. apply andb_false_iff in Ep. destruct Ep as [Ep|Ep].
    + apply key_mem_false in Ep. contradiction.
    + apply negb_false_iff in Ep. apply key_eqb_eq in Ep. exact Ep.
Qed.

Lemma write_rows_length : forall ups rows, length (write_rows ups rows) = length rows.
Proof.
  induction ups as [|[[i o] n] ups IH]; intros rows; cbn; [reflexivity|]. rewrite IH. apply set_nth_length.
Qed.

Lemma nth_error_set_nth : forall {A} i j (x : A) l,
  nth_error (set_nth i x l) j = if Nat.eqb i j then (if Nat.ltb i (length l) then Some x else None) else nth_error l j.
Proof.
  intros A i j x l. revert i j. induction l as [|a l IH]; intros i j.
  - destruct i, j; cbn; try reflexivity. destruct (Nat.eqb i j); reflexivity.
  - destruct i, j; cbn; try reflexivity. rewrite IH. destruct (Nat.eqb i j); [|reflexivity].
    change (S i <? S (length l)) with (i <? length l). reflexivity.
Qed.

(** with distinct indices every addressed position holds its new row, the others are untouched *)
Lemma write_rows_nth : forall ups rows j,
  NoDup (map upd_idx ups) -> (forall u, In u ups -> upd_idx u < length rows) ->
  nth_error (write_rows ups rows) j =
  match find (fun u => Nat.eqb (upd_idx u) j) ups with
  | Some u => Some (upd_new u)
  | None => nth_error rows j
  end.
Proof.
  induction ups as [|[[i o] n] ups IH]; intros rows j ND HL; cbn; [reflexivity|].
  cbn in ND. inversion ND as [|? ? Hn ND']; subst.
  rewrite IH; [|exact ND'|intros u Hu; rewrite set_nth_length; apply HL; right; exact Hu].
  cbn [find]. change (upd_idx (i, o, n)) with i. change (upd_new (i, o, n)) with n. destruct (Nat.eqb i j) eqn:E.
  - apply Nat.eqb_eq in E. subst j.
    destruct (find (fun u => Nat.eqb (upd_idx u) i) ups) as [u|] eqn:Ef.
    + exfalso. apply find_some in Ef. destruct Ef as [Hu Eu]. apply Nat.eqb_eq in Eu.
      apply Hn. rewrite <- Eu. apply in_map. exact Hu.
    + rewrite nth_error_set_nth, Nat.eqb_refl.
      assert (H : i < length rows) by (apply (HL (i, o, n)); left; reflexivity).
      apply Nat.ltb_lt in H. rewrite H. reflexivity.
  - destruct (find (fun u => Nat.eqb (upd_idx u) j) ups); [reflexivity|].
    rewrite nth_error_set_nth, E. reflexivity.
Qed.

(* ------------------------------------------------------------------------------------ *)
(** * The scanning loop of ForeignKeyValidator::check_no_child_references *)

Definition matchp (t : nat) (oldk : key) (ct : table) (fk : fkdecl) : bool :=
  Nat.eqb (fk_parent fk) t && existsb (refs_u fk oldk) (t_rows ct).

Definition act_vs (ct : table) (newk : key) (fk : fkdecl) : option (list val) :=
  match fk_onupd fk with
  | ACascade => Some newk
  | ASetNull => Some (map (fun _ => None) (fk_cols fk))
  | ASetDefault => Some (fk_defaults ct fk)
  | _ => None
  end.

Definition batch_of (cn : nat) (ct : table) (oldk : key) (fk : fkdecl) (vs : list val) : child_batch :=
  (cn, collect_updates_from 0 (refs_u fk oldk) (set_cols (fk_cols fk) vs) (t_rows ct)).

Definition clean_fk (ct : table) (fk : fkdecl) : Prop :=
  (fk_onupd fk = ACascade -> fks_overlap ct fk = false)
  /\ (fk_onupd fk = ASetDefault -> forallb is_null (fk_defaults ct fk) = true).

Lemma scan_child_fks_spec : forall cn ct t oldk newk fks bs evs,
  scan_child_fks cn ct t oldk newk fks = Some (bs, evs) ->
  Forall2 (fun b fk => exists vs, act_vs ct newk fk = Some vs /\ b = batch_of cn ct oldk fk vs)
          bs (filter (matchp t oldk ct) fks)
  /\ (evs = [] -> Forall (clean_fk ct) (filter (matchp t oldk ct) fks)).
Proof.
  intros cn ct t oldk newk fks. induction fks as [|fk fks IH]; intros bs evs H; cbn in H.
  - inversion H; subst. cbn. split; constructor.
  - cbn [filter].
    destruct (Nat.eqb (fk_parent fk) t) eqn:Ep; cbn [negb] in H.
    2:{ assert (EM : matchp t oldk ct fk = false) by (unfold matchp; rewrite Ep; reflexivity).
        rewrite EM. apply IH; exact H. }
    destruct (existsb (refs_u fk oldk) (t_rows ct)) eqn:Eh; cbn [negb] in H.
    2:{ assert (EM : matchp t oldk ct fk = false) by (unfold matchp; rewrite Ep, Eh; reflexivity).
        rewrite EM. apply IH; exact H. }
    assert (EM : matchp t oldk ct fk = true) by (unfold matchp; rewrite Ep, Eh; reflexivity).
    rewrite EM.
    assert (MK : forall vs ev0,
      match scan_child_fks cn ct t oldk newk fks with
      | Some (bs0, evs') => Some ((cn, collect_updates_from 0 (refs_u fk oldk) (set_cols (fk_cols fk) vs) (t_rows ct)) :: bs0, ev0 ++ evs')
      | None => None
      end = Some (bs, evs) ->
      act_vs ct newk fk = Some vs -> (ev0 = [] -> clean_fk ct fk) ->
      Forall2 (fun b fk0 => exists vs0, act_vs ct newk fk0 = Some vs0 /\ b = batch_of cn ct oldk fk0 vs0)
          bs (fk :: filter (matchp t oldk ct) fks)
      /\ (evs = [] -> Forall (clean_fk ct) (fk :: filter (matchp t oldk ct) fks))).
    { intros vs ev0 HM HA HC. destruct (scan_child_fks cn ct t oldk newk fks) as [[bs0 evs']|]; [|discriminate].
      inversion HM; subst bs evs. destruct (IH bs0 evs' eq_refl) as [F C]. split.
      - constructor; [exists vs; split; [exact HA|reflexivity]|exact F].
      - intros Hev. apply app_eq_nil in Hev. destruct Hev as [-> ->]. constructor; auto. }
    destruct (fk_onupd fk) eqn:Ea; try discriminate.
    + apply (MK newk (if fks_overlap ct fk then [EvSideEffect] else [])); [exact H|unfold act_vs; rewrite Ea; reflexivity|].
      intros Hev. split; [|congruence]. intros _. destruct (fks_overlap ct fk); [discriminate|reflexivity].
    + apply (MK (map (fun _ => None) (fk_cols fk)) []); [exact H|unfold act_vs; rewrite Ea; reflexivity|].
      intros _. split; congruence.
    + apply (MK (fk_defaults ct fk) (if forallb is_null (fk_defaults ct fk) then [] else [EvSetDefault]));
        [exact H|unfold act_vs; rewrite Ea; reflexivity|].
      intros Hev. split; [congruence|]. intros _. destruct (forallb is_null (fk_defaults ct fk)); [reflexivity|discriminate].
Qed.

(** what is known of a collected batch *)
Definition desc (d : db) (t : nat) (oldk newk : key) (b : child_batch) : Prop :=
  exists ct fk vs, get_table d (fst b) = Some ct /\ In fk (t_fks ct) /\ matchp t oldk ct fk = true
                   /\ act_vs ct newk fk = Some vs /\ b = batch_of (fst b) ct oldk fk vs /\ clean_fk ct fk.

Lemma scan_tables_spec : forall ord d t oldk newk bs evs,
  scan_tables ord d t oldk newk = Some (bs, evs) -> evs = [] ->
  Forall (desc d t oldk newk) bs
  /\ (forall cn ct fk, In cn ord -> get_table d cn = Some ct -> In fk (t_fks ct) -> matchp t oldk ct fk = true ->
        exists b vs, In b bs /\ b = batch_of cn ct oldk fk vs).
Proof.
  intros ord d t oldk newk. induction ord as [|cn ord IH]; intros bs evs H Hev; cbn in H.
  - inversion H; subst. split; [constructor|]. intros ? ? ? [].
  - destruct (get_table d cn) as [ct|] eqn:G.
    + destruct (scan_child_fks cn ct t oldk newk (t_fks ct)) as [[bs1 evs1]|] eqn:E1; [|discriminate].
      destruct (scan_tables ord d t oldk newk) as [[bs2 evs2]|] eqn:E2; [|discriminate].
      inversion H as [[Hb He]]. rewrite Hev in He. apply app_eq_nil in He. destruct He as [-> ->]. clear Hb.
      destruct (scan_child_fks_spec _ _ _ _ _ _ _ _ E1) as [F1 C1]. specialize (C1 eq_refl).
      destruct (IH _ _ eq_refl eq_refl) as [F2 K2]. split.
      * apply Forall_app. split; [|exact F2].
        assert (forall l1 l2, Forall2 (fun b fk => exists vs, act_vs ct newk fk = Some vs /\ b = batch_of cn ct oldk fk vs) l1 l2 ->
                  Forall (clean_fk ct) l2 -> (forall fk, In fk l2 -> In fk (t_fks ct) /\ matchp t oldk ct fk = true) ->
                  Forall (desc d t oldk newk) l1) as X.
        { intros l1 l2 FF. induction FF as [|b fk l1 l2 [vs [HA HB]] FF IHF]; intros CC HI; constructor.
          - inversion CC as [|? ? Hc1 Hc2]; subst. destruct (HI fk (or_introl eq_refl)) as [Hi1 Hi2].
            exists ct, fk, vs. cbn. repeat split; auto; apply Hc1.
          - inversion CC; subst. apply IHF; [assumption|]. intros fk0 H0. apply HI. right. exact H0. }
        eapply X; [exact F1|exact C1|]. intros fk Hfk. apply filter_In in Hfk. exact Hfk.
      * intros cn0 ct0 fk [->|Hcn] G0 Hfk Hm.
        -- rewrite G in G0. inversion G0; subst ct0.
           assert (Hin : In fk (filter (matchp t oldk ct) (t_fks ct))) by (apply filter_In; auto).
           clear -F1 Hin. induction F1 as [|b fk0 l1 l2 [vs [HA HB]] FF IHF]; [contradiction|].
           destruct Hin as [->|Hin].
           ++ exists b, vs. split; [apply in_or_app; left; left; reflexivity|exact HB].
           ++ destruct (IHF Hin) as [b' [vs' [Hb' E']]]. exists b', vs'. split; [|exact E'].
              apply in_app_or in Hb'. apply in_or_app. destruct Hb' as [Hb'|Hb']; [left; right; exact Hb'|right; exact Hb'].
        -- destruct (K2 cn0 ct0 fk Hcn G0 Hfk Hm) as [b [vs [Hb E]]]. exists b, vs. split; [apply in_or_app; right; exact Hb|exact E].
    + destruct (IH _ _ H Hev) as [F2 K2]. split; [exact F2|].
      intros cn0 ct0 fk [->|Hcn] G0 Hfk Hm; [congruence|]. eapply K2; eassumption.
Qed.

(* ------------------------------------------------------------------------------------ *)
(** * Applying the collected batches *)

Definition batch_for (bs : list child_batch) (n : nat) : option child_batch :=
  find (fun b => Nat.eqb (fst b) n) bs.

Definition apply_map (bs : list child_batch) (x : table) : table :=
  match batch_for bs (t_name x) with
  | Some b => with_rows x (fst (apply_updates x (snd b) (t_rows x)))
  | None => x
  end.

Lemma batches_overlap_nodup : forall bs, batches_overlap bs = false -> NoDup (map fst bs).
Proof.
  induction bs as [|[cn ups] bs IH]; intros H; cbn in *; [constructor|].
  apply orb_false_iff in H. destruct H as [H1 H2]. constructor; [|auto].
  intros HI. apply in_map_iff in HI. destruct HI as [b [Eb Hb]].
  apply Bool.not_true_iff_false in H1. apply H1. apply existsb_exists.
  exists b. split; [exact Hb|apply Nat.eqb_eq; exact Eb].
Qed.

Lemma batch_for_none : forall bs n, ~ In n (map fst bs) -> batch_for bs n = None.
Proof.
  intros bs n H. unfold batch_for. destruct (find (fun b => Nat.eqb (fst b) n) bs) as [b|] eqn:E; [|reflexivity].
  apply find_some in E. destruct E as [Hb Eb]. apply Nat.eqb_eq in Eb. exfalso. apply H. rewrite <- Eb. apply in_map. exact Hb.
Qed.

Lemma apply_batches_spec : forall bs d ev d' ev',
  NoDup (names d) -> NoDup (map fst bs) ->
  apply_batches bs (d, ev) = OOk (d', ev') ->
  ev' = ev /\ d' = map (apply_map bs) d /\
  (forall b x, In b bs -> In x d -> t_name x = fst b -> snd (apply_updates x (snd b) (t_rows x)) = true).
Proof.
  induction bs as [|[cn ups] bs IH]; intros d ev d' ev' ND NB H; cbn [apply_batches] in H.
  - inversion H; subst. split; [reflexivity|]. split; [|intros ? ? []].
    unfold apply_map, batch_for. cbn. rewrite map_id. reflexivity.
  - cbn [fst snd] in H. destruct (get_table d cn) as [ct|] eqn:G; [|discriminate].
    destruct (apply_updates ct ups (t_rows ct)) as [rs' ok] eqn:EA. destruct ok; [|discriminate].
    cbn in NB. inversion NB as [|? ? Hn NB']; subst.
    pose proof (get_table_In _ _ _ G) as [Gin Gn].
    assert (ND1 : NoDup (names (set_rows d cn rs'))) by (rewrite names_set_rows; exact ND).
    destruct (IH _ _ _ _ ND1 NB' H) as [E1 [E2 E3]]. split; [exact E1|]. split.
    + rewrite E2. unfold set_rows. rewrite map_map. apply map_ext_in. intros x Hx.
      unfold apply_map at 2. unfold batch_for. cbn [find fst].
      destruct (Nat.eqb cn (t_name x)) eqn:En.
      * apply Nat.eqb_eq in En. assert (x = ct).
        { pose proof (In_get_table _ _ ND Hx) as Gx. rewrite <- En in Gx. congruence. }
        subst x. rewrite Gn, Nat.eqb_refl. unfold apply_map. cbn [t_name with_rows].
        rewrite Gn, (batch_for_none bs cn Hn). cbn [snd]. rewrite EA. reflexivity.
      * assert (En' : Nat.eqb (t_name x) cn = false) by (rewrite Nat.eqb_sym; exact En). rewrite En'.
        reflexivity.
    + intros b x [<-|Hb] Hx Hnx.
      * cbn in Hnx. assert (x = ct).
        { pose proof (In_get_table _ _ ND Hx) as Gx. rewrite Hnx in Gx. congruence. }
        subst x. cbn [snd]. rewrite EA. reflexivity.
      * apply (E3 b x Hb); [|exact Hnx]. apply In_set_rows. right. split; [exact Hx|].
        intros Hc. apply Hn. rewrite <- Hc, Hnx. apply in_map. exact Hb.
Qed.

Lemma apply_batches_suffix : forall bs w, suffix_of w (apply_batches bs w).
Proof.
  induction bs as [|[cn ups] bs IH]; intros w; cbn; [apply suffix_refl|].
  destruct (get_table (fst w) cn) as [ct|]; [|apply suffix_refl].
  destruct (apply_updates ct ups (t_rows ct)) as [rs' ok]. destruct ok; [|cbn; exists []; reflexivity].
  specialize (IH (set_rows (fst w) cn rs', snd w)).
  destruct (apply_batches bs (set_rows (fst w) cn rs', snd w)); cbn in *; exact IH.
Qed.

(* ------------------------------------------------------------------------------------ *)
(** * What one parent-key update does to the children *)

Lemma proj_set_cols_disjoint : forall cols1 vs cols2 r,
  (forall c, In c cols2 -> ~ In c cols1) -> proj cols2 (set_cols cols1 vs r) = proj cols2 r.
Proof.
  intros cols1 vs cols2 r H. unfold proj. apply map_ext_in. intros c Hc. apply nth_set_cols_other. apply H. exact Hc.
Qed.

Lemma proj_set_cols_same : forall cols vs r,
  NoDup cols -> length vs = length cols -> (forall c, In c cols -> c < length r) ->
  proj cols (set_cols cols vs r) = vs.
Proof.
  induction cols as [|c cols IH]; intros [|v vs] r ND HL HR; cbn in HL; try discriminate; [reflexivity|].
  inversion ND as [|? ? Hn ND']; subst. cbn [set_cols proj map]. f_equal.
  - rewrite nth_set_cols_other by exact Hn. rewrite nth_set_nth, Nat.eqb_refl.
    assert (H : c < length r) by (apply HR; left; reflexivity). apply Nat.ltb_lt in H. rewrite H. reflexivity.
  - apply IH; [exact ND'|lia|]. intros x Hx. rewrite set_nth_length. apply HR. right. exact Hx.
Qed.

Lemma strictly_ascending_nodup : forall l, strictly_ascending l = true -> NoDup l.
Proof.
  induction l as [|a l IH]; intros H; [constructor|].
  destruct (strictly_ascending_tail a l H) as [H1 H2]. constructor; [|auto].
  intros HI. specialize (H2 a HI). lia.
Qed.

Lemma proj_cell_le_cases : forall cols r' r, Forall2 cell_le r' r ->
  has_null (proj cols r') = true \/ proj cols r' = proj cols r.
Proof.
  intros cols r' r H. destruct (has_null (proj cols r')) eqn:E; [left; reflexivity|right].
  apply proj_le_nonnull; assumption.
Qed.

(** the relation between a child row after and before one key update of parent [t] *)
Definition moved (t : nat) (oldk newk : key) (C : table) (c' c : row) : Prop :=
  length c' = length c /\ pk_same (t_pk C) c' c /\
  forall fk, In fk (t_fks C) ->
    (proj (fk_cols fk) c' = proj (fk_cols fk) c /\ (fk_parent fk = t -> proj (fk_cols fk) c <> oldk))
    \/ has_null (proj (fk_cols fk) c') = true
    \/ (fk_parent fk = t /\ proj (fk_cols fk) c = oldk /\ proj (fk_cols fk) c' = newk).

Definition moved_tab (t : nat) (oldk newk : key) (x x' : table) : Prop :=
  same_schema x x' /\ Forall2 (moved t oldk newk x) (t_rows x') (t_rows x)
  /\ ((forall fk, In fk (t_fks x) -> fk_parent fk <> t) -> x' = x).

Definition moved_db (t : nat) (oldk newk : key) (d d' : db) : Prop :=
  Forall2 (moved_tab t oldk newk) d d'.

Lemma Forall2_map_r : forall {A B} (P : A -> B -> Prop) (f : A -> B) l,
  (forall x, In x l -> P x (f x)) -> Forall2 P l (map f l).
Proof.
  intros A B P f l H. induction l as [|a l IH]; cbn; constructor.
  - apply H. left. reflexivity.
  - apply IH. intros x Hx. apply H. right. exact Hx.
Qed.

Lemma Forall2_map_l : forall {A B} (P : B -> A -> Prop) (f : A -> B) l,
  (forall x, In x l -> P (f x) x) -> Forall2 P (map f l) l.
Proof.
  intros A B P f l H. induction l as [|a l IH]; cbn; constructor.
  - apply H. left. reflexivity.
  - apply IH. intros x Hx. apply H. right. exact Hx.
Qed.

Lemma NoDup_app_r : forall {A} (a b : list A), NoDup (a ++ b) -> NoDup b.
Proof. intros A a b. induction a as [|x a IH]; cbn; intros H; [exact H|]. inversion H; subst. auto. Qed.

(** at most one foreign key of a child table matched, and its batch is in the list *)
Lemma scan_tables_unique : forall ord d t oldk newk bs evs,
  scan_tables ord d t oldk newk = Some (bs, evs) -> NoDup (map fst bs) ->
  forall cn ct, In cn ord -> get_table d cn = Some ct ->
    filter (matchp t oldk ct) (t_fks ct) = [] \/
    exists fk vs, filter (matchp t oldk ct) (t_fks ct) = [fk] /\ act_vs ct newk fk = Some vs
                  /\ In (batch_of cn ct oldk fk vs) bs.
Proof.
  intros ord d t oldk newk. induction ord as [|cn0 ord IH]; intros bs evs H ND cn ct Hcn G; [contradiction|].
  cbn in H. destruct (get_table d cn0) as [ct0|] eqn:G0.
  - destruct (scan_child_fks cn0 ct0 t oldk newk (t_fks ct0)) as [[bs1 evs1]|] eqn:E1; [|discriminate].
    destruct (scan_tables ord d t oldk newk) as [[bs2 evs2]|] eqn:E2; [|discriminate].
    inversion H; subst bs evs. rewrite map_app in ND.
    destruct (scan_child_fks_spec _ _ _ _ _ _ _ _ E1) as [F1 _].
    destruct Hcn as [->|Hcn].
    + rewrite G in G0. inversion G0; subst ct0.
      assert (FST : forall b, In b bs1 -> fst b = cn).
      { clear -F1. induction F1 as [|b fk l1 l2 [vs [_ HB]] FF IHF]; intros b0 Hb0; [contradiction|].
        destruct Hb0 as [<-|Hb0]; [subst b; reflexivity|auto]. }
      destruct F1 as [|b fk l1 l2 [vs [HA HB]] FF]; [left; reflexivity|].
      right. destruct FF as [|b2 fk2 l1' l2' _ FF'].
      * exists fk, vs. split; [reflexivity|]. split; [exact HA|]. subst b. left. reflexivity.
      * exfalso. cbn in ND. apply NoDup_cons_iff in ND. destruct ND as [Hn _]. apply Hn.
        rewrite (FST b (or_introl eq_refl)), <- (FST b2 (or_intror (or_introl eq_refl))). left. reflexivity.
    + assert (ND2 : NoDup (map fst bs2)).
      { eapply NoDup_app_r. exact ND. }
      destruct (IH _ _ eq_refl ND2 cn ct Hcn G) as [L|[fk [vs [L1 [L2 L3]]]]]; [left; exact L|].
      right. exists fk, vs. repeat split; auto. apply in_or_app. right. exact L3.
  - destruct Hcn as [->|Hcn]; [congruence|]. eapply IH; eassumption.
Qed.

Lemma fks_overlap_false : forall ct fk, fks_overlap ct fk = false ->
  (forall c pk, In c (fk_cols fk) -> t_pk ct = Some pk -> ~ In c pk)
  /\ (forall c fk2, In c (fk_cols fk) -> In fk (t_fks ct) -> In fk2 (t_fks ct) -> In c (fk_cols fk2) -> fk2 = fk).
Proof.
  intros ct fk H. unfold fks_overlap in H. split.
  - intros c pk Hc Hpk HI.
    assert (X : existsb (fun c0 => match t_pk ct with Some pk0 => nat_mem c0 pk0 | None => false end
                  || Nat.ltb 1 (length (filter (fun fk' => nat_mem c0 (fk_cols fk')) (t_fks ct)))) (fk_cols fk) = true).
    { apply existsb_exists. exists c. split; [exact Hc|]. rewrite Hpk. apply orb_true_iff. left. apply nat_mem_In. exact HI. }
    congruence.
  - intros c fk2 Hc Hfk Hfk2 Hc2.
    destruct (existsb _ (fk_cols fk)) eqn:E in H; [discriminate|].
    assert (L : Nat.ltb 1 (length (filter (fun fk' => nat_mem c (fk_cols fk')) (t_fks ct))) = false).
    { destruct (Nat.ltb 1 (length (filter (fun fk' => nat_mem c (fk_cols fk')) (t_fks ct)))) eqn:EL; [|reflexivity].
      exfalso. apply Bool.not_true_iff_false in E. apply E. apply existsb_exists. exists c. split; [exact Hc|].
      apply orb_true_iff. right. exact EL. }
    apply Nat.ltb_ge in L.
    assert (I1 : In fk (filter (fun fk' => nat_mem c (fk_cols fk')) (t_fks ct)))
      by (apply filter_In; split; [exact Hfk|apply nat_mem_In; exact Hc]).
    assert (I2 : In fk2 (filter (fun fk' => nat_mem c (fk_cols fk')) (t_fks ct)))
      by (apply filter_In; split; [exact Hfk2|apply nat_mem_In; exact Hc2]).
    destruct (filter (fun fk' => nat_mem c (fk_cols fk')) (t_fks ct)) as [|a [|b l]]; cbn in L; try lia.
    + contradiction.
    + destruct I1 as [<-|[]]. destruct I2 as [<-|[]]. reflexivity.
Qed.

Lemma refs_u_iff : forall fk k r, refs_u fk k r = true <-> proj (fk_cols fk) r = k.
Proof. intros. unfold refs_u. apply key_eqb_eq. Qed.

Lemma std_fk_facts : forall d ct fk, inv d -> In ct d -> In fk (t_fks ct) ->
  NoDup (fk_cols fk) /\ (forall c, In c (fk_cols fk) -> c < ncols ct) /\ fk_cols fk <> []
  /\ exists pt, get_table d (fk_parent fk) = Some pt /\ t_pk pt = Some (fk_pcols fk)
                /\ length (fk_cols fk) = length (fk_pcols fk).
Proof.
  intros d ct fk I Hct Hfk. pose proof (std_fk _ _ _ (inv_std _ I) Hct Hfk) as S.
  pose proof (fk_standard_parent _ _ _ S) as P. unfold fk_standard in S.
  apply andb_true_iff in S. destruct S as [S _]. apply andb_true_iff in S. destruct S as [S1 S2].
  split; [apply nat_nodupb_NoDup; exact S1|]. split.
  - intros c Hc. rewrite forallb_forall in S2. specialize (S2 c Hc). apply Nat.ltb_lt. exact S2.
  - split; [eapply std_fk_cols_nonempty; eassumption|exact P].
Qed.

Lemma Forall2_refl_in : forall {A} (R : A -> A -> Prop) l, (forall a, In a l -> R a a) -> Forall2 R l l.
Proof.
  intros A R l H. induction l as [|a l IH]; constructor; [apply H; left; reflexivity|].
  apply IH. intros b Hb. apply H. right. exact Hb.
Qed.

(** rows of a table none of whose foreign keys matched the old key *)
Lemma moved_unmatched : forall t oldk newk x,
  (forall fk, In fk (t_fks x) -> matchp t oldk x fk = false) ->
  Forall2 (moved t oldk newk x) (t_rows x) (t_rows x).
Proof.
  intros t oldk newk x H. apply Forall2_refl_in. intros c Hc.
  split; [reflexivity|]. split; [destruct (t_pk x); cbn; auto|].
  intros fk Hfk. left. split; [reflexivity|]. intros Hp Heq.
  specialize (H fk Hfk). unfold matchp in H. apply andb_false_iff in H. destruct H as [H|H].
  - apply Nat.eqb_neq in H. contradiction.
  - apply Bool.not_true_iff_false in H. apply H. apply existsb_exists. exists c. split; [exact Hc|].
    apply refs_u_iff. exact Heq.
Qed.

Lemma filter_nil_all : forall {A} (f : A -> bool) l, filter f l = [] -> forall x, In x l -> f x = false.
Proof.
  intros A f l H x Hx. destruct (f x) eqn:E; [|reflexivity].
  assert (X : In x (filter f l)) by (apply filter_In; auto). rewrite H in X. contradiction.
Qed.

Lemma update_check_moved : forall ord t old new d ev d' ev' pt pk,
  inv d -> ord_ok ord d -> get_table d t = Some pt -> t_pk pt = Some pk ->
  has_null (proj pk old) = false ->
  fk_update_check ord t old new (d, ev) = OOk (d', ev') -> ev' = ev ->
  moved_db t (proj pk old) (proj pk new) d d'.
Proof.
  intros ord t old new d ev d' ev' pt pk I O G Hpk HNO H Hcl0.
  unfold fk_update_check in H. cbn [fst snd] in H. rewrite G, Hpk in H.
  set (oldk := proj pk old) in *. set (newk := proj pk new) in *.
  destruct (has_any_fks d) eqn:HF; cbn [negb] in H.
  2:{ inversion H; subst. unfold moved_db. apply Forall2_refl_in. intros x Hx. split; [apply same_schema_refl|].
      split; [|reflexivity]. apply moved_unmatched. intros fk Hfk. exfalso. unfold has_any_fks in HF.
      apply Bool.not_true_iff_false in HF. apply HF. apply existsb_exists. exists x. split; [exact Hx|].
      destruct (t_fks x); [contradiction|reflexivity]. }
  destruct (scan_tables ord d t oldk newk) as [[bs evs]|] eqn:ES; [|discriminate].
  pose proof (apply_batches_suffix bs (if batches_overlap bs then log EvOverwrite (d, evs ++ ev) else (d, evs ++ ev))) as SF.
  rewrite H in SF. cbn in SF. destruct SF as [l El].
  destruct (batches_overlap bs) eqn:EO.
  { exfalso. cbn in El. rewrite Hcl0 in El.
    assert (X : length ev = length (l ++ EvOverwrite :: evs ++ ev)) by (rewrite <- El; reflexivity).
    rewrite !app_length in X. cbn in X. rewrite app_length in X. lia. }
  cbn in El. rewrite Hcl0 in El. symmetry in El. apply suffix_clean2 in El. destruct El as [-> ->].
  cbn [app] in H.
  pose proof (batches_overlap_nodup _ EO) as NB.
  destruct (scan_tables_spec _ _ _ _ _ _ _ ES eq_refl) as [FD _].
  pose proof (scan_tables_unique _ _ _ _ _ _ _ ES NB) as UQ.
  destruct (apply_batches_spec _ _ _ _ _ (inv_names _ I) NB H) as [_ [ED OKS]]. subst d'.
  unfold moved_db. apply Forall2_map_r. intros x Hx.
  pose proof (In_get_table _ _ (inv_names _ I) Hx) as Gx.
  rewrite Forall_forall in FD.
  (* the batch of x, if any, comes from a matching key of x *)
  assert (BF : forall b, In b bs -> fst b = t_name x ->
            exists fk vs, In fk (filter (matchp t oldk x) (t_fks x)) /\ act_vs x newk fk = Some vs
                          /\ b = batch_of (t_name x) x oldk fk vs /\ clean_fk x fk).
  { intros b Hb Eb. destruct (FD b Hb) as [ct [fk [vs [Gb [Hfk [Hm [Ha [Hbb Hcl]]]]]]]].
    rewrite Eb, Gx in Gb. inversion Gb; subst ct. exists fk, vs. rewrite Eb in Hbb.
    repeat split; auto; try apply Hcl. apply filter_In. auto. }
  destruct (UQ (t_name x) x (O x Hx) Gx) as [FE|[fkU [vsU [FE [AV INB]]]]].
  - assert (BN : batch_for bs (t_name x) = None).
    { unfold batch_for. destruct (find (fun b => Nat.eqb (fst b) (t_name x)) bs) as [b|] eqn:Ef; [|reflexivity].
      exfalso. apply find_some in Ef. destruct Ef as [Hb Eb]. apply Nat.eqb_eq in Eb.
      destruct (BF b Hb Eb) as [fk [vs [Hin _]]]. rewrite FE in Hin. exact Hin. }
    unfold apply_map. rewrite BN. split; [apply same_schema_refl|]. split; [|reflexivity].
    apply moved_unmatched. apply filter_nil_all. exact FE.
  - (* exactly one foreign key of x matched *)
    assert (HfU : In fkU (t_fks x) /\ matchp t oldk x fkU = true).
    { assert (X : In fkU (filter (matchp t oldk x) (t_fks x))) by (rewrite FE; left; reflexivity).
      apply filter_In in X. exact X. }
    destruct HfU as [HfU HmU].
    assert (ONLY : forall fk, In fk (t_fks x) -> matchp t oldk x fk = true -> fk = fkU).
    { intros fk Hfk Hm. assert (X : In fk (filter (matchp t oldk x) (t_fks x))) by (apply filter_In; auto).
      rewrite FE in X. destruct X as [<-|[]]. reflexivity. }
    assert (PU : fk_parent fkU = t).
    { unfold matchp in HmU. apply andb_true_iff in HmU. destruct HmU as [HmU _]. apply Nat.eqb_eq. exact HmU. }
    destruct (BF _ INB eq_refl) as [fk' [vs' [Hin' [Ha' [Eb' Hcl']]]]].
    rewrite FE in Hin'. destruct Hin' as [<-|[]]. clear Eb' vs' Ha'.
    assert (BS : batch_for bs (t_name x) = Some (batch_of (t_name x) x oldk fkU vsU)).
    { unfold batch_for. destruct (find (fun b => Nat.eqb (fst b) (t_name x)) bs) as [b|] eqn:Ef.
      - apply find_some in Ef. destruct Ef as [Hb Eb]. apply Nat.eqb_eq in Eb. f_equal.
        eapply (NoDup_map_inj fst); [exact NB|exact Hb|exact INB|exact Eb].
      - exfalso. pose proof (find_none _ _ Ef _ INB) as X. cbn in X. rewrite Nat.eqb_refl in X. discriminate. }
    unfold apply_map. rewrite BS. split; [repeat split|]. split; [|intros NP; exfalso; exact (NP fkU HfU PU)].
    cbn [t_rows with_rows snd batch_of].
    pose proof (OKS _ x INB Hx eq_refl) as OK. cbn [snd batch_of] in OK.
    destruct (apply_collect x (refs_u fkU oldk) (set_cols (fk_cols fkU) vsU) (t_rows x) []) as [rs' [ok [E1 [_ [E3 _]]]]].
    cbn [length app] in E1. rewrite E1 in OK |- *. cbn [fst snd] in OK |- *. subst ok.
    destruct (E3 eq_refl) as [-> NN].
    destruct (std_fk_facts d x fkU I Hx HfU) as [NDc [RGc [NEc [pt' [Gp' [Hpk' HLc]]]]]].
    rewrite PU, G in Gp'. inversion Gp'; subst pt'. rewrite Hpk in Hpk'. inversion Hpk'; subst pk.
    apply Forall2_map_l. intros c Hc.
    assert (ARc : length c = ncols x) by (apply (inv_arity _ I x c Hx Hc)).
    destruct (refs_u fkU oldk c) eqn:Eh.
    + (* a matched row *)
      apply refs_u_iff in Eh.
      assert (MINE : forall fk, In fk (t_fks x) -> fk_parent fk = t -> proj (fk_cols fk) c = oldk -> fk = fkU).
      { intros fk Hfk Hp Heq. apply ONLY; [exact Hfk|]. unfold matchp. apply andb_true_iff. split; [apply Nat.eqb_eq; exact Hp|].
        apply existsb_exists. exists c. split; [exact Hc|apply refs_u_iff; exact Heq]. }
      unfold act_vs in AV. destruct (fk_onupd fkU) eqn:Ea; try discriminate; inversion AV; subst vsU.
      * (* CASCADE *)
        destruct Hcl' as [Hov _]. specialize (Hov Ea). destruct (fks_overlap_false _ _ Hov) as [OV1 OV2].
        split; [apply set_cols_length|]. split.
        { destruct (t_pk x) as [pkx|] eqn:Epx; cbn; [|exact Logic.I].
          apply proj_set_cols_disjoint. intros c0 Hc0 Hc1. exact (OV1 c0 pkx Hc1 eq_refl Hc0). }
        intros fk Hfk.
        destruct (existsb (fun c0 => nat_mem c0 (fk_cols fk)) (fk_cols fkU)) eqn:Ecommon.
        -- apply existsb_exists in Ecommon. destruct Ecommon as [c0 [Hc0 Hc1]]. apply nat_mem_In in Hc1.
           assert (fk = fkU) by (eapply OV2; eassumption). subst fk.
           right. right. split; [exact PU|]. split; [exact Eh|].
           apply proj_set_cols_same; [exact NDc|unfold newk, proj; rewrite map_length; lia|].
           intros c1 Hc1'. rewrite ARc. apply RGc. exact Hc1'.
        -- left. assert (DJ : forall c0, In c0 (fk_cols fk) -> ~ In c0 (fk_cols fkU)).
           { intros c0 H0 H1. apply Bool.not_true_iff_false in Ecommon. apply Ecommon.
             apply existsb_exists. exists c0. split; [exact H1|apply nat_mem_In; exact H0]. }
           split; [apply proj_set_cols_disjoint; exact DJ|].
           intros Hp Heq. pose proof (MINE fk Hfk Hp Heq) as X. subst fk.
           destruct (fk_cols fkU) as [|c0 l0]; [contradiction|]. apply (DJ c0); left; reflexivity.
      * (* SET NULL *)
        assert (LE : Forall2 cell_le (set_cols (fk_cols fkU) (map (fun _ => None) (fk_cols fkU)) c) c)
          by (apply set_cols_nulls_le; apply forallb_is_null_map_none).
        assert (NNc : notnull_okb x (set_cols (fk_cols fkU) (map (fun _ => None) (fk_cols fkU)) c) = true)
          by (apply NN; [exact Hc|apply refs_u_iff; exact Eh]).
        split; [apply set_cols_length|]. split.
        { destruct (t_pk x) as [pkx|] eqn:Epx; cbn; [|exact Logic.I].
          apply (proj_eq_of_notnull x); [exact LE|exact NNc|]. apply (proj2 (inv_pkcols _ I x pkx Hx Epx)). }
        intros fk Hfk. destruct (proj_cell_le_cases (fk_cols fk) _ _ LE) as [HNl|HEq]; [right; left; exact HNl|].
        left. split; [exact HEq|]. intros Hp Heq. pose proof (MINE fk Hfk Hp Heq) as X. subst fk.
        pose proof (nulled_has_null (fk_cols fkU) (map (fun _ => None) (fk_cols fkU)) c NEc
                      (forallb_is_null_map_none _) (map_length _ _)) as HX.
        rewrite HEq, Eh in HX. rewrite HNO in HX. discriminate.
      * (* SET DEFAULT with NULL defaults *)
        destruct Hcl' as [_ Hdf]. specialize (Hdf Ea).
        assert (LE : Forall2 cell_le (set_cols (fk_cols fkU) (fk_defaults x fkU) c) c)
          by (apply set_cols_nulls_le; exact Hdf).
        assert (NNc : notnull_okb x (set_cols (fk_cols fkU) (fk_defaults x fkU) c) = true)
          by (apply NN; [exact Hc|apply refs_u_iff; exact Eh]).
        split; [apply set_cols_length|]. split.
        { destruct (t_pk x) as [pkx|] eqn:Epx; cbn; [|exact Logic.I].
          apply (proj_eq_of_notnull x); [exact LE|exact NNc|]. apply (proj2 (inv_pkcols _ I x pkx Hx Epx)). }
        intros fk Hfk. destruct (proj_cell_le_cases (fk_cols fk) _ _ LE) as [HNl|HEq]; [right; left; exact HNl|].
        left. split; [exact HEq|]. intros Hp Heq. pose proof (MINE fk Hfk Hp Heq) as X. subst fk.
        pose proof (nulled_has_null (fk_cols fkU) (fk_defaults x fkU) c NEc Hdf (map_length _ _)) as HX.
        rewrite HEq, Eh in HX. rewrite HNO in HX. discriminate.
    + (* an unmatched row stays *)
      split; [reflexivity|]. split; [destruct (t_pk x); cbn; auto|].
      intros fk Hfk. left. split; [reflexivity|]. intros Hp Heq.
      assert (fk = fkU).
      { apply ONLY; [exact Hfk|]. unfold matchp. apply andb_true_iff. split; [apply Nat.eqb_eq; exact Hp|].
        apply existsb_exists. exists c. split; [exact Hc|apply refs_u_iff; exact Heq]. }
      subst fk. apply refs_u_iff in Heq. congruence.
Qed.

(* ------------------------------------------------------------------------------------ *)
(** * Consequences of [moved_db] *)

Lemma moved_db_sames : forall t o n d d', moved_db t o n d d' -> sames d d'.
Proof. intros t o n d d' H. induction H; constructor; auto. destruct H as [Hs _]. exact Hs. Qed.

Lemma Forall2_In_l : forall {A B} (R : A -> B -> Prop) l l' a, Forall2 R l l' -> In a l -> exists b, In b l' /\ R a b.
Proof.
  intros A B R l l' a H. induction H; intros HI; [contradiction|]. destruct HI as [->|HI].
  - exists y. split; [left; reflexivity|assumption].
  - destruct (IHForall2 HI) as [b [Hb Hr]]. exists b. split; [right|]; assumption.
Qed.

Lemma Forall2_In_r : forall {A B} (R : A -> B -> Prop) l l' b, Forall2 R l l' -> In b l' -> exists a, In a l /\ R a b.
Proof.
  intros A B R l l' b H. induction H; intros HI; [contradiction|]. destruct HI as [->|HI].
  - exists x. split; [left; reflexivity|assumption].
  - destruct (IHForall2 HI) as [a [Ha Hr]]. exists a. split; [right|]; assumption.
Qed.

Lemma moved_keys : forall t o n x rows' rows pk,
  Forall2 (moved t o n x) rows' rows -> t_pk x = Some pk -> map (proj pk) rows' = map (proj pk) rows.
Proof.
  intros t o n x rows' rows pk H Hpk. induction H as [|c' c l' l [_ [Hk _]] F IH]; [reflexivity|].
  cbn. rewrite Hpk in Hk. cbn in Hk. rewrite Hk, IH. reflexivity.
Qed.

Lemma moved_db_inv : forall t o n d d', inv d -> moved_db t o n d d' -> inv d'.
Proof.
  intros t o n d d' I M. pose proof (moved_db_sames _ _ _ _ _ M) as S.
  assert (TAB : forall x', In x' d' -> exists x, In x d /\ moved_tab t o n x x') by (intros x' Hx'; eapply Forall2_In_r; eassumption).
  constructor.
  - rewrite (sames_names _ _ S). apply (inv_names _ I).
  - intros x' r' Hx' Hr'. destruct (TAB x' Hx') as [x [Hx [[_ [Hc _]] [F _]]]].
    destruct (Forall2_In_l _ _ _ _ F Hr') as [r [Hr [Hl _]]]. rewrite Hl. unfold ncols. rewrite Hc.
    apply (inv_arity _ I x r Hx Hr).
  - rewrite (schema_standard_sames _ _ S). apply (inv_std _ I).
  - intros x' pk Hx' Hpk. destruct (TAB x' Hx') as [x [Hx [[_ [_ [Hp _]]] [F _]]]]. rewrite Hp in Hpk.
    rewrite (moved_keys _ _ _ _ _ _ _ F Hpk). apply (inv_keys _ I x pk Hx Hpk).
  - eapply pk_cols_ok_sames; [exact S|apply (inv_pkcols _ I)].
  - intros x' pk r' Hx' Hpk Hr'. destruct (TAB x' Hx') as [x [Hx [[_ [_ [Hp _]]] [F _]]]]. rewrite Hp in Hpk.
    destruct (Forall2_In_l _ _ _ _ F Hr') as [r [Hr [_ [Hk _]]]]. rewrite Hpk in Hk. cbn in Hk. rewrite Hk.
    apply (inv_pknn _ I x pk r Hx Hpk Hr).
Qed.

Lemma moved_db_get : forall t o n d d' m x, moved_db t o n d d' -> get_table d m = Some x ->
  exists x', get_table d' m = Some x' /\ moved_tab t o n x x'.
Proof.
  intros t o n d d' m x H. induction H as [|a b l l' Hab F IH]; intros G; [discriminate|].
  unfold get_table in *. cbn in *. pose proof Hab as [[Hn _] _]. rewrite Hn.
  destruct (Nat.eqb (t_name a) m) eqn:E.
  - inversion G; subst. exists b. split; [reflexivity|exact Hab].
  - apply IH. exact G.
Qed.

(** RI with the parent keys of table [t] replaced by a list [K] (the keys [t] will have after step 8) *)
Definition RIg (t : nat) (K : list key) (d : db) : Prop :=
  forall ct fk r, In ct d -> In fk (t_fks ct) -> In r (t_rows ct) ->
    has_null (proj (fk_cols fk) r) = false ->
    if Nat.eqb (fk_parent fk) t then In (proj (fk_cols fk) r) K
    else exists pt pr, get_table d (fk_parent fk) = Some pt /\ In pr (t_rows pt)
                       /\ proj (fk_pcols fk) pr = proj (fk_cols fk) r.

Lemma RIg_step : forall t o n K K' d d',
  inv d -> RIg t K d -> moved_db t o n d d' ->
  In n K' -> (forall k, In k K -> k <> o -> In k K') -> RIg t K' d'.
Proof.
  intros t o n K K' d d' I R M HN HK ct' fk r' Hct' Hfk Hr' HNN.
  destruct (Forall2_In_r _ _ _ _ M Hct') as [ct [Hct [[_ [_ [_ Hf]]] [F _]]]].
  destruct (Forall2_In_l _ _ _ _ F Hr') as [r [Hr [_ [_ Hmv]]]].
  rewrite Hf in Hfk. specialize (Hmv fk Hfk). specialize (R ct fk r Hct Hfk Hr).
  destruct Hmv as [[He Hno]|[Hnull|[Hp [Ho Hn']]]].
  - rewrite He in *. specialize (R HNN). destruct (Nat.eqb (fk_parent fk) t) eqn:Ep.
    + apply HK; [exact R|]. apply Hno. apply Nat.eqb_eq. exact Ep.
    + destruct R as [pt [pr [Gp [Hpr Ek]]]].
      destruct (moved_db_get _ _ _ _ _ _ _ M Gp) as [pt' [Gp' [[_ [_ [Hpp _]]] [Fp _]]]].
      destruct (Forall2_In_r _ _ _ _ Fp Hpr) as [pr' [Hpr' [_ [Hk _]]]].
      destruct (fk_standard_parent d ct fk (std_fk _ _ _ (inv_std _ I) Hct Hfk)) as [pt2 [Gp2 [Hpk _]]].
      rewrite Gp in Gp2. inversion Gp2; subst pt2. rewrite Hpk in Hk. cbn in Hk.
      exists pt', pr'. split; [exact Gp'|]. split; [exact Hpr'|]. rewrite Hk. exact Ek.
  - congruence.
  - apply Nat.eqb_eq in Hp. rewrite Hp. rewrite Hn'. exact HN.
Qed.

Lemma RI_RIg : forall t tb pk d, inv d -> RI d -> get_table d t = Some tb -> t_pk tb = Some pk ->
  RIg t (map (proj pk) (t_rows tb)) d.
Proof.
  intros t tb pk d I R G Hpk ct fk r Hct Hfk Hr HN.
  destruct (R ct fk r Hct Hfk Hr HN) as [pt [pr [Gp [Hpr Ek]]]].
  destruct (Nat.eqb (fk_parent fk) t) eqn:Ep.
  - apply Nat.eqb_eq in Ep. rewrite Ep, G in Gp. inversion Gp; subst pt.
    destruct (fk_standard_parent d ct fk (std_fk _ _ _ (inv_std _ I) Hct Hfk)) as [pt2 [Gp2 [Hpk2 _]]].
    rewrite Ep, G in Gp2. inversion Gp2; subst pt2. rewrite Hpk in Hpk2. inversion Hpk2 as [E2].
    rewrite <- Ek, <- E2. apply in_map. exact Hpr.
  - exists pt, pr. auto.
Qed.

(* ------------------------------------------------------------------------------------ *)
(** * Step 7 as a whole *)

Lemma fk_update_check_suffix : forall ord t old new w, suffix_of w (fk_update_check ord t old new w).
Proof.
  intros ord t old new w. unfold fk_update_check. destruct (get_table (fst w) t) as [pt|]; [|apply suffix_refl].
  destruct (t_pk pt) as [pk|]; [|apply suffix_refl]. destruct (negb (has_any_fks (fst w))); [apply suffix_refl|].
  destruct (scan_tables ord (fst w) t (proj pk old) (proj pk new)) as [[bs evs]|]; [|apply suffix_refl].
  destruct (batches_overlap bs).
  - pose proof (apply_batches_suffix bs (log EvOverwrite (fst w, evs ++ snd w))) as S.
    destruct (apply_batches bs (log EvOverwrite (fst w, evs ++ snd w))) as [w'|e w'|]; cbn in *; auto;
      destruct S as [l E]; exists (l ++ EvOverwrite :: evs); rewrite E, <- app_assoc; reflexivity.
  - pose proof (apply_batches_suffix bs (fst w, evs ++ snd w)) as S.
    destruct (apply_batches bs (fst w, evs ++ snd w)) as [w'|e w'|]; cbn in *; auto;
      destruct S as [l E]; exists (l ++ evs); rewrite E, <- app_assoc; reflexivity.
Qed.

Lemma each_update_suffix : forall ord t ups w, suffix_of w (each_update ord t ups w).
Proof.
  intros ord t ups. induction ups as [|[[i o] n] ups IH]; intros w; cbn; [apply suffix_refl|].
  apply suffix_bind; [apply fk_update_check_suffix|]. intros w1. apply IH.
Qed.

Lemma apply_batches_sames : forall bs w,
  match apply_batches bs w with
  | OOk w' | OErr _ w' => sames (fst w) (fst w')
  | OCrash => True
  end.
Proof.
  induction bs as [|[cn ups] bs IH]; intros w; cbn; [apply sames_refl|].
  destruct (get_table (fst w) cn) as [ct|]; [|apply sames_refl].
  destruct (apply_updates ct ups (t_rows ct)) as [rs' ok]. destruct ok.
  - specialize (IH (set_rows (fst w) cn rs', snd w)).
    destruct (apply_batches bs (set_rows (fst w) cn rs', snd w)); cbn in *; auto;
      (eapply sames_trans; [apply set_rows_sames|exact IH]).
  - cbn. apply set_rows_sames.
Qed.

Lemma fk_update_check_sames : forall ord t old new w,
  match fk_update_check ord t old new w with
  | OOk w' | OErr _ w' => sames (fst w) (fst w')
  | OCrash => True
  end.
Proof.
  intros ord t old new w. unfold fk_update_check. destruct (get_table (fst w) t) as [pt|]; [|apply sames_refl].
  destruct (t_pk pt) as [pk|]; [|apply sames_refl]. destruct (negb (has_any_fks (fst w))); [apply sames_refl|].
  destruct (scan_tables ord (fst w) t (proj pk old) (proj pk new)) as [[bs evs]|]; [|apply sames_refl].
  destruct (batches_overlap bs).
  - apply (apply_batches_sames bs (log EvOverwrite (fst w, evs ++ snd w))).
  - apply (apply_batches_sames bs (fst w, evs ++ snd w)).
Qed.

Lemma each_update_sames : forall ord t ups w,
  match each_update ord t ups w with
  | OOk w' | OErr _ w' => sames (fst w) (fst w')
  | OCrash => True
  end.
Proof.
  intros ord t ups. induction ups as [|[[i o] n] ups IH]; intros w; cbn; [apply sames_refl|].
  pose proof (fk_update_check_sames ord t o n w) as S1.
  destruct (fk_update_check ord t o n w) as [w1|e w1|]; cbn; auto.
  specialize (IH w1). destruct (each_update ord t ups w1); auto; eapply sames_trans; eassumption.
Qed.

(** primary keys of every table, position by position *)
Definition keys_same (d d' : db) : Prop :=
  Forall2 (fun x x' => same_schema x x' /\
             forall pk, t_pk x = Some pk -> map (proj pk) (t_rows x') = map (proj pk) (t_rows x)) d d'.

Lemma keys_same_refl : forall d, keys_same d d.
Proof. intros d. apply Forall2_refl. intros x. split; [apply same_schema_refl|auto]. Qed.

Lemma keys_same_trans : forall a b c, keys_same a b -> keys_same b c -> keys_same a c.
Proof.
  intros a b c. apply Forall2_trans. intros x y z [S1 K1] [S2 K2]. split; [eapply same_schema_trans; eassumption|].
  intros pk Hpk. rewrite K2; [apply K1; exact Hpk|]. destruct S1 as [_ [_ [Hp _]]]. congruence.
Qed.

Lemma moved_db_keys_same : forall t o n d d', moved_db t o n d d' -> keys_same d d'.
Proof.
  intros t o n d d' M. induction M as [|x x' l l' [S [F _]] M IH]; constructor; [|exact IH].
  split; [exact S|]. intros pk Hpk. eapply moved_keys; eassumption.
Qed.

Lemma keys_same_parent : forall d d' m pt pr pk, keys_same d d' -> get_table d m = Some pt -> t_pk pt = Some pk ->
  In pr (t_rows pt) -> exists pt' pr', get_table d' m = Some pt' /\ In pr' (t_rows pt') /\ proj pk pr' = proj pk pr.
Proof.
  intros d d' m pt pr pk H. induction H as [|a b l l' [S K] F IH]; intros G Hpk Hpr; [discriminate|].
  unfold get_table in *. cbn in *. pose proof S as [Hn _]. rewrite Hn.
  destruct (Nat.eqb (t_name a) m) eqn:E.
  - inversion G; subst a. specialize (K pk Hpk).
    assert (X : In (proj pk pr) (map (proj pk) (t_rows b))) by (rewrite K; apply in_map; exact Hpr).
    apply in_map_iff in X. destruct X as [pr' [E' H']]. exists b, pr'. auto.
  - apply IH; assumption.
Qed.

Lemma write_rows_app : forall a b L, write_rows (a ++ b) L = write_rows b (write_rows a L).
Proof. induction a as [|[[i o] n] a IH]; intros b L; cbn; [reflexivity|]. apply IH. Qed.

Section Step7.
Variables (ord : list nat) (t : nat) (pk : list nat) (L : list row).

Definition tkeys (done : list (nat * row * row)) : list key := map (proj pk) (write_rows done L).

Lemma each_update_spec : forall ups done w w' tbw,
  inv (fst w) -> ord_ok ord (fst w) ->
  get_table (fst w) t = Some tbw -> t_pk tbw = Some pk -> t_rows tbw = L ->
  (forall fk, In fk (t_fks tbw) -> fk_parent fk <> t) ->
  NoDup (map upd_idx (done ++ ups)) ->
  (forall u, In u (done ++ ups) -> nth_error L (upd_idx u) = Some (upd_old u)) ->
  RIg t (tkeys done) (fst w) ->
  each_update ord t ups w = OOk w' -> snd w' = snd w ->
  inv (fst w') /\ get_table (fst w') t = Some tbw /\ RIg t (tkeys (done ++ ups)) (fst w') /\ keys_same (fst w) (fst w').
Proof.
  induction ups as [|[[i o] n] ups IH]; intros done w w' tbw I O G Hpk HL NP ND NTH R H Hc.
  - cbn in H. inversion H; subst w'. rewrite app_nil_r. split; [exact I|]. split; [exact G|]. split; [exact R|apply keys_same_refl].
  - cbn [each_update] in H.
    pose proof (fk_update_check_suffix ord t o n w) as S1.
    destruct (fk_update_check ord t o n w) as [w1|e w1|] eqn:E1; cbn [bind] in H; try discriminate.
    cbn in S1. destruct S1 as [l1 El1].
    pose proof (each_update_suffix ord t ups w1) as S2. rewrite H in S2. cbn in S2. destruct S2 as [l2 El2].
    assert (K : l1 = [] /\ l2 = []) by (apply (suffix_clean2 l1 l2 (snd w)); rewrite <- El1, <- El2; exact Hc).
    destruct K as [-> ->]. cbn in El1, El2.
    assert (Hin : In (i, o, n) (done ++ (i, o, n) :: ups)) by (apply in_or_app; right; left; reflexivity).
    pose proof (NTH _ Hin) as Hnth. unfold upd_idx, upd_old in Hnth. cbn in Hnth.
    assert (Ho : In o (t_rows tbw)) by (rewrite HL; eapply nth_error_In; exact Hnth).
    pose proof (get_table_In _ _ _ G) as [Gin _].
    assert (HNO : has_null (proj pk o) = false) by (apply (inv_pknn _ I tbw pk o Gin Hpk Ho)).
    destruct w as [d ev]. destruct w1 as [d1 ev1]. cbn [fst snd] in *.
    pose proof (update_check_moved ord t o n d ev d1 ev1 tbw pk I O G Hpk HNO E1 El1) as M.
    assert (I1 : inv d1) by (eapply moved_db_inv; eassumption).
    assert (O1 : ord_ok ord d1).
    { intros x' Hx'. destruct (Forall2_In_r _ _ _ _ M Hx') as [x [Hx [[Hn _] _]]]. rewrite Hn. apply O. exact Hx. }
    destruct (moved_db_get _ _ _ _ _ _ _ M G) as [tb1 [G1 [_ [_ Hsame]]]]. specialize (Hsame NP). subst tb1.
    (* the keys of t after this update *)
    assert (WR : write_rows (done ++ [(i, o, n)]) L = set_nth i n (write_rows done L))
      by (rewrite write_rows_app; reflexivity).
    assert (NDd : NoDup (map upd_idx done)).
    { rewrite map_app in ND. clear -ND. induction (map upd_idx done) as [|a l IHl]; [constructor|].
      cbn in ND. inversion ND as [|? ? Hn ND']; subst. constructor; [|auto]. intros HI. apply Hn. apply in_or_app. left. exact HI. }
    assert (LEN : forall u, In u (done ++ (i, o, n) :: ups) -> upd_idx u < length L).
    { intros u Hu. apply nth_error_Some. rewrite (NTH u Hu). discriminate. }
    assert (CUR : nth_error (write_rows done L) i = Some o).
    { rewrite write_rows_nth; [|exact NDd|intros u Hu; apply LEN; apply in_or_app; left; exact Hu].
      destruct (find (fun u => Nat.eqb (upd_idx u) i) done) as [u|] eqn:Ef; [|exact Hnth].
      exfalso. apply find_some in Ef. destruct Ef as [Hu Eu]. apply Nat.eqb_eq in Eu.
      rewrite map_app in ND. cbn in ND. apply NoDup_remove_2 in ND. apply ND. apply in_or_app. left.
      rewrite <- Eu. apply in_map. exact Hu. }
    assert (ILT : i < length (write_rows done L)) by (apply nth_error_Some; rewrite CUR; discriminate).
    assert (R1 : RIg t (tkeys (done ++ [(i, o, n)])) d1).
    { eapply RIg_step; [exact I|exact R|exact M| |].
      - unfold tkeys. rewrite WR. apply in_map. apply (nth_error_In _ i).
        rewrite nth_error_set_nth, Nat.eqb_refl. apply Nat.ltb_lt in ILT. rewrite ILT. reflexivity.
      - intros k Hk Hne. unfold tkeys in *. rewrite WR. apply in_map_iff in Hk. destruct Hk as [y [Ey Hy]].
        apply In_nth_error in Hy. destruct Hy as [j Hj]. apply in_map_iff. exists y. split; [exact Ey|].
        apply (nth_error_In _ j). rewrite nth_error_set_nth. destruct (Nat.eqb i j) eqn:Eij; [|exact Hj].
        apply Nat.eqb_eq in Eij. subst j. rewrite CUR in Hj. inversion Hj; subst y. exfalso. apply Hne. symmetry. exact Ey. }
    specialize (IH (done ++ [(i, o, n)]) (d1, ev1) w' tbw I1 O1 G1 Hpk HL NP).
    rewrite <- app_assoc in IH. cbn [app] in IH. cbn [fst snd] in IH.
    destruct (IH ND NTH R1 H El2) as [I' [G' [R' KS']]].
    split; [exact I'|]. split; [exact G'|]. split; [exact R'|]. eapply keys_same_trans; [eapply moved_db_keys_same; exact M|exact KS'].
Qed.

End Step7.

(* ------------------------------------------------------------------------------------ *)
(** * Step 8 and the statement *)

Lemma write_rows_In : forall ups rows r,
  NoDup (map upd_idx ups) -> (forall u, In u ups -> upd_idx u < length rows) ->
  In r (write_rows ups rows) -> (exists u, In u ups /\ r = upd_new u) \/ In r rows.
Proof.
  intros ups rows r ND HL Hr. apply In_nth_error in Hr. destruct Hr as [j Hj].
  rewrite write_rows_nth in Hj by assumption.
  destruct (find (fun u => Nat.eqb (upd_idx u) j) ups) as [u|] eqn:Ef.
  - left. apply find_some in Ef. destruct Ef as [Hu _]. exists u. split; [exact Hu|]. congruence.
  - right. eapply nth_error_In. exact Hj.
Qed.

Lemma keys_nodupb_NoDup : forall ks, keys_nodupb ks = true -> NoDup ks.
Proof.
  induction ks as [|k ks IH]; intros H; [constructor|]. cbn in H. apply andb_true_iff in H. destruct H as [H1 H2].
  constructor; [|auto]. apply negb_true_iff in H1. apply key_mem_false in H1. exact H1.
Qed.

Lemma set_rows_inv : forall dn t tb rows',
  inv dn -> get_table dn t = Some tb ->
  (forall r, In r rows' -> length r = ncols tb) ->
  (forall pk, t_pk tb = Some pk -> NoDup (map (proj pk) rows') /\ forall r, In r rows' -> has_null (proj pk r) = false) ->
  inv (set_rows dn t rows').
Proof.
  intros dn t tb rows' I G HA HK. pose proof (get_table_In _ _ _ G) as [Gin Gn].
  assert (SS : sames dn (set_rows dn t rows')) by apply set_rows_sames.
  assert (ONE : forall y, In y dn -> t_name y = t -> y = tb).
  { intros y Hy Hn. pose proof (In_get_table _ _ (inv_names _ I) Hy) as Gy. rewrite Hn in Gy. congruence. }
  constructor.
  - rewrite names_set_rows. apply (inv_names _ I).
  - intros x r Hx Hr. apply In_set_rows in Hx. destruct Hx as [[y [Hy [Hn ->]]]|[Hx Hn]].
    + rewrite (ONE y Hy Hn) in *. cbn in Hr. apply HA. exact Hr.
    + apply (inv_arity _ I x r Hx Hr).
  - rewrite (schema_standard_sames _ _ SS). apply (inv_std _ I).
  - intros x pk Hx Hpk. apply In_set_rows in Hx. destruct Hx as [[y [Hy [Hn ->]]]|[Hx Hn]].
    + rewrite (ONE y Hy Hn) in *. cbn in *. apply (HK pk Hpk).
    + apply (inv_keys _ I x pk Hx Hpk).
  - eapply pk_cols_ok_sames; [exact SS|apply (inv_pkcols _ I)].
  - intros x pk r Hx Hpk Hr. apply In_set_rows in Hx. destruct Hx as [[y [Hy [Hn ->]]]|[Hx Hn]].
    + rewrite (ONE y Hy Hn) in *. cbn in *. apply (HK pk Hpk). exact Hr.
    + apply (inv_pknn _ I x pk r Hx Hpk Hr).
Qed.

Lemma with_rows_same : forall tb, with_rows tb (t_rows tb) = tb.
Proof. intros [n c p f r]. reflexivity. Qed.

Lemma set_rows_id : forall d t tb, NoDup (names d) -> get_table d t = Some tb -> set_rows d t (t_rows tb) = d.
Proof.
  intros d t tb ND G. unfold set_rows. rewrite <- (map_id d) at 2. apply map_ext_in. intros x Hx.
  destruct (Nat.eqb (t_name x) t) eqn:E; [|reflexivity]. apply Nat.eqb_eq in E.
  pose proof (In_get_table _ _ ND Hx) as Gx. rewrite E in Gx. rewrite G in Gx. inversion Gx; subst. apply with_rows_same.
Qed.

Lemma sames_rows_eq : forall d d', sames d d' -> db_rows_eqb d d' = true -> d' = d.
Proof.
  intros d d' S. induction S as [|x y l l' [Hn [Hc [Hp Hf]]] S IH]; intros H; [reflexivity|].
  cbn in H. apply andb_true_iff in H. destruct H as [H H3]. apply andb_true_iff in H. destruct H as [_ H2].
  apply rows_eqb_eq in H2. f_equal; [|apply IH; exact H3].
  destruct x, y. cbn in *. congruence.
Qed.

(** a parent found in [dn] is still there after the rows of [t] were replaced, when the keys of [t] are kept
    or the parent is another table *)
Lemma parent_after_set_rows : forall dn t tb rows' p pt pr pcols vs,
  get_table dn t = Some tb -> get_table dn p = Some pt -> In pr (t_rows pt) -> proj pcols pr = vs ->
  (p = t -> exists pr', In pr' rows' /\ proj pcols pr' = vs) ->
  exists pt' pr', get_table (set_rows dn t rows') p = Some pt' /\ In pr' (t_rows pt') /\ proj pcols pr' = vs.
Proof.
  intros dn t tb rows' p pt pr pcols vs G Gp Hpr Ek HT. rewrite get_set_rows.
  destruct (Nat.eqb t p) eqn:E.
  - apply Nat.eqb_eq in E. subst p. destruct (HT eq_refl) as [pr' [H1 H2]].
    rewrite Gp. cbn. exists (with_rows pt rows'), pr'. cbn. auto.
  - exists pt, pr. auto.
Qed.

Lemma map_set_nth_same : forall {A B} (f : A -> B) i x l o,
  nth_error l i = Some o -> f x = f o -> map f (set_nth i x l) = map f l.
Proof.
  intros A B f i x l. revert i. induction l as [|a l IH]; intros [|i] o H E; cbn in *; try discriminate.
  - inversion H; subst. rewrite E. reflexivity.
  - f_equal. eapply IH; eassumption.
Qed.

Lemma write_rows_keys_same : forall {B} (f : row -> B) ups rows,
  NoDup (map upd_idx ups) ->
  (forall u, In u ups -> nth_error rows (upd_idx u) = Some (upd_old u) /\ f (upd_new u) = f (upd_old u)) ->
  map f (write_rows ups rows) = map f rows.
Proof.
  intros B f ups. induction ups as [|[[i o] n] ups IH]; intros rows ND H; cbn; [reflexivity|].
  cbn in ND. inversion ND as [|? ? Hn ND']; subst.
  destruct (H (i, o, n) (or_introl eq_refl)) as [H1 H2]. unfold upd_idx, upd_old, upd_new in H1, H2. cbn in H1, H2.
  rewrite IH; [eapply map_set_nth_same; eassumption|exact ND'|].
  intros u Hu. destruct (H u (or_intror Hu)) as [K1 K2]. split; [|exact K2].
  rewrite nth_error_set_nth. destruct (Nat.eqb i (upd_idx u)) eqn:E; [|exact K1].
  apply Nat.eqb_eq in E. exfalso. apply Hn. rewrite E. apply in_map. exact Hu.
Qed.

Lemma write_rows_keys_nodup : forall pk ups rows,
  NoDup (map upd_idx ups) ->
  (forall u, In u ups -> nth_error rows (upd_idx u) = Some (upd_old u)) ->
  NoDup (map (proj pk) rows) ->
  NoDup (map (fun u => proj pk (upd_new u)) ups) ->
  (forall u, In u ups -> In (proj pk (upd_new u)) (map (proj pk) rows) -> proj pk (upd_new u) = proj pk (upd_old u)) ->
  NoDup (map (proj pk) (write_rows ups rows)).
Proof.
  intros pk ups rows NDI NTH NDK NDN VAL.
  assert (LEN : forall u, In u ups -> upd_idx u < length rows).
  { intros u Hu. apply nth_error_Some. rewrite (NTH u Hu). discriminate. }
  assert (KEY : forall i, nth_error (map (proj pk) (write_rows ups rows)) i =
            match find (fun u => Nat.eqb (upd_idx u) i) ups with
            | Some u => Some (proj pk (upd_new u))
            | None => nth_error (map (proj pk) rows) i end).
  { intros i. rewrite nth_error_map, write_rows_nth by assumption.
    destruct (find (fun u => Nat.eqb (upd_idx u) i) ups); [reflexivity|]. rewrite nth_error_map. reflexivity. }
  assert (FS : forall i u, find (fun u => Nat.eqb (upd_idx u) i) ups = Some u -> In u ups /\ upd_idx u = i).
  { intros i u H. apply find_some in H. destruct H as [H1 H2]. apply Nat.eqb_eq in H2. auto. }
  assert (ORIG : forall i j, nth_error (map (proj pk) rows) i = nth_error (map (proj pk) rows) j ->
                   i < length rows -> i = j).
  { intros i j H Hi. apply (proj1 (NoDup_nth_error _) NDK); [rewrite map_length; exact Hi|exact H]. }
  (* a new key that equals an original key is the key of the row it replaces *)
  assert (MIX : forall u j, In u ups -> nth_error (map (proj pk) rows) j = Some (proj pk (upd_new u)) -> upd_idx u = j).
  { intros u j Hu Hj. assert (Hin : In (proj pk (upd_new u)) (map (proj pk) rows)) by (eapply nth_error_In; exact Hj).
    specialize (VAL u Hu Hin). apply ORIG; [|apply LEN; exact Hu].
    rewrite Hj, nth_error_map, (NTH u Hu). cbn. rewrite VAL. reflexivity. }
  apply NoDup_nth_error. intros i j Hi Hij. rewrite map_length, write_rows_length in Hi.
  rewrite !KEY in Hij.
  destruct (find (fun u => Nat.eqb (upd_idx u) i) ups) as [u|] eqn:Fi;
    destruct (find (fun u => Nat.eqb (upd_idx u) j) ups) as [u'|] eqn:Fj.
  - destruct (FS _ _ Fi) as [Hu Ei]. destruct (FS _ _ Fj) as [Hu' Ej]. inversion Hij as [Hk].
    assert (u = u') by (eapply (NoDup_map_inj (fun u => proj pk (upd_new u))); eassumption). subst u'. congruence.
  - destruct (FS _ _ Fi) as [Hu Ei]. symmetry in Hij. rewrite <- Ei. apply MIX; assumption.
  - destruct (FS _ _ Fj) as [Hu' Ej]. rewrite <- Ej. symmetry. apply MIX; assumption.
  - apply ORIG; assumption.
Qed.

Theorem exec_update_ok : forall ord d t asg wh d' ev r,
  inv d -> ord_ok ord d -> RI d ->
  exec_update ord d t asg wh = ((d', ev), r) -> ev = [] -> inv d' /\ RI d'.
Proof.
  intros ord d t asg wh d' ev r I O R E Hev. unfold exec_update in E.
  destruct (get_table d t) as [tb|] eqn:G; [|inversion E; subst; auto].
  set (sel := select_from 0 wh (t_rows tb)) in *.
  destruct (negb (forallb (fun a => Nat.ltb (fst a) (ncols tb)) asg)); [inversion E; subst; auto|].
  destruct (plan_updates d tb asg sel) as [ups|] eqn:EP; [|inversion E; subst; auto].
  destruct (plan_updates_spec _ _ _ _ _ EP) as [ESEL PL]. rewrite Forall_forall in PL.
  destruct (select_from_spec wh (t_rows tb) 0) as [SF SND]. fold sel in SF, SND. rewrite Forall_forall in SF.
  pose proof (get_table_In _ _ _ G) as [Gin Gn].
  assert (NDI : NoDup (map upd_idx ups)).
  { rewrite <- ESEL in SND. rewrite map_map in SND. exact SND. }
  assert (NTH : forall u, In u ups -> nth_error (t_rows tb) (upd_idx u) = Some (upd_old u)).
  { intros u Hu. assert (X : In (upd_idx u, upd_old u) sel) by (rewrite <- ESEL; apply in_map_iff; exists u; auto).
    destruct (SF _ X) as [_ X2]. cbn in X2. rewrite Nat.sub_0_r in X2. exact X2. }
  assert (LEN : forall u, In u ups -> upd_idx u < length (t_rows tb)).
  { intros u Hu. apply nth_error_Some. rewrite (NTH u Hu). discriminate. }
  assert (OLDIN : forall u, In u ups -> In (upd_old u) (t_rows tb)) by (intros u Hu; eapply nth_error_In; apply NTH; exact Hu).
  set (rows' := write_rows ups (t_rows tb)) in *.
  (* facts about the rows step 8 writes *)
  assert (ARI : forall r0, In r0 rows' -> length r0 = ncols tb).
  { intros r0 Hr0. destruct (write_rows_In _ _ _ NDI LEN Hr0) as [[u [Hu ->]]|Hin].
    - destruct (PL u Hu) as [Ha _]. rewrite (apply_asg_length _ _ _ _ _ Ha). apply (inv_arity _ I tb _ Gin). apply OLDIN. exact Hu.
    - apply (inv_arity _ I tb _ Gin Hin). }
  assert (PKNN : forall pk r0, t_pk tb = Some pk -> In r0 rows' -> has_null (proj pk r0) = false).
  { intros pk r0 Hpk Hr0. destruct (write_rows_In _ _ _ NDI LEN Hr0) as [[u [Hu ->]]|Hin].
    - destruct (PL u Hu) as [_ [Hn _]]. apply (notnull_pk_nonnull tb); [exact Hn|]. apply (inv_pkcols _ I tb pk Gin Hpk).
    - apply (inv_pknn _ I tb pk r0 Gin Hpk Hin). }
  (* every row written by step 8, and every row left alone, had its parents in d *)
  assert (PAR : forall r0 fk, In r0 rows' -> In fk (t_fks tb) -> has_null (proj (fk_cols fk) r0) = false ->
            exists pt pr, get_table d (fk_parent fk) = Some pt /\ In pr (t_rows pt)
                          /\ proj (fk_pcols fk) pr = proj (fk_cols fk) r0).
  { intros r0 fk Hr0 Hfk HN. destruct (write_rows_In _ _ _ NDI LEN Hr0) as [[u [Hu ->]]|Hin].
    - destruct (PL u Hu) as [_ [_ [_ Hv]]]. eapply (validated_row_has_parents proj d tb); eauto.
    - apply (R tb fk r0 Gin Hfk Hin HN). }
  remember (match t_pk tb with Some pk => existsb (fun a => nat_mem (fst a) pk) asg | None => false end) as updates_pk eqn:EUP.
  remember ((if updates_pk && existsb (fun fk => Nat.eqb (fk_parent fk) t) (t_fks tb)
                && negb match ups with [] => true | _ :: _ => false end then [EvSelfRefPkUpdate] else []) ++
            match t_pk tb with
            | Some pk => if keys_nodupb (map (fun u => proj pk (snd u)) ups) then [] else [EvPkCollision]
            | None => [] end) as ev0 eqn:EEV0.
  (* the case in which step 7 does nothing: the keys of t stay *)
  assert (CASE1 : (updates_pk = false \/ ups = []) -> ev0 = [] -> inv (set_rows d t rows') /\ RI (set_rows d t rows')).
  { intros HC _.
    assert (KEEP : forall pk, t_pk tb = Some pk -> map (proj pk) rows' = map (proj pk) (t_rows tb)).
    { intros pk Hpk. destruct HC as [HC| ->]; [|reflexivity].
      rewrite Hpk in EUP. rewrite HC in EUP. symmetry in EUP.
      assert (SAMEK : forall u, In u ups -> proj pk (upd_new u) = proj pk (upd_old u)).
      { intros u Hu. destruct (PL u Hu) as [Ha _]. unfold proj. apply map_ext_in. intros c Hc.
        eapply apply_asg_other; [exact Ha|]. intros a Ha2 Heq.
        apply Bool.not_true_iff_false in EUP. apply EUP. apply existsb_exists. exists a. split; [exact Ha2|].
        apply nat_mem_In. rewrite Heq. exact Hc. }
      unfold rows'. apply write_rows_keys_same; [exact NDI|]. intros u Hu. split; [apply NTH; exact Hu|apply SAMEK; exact Hu]. }
    assert (ID : inv (set_rows d t rows')).
    { eapply set_rows_inv; [exact I|exact G|exact ARI|]. intros pk Hpk. split; [|intros r0; apply PKNN; exact Hpk].
      rewrite (KEEP pk Hpk). apply (inv_keys _ I tb pk Gin Hpk). }
    split; [exact ID|].
    assert (TRANS : forall ct fk vs, In ct d -> In fk (t_fks ct) ->
              (exists pt pr, get_table d (fk_parent fk) = Some pt /\ In pr (t_rows pt) /\ proj (fk_pcols fk) pr = vs) ->
              exists pt pr, get_table (set_rows d t rows') (fk_parent fk) = Some pt /\ In pr (t_rows pt)
                            /\ proj (fk_pcols fk) pr = vs).
    { intros ct fk vs Hct Hfk [pt [pr [Gp [Hpr Ek]]]].
      eapply parent_after_set_rows; [exact G|exact Gp|exact Hpr|exact Ek|].
      intros Ept. rewrite Ept, G in Gp. inversion Gp; subst pt.
      destruct (std_fk_facts d ct fk I Hct Hfk) as [_ [_ [_ [pt2 [Gp2 [Hpk2 _]]]]]].
      rewrite Ept, G in Gp2. inversion Gp2; subst pt2.
      assert (X : In vs (map (proj (fk_pcols fk)) rows')).
      { rewrite (KEEP _ Hpk2). rewrite <- Ek. apply in_map. exact Hpr. }
      apply in_map_iff in X. destruct X as [pr' [E1 H1]]. exists pr'. auto. }
    intros ct' fk r0 Hct' Hfk Hr0 HN. apply In_set_rows in Hct'. destruct Hct' as [[y [Hy [Hn ->]]]|[Hx Hn]].
    + assert (y = tb) by (pose proof (In_get_table _ _ (inv_names _ I) Hy) as Gy; rewrite Hn in Gy; congruence).
      subst y. cbn in Hfk, Hr0. apply (TRANS tb fk _ Gin Hfk). apply PAR; assumption.
    + apply (TRANS ct' fk _ Hx Hfk). apply (R ct' fk r0 Hx Hfk Hr0 HN). }
  destruct updates_pk.
  2:{ (* no primary-key column is assigned: step 7 is skipped *)
      cbn [fst snd] in E. rewrite G in E. inversion E as [[Hd He Hr]]. fold rows'. apply CASE1; [left; reflexivity|congruence]. }
  pose proof (each_update_suffix ord t ups (d, ev0)) as SU.
  pose proof (each_update_sames ord t ups (d, ev0)) as SS.
  destruct (each_update ord t ups (d, ev0)) as [[dn evn]|e [dn evn]|] eqn:E7.
  - cbn in SU. destruct SU as [l El]. cbn [fst snd] in *.
    destruct (get_table dn t) as [tbn|] eqn:Gn'.
    2:{ destruct (sames_get _ _ _ _ SS G) as [tb2 [G2 _]]. congruence. }
    inversion E as [[Hd He Hr]]. assert (Hevn : evn = []) by congruence. rewrite Hevn in El, E7.
    try rewrite <- Hd.
    symmetry in El. apply app_eq_nil in El. destruct El as [-> Hev0]. cbn in E7. try clear He Hr.
    assert (EMP : ups = [] \/ ups <> []) by (destruct ups; [left; reflexivity|right; discriminate]).
    destruct EMP as [EMP|NEMP].
    { assert (E7' : each_update ord t [] (d, ev0) = OOk (dn, [])) by (rewrite <- EMP; exact E7).
      cbn in E7'. inversion E7'; subst dn. rewrite G in Gn'. inversion Gn'; subst tbn.
      apply CASE1; [right; exact EMP|exact Hev0]. }
    clear E.
    (* the table is not self-referencing and the new keys are distinct *)
    destruct (t_pk tb) as [pk|] eqn:Epk; [|discriminate].
    rewrite Hev0 in EEV0. symmetry in EEV0. apply app_eq_nil in EEV0. destruct EEV0 as [EV1 EV2].
    assert (NP : forall fk, In fk (t_fks tb) -> fk_parent fk <> t).
    { intros fk Hfk Hp. cbn [andb] in EV1.
      destruct (existsb (fun fk0 => Nat.eqb (fk_parent fk0) t) (t_fks tb)) eqn:EX.
      - destruct ups; [contradiction|]. cbn in EV1. discriminate.
      - apply Bool.not_true_iff_false in EX. apply EX. apply existsb_exists. exists fk. split; [exact Hfk|apply Nat.eqb_eq; exact Hp]. }
    assert (NDN : NoDup (map (fun u => proj pk (upd_new u)) ups)).
    { destruct (keys_nodupb (map (fun u => proj pk (snd u)) ups)) eqn:EK; [|discriminate].
      apply keys_nodupb_NoDup in EK. exact EK. }
    pose proof (RI_RIg t tb pk d I R G Epk) as R0.
    destruct (each_update_spec ord t pk (t_rows tb) ups [] (d, ev0) (dn, []) tb I O G Epk eq_refl NP NDI NTH R0 E7 (eq_sym Hev0))
      as [In' [Gn2 [Rn KS]]]. cbn [fst snd app] in *.
    rewrite Gn' in Gn2. inversion Gn2; subst tbn. fold rows'.
    assert (ID : inv (set_rows dn t rows')).
    { eapply set_rows_inv; [exact In'|exact Gn'|exact ARI|]. intros pk0 Hpk0. rewrite Epk in Hpk0. injection Hpk0 as <-.
      split; [|intros r0; apply PKNN; reflexivity].
      apply write_rows_keys_nodup; [exact NDI|exact NTH|apply (inv_keys _ I tb pk Gin Epk)|exact NDN|].
      intros u Hu Hin. destruct (PL u Hu) as [_ [_ [Hv _]]]. apply (Hv pk Epk Hin). }
    split; [exact ID|].
    pose proof (get_table_In _ _ _ Gn') as [Ginn _].
    intros ct' fk r0 Hct' Hfk Hr0 HN. apply In_set_rows in Hct'. destruct Hct' as [[y [Hy [Hn ->]]]|[Hx Hn]].
    + assert (y = tb) by (pose proof (In_get_table _ _ (inv_names _ In') Hy) as Gy; rewrite Hn in Gy; congruence).
      subst y. cbn in Hfk, Hr0.
      destruct (PAR r0 fk Hr0 Hfk HN) as [pt [pr [Gp [Hpr Ek]]]].
      destruct (std_fk_facts d tb fk I Gin Hfk) as [_ [_ [_ [pt2 [Gp2 [Hpk2 _]]]]]].
      rewrite Gp in Gp2. inversion Gp2; subst pt2.
      destruct (keys_same_parent _ _ _ _ _ _ KS Gp Hpk2 Hpr) as [ptn [prn [Gpn [Hprn Ekn]]]].
      eapply parent_after_set_rows; [exact Gn'|exact Gpn|exact Hprn|rewrite Ekn; exact Ek|].
      intros Ept. exfalso. exact (NP fk Hfk Ept).
    + pose proof (Rn ct' fk r0 Hx Hfk Hr0 HN) as RR.
      destruct (Nat.eqb (fk_parent fk) t) eqn:Ep.
      * apply Nat.eqb_eq in Ep. unfold tkeys in RR. fold rows' in RR.
        apply in_map_iff in RR. destruct RR as [pr' [E1 H1]].
        destruct (std_fk_facts dn ct' fk In' Hx Hfk) as [_ [_ [_ [pt2 [Gp2 [Hpk2 _]]]]]].
        rewrite Ep, Gn' in Gp2. inversion Gp2; subst pt2. rewrite Epk in Hpk2. inversion Hpk2 as [Hpp].
        rewrite Ep, get_set_rows, Nat.eqb_refl, Gn'. cbn. exists (with_rows tb rows'), pr'. cbn.
        split; [reflexivity|]. split; [exact H1|]. rewrite <- Hpp. exact E1.
      * destruct RR as [pt [pr [Gp [Hpr Ek]]]].
        eapply parent_after_set_rows; [exact Gn'|exact Gp|exact Hpr|exact Ek|].
        intros Ept. apply Nat.eqb_neq in Ep. contradiction.
  - (* an error after step 7 started: allowed only when nothing was changed *)
    unfold partial_mark in E. cbn [fst snd log] in *.
    destruct (db_rows_eqb d dn) eqn:EQ; inversion E; subst d' ev r; [|discriminate].
    rewrite (sames_rows_eq _ _ SS EQ). auto.
  - inversion E; subst. auto.
Qed.
