(** MD5 (RFC 1321) as an executable Gallina function on byte lists ([list Z], every byte in 0..255).
    This stands for the [md-5] crate ([Md5::new / update / finalize]) used by
    /repo/crates/vibesql-server/src/auth/password.rs [compute_md5_password]; it is validated against that
    crate on every run of the C29 harness (RFC test vectors as [Example]s in [Store/Md5Laws.v], digests of
    random messages of 0..200 bytes and every digest used by a verification case in the shards).
    32-bit words are [Z] values reduced modulo 2^32.  Model file: definitions only. *)
From Coq Require Import ZArith List.
Import ListNotations.
Open Scope Z_scope.

Definition W32 : Z := 4294967296.
Definition MASK32 : Z := 4294967295.

Definition add32 (a b : Z) : Z := Z.land (a + b) MASK32.
Definition not32 (x : Z) : Z := Z.lxor x MASK32.
(** rotate left by [n] (0 < n < 32) of a word 0 <= x < 2^32 *)
Definition rotl32 (x n : Z) : Z := Z.lor (Z.land (Z.shiftl x n) MASK32) (Z.shiftr x (32 - n)).

Definition md5_K : list Z :=
  [3614090360; 3905402710; 606105819; 3250441966; 4118548399; 1200080426; 2821735955; 4249261313;
   1770035416; 2336552879; 4294925233; 2304563134; 1804603682; 4254626195; 2792965006; 1236535329;
   4129170786; 3225465664; 643717713; 3921069994; 3593408605; 38016083; 3634488961; 3889429448;
   568446438; 3275163606; 4107603335; 1163531501; 2850285829; 4243563512; 1735328473; 2368359562;
   4294588738; 2272392833; 1839030562; 4259657740; 2763975236; 1272893353; 4139469664; 3200236656;
   681279174; 3936430074; 3572445317; 76029189; 3654602809; 3873151461; 530742520; 3299628645;
   4096336452; 1126891415; 2878612391; 4237533241; 1700485571; 2399980690; 4293915773; 2240044497;
   1873313359; 4264355552; 2734768916; 1309151649; 4149444226; 3174756917; 718787259; 3951481745].

Definition md5_S : list Z :=
  [7; 12; 17; 22; 7; 12; 17; 22; 7; 12; 17; 22; 7; 12; 17; 22;
   5; 9; 14; 20; 5; 9; 14; 20; 5; 9; 14; 20; 5; 9; 14; 20;
   4; 11; 16; 23; 4; 11; 16; 23; 4; 11; 16; 23; 4; 11; 16; 23;
   6; 10; 15; 21; 6; 10; 15; 21; 6; 10; 15; 21; 6; 10; 15; 21].

(** message word index used in round [i] *)
Definition md5_g (i : Z) : Z :=
  if i <? 16 then i
  else if i <? 32 then (5 * i + 1) mod 16
  else if i <? 48 then (3 * i + 5) mod 16
  else (7 * i) mod 16.

(** the four auxiliary functions *)
Definition md5_f (i b c d : Z) : Z :=
  if i <? 16 then Z.lor (Z.land b c) (Z.land (not32 b) d)
  else if i <? 32 then Z.lor (Z.land d b) (Z.land (not32 d) c)
  else if i <? 48 then Z.lxor (Z.lxor b c) d
  else Z.lxor c (Z.lor b (not32 d)).

Definition md5_state : Type := (Z * Z * Z * Z)%type.

Definition md5_init : md5_state := (1732584193, 4023233417, 2562383102, 271733878).

(** one of the 64 steps; [m] = the 16 little-endian words of the block *)
Definition md5_step (m : list Z) (st : md5_state) (i : nat) : md5_state :=
  let '(a, b, c, d) := st in
  let iz := Z.of_nat i in
  let f := md5_f iz b c d in
  let f' := add32 (add32 (add32 f a) (nth i md5_K 0)) (nth (Z.to_nat (md5_g iz)) m 0) in
  (d, add32 b (rotl32 f' (nth i md5_S 0)), b, c).

Definition le_word (b0 b1 b2 b3 : Z) : Z := b0 + 256 * b1 + 65536 * b2 + 16777216 * b3.

(** bytes -> little-endian 32-bit words (a trailing partial word is zero-extended; blocks are always
    64 bytes so this does not happen) *)
Fixpoint le_words (fuel : nat) (l : list Z) : list Z :=
  match fuel with
  | O => []
  | S f =>
    match l with
    | [] => []
    | b0 :: b1 :: b2 :: b3 :: r => le_word b0 b1 b2 b3 :: le_words f r
    | b0 :: b1 :: b2 :: [] => [le_word b0 b1 b2 0]
    | b0 :: b1 :: [] => [le_word b0 b1 0 0]
    | b0 :: [] => [le_word b0 0 0 0]
    end
  end.

Definition md5_block (st : md5_state) (blk : list Z) : md5_state :=
  let m := le_words 16 blk in
  let '(a0, b0, c0, d0) := st in
  let '(a, b, c, d) := fold_left (md5_step m) (seq 0 64) st in
  (add32 a0 a, add32 b0 b, add32 c0 c, add32 d0 d).

Fixpoint md5_blocks (fuel : nat) (st : md5_state) (l : list Z) : md5_state :=
  match fuel with
  | O => st
  | S f =>
    match l with
    | [] => st
    | _ => md5_blocks f (md5_block st (firstn 64 l)) (skipn 64 l)
    end
  end.

Definition le_bytes (n : nat) (x : Z) : list Z :=
  map (fun k => (x / 256 ^ Z.of_nat k) mod 256) (seq 0 n).

Definition word_bytes (w : Z) : list Z :=
  [w mod 256; (w / 256) mod 256; (w / 65536) mod 256; (w / 16777216) mod 256].

(** RFC 1321 §3.1-3.2: 0x80, zero bytes up to 56 mod 64, bit length as 64-bit little endian *)
Definition md5_pad (msg : list Z) : list Z :=
  let len := Z.of_nat (length msg) in
  let zeros := Z.to_nat ((55 - len) mod 64) in
  msg ++ [128] ++ repeat 0 zeros ++ le_bytes 8 ((8 * len) mod 18446744073709551616).

Definition md5 (msg : list Z) : list Z :=
  let p := md5_pad msg in
  let '(a, b, c, d) := md5_blocks (length p) md5_init p in
  word_bytes a ++ word_bytes b ++ word_bytes c ++ word_bytes d.
