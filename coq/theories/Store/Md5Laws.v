(** Laws of the Gallina MD5 (Store/Md5.v): output shape, padding, RFC 1321 test vectors. *)
From Coq Require Import ZArith List Lia.
From VibeSQL Require Import Store.Md5.
Import ListNotations.
Open Scope Z_scope.

Lemma word_bytes_length w : length (word_bytes w) = 4%nat.
Proof. reflexivity. Qed.

Lemma word_bytes_range w : Forall (fun b => 0 <= b < 256) (word_bytes w).
Proof. unfold word_bytes. repeat constructor; apply Z.mod_pos_bound; lia. Qed.

Theorem md5_length : forall m, length (md5 m) = 16%nat.
Proof.
  intros m. unfold md5.
  destruct (md5_blocks _ _ _) as [[[a b] c] d].
  rewrite !app_length, !word_bytes_length. reflexivity.
Qed.

Theorem md5_range : forall m, Forall (fun b => 0 <= b < 256) (md5 m).
Proof.
  intros m. unfold md5.
  destruct (md5_blocks _ _ _) as [[[a b] c] d].
  repeat (apply Forall_app; split); apply word_bytes_range.
Qed.

Lemma le_bytes_length n x : length (le_bytes n x) = n.
Proof. unfold le_bytes. rewrite map_length, seq_length. reflexivity. Qed.

(** the padded message is a whole number of 64-byte blocks *)
Theorem md5_pad_length : forall m, (Z.of_nat (length (md5_pad m))) mod 64 = 0.
Proof.
  intros m. unfold md5_pad.
  rewrite !app_length, repeat_length, le_bytes_length. cbn [length].
  set (len := Z.of_nat (length m)).
  pose proof (Z.mod_pos_bound (55 - len) 64 ltac:(lia)) as Hb.
  rewrite !Nat2Z.inj_add, Z2Nat.id by lia. fold len.
  change (Z.of_nat 1) with 1. change (Z.of_nat 8) with 8.
  pose proof (Z.div_mod (55 - len) 64 ltac:(lia)) as Hd.
  replace (len + (1 + ((55 - len) mod 64 + 8))) with (64 * (1 - (55 - len) / 64)) by lia.
  rewrite Z.mul_comm. apply Z.mod_mul. lia.
Qed.

Theorem md5_pad_prefix : forall m, firstn (length m) (md5_pad m) = m.
Proof.
  intros m. unfold md5_pad. rewrite firstn_app, Nat.sub_diag, firstn_all. cbn [firstn]. apply app_nil_r.
Qed.

(** RFC 1321 appendix A.5 test suite (and the PostgreSQL digest the unit test of password.rs uses) *)
From Coq Require String.
Import String.StringSyntax.
From VibeSQL Require Import Store.Auth.
Local Open Scope string_scope.
Local Notation "'S' x" := (s2z x) (at level 0, x at level 0, only parsing).

Example md5_rfc_1 : hex (md5 (S "")) = S "d41d8cd98f00b204e9800998ecf8427e".
Proof. vm_compute. reflexivity. Qed.
Example md5_rfc_2 : hex (md5 (S "a")) = S "0cc175b9c0f1b6a831c399e269772661".
Proof. vm_compute. reflexivity. Qed.
Example md5_rfc_3 : hex (md5 (S "abc")) = S "900150983cd24fb0d6963f7d28e17f72".
Proof. vm_compute. reflexivity. Qed.
Example md5_rfc_4 : hex (md5 (S "message digest")) = S "f96b697d7cb7938d525a2f31aaf161d0".
Proof. vm_compute. reflexivity. Qed.
Example md5_rfc_5 : hex (md5 (S "abcdefghijklmnopqrstuvwxyz")) = S "c3fcd3d76192e4007dfb496cca67e13b".
Proof. vm_compute. reflexivity. Qed.
Example md5_rfc_6 :
  hex (md5 (S "ABCDEFGHIJKLMNOPQRSTUVWXYZabcdefghijklmnopqrstuvwxyz0123456789")) = S "d174ab98d277d9f5a5611c2c9f419d9f".
Proof. vm_compute. reflexivity. Qed.
Example md5_rfc_7 :
  hex (md5 (S "12345678901234567890123456789012345678901234567890123456789012345678901234567890"))
  = S "57edf4a22be3c955ac49da2e2107b67a".
Proof. vm_compute. reflexivity. Qed.
