(** * Store/TriggerCount.v — C34: "exactly once" as a count over the specification lists *)
From Coq Require Import List ZArith Bool Arith Lia Permutation.
From VibeSQL Require Import Store.Trigger Store.Atomic Store.TriggerLaws.
Import ListNotations.

(** ** Exactly once: counting the firings of one trigger in the specification lists *)
Definition count_id (id : Z) (log : list firing) : nat :=
  length (filter (fun f => Z.eqb (t_id (f_trig f)) id) log).

Lemma count_id_app : forall id a b, count_id id (a ++ b) = count_id id a + count_id id b.
Proof. intros. unfold count_id. rewrite filter_app, app_length. reflexivity. Qed.

Lemma count_id_flat_map : forall {A} id (f : A -> list firing) l,
  count_id id (flat_map f l) = fold_right (fun x acc => count_id id (f x) + acc) 0 l.
Proof. induction l as [|x l IH]; cbn [flat_map fold_right]; [reflexivity|]. rewrite count_id_app, IH. reflexivity. Qed.

Lemma count_fired_absent : forall trs o n id,
  (forall x, In x trs -> t_id x <> id) -> count_id id (fired trs o n) = 0.
Proof.
  induction trs as [|x trs IH]; intros o n id H; [reflexivity|].
  unfold fired. cbn [filter]. destruct (when_fires x o n).
  - cbn [map]. unfold count_id. cbn [filter f_trig]. destruct (Z.eqb_spec (t_id x) id) as [E|E].
    + exfalso. apply (H x); [left; reflexivity|exact E].
    + apply IH. intros y Hy. apply H. right; exact Hy.
  - apply IH. intros y Hy. apply H. right; exact Hy.
Qed.

Lemma count_fired_present : forall trs o n tr,
  NoDup (map t_id trs) -> In tr trs ->
  count_id (t_id tr) (fired trs o n) = if when_fires tr o n then 1 else 0.
Proof.
  induction trs as [|x trs IH]; intros o n tr Hnd Hin; [contradiction|].
  cbn [map] in Hnd. inversion Hnd as [|? ? Hnot Hnd']; subst.
  assert (Hcons : forall l, count_id (t_id tr) (fired (x :: l) o n)
                  = (if when_fires x o n then (if Z.eqb (t_id x) (t_id tr) then 1 else 0) else 0) + count_id (t_id tr) (fired l o n)).
  { intro l. unfold fired. cbn [filter]. destruct (when_fires x o n); [|reflexivity].
    cbn [map]. unfold count_id. cbn [filter f_trig]. destruct (Z.eqb (t_id x) (t_id tr)); reflexivity. }
  rewrite Hcons. destruct Hin as [Heq|Hin].
  - subst x. rewrite Z.eqb_refl. rewrite count_fired_absent.
    + destruct (when_fires tr o n); reflexivity.
    + intros y Hy Hid. apply Hnot. rewrite <- Hid. apply in_map. exact Hy.
  - assert (Hne : Z.eqb (t_id x) (t_id tr) = false).
    { apply Z.eqb_neq. intro Hid. apply Hnot. rewrite Hid. apply in_map. exact Hin. }
    rewrite Hne. rewrite IH by assumption. destruct (when_fires x o n); reflexivity.
Qed.

Lemma NoDup_map_filter : forall {A B} (f : A -> B) (p : A -> bool) l, NoDup (map f l) -> NoDup (map f (filter p l)).
Proof.
  induction l as [|x l IH]; intros H; cbn [filter map] in *; [constructor|].
  inversion H as [|? ? Hnot Hnd]; subst. destruct (p x); [|apply IH; exact Hnd].
  cbn [map]. constructor; [|apply IH; exact Hnd].
  intro Hin. apply Hnot. apply in_map_iff in Hin. destruct Hin as (y & Hy & Hiny). apply filter_In in Hiny.
  apply in_map_iff. exists y. tauto.
Qed.

Section Counting.
  Variable trigs : list trig.
  Variable t : nat.
  Variable ev : event.
  Hypothesis Hnd : NoDup (map t_id trigs).

  Lemma find_triggers_nodup : forall tm, NoDup (map t_id (find_triggers trigs t tm ev)).
  Proof. intro tm. unfold find_triggers, triggers_for_table. repeat apply NoDup_map_filter. exact Hnd. Qed.

  (** the gates of a row trigger for one affected row: UPDATE OF (when both images exist) and WHEN *)
  Definition gate (tr : trig) (img : option row * option row) : bool :=
    match img with
    | (Some o, Some n) => should_fire_update_of tr o n
    | _ => true
    end && when_fires tr (fst img) (snd img).

  Lemma count_spec_row : forall tr tm img,
    In tr trigs -> t_table tr = t -> event_match (t_event tr) ev = true -> t_enabled tr = true -> t_gran tr = GRow ->
    count_id (t_id tr) (spec_row trigs t tm ev img)
    = if timing_eqb (t_timing tr) tm && gate tr img then 1 else 0.
  Proof.
    intros tr tm [o n] Hin Ht He Hen Hg. unfold spec_row. cbn [fst snd].
    assert (Hmem : forall x, In x (row_triggers trigs t tm ev o n) <->
               In x (find_triggers trigs t tm ev) /\ gran_eqb (t_gran x) GRow = true
               /\ match o, n with Some o', Some n' => should_fire_update_of x o' n' | _, _ => true end = true).
    { intro x. unfold row_triggers. rewrite filter_In. rewrite andb_true_iff. tauto. }
    assert (Hfind : In tr (find_triggers trigs t tm ev) <-> timing_eqb (t_timing tr) tm = true).
    { unfold find_triggers, triggers_for_table. rewrite !filter_In. rewrite Ht, He, Hen, Nat.eqb_refl. cbn [andb].
      rewrite andb_true_r. tauto. }
    destruct (timing_eqb (t_timing tr) tm) eqn:Etm; cbn [andb].
    - unfold gate. cbn [fst snd].
      destruct (match o, n with Some o', Some n' => should_fire_update_of tr o' n' | _, _ => true end) eqn:Esf.
      + assert (Hin' : In tr (row_triggers trigs t tm ev o n)).
        { apply Hmem. split; [apply Hfind; reflexivity|]. rewrite Hg. split; [reflexivity|exact Esf]. }
        rewrite count_fired_present; [|unfold row_triggers; apply NoDup_map_filter; apply find_triggers_nodup|exact Hin'].
        destruct o as [o'|], n as [n'|]; reflexivity.
      + rewrite count_fired_absent.
        * reflexivity.
        * intros x Hx Hid. apply Hmem in Hx. destruct Hx as (Hxf & _ & Hxs).
          assert (x = tr).
          { pose proof (find_triggers_nodup tm) as Hn. assert (Htf : In tr (find_triggers trigs t tm ev)) by (apply Hfind; reflexivity).
            clear - Hn Hxf Htf Hid. induction (find_triggers trigs t tm ev) as [|y l IH]; [contradiction|].
            cbn [map] in Hn. inversion Hn as [|? ? Hnot Hn']; subst.
            destruct Hxf as [Hx|Hx], Htf as [Ht|Ht]; subst; auto.
            - exfalso. apply Hnot. rewrite Hid. apply in_map. exact Ht.
            - exfalso. apply Hnot. rewrite <- Hid. apply in_map. exact Hx. }
          subst x. rewrite Hxs in Esf. discriminate.
    - rewrite count_fired_absent; [reflexivity|].
      intros x Hx Hid. apply Hmem in Hx. destruct Hx as (Hxf & _).
      unfold find_triggers in Hxf. apply filter_In in Hxf. destruct Hxf as [Hxt Hxtm]. apply andb_prop in Hxtm. destruct Hxtm as [Hxtm _].
      unfold triggers_for_table in Hxt. apply filter_In in Hxt. destruct Hxt as [Hxin _].
      assert (x = tr).
      { clear - Hnd Hxin Hin Hid. induction trigs as [|y l IH]; [contradiction|].
        cbn [map] in Hnd. inversion Hnd as [|? ? Hnot Hn']; subst.
        destruct Hxin as [Hx|Hx], Hin as [Ht|Ht]; subst; auto.
        - exfalso. apply Hnot. rewrite Hid. apply in_map. exact Ht.
        - exfalso. apply Hnot. rewrite <- Hid. apply in_map. exact Hx. }
      subst x. congruence.
  Qed.

  Lemma count_spec_stmt_row_trigger : forall ctx tr tm,
    In tr trigs -> t_gran tr = GRow -> count_id (t_id tr) (spec_stmt ctx trigs t tm ev) = 0.
  Proof.
    intros ctx tr tm Hin Hg. unfold spec_stmt. destruct (is_none ctx); [|reflexivity].
    apply count_fired_absent. intros x Hx Hid. unfold stmt_triggers in Hx. apply filter_In in Hx. destruct Hx as [Hxf Hxg].
    unfold find_triggers, triggers_for_table in Hxf. apply filter_In in Hxf. destruct Hxf as [Hxf _]. apply filter_In in Hxf. destruct Hxf as [Hxin _].
    assert (x = tr).
    { clear - Hnd Hxin Hin Hid. induction trigs as [|y l IH]; [contradiction|].
      cbn [map] in Hnd. inversion Hnd as [|? ? Hnot Hn']; subst.
      destruct Hxin as [Hx|Hx], Hin as [Ht|Ht]; subst; auto.
      - exfalso. apply Hnot. rewrite Hid. apply in_map. exact Ht.
      - exfalso. apply Hnot. rewrite <- Hid. apply in_map. exact Hx. }
    subst x. rewrite Hg in Hxg. discriminate.
  Qed.

  Lemma fold_count : forall (g : option row * option row -> nat) (p : option row * option row -> bool) imgs,
    (forall img, g img = if p img then 1 else 0) ->
    fold_right (fun x acc => g x + acc) 0 imgs = length (filter p imgs).
  Proof.
    intros g p imgs H. induction imgs as [|x l IH]; cbn [fold_right filter]; [reflexivity|].
    rewrite H, IH. destruct (p x); reflexivity.
  Qed.

  (** UPDATE / DELETE: a row trigger (BEFORE or AFTER) fires exactly once for every affected row that passes its gates *)
  Theorem two_pass_exactly_once : forall ctx tr imgs,
    In tr trigs -> t_table tr = t -> event_match (t_event tr) ev = true -> t_enabled tr = true -> t_gran tr = GRow ->
    t_timing tr = Before \/ t_timing tr = After ->
    count_id (t_id tr) (spec_two_pass ctx trigs t ev imgs) = length (filter (gate tr) imgs).
  Proof.
    intros ctx tr imgs Hin Ht He Hen Hg Htm. unfold spec_two_pass.
    rewrite !count_id_app, !count_spec_stmt_row_trigger by assumption.
    rewrite !count_id_flat_map.
    destruct Htm as [Htm|Htm].
    - rewrite (fold_count _ (gate tr)); [|intro img; rewrite count_spec_row by assumption; rewrite Htm; reflexivity].
      rewrite (fold_count _ (fun _ => false)); [|intro img; rewrite count_spec_row by assumption; rewrite Htm; reflexivity].
      assert (Hf : filter (fun _ : option row * option row => false) imgs = []) by (induction imgs; auto).
      rewrite Hf. cbn. lia.
    - rewrite (fold_count _ (fun _ => false)); [|intro img; rewrite count_spec_row by assumption; rewrite Htm; reflexivity].
      rewrite (fold_count _ (gate tr)); [|intro img; rewrite count_spec_row by assumption; rewrite Htm; reflexivity].
      assert (Hf : filter (fun _ : option row * option row => false) imgs = []) by (induction imgs; auto).
      rewrite Hf. cbn. lia.
  Qed.
End Counting.

(** INSERT: the same count for the per-row list *)
Theorem insert_exactly_once : forall trigs t ctx tr rows,
  NoDup (map t_id trigs) ->
  In tr trigs -> t_table tr = t -> t_event tr = EvInsert -> t_enabled tr = true -> t_gran tr = GRow ->
  t_timing tr = Before \/ t_timing tr = After ->
  count_id (t_id tr) (spec_insert ctx trigs t rows) = length (filter (fun r => when_fires tr None (Some r)) rows).
Proof.
  intros trigs t ctx tr rows Hnd Hin Ht He Hen Hg Htm. unfold spec_insert.
  assert (Hev : event_match (t_event tr) EvInsert = true) by (rewrite He; reflexivity).
  rewrite !count_id_app, !(count_spec_stmt_row_trigger trigs t EvInsert Hnd) by assumption.
  rewrite count_id_flat_map.
  assert (Hrow : forall r, count_id (t_id tr) (spec_row trigs t Before EvInsert (None, Some r) ++ spec_row trigs t After EvInsert (None, Some r))
                 = if when_fires tr None (Some r) then 1 else 0).
  { intro r. rewrite count_id_app, !(count_spec_row trigs t EvInsert Hnd) by assumption.
    unfold gate. cbn [fst snd andb]. destruct Htm as [Htm|Htm]; rewrite Htm; cbn [timing_eqb andb]; destruct (when_fires tr None (Some r)); reflexivity. }
  induction rows as [|r l IH]; cbn [fold_right filter]; [reflexivity|].
  rewrite Hrow. cbn in IH. rewrite Nat.add_0_r in IH. rewrite Nat.add_0_l.
  destruct (when_fires tr None (Some r)); cbn [length]; lia.
Qed.
