(** * Store/CacheTables.v — executable model of the table-name extraction that feeds cache invalidation.

    Modelled code:
    - crates/vibesql-executor/src/cache/table_extractor.rs: [extract_tables_from_select],
      [extract_from_from_clause], [extract_from_expression]  (model: [xt_select], [xt_from], [xt_expr]);
    - tests/sqllogictest/db_adapter.rs: [VibeSqlDB::extract_table_names] and
      [extract_table_names_from_from], the extractor the adapter actually calls: FROM clause only
      (model: [ax_select], [ax_from]).

    The query tree keeps exactly what extraction can see.  An expression node carries the name of its
    [vibesql_ast::Expression] variant ([ekind], one constructor per Rust variant), the list of its
    direct sub-expressions and the list of its direct sub-queries (the harness converts the real
    parse tree; which fields are children is read off crates/vibesql-ast/src/expression.rs).  The table
    [visits] transcribes the match of [extract_from_expression]: for every variant except those of
    the final "leaf expressions" arm the function descends into all sub-expressions and all
    sub-queries.  Three variants of that leaf arm do have children ([Interval], [WindowFunction],
    [MatchAgainst]); whatever is below them is invisible to the extractor.  Optional components
    ([Option<..>]) are lists of length 0 or 1.  Views are names like any other table.

    The specification side: [all_tables] is the uniform traversal (every node, every child, whatever
    the variant); [reads] additionally expands view names through a view environment.
    No proofs in this file. *)
From Coq Require Import List ZArith Bool.
From VibeSQL Require Import Lex.Normalize Store.Cache.
Import ListNotations.
Open Scope Z_scope.

(** one constructor per variant of [vibesql_ast::Expression] *)
Inductive ekind : Type :=
| KLiteral | KColumnRef | KBinaryOp | KUnaryOp | KFunction | KAggregateFunction | KIsNull | KWildcard
| KCase | KScalarSubquery | KIn | KInList | KBetween | KCast | KPosition | KTrim | KLike | KExists
| KQuantifiedComparison | KCurrentDate | KCurrentTime | KCurrentTimestamp | KInterval | KDefault
| KDuplicateKeyValue | KWindowFunction | KNextValue | KMatchAgainst | KPseudoVariable | KSessionVariable.

(** table_extractor.rs [extract_from_expression]: does the arm for this variant descend? *)
Definition visits (k : ekind) : bool :=
  match k with
  | KScalarSubquery | KBinaryOp | KUnaryOp | KFunction | KAggregateFunction | KCase | KIn | KInList
  | KExists | KBetween | KIsNull | KCast | KLike | KPosition | KTrim | KQuantifiedComparison => true
  | KLiteral | KColumnRef | KWildcard | KCurrentDate | KCurrentTime | KCurrentTimestamp | KInterval
  | KDefault | KDuplicateKeyValue | KWindowFunction | KNextValue | KMatchAgainst | KPseudoVariable
  | KSessionVariable => false
  end.

Inductive expr : Type :=
| ENode (k : ekind) (children : list expr) (subs : list select)
with from : Type :=
| FTable (name : tname)                          (* FromClause::Table { name, .. } *)
| FJoin (l r : from) (cond : list expr)          (* FromClause::Join { left, right, condition, .. } *)
| FSub (q : select)                              (* FromClause::Subquery { query, .. } *)
with select : Type :=
| Select (ctes : list select)     (* with_clause: the CTE queries *)
         (items : list expr)      (* select_list: the SelectItem::Expression items *)
         (frm : list from)        (* from *)
         (whr : list expr)        (* where_clause *)
         (grp : list expr)        (* group_by *)
         (hav : list expr)        (* having *)
         (ord : list expr)        (* order_by item expressions *)
         (setop : list select).   (* set_operation.right *)

(** [if let Some(pos) = name.rfind('.') { &name[pos + 1..] } else { name }] *)
Fixpoint base_name (n : tname) : tname :=
  match n with
  | [] => []
  | c :: r => if existsb (Z.eqb 46) r then base_name r else if c =? 46 then r else n
  end.

(** ** table_extractor.rs (the executor crate's extractor) *)
Fixpoint xt_expr (e : expr) : list tname :=
  match e with
  | ENode k ch subs => if visits k then flat_map xt_expr ch ++ flat_map xt_select subs else []
  end
with xt_from (f : from) : list tname :=
  match f with
  | FTable n => [base_name n]
  | FJoin l r c => xt_from l ++ xt_from r ++ flat_map xt_expr c
  | FSub q => xt_select q
  end
with xt_select (q : select) : list tname :=
  match q with
  | Select ctes items frm whr grp hav ord setop =>
    flat_map xt_from frm ++ flat_map xt_expr items ++ flat_map xt_expr whr ++ flat_map xt_expr grp
    ++ flat_map xt_expr hav ++ flat_map xt_expr ord ++ flat_map xt_select ctes ++ flat_map xt_select setop
  end.

(** ** db_adapter.rs (the extractor the sqllogictest adapter calls): FROM clause only *)
Fixpoint ax_from (f : from) : list tname :=
  match f with
  | FTable n => [base_name n]
  | FJoin l r _ => ax_from l ++ ax_from r
  | FSub q => ax_select q
  end
with ax_select (q : select) : list tname :=
  match q with
  | Select _ _ frm _ _ _ _ _ => flat_map ax_from frm
  end.

(** ** Specification side: every table name mentioned anywhere in the statement *)
Fixpoint all_expr (e : expr) : list tname :=
  match e with
  | ENode _ ch subs => flat_map all_expr ch ++ flat_map all_select subs
  end
with all_from (f : from) : list tname :=
  match f with
  | FTable n => [base_name n]
  | FJoin l r c => all_from l ++ all_from r ++ flat_map all_expr c
  | FSub q => all_select q
  end
with all_select (q : select) : list tname :=
  match q with
  | Select ctes items frm whr grp hav ord setop =>
    flat_map all_from frm ++ flat_map all_expr items ++ flat_map all_expr whr ++ flat_map all_expr grp
    ++ flat_map all_expr hav ++ flat_map all_expr ord ++ flat_map all_select ctes ++ flat_map all_select setop
  end.

(** the names below a variant that [extract_from_expression] treats as a leaf *)
Fixpoint hid_expr (e : expr) : list tname :=
  match e with
  | ENode k ch subs =>
    if visits k then flat_map hid_expr ch ++ flat_map hid_select subs
    else flat_map all_expr ch ++ flat_map all_select subs
  end
with hid_from (f : from) : list tname :=
  match f with
  | FTable n => []
  | FJoin l r c => hid_from l ++ hid_from r ++ flat_map hid_expr c
  | FSub q => hid_select q
  end
with hid_select (q : select) : list tname :=
  match q with
  | Select ctes items frm whr grp hav ord setop =>
    flat_map hid_from frm ++ flat_map hid_expr items ++ flat_map hid_expr whr ++ flat_map hid_expr grp
    ++ flat_map hid_expr hav ++ flat_map hid_expr ord ++ flat_map hid_select ctes ++ flat_map hid_select setop
  end.

(** the names the adapter's FROM-only extractor does not see: everything outside the FROM spine *)
Fixpoint ahid_from (f : from) : list tname :=
  match f with
  | FTable n => []
  | FJoin l r c => ahid_from l ++ ahid_from r ++ flat_map all_expr c
  | FSub q => ahid_select q
  end
with ahid_select (q : select) : list tname :=
  match q with
  | Select ctes items frm whr grp hav ord setop =>
    flat_map ahid_from frm ++ flat_map all_expr items ++ flat_map all_expr whr ++ flat_map all_expr grp
    ++ flat_map all_expr hav ++ flat_map all_expr ord ++ flat_map all_select ctes ++ flat_map all_select setop
  end.

(** ** The base tables a query's result depends on: mentioned names, with views expanded.
    [views n] is the defining query of the view named [n] (if [n] is a view); [fuel] bounds the
    depth of views defined over views. *)
Section Reads.
  Variable views : tname -> option select.

  Fixpoint reads (fuel : nat) (q : select) : list tname :=
    let names := all_select q in
    match fuel with
    | O => names
    | S f =>
      names ++ flat_map (fun n => match views n with Some vq => reads f vq | None => [] end) names
    end.
End Reads.

(** string equality and set comparison of name lists (HashSet<String> semantics), for the runner *)
Fixpoint name_eqb (a b : tname) : bool :=
  match a, b with
  | [], [] => true
  | x :: a', y :: b' => (x =? y) && name_eqb a' b'
  | _, _ => false
  end.
Definition name_mem (n : tname) (l : list tname) : bool := existsb (name_eqb n) l.
Definition name_subset (a b : list tname) : bool := forallb (fun n => name_mem n b) a.
Definition name_set_eqb (a b : list tname) : bool := name_subset a b && name_subset b a.
