(** Model of the transaction layer of vibesql-storage (C13 / C14).  Executable definitions only.

    Modelled code (as it is in /repo now):
    - crates/vibesql-storage/src/database/transactions.rs : [TransactionChange], [Savepoint],
      [TransactionState], [TransactionManager::{record_change, begin_transaction, commit_transaction,
      rollback_transaction}]  (the savepoint functions are in Store/Savepoint.v)
    - crates/vibesql-storage/src/database/core.rs : [Database::{begin_transaction, commit_transaction,
      rollback_transaction, record_change, insert_row, insert_rows_batch, create_index, drop_index}]
    - crates/vibesql-storage/src/database/operations.rs : [Operations::{insert_row, insert_rows_batch,
      create_index, drop_index, rebuild_indexes}]
    - crates/vibesql-storage/src/database/indexes/index_maintenance.rs : [add_to_indexes_for_insert],
      [update_indexes_for_update], [create_index] (InMemory backend), [drop_index]
    - crates/vibesql-storage/src/table/{mod,normalization}.rs : [Table::{insert, update_row_selective,
      delete_where, clear, remove_row}], [RowNormalizer::normalize_and_validate]
    - crates/vibesql-executor/src/{insert/execution.rs, insert/validation.rs (coerce_value),
      update/mod.rs, delete/executor.rs, index_ddl/{create_index,drop_index}.rs,
      select/scan/index_scan/{selection,execution}.rs} as far as they decide what reaches the
      storage layer and what a point query through a user index answers.

    Scope restrictions (stated in design.d/C13.md): tables have no PRIMARY KEY / UNIQUE / NOT NULL /
    CHECK / FOREIGN KEY constraints and no triggers, so the executors' validation phases never reject a
    row; column types are INTEGER, VARCHAR(n) / VARCHAR and CHAR(n); user indexes are non-unique,
    single-column, in-memory, on INTEGER columns; WHERE clauses are [col = integer literal] on INTEGER
    columns or absent; UPDATE assigns an integer literal.  The set of tables is fixed (no table DDL).

    The database is [(catalog listing, tables as row lists, user index contents, txn state)]; the
    transaction state is [(catalog snapshot, tables snapshot, savepoint stack, change log)] exactly as
    [TransactionState::Active]. *)
From Coq Require Import List ZArith Bool Arith.
From VibeSQL Require Import Base.LexOrd Value.SqlValue.
Import ListNotations.
Open Scope Z_scope.

Definition tname := Z.   (* table  [k]  is SQL table  T<k>  *)
Definition iname := Z.   (* index  [k]  is SQL index  IX<k> *)
Definition spname := Z.  (* savepoint [k] is SQL savepoint S<k> *)
Definition row := list sqlvalue.

(** [Vec<SqlValue> == Vec<SqlValue>] ([Row] derives [PartialEq]) *)
Fixpoint row_eqb (a b : row) : bool :=
  match a, b with
  | [], [] => true
  | x :: a', y :: b' => eqb x y && row_eqb a' b'
  | _, _ => false
  end.

(** three-way result of a fallible Rust computation: value, [Err(..)], or a panic *)
Inductive outcome (A : Type) : Type :=
| Done (a : A)
| Fail
| Panicked.
Arguments Done {A} a.
Arguments Fail {A}.
Arguments Panicked {A}.

(** what a statement / API call returns: [Ok(n)] (n = affected rows, 0 for control statements),
    [Err(_)], or a panic caught by the harness *)
Inductive result : Type :=
| ROk (n : nat)
| RErr
| RPanic.

(** * Strings: UTF-8 bytes; [String::len] is the byte length, [&s[..n]] panics off a char boundary *)
Definition is_cont (b : Z) : bool := (128 <=? b) && (b <? 192).
(** [s.chars().count()] : bytes that are not continuation bytes *)
Definition nchars (s : list Z) : nat := length (filter (fun b => negb (is_cont b)) s).
(** [format!("{:width$}", s, width = n)] : pads with spaces up to [n] *characters* *)
Definition pad_to (s : list Z) (n : nat) : list Z := s ++ repeat 32 (n - nchars s)%nat.
(** [s.chars().take(n).collect()] : the bytes of the first [n] characters *)
Fixpoint take_chars (n : nat) (s : list Z) : list Z :=
  match s with
  | [] => []
  | b :: rest =>
      if is_cont b then b :: take_chars n rest          (* continuation byte of a character already taken *)
      else match n with O => [] | S n' => b :: take_chars n' rest end
  end.
(** [let mut end = n; while !s.is_char_boundary(end) { end -= 1 }] for [n < s.len()]
    ([RowNormalizer::truncate_at_char_boundary]) *)
Fixpoint floor_boundary (s : list Z) (e : nat) : nat :=
  match e with
  | O => O
  | S e' => if is_cont (nth e s 0) then floor_boundary s e' else e
  end.

(** * Column types and [RowNormalizer::normalize_and_validate] (table/normalization.rs) *)
Inductive coltype : Type :=
| TInt
| TVarchar (max : option nat)
| TChar (len : nat).

Definition normalize_value (ty : coltype) (v : sqlvalue) : outcome sqlvalue :=
  match v with
  | VNull => Done VNull                     (* all modelled columns are nullable *)
  | _ =>
    match ty, v with
    | TInt, VInteger _ => Done v
    | TVarchar None, VVarchar _ => Done v
    | TVarchar (Some m), VVarchar s =>        (* cut on a character boundary at or below byte m *)
        if (m <? length s)%nat then Done (VVarchar (firstn (floor_boundary s m) s)) else Done v
    | TChar n, VCharacter s =>                (* normalize_char_value: counts characters (803c4ba9) *)
        match Nat.compare (nchars s) n with
        | Lt => Done (VCharacter (pad_to s n))
        | Gt => Done (VCharacter (take_chars n s))
        | Eq => Done v
        end
    | _, _ => Fail                            (* StorageError::TypeMismatch *)
    end
  end.

(** the single left-to-right pass over the columns: the first failing column decides *)
Fixpoint normalize_cells (cols : list coltype) (r : row) : outcome row :=
  match cols, r with
  | [], [] => Done []
  | ty :: cols', v :: r' =>
      match normalize_value ty v with
      | Done v' =>
          match normalize_cells cols' r' with
          | Done r'' => Done (v' :: r'')
          | Fail => Fail
          | Panicked => Panicked
          end
      | Fail => Fail
      | Panicked => Panicked
      end
  | _, _ => Fail
  end.

Definition normalize_row (cols : list coltype) (r : row) : outcome row :=
  if (length r =? length cols)%nat then normalize_cells cols r else Fail.   (* ColumnCountMismatch *)

(** a row the normaliser leaves alone *)
Definition stable_row (cols : list coltype) (r : row) : bool :=
  match normalize_row cols r with
  | Done r' => row_eqb r r'
  | _ => false
  end.

(** * SQL literals of an INSERT ... VALUES and [coerce_value] (insert/validation.rs) *)
Inductive lit : Type :=
| LInt (z : Z)            (* parsed as SqlValue::Integer *)
| LStr (s : list Z)       (* parsed as SqlValue::Varchar *)
| LNull.

Definition coerce_lit (ty : coltype) (l : lit) : outcome sqlvalue :=
  match l, ty with
  | LNull, _ => Done VNull
  | LInt z, TInt => Done (VInteger z)
  | LStr s, TVarchar _ => Done (VVarchar s)
  | LStr s, TChar n =>                                  (* Varchar -> Character{length} *)
      if (n <? nchars s)%nat                                   (* CHAR(n) counts characters *)
      then Done (VCharacter (take_chars n s))
      else Done (VCharacter (pad_to s n))
  | _, _ => Fail                                        (* "Type mismatch: expected .., got .." *)
  end.

Fixpoint coerce_cells (cols : list coltype) (ls : list lit) : outcome row :=
  match cols, ls with
  | [], [] => Done []
  | ty :: cols', l :: ls' =>
      match coerce_lit ty l with
      | Done v =>
          match coerce_cells cols' ls' with
          | Done r => Done (v :: r)
          | Fail => Fail
          | Panicked => Panicked
          end
      | Fail => Fail
      | Panicked => Panicked
      end
  | _, _ => Fail
  end.

Fixpoint coerce_rows (cols : list coltype) (rows : list (list lit)) : outcome (list row) :=
  match rows with
  | [] => Done []
  | ls :: rest =>
      match coerce_cells cols ls with
      | Done r =>
          match coerce_rows cols rest with
          | Done rs => Done (r :: rs)
          | Fail => Fail
          | Panicked => Panicked
          end
      | Fail => Fail
      | Panicked => Panicked
      end
  end.

(** * Tables *)
Record table : Type := mkTable { t_cols : list coltype; t_rows : list row }.
Definition tables := list (tname * table).

Fixpoint get_table (T : tables) (t : tname) : option table :=
  match T with
  | [] => None
  | (n, tb) :: T' => if n =? t then Some tb else get_table T' t
  end.

Fixpoint set_table (T : tables) (t : tname) (tb' : table) : tables :=
  match T with
  | [] => []
  | (n, tb) :: T' => if n =? t then (n, tb') :: T' else (n, tb) :: set_table T' t tb'
  end.

(** [Table::insert] : normalise, then push *)
Definition table_insert (tb : table) (r : row) : outcome table :=
  match normalize_row (t_cols tb) r with
  | Done r' => Done (mkTable (t_cols tb) (t_rows tb ++ [r']))
  | Fail => Fail
  | Panicked => Panicked
  end.

(** [Table::remove_row] : position of the first row [==] to the target (hash indexes internal to
    the table are rebuilt and not modelled) *)
Fixpoint remove_first (r : row) (rows : list row) : option (list row) :=
  match rows with
  | [] => None
  | x :: rest =>
      if row_eqb x r then Some rest
      else match remove_first r rest with
           | Some rest' => Some (x :: rest')
           | None => None
           end
  end.

(** * User indexes (database/indexes): BTreeMap key -> Vec<row index>, kept as an association list
    with at most one entry per key.  Keys of INTEGER columns: [Some z] for [Integer z]
    (normalize_for_comparison maps it to [Double (z as f64)], injective for |z| <= 2^53) and
    [None] for NULL. *)
Definition ikey := option Z.
Definition ikey_eqb (a b : ikey) : bool :=
  match a, b with
  | Some x, Some y => x =? y
  | None, None => true
  | _, _ => false
  end.
Definition key_of_cell (v : sqlvalue) : ikey :=
  match v with VInteger z => Some z | _ => None end.
Definition idata := list (ikey * list nat).

(** [data.entry(key).or_insert_with(Vec::new).push(row_index)] *)
Fixpoint idx_push (k : ikey) (pos : nat) (d : idata) : idata :=
  match d with
  | [] => [(k, [pos])]
  | (k', l) :: d' => if ikey_eqb k' k then (k', l ++ [pos]) :: d' else (k', l) :: idx_push k pos d'
  end.

(** [if let Some(v) = data.get_mut(key) { v.retain(|&i| i != row_index); if v.is_empty() { data.remove(key) } }] *)
Fixpoint idx_remove (k : ikey) (pos : nat) (d : idata) : idata :=
  match d with
  | [] => []
  | (k', l) :: d' =>
      if ikey_eqb k' k
      then let l' := filter (fun i => negb (i =? pos)%nat) l in
           match l' with [] => d' | _ => (k', l') :: d' end
      else (k', l) :: idx_remove k pos d'
  end.

Fixpoint idx_lookup (k : ikey) (d : idata) : list nat :=
  match d with
  | [] => []
  | (k', l) :: d' => if ikey_eqb k' k then l else idx_lookup k d'
  end.

Record uindex : Type := mkIx { ix_name : iname; ix_table : tname; ix_col : nat; ix_data : idata }.

Definition row_key (c : nat) (r : row) : ikey := key_of_cell (nth c r VNull).

(** building an index over rows [rows] that sit at positions [pos, pos+1, ..] *)
Fixpoint idx_build (c : nat) (pos : nat) (rows : list row) (d : idata) : idata :=
  match rows with
  | [] => d
  | r :: rest => idx_build c (S pos) rest (idx_push (row_key c r) pos d)
  end.

(** [add_to_indexes_for_insert(table_name, schema, row, row_index)] : every index whose
    [metadata.table_name == table_name] *)
Definition uix_insert (U : list uindex) (t : tname) (r : row) (pos : nat) : list uindex :=
  map (fun ix => if ix_table ix =? t
                 then mkIx (ix_name ix) (ix_table ix) (ix_col ix) (idx_push (row_key (ix_col ix) r) pos (ix_data ix))
                 else ix) U.

Fixpoint uix_insert_many (U : list uindex) (t : tname) (rs : list row) (pos : nat) : list uindex :=
  match rs with
  | [] => U
  | r :: rest => uix_insert_many (uix_insert U t r pos) t rest (S pos)
  end.

(** [update_indexes_for_update(table_name, old_row, new_row, row_index)] *)
Definition uix_update (U : list uindex) (t : tname) (old new : row) (pos : nat) : list uindex :=
  map (fun ix => if ix_table ix =? t
                 then let ko := row_key (ix_col ix) old in
                      let kn := row_key (ix_col ix) new in
                      if ikey_eqb ko kn then ix
                      else mkIx (ix_name ix) (ix_table ix) (ix_col ix)
                                (idx_push kn pos (idx_remove ko pos (ix_data ix)))
                 else ix) U.

(** * Catalog (the part that is listed): table names and the catalog's own index metadata
    ("table.index" keys of [Catalog::indexes]) *)
Record catalog : Type := mkCat { c_tables : list tname; c_indexes : list (iname * tname) }.

(** * Transaction state (transactions.rs) *)
Inductive change : Type :=
| CInsert (t : tname) (r : row)
| CUpdate (t : tname) (old new : row)
| CDelete (t : tname) (r : row).

Record txn : Type := mkTxn {
  x_cat : catalog;                       (* original_catalog *)
  x_tabs : tables;                       (* original_tables *)
  x_ixs : list (iname * tname * nat);    (* original_indexes: definitions of the user indexes at BEGIN *)
  x_sps : list (spname * nat);           (* savepoints: (name, snapshot_index), newest at the end *)
  x_log : list change                    (* changes *)
}.

Record db : Type := mkDb {
  d_cat : catalog;
  d_tabs : tables;
  d_uix : list uindex;                   (* operations.index_manager: NOT part of any snapshot *)
  d_tx : option txn                      (* None = TransactionState::None *)
}.

(** [TransactionManager::record_change] *)
Definition record (d : db) (cs : list change) : db :=
  match d_tx d with
  | None => d
  | Some x => mkDb (d_cat d) (d_tabs d) (d_uix d) (Some (mkTxn (x_cat x) (x_tabs x) (x_ixs x) (x_sps x) (x_log x ++ cs)))
  end.

(** [Operations::index_definitions] : name, table and column of every storage index *)
Definition ix_defs (U : list uindex) : list (iname * tname * nat) :=
  map (fun ix => (ix_name ix, ix_table ix, ix_col ix)) U.

(** the rebuild loop of [Database::rollback_transaction]: after every storage index was dropped,
    [Operations::create_index] for each remembered definition over the restored tables; the first
    failing definition (table gone, column gone, name already taken) ends the loop with an error and
    leaves the indexes created so far *)
Fixpoint rebuild_defs (T : tables) (defs : list (iname * tname * nat)) (acc : list uindex) : list uindex * bool :=
  match defs with
  | [] => (acc, true)
  | (i, t, c) :: rest =>
      match get_table T t with
      | None => (acc, false)
      | Some tb =>
          if (length (t_cols tb) <=? c)%nat then (acc, false)
          else if existsb (fun ix => ix_name ix =? i) acc then (acc, false)
          else rebuild_defs T rest (acc ++ [mkIx i t c (idx_build c 0 (t_rows tb) [])])
      end
  end.

(** [Database::begin_transaction] : snapshot of (catalog, tables) and the definitions (not the
    contents) of the user indexes *)
Definition begin_txn (d : db) : db * result :=
  match d_tx d with
  | None => (mkDb (d_cat d) (d_tabs d) (d_uix d) (Some (mkTxn (d_cat d) (d_tabs d) (ix_defs (d_uix d)) [] [])), ROk 0)
  | Some _ => (d, RErr)
  end.

(** [Database::commit_transaction] *)
Definition commit_txn (d : db) : db * result :=
  match d_tx d with
  | None => (d, RErr)
  | Some _ => (mkDb (d_cat d) (d_tabs d) (d_uix d) None, ROk 0)
  end.

(** [Database::rollback_transaction] -> [Lifecycle::perform_rollback] ->
    [TransactionManager::rollback_transaction] : [*catalog = original_catalog; *tables = original_tables],
    the transaction state is cleared; then every storage index is dropped and the indexes remembered at
    BEGIN are created again from the restored tables *)
Definition rollback_txn (d : db) : db * result :=
  match d_tx d with
  | None => (d, RErr)
  | Some x =>
      let '(U, ok) := rebuild_defs (x_tabs x) (x_ixs x) [] in
      (mkDb (x_cat x) (x_tabs x) U None, if ok then ROk 0 else RErr)
  end.

(** * INSERT at the storage API *)

(** [Database::insert_row] *)
Definition api_insert_row (d : db) (t : tname) (r : row) : db * result :=
  match get_table (d_tabs d) t with
  | None => (d, RErr)
  | Some tb =>
      match table_insert tb r with
      | Fail => (d, RErr)
      | Panicked => (d, RPanic)
      | Done tb' =>
          let pos := length (t_rows tb) in
          (record (mkDb (d_cat d) (set_table (d_tabs d) t tb') (uix_insert (d_uix d) t r pos) (d_tx d))
                  [CInsert t r], ROk 1)
      end
  end.

(** the [for row in &rows { table.insert(row.clone())?; }] loop of [Operations::insert_rows_batch] *)
Fixpoint table_insert_many (tb : table) (rs : list row) : table * outcome unit :=
  match rs with
  | [] => (tb, Done tt)
  | r :: rest =>
      match table_insert tb r with
      | Done tb' => table_insert_many tb' rest
      | Fail => (tb, Fail)
      | Panicked => (tb, Panicked)
      end
  end.

(** [Database::insert_rows_batch] : rows inserted before a failing one stay in the table, without
    index entries and without change records *)
Definition api_insert_batch (d : db) (t : tname) (rs : list row) : db * result :=
  match rs with
  | [] => (d, ROk 0)
  | _ =>
    match get_table (d_tabs d) t with
    | None => (d, RErr)
    | Some tb =>
        match table_insert_many tb rs with
        | (tb', Done _) =>
            (record (mkDb (d_cat d) (set_table (d_tabs d) t tb')
                          (uix_insert_many (d_uix d) t rs (length (t_rows tb))) (d_tx d))
                    (map (CInsert t) rs), ROk (length rs))
        | (tb', Fail) => (mkDb (d_cat d) (set_table (d_tabs d) t tb') (d_uix d) (d_tx d), RErr)
        | (tb', Panicked) => (mkDb (d_cat d) (set_table (d_tabs d) t tb') (d_uix d) (d_tx d), RPanic)
        end
    end
  end.

(** [InsertExecutor::execute] for INSERT INTO t VALUES (..),(..) : [validate_row_column_counts]
    runs over all rows before any value is evaluated; all rows are coerced before any mutation; one row goes through [insert_row], several through [insert_rows_batch] *)
Definition sql_insert (d : db) (t : tname) (rows : list (list lit)) : db * result :=
  match get_table (d_tabs d) t with
  | None => (d, RErr)
  | Some tb =>
      if negb (forallb (fun ls => (length ls =? length (t_cols tb))%nat) rows) then (d, RErr)
      else
      match coerce_rows (t_cols tb) rows with
      | Fail => (d, RErr)
      | Panicked => (d, RPanic)
      | Done [] => (d, ROk 0)
      | Done [r] => api_insert_row d t r
      | Done rs => api_insert_batch d t rs
      end
  end.

(** * UPDATE t SET col = k [WHERE wcol = wk]  (update/mod.rs) *)
Definition wclause := option (nat * Z).
Definition matches (w : wclause) (r : row) : bool :=
  match w with
  | None => true
  | Some (c, k) => match nth c r VNull with VInteger z => z =? k | _ => false end
  end.

Fixpoint set_nth (c : nat) (v : sqlvalue) (r : row) : row :=
  match c, r with
  | _, [] => []
  | O, _ :: r' => v :: r'
  | S c', x :: r' => x :: set_nth c' v r'
  end.

(** the apply loop: [update_row_selective] row after row, stopping at the first failure *)
Fixpoint update_rows (cols : list coltype) (c : nat) (k : Z) (w : wclause) (rows : list row)
  : list row * outcome unit :=
  match rows with
  | [] => ([], Done tt)
  | r :: rest =>
      if matches w r then
        match normalize_row cols (set_nth c (VInteger k) r) with
        | Done r' => let '(rest', st) := update_rows cols c k w rest in (r' :: rest', st)
        | Fail => (r :: rest, Fail)
        | Panicked => (r :: rest, Panicked)
        end
      else let '(rest', st) := update_rows cols c k w rest in (r :: rest', st)
  end.

(** the user-index pass after the apply loop, over [(index, old_row, new_row)] in row order *)
Fixpoint uix_update_rows (U : list uindex) (t : tname) (c : nat) (k : Z) (w : wclause)
         (pos : nat) (rows : list row) : list uindex :=
  match rows with
  | [] => U
  | r :: rest =>
      if matches w r
      then uix_update_rows (uix_update U t r (set_nth c (VInteger k) r) pos) t c k w (S pos) rest
      else uix_update_rows U t c k w (S pos) rest
  end.

Definition count_matching (w : wclause) (rows : list row) : nat := length (filter (matches w) rows).

(** UPDATE records no change *)
Definition sql_update (d : db) (t : tname) (c : nat) (k : Z) (w : wclause) : db * result :=
  match get_table (d_tabs d) t with
  | None => (d, RErr)
  | Some tb =>
      if (length (t_cols tb) <=? c)%nat
      then (d, match count_matching w (t_rows tb) with O => ROk 0 | S _ => RErr end)
           (* ColumnNotFound is raised by apply_assignments, i.e. only for a candidate row *)
      else
        match update_rows (t_cols tb) c k w (t_rows tb) with
        | (rows', Done _) =>
            (mkDb (d_cat d) (set_table (d_tabs d) t (mkTable (t_cols tb) rows'))
                  (uix_update_rows (d_uix d) t c k w 0 (t_rows tb)) (d_tx d),
             ROk (count_matching w (t_rows tb)))
        | (rows', Fail) => (mkDb (d_cat d) (set_table (d_tabs d) t (mkTable (t_cols tb) rows')) (d_uix d) (d_tx d), RErr)
        | (rows', Panicked) => (mkDb (d_cat d) (set_table (d_tabs d) t (mkTable (t_cols tb) rows')) (d_uix d) (d_tx d), RPanic)
        end
  end.

(** [Database::rebuild_indexes(table_name)] -> [IndexManager::rebuild_indexes]: every index whose
    [metadata.table_name == table_name] is cleared and refilled from the table's current rows *)
Definition uix_rebuild (U : list uindex) (t : tname) (rows : list row) : list uindex :=
  map (fun ix => if ix_table ix =? t
                 then mkIx (ix_name ix) (ix_table ix) (ix_col ix) (idx_build (ix_col ix) 0 rows [])
                 else ix) U.

(** * DELETE FROM t [WHERE wcol = wk]  (delete/executor.rs).  Without WHERE: [Table::clear] (the
    truncate fast path).  With WHERE: [Table::delete_where].  Both are followed by
    [Database::rebuild_indexes(&stmt.table_name)] (since the fix commits 06b958cd / a030085c the
    table is found under its schema-qualified key and the fast path rebuilds too), also when no row
    matched.  Nothing is recorded in the change log. *)
Definition sql_delete (d : db) (t : tname) (w : wclause) : db * result :=
  match get_table (d_tabs d) t with
  | None => (d, RErr)
  | Some tb =>
      let rows' := match w with None => [] | Some _ => filter (fun r => negb (matches w r)) (t_rows tb) end in
      (mkDb (d_cat d) (set_table (d_tabs d) t (mkTable (t_cols tb) rows')) (uix_rebuild (d_uix d) t rows') (d_tx d),
       ROk (count_matching w (t_rows tb)))
  end.

(** * CREATE INDEX i ON t (col)  (index_ddl/create_index.rs) *)
Definition has_uix (U : list uindex) (i : iname) : bool := existsb (fun ix => ix_name ix =? i) U.
Definition cat_has_index (c : catalog) (i : iname) (t : tname) : bool :=
  existsb (fun e => (fst e =? i) && (snd e =? t)) (c_indexes c).

Definition sql_create_index (d : db) (i : iname) (t : tname) (c : nat) : db * result :=
  match get_table (d_tabs d) t with
  | None => (d, RErr)                                               (* TableNotFound *)
  | Some tb =>
      if (length (t_cols tb) <=? c)%nat then (d, RErr)               (* ColumnNotFound *)
      else if has_uix (d_uix d) i then (d, RErr)                     (* database.index_exists: storage *)
      else if cat_has_index (d_cat d) i t then (d, RErr)             (* catalog.add_index: "t.i" exists *)
      else (mkDb (mkCat (c_tables (d_cat d)) (c_indexes (d_cat d) ++ [(i, t)]))
                 (d_tabs d)
                 (d_uix d ++ [mkIx i t c (idx_build c 0 (t_rows tb) [])])
                 (d_tx d), ROk 0)
  end.

(** * DROP INDEX i  (index_ddl/drop_index.rs) *)
Fixpoint cat_find_index (l : list (iname * tname)) (i : iname) : option tname :=
  match l with
  | [] => None
  | (i', t) :: l' => if i' =? i then Some t else cat_find_index l' i
  end.
Fixpoint cat_remove_index (l : list (iname * tname)) (i : iname) (t : tname) : list (iname * tname) :=
  match l with
  | [] => []
  | (i', t') :: l' => if (i' =? i) && (t' =? t) then l' else (i', t') :: cat_remove_index l' i t
  end.
Fixpoint uix_remove (U : list uindex) (i : iname) : list uindex :=
  match U with
  | [] => []
  | ix :: U' => if ix_name ix =? i then U' else ix :: uix_remove U' i
  end.

Definition sql_drop_index (d : db) (i : iname) : db * result :=
  match cat_find_index (c_indexes (d_cat d)) i with
  | Some t =>
      (mkDb (mkCat (c_tables (d_cat d)) (cat_remove_index (c_indexes (d_cat d)) i t))
            (d_tabs d) (uix_remove (d_uix d) i) (d_tx d), ROk 0)
  | None =>
      if has_uix (d_uix d) i
      then (mkDb (d_cat d) (d_tabs d) (uix_remove (d_uix d) i) (d_tx d), ROk 0)   (* storage-only fallback *)
      else (d, RErr)
  end.

(** * What a client can observe (C13) *)

Fixpoint find_uix (U : list uindex) (t : tname) (c : nat) : option uindex :=
  match U with
  | [] => None
  | ix :: U' => if (ix_table ix =? t) && (ix_col ix =? c)%nat then Some ix else find_uix U' t c
  end.

(** fetch phase of [execute_index_scan]: row indices are looked up with [all_rows.get(idx)], out-of-range ones are skipped *)
Fixpoint fetch_rows (rows : list row) (ids : list nat) : list row :=
  match ids with
  | [] => []
  | i :: ids' => match nth_error rows i with
                 | Some r => r :: fetch_rows rows ids'
                 | None => fetch_rows rows ids'
                 end
  end.

(** [SELECT * FROM t WHERE col = k] ([ordered = false]: iterator path) and
    [SELECT * FROM t WHERE col = k ORDER BY <unindexed col>] ([ordered = true]: materialised path).
    [should_use_index_scan] picks a storage index whose first column is filtered; without one the
    table is scanned.  With an index, the row indices stored under the key are fetched (out-of-range
    ones skipped) and the WHERE clause is re-checked on the fetched rows in both forms
    ([execute_index_scan]: [need_where_filter = where_clause.is_some()]; the iterator path filters
    again anyway).  The answer is a bag (the row order is not part of the observation). *)
Definition q_point (d : db) (t : tname) (c : nat) (k : Z) (ordered : bool) : option (list row) :=
  match get_table (d_tabs d) t with
  | None => None
  | Some tb =>
      match find_uix (d_uix d) t c with
      | None => Some (filter (matches (Some (c, k))) (t_rows tb))
      | Some ix =>
          let fetched := fetch_rows (t_rows tb) (idx_lookup (Some k) (ix_data ix)) in
          Some (filter (matches (Some (c, k))) fetched)
      end
  end.

(** [Database::list_indexes] (storage side) *)
Definition storage_index_listing (d : db) : list (iname * tname * nat) := ix_defs (d_uix d).

(** observational equality of two databases: catalog listing, table contents, storage index listing
    and the answer of every point query (through an index where the engine would use one) *)
Definition obs_eq (d1 d2 : db) : Prop :=
  d_cat d1 = d_cat d2 /\ d_tabs d1 = d_tabs d2 /\
  storage_index_listing d1 = storage_index_listing d2 /\
  forall t c k o, q_point d1 t c k o = q_point d2 t c k o.

(** * Bags of rows modulo [==] (C14 compares table contents as bags) *)
Definition count_row (r : row) (l : list row) : nat := length (filter (row_eqb r) l).
Definition bag_eq (l1 l2 : list row) : Prop := forall r, count_row r l1 = count_row r l2.

(** same table names and column lists in the same order, rows equal as bags *)
Fixpoint tabs_beq (T1 T2 : tables) : Prop :=
  match T1, T2 with
  | [], [] => True
  | (n1, tb1) :: T1', (n2, tb2) :: T2' =>
      n1 = n2 /\ t_cols tb1 = t_cols tb2 /\ bag_eq (t_rows tb1) (t_rows tb2) /\ tabs_beq T1' T2'
  | _, _ => False
  end.
