(** Model of vibesql's privilege subsystem (C26).

    Sources (read 2026-09, tree as of the last [fix:] commit):
      crates/vibesql-catalog/src/privilege.rs            [PrivilegeGrant]
      crates/vibesql-catalog/src/store/privileges.rs     [add_grant], [has_privilege], [remove_grants],
                                                         [has_dependent_grants], [create_role], [drop_role], [role_exists]
      crates/vibesql-executor/src/grant.rs               [GrantExecutor::execute_grant]
      crates/vibesql-executor/src/revoke.rs              [RevokeExecutor::execute_revoke], [revoke_cascade]
      crates/vibesql-executor/src/role_ddl.rs            [RoleExecutor]
      crates/vibesql-executor/src/privilege_checker.rs   [PrivilegeChecker::check_privilege] and its seven entry points
      crates/vibesql-storage/src/database/{core,lifecycle}.rs  [set_role], [get_current_role], [enable_security], ...
      crates/vibesql-ast/src/{grant,revoke}.rs           [PrivilegeType], [ObjectType], [CascadeOption]

    Names are Coq [string]s compared with [String.eqb] (Rust [String ==]: byte equality, case sensitive; the
    parser has already upper-cased unquoted identifiers when the executors see them).  [Vec<PrivilegeGrant>] is
    a list in insertion order ([push] = append at the end, [retain] = [filter]).  [HashSet<String>] of roles is a
    list observed through membership only.  The catalog's table and schema maps are represented by the lists of
    names for which [table_exists] / [schema_exists] answer true (the harness uses normalised, unqualified
    names, for which [Catalog::get_table] is an exact lookup in the current schema).
    [revoke_cascade] recurses over the delegation graph and marks grantees in a visited set (fix
    "revoke-cascade-visited-set"; before it the walk was unbounded on cycles under GRANT OPTION FOR and died of a
    stack overflow).  Here it takes explicit fuel; [None] / [RCrash] would be the overflow and is proved
    unreachable (PrivLaws.revoke_never_crashes).  Model file: definitions only. *)
From Coq Require Import List Bool String Arith.
Import ListNotations.
Open Scope string_scope.

(** ** [vibesql_ast::PrivilegeType] (derive(PartialEq)) *)
Inductive privilege : Type :=
| PSelect (cols : option (list string))
| PInsert (cols : option (list string))
| PUpdate (cols : option (list string))
| PDelete
| PReferences (cols : option (list string))
| PUsage
| PCreate
| PExecute
| PTrigger
| PUnder
| PAllPrivileges.

Fixpoint strs_eqb (a b : list string) : bool :=
  match a, b with
  | [], [] => true
  | x :: a', y :: b' => String.eqb x y && strs_eqb a' b'
  | _, _ => false
  end.

Definition cols_eqb (a b : option (list string)) : bool :=
  match a, b with
  | None, None => true
  | Some x, Some y => strs_eqb x y
  | _, _ => false
  end.

Definition priv_eqb (a b : privilege) : bool :=
  match a, b with
  | PSelect x, PSelect y => cols_eqb x y
  | PInsert x, PInsert y => cols_eqb x y
  | PUpdate x, PUpdate y => cols_eqb x y
  | PDelete, PDelete => true
  | PReferences x, PReferences y => cols_eqb x y
  | PUsage, PUsage => true
  | PCreate, PCreate => true
  | PExecute, PExecute => true
  | PTrigger, PTrigger => true
  | PUnder, PUnder => true
  | PAllPrivileges, PAllPrivileges => true
  | _, _ => false
  end.

(** ** [vibesql_ast::ObjectType] *)
Inductive objtype : Type :=
| OTable | OSchema
| ODomain | OCollation | OCharacterSet | OTranslation | OType | OSequence
| OFunction | OProcedure | ORoutine
| OMethod | OConstructorMethod | OStaticMethod | OInstanceMethod
| OSpecificFunction | OSpecificProcedure | OSpecificRoutine
| OSpecificMethod | OSpecificConstructorMethod | OSpecificStaticMethod | OSpecificInstanceMethod.

(** the [match] that expands [ALL PRIVILEGES] (identical in grant.rs and revoke.rs) *)
Definition expand_all (ot : objtype) : list privilege :=
  match ot with
  | OTable => [PSelect None; PInsert None; PUpdate None; PDelete; PReferences None]
  | OSchema => [PUsage; PCreate]
  | ODomain | OCollation | OCharacterSet | OTranslation | OType | OSequence => [PUsage]
  | _ => [PExecute]
  end.

Definition is_all (p : privilege) : bool := match p with PAllPrivileges => true | _ => false end.

(** [if stmt.privileges.contains(&AllPrivileges) { expansion } else { stmt.privileges.clone() }] *)
Definition expand (privs : list privilege) (ot : objtype) : list privilege :=
  if existsb is_all privs then expand_all ot else privs.

(** ** [PrivilegeGrant] *)
Record grant : Type := mkGrant {
  g_object : string;
  g_otype : objtype;
  g_priv : privilege;
  g_grantee : string;
  g_grantor : string;
  g_wgo : bool }.

(** ** the part of [Database] + [Catalog] the privilege code reads and writes *)
Record state : Type := mkState {
  st_grants : list grant;
  st_roles : list string;
  st_tables : list string;
  st_schemas : list string;
  st_security : bool;
  st_role : option string }.

Definition mem (x : string) (l : list string) : bool := existsb (String.eqb x) l.

Definition set_grants (s : state) (g : list grant) : state :=
  mkState g (st_roles s) (st_tables s) (st_schemas s) (st_security s) (st_role s).
Definition set_roles (s : state) (r : list string) : state :=
  mkState (st_grants s) r (st_tables s) (st_schemas s) (st_security s) (st_role s).
Definition set_tables (s : state) (t : list string) : state :=
  mkState (st_grants s) (st_roles s) t (st_schemas s) (st_security s) (st_role s).
Definition set_security (s : state) (b : bool) : state :=
  mkState (st_grants s) (st_roles s) (st_tables s) (st_schemas s) b (st_role s).
Definition set_role (s : state) (r : option string) : state :=
  mkState (st_grants s) (st_roles s) (st_tables s) (st_schemas s) (st_security s) r.

(** [Database::new()]: no grants, no roles, schema "public", security disabled, no session role *)
Definition init_state (tables schemas : list string) : state :=
  mkState [] [] tables schemas false None.

(** [Database::get_current_role]: "PUBLIC" when no role is set *)
Definition current_role (s : state) : string :=
  match st_role s with Some r => r | None => "PUBLIC" end.

Definition role_exists (s : state) (r : string) : bool := mem r (st_roles s).
Definition table_exists (s : state) (t : string) : bool := mem t (st_tables s).
Definition schema_exists (s : state) (t : string) : bool := mem t (st_schemas s).

(** ** catalog operations *)

(** the triple every catalog operation matches on *)
Definition matches (obj grantee : string) (p : privilege) (g : grant) : bool :=
  String.eqb (g_object g) obj && String.eqb (g_grantee g) grantee && priv_eqb (g_priv g) p.

(** [Catalog::has_privilege]: [any(|g| g.grantee == grantee && g.object == object && g.privilege == *priv_type)] *)
Definition has_privilege_in (G : list grant) (grantee obj : string) (p : privilege) : bool :=
  existsb (matches obj grantee p) G.
Definition has_privilege (s : state) (grantee obj : string) (p : privilege) : bool :=
  has_privilege_in (st_grants s) grantee obj p.

(** [Catalog::add_grant]: [push] *)
Definition add_grant (G : list grant) (g : grant) : list grant := G ++ [g].

Definition clear_wgo (g : grant) : grant :=
  mkGrant (g_object g) (g_otype g) (g_priv g) (g_grantee g) (g_grantor g) false.

(** [Catalog::remove_grants] (the returned count only feeds the message text) *)
Definition remove_grants (obj grantee : string) (p : privilege) (grant_option_only : bool) (G : list grant)
  : list grant :=
  if grant_option_only
  then map (fun g => if matches obj grantee p g then clear_wgo g else g) G
  else filter (fun g => negb (matches obj grantee p g)) G.

(** a grant on [obj] of [p] made BY [grantor] (an edge of the delegation graph) *)
Definition granted_by (obj grantor : string) (p : privilege) (g : grant) : bool :=
  String.eqb (g_object g) obj && String.eqb (g_grantor g) grantor && priv_eqb (g_priv g) p.

(** [Catalog::has_dependent_grants] *)
Definition has_dependent_grants (G : list grant) (obj grantee : string) (p : privilege) : bool :=
  existsb (granted_by obj grantee p) G.

(** ** results *)
Inductive error : Type :=
| ETableNotFound | ESchemaNotFound | ERoleNotFound | ERoleExists | EDependentPrivileges | EPermissionDenied.

Inductive result : Type :=
| ROk
| RErr (e : error)
| RCrash.   (* recursion budget of [revoke_cascade] exhausted (stack overflow); unreachable since the visited-set fix *)

(** ** [RoleExecutor] / [Catalog::create_role] / [drop_role] *)
Definition exec_create_role (s : state) (r : string) : state * result :=
  if role_exists s r then (s, RErr ERoleExists) else (set_roles s (r :: st_roles s), ROk).

Definition exec_drop_role (s : state) (r : string) : state * result :=
  if role_exists s r
  then (set_roles s (filter (fun x => negb (String.eqb x r)) (st_roles s)), ROk)
  else (s, RErr ERoleNotFound).

(** [role == "ADMIN" || role == "DBA"] (privilege_checker.rs and grant.rs) *)
Definition is_admin (r : string) : bool := String.eqb r "ADMIN" || String.eqb r "DBA".

(** ** [GrantExecutor::execute_grant] *)
Definition is_schema_privilege (p : privilege) : bool :=
  match p with PUsage | PExecute => true | _ => false end.

(** object validation; returns the "actual" object type.  (For FUNCTION/PROCEDURE/ROUTINE objects the code also
    creates a catalog stub; that part of the catalog is not in [state].) *)
Definition grant_object_check (s : state) (privs : list privilege) (ot : objtype) (obj : string)
  : objtype + error :=
  match ot with
  | OTable =>
      if existsb is_schema_privilege privs && schema_exists s obj then inl OSchema
      else if table_exists s obj then inl OTable else inr ETableNotFound
  | OSchema => if schema_exists s obj then inl OSchema else inr ESchemaNotFound
  | other => inl other
  end.

Definition all_roles_exist (s : state) (grantees : list string) : bool :=
  forallb (role_exists s) grantees.

(** the grants pushed by the two nested loops, in push order *)
Definition new_grants (obj : string) (ot : objtype) (expanded : list privilege) (grantees : list string)
           (grantor : string) (wgo : bool) : list grant :=
  flat_map (fun ge => map (fun p => mkGrant obj ot p ge grantor wgo) expanded) grantees.

(** the session role holds [p] on [obj] WITH GRANT OPTION:
    [get_all_grants().iter().any(|g| g.grantee == grantor && g.object == object_name && g.privilege == *privilege && g.with_grant_option)] *)
Definition may_grant (s : state) (obj : string) (p : privilege) : bool :=
  existsb (fun g => matches obj (current_role s) p g && g_wgo g) (st_grants s).

(** the authority check (fix "grant-requires-authority"): nothing is checked while security is disabled, ADMIN / DBA
    may grant anything, any other role needs every (expanded) privilege on the object with grant option *)
Definition grant_authorised (s : state) (obj : string) (expanded : list privilege) : bool :=
  negb (st_security s) || is_admin (current_role s) || forallb (may_grant s obj) expanded.

Definition exec_grant (s : state) (privs : list privilege) (ot : objtype) (obj : string)
           (grantees : list string) (wgo : bool) : state * result :=
  match grant_object_check s privs ot obj with
  | inr e => (s, RErr e)
  | inl actual =>
      if all_roles_exist s grantees
      then if grant_authorised s obj (expand privs actual)
           then (set_grants s (st_grants s ++ new_grants obj actual (expand privs actual) grantees (current_role s) wgo), ROk)
           else (s, RErr EPermissionDenied)
      else (s, RErr ERoleNotFound)
  end.

(** GRANT as it was before that fix: no look at the session at all (kept for the record, [PrivLaws.grant_before_*]) *)
Definition exec_grant_before (s : state) (privs : list privilege) (ot : objtype) (obj : string)
           (grantees : list string) (wgo : bool) : state * result :=
  match grant_object_check s privs ot obj with
  | inr e => (s, RErr e)
  | inl actual =>
      if all_roles_exist s grantees
      then (set_grants s (st_grants s ++ new_grants obj actual (expand privs actual) grantees (current_role s) wgo), ROk)
      else (s, RErr ERoleNotFound)
  end.

(** ** [RevokeExecutor::execute_revoke] *)
Inductive cascade_opt : Type := CNone | CCascade | CRestrict.

Definition revoke_object_check (s : state) (ot : objtype) (obj : string) : option error :=
  match ot with
  | OTable => if table_exists s obj then None else Some ETableNotFound
  | OSchema => if schema_exists s obj then None else Some ESchemaNotFound
  | _ => None
  end.

(** option-threading left fold *)
Fixpoint fold_opt {A B : Type} (f : B -> A -> option B) (l : list A) (b : B) : option B :=
  match l with
  | [] => Some b
  | x :: r => match f b x with None => None | Some b' => fold_opt f r b' end
  end.

(** the walk threads the grant table and the [visited] set ([HashSet<String>], observed by membership only) *)
Definition cstate : Type := (list grant * list string)%type.

(** the body of the [for dependent_grantee in dependent_grants] loop:
    [if !visited.insert(d) { continue; }  remove_grants(.., d, ..);  revoke_cascade(.., d, .., visited)?] *)
Definition visit_then (casc : list grant -> list string -> string -> option cstate)
           (obj : string) (p : privilege) (gof : bool) (st : cstate) (d : string) : option cstate :=
  if mem d (snd st) then Some st
  else casc (remove_grants obj d p gof (fst st)) (d :: snd st) d.

(** [RevokeExecutor::revoke_cascade]; the list of dependent grantees is collected BEFORE the loop (it is not
    refreshed while the loop removes grants).  The recursion is bounded by the visited set; the fuel only
    serves Coq's termination check ([PrivLaws.cascade_terminates]: [cascade_fuel] always suffices). *)
Fixpoint revoke_cascade (fuel : nat) (obj : string) (p : privilege) (gof : bool)
         (G : list grant) (visited : list string) (grantor : string) : option cstate :=
  match fuel with
  | O => None
  | S f =>
      let deps := map g_grantee (filter (granted_by obj grantor p) G) in
      fold_opt (visit_then (revoke_cascade f obj p gof) obj p gof) deps (G, visited)
  end.

(** (grantee, privilege) pairs in loop order: [for grantee { for privilege {..} }] *)
Definition pairs (grantees : list string) (expanded : list privilege) : list (string * privilege) :=
  flat_map (fun ge => map (fun p => (ge, p)) expanded) grantees.

(** one iteration of the statement's loops: [remove_grants]; under CASCADE a fresh visited set holding the
    grantee, then [revoke_cascade] *)
Definition revoke_one (fuel : nat) (obj : string) (gof : bool) (casc : cascade_opt)
           (G : list grant) (gp : string * privilege) : option (list grant) :=
  let '(ge, p) := gp in
  let G1 := remove_grants obj ge p gof G in
  match casc with
  | CCascade => match revoke_cascade fuel obj p gof G1 [ge] ge with
                | Some st => Some (fst st)
                | None => None
                end
  | _ => Some G1
  end.

Definition restrict_blocked (G : list grant) (obj : string) (grantees : list string) (expanded : list privilege) : bool :=
  existsb (fun gp => has_dependent_grants G obj (fst gp) (snd gp)) (pairs grantees expanded).

(** recursion budget given to [revoke_cascade]: always enough (PrivLaws.revoke_never_crashes) *)
Definition cascade_fuel (G : list grant) : nat := S (List.length G).

Definition exec_revoke (s : state) (gof : bool) (privs : list privilege) (ot : objtype) (obj : string)
           (grantees : list string) (casc : cascade_opt) : state * result :=
  match revoke_object_check s ot obj with
  | Some e => (s, RErr e)
  | None =>
      if negb (all_roles_exist s grantees) then (s, RErr ERoleNotFound) else
      let expanded := expand privs ot in
      if (match casc with CRestrict => true | _ => false end) && restrict_blocked (st_grants s) obj grantees expanded
      then (s, RErr EDependentPrivileges) else
      match fold_opt (revoke_one (cascade_fuel (st_grants s)) obj gof casc) (pairs grantees expanded) (st_grants s) with
      | Some G' => (set_grants s G', ROk)
      | None => (s, RCrash)
      end
  end.

(** ** [PrivilegeChecker] *)
Inductive check_kind : Type := KSelect | KInsert | KUpdate | KDelete | KCreate | KDrop | KAlter.

(** the privilege each entry point passes to [check_privilege] *)
Definition kind_priv (k : check_kind) : privilege :=
  match k with
  | KSelect => PSelect None
  | KInsert => PInsert None
  | KUpdate => PUpdate None
  | KDelete => PDelete
  | KCreate => PCreate
  | KDrop => PDelete
  | KAlter => PCreate
  end.


(** [PrivilegeChecker::check_privilege] *)
Definition check_privilege (s : state) (obj : string) (p : privilege) : bool :=
  if negb (st_security s) then true
  else if is_admin (current_role s) then true
  else has_privilege s (current_role s) obj p.

(** ** the state machine *)
Inductive op : Type :=
| OCreateRole (r : string)
| ODropRole (r : string)
| OGrant (privs : list privilege) (ot : objtype) (obj : string) (grantees : list string) (wgo : bool)
| ORevoke (gof : bool) (privs : list privilege) (ot : objtype) (obj : string) (grantees : list string) (casc : cascade_opt)
| OSetRole (r : option string)
| OSetSecurity (b : bool)
| OCheck (k : check_kind) (obj : string)
| OAddTable (t : string)      (* environment: CREATE TABLE by an administrator *)
| ODelTable (t : string).     (* environment: DROP TABLE by an administrator (grants are not touched) *)

Definition step (s : state) (o : op) : state * result :=
  match o with
  | OCreateRole r => exec_create_role s r
  | ODropRole r => exec_drop_role s r
  | OGrant privs ot obj grantees wgo => exec_grant s privs ot obj grantees wgo
  | ORevoke gof privs ot obj grantees casc => exec_revoke s gof privs ot obj grantees casc
  | OSetRole r => (set_role s r, ROk)
  | OSetSecurity b => (set_security s b, ROk)
  | OCheck k obj => (s, if check_privilege s obj (kind_priv k) then ROk else RErr EPermissionDenied)
  | OAddTable t => (if table_exists s t then s else set_tables s (t :: st_tables s), ROk)
  | ODelTable t => (set_tables s (filter (fun x => negb (String.eqb x t)) (st_tables s)), ROk)
  end.

(** state after a history *)
Fixpoint exec (s : state) (h : list op) : state :=
  match h with
  | [] => s
  | o :: r => exec (fst (step s o)) r
  end.

(** results of a history, in order *)
Fixpoint results (s : state) (h : list op) : list result :=
  match h with
  | [] => []
  | o :: r => snd (step s o) :: results (fst (step s o)) r
  end.

(** what a connected client can issue: statements, but neither [Database::set_role] nor the security switch
    (both are host-API calls, not SQL) *)
Definition session_op (o : op) : bool :=
  match o with
  | OSetRole _ | OSetSecurity _ => false
  | _ => true
  end.
