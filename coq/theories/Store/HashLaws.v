(** C15: from a state satisfying the invariant, EVERY statement -- including those of the known
    classes -- leaves the constraint hash maps exact ([hash_mirror_step_always]).  The known
    defects break constraints and user indexes; the hash maps only go wrong one step later, on a
    table that already holds duplicate keys.

    The argument for UPDATE does not use key uniqueness of the result: it characterises the
    rebuild as "last position carrying the key" ([h_last]) and uses that the row loop visits the
    selected positions in ascending order. *)
From Coq Require Import List ZArith Bool Arith Lia Permutation Sorted.
From VibeSQL Require Import Store.Table Store.UserIndex Store.Constraints Store.Dml
     Store.TableLaws Store.UserIndexLaws Store.Invariant Store.DmlLaws Store.InsertLaws
     Store.UpdateLaws Store.StepLaws.
Import ListNotations.

(* ------------------------------------------------------------------------------------ *)
(** * The rebuild maps a key to the LAST position carrying it *)

Definition h_last (kf : row -> option key) (rows : list row) (m : amap nat) : Prop :=
  forall k i, am_find k m = Some i <-> (keyed_at kf rows i k /\ forall j, keyed_at kf rows j k -> j <= i).

Lemma h_rebuild_last kf rows : h_last kf rows (h_rebuild kf rows).
Proof.
  induction rows as [|r rows IH] using rev_ind.
  - intros k i. cbn. split; [discriminate | intros [[r [E _]] _]; destruct i; discriminate].
  - intros k i. rewrite h_rebuild_app_last. unfold h_insert.
    assert (Hc : forall j, keyed_at kf (rows ++ [r]) j k <-> keyed_at kf rows j k \/ (j = length rows /\ kf r = Some k))
      by (intros j; apply keyed_at_app_last).
    destruct (kf r) as [k'|] eqn:E.
    + rewrite am_find_insert. destruct (key_eqb k k') eqn:Ek.
      * apply key_eqb_eq in Ek; subst k'. split.
        -- intros H; inversion H; subst i. split; [apply Hc; right; auto|].
           intros j Hj. apply keyed_at_lt in Hj. rewrite app_length in Hj; cbn in Hj. lia.
        -- intros [Hi Hl]. f_equal. specialize (Hl (length rows)). apply keyed_at_lt in Hi.
           rewrite app_length in Hi; cbn in Hi. assert (length rows <= i); [apply Hl; apply Hc; right; auto | lia].
      * rewrite (IH k i). split.
        -- intros [Hi Hl]. split; [apply Hc; left; exact Hi|]. intros j Hj. apply Hc in Hj.
           destruct Hj as [Hj|[_ Hk]]; [apply Hl; exact Hj|]. inversion Hk; subst. rewrite key_eqb_refl in Ek; discriminate.
        -- intros [Hi Hl]. apply Hc in Hi. destruct Hi as [Hi|[_ Hk]].
           ++ split; [exact Hi|]. intros j Hj. apply Hl. apply Hc; left; exact Hj.
           ++ inversion Hk; subst. rewrite key_eqb_refl in Ek; discriminate.
    + rewrite (IH k i). split.
      * intros [Hi Hl]. split; [apply Hc; left; exact Hi|]. intros j Hj. apply Hc in Hj.
        destruct Hj as [Hj|[_ Hk]]; [apply Hl; exact Hj | discriminate].
      * intros [Hi Hl]. apply Hc in Hi. destruct Hi as [Hi|[_ Hk]]; [|discriminate].
        split; [exact Hi|]. intros j Hj. apply Hl. apply Hc; left; exact Hj.
Qed.

Lemma h_last_equiv kf rows m1 m2 : h_last kf rows m1 -> h_last kf rows m2 -> am_equiv m1 m2.
Proof.
  intros H1 H2 k. destruct (am_find k m1) as [i|] eqn:E1.
  - symmetry. apply H2. apply H1. exact E1.
  - destruct (am_find k m2) as [j|] eqn:E2; [|reflexivity].
    apply H2 in E2. apply H1 in E2. congruence.
Qed.

Lemma h_last_of_equiv kf rows m1 m2 : am_equiv m1 m2 -> h_last kf rows m1 -> h_last kf rows m2.
Proof. intros He H k i. rewrite <- He. apply H. Qed.

(** mirror <-> "last position", with no uniqueness assumption *)
Lemma h_mirror_last kf rows m : am_equiv m (h_rebuild kf rows) <-> h_last kf rows m.
Proof.
  split.
  - intros He. eapply h_last_of_equiv; [apply am_equiv_sym; exact He | apply h_rebuild_last].
  - intros Hs. eapply h_last_equiv; [exact Hs | apply h_rebuild_last].
Qed.

(** one row update: the old key is carried by row i only, no later row carries the new key *)
Lemma h_last_update kf rows i old new m m' :
  h_last kf rows m -> nth_error rows i = Some old ->
  (forall k j, kf old = Some k -> keyed_at kf rows j k -> j = i) ->
  (forall k j, kf new = Some k -> keyed_at kf rows j k -> j <= i) ->
  (forall k, am_find k m' =
             if match kf new with Some kn => key_eqb k kn | None => false end then Some i
             else if match kf old with Some ko => key_eqb k ko | None => false end then None
                  else am_find k m) ->
  h_last kf (set_nth i new rows) m'.
Proof.
  intros Hs Hold Honly Hlast Hm' k p.
  assert (Hlt : i < length rows) by (apply nth_error_Some; congruence).
  assert (Hc : forall j, keyed_at kf (set_nth i new rows) j k <-> (j = i /\ kf new = Some k) \/ (j <> i /\ keyed_at kf rows j k))
    by (intros j; apply keyed_at_set_nth; exact Hlt).
  rewrite Hm'.
  destruct (kf new) as [kn|] eqn:En.
  - destruct (key_eqb k kn) eqn:Ekn.
    + apply key_eqb_eq in Ekn; subst kn. split.
      * intros H; inversion H; subst p. split; [apply Hc; left; auto|].
        intros j Hj. apply Hc in Hj. destruct Hj as [[-> _]|[_ Hj]]; [lia | eapply Hlast; eauto].
      * intros [Hp Hl]. f_equal. assert (i <= p) by (apply Hl; apply Hc; left; auto).
        apply Hc in Hp. destruct Hp as [[-> _]|[_ Hp]]; [reflexivity|].
        assert (p <= i) by (eapply Hlast; eauto). lia.
    + assert (Hsame : forall j, keyed_at kf (set_nth i new rows) j k -> j <> i /\ keyed_at kf rows j k).
      { intros j Hj. apply Hc in Hj. destruct Hj as [[_ Hk]|Hj]; [|exact Hj].
        inversion Hk; subst. rewrite key_eqb_refl in Ekn; discriminate. }
      destruct (kf old) as [ko|] eqn:Eo.
      * destruct (key_eqb k ko) eqn:Eko.
        -- apply key_eqb_eq in Eko; subst ko. split; [discriminate|].
           intros [Hp _]. apply Hsame in Hp. destruct Hp as [Hne Hp]. exfalso. apply Hne. eapply Honly; eauto.
        -- assert (Hni : ~ keyed_at kf rows i k).
           { intros [r [Hr Hk]]. rewrite Hold in Hr; inversion Hr; subst r. rewrite Eo in Hk; inversion Hk; subst.
             rewrite key_eqb_refl in Eko; discriminate. }
           rewrite (Hs k p). split.
           ++ intros [Hp Hl]. split.
              ** apply Hc. right. split; [intros ->; contradiction | exact Hp].
              ** intros j Hj. apply Hl. apply (Hsame j Hj).
           ++ intros [Hp Hl]. destruct (Hsame p Hp) as [_ Hp']. split; [exact Hp'|].
              intros j Hj. apply Hl. apply Hc. right. split; [intros ->; contradiction | exact Hj].
      * assert (Hni : ~ keyed_at kf rows i k).
        { intros [r [Hr Hk]]. rewrite Hold in Hr; inversion Hr; subst r. congruence. }
        rewrite (Hs k p). split.
        -- intros [Hp Hl]. split.
           ++ apply Hc. right. split; [intros ->; contradiction | exact Hp].
           ++ intros j Hj. apply Hl. apply (Hsame j Hj).
        -- intros [Hp Hl]. destruct (Hsame p Hp) as [_ Hp']. split; [exact Hp'|].
           intros j Hj. apply Hl. apply Hc. right. split; [intros ->; contradiction | exact Hj].
  - assert (Hsame : forall j, keyed_at kf (set_nth i new rows) j k -> j <> i /\ keyed_at kf rows j k).
    { intros j Hj. apply Hc in Hj. destruct Hj as [[_ Hk]|Hj]; [discriminate | exact Hj]. }
    destruct (kf old) as [ko|] eqn:Eo.
    + destruct (key_eqb k ko) eqn:Eko.
      * apply key_eqb_eq in Eko; subst ko. split; [discriminate|].
        intros [Hp _]. apply Hsame in Hp. destruct Hp as [Hne Hp]. exfalso. apply Hne. eapply Honly; eauto.
      * assert (Hni : ~ keyed_at kf rows i k).
        { intros [r [Hr Hk]]. rewrite Hold in Hr; inversion Hr; subst r. rewrite Eo in Hk; inversion Hk; subst.
          rewrite key_eqb_refl in Eko; discriminate. }
        rewrite (Hs k p). split.
        -- intros [Hp Hl]. split.
           ++ apply Hc. right. split; [intros ->; contradiction | exact Hp].
           ++ intros j Hj. apply Hl. apply (Hsame j Hj).
        -- intros [Hp Hl]. destruct (Hsame p Hp) as [_ Hp']. split; [exact Hp'|].
           intros j Hj. apply Hl. apply Hc. right. split; [intros ->; contradiction | exact Hj].
    + assert (Hni : ~ keyed_at kf rows i k).
      { intros [r [Hr Hk]]. rewrite Hold in Hr; inversion Hr; subst r. congruence. }
      rewrite (Hs k p). split.
      * intros [Hp Hl]. split.
        -- apply Hc. right. split; [intros ->; contradiction | exact Hp].
        -- intros j Hj. apply Hl. apply (Hsame j Hj).
      * intros [Hp Hl]. destruct (Hsame p Hp) as [_ Hp']. split; [exact Hp'|].
        intros j Hj. apply Hl. apply Hc. right. split; [intros ->; contradiction | exact Hj].
Qed.

(* ------------------------------------------------------------------------------------ *)
(** * The UPDATE row loop, hash maps only *)

(** positions strictly ascending, each with the row stored there as its "old" row *)
Definition asc_plan (rows : list row) (ups : list (nat * row * row)) : Prop :=
  StronglySorted lt (map (fun u => u_idx u) ups)
  /\ forall u, In u ups -> nth_error rows (u_idx u) = Some (u_old u).

(** for every remaining update: its old key is carried by its own row only, and no later row
    carries its new key *)
Definition later_ok (kf : row -> option key) (rows : list row) (ups : list (nat * row * row)) : Prop :=
  (forall u, In u ups -> forall k j, kf (u_old u) = Some k -> keyed_at kf rows j k -> j = u_idx u)
  /\ (forall u, In u ups -> forall k j, kf (u_new u) = Some k -> keyed_at kf rows j k -> j <= u_idx u).

Lemma asc_plan_step rows i old new rest :
  asc_plan rows ((i, old, new) :: rest) ->
  nth_error rows i = Some old /\ asc_plan (set_nth i new rows) rest /\ (forall u, In u rest -> i < u_idx u).
Proof.
  intros [Hs Hc]. cbn in Hs. inversion Hs as [|a l Hs' Hf]; subst.
  assert (Hgt : forall u, In u rest -> i < u_idx u).
  { intros u Hu. rewrite Forall_forall in Hf. apply Hf. apply in_map_iff. exists u; auto. }
  split; [apply (Hc (i, old, new)); left; reflexivity|]. split; [|exact Hgt].
  split; [exact Hs'|]. intros u Hu. rewrite nth_error_set_nth_neq; [apply Hc; right; exact Hu|].
  specialize (Hgt u Hu). lia.
Qed.

Lemma later_ok_step kf rows i old new rest :
  asc_plan rows ((i, old, new) :: rest) -> later_ok kf rows ((i, old, new) :: rest) ->
  later_ok kf (set_nth i new rows) rest.
Proof.
  intros Hp [Ho Hl]. destruct (asc_plan_step _ _ _ _ _ Hp) as [Hold [_ Hgt]].
  assert (Hlt : i < length rows) by (apply nth_error_Some; congruence).
  destruct Hp as [_ Hc].
  split.
  - intros u Hu k j Hk Hj. apply keyed_at_set_nth in Hj; [|exact Hlt].
    destruct Hj as [[-> Hkn]|[_ Hj]]; [|eapply Ho; eauto; right; exact Hu].
    (* the head's new key equals a later update's old key: that later row carries it already *)
    exfalso. assert (u_idx u <= i); [|specialize (Hgt u Hu); lia].
    apply (Hl (i, old, new) (or_introl eq_refl) k (u_idx u) Hkn).
    exists (u_old u). split; [apply Hc; right; exact Hu | exact Hk].
  - intros u Hu k j Hk Hj. apply keyed_at_set_nth in Hj; [|exact Hlt].
    destruct Hj as [[-> _]|[_ Hj]]; [specialize (Hgt u Hu); lia | eapply Hl; eauto; right; exact Hu].
Qed.

Lemma h_update_mirror_last kf rows i old new m m' :
  am_equiv m (h_rebuild kf rows) -> nth_error rows i = Some old ->
  (forall k j, kf old = Some k -> keyed_at kf rows j k -> j = i) ->
  (forall k j, kf new = Some k -> keyed_at kf rows j k -> j <= i) ->
  (h_last kf rows m ->
   forall k, am_find k m' =
             if match kf new with Some kn => key_eqb k kn | None => false end then Some i
             else if match kf old with Some ko => key_eqb k ko | None => false end then None
                  else am_find k m) ->
  am_equiv m' (h_rebuild kf (set_nth i new rows)).
Proof.
  intros He Hold Ho Hl Hf. apply h_mirror_last in He. apply h_mirror_last.
  eapply h_last_update; eauto.
Qed.

Lemma h_last_find_old kf rows i old m k :
  h_last kf rows m -> nth_error rows i = Some old -> kf old = Some k ->
  (forall k j, kf old = Some k -> keyed_at kf rows j k -> j = i) ->
  am_find k m = Some i.
Proof.
  intros Hs Hold Hk Ho. apply Hs. split; [exists old; auto|].
  intros j Hj. rewrite (Ho k j Hk Hj). lia.
Qed.

Lemma find_eq_same_key_last kf rows i old new m :
  h_last kf rows m -> nth_error rows i = Some old ->
  (forall k j, kf old = Some k -> keyed_at kf rows j k -> j = i) ->
  kf new = kf old ->
  forall k, am_find k m =
            if match kf new with Some kn => key_eqb k kn | None => false end then Some i
            else if match kf old with Some ko => key_eqb k ko | None => false end then None
                 else am_find k m.
Proof.
  intros Hs Hold Ho E k. rewrite E. destruct (kf old) as [ko|] eqn:Eo; [|reflexivity].
  destruct (key_eqb k ko) eqn:Ek; [|reflexivity].
  apply key_eqb_eq in Ek; subst k. apply Hs. split; [exists old; auto|].
  intros j Hj. rewrite (Ho ko j eq_refl Hj). lia.
Qed.

Lemma pk_for_update_mirror_last s rows i old new changed pk :
  opt_am_equiv pk (pk_rebuild s rows) -> nth_error rows i = Some old ->
  (forall cols, s_pk s = Some cols ->
     (forall k j, pk_kf cols old = Some k -> keyed_at (pk_kf cols) rows j k -> j = i)
     /\ (forall k j, pk_kf cols new = Some k -> keyed_at (pk_kf cols) rows j k -> j <= i)) ->
  (forall c, ~ In c changed -> nth c new None = nth c old None) ->
  opt_am_equiv (pk_for_update s old new i changed pk) (pk_rebuild s (set_nth i new rows)).
Proof.
  intros He Hold Hu Hn. unfold pk_rebuild, pk_for_update in *.
  destruct pk as [m|], (s_pk s) as [cols|]; cbn [opt_am_equiv] in *; try contradiction; try exact I.
  destruct (Hu cols eq_refl) as [Ho Hl].
  destruct (cols_touched cols changed) eqn:Et; cbn [opt_am_equiv].
  - eapply h_update_mirror_last; eauto. intros Hs k. unfold pk_kf. apply pk_upd_find.
    eapply h_last_find_old; eauto; reflexivity.
  - eapply h_update_mirror_last; eauto. intros Hs. eapply find_eq_same_key_last; eauto.
    unfold pk_kf. f_equal. eapply untouched_proj; eauto.
Qed.

Lemma uq_for_update_mirror_last uniqs : forall uq rows i old new changed,
  Forall2 am_equiv uq (map (fun cols => h_rebuild (uq_kf cols) rows) uniqs) ->
  nth_error rows i = Some old ->
  Forall (fun cols =>
     (forall k j, uq_kf cols old = Some k -> keyed_at (uq_kf cols) rows j k -> j = i)
     /\ (forall k j, uq_kf cols new = Some k -> keyed_at (uq_kf cols) rows j k -> j <= i)) uniqs ->
  (forall c, ~ In c changed -> nth c new None = nth c old None) ->
  Forall2 am_equiv (uq_for_update uniqs old new i changed uq)
                   (map (fun cols => h_rebuild (uq_kf cols) (set_nth i new rows)) uniqs).
Proof.
  induction uniqs as [|cols uniqs IH]; intros uq rows i old new changed H2 Hold Hf Hn;
    inversion H2; subst; cbn; constructor.
  - inversion Hf; subst. destruct H1 as [Ho Hl].
    destruct (cols_touched cols changed) eqn:Et.
    + eapply h_update_mirror_last; eauto. intros Hs k. apply uq_upd_find.
    + eapply h_update_mirror_last; eauto. intros Hs. eapply find_eq_same_key_last; eauto.
      unfold uq_kf. erewrite untouched_proj; eauto.
  - inversion Hf; subst. eapply IH; eauto.
Qed.

Definition news_wf (s : schema) (changed : list nat) (ups : list (nat * row * row)) : Prop :=
  forall u, In u ups ->
    length (u_new u) = s_ncols s
    /\ notnull_ok (s_notnull s) (u_new u) = true
    /\ (forall c, ~ In c changed -> nth c (u_new u) None = nth c (u_old u) None).

Lemma upd_apply_rows_hash changed : forall ups t,
  hash_mirror t -> asc_plan (t_rows t) ups ->
  (forall cols, s_pk (t_sch t) = Some cols -> later_ok (pk_kf cols) (t_rows t) ups) ->
  Forall (fun cols => later_ok (uq_kf cols) (t_rows t) ups) (s_uniqs (t_sch t)) ->
  news_wf (t_sch t) changed ups ->
  exists t', upd_apply_rows t changed ups = (t', true) /\ hash_mirror t' /\ t_sch t' = t_sch t.
Proof.
  induction ups as [|[[i old] new] ups IH]; intros t Hh Hp Hpk Huq Hnews.
  - exists t. cbn. auto.
  - destruct (asc_plan_step _ _ _ _ _ Hp) as [Hold [Hp' _]].
    destruct (Hnews (i, old, new) (or_introl eq_refl)) as [Nl [Nn Nu]]. cbn [fst snd] in *.
    cbn [upd_apply_rows]. unfold tbl_update_row_selective. rewrite Hold.
    unfold normalize. rewrite Nl, Nat.eqb_refl, Nn. cbn [negb].
    set (t1 := {| t_sch := t_sch t; t_rows := set_nth i new (t_rows t);
                  t_pkidx := pk_for_update (t_sch t) old new i changed (t_pkidx t);
                  t_uqidx := uq_for_update (s_uniqs (t_sch t)) old new i changed (t_uqidx t);
                  t_trk := t_trk t; t_uidx := t_uidx t |}).
    destruct (IH t1) as [t' [E1 [E2 E3]]].
    + destruct Hh as [Hh1 Hh2]. split; subst t1; simp_tab.
      * apply pk_for_update_mirror_last; auto. intros cols E. destruct (Hpk cols E) as [Ho Hl]. split.
        -- intros k j Hk Hj. apply (Ho (i, old, new) (or_introl eq_refl) k j Hk Hj).
        -- intros k j Hk Hj. apply (Hl (i, old, new) (or_introl eq_refl) k j Hk Hj).
      * apply uq_for_update_mirror_last; auto. rewrite Forall_forall in *. intros cols Hc.
        destruct (Huq cols Hc) as [Ho Hl]. split.
        -- intros k j Hk Hj. apply (Ho (i, old, new) (or_introl eq_refl) k j Hk Hj).
        -- intros k j Hk Hj. apply (Hl (i, old, new) (or_introl eq_refl) k j Hk Hj).
    + subst t1; simp_tab. exact Hp'.
    + subst t1; simp_tab. intros cols E. eapply later_ok_step; eauto.
    + subst t1; simp_tab. rewrite Forall_forall in *. intros cols Hc. eapply later_ok_step; eauto.
    + subst t1; simp_tab. intros u Hu. apply Hnews. right; exact Hu.
    + exists t'. subst t1; simp_tab. auto.
Qed.

(* ------------------------------------------------------------------------------------ *)
(** * Selected positions are ascending *)

Lemma scan_from_sorted w rows : forall n, StronglySorted lt (map fst (scan_from n w rows)).
Proof.
  induction rows as [|r0 rows IH]; intros n; cbn; [constructor|].
  destruct (match w with Some p => pred_true p r0 | None => true end); [|apply IH].
  cbn. constructor; [apply IH|]. apply Forall_forall. intros x Hx. apply in_map_iff in Hx.
  destruct Hx as [[i r] [E Hin]]. cbn in E; subst x. apply scan_from_In in Hin. lia.
Qed.

Lemma select_rows_sorted t w cands : select_rows t w = Some cands -> StronglySorted lt (map fst cands).
Proof.
  unfold select_rows. intros H.
  destruct (pk_lookup (t_sch t) w) as [k|]; [|inversion H; subst; apply scan_from_sorted].
  destruct (t_pkidx t) as [m|]; [|inversion H; subst; apply scan_from_sorted].
  destruct (am_find k m) as [i|].
  - destruct (nth_error (t_rows t) i); [|discriminate]. inversion H; subst. cbn. repeat constructor.
  - inversion H; subst. constructor.
Qed.

(* ------------------------------------------------------------------------------------ *)
(** * UPDATE leaves the hash maps exact, whatever the new keys are *)

Lemma do_update_hash t asg w t' res : TInv t -> do_update t asg w = (t', res) -> hash_mirror t'.
Proof.
  intros HI Hd. pose proof HI as [Hwf [[Hnn [Hpk [Huq [Hck Hui]]]] [[Hhp Hhu] Hu]]].
  unfold do_update in Hd.
  destruct (negb (forallb (fun a => fst a <? s_ncols (t_sch t)) asg)); [inversion Hd; subst; split; assumption|].
  destruct (select_rows t w) as [cands|] eqn:Es; [|inversion Hd; subst; split; assumption].
  destruct (upd_build t asg cands []) as [| |ups] eqn:Eb; try (inversion Hd; subst; split; assumption).
  destruct (upd_build_spec _ _ _ _ _ Eb) as [tail [E1 [E2 E3]]]. cbn in E1; subst tail.
  pose proof (select_rows_ok _ _ _ Es) as [_ Hco].
  assert (Hasc : asc_plan (t_rows t) ups).
  { split.
    - pose proof (select_rows_sorted _ _ _ Es) as Hs. rewrite <- E2 in Hs. rewrite map_map in Hs. exact Hs.
    - intros u Hx. apply Hco. rewrite <- E2. apply in_map_iff. exists u; auto. }
  assert (Hnews : news_wf (t_sch t) (map fst asg) ups).
  { intros u Hin. destruct (E3 u Hin) as [Ea Ev]. destruct (apply_asg_untouched _ _ _ _ Ea) as [Hl Hun].
    unfold upd_validate in Ev. repeat (apply andb_true_iff in Ev; destruct Ev as [Ev ?]).
    destruct Hasc as [_ Hpo]. specialize (Hpo u Hin). repeat split.
    - rewrite Hl. destruct Hwf as [Hw1 _]. eapply Forall_nth_error in Hw1; eauto.
    - exact Ev.
    - exact Hun. }
  assert (Gpk : forall cols, s_pk (t_sch t) = Some cols -> later_ok (pk_kf cols) (t_rows t) ups).
  { intros cols Ec. pose proof (Hpk cols Ec) as Hun. destruct Hasc as [_ Hpo]. split.
    - intros u Hin k j Hk Hj. apply (Hun j (u_idx u) k Hj). exists (u_old u). split; [apply Hpo; exact Hin | exact Hk].
    - intros u Hin k j Hk Hj. destruct (E3 u Hin) as [_ Ev]. unfold upd_validate in Ev.
      repeat (apply andb_true_iff in Ev; destruct Ev as [Ev ?]).
      unfold upd_pk_ok in H2. rewrite Ec in H2. unfold pk_rebuild in Hhp. rewrite Ec in Hhp.
      destruct (t_pkidx t) as [m|]; cbn in Hhp; [|contradiction].
      apply negb_true_iff in H2. apply andb_false_iff in H2. unfold pk_kf in Hk. inversion Hk; subst k.
      destruct H2 as [H2|H2].
      + exfalso. eapply fresh_of_not_mem; eauto. apply In_somes; eauto.
      + apply negb_false_iff in H2. apply key_eqb_eq in H2.
        assert (j = u_idx u); [|lia]. apply (Hun j (u_idx u) _ Hj).
        exists (u_old u). split; [apply Hpo; exact Hin | unfold pk_kf; congruence]. }
  assert (Guq : Forall (fun cols => later_ok (uq_kf cols) (t_rows t) ups) (s_uniqs (t_sch t))).
  { apply Forall_forall. intros cols Hin. destruct (In_nth_error _ _ Hin) as [jj Hj].
    unfold uq_rebuild in Hhu.
    assert (Hj' : nth_error (map (fun cols => h_rebuild (uq_kf cols) (t_rows t)) (s_uniqs (t_sch t))) jj
                  = Some (h_rebuild (uq_kf cols) (t_rows t)))
      by (exact (map_nth_error (fun c => h_rebuild (uq_kf c) (t_rows t)) jj _ Hj)).
    destruct (Forall2_nth_error_r _ _ _ _ _ Hhu Hj') as [m [Em He]].
    rewrite Forall_forall in Huq. pose proof (Huq cols Hin) as Hun. destruct Hasc as [_ Hpo]. split.
    - intros u Hu' k j Hk Hjk. apply (Hun j (u_idx u) k Hjk). exists (u_old u). split; [apply Hpo; exact Hu' | exact Hk].
    - intros u Hu' k j Hk Hjk. destruct (E3 u Hu') as [_ Ev]. unfold upd_validate in Ev.
      repeat (apply andb_true_iff in Ev; destruct Ev as [Ev ?]).
      destruct (upd_unique_ok_nth _ _ _ _ _ _ _ H1 Hj Em) as [Hn|[Hm|He']].
      + unfold uq_kf in Hk. rewrite Hn in Hk. discriminate.
      + exfalso. unfold uq_kf in Hk. destruct (has_null (proj cols (u_new u))); [discriminate|].
        inversion Hk; subst k. eapply fresh_of_not_mem; eauto. apply In_somes; eauto.
      + assert (j = u_idx u); [|lia]. apply (Hun j (u_idx u) k Hjk).
        exists (u_old u). split; [apply Hpo; exact Hu'|]. unfold uq_kf in *. rewrite <- He'. exact Hk. }
  destruct (upd_apply_rows_hash (map fst asg) ups t (conj Hhp Hhu) Hasc Gpk Guq Hnews) as [t1 [F1 [F2 F3]]].
  rewrite F1 in Hd. inversion Hd; subst t' res. destruct F2 as [G1 G2]. split; simp_tab; assumption.
Qed.

(* ------------------------------------------------------------------------------------ *)
(** * Every other statement *)

Lemma hash_mirror_set_uidx t us : hash_mirror t -> hash_mirror (set_uidx t us).
Proof. intros H; exact H. Qed.

Lemma tbl_insert_all_hash new : forall t t1 ok,
  tbl_insert_all t new = (t1, ok) -> hash_mirror t -> hash_mirror t1.
Proof.
  induction new as [|r new IH]; intros t t1 ok H Hh; cbn in H.
  - inversion H; subst; exact Hh.
  - destruct (tbl_insert t r) as [e|t2] eqn:E; [inversion H; subst; exact Hh|].
    destruct (tbl_insert_props _ _ _ E) as [_ [_ [_ [_ [_ Hm]]]]]. eapply IH; eauto.
Qed.

Lemma db_insert_batch_hash t new t1 ok : db_insert_batch t new = (t1, ok) -> hash_mirror t -> hash_mirror t1.
Proof.
  unfold db_insert_batch. intros H Hh.
  destruct (existsb (uidx_unique_violation (t_uidx t)) new); [inversion H; subst; exact Hh|].
  destruct (tbl_insert_all t new) as [t2 ok2] eqn:E. pose proof (tbl_insert_all_hash _ _ _ _ E Hh) as H2.
  destruct ok2; inversion H; subst; exact H2.
Qed.

Lemma do_insert_values_hash t rows t' res ins :
  hash_mirror t -> do_insert_values t rows = (t', res, ins) -> hash_mirror t'.
Proof.
  intros Hh Hd. unfold do_insert_values in Hd.
  destruct (negb (forallb (fun r => length r =? s_ncols (t_sch t)) rows)); [inversion Hd; subst; exact Hh|].
  destruct (negb (rv_validate_all t [] (map (fun _ => []) (s_uniqs (t_sch t))) rows)); [inversion Hd; subst; exact Hh|].
  destruct rows as [|r [|r' rows]].
  - inversion Hd; subst; exact Hh.
  - rewrite db_insert_row_as_batch in Hd. destruct (db_insert_batch t [r]) as [t1 ok] eqn:Eb.
    pose proof (db_insert_batch_hash _ _ _ _ Eb Hh). destruct ok; inversion Hd; subst; assumption.
  - destruct (db_insert_batch t (r :: r' :: rows)) as [t1 ok] eqn:Eb.
    pose proof (db_insert_batch_hash _ _ _ _ Eb Hh). destruct ok; inversion Hd; subst; assumption.
Qed.

Lemma bulk_insert_hash src : forall t cnt ins t' res ins',
  hash_mirror t -> bulk_insert t src cnt ins = (t', res, ins') -> hash_mirror t'.
Proof.
  induction src as [|r src IH]; intros t cnt ins t' res ins' Hh Hl; cbn [bulk_insert] in Hl.
  - inversion Hl; subst; exact Hh.
  - destruct (db_insert_row t r) as [t1 ok] eqn:Ei. rewrite db_insert_row_as_batch in Ei.
    pose proof (db_insert_batch_hash _ _ _ _ Ei Hh) as H1.
    destruct ok; [eapply IH; eauto | inversion Hl; subst; exact H1].
Qed.

Lemma do_insert_select_hash dst same src_sch src_rows sel t' res ins :
  hash_mirror dst -> do_insert_select dst same src_sch src_rows sel = (t', res, ins) -> hash_mirror t'.
Proof.
  intros Hh Hd. unfold do_insert_select in Hd.
  destruct (negb same && bulk_compatible (t_sch dst) src_sch).
  - destruct (bulk_validate dst [] (map (fun _ => []) (s_uniqs (t_sch dst))) src_rows);
      [eapply bulk_insert_hash; eauto | inversion Hd; subst; exact Hh].
  - destruct (negb (s_ncols src_sch =? s_ncols (t_sch dst))); [inversion Hd; subst; exact Hh|].
    eapply do_insert_values_hash; eauto.
Qed.

Lemma tbl_delete_at_hash t del : hash_mirror t -> hash_mirror (fst (tbl_delete_at t del)).
Proof.
  intros Hh. destruct (mirror_shape t Hh) as [Hsp Hsl]. split; cbn.
  - rewrite im_rebuild_pk_shape by assumption. apply opt_am_equiv_refl.
  - rewrite im_rebuild_uq_shape by assumption. apply Forall2_am_equiv_refl.
Qed.

Lemma undo_all_hash chs : forall ts,
  Forall hash_mirror ts -> Forall hash_mirror (fst (undo_all ts chs)).
Proof.
  induction chs as [|[ti r] chs IH]; intros ts Hf; cbn; [exact Hf|].
  destruct (nth_error ts ti) as [t|] eqn:Et; cbn; [|exact Hf].
  unfold tbl_remove_row. destruct (row_eqb_pos r (t_rows t) 0) as [pos|]; cbn; [|exact Hf].
  apply IH. apply Forall_upd_nth_const; [exact Hf|]. apply tbl_delete_at_hash. eapply Forall_nth_error; eauto.
Qed.

Lemma restore_tabs_hash snap : forall ts ok,
  Forall hash_mirror snap -> restore_tabs snap = (ts, ok) -> Forall hash_mirror ts.
Proof.
  induction snap as [|s snap IH]; intros ts ok Hs H; cbn in H.
  - inversion H; subst. constructor.
  - inversion Hs; subst. destruct (recreate_uidx (t_uidx s) (t_rows s)) as [us oku]. destruct oku.
    + destruct (restore_tabs snap) as [ts' ok2] eqn:Et. inversion H; subst.
      constructor; [assumption | eapply IH; eauto].
    + inversion H; subst. constructor; [assumption|]. apply Forall_forall. intros t' Hin.
      apply in_map_iff in Hin. destruct Hin as [t0 [<- Hin]]. rewrite Forall_forall in H3. apply (H3 t0 Hin).
Qed.

Lemma on_table_hash d ti f :
  Forall hash_mirror (d_tabs d) ->
  (forall t t' r, nth_error (d_tabs d) ti = Some t -> f t = (t', r) -> hash_mirror t') ->
  Forall hash_mirror (d_tabs (fst (on_table d ti f))).
Proof.
  intros Hf Hg. unfold on_table. destruct (nth_error (d_tabs d) ti) as [t|] eqn:Et; [|exact Hf].
  destruct (f t) as [t' r] eqn:Ef. cbn. apply Forall_upd_nth_const; [exact Hf | eapply Hg; eauto].
Qed.

(** from an invariant state, every statement leaves every hash map exact *)
Theorem hash_mirror_step_always d s : Inv d -> db_hash_mirror (fst (step d s)).
Proof.
  intros HI. pose proof (Inv_parts d HI) as [_ [Hh _]]. unfold db_hash_mirror in *.
  destruct s; cbn [step].
  - destruct (nth_error (d_tabs d) t) as [tb|] eqn:Et; [|exact Hh].
    destruct (do_insert_values tb rows) as [[t' r] ins] eqn:Ed. cbn.
    apply Forall_upd_nth_const; [exact Hh|]. eapply do_insert_values_hash; eauto. eapply Forall_nth_error; eauto.
  - destruct (nth_error (d_tabs d) dst) as [td|] eqn:Ed; [|exact Hh].
    destruct (nth_error (d_tabs d) src) as [ts|] eqn:Es; [|exact Hh].
    destruct (do_insert_select td (dst =? src) (t_sch ts) (t_rows ts) sel) as [[t' r] ins] eqn:Ei. cbn.
    apply Forall_upd_nth_const; [exact Hh|]. eapply do_insert_select_hash; eauto. eapply Forall_nth_error; eauto.
  - apply on_table_hash; [exact Hh|]. intros tb t' r Et Hd. eapply do_update_hash; eauto. eapply Inv_tab; eauto.
  - apply on_table_hash; [exact Hh|]. intros tb t' r Et Hd.
    assert (HT : TInv t') by (eapply do_delete_TInv; eauto; eapply Inv_tab; eauto). apply HT.
  - apply on_table_hash; [exact Hh|]. intros tb t' r Et Hd.
    replace t' with (fst (do_truncate tb)) by (rewrite Hd; reflexivity).
    assert (HT : TInv (fst (do_truncate tb))) by (apply do_truncate_TInv; eapply Inv_tab; eauto). apply HT.
  - destruct (nth_error (d_tabs d) t) as [tb|] eqn:Et; [|exact Hh].
    destruct (negb (cols_valid (t_sch tb) cols)); [exact Hh|].
    destruct (index_exists name (d_tabs d)); [exact Hh|].
    destruct (uniq && has_dup (somes (uq_kf cols) (t_rows tb))); [exact Hh|]. cbn.
    apply Forall_upd_nth; [exact Hh|]. intros x _ Hx. exact Hx.
  - destruct (index_exists name (d_tabs d)); [|exact Hh]. cbn.
    rewrite Forall_forall in *. intros t' Hin. apply in_map_iff in Hin. destruct Hin as [t0 [<- Hin]].
    apply (Hh t0 Hin).
  - apply on_table_hash; [exact Hh|]. intros tb t' r Et Hd. unfold do_add_pk in Hd.
    pose proof (Forall_nth_error _ _ _ _ Hh Et) as Htb.
    destruct (negb (cols_valid (t_sch tb) cols)); [inversion Hd; subst; exact Htb|].
    destruct (s_pk (t_sch tb)); inversion Hd; subst; [exact Htb | apply hash_mirror_rebuild].
  - apply on_table_hash; [exact Hh|]. intros tb t' r Et Hd. unfold do_add_unique in Hd.
    pose proof (Forall_nth_error _ _ _ _ Hh Et) as Htb.
    destruct (negb (cols_valid (t_sch tb) cols)); inversion Hd; subst; [exact Htb | apply hash_mirror_rebuild].
  - apply on_table_hash; [exact Hh|]. intros tb t' r Et Hd. unfold do_add_check in Hd. inversion Hd; subst.
    exact (Forall_nth_error _ _ _ _ Hh Et).
  - destruct (d_txn d); exact Hh.
  - destruct (d_txn d); exact Hh.
  - destruct (d_txn d) as [x|] eqn:Ex; [|exact Hh].
    destruct HI as [_ Hx]. rewrite Ex in Hx. destruct Hx as [Hs _].
    destruct (restore_tabs (x_snap x)) as [ts ok] eqn:Er. cbn.
    eapply restore_tabs_hash; [|exact Er].
    eapply Forall_impl; [|exact Hs]. intros t0 HT; apply HT.
  - destruct (d_txn d); exact Hh.
  - destruct (d_txn d) as [x|] eqn:Ex; [|exact Hh].
    destruct (save_pos name (x_saves x) 0) as [[pos idx]|]; [|exact Hh].
    pose proof (undo_all_hash (rev (skipn idx (x_changes x))) (d_tabs d) Hh) as Hu.
    destruct (undo_all (d_tabs d) (rev (skipn idx (x_changes x)))) as [ts ok]. cbn in *. exact Hu.
  - destruct (d_txn d) as [x|] eqn:Ex; [|exact Hh].
    destruct (save_pos name (x_saves x) 0) as [[pos idx]|]; exact Hh.
Qed.

(** ... and an UPDATE of the known classes really leaves them exact: the two rows with key 7 *)
Example hash_exact_after_colliding_update :
  let d := run (db_init [mk_schema 3 [true; false; false] (Some [0]) [] []])
               [SInsert 0 [[Some 1%Z; Some 10%Z; Some 100%Z]; [Some 2%Z; Some 20%Z; Some 200%Z]; [Some 3%Z; Some 30%Z; Some 300%Z]]] in
  let s := SUpdate 0 [(0, EConst (Some 7%Z))] (Some (PCmpC 0 OGe 2%Z)) in
  known_class s d = true
  /\ map t_pkidx (d_tabs (fst (step d s))) = [Some [([Some 7%Z], 2); ([Some 1%Z], 0)]].
Proof. vm_compute. split; reflexivity. Qed.

(* ------------------------------------------------------------------------------------ *)
(** * User indexes: from an invariant state only ROLLBACK TO SAVEPOINT can break them *)

Lemma user_mirror_same t t' : t_rows t' = t_rows t -> t_uidx t' = t_uidx t -> user_mirror t -> user_mirror t'.
Proof. unfold user_mirror. intros -> ->. auto. Qed.

Lemma db_insert_batch_user t new t1 :
  user_mirror t -> db_insert_batch t new = (t1, true) -> user_mirror t1.
Proof.
  intros Hu Hb. unfold db_insert_batch in Hb.
  destruct (existsb (uidx_unique_violation (t_uidx t)) new); [discriminate|].
  destruct (tbl_insert_all t new) as [t2 ok] eqn:E1. destruct ok; [|discriminate].
  inversion Hb; subst t1; clear Hb.
  destruct (tbl_insert_all_props _ _ _ E1) as [Hr [Hs [Hud _]]].
  unfold user_mirror in *. simp_tab. rewrite Hud, Hr, uidx_add_all_map.
  rewrite Forall_forall in *. intros u' Hin. apply in_map_iff in Hin.
  destruct Hin as [u [<- Hin]]. cbn. apply ui_mirror_spec. apply ui_spec_build_from.
  apply ui_mirror_spec. apply Hu; exact Hin.
Qed.

Lemma do_insert_values_user t rows t' res ins :
  user_mirror t -> do_insert_values t rows = (t', res, ins) -> user_mirror t'.
Proof.
  intros Hu Hd. unfold do_insert_values in Hd.
  destruct (negb (forallb (fun r => length r =? s_ncols (t_sch t)) rows)) eqn:Earity; [inversion Hd; subst; exact Hu|].
  apply negb_false_iff in Earity.
  destruct (negb (rv_validate_all t [] (map (fun _ => []) (s_uniqs (t_sch t))) rows)) eqn:Ev; [inversion Hd; subst; exact Hu|].
  apply negb_false_iff in Ev.
  assert (F5 : Forall (fun r => length r = s_ncols (t_sch t)) rows).
  { apply Forall_forall. intros r Hr. rewrite forallb_forall in Earity. apply Nat.eqb_eq. apply Earity; exact Hr. }
  assert (F6 : Forall (fun r => notnull_ok (s_notnull (t_sch t)) r = true) rows) by (eapply rv_all_notnull; exact Ev).
  assert (Hbatch : forall t1 ok, db_insert_batch t rows = (t1, ok) -> user_mirror t1).
  { intros t1 [|] Eb; [eapply db_insert_batch_user; eauto|].
    apply db_insert_batch_fail in Eb; [subst; exact Hu | exact F5 | exact F6]. }
  destruct rows as [|r [|r' rows]].
  - inversion Hd; subst; exact Hu.
  - rewrite db_insert_row_as_batch in Hd. destruct (db_insert_batch t [r]) as [t1 ok] eqn:Eb.
    specialize (Hbatch _ _ eq_refl). destruct ok; inversion Hd; subst; exact Hbatch.
  - destruct (db_insert_batch t (r :: r' :: rows)) as [t1 ok] eqn:Eb.
    specialize (Hbatch _ _ eq_refl). destruct ok; inversion Hd; subst; exact Hbatch.
Qed.

Lemma bulk_insert_user src : forall t cnt ins t' res ins',
  user_mirror t -> bulk_insert t src cnt ins = (t', res, ins') -> user_mirror t'.
Proof.
  induction src as [|r src IH]; intros t cnt ins t' res ins' Hu Hl; cbn [bulk_insert] in Hl.
  - inversion Hl; subst; exact Hu.
  - destruct (db_insert_row t r) as [t1 ok] eqn:Ei. destruct ok.
    + rewrite db_insert_row_as_batch in Ei. eapply IH; [|exact Hl]. eapply db_insert_batch_user; eauto.
    + apply db_insert_row_fail in Ei. inversion Hl; subst; exact Hu.
Qed.

Lemma upd_apply_rows_ok changed : forall ups t,
  plan_ok (t_rows t) ups -> news_wf (t_sch t) changed ups ->
  exists t', upd_apply_rows t changed ups = (t', true)
    /\ t_rows t' = apply_ups ups (t_rows t) /\ t_uidx t' = t_uidx t.
Proof.
  induction ups as [|[[i old] new] ups IH]; intros t Hp Hnews.
  - exists t. cbn. auto.
  - destruct (plan_ok_step _ _ _ _ _ Hp) as [Hold Hp'].
    destruct (Hnews (i, old, new) (or_introl eq_refl)) as [Nl [Nn Nu]]. cbn [fst snd] in *.
    cbn [upd_apply_rows]. unfold tbl_update_row_selective. rewrite Hold.
    unfold normalize. rewrite Nl, Nat.eqb_refl, Nn. cbn [negb].
    match goal with |- exists t', upd_apply_rows ?t1 _ _ = _ /\ _ => destruct (IH t1) as [t' [E1 [E2 E3]]] end.
    + simp_tab. exact Hp'.
    + simp_tab. intros u Hu. apply Hnews. right; exact Hu.
    + exists t'. simp_tab. auto.
Qed.

Lemma do_update_user t asg w t' res : TInv t -> do_update t asg w = (t', res) -> user_mirror t'.
Proof.
  intros HI Hd. pose proof HI as [Hwf [_ [_ Hu]]].
  unfold do_update in Hd.
  destruct (negb (forallb (fun a => fst a <? s_ncols (t_sch t)) asg)); [inversion Hd; subst; exact Hu|].
  destruct (select_rows t w) as [cands|] eqn:Es; [|inversion Hd; subst; exact Hu].
  destruct (upd_build t asg cands []) as [| |ups] eqn:Eb; try (inversion Hd; subst; exact Hu).
  destruct (upd_build_spec _ _ _ _ _ Eb) as [tail [E1 [E2 E3]]]. cbn in E1; subst tail.
  pose proof (plan_ok_of_cands _ _ _ (select_rows_ok _ _ _ Es) E2) as Hplan.
  assert (Hnews : news_wf (t_sch t) (map fst asg) ups).
  { intros u Hin. destruct (E3 u Hin) as [Ea Ev]. destruct (apply_asg_untouched _ _ _ _ Ea) as [Hl Hun].
    unfold upd_validate in Ev. repeat (apply andb_true_iff in Ev; destruct Ev as [Ev ?]).
    destruct Hplan as [_ Hpo]. specialize (Hpo u Hin). repeat split.
    - rewrite Hl. destruct Hwf as [Hw1 _]. eapply Forall_nth_error in Hw1; eauto.
    - exact Ev.
    - exact Hun. }
  destruct (upd_apply_rows_ok (map fst asg) ups t Hplan Hnews) as [t1 [F1 [F2 F3]]].
  rewrite F1 in Hd. inversion Hd; subst t' res; clear Hd.
  unfold user_mirror in *. simp_tab. rewrite F3, upd_apply_uidx_map, F2.
  rewrite Forall_forall in *. intros u' Hin. apply in_map_iff in Hin. destruct Hin as [u [<- Hin]].
  cbn. apply ui_mirror_spec. apply ui_upd_all_spec; [exact Hplan|]. apply ui_mirror_spec. apply Hu; exact Hin.
Qed.

Definition not_rollback (s : stmt) : bool :=
  match s with SRollbackTo _ => false | _ => true end.

Lemma on_table_user d ti f :
  Forall user_mirror (d_tabs d) ->
  (forall t t' r, nth_error (d_tabs d) ti = Some t -> f t = (t', r) -> user_mirror t') ->
  Forall user_mirror (d_tabs (fst (on_table d ti f))).
Proof.
  intros Hf Hg. unfold on_table. destruct (nth_error (d_tabs d) ti) as [t|] eqn:Et; [|exact Hf].
  destruct (f t) as [t' r] eqn:Ef. cbn. apply Forall_upd_nth_const; [exact Hf | eapply Hg; eauto].
Qed.

Theorem user_mirror_step_always d s : Inv d -> not_rollback s = true -> db_user_mirror (fst (step d s)).
Proof.
  intros HI Hnr. pose proof (Inv_parts d HI) as [_ [_ Hu]]. unfold db_user_mirror in *.
  destruct s; cbn [step]; try discriminate.
  - destruct (nth_error (d_tabs d) t) as [tb|] eqn:Et; [|exact Hu].
    destruct (do_insert_values tb rows) as [[t' r] ins] eqn:Ed. cbn.
    apply Forall_upd_nth_const; [exact Hu|]. eapply do_insert_values_user; eauto. eapply Forall_nth_error; eauto.
  - destruct (nth_error (d_tabs d) dst) as [td|] eqn:Ed; [|exact Hu].
    destruct (nth_error (d_tabs d) src) as [ts|] eqn:Es; [|exact Hu].
    destruct (do_insert_select td (dst =? src) (t_sch ts) (t_rows ts) sel) as [[t' r] ins] eqn:Ei. cbn.
    apply Forall_upd_nth_const; [exact Hu|]. pose proof (Forall_nth_error _ _ _ _ Hu Ed) as Htd.
    unfold do_insert_select in Ei.
    destruct (negb (dst =? src) && bulk_compatible (t_sch td) (t_sch ts)).
    { destruct (bulk_validate td [] (map (fun _ => []) (s_uniqs (t_sch td))) (t_rows ts));
        [eapply bulk_insert_user; eauto | inversion Ei; subst; exact Htd]. }
    destruct (negb (s_ncols (t_sch ts) =? s_ncols (t_sch td))); [inversion Ei; subst; exact Htd|].
    eapply do_insert_values_user; eauto.
  - apply on_table_user; [exact Hu|]. intros tb t' r Et Hd. eapply do_update_user; eauto. eapply Inv_tab; eauto.
  - apply on_table_user; [exact Hu|]. intros tb t' r Et Hd.
    assert (HT : TInv t') by (eapply do_delete_TInv; eauto; eapply Inv_tab; eauto). apply HT.
  - apply on_table_user; [exact Hu|]. intros tb t' r Et Hd.
    replace t' with (fst (do_truncate tb)) by (rewrite Hd; reflexivity).
    assert (HT : TInv (fst (do_truncate tb))) by (apply do_truncate_TInv; eapply Inv_tab; eauto). apply HT.
  - destruct (nth_error (d_tabs d) t) as [tb|] eqn:Et; [|exact Hu].
    destruct (negb (cols_valid (t_sch tb) cols)); [exact Hu|].
    destruct (index_exists name (d_tabs d)); [exact Hu|].
    destruct (uniq && has_dup (somes (uq_kf cols) (t_rows tb))); [exact Hu|]. cbn.
    apply Forall_upd_nth; [exact Hu|]. intros x _ Hx. unfold user_mirror in *. cbn.
    apply Forall_app; split; [exact Hx|]. constructor; [|constructor]. cbn. apply ui_equiv_refl.
  - destruct (index_exists name (d_tabs d)); [|exact Hu]. cbn.
    rewrite Forall_forall in *. intros t' Hin. apply in_map_iff in Hin. destruct Hin as [t0 [<- Hin]].
    specialize (Hu t0 Hin). unfold user_mirror in *. cbn. rewrite Forall_forall in *.
    intros u Hf. apply filter_In in Hf. apply Hu. apply Hf.
  - apply on_table_user; [exact Hu|]. intros tb t' r Et Hd. unfold do_add_pk in Hd.
    pose proof (Forall_nth_error _ _ _ _ Hu Et) as Htb.
    destruct (negb (cols_valid (t_sch tb) cols)); [inversion Hd; subst; exact Htb|].
    destruct (s_pk (t_sch tb)); inversion Hd; subst; exact Htb.
  - apply on_table_user; [exact Hu|]. intros tb t' r Et Hd. unfold do_add_unique in Hd.
    pose proof (Forall_nth_error _ _ _ _ Hu Et) as Htb.
    destruct (negb (cols_valid (t_sch tb) cols)); inversion Hd; subst; exact Htb.
  - apply on_table_user; [exact Hu|]. intros tb t' r Et Hd. unfold do_add_check in Hd. inversion Hd; subst.
    exact (Forall_nth_error _ _ _ _ Hu Et).
  - destruct (d_txn d); exact Hu.
  - destruct (d_txn d); exact Hu.
  - destruct (d_txn d) as [x|] eqn:Ex; [|exact Hu].
    destruct HI as [_ Hx]. rewrite Ex in Hx. destruct Hx as [Hs _].
    destruct (restore_tabs (x_snap x)) as [ts ok] eqn:Er. cbn.
    destruct (restore_tabs_TInv _ _ _ Hs Er) as [R1 _].
    eapply Forall_impl; [|exact R1]. intros t0 HT; apply HT.
  - destruct (d_txn d); exact Hu.
  - destruct (d_txn d) as [x|] eqn:Ex; [|exact Hu].
    destruct (save_pos name (x_saves x) 0) as [[pos idx]|]; exact Hu.
Qed.
