(** * Store/CacheTablesLaws.v — laws of the table-name extractors (Store/CacheTables.v).

    - [xt_exact]: the names the executor crate's extractor returns, together with the names hidden below
      the three leaf-treated variants, are exactly the names mentioned in the statement;
    - [xt_complete]: when nothing is hidden and no mentioned name is a view, every base table the result
      depends on ([reads], views expanded to any depth) is returned; refuted through a view
      ([xt_complete_view_refuted]) and through a window function ([xt_complete_window_refuted]);
    - the same three statements for the adapter's FROM-only extractor ([ax_exact], [ax_complete],
      [ax_complete_refuted]);
    - [ax_incl_xt]: the adapter's extractor never returns a name the crate's does not. *)
From Coq Require Import List ZArith Bool Lia.
From VibeSQL Require Import Lex.Normalize Store.Cache Store.CacheTables.
Import ListNotations.
Open Scope Z_scope.

(** ** Induction over the nested mutual query tree *)
Section MutInd.
  Variables (Pe : expr -> Prop) (Pf : from -> Prop) (Ps : select -> Prop).
  Hypothesis He : forall k ch subs, Forall Pe ch -> Forall Ps subs -> Pe (ENode k ch subs).
  Hypothesis Hft : forall n, Pf (FTable n).
  Hypothesis Hfj : forall l r c, Pf l -> Pf r -> Forall Pe c -> Pf (FJoin l r c).
  Hypothesis Hfs : forall q, Ps q -> Pf (FSub q).
  Hypothesis Hs : forall ctes items frm whr grp hav ord setop,
    Forall Ps ctes -> Forall Pe items -> Forall Pf frm -> Forall Pe whr -> Forall Pe grp ->
    Forall Pe hav -> Forall Pe ord -> Forall Ps setop ->
    Ps (Select ctes items frm whr grp hav ord setop).

  Fixpoint expr_mut (e : expr) : Pe e :=
    match e with
    | ENode k ch subs =>
      He k ch subs
         ((fix go (l : list expr) : Forall Pe l :=
             match l with [] => Forall_nil _ | x :: r => Forall_cons x (expr_mut x) (go r) end) ch)
         ((fix go (l : list select) : Forall Ps l :=
             match l with [] => Forall_nil _ | x :: r => Forall_cons x (select_mut x) (go r) end) subs)
    end
  with from_mut (f : from) : Pf f :=
    match f with
    | FTable n => Hft n
    | FJoin l r c =>
      Hfj l r c (from_mut l) (from_mut r)
          ((fix go (l : list expr) : Forall Pe l :=
              match l with [] => Forall_nil _ | x :: r => Forall_cons x (expr_mut x) (go r) end) c)
    | FSub q => Hfs q (select_mut q)
    end
  with select_mut (q : select) : Ps q :=
    match q with
    | Select ctes items frm whr grp hav ord setop =>
      let ge := fix go (l : list expr) : Forall Pe l :=
                  match l with [] => Forall_nil _ | x :: r => Forall_cons x (expr_mut x) (go r) end in
      let gs := fix go (l : list select) : Forall Ps l :=
                  match l with [] => Forall_nil _ | x :: r => Forall_cons x (select_mut x) (go r) end in
      let gf := fix go (l : list from) : Forall Pf l :=
                  match l with [] => Forall_nil _ | x :: r => Forall_cons x (from_mut x) (go r) end in
      Hs ctes items frm whr grp hav ord setop
         (gs ctes) (ge items) (gf frm) (ge whr) (ge grp) (ge hav) (ge ord) (gs setop)
    end.

  Theorem query_mut : (forall e, Pe e) /\ (forall f, Pf f) /\ (forall q, Ps q).
  Proof. exact (conj expr_mut (conj from_mut select_mut)). Qed.
End MutInd.

(** ** flat_map under pointwise set facts *)
Lemma flat_map_split {A} (f g h : A -> list tname) (l : list A) :
  Forall (fun y => forall x, In x (f y) <-> In x (g y) \/ In x (h y)) l ->
  forall x, In x (flat_map f l) <-> In x (flat_map g l) \/ In x (flat_map h l).
Proof.
  intros HF x. induction HF as [|y l Hy _ IH]; cbn.
  - tauto.
  - rewrite !in_app_iff. rewrite (Hy x). tauto.
Qed.

Lemma flat_map_incl {A} (f g : A -> list tname) (l : list A) :
  Forall (fun y => forall x, In x (f y) -> In x (g y)) l ->
  forall x, In x (flat_map f l) -> In x (flat_map g l).
Proof.
  intros HF x. induction HF as [|y l Hy _ IH]; cbn.
  - tauto.
  - rewrite !in_app_iff. intros [H|H]; [left; apply Hy; exact H|right; apply IH; exact H].
Qed.

Lemma flat_map_same {A} (f : A -> list tname) (l : list A) :
  forall x, In x (flat_map f l) <-> In x (flat_map f l) \/ In x (@nil tname).
Proof. intros x. cbn. tauto. Qed.

(** ** The executor crate's extractor *)
Theorem xt_exact_all :
  (forall e x, In x (all_expr e) <-> In x (xt_expr e) \/ In x (hid_expr e)) /\
  (forall f x, In x (all_from f) <-> In x (xt_from f) \/ In x (hid_from f)) /\
  (forall q x, In x (all_select q) <-> In x (xt_select q) \/ In x (hid_select q)).
Proof.
  apply query_mut.
  - intros k ch subs Hch Hsubs x. cbn [all_expr xt_expr hid_expr].
    destruct (visits k).
    + rewrite !in_app_iff.
      rewrite (flat_map_split all_expr xt_expr hid_expr ch Hch x).
      rewrite (flat_map_split all_select xt_select hid_select subs Hsubs x). tauto.
    + cbn. tauto.
  - intros n x. cbn. tauto.
  - intros l r c Hl Hr Hc x. cbn [all_from xt_from hid_from]. rewrite !in_app_iff.
    rewrite (Hl x), (Hr x), (flat_map_split all_expr xt_expr hid_expr c Hc x). tauto.
  - intros q Hq x. cbn [all_from xt_from hid_from]. apply Hq.
  - intros ctes items frm whr grp hav ord setop Hctes Hitems Hfrm Hwhr Hgrp Hhav Hord Hsetop x.
    cbn [all_select xt_select hid_select]. rewrite !in_app_iff.
    rewrite (flat_map_split all_from xt_from hid_from frm Hfrm x).
    rewrite (flat_map_split all_expr xt_expr hid_expr items Hitems x).
    rewrite (flat_map_split all_expr xt_expr hid_expr whr Hwhr x).
    rewrite (flat_map_split all_expr xt_expr hid_expr grp Hgrp x).
    rewrite (flat_map_split all_expr xt_expr hid_expr hav Hhav x).
    rewrite (flat_map_split all_expr xt_expr hid_expr ord Hord x).
    rewrite (flat_map_split all_select xt_select hid_select ctes Hctes x).
    rewrite (flat_map_split all_select xt_select hid_select setop Hsetop x).
    tauto.
Qed.

Theorem xt_exact : forall q x, In x (all_select q) <-> In x (xt_select q) \/ In x (hid_select q).
Proof. exact (proj2 (proj2 xt_exact_all)). Qed.

(** ** The adapter's FROM-only extractor *)
Theorem ax_exact_all :
  (forall f x, In x (all_from f) <-> In x (ax_from f) \/ In x (ahid_from f)) /\
  (forall q x, In x (all_select q) <-> In x (ax_select q) \/ In x (ahid_select q)).
Proof.
  assert (H : (forall e : expr, True) /\
              (forall f x, In x (all_from f) <-> In x (ax_from f) \/ In x (ahid_from f)) /\
              (forall q x, In x (all_select q) <-> In x (ax_select q) \/ In x (ahid_select q))).
  { apply query_mut.
    - intros. exact I.
    - intros n x. cbn. tauto.
    - intros l r c Hl Hr _ x. cbn [all_from ax_from ahid_from]. rewrite !in_app_iff.
      rewrite (Hl x), (Hr x). tauto.
    - intros q Hq x. cbn [all_from ax_from ahid_from]. apply Hq.
    - intros ctes items frm whr grp hav ord setop _ _ Hfrm _ _ _ _ _ x.
      cbn [all_select ax_select ahid_select]. rewrite !in_app_iff.
      rewrite (flat_map_split all_from ax_from ahid_from frm Hfrm x). tauto. }
  exact (proj2 H).
Qed.

Theorem ax_exact : forall q x, In x (all_select q) <-> In x (ax_select q) \/ In x (ahid_select q).
Proof. exact (proj2 ax_exact_all). Qed.

Theorem ax_incl_xt_all :
  (forall f x, In x (ax_from f) -> In x (xt_from f)) /\
  (forall q x, In x (ax_select q) -> In x (xt_select q)).
Proof.
  assert (H : (forall e : expr, True) /\
              (forall f x, In x (ax_from f) -> In x (xt_from f)) /\
              (forall q x, In x (ax_select q) -> In x (xt_select q))).
  { apply query_mut.
    - intros. exact I.
    - intros n x H. exact H.
    - intros l r c Hl Hr _ x. cbn [ax_from xt_from]. rewrite !in_app_iff.
      intros [H|H]; [left; apply Hl; exact H|right; left; apply Hr; exact H].
    - intros q Hq x. cbn [ax_from xt_from]. apply Hq.
    - intros ctes items frm whr grp hav ord setop _ _ Hfrm _ _ _ _ _ x.
      cbn [ax_select xt_select]. rewrite !in_app_iff. intro H. left.
      exact (flat_map_incl ax_from xt_from frm Hfrm x H). }
  exact (proj2 H).
Qed.

Theorem ax_incl_xt : forall q x, In x (ax_select q) -> In x (xt_select q).
Proof. exact (proj2 ax_incl_xt_all). Qed.

(** ** Completeness with respect to the tables a result depends on *)
Section Complete.
  Variable views : tname -> option select.

  (** no mentioned name is a view *)
  Definition view_free (q : select) : Prop := forall n, In n (all_select q) -> views n = None.

  Lemma reads_view_free : forall fuel q x, view_free q -> In x (reads views fuel q) -> In x (all_select q).
  Proof.
    intros fuel q x Hvf H. destruct fuel as [|f]; cbn in H; [exact H|].
    apply in_app_iff in H. destruct H as [H|H]; [exact H|].
    apply in_flat_map in H. destruct H as [n [Hn Hx]]. rewrite (Hvf n Hn) in Hx. contradiction.
  Qed.

  Lemma reads_mentions : forall fuel q x, In x (all_select q) -> In x (reads views fuel q).
  Proof. intros fuel q x H. destruct fuel; cbn; [exact H|]. apply in_app_iff. left. exact H. Qed.

  Theorem xt_complete : forall fuel q,
    hid_select q = [] -> view_free q -> incl (reads views fuel q) (xt_select q).
  Proof.
    intros fuel q Hh Hvf x H. apply (reads_view_free fuel q x Hvf) in H.
    apply xt_exact in H. rewrite Hh in H. destruct H as [H|H]; [exact H|contradiction].
  Qed.

  Theorem ax_complete : forall fuel q,
    ahid_select q = [] -> view_free q -> incl (reads views fuel q) (ax_select q).
  Proof.
    intros fuel q Hh Hvf x H. apply (reads_view_free fuel q x Hvf) in H.
    apply ax_exact in H. rewrite Hh in H. destruct H as [H|H]; [exact H|contradiction].
  Qed.

  (** no spurious names: what either extractor returns is mentioned in the statement *)
  Theorem xt_sound : forall fuel q, incl (xt_select q) (reads views fuel q).
  Proof. intros fuel q x H. apply reads_mentions. apply xt_exact. left. exact H. Qed.
End Complete.

(** ** Witnesses *)
Definition nT1 : tname := [84; 49].  (* "T1" *)
Definition nT2 : tname := [84; 50].  (* "T2" *)
Definition nV1 : tname := [86; 49].  (* "V1" *)
Definition sel_from (n : tname) : select := Select [] [ENode KWildcard [] []] [FTable n] [] [] [] [] [].

(** CREATE VIEW V1 AS SELECT * FROM T1;  SELECT * FROM V1 *)
Definition w_views (n : tname) : option select := if name_eqb n nV1 then Some (sel_from nT1) else None.

Theorem xt_complete_view_refuted :
  exists views fuel q t, hid_select q = [] /\ In t (reads views fuel q) /\ ~ In t (xt_select q).
Proof.
  exists w_views, 1%nat, (sel_from nV1), nT1. split; [reflexivity|]. split.
  - vm_compute. right. left. reflexivity.
  - vm_compute. intros [H|H]; [discriminate|contradiction].
Qed.

(** SELECT SUM((SELECT MAX(b) FROM T2)) OVER () FROM T1 *)
Definition w_window : select :=
  Select [] [ENode KWindowFunction [ENode KScalarSubquery [] [sel_from nT2]] []] [FTable nT1] [] [] [] [] [].

Theorem xt_complete_window_refuted :
  exists q t, (forall n, In n (all_select q) -> (fun _ : tname => @None select) n = None) /\
              In t (reads (fun _ => None) 0 q) /\ ~ In t (xt_select q).
Proof.
  exists w_window, nT2. split; [reflexivity|]. split.
  - vm_compute. right. left. reflexivity.
  - vm_compute. intros [H|H]; [discriminate|contradiction].
Qed.

(** SELECT * FROM T1 WHERE a IN (SELECT a FROM T2) *)
Definition w_where_sub : select :=
  Select [] [ENode KWildcard [] []] [FTable nT1]
         [ENode KIn [ENode KColumnRef [] []] [sel_from nT2]] [] [] [] [].

Theorem ax_complete_refuted :
  exists q t, hid_select q = [] /\ (forall n, In n (all_select q) -> (fun _ : tname => @None select) n = None) /\
              In t (reads (fun _ => None) 0 q) /\ In t (xt_select q) /\ ~ In t (ax_select q).
Proof.
  exists w_where_sub, nT2. split; [reflexivity|]. split; [reflexivity|]. split; [|split].
  - vm_compute. right. left. reflexivity.
  - vm_compute. right. left. reflexivity.
  - vm_compute. intros [H|H]; [discriminate|contradiction].
Qed.

(** ** Examples: the hypotheses of the completeness theorems are satisfiable by non-trivial queries *)
(** WITH c AS (SELECT * FROM T2) SELECT (SELECT 1 FROM T1) FROM T1 JOIN T2 ON EXISTS (SELECT * FROM T1)
    UNION SELECT * FROM T2 *)
Definition ex_query : select :=
  Select [sel_from nT2] [ENode KScalarSubquery [] [sel_from nT1]]
         [FJoin (FTable nT1) (FTable nT2) [ENode KExists [] [sel_from nT1]]] [] [] [] [] [sel_from nT2].

Example xt_complete_example :
  hid_select ex_query = [] /\ name_set_eqb (xt_select ex_query) [nT1; nT2] = true /\
  ahid_select ex_query <> [] /\ ax_select ex_query = [nT1; nT2].
Proof. repeat split; try reflexivity. vm_compute. discriminate. Qed.

Example base_name_example :
  base_name [80; 85; 66; 46; 84; 49] = nT1 /\ base_name nT1 = nT1 /\ base_name [65; 46; 66; 46; 84; 49] = nT1
  /\ base_name [84; 46] = [].
Proof. repeat split; reflexivity. Qed.
