(** C12 laws, part 6: machine-checked witnesses.  For every known class a small database that
    satisfies all invariants and RI, and one statement of the class after which RI (or, for two
    classes, another stated property) fails.  All of them were first observed on the real engine. *)
From Coq Require Import List ZArith Bool Arith Lia.
From VibeSQL Require Import Store.Fk Store.FkLaws Store.FkDeleteLaws Store.FkStepLaws Store.FkUpdateLaws Store.FkTheorems.
Import ListNotations.

(* ------------------------------------------------------------------------------------ *)
(** * A boolean checker for the invariants (reflection, used on the concrete witnesses) *)

Definition inv_b (d : db) : bool :=
  nat_nodupb (names d)
  && forallb (fun t => forallb (fun r => Nat.eqb (length r) (ncols t)) (t_rows t)) d
  && schema_standard d
  && forallb (fun t => match t_pk t with
                       | Some pk => keys_nodupb (map (proj pk) (t_rows t))
                                    && negb (match pk with [] => true | _ => false end)
                                    && forallb (fun c => Nat.ltb c (ncols t) && negb (col_nullable t c)) pk
                                    && forallb (fun r => negb (has_null (proj pk r))) (t_rows t)
                       | None => true end) d.

Lemma inv_b_inv : forall d, inv_b d = true -> inv d.
Proof.
  intros d H. unfold inv_b in H.
  apply andb_true_iff in H. destruct H as [H H4]. apply andb_true_iff in H. destruct H as [H H3].
  apply andb_true_iff in H. destruct H as [H1 H2].
  assert (PK : forall t pk, In t d -> t_pk t = Some pk ->
     keys_nodupb (map (proj pk) (t_rows t)) = true /\ pk <> [] /\
     (forall c, In c pk -> c < ncols t /\ col_nullable t c = false) /\
     (forall r, In r (t_rows t) -> has_null (proj pk r) = false)).
  { intros t pk Ht Hpk. rewrite forallb_forall in H4. specialize (H4 t Ht). rewrite Hpk in H4.
    apply andb_true_iff in H4. destruct H4 as [H4 K4]. apply andb_true_iff in H4. destruct H4 as [H4 K3].
    apply andb_true_iff in H4. destruct H4 as [K1 K2].
    split; [exact K1|]. split; [destruct pk; [discriminate|discriminate]|]. split.
    - intros c Hc. rewrite forallb_forall in K3. specialize (K3 c Hc). apply andb_true_iff in K3. destruct K3 as [A B].
      apply Nat.ltb_lt in A. apply negb_true_iff in B. auto.
    - intros r Hr. rewrite forallb_forall in K4. specialize (K4 r Hr). apply negb_true_iff in K4. exact K4. }
  constructor.
  - apply nat_nodupb_NoDup. exact H1.
  - intros t r Ht Hr. rewrite forallb_forall in H2. specialize (H2 t Ht). rewrite forallb_forall in H2.
    specialize (H2 r Hr). apply Nat.eqb_eq. exact H2.
  - exact H3.
  - intros t pk Ht Hpk. apply keys_nodupb_NoDup. apply (PK t pk Ht Hpk).
  - intros t pk Ht Hpk. destruct (PK t pk Ht Hpk) as [_ [A [B _]]]. auto.
  - intros t pk r Ht Hpk Hr. destruct (PK t pk Ht Hpk) as [_ [_ [_ C]]]. auto.
Qed.

Definition ord_okb (ord : list nat) (d : db) : bool := forallb (fun t => nat_mem (t_name t) ord) d.

Lemma ord_okb_ok : forall ord d, ord_okb ord d = true -> ord_ok ord d.
Proof. intros ord d H t Ht. unfold ord_okb in H. rewrite forallb_forall in H. apply nat_mem_In. apply H. exact Ht. Qed.

(** RI as a boolean, literally (no invariant needed) *)
Definition ri_exact_b (d : db) : bool :=
  forallb (fun ct => forallb (fun fk => forallb (fun r =>
     has_null (proj (fk_cols fk) r) ||
     match get_table d (fk_parent fk) with
     | Some pt => key_mem (proj (fk_cols fk) r) (map (proj (fk_pcols fk)) (t_rows pt))
     | None => false
     end) (t_rows ct)) (t_fks ct)) d.

Lemma ri_exact_b_RI : forall d, ri_exact_b d = true <-> RI d.
Proof.
  intros d. unfold ri_exact_b. split.
  - intros H ct fk r Hct Hfk Hr HN. rewrite forallb_forall in H. specialize (H ct Hct).
    rewrite forallb_forall in H. specialize (H fk Hfk). rewrite forallb_forall in H. specialize (H r Hr).
    rewrite HN in H. cbn in H. destruct (get_table d (fk_parent fk)) as [pt|]; [|discriminate].
    apply key_mem_In in H. apply in_map_iff in H. destruct H as [pr [E Hpr]]. exists pt, pr. auto.
  - intros R. apply forallb_forall. intros ct Hct. apply forallb_forall. intros fk Hfk.
    apply forallb_forall. intros r Hr. destruct (has_null (proj (fk_cols fk) r)) eqn:HN; [reflexivity|]. cbn.
    destruct (R ct fk r Hct Hfk Hr HN) as [pt [pr [G [Hpr Ek]]]]. rewrite G.
    apply key_mem_In. rewrite <- Ek. apply in_map. exact Hpr.
Qed.

(** the shape every witness has *)
Definition breaks_ri (e : event) (ord : list nat) (d : db) (s : stmt) : Prop :=
  inv d /\ ord_ok ord d /\ RI d /\ In e (step_events ord d s) /\ ~ RI (step_db ord d s).

Lemma breaks_ri_by_computation : forall e ord d s,
  inv_b d = true -> ord_okb ord d = true -> ri_exact_b d = true ->
  existsb (event_eqb e) (step_events ord d s) = true ->
  ri_exact_b (step_db ord d s) = false ->
  breaks_ri e ord d s.
Proof.
  intros e ord d s H1 H2 H3 H4 H6. pose proof (inv_b_inv _ H1) as I.
  split; [exact I|]. split; [apply ord_okb_ok; exact H2|]. split; [apply ri_exact_b_RI; assumption|]. split.
  - apply existsb_exists in H4. destruct H4 as [x [Hx Ex]].
    assert (x = e) by (destruct e, x; cbn in Ex; congruence). subst x. exact Hx.
  - intros R. apply ri_exact_b_RI in R. congruence.
Qed.

(* ------------------------------------------------------------------------------------ *)
(** * Schemas *)

Definition colN := mkCol true None.          (* nullable, no default *)
Definition colK := mkCol false None.         (* NOT NULL (primary key column) *)
Definition v (z : Z) : val := Some z.

(** t0(c0 PK, c1 -> t0(c0)): a self-referencing table *)
Definition selfref (d u : action) (rows : list row) : table :=
  mkTable 0 [colK; colN] (Some [0]) [mkFk [1] 0 [0] d u] rows.
(** t0(c0 PK, c1) and a child t1(c0 PK, c1 -> t0(c0)) *)
Definition parent0 (rows : list row) : table := mkTable 0 [colK; colN] (Some [0]) [] rows.
Definition child1 (d u : action) (dflt : val) (rows : list row) : table :=
  mkTable 1 [colK; mkCol true dflt] (Some [0]) [mkFk [1] 0 [0] d u] rows.

(** 1. DELETE by pre-computed index after a cascade shortened the target table:
       DELETE FROM t0 WHERE c0 = 1 OR c0 = 3 on (1,-),(2,1),(3,-),(4,-),(5,4) leaves (3,-),(5,4) *)
Definition w1_db : db := [selfref ACascade ACascade [[v 1; None]; [v 2; v 1]; [v 3; None]; [v 4; None]; [v 5; v 4]]].
Definition w1_stmt : stmt := SDelete 0 (Some (POr (PCmp 0 OEq 1) (PCmp 0 OEq 3))).
Theorem index_shift_witness : breaks_ri EvIndexShift [0] w1_db w1_stmt.
Proof. apply breaks_ri_by_computation; vm_compute; reflexivity. Qed.

(** 2. cascade_delete removes BY VALUE rows that a SET NULL of the same cascade already rewrote:
       posts t0, comments t1(c0 PK, c1 -> t0 CASCADE, c2 -> t1 SET NULL); DELETE FROM t0 WHERE c0 = 1 *)
Definition w2_db : db :=
  [mkTable 0 [colK] (Some [0]) [] [[v 1]; [v 2]];
   mkTable 1 [colK; colN; colN] (Some [0]) [mkFk [1] 0 [0] ACascade ANoAction; mkFk [2] 1 [0] ASetNull ANoAction]
           [[v 1; v 1; None]; [v 2; v 1; v 1]; [v 3; v 2; None]]].
Definition w2_stmt : stmt := SDelete 0 (Some (PCmp 0 OEq 1)).
Theorem stale_row_witness : breaks_ri EvStaleCascadeRow [0; 1] w2_db w2_stmt.
Proof. apply breaks_ri_by_computation; vm_compute; reflexivity. Qed.

(** 3. SET DEFAULT writes a default nobody checks against the parent *)
Definition w3_db : db := [parent0 [[v 1; None]]; child1 ASetDefault ANoAction (v 7) [[v 1; v 1]]].
Definition w3_stmt : stmt := SDelete 0 (Some (PCmp 0 OEq 1)).
Theorem set_default_witness : breaks_ri EvSetDefault [0; 1] w3_db w3_stmt.
Proof. apply breaks_ri_by_computation; vm_compute; reflexivity. Qed.

(** 4. a rejected UPDATE leaves the cascades of the earlier rows behind:
       t1 (ON UPDATE CASCADE) references key 1, t2 (NO ACTION) references key 2; UPDATE t0 SET c0 = c0 + 10 *)
Definition w4_db : db :=
  [parent0 [[v 1; None]; [v 2; None]];
   child1 ANoAction ACascade None [[v 1; v 1]];
   mkTable 2 [colK; colN] (Some [0]) [mkFk [1] 0 [0] ANoAction ANoAction] [[v 1; v 2]]].
Definition w4_stmt : stmt := SUpdate 0 [(0, EAdd 0 10)] None.
Theorem partial_update_witness : breaks_ri EvPartial [0; 1; 2] w4_db w4_stmt /\ step_res [0; 1; 2] w4_db w4_stmt = RErr EConstraint.
Proof. split; [apply breaks_ri_by_computation; vm_compute; reflexivity|vm_compute; reflexivity]. Qed.

(** 5. two foreign keys of one child to the same parent: the second collected update overwrites the first *)
Definition w5_db : db :=
  [parent0 [[v 3; None]];
   mkTable 1 [colK; colN; colN] (Some [0]) [mkFk [1] 0 [0] ANoAction ACascade; mkFk [2] 0 [0] ANoAction ACascade] [[v 1; v 3; v 3]]].
Definition w5_stmt : stmt := SUpdate 0 [(0, ELit (v 33))] (Some (PCmp 0 OEq 3)).
Theorem overwrite_witness : breaks_ri EvOverwrite [0; 1] w5_db w5_stmt.
Proof. apply breaks_ri_by_computation; vm_compute; reflexivity. Qed.

(** 6. ON UPDATE CASCADE into a column that is the child's own primary key: grandchildren are not followed *)
Definition w6_db : db :=
  [mkTable 0 [colK] (Some [0]) [] [[v 1]];
   mkTable 1 [colK] (Some [0]) [mkFk [0] 0 [0] ANoAction ACascade] [[v 1]];
   mkTable 2 [colK; colN] (Some [0]) [mkFk [1] 1 [0] ANoAction ACascade] [[v 1; v 1]]].
Definition w6_stmt : stmt := SUpdate 0 [(0, ELit (v 5))] (Some (PCmp 0 OEq 1)).
Theorem side_effect_witness : breaks_ri EvSideEffect [0; 1; 2] w6_db w6_stmt.
Proof. apply breaks_ri_by_computation; vm_compute; reflexivity. Qed.

(** 7. key UPDATE of a self-referencing table: step 8 writes the rows computed before the cascade ran *)
Definition w7_db : db := [selfref ACascade ACascade [[v 1; None]; [v 2; None]; [v 3; v 1]]].
Definition w7_stmt : stmt := SUpdate 0 [(0, EAdd 0 10)] None.
Theorem self_ref_update_witness : breaks_ri EvSelfRefPkUpdate [0] w7_db w7_stmt.
Proof. apply breaks_ri_by_computation; vm_compute; reflexivity. Qed.

(** 8. (repaired) DROP TABLE of a referenced table is refused and changes nothing *)
Definition w8_db : db := [parent0 [[v 1; None]]; child1 ANoAction ANoAction None [[v 1; v 1]]].
Theorem drop_guard_example :
  step_res [0; 1] w8_db (SDropTable 0) = RErr EConstraint /\ step_db [0; 1] w8_db (SDropTable 0) = w8_db
  /\ known_class [0; 1] (SDropTable 0) w8_db = false
  /\ step_res [0; 1] w8_db (SDropTable 1) = ROk 0.
Proof. vm_compute. repeat split; reflexivity. Qed.

(** 9. ALTER TABLE ADD FOREIGN KEY does not look at the rows *)
Definition w9_db : db := [parent0 [[v 1; None]]; mkTable 1 [colK; colN] (Some [0]) [] [[v 1; v 42]]].
Theorem add_fk_witness : breaks_ri EvAddFkUnchecked [0; 1] w9_db (SAddFk 1 (mkFk [1] 0 [0] ANoAction ANoAction)).
Proof. apply breaks_ri_by_computation; vm_compute; reflexivity. Qed.

(* ------------------------------------------------------------------------------------ *)
(** * Keys declared out of column order (repaired) and non-standard foreign keys (the schema itself is the class) *)

(** 10. (repaired) FOREIGN KEY (c2, c1) REFERENCES t0(c0, c1): INSERT now compares the values in
    declaration order like UPDATE and DELETE do; such a key is a standard key, the step theorem applies *)
Definition w10_db : db :=
  [mkTable 0 [colK; colK; colN] (Some [0; 1]) [] [[v 1; v 2; None]];
   mkTable 1 [colK; colN; colN] (Some [0]) [mkFk [2; 1] 0 [0; 1] ACascade ACascade] []].
Theorem out_of_order_example :
  inv w10_db /\ RI w10_db
  /\ known_class [0; 1] (SInsert 1 [[v 1; v 2; v 1]]) w10_db = false
  /\ step_res [0; 1] w10_db (SInsert 1 [[v 1; v 2; v 1]]) = ROk 1            (* the valid row is taken *)
  /\ step_res [0; 1] w10_db (SInsert 1 [[v 2; v 1; v 2]]) = RErr EConstraint.   (* the dangling one is refused *)
Proof.
  split; [apply inv_b_inv; vm_compute; reflexivity|]. split; [apply ri_exact_b_RI; vm_compute; reflexivity|].
  vm_compute. repeat split; reflexivity.
Qed.

(** 11. FOREIGN KEY (c1) REFERENCES t0(c1) (not the primary key): DELETE compares with the primary key *)
Definition w11_db : db :=
  [parent0 [[v 1; v 100]; [v 100; v 5]];
   mkTable 1 [colK; colN] (Some [0]) [mkFk [1] 0 [1] ACascade ACascade] [[v 1; v 100]]].
Theorem non_pk_witness :
  ri_b w11_db = true /\ schema_standard w11_db = false /\
  step_res [0; 1] w11_db (SDelete 0 (Some (PCmp 0 OEq 1))) = ROk 1
  /\ ri_b (step_db [0; 1] w11_db (SDelete 0 (Some (PCmp 0 OEq 1)))) = false.
Proof. vm_compute. repeat split; reflexivity. Qed.

(* ------------------------------------------------------------------------------------ *)
(** * Other properties *)

(** a rejected DELETE is not a no-op: the cascades of the earlier rows stay (RI itself survives) *)
Definition w12_db : db :=
  [parent0 [[v 1; None]; [v 2; None]];
   child1 ACascade ANoAction None [[v 1; v 1]];
   mkTable 2 [colK; colN] (Some [0]) [mkFk [1] 0 [0] ANoAction ANoAction] [[v 1; v 2]]].
Theorem reject_unchanged_refuted :
  exists ord d s, inv d /\ ord_ok ord d /\ RI d /\ step_res ord d s = RErr EConstraint /\ step_db ord d s <> d.
Proof.
  exists [0; 1; 2], w12_db, (SDelete 0 None).
  split; [apply inv_b_inv; vm_compute; reflexivity|]. split; [apply ord_okb_ok; vm_compute; reflexivity|].
  split; [apply ri_exact_b_RI; vm_compute; reflexivity|]. split; [vm_compute; reflexivity|].
  vm_compute. discriminate.
Qed.

(** two rows updated to one new primary key (C10's class): key uniqueness, not RI, is lost *)
Theorem pk_collision_witness :
  exists ord d s, inv d /\ In EvPkCollision (step_events ord d s) /\ ~ keys_unique (step_db ord d s).
Proof.
  exists [0], [parent0 [[v 1; None]; [v 2; None]]], (SUpdate 0 [(0, ELit (v 9))] None).
  split; [apply inv_b_inv; vm_compute; reflexivity|]. split; [vm_compute; left; reflexivity|].
  intros K. specialize (K (parent0 [[v 9; None]; [v 9; None]]) [0] (or_introl eq_refl) eq_refl).
  cbn in K. inversion K as [|? ? Hn _]; subst. apply Hn. left. reflexivity.
Qed.

(** the ON UPDATE actions fire when a primary-key column is ASSIGNED, not when the key CHANGES:
    UPDATE t0 SET c0 = 2 WHERE c0 = 2 leaves t0 as it is and still NULLs the child's reference
    (updates_pk in update/mod.rs looks at the assignment list only) *)
Definition w13_db : db := [parent0 [[v 2; None]]; child1 ANoAction ASetNull None [[v 7; v 2]]].
Definition w13_stmt : stmt := SUpdate 0 [(0, ELit (v 2))] (Some (PCmp 0 OEq 2)).
Theorem unchanged_key_update_witness :
  inv w13_db /\ RI w13_db /\ step_events [0; 1] w13_db w13_stmt = []
  /\ get_table (step_db [0; 1] w13_db w13_stmt) 0 = get_table w13_db 0
  /\ get_table (step_db [0; 1] w13_db w13_stmt) 1 <> get_table w13_db 1.
Proof.
  split; [apply inv_b_inv; vm_compute; reflexivity|]. split; [apply ri_exact_b_RI; vm_compute; reflexivity|].
  vm_compute. repeat split; try reflexivity. discriminate.
Qed.
