(** C17 -- the per-operation refinement theorems in terms of the ordered-multimap specification,
    lifted to arbitrary operation sequences; sanity laws of the specification itself; examples. *)
From Coq Require Import List ZArith Bool Arith Lia Sorted.
From VibeSQL Require Import Store.BTree Store.BTreeLemmas Store.BTreeLaws Store.BTreeDelete Store.BTreeCheck.
Import ListNotations.
Local Open Scope nat_scope.
Arguments seg : simpl never.

(** * LeafNode::delete_all on a strictly sorted list is "remove the key" *)
Lemma filter_id_notin k : forall m : list entry, Forall (fun x => x <> k) (keys m) ->
  filter (fun e => negb (fst e =? k)%Z) m = m.
Proof.
  induction m as [|[k' rs] m IH]; cbn; intros H; auto. inversion H; subst. cbn in H2.
  destruct (k' =? k)%Z eqn:E; [apply Z.eqb_eq in E; congruence|]. cbn. f_equal. auto.
Qed.

Lemma delete_all_filter k : forall m, StronglySorted Z.lt (keys m) ->
  match leaf_delete_all k m with
  | None => mm_mem m k = false /\ mm_delete m k = m
  | Some m' => mm_mem m k = true /\ m' = mm_delete m k
  end.
Proof.
  unfold mm_mem, mm_delete.
  induction m as [|[k' rs] m IH]; cbn; intros Hs; auto.
  inversion Hs; subst.
  destruct (k' =? k)%Z eqn:E; cbn.
  - split; auto. apply Z.eqb_eq in E. subst. symmetry. apply filter_id_notin.
    eapply Forall_impl; [|exact H2]. cbn. intros. lia.
  - specialize (IH H1). destruct (leaf_delete_all k m) as [m'|].
    + destruct IH as [-> ->]. auto.
    + destruct IH as [-> ->]. auto.
Qed.

Section Seq.
  Variable d : nat.
  Variable ksz : key -> Z.
  Variable guard : bool.
  Hypothesis d_ge : 4 <= d.
  (** minimum number of keys of an internal node: 1, or 0 for the code with the single-child guard *)
  Variable mn : nat.
  Hypothesis mn_le : mn <= 1.
  Hypothesis mn_guard : mn = 1 \/ guard = true.

  Theorem delete_refines t k : WF mn t ->
    match delete d ksz guard t k with
    | Err e => e = PageOverflow
    | Ok (t', b) => WF mn t' /\ abs (root t') = mm_delete (abs (root t)) k /\ b = mm_mem (abs (root t)) k
    end.
  Proof.
    intros H. unfold delete.
    pose proof (delete_gen_refines d ksz guard d_ge mn mn_le mn_guard k _ t (delete_all_local k) H) as P.
    destruct (delete_gen d ksz guard (leaf_delete_all k) t k) as [[t' b]|e]; [|exact P].
    destruct P as [P1 P2]. split; auto.
    destruct H as [_ H]. apply wf_seg in H. destruct H as (Hs & _).
    pose proof (delete_all_filter k _ Hs) as Q.
    destruct (leaf_delete_all k (abs (root t))) as [m'|].
    - destruct P2 as [-> ->]. destruct Q as [-> ->]. auto.
    - destruct P2 as [-> ->]. destruct Q as [-> ->]. auto.
  Qed.

  Theorem delete_specific_refines t k r : WF mn t ->
    match delete_specific d ksz guard t k r with
    | Err e => e = PageOverflow
    | Ok (t', b) => WF mn t' /\ (abs (root t'), b) = mm_delete_one (abs (root t)) k r
    end.
  Proof.
    intros H. unfold delete_specific.
    pose proof (delete_gen_refines d ksz guard d_ge mn mn_le mn_guard k _ t (delete_one_local k r) H) as P.
    destruct (delete_gen d ksz guard (leaf_delete_one k r) t k) as [[t' b]|e]; [|exact P].
    destruct P as [P1 P2]. split; auto. unfold mm_delete_one.
    destruct (leaf_delete_one k r (abs (root t))) as [m'|].
    - destruct P2 as [-> ->]. auto.
    - destruct P2 as [-> ->]. auto.
  Qed.

  (** * one step of a history *)
  Theorem step_refines t o : WF mn t ->
    match step d ksz guard t o with
    | Err e => e = PageOverflow
    | Ok (t', a) => WF mn t' /\ (abs (root t'), a) = mm_step (abs (root t)) o
    end.
  Proof.
    intros H. destruct o as [k r|k|k r|k|ks|s e is ie|]; cbn [step mm_step].
    - pose proof (insert_refines d ksz d_ge mn t k r mn_le H) as P.
      destruct (insert d ksz t k r) as [t'|e]; cbn [bind]; [|exact P]. destruct P as [P1 ->]. auto.
    - pose proof (delete_refines t k H) as P.
      destruct (delete d ksz guard t k) as [[t' b]|e]; cbn [bind]; [|exact P]. destruct P as (P1 & -> & ->). auto.
    - pose proof (delete_specific_refines t k r H) as P.
      destruct (delete_specific d ksz guard t k r) as [[t' b]|e]; cbn [bind]; [|exact P]. destruct P as (P1 & P2).
      rewrite <- P2. auto.
    - rewrite (lookup_spec mn t k H). cbn. auto.
    - rewrite (multi_lookup_spec mn t ks H). cbn. auto.
    - rewrite (range_scan_spec mn t s e is ie H). cbn. auto.
    - auto.
  Qed.

  (** * histories: the implementation's answers are the specification's answers, possibly cut short
        by a page overflow (the only error a well-formed tree can produce) *)
  Inductive refines : list answer -> list answer -> Prop :=
  | ref_nil : refines [] []
  | ref_cons a i s : refines i s -> refines (a :: i) (a :: s)
  | ref_overflow b s : refines [AErr PageOverflow] (b :: s).

  Theorem run_refines : forall ops t, WF mn t -> refines (run d ksz guard t ops) (mm_run (abs (root t)) ops).
  Proof.
    induction ops as [|o ops IH]; intros t H; cbn [run mm_run]; [constructor|].
    pose proof (step_refines t o H) as P.
    destruct (step d ksz guard t o) as [[t' a]|e].
    - destruct P as [P1 P2]. rewrite <- P2. constructor. auto.
    - subst e. destruct (mm_step (abs (root t)) o). constructor.
  Qed.

  Theorem run_state_refines : forall ops t, WF mn t ->
    match run_state d ksz guard t ops with
    | Err e => e = PageOverflow
    | Ok t' => WF mn t' /\ abs (root t') = mm_run_state (abs (root t)) ops
    end.
  Proof.
    induction ops as [|o ops IH]; intros t H; cbn [run_state mm_run_state]; [auto|].
    pose proof (step_refines t o H) as P.
    destruct (step d ksz guard t o) as [[t' a]|e]; cbn [bind]; [|exact P].
    destruct P as [P1 P2]. rewrite <- P2. cbn [fst]. apply IH. exact P1.
  Qed.

End Seq.

Lemma WF_empty m : WF m (mkTree (Leaf []) 1).
Proof. split; cbn; auto. split; auto. apply seg_nil. Qed.

(** ** the code as it is ([guard] arbitrary): trees without single-child internal nodes *)
Section Seq1.
  Variable d : nat.
  Variable ksz : key -> Z.
  Variable guard : bool.
  Hypothesis d_ge : 4 <= d.
  Let H1 : 1 = 1 \/ guard = true := or_introl eq_refl.

  Definition delete_refines_wf1 := delete_refines d ksz guard d_ge 1 (le_n 1) H1.
  Definition delete_specific_refines_wf1 := delete_specific_refines d ksz guard d_ge 1 (le_n 1) H1.
  Definition step_refines_wf1 := step_refines d ksz guard d_ge 1 (le_n 1) H1.
  Definition run_refines_wf1 := run_refines d ksz guard d_ge 1 (le_n 1) H1.
  Definition run_state_refines_wf1 := run_state_refines d ksz guard d_ge 1 (le_n 1) H1.

  Corollary run_from_empty ops : refines (run d ksz guard (mkTree (Leaf []) 1) ops) (mm_run [] ops).
  Proof. exact (run_refines_wf1 ops _ (WF_empty 1)). Qed.
End Seq1.

(** ** the code with fixes/C17-rebalance-single-child.patch ([guard = true]): single-child internal
    nodes (as bulk_load builds them) are tolerated *)
Section Seq0.
  Variable d : nat.
  Variable ksz : key -> Z.
  Hypothesis d_ge : 4 <= d.
  Let H0 : 0 = 1 \/ true = true := or_intror eq_refl.

  Definition delete_refines_guarded := delete_refines d ksz true d_ge 0 (le_S _ _ (le_n 0)) H0.
  Definition delete_specific_refines_guarded := delete_specific_refines d ksz true d_ge 0 (le_S _ _ (le_n 0)) H0.
  Definition run_refines_guarded := run_refines d ksz true d_ge 0 (le_S _ _ (le_n 0)) H0.
  Definition run_state_refines_guarded := run_state_refines d ksz true d_ge 0 (le_S _ _ (le_n 0)) H0.
End Seq0.

(** * The specification is an ordered multimap *)
Definition sorted_mm (m : mm) : Prop := seg None None m.

Lemma sorted_mm_insert m k r : sorted_mm m -> sorted_mm (mm_insert m k r).
Proof. intros H. apply seg_insert; auto. split; exact I. Qed.

Lemma sorted_mm_delete m k : sorted_mm m -> sorted_mm (mm_delete m k).
Proof.
  intros H. pose proof (delete_all_filter k m (proj1 H)) as Q.
  destruct (leaf_delete_all k m) as [m'|] eqn:E.
  - destruct Q as [_ <-]. eapply (lop_seg _ _ (delete_all_local k)); eauto.
  - destruct Q as [_ ->]. exact H.
Qed.

Lemma sorted_mm_delete_one m k r : sorted_mm m -> sorted_mm (fst (mm_delete_one m k r)).
Proof.
  intros H. unfold mm_delete_one. destruct (leaf_delete_one k r m) as [m'|] eqn:E; cbn; auto.
  eapply (lop_seg _ _ (delete_one_local k r)); eauto.
Qed.

Lemma mm_lookup_insert_same : forall m k r, sorted_mm m -> mm_lookup (mm_insert m k r) k = mm_lookup m k ++ [r].
Proof.
  unfold mm_lookup, mm_insert. induction m as [|[k' rs] m IH]; intros k r H; cbn.
  - now rewrite Z.eqb_refl.
  - destruct (k <? k')%Z eqn:E1.
    + cbn. rewrite Z.eqb_refl. apply Z.ltb_lt in E1.
      destruct (k' =? k)%Z eqn:E2; [apply Z.eqb_eq in E2; lia|].
      (* k is smaller than every key of m *)
      destruct H as (Hs & _). cbn in Hs. inversion Hs; subst.
      assert (leaf_search m k = []) as ->; auto.
      clear - H2 E1. induction m as [|[k2 rs2] m IHm]; cbn; auto. inversion H2; subst. cbn in H1.
      destruct (k2 =? k)%Z eqn:E; [apply Z.eqb_eq in E; lia|]. auto.
    + destruct (k =? k')%Z eqn:E2.
      * apply Z.eqb_eq in E2. subst. cbn. now rewrite Z.eqb_refl.
      * cbn. rewrite Z.eqb_sym, E2. apply IH. eapply seg_tail; eauto.
Qed.

Lemma mm_lookup_insert_other : forall m k k' r, k <> k' -> mm_lookup (mm_insert m k r) k' = mm_lookup m k'.
Proof.
  unfold mm_lookup, mm_insert. induction m as [|[k2 rs] m IH]; intros k k' r Hn; cbn.
  - destruct (k =? k')%Z eqn:E; [apply Z.eqb_eq in E; congruence|]. reflexivity.
  - destruct (k <? k2)%Z.
    + cbn. destruct (k =? k')%Z eqn:E; [apply Z.eqb_eq in E; congruence|]. reflexivity.
    + destruct (k =? k2)%Z eqn:E2.
      * apply Z.eqb_eq in E2. subst. cbn.
        destruct (k2 =? k')%Z eqn:E; [apply Z.eqb_eq in E; congruence|]. reflexivity.
      * cbn. destruct (k2 =? k')%Z; auto.
Qed.

Lemma mm_lookup_delete_same : forall m k, mm_lookup (mm_delete m k) k = [].
Proof.
  unfold mm_lookup, mm_delete. induction m as [|[k2 rs] m IH]; intros k; cbn; auto.
  destruct (k2 =? k)%Z eqn:E; cbn; auto. rewrite E. auto.
Qed.

Lemma mm_lookup_delete_other : forall m k k', k <> k' -> mm_lookup (mm_delete m k) k' = mm_lookup m k'.
Proof.
  unfold mm_lookup, mm_delete. induction m as [|[k2 rs] m IH]; intros k k' Hn; cbn; auto.
  destruct (k2 =? k)%Z eqn:E; cbn.
  - apply Z.eqb_eq in E. subst. destruct (k =? k')%Z eqn:E'; [apply Z.eqb_eq in E'; congruence|]. auto.
  - destruct (k2 =? k')%Z; auto.
Qed.

(** * Examples: the hypotheses are satisfiable by non-trivial inputs *)
Definition ex_ksz (_ : key) : Z := 13%Z.
Definition ex_tree : tree :=
  mkTree (Node [30%Z]
            [Node [10%Z; 20%Z] [Leaf [(1%Z, [1%Z]); (5%Z, [5%Z; 6%Z])]; Leaf [(10%Z, [10%Z]); (15%Z, [15%Z])];
                                Leaf [(20%Z, [20%Z]); (25%Z, [25%Z])]];
             Node [40%Z] [Leaf [(30%Z, [30%Z]); (35%Z, [35%Z])]; Leaf [(40%Z, [40%Z]); (45%Z, [45%Z])]]]) 3.

Example ex_tree_WF : WF 1 ex_tree.
Proof. apply WFb_sound. vm_compute. reflexivity. Qed.

(** a history with a split, a borrow, a merge and a root collapse, evaluated on the model *)
Example ex_history :
  run 5 ex_ksz false ex_tree [OInsert 7%Z 70%Z; OInsert 8%Z 80%Z; OInsert 9%Z 90%Z; ODelete 40%Z; ODelete 45%Z;
                        ODelete 30%Z; OLookup 35%Z; ORange (Some 5%Z) (Some 20%Z) false true; ODeleteOne 5%Z 5%Z;
                        OMulti [5%Z; 9%Z; 40%Z]]
  = mm_run (abs (root ex_tree)) [OInsert 7%Z 70%Z; OInsert 8%Z 80%Z; OInsert 9%Z 90%Z; ODelete 40%Z; ODelete 45%Z;
                        ODelete 30%Z; OLookup 35%Z; ORange (Some 5%Z) (Some 20%Z) false true; ODeleteOne 5%Z 5%Z;
                        OMulti [5%Z; 9%Z; 40%Z]].
Proof. vm_compute. reflexivity. Qed.
