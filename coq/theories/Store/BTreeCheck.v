(** C17 -- a boolean checker for the well-formedness predicate [wf] of Store/BTreeLaws.v, with its
    soundness proof.  Used for the examples and by the correspondence runner to check that the page
    dump of the real index satisfies the very predicate the theorems are about. *)
From Coq Require Import List ZArith Bool Arith Lia Sorted.
From VibeSQL Require Import Store.BTree Store.BTreeLemmas Store.BTreeLaws.
Import ListNotations.
Local Open Scope nat_scope.
Arguments seg : simpl never.

Definition lo_leb (lo : bound) (x : Z) : bool := match lo with None => true | Some l => (l <=? x)%Z end.
Definition lo_ltb (lo : bound) (x : Z) : bool := match lo with None => true | Some l => (l <? x)%Z end.
Definition lt_hib (x : Z) (hi : bound) : bool := match hi with None => true | Some h => (x <? h)%Z end.

Fixpoint sortedb (l : list Z) : bool :=
  match l with
  | [] => true
  | x :: r => forallb (fun y => (x <? y)%Z) r && sortedb r
  end.

Definition nonnil {A} (l : list A) : bool := match l with [] => false | _ => true end.

Definition segb (lo hi : bound) (es : list entry) : bool :=
  sortedb (map fst es) && forallb (fun k => lo_leb lo k && lt_hib k hi) (map fst es)
  && forallb (fun e => nonnil (snd e)) es.

Fixpoint wfcb (Wb : bound -> bound -> node -> bool) (lo hi : bound) (ks : list key) (cs : list node) : bool :=
  match ks, cs with
  | [], [c] => Wb lo hi c
  | k :: ks', c :: cs' => lo_ltb lo k && lt_hib k hi && Wb lo (Some k) c && wfcb Wb (Some k) hi ks' cs'
  | _, _ => false
  end.

Fixpoint wfb (m h : nat) (lo hi : bound) (t : node) : bool :=
  match h with
  | O => false
  | S h' =>
    match t with
    | Leaf es => (h' =? 0) && segb lo hi es
    | Node ks cs => negb (h' =? 0) && (m <=? length ks) && wfcb (wfb m h') lo hi ks cs
    end
  end.

Definition WFb (m : nat) (t : tree) : bool := (1 <=? height t) && wfb m (height t) None None (root t).

Lemma sortedb_sound l : sortedb l = true -> StronglySorted Z.lt l.
Proof.
  induction l as [|x r IH]; cbn; intros H; constructor.
  - apply andb_prop in H as [_ H]. auto.
  - apply andb_prop in H as [H _]. rewrite forallb_forall in H. apply Forall_forall.
    intros y Hy. apply Z.ltb_lt. auto.
Qed.

Lemma segb_sound lo hi es : segb lo hi es = true -> seg lo hi es.
Proof.
  unfold segb. intros H. apply andb_prop in H as [H H3]. apply andb_prop in H as [H1 H2].
  split; [|split].
  - now apply sortedb_sound.
  - apply Forall_forall. intros k Hk. rewrite forallb_forall in H2. specialize (H2 k Hk).
    apply andb_prop in H2 as [A B]. split.
    + destruct lo; cbn in *; auto. now apply Z.leb_le.
    + destruct hi; cbn in *; auto. now apply Z.ltb_lt.
  - apply Forall_forall. intros e He. rewrite forallb_forall in H3. specialize (H3 e He).
    destruct (snd e); cbn in *; congruence.
Qed.

Lemma wfcb_sound (Wb : bound -> bound -> node -> bool) (W : bound -> bound -> node -> Prop) :
  (forall lo hi c, Wb lo hi c = true -> W lo hi c) ->
  forall ks cs lo hi, wfcb Wb lo hi ks cs = true -> wfc W lo hi ks cs.
Proof.
  intros HW. induction ks as [|k ks IH]; intros [|c cs] lo hi H; cbn in *; try discriminate.
  - destruct cs; [auto|discriminate].
  - apply andb_prop in H as [H H4]. apply andb_prop in H as [H H3]. apply andb_prop in H as [H1 H2].
    repeat split; auto.
    + destruct lo; cbn in *; auto. now apply Z.ltb_lt.
    + destruct hi; cbn in *; auto. now apply Z.ltb_lt.
Qed.

Lemma wfb_sound m : forall h lo hi t, wfb m h lo hi t = true -> wf m h lo hi t.
Proof.
  induction h as [|h IH]; intros lo hi [es|ks cs] H; cbn [wfb] in H; try discriminate.
  - apply andb_prop in H as [H1 H2]. apply Nat.eqb_eq in H1. rewrite wf_leaf_unfold.
    split; auto. now apply segb_sound.
  - apply andb_prop in H as [H H3]. apply andb_prop in H as [H1 H2].
    rewrite wf_node_unfold. split; [|split].
    + intros E. subst. discriminate.
    + now apply Nat.leb_le.
    + eapply wfcb_sound; eauto.
Qed.

Theorem WFb_sound m t : WFb m t = true -> WF m t.
Proof.
  unfold WFb. intros H. apply andb_prop in H as [H1 H2]. split.
  - now apply Nat.leb_le.
  - now apply wfb_sound.
Qed.
