(** * Lex/EndToEnd.v — lexer model and parser skeleton composed: from the TEXT to the stack depth.

    [text_depth_unbounded]: for every [d] there is an input text of at most [2*d + 9] characters that
    the lexer turns into tokens (no error) and that drives the parser skeleton to at least [d]
    simultaneously active frames.  This is the refutation of C23 stated on the input the user
    types, not on token streams. *)
From Coq Require Import List ZArith Bool Arith Lia.
From VibeSQL Require Import Lex.Lexer Lex.LexerLaws Lex.ParseSkel Lex.ParseSkelLaws.
Import ListNotations.

Lemma map_repeat {A B} (f : A -> B) x k : map f (repeat x k) = repeat (f x) k.
Proof. induction k as [|k IH]; cbn; [reflexivity | rewrite IH; reflexivity]. Qed.

(** the tokens of [SELECT((..(1)..))] are the skeleton statement [paren_stmt] *)
Lemma paren_text_skeleton ua uu k :
  exists ts, tokenize ua uu (paren_text (S k)) = Ok ts /\ map skel_of_token ts = paren_stmt (S k).
Proof.
  eexists. split; [apply lex_paren_text|].
  unfold paren_stmt, parens. cbn [map]. rewrite map_app. cbn [map]. rewrite map_app.
  rewrite !map_repeat. reflexivity.
Qed.

Lemma paren_text_length k : length (paren_text k) = (2 * k + 7)%nat.
Proof.
  unfold paren_text. rewrite !app_length. cbn [length]. rewrite !repeat_length. lia.
Qed.

Theorem text_depth_unbounded ua uu (d : nat) :
  exists cs ts, (length cs <= 2 * d + 9)%nat /\
                tokenize ua uu cs = Ok ts /\
                skel_accepts (map skel_of_token ts) = Some true /\
                (d <= skel_depth (map skel_of_token ts))%nat.
Proof.
  destruct (paren_text_skeleton ua uu d) as (ts & Hlex & Hsk).
  exists (paren_text (S d)), ts. repeat split.
  - rewrite paren_text_length. lia.
  - exact Hlex.
  - rewrite Hsk. apply witnesses_accepted.
  - rewrite Hsk. rewrite depth_parens_exact. lia.
Qed.

Example text_depth_unbounded_nontrivial :
  exists ts, tokenize_ascii (paren_text 30) = Ok ts /\ skel_depth (map skel_of_token ts) = 314%nat /\
             length (paren_text 30) = 67%nat.
Proof. eexists. vm_compute. repeat split. Qed.
